import H2T.Lemmas.FitsBlock
import H2T.Lemmas.ConserveTree
import H2T.Lemmas.ConserveTableTree
import H2T.Lemmas.TagText
import H2T.Lemmas.TagTextTable
import H2T.Lemmas.ConserveTableExact
import H2T.Lemmas.DomFactor
import H2T.Props.C15
import H2T.Props.C04

/-! # C03 — document text is preserved: nothing lost, duplicated, reordered or invented

Status: **partial**.  The full statement (`text_preserved_full`) is about whole documents and is *refuted* for the
unchanged code in the situations recorded as known findings (text in `caption`/`tfoot`, stray children of
`ol`/`dl`, cells whose column is allocated zero width).  What is proved here are the conservation facts of the
individual mechanisms the text passes through: every non-whitespace character enters the pending word; placing
a word moves it whole; the hard-wrap scan splits a piece without losing or reordering a cell; prefixing and
padding only *add* characters around a line; the strikeout filter only adds marks.  For a whole paragraph in normal
flow the conservation statement is proved end to end (`paragraph_text_conserved`, a corollary of the C04 refinement):
whatever the split into text nodes, inline elements and fragment markers, and whatever the width, the non-whitespace
characters of the lines are exactly the word characters of the text, in order.  **Whole-run theorems** (new): the wrap layer conserves text in *every* white-space mode, with or without overflow and
padding (`wrap_layer_conserves`: what a `WrappedBlock` holds — finished lines, current line, pending word — is what it
held before plus exactly the non-whitespace, non-control characters of the added text, in order; `into_lines` emits
exactly that); for every **table-free program whose block prefixes are whitespace** the non-whitespace characters of the
rendered lines are exactly the ink of the program, in order (`rendering_conserves_ink`: wrapping, hard wrapping, tab
expansion, blocks, nested sub-renderers, flushing and markers neither lose, duplicate, reorder nor invent a character);
and for simple trees under the trivial decorator that ink is the text of the tree (`trivial_text_preserved`).  **Tables
included, nothing is invented or duplicated** (`no_character_invented`, `Lemmas/ConserveTable`): for *every* render tree —
tables, nested tables, stacked rows, border collapsing, cells of zero width — under a decorator with whitespace block
prefixes, every character other than a box-drawing character, `/` and the strikeout mark occurs in the output at most as
often as in the tree's texts; and one finished row adds exactly what its cells hold (`row_adds_its_cells`): the only loss
in a table is a cell that is never rendered because its columns got no width (the known drop regions).  Exact
conservation through tables as a sequence, non-whitespace prefixes (which need a provenance bit to separate from document text) and footnotes are decided by
correspondence (`src` stream of model vs implementation) and by the search oracle against an independent walk of the
oracle DOM. -/

namespace H2T.C03

/-- the characters of a line, in order -/
def cellsOf (l : TLine) : List Cell := l.filterMap fun e => match e with | .cell c => some c | .frag _ => none

/-- **Full statement** (kept visible; decided by correspondence + search, refuted in the known-finding regions):
    the non-whitespace document characters of the output, in order, are the visible characters of the tree. -/
def text_preserved_full (visible : RNode → List Ch) : Prop :=
  ∀ (cfg : Cfg) (d : Deco) (w : Nat) (tree : RNode) (ls : List RLine), renderTree cfg d w tree = .ok ls →
    ∃ (docChars : List Ch), docChars = visible tree ∧
      (docChars.filter (fun c => !c.ws)).Sublist ((ls.flatMap fun l => match l with | .text tl => (cellsOf tl).map (·.ch) | .rule _ _ => []))

/-- every non-whitespace character with a width is appended to the pending word — none is dropped at entry -/
theorem char_enters_word (b : WB) (m : WS) (mt wt : Tag) (cur : Bool) (c : Ch) (hc : c.ws = false) (hk : c.ctrl = false) :
    ∃ b' cur', b.addChar m mt wt cur c = .ok (b', cur') ∧ (cellsOf b'.word).map (·.ch) = (cellsOf b.word).map (·.ch) ++ [c] ∧
      b'.line = b.line ∧ b'.text = b.text := by
  simp only [WB.addChar, hc, hk, Bool.false_and, Bool.false_eq_true, if_false]
  exact ⟨_, _, rfl, by simp [cellsOf, List.filterMap_append], rfl, rfl⟩

/-- placing a word that fits moves it whole onto the line, after the pending spaces -/
theorem place_moves_word_whole (b b' : WB) (h : b.placeFits = .ok b') :
    ∃ spaces, b'.line = b.line ++ spaces ++ b.word ∧ (∀ e ∈ spaces, ∃ t, e = spc t) ∧ b'.word = [] ∧ b'.text = b.text := by
  unfold WB.placeFits at h
  split at h
  · cases hs : b.spacetag with
    | none => simp [hs] at h
    | some t =>
      simp only [hs] at h; injection h with h; subst h
      exact ⟨List.replicate b.wslen (spc t), by simp [WB.pushWs], fun e he => ⟨t, (List.eq_of_mem_replicate he)⟩, rfl, rfl⟩
  · injection h with h; subst h
    exact ⟨[], by simp, fun e he => by simp at he, rfl, rfl⟩

/-- the hard-wrap scan splits a piece into "what fits" and "the rest" without losing, duplicating or
    reordering a cell -/
theorem scan_conserves (cs : List Cell) (ll wpos : Nat) :
    (scanFit ll wpos cs).1 ++ (scanFit ll wpos cs).2.1 = cs :=
  (scanFit_spec cs ll wpos).1

/-- a word is cut into pieces and markers whose concatenation is the word -/
theorem items_conserve (l : TLine) :
    (itemsOf l).flatMap (fun i => match i with | .piece p => p | .frag _ => []) = cellsOf l := by
  induction l with
  | nil => rfl
  | cons e es ih =>
    cases e with
    | frag n => simp [itemsOf, cellsOf] at ih ⊢; exact ih
    | cell c =>
      simp only [itemsOf]
      split
      · rename_i p ps c' rest heq1 heq2
        split <;> simp_all [cellsOf]
      · simp_all [cellsOf]

/-- prefixing a line (quote mark, bullet, number, indentation) keeps the line's own elements as a suffix -/
theorem prefix_keeps_line (tag : Tag) (p : List Ch) (tl : TLine) :
    ∃ pre, prefixLine tag p (.text tl) = .text (pre ++ tl) ∧ ∀ e ∈ pre, ∃ c, e = Elt.cell ⟨c, tag⟩ ∧ c ∈ p := by
  by_cases hp : p.isEmpty = true
  · exact ⟨[], by simp [prefixLine, hp], fun e he => by simp at he⟩
  · refine ⟨p.map (fun c => Elt.cell ⟨c, tag⟩), by simp [prefixLine, hp], ?_⟩
    intro e he
    simp only [List.mem_map] at he
    obtain ⟨c, hc, rfl⟩ := he
    exact ⟨c, rfl, hc⟩

/-- padding a table cell's line only appends spaces -/
theorem pad_only_appends_spaces (tag : Tag) (w : Nat) (tl : TLine) :
    padLine tag w (.text tl) = .text (tl ++ List.replicate (w - lw tl) (spc tag)) := rfl

/-- the strikeout filter only adds combining marks (restated from C15) -/
theorem strike_keeps_text (s : List Ch) (h : ∀ c ∈ s, C15.isMark c = false) :
    (strikeFilter s).filter (fun c => !C15.isMark c) = s :=
  C15.strike_only_adds_marks s h

/-- **a paragraph's text is conserved** (wrap layer, normal flow, default options): for every split of the text
    over `add_text` calls with arbitrary tags and fragment markers and every width ≥ 1, if the block returns lines
    then their non-whitespace characters are exactly the text's word characters, in document order -/
theorem paragraph_text_conserved (w : Nat) (parts : List Part) (ls : List (List Ch)) (hw : 1 ≤ w)
    (hpos : ∀ wd ∈ Spec.words (partsText parts), 0 < Spec.lwc wd) (h : C04.wrapParts w parts = .ok ls) :
    nonWs ls.flatten = wordChars (partsText parts) :=
  C04.wrap_conserves_text w parts ls hw hpos h

/-- **the wrap layer conserves text, in every mode**: `add_text` in normal, `pre` or `pre-wrap` mode, with any tags, with or
    without overflow and padding: the block afterwards holds what it held plus exactly the non-whitespace, non-control
    characters of the text, in order; and `into_lines` emits exactly what the block holds -/
theorem wrap_layer_conserves (b b' : WB) (m : WS) (mt wt : Tag) (cs : List Ch) (h : b.addText m mt wt cs = .ok b') :
    b'.ink = b.ink ++ keep cs ∧ ∀ ls, b'.finish = .ok ls → ls.flatMap ink = b.ink ++ keep cs :=
  ⟨addText_ink b b' m mt wt cs h, fun ls hl => by rw [finish_ink b' ls hl, addText_ink b b' m mt wt cs h]⟩

/-- **whole renderings conserve ink** (table-free trees, whitespace block prefixes, footnotes off): the non-whitespace
    characters of the returned lines are exactly the program's ink, in program (= document) order -/
theorem rendering_conserves_ink (cfg : Cfg) (d : Deco) (w : Nat) (tree : RNode) (ls : List RLine) (hfn : cfg.footnotes = false)
    (hd : SilentDeco d) (hnt : noTable tree = true) (h : renderTree cfg d w tree = .ok ls) :
    ls.flatMap rink = (opsInk cfg d 0 (compile cfg d tree)).1 :=
  renderTree_ink cfg d w tree ls hfn (compile_silent cfg d hd tree hnt) h

/-- **document text is preserved exactly** under the trivial decorator, for simple trees: the non-whitespace characters of
    the output are the non-whitespace characters of the tree's text nodes, in document order -/
theorem trivial_text_preserved (cfg : Cfg) (w : Nat) (tree : RNode) (ls : List RLine) (hfn : cfg.footnotes = false)
    (hs : simpleTree tree = true) (h : renderTree cfg Deco.trivial w tree = .ok ls) : ls.flatMap rink = plainText tree :=
  H2T.trivial_text_preserved cfg w tree ls hfn hs h

/-- non-vacuity of `trivial_text_preserved`: a quote holding a list, emphasis and a link, at width 5 (so that words are
    hard-wrapped): the tree is simple, renders, and its ink is `alphabetagammadelta` -/
example :
    let tree : RNode := .box {} .quote [.box {} .ul [.box {} .li [.text {} (strCh "alpha "), .box {} .em [.text {} (strCh "beta")]],
                                                      .box {} .li [.box {} (.link (strCh "u")) [.text {} (strCh "gamma delta")]]]]
    simpleTree tree = true ∧ ((renderTree {} Deco.trivial 5 tree).toOption.map fun ls => (ls.flatMap rink).map (·.cp))
      = some ((strCh "alphabetagammadelta").map (·.cp)) := by decide +kernel

/-! non-vacuity: "ab cdefgh" at width 4: all eight letters come out, in order, over three lines -/
example :
    ((({ width := 4 } : WB).addText .normal [] [] (strCh "ab cdefgh")).toOption.bind fun b =>
        b.finish.toOption.map fun ls => ls.map fun l => (cellsOf l).map (·.ch.cp))
      = some [[97, 98], [99, 100, 101, 102], [103, 104]] := by decide +kernel

/-! ## tables -/

/-- **nothing is invented or duplicated — tables included**: for every render tree (tables, nested tables, stacked rows,
    border collapsing), every width and configuration with footnotes off, under a decorator whose block prefixes are
    whitespace: every character `c` that is not a box-drawing character, `/` (the rule of stacked rows) or the strikeout
    mark occurs in the rendered lines at most as often as in the tree's texts (`nodeRaw`: text nodes, image texts and the
    decorator's inline affixes, in document order) -/
theorem no_character_invented (c : Ch) (hc : isBox c = false) (hm : c ≠ strikeMark) (cfg : Cfg) (d : Deco) (w : Nat) (tree : RNode)
    (ls : List RLine) (hfn : cfg.footnotes = false) (hd : SilentDeco d) (h : renderTree cfg d w tree = .ok ls) :
    (ls.flatMap rink).count c ≤ (nodeRaw d tree).count c :=
  renderTree_no_invention_tree c hc hm cfg d w tree ls hfn hd h

/-- **a side-by-side row adds exactly what its cells hold** (for characters other than box-drawing ones): padding,
    separators, border collapsing and the bottom rule neither lose nor add a text character -/
theorem row_adds_its_cells (c : Ch) (hc : isBox c = false) (s s' : SubR) (cfg : Cfg) (cols : List SubR) (hf : s.FragsOk)
    (hcf : ∀ col ∈ cols, col.FragsOk) (h : s.appendColumns cfg cols = .ok s') :
    s'.ink.count c = s.ink.count c + (cols.map fun col => col.ink.count c).sum :=
  (appendColumns_cnt c hc s s' cfg cols hf hcf h).1

/-- …and so does a stacked row -/
theorem stacked_row_adds_its_cells (c : Ch) (hc : isBox c = false) (s s' : SubR) (cfg : Cfg) (cols : List SubR) (hf : s.FragsOk)
    (hcf : ∀ col ∈ cols, col.FragsOk) (h : s.appendVertRow cfg cols = .ok s') :
    s'.ink.count c = s.ink.count c + (cols.map fun col => col.ink.count c).sum :=
  (appendVertRow_cnt c hc s s' cfg cols hf hcf h).1

/-- **a regular table conserves its text exactly**: a side-by-side table whose columns all have width, whose rows tile
    the columns and whose cells hold table-free content adds — per character that has width and is neither a box-drawing
    character nor the strikeout mark — exactly the occurrences in its cells' texts: nothing lost, nothing duplicated
    (the multiset half of the property for bordered tables; without these hypotheses cells can be skipped: `≤` only) -/
theorem regular_table_conserves_text (c : Ch) (hc : isBox c = false) (hm : c ≠ strikeMark) (hw : 0 < c.w) (cfg : Cfg) (d : Deco)
    (hfn : cfg.footnotes = false) (hov : cfg.overflow = false) (cols : List SizeEst) (rows : List Op) (t t' : RS) (ws : List Nat) (tw : Nat)
    (ha : allocCols cfg t.cur.width cols = .ok (ws, false, tw)) (hpos : ∀ x ∈ ws, 0 < x)
    (hwf : wfRows rows = true) (hreg : regRows ws.length rows = true) (hsil : rowsSilent rows = true) (hfr : t.cur.FragsOk)
    (he : runOp SubR.widthMinus cfg d t (.table cols rows) = .ok t') :
    t'.cur.ink.count c = t.cur.ink.count c + (rawInks d rows).count c :=
  table_cnt_eq c hc hm hw cfg d hfn hov cols rows t t' ws tw ha hpos hwf hreg hsil hfr he

/-- **nothing invented or duplicated, whole pipeline**: whatever the document and the style sheets, the characters of a
    `.lines` outcome occur at most as often as in the texts of the render tree the front end built -/
theorem no_character_invented_pipeline (c : Ch) (hc : isBox c = false) (hm : c ≠ strikeMark) (cfg : Cfg) (d : Deco) (w : Nat)
    (useDoc : Bool) (agentCss userCss : Option (List Char)) (ci : CharInfo) (depth : Nat) (dom : Node) (ls : List RLine)
    (hfn : cfg.footnotes = false) (hd : SilentDeco d)
    (h : renderDom cfg d w useDoc agentCss userCss ci depth dom = .lines ls) :
    ∃ tree, domTree cfg.decorate useDoc agentCss userCss ci depth dom = .ok tree ∧
      (ls.flatMap rink).count c ≤ (nodeRaw d tree).count c := by
  obtain ⟨tree, hdt, _, hr⟩ := renderDom_lines cfg d w useDoc agentCss userCss ci depth dom ls h
  exact ⟨tree, hdt, no_character_invented c hc hm cfg d w tree ls hfn hd hr⟩

/-! non-vacuity: the letter `a` is neither a box character nor the strikeout mark; the trivial decorator is silent -/
example : isBox (mkCh 97) = false ∧ mkCh 97 ≠ strikeMark ∧ SilentDeco Deco.trivial := ⟨rfl, by decide, trivial_silent⟩

/-! ## exact conservation under the stock decorators (visible block prefixes) -/

/-- **document text is conserved exactly under decorators with visible prefixes**: for every render tree without tables
    and `<pre>`, every width and configuration (footnotes off, no Unicode strikeout), every decorator and every alphabet
    `P` its block prefixes avoid: the `P`-characters of the rendered lines are the `P`-characters of the tree's texts
    (`nodeRaw`), each exactly once and in document order.  (A prefix such as `* ` is repeated on every line of its block,
    which is why it is excluded by the alphabet rather than counted.) -/
theorem text_conserved_with_prefixes (P : Ch → Bool) (cfg : Cfg) (d : Deco) (w : Nat) (tree : RNode) (ls : List RLine)
    (hfn : cfg.footnotes = false) (hu : cfg.unicodeStrike = false) (hd : DecoAvoids P d) (ht : plainTree tree = true)
    (h : renderTree cfg d w tree = .ok ls) : (ls.flatMap rink).filter P = (nodeRaw d tree).filter P :=
  renderTree_chars_raw P cfg d w tree ls hfn hu hd ht h

/-- the plain decorator (what `from_read` uses): everything except `#`, `>`, `*`, `-`, `.` and digits -/
theorem plain_text_conserved (cfg : Cfg) (w : Nat) (tree : RNode) (ls : List RLine)
    (hfn : cfg.footnotes = false) (hu : cfg.unicodeStrike = false) (ht : plainTree tree = true)
    (h : renderTree cfg Deco.plain w tree = .ok ls) : (ls.flatMap rink).filter richAlpha = (nodeRaw Deco.plain tree).filter richAlpha :=
  renderTree_chars_raw richAlpha cfg Deco.plain w tree ls hfn hu plain_avoids ht h

/-- non-vacuity: a list with a link and a quoted paragraph at width 9 under the plain decorator -/
example :
    let tree : RNode := .box {} .container [.box {} .ul [.box {} .li [.text {} (strCh "ab cd"), .box {} (.link (strCh "u")) [.text {} (strCh "ef")]],
      .box {} .quote [.box {} .block [.text {} (strCh "gh ij")]]]]
    plainTree tree = true ∧
    ((renderTree { footnotes := false } Deco.plain 9 tree).toOption.map fun ls => ((ls.flatMap rink).filter richAlpha).map (·.cp)) =
      some ((nodeRaw Deco.plain tree).filter richAlpha |>.map (·.cp)) ∧
    ((nodeRaw Deco.plain tree).filter richAlpha).map (·.cp) = [97, 98, 99, 100, 91, 101, 102, 93, 103, 104, 105, 106] := by decide +kernel

/-! ## nothing invented under the stock decorators, tables included -/

/-- **nothing is invented or duplicated — every render tree, decorators with visible prefixes**: for every decorator,
    every alphabet `P` its block prefixes avoid and every character `c` in `P` that is not box-drawing: `c` occurs in the
    rendered lines at most as often as in the tree's texts (tables, nested tables, stacked rows included; footnotes off, no
    Unicode strikeout).  `no_character_invented` above needs whitespace prefixes; this one covers `* `, `> `, `# `, `1. `. -/
theorem no_character_invented_visible_prefixes (P : Ch → Bool) (c : Ch) (hcb : isBox c = false) (hcP : P c = true) (cfg : Cfg)
    (d : Deco) (w : Nat) (tree : RNode) (ls : List RLine) (hfn : cfg.footnotes = false) (hu : cfg.unicodeStrike = false)
    (hd : DecoAvoids P d) (h : renderTree cfg d w tree = .ok ls) : (ls.flatMap rink).count c ≤ (nodeRaw d tree).count c :=
  renderTree_chars_le_raw P c hcb hcP cfg d w tree ls hfn hu hd h

/-- the plain decorator (`from_read`): every character other than `#`, `>`, `*`, `-`, `.`, the digits and box-drawing ones -/
theorem plain_no_character_invented (c : Ch) (hcb : isBox c = false) (hcP : richAlpha c = true) (cfg : Cfg) (w : Nat)
    (tree : RNode) (ls : List RLine) (hfn : cfg.footnotes = false) (hu : cfg.unicodeStrike = false)
    (h : renderTree cfg Deco.plain w tree = .ok ls) : (ls.flatMap rink).count c ≤ (nodeRaw Deco.plain tree).count c :=
  renderTree_chars_le_raw richAlpha c hcb hcP cfg Deco.plain w tree ls hfn hu plain_avoids h

/-- **whole pipeline, plain output** (`from_read` with default options apart from footnotes): whatever the document and the
    style sheets, a `.lines` outcome holds no such character more often than the texts of the render tree the front end built -/
theorem plain_no_character_invented_pipeline (c : Ch) (hcb : isBox c = false) (hcP : richAlpha c = true) (cfg : Cfg) (w : Nat)
    (useDoc : Bool) (agentCss userCss : Option (List Char)) (ci : CharInfo) (depth : Nat) (dom : Node) (ls : List RLine)
    (hfn : cfg.footnotes = false) (hu : cfg.unicodeStrike = false)
    (h : renderDom cfg Deco.plain w useDoc agentCss userCss ci depth dom = .lines ls) :
    ∃ tree, domTree cfg.decorate useDoc agentCss userCss ci depth dom = .ok tree ∧
      (ls.flatMap rink).count c ≤ (nodeRaw Deco.plain tree).count c := by
  obtain ⟨tree, hdt, _, hr⟩ := renderDom_lines cfg Deco.plain w useDoc agentCss userCss ci depth dom ls h
  exact ⟨tree, hdt, plain_no_character_invented c hcb hcP cfg w tree ls hfn hu hr⟩

/-- non-vacuity: a table holding a list and a quoted paragraph, plain decorator, width 14: the letter `a` (code 97) occurs
    twice in the tree and twice in the output -/
example :
    let tree : RNode := .table {} [.row {} [.cell {} 1 [.box {} .ul [.box {} .li [.text {} (strCh "ab")], .box {} .li [.text {} (strCh "ca")]]],
                                          .cell {} 1 [.box {} .quote [.box {} .block [.text {} (strCh "de fg")]]]]] 2
    ((renderTree { footnotes := false } Deco.plain 14 tree).toOption.map fun ls => (ls.flatMap rink).count (mkCh 97)) = some 2 ∧
    (nodeRaw Deco.plain tree).count (mkCh 97) = 2 ∧ isBox (mkCh 97) = false ∧ richAlpha (mkCh 97) = true := by decide +kernel

end H2T.C03
