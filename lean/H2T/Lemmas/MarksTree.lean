import H2T.Lemmas.MarksBlock
import H2T.Lemmas.TableTotal

/-! C14, tree layer: the markers a table-free render tree's program records are the tree's fragment nodes in document
    order, and the rendering returns a sub-sequence of them — all of them, up to a trailing run still pending at the end,
    when no prefixed sub-renderer (heading, quote, list, dd) is involved. -/

namespace H2T

mutual
/-- the fragment nodes of a render tree in document order (tables are outside these theorems: their cells are rendered
    side by side, which interleaves markers) -/
def nodeFrags : RNode → List (List Ch)
  | .frag n => [n]
  | .box _ _ kids => listFrags kids
  | .cell _ _ kids => listFrags kids
  | _ => []
def listFrags : List RNode → List (List Ch)
  | [] => []
  | n :: ns => nodeFrags n ++ listFrags ns
end

theorem opsFrags_append (a b : List Op) : opsFrags (a ++ b) = opsFrags a ++ opsFrags b := by
  induction a with
  | nil => simp [opsFrags]
  | cons x a ih => simp [opsFrags, ih]

theorem tableFreeOps_append (a b : List Op) : tableFreeOps (a ++ b) = (tableFreeOps a && tableFreeOps b) := by
  induction a with
  | nil => simp [tableFreeOps]
  | cons x a ih => simp [tableFreeOps, ih, Bool.and_assoc]

theorem flatOps_append (a b : List Op) : flatOps (a ++ b) = (flatOps a && flatOps b) := by
  induction a with
  | nil => simp [flatOps]
  | cons x a ih => simp [flatOps, ih, Bool.and_assoc]

theorem styleOps_frags (ops : List Op) (h : ∀ op ∈ ops, isStyleOp op = true) :
    opsFrags ops = [] ∧ tableFreeOps ops = true ∧ flatOps ops = true := by
  induction ops with
  | nil => simp [opsFrags, tableFreeOps, flatOps]
  | cons op ops ih =>
    obtain ⟨a, b, c⟩ := ih (fun o ho => h o (by simp [ho]))
    have := h op (by simp)
    cases op <;> simp [isStyleOp] at this <;> simp [opsFrags, opFrags, tableFreeOps, tableFreeOp, flatOps, flatOp, a, b, c]

theorem styleOpen_frags (d : Deco) (st : Style) :
    opsFrags (styleOpen d st) = [] ∧ tableFreeOps (styleOpen d st) = true ∧ flatOps (styleOpen d st) = true :=
  styleOps_frags _ (styleOpen_style d st)
theorem styleClose_frags (d : Deco) (st : Style) :
    opsFrags (styleClose d st) = [] ∧ tableFreeOps (styleClose d st) = true ∧ flatOps (styleClose d st) = true :=
  styleOps_frags _ (styleClose_style d st)

theorem supDigits_frags (kids : List RNode) (ds : List Ch) (h : supDigits kids = some ds) : listFrags kids = [] := by
  unfold supDigits at h
  split at h
  · simp [listFrags, nodeFrags]
  · simp at h

/-- what `compile` guarantees about markers for a table-free tree -/
def FragSpec (ops : List Op) (frags : List (List Ch)) : Prop := opsFrags ops = frags ∧ tableFreeOps ops = true

theorem FragSpec.wrap {d : Deco} {st : Style} {inner : List Op} {fr : List (List Ch)} (h : FragSpec inner fr) :
    FragSpec (styleOpen d st ++ inner ++ styleClose d st) fr := by
  obtain ⟨a1, a2, _⟩ := styleOpen_frags d st
  obtain ⟨b1, b2, _⟩ := styleClose_frags d st
  exact ⟨by simp [opsFrags_append, a1, b1, h.1], by simp [tableFreeOps_append, a2, b2, h.2]⟩

theorem FragSpec.bracket {o c : List Op} {body : List Op} {fr : List (List Ch)} (h : FragSpec body fr)
    (ho : FragSpec o []) (hc : FragSpec c []) : FragSpec (o ++ body ++ c) fr :=
  ⟨by simp [opsFrags_append, ho.1, hc.1, h.1], by simp [tableFreeOps_append, ho.2, hc.2, h.2]⟩

mutual
theorem compile_frags (cfg : Cfg) (d : Deco) : (n : RNode) → noTable n = true → FragSpec (compile cfg d n) (nodeFrags n)
  | .text st s, _ => by
    simp only [compile]; exact FragSpec.wrap ⟨by simp [opsFrags, opFrags, nodeFrags], by simp [tableFreeOps, tableFreeOp]⟩
  | .img st src title, _ => by
    simp only [compile]; exact FragSpec.wrap ⟨by simp [opsFrags, opFrags, nodeFrags], by simp [tableFreeOps, tableFreeOp]⟩
  | .br st, _ => by
    simp only [compile]; exact FragSpec.wrap ⟨by simp [opsFrags, opFrags, nodeFrags], by simp [tableFreeOps, tableFreeOp]⟩
  | .frag n, _ => ⟨by simp [compile, opsFrags, opFrags, nodeFrags], by simp [compile, tableFreeOps, tableFreeOp]⟩
  | .box st k kids, hn => by
    simp only [noTable] at hn
    have hb := compileList_frags cfg d kids hn
    have one : ∀ (op : Op), opFrags op = [] → tableFreeOp op = true → FragSpec [op] [] := by
      intro op h1 h2; exact ⟨by simp [opsFrags, h1], by simp [tableFreeOps, h2]⟩
    have sub1 : ∀ p m f r a, FragSpec [Op.sub p m f r a (compileList cfg d kids)] (listFrags kids) := by
      intro p m f r a
      exact ⟨by simp [opsFrags, opFrags, hb.1], by simp [tableFreeOps, tableFreeOp, hb.2]⟩
    simp only [compile, nodeFrags]
    apply FragSpec.wrap
    cases k with
    | container => exact hb
    | link href => exact hb.bracket (one _ rfl rfl) (one _ rfl rfl)
    | em => exact hb.bracket (one _ rfl rfl) (one _ rfl rfl)
    | strong => exact hb.bracket (one _ rfl rfl) (one _ rfl rfl)
    | strike => exact hb.bracket (one _ rfl rfl) (one _ rfl rfl)
    | code => exact hb.bracket (one _ rfl rfl) (one _ rfl rfl)
    | block => exact hb.bracket (one _ rfl rfl) (one _ rfl rfl)
    | li => exact hb.bracket (one _ rfl rfl) (one _ rfl rfl)
    | header lvl => exact sub1 _ _ _ _ _
    | div => exact hb.bracket (one _ rfl rfl) (one _ rfl rfl)
    | quote => exact sub1 _ _ _ _ _
    | ul => exact compileItems_frags cfg d _ _ _ _ 0 kids hn
    | ol start => exact compileItems_frags cfg d _ _ _ _ 0 kids hn
    | dl =>
      have := (hb.bracket (o := [Op.startBlock]) (c := []) (one _ rfl rfl) ⟨rfl, rfl⟩)
      simpa using this
    | dt =>
      exact hb.bracket (o := [.newLine, .startAnn .em d.emStart false]) ⟨by simp [opsFrags, opFrags], by simp [tableFreeOps, tableFreeOp]⟩ (one _ rfl rfl)
    | dd => exact sub1 _ _ _ _ _
    | sup =>
      simp only
      split
      · rename_i ds hds
        rw [supDigits_frags kids ds hds]
        exact one _ rfl rfl
      · exact hb.bracket (one _ rfl rfl) (one _ rfl rfl)
  | .cell st _ kids, hn => by
    simp only [noTable] at hn
    simp only [compile, nodeFrags]
    exact FragSpec.wrap (compileList_frags cfg d kids hn)
  | .row _ _, _ => ⟨by simp [compile, opsFrags, nodeFrags], by simp [compile, tableFreeOps]⟩
  | .tbody _ _, _ => ⟨by simp [compile, opsFrags, nodeFrags], by simp [compile, tableFreeOps]⟩
  | .table st rows n, hn => by simp [noTable] at hn
theorem compileList_frags (cfg : Cfg) (d : Deco) : (ns : List RNode) → noTableL ns = true → FragSpec (compileList cfg d ns) (listFrags ns)
  | [], _ => ⟨by simp [compileList, opsFrags, listFrags], by simp [compileList, tableFreeOps]⟩
  | n :: ns, hn => by
    simp only [noTableL, Bool.and_eq_true] at hn
    have h1 := compile_frags cfg d n hn.1
    have h2 := compileList_frags cfg d ns hn.2
    exact ⟨by simp [compileList, opsFrags_append, h1.1, h2.1, listFrags], by simp [compileList, tableFreeOps_append, h1.2, h2.2]⟩
theorem compileItems_frags (cfg : Cfg) (d : Deco) (pw minW : Nat) (first : Nat → List Ch) (rest : List Ch) :
    (i : Nat) → (ns : List RNode) → noTableL ns = true → FragSpec (compileItems cfg d pw minW first rest i ns) (listFrags ns)
  | _, [], _ => ⟨by simp [compileItems, opsFrags, listFrags], by simp [compileItems, tableFreeOps]⟩
  | i, n :: ns, hn => by
    simp only [noTableL, Bool.and_eq_true] at hn
    have h1 := compile_frags cfg d n hn.1
    have h2 := compileItems_frags cfg d pw minW first rest (i + 1) ns hn.2
    exact ⟨by simp [compileItems, opsFrags, opFrags, h1.1, h2.1, listFrags], by simp [compileItems, tableFreeOps, tableFreeOp, h1.2, h2.2]⟩
end

mutual
/-- trees without tables and without prefixed sub-renderers: inline content, paragraphs, divs, list items' bodies, dl/dt -/
def flatTree : RNode → Bool
  | .table .. => false
  | .box _ k kids =>
    (match k with | .header _ => false | .quote => false | .ul => false | .ol _ => false | .dd => false | _ => true) && flatTreeL kids
  | .cell _ _ kids => flatTreeL kids
  | _ => true
def flatTreeL : List RNode → Bool
  | [] => true
  | n :: ns => flatTree n && flatTreeL ns
end

mutual
theorem flatTree_noTable : (n : RNode) → flatTree n = true → noTable n = true
  | .text .., _ => rfl
  | .img .., _ => rfl
  | .br .., _ => rfl
  | .frag .., _ => rfl
  | .box _ k kids, h => by
    simp only [flatTree, Bool.and_eq_true] at h
    simp only [noTable]; exact flatTreeL_noTable kids h.2
  | .cell _ _ kids, h => by
    simp only [flatTree] at h
    simp only [noTable]; exact flatTreeL_noTable kids h
  | .row .., _ => rfl
  | .tbody .., _ => rfl
  | .table .., h => by simp [flatTree] at h
theorem flatTreeL_noTable : (ns : List RNode) → flatTreeL ns = true → noTableL ns = true
  | [], _ => rfl
  | n :: ns, h => by
    simp only [flatTreeL, Bool.and_eq_true] at h
    simp only [noTableL, Bool.and_eq_true]
    exact ⟨flatTree_noTable n h.1, flatTreeL_noTable ns h.2⟩
end

mutual
theorem compile_flat (cfg : Cfg) (d : Deco) : (n : RNode) → flatTree n = true → flatOps (compile cfg d n) = true
  | .text st s, _ => by simp [compile, flatOps_append, (styleOpen_frags d st).2.2, (styleClose_frags d st).2.2, flatOps, flatOp]
  | .img st src title, _ => by simp [compile, flatOps_append, (styleOpen_frags d st).2.2, (styleClose_frags d st).2.2, flatOps, flatOp]
  | .br st, _ => by simp [compile, flatOps_append, (styleOpen_frags d st).2.2, (styleClose_frags d st).2.2, flatOps, flatOp]
  | .frag n, _ => by simp [compile, flatOps, flatOp]
  | .box st k kids, hn => by
    simp only [flatTree, Bool.and_eq_true] at hn
    have hb := compileList_flat cfg d kids hn.2
    cases k with
    | header lvl => simp at hn
    | quote => simp at hn
    | ul => simp at hn
    | ol s => simp at hn
    | dd => simp at hn
    | sup =>
      simp only [compile]
      split <;> simp [flatOps_append, (styleOpen_frags d st).2.2, (styleClose_frags d st).2.2, flatOps, flatOp, hb]
    | _ => simp [compile, flatOps_append, (styleOpen_frags d st).2.2, (styleClose_frags d st).2.2, flatOps, flatOp, hb]
  | .cell st _ kids, hn => by
    simp only [flatTree] at hn
    simp [compile, flatOps_append, (styleOpen_frags d st).2.2, (styleClose_frags d st).2.2, compileList_flat cfg d kids hn]
  | .row _ _, _ => by simp [compile, flatOps]
  | .tbody _ _, _ => by simp [compile, flatOps]
  | .table st rows n, hn => by simp [flatTree] at hn
theorem compileList_flat (cfg : Cfg) (d : Deco) : (ns : List RNode) → flatTreeL ns = true → flatOps (compileList cfg d ns) = true
  | [], _ => by simp [compileList, flatOps]
  | n :: ns, hn => by
    simp only [flatTreeL, Bool.and_eq_true] at hn
    simp [compileList, flatOps_append, compile_flat cfg d n hn.1, compileList_flat cfg d ns hn.2]
end

theorem linkStep_marks (ftag : Ann) (width : Nat) (acc : List TLine × TLine × Nat) (c : Ch)
    (h : (∀ l ∈ acc.1, marks l = []) ∧ marks acc.2.1 = []) :
    (∀ l ∈ (linkStep ftag width acc c).1, marks l = []) ∧ marks (linkStep ftag width acc c).2.1 = [] := by
  unfold linkStep
  simp only
  generalize (if c.ctrl = true then 0 else c.w) = cw
  by_cases hc : acc.2.2 + cw > width
  · rw [if_pos hc]
    refine ⟨?_, by simp [marks]⟩
    intro l hl
    simp only [List.mem_append, List.mem_singleton] at hl
    rcases hl with hl | hl
    · exact h.1 l hl
    · rw [hl]; exact h.2
  · rw [if_neg hc]
    refine ⟨h.1, ?_⟩
    show marks (acc.2.1 ++ [Elt.cell ⟨c, [ftag]⟩]) = []
    rw [marks_append, h.2]; rfl

theorem fmtLinkLine_marks (cfg : Cfg) (ftag : Ann) (width : Nat) (s : List Ch) : ∀ tl ∈ fmtLinkLine cfg ftag width s, marks tl = [] := by
  intro tl htl
  unfold fmtLinkLine at htl
  simp only at htl
  split at htl
  · have key : ∀ (cs : List Ch) (acc : List TLine × TLine × Nat), ((∀ l ∈ acc.1, marks l = []) ∧ marks acc.2.1 = []) →
        ((∀ l ∈ (cs.foldl (linkStep ftag width) acc).1, marks l = []) ∧ marks (cs.foldl (linkStep ftag width) acc).2.1 = []) := by
      intro cs
      induction cs with
      | nil => intro acc h; exact h
      | cons c cs ih => intro acc h; exact ih _ (linkStep_marks ftag width acc c h)
    have := key (s.map fun c => if c.cp = 10 then spaceCh else c) ([], [], 0) ⟨by simp, rfl⟩
    simp only [List.mem_append, List.mem_singleton] at htl
    rcases htl with h1 | h1
    · exact this.1 tl h1
    · rw [h1]; exact this.2
  · simp only [List.mem_singleton] at htl
    rw [htl]; exact marks_cellsOf _ _

/-- the final stage of `renderTree` (footnote list and `into_lines`) keeps every marker except those still pending -/
theorem renderTree_marks (cfg : Cfg) (d : Deco) (w : Nat) (tree : RNode) (ls : List RLine) (hn : noTable tree = true)
    (h : renderTree cfg d w tree = .ok ls) :
    ∃ lost, (ls.flatMap rmarks ++ lost).Sublist (nodeFrags tree) ∧ (flatTree tree = true → ls.flatMap rmarks ++ lost = nodeFrags tree) := by
  unfold renderTree at h
  split at h
  · simp at h
  · cases h1 : runOps SubR.widthMinus cfg d { cur := { width := w } } (compile cfg d tree) with
    | error e => simp [h1, andThen_error_eq] at h
    | ok t =>
      simp only [h1, andThen_ok_eq] at h
      obtain ⟨f1, f2⟩ := fresh_marks w []
      obtain ⟨hc1, hc2⟩ := compile_frags cfg d tree hn
      obtain ⟨⟨kept, k1, k2, k3⟩, mt⟩ := runOps_marks SubR.widthMinus cfg d _ _ t hc2 f2 h1
      rw [hc1] at k2 k3
      have hk : t.cur.marks = kept := by rw [k1, f1]; simp
      have fin : ∃ lost, ls.flatMap rmarks ++ lost = kept := by
        split at h
        · exact ⟨_, (intoLines_marks t.cur ls mt h).trans hk⟩
        · cases h2 : t.cur.startBlock with
          | error e => simp [h2, andThen_error_eq] at h
          | ok s1 =>
            simp only [h2, andThen_ok_eq] at h
            obtain ⟨a1, a2⟩ := startBlock_marks _ s1 mt h2
            obtain ⟨b1, b2⟩ := addLines_marks ((List.flatMap (fmtLinkLine cfg (d.annOf Ann.dflt) s1.width) (footTexts cfg t.links)).map RLine.text) s1 a2
            have := intoLines_marks _ ls (mOk_of_none b2) h
            rw [b1, a1, hk] at this
            -- footnote lines carry no markers
            have hfoot : ((List.flatMap (fmtLinkLine cfg (d.annOf Ann.dflt) s1.width) (footTexts cfg t.links)).map RLine.text).flatMap rmarks = [] := by
              rw [List.flatMap_map]
              apply List.flatMap_eq_nil_iff.mpr
              intro tl htl
              simp only [List.mem_flatMap] at htl
              obtain ⟨f, _, hf⟩ := htl
              exact fmtLinkLine_marks cfg _ _ f tl hf
            rw [hfoot, List.append_nil] at this
            exact ⟨_, this⟩
      obtain ⟨lost, hl⟩ := fin
      refine ⟨lost, by rw [hl]; exact k2, fun hf => ?_⟩
      rw [hl]; exact k3 (compile_flat cfg d tree hf)

end H2T
