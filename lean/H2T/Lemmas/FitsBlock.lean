import H2T.Render
import H2T.Lemmas.WrapInv

/-! C02 calibration, block layer: on the nested-operation model every table-free program keeps
    "all lines of the current sub-renderer fit its width", provided `width_minus` honours its contract. -/

namespace H2T

def rlw : RLine → Nat | .text l => lw l | .rule b _ => b.length

def fragsOnly (l : List Elt) : Prop := ∀ e ∈ l, e.isCell = false

theorem lw_fragsOnly (l : List Elt) (h : fragsOnly l) : lw l = 0 := by
  induction l with
  | nil => rfl
  | cons e l ih =>
    have he := h e (by simp)
    cases e with
    | cell c => simp [Elt.isCell] at he
    | frag n => simp [Elt.w]; exact ih (fun x hx => h x (by simp [hx]))

theorem noContent_fragsOnly (l : TLine) (h : l.noContent = true) : fragsOnly l := by
  intro e he
  simp only [TLine.noContent, Bool.not_eq_true', List.any_eq_false] at h
  simpa using h e he

structure SubR.Fits (s : SubR) : Prop where
  lines : ∀ l ∈ s.lines, rlw l ≤ s.width
  frags : fragsOnly s.pendingFrags
  wrap : ∀ w, s.wrapping = some w → w.Inv ∧ w.width ≤ s.width ∧ w.overflow = false

/-- facts about a successor state used everywhere: it fits and has the same width -/
def Step (s s' : SubR) : Prop := s'.Fits ∧ s'.width = s.width

theorem addLine_step (s : SubR) (l : RLine) (h : s.Fits) (hl : rlw l ≤ s.width) :
    Step s (s.addLine l) ∧ (s.addLine l).wrapping = s.wrapping := by
  cases l with
  | rule b t =>
    refine ⟨⟨⟨?_, h.frags, h.wrap⟩, rfl⟩, rfl⟩
    intro x hx; simp [SubR.addLine] at hx
    rcases hx with hx | hx
    · exact h.lines x hx
    · subst hx; exact hl
  | text tl =>
    simp only [SubR.addLine]
    split
    · refine ⟨⟨⟨?_, h.frags, h.wrap⟩, rfl⟩, rfl⟩
      intro x hx; simp at hx
      rcases hx with hx | hx
      · exact h.lines x hx
      · subst hx; exact hl
    · refine ⟨⟨⟨?_, by intro e he; simp at he, h.wrap⟩, rfl⟩, rfl⟩
      intro x hx; simp at hx
      rcases hx with hx | hx
      · exact h.lines x hx
      · subst hx
        show lw (s.pendingFrags ++ tl) ≤ s.width
        rw [lw_append, lw_fragsOnly _ h.frags]; simpa [rlw] using hl

theorem addLines_step (ls : List RLine) : ∀ (s : SubR), s.Fits → (∀ l ∈ ls, rlw l ≤ s.width) →
    Step s (s.addLines ls) ∧ (s.addLines ls).wrapping = s.wrapping := by
  induction ls with
  | nil => intro s h _; exact ⟨⟨h, rfl⟩, rfl⟩
  | cons l ls ih =>
    intro s h hl
    obtain ⟨⟨f1, w1⟩, wr1⟩ := addLine_step s l h (hl l (by simp))
    obtain ⟨⟨f2, w2⟩, wr2⟩ := ih (s.addLine l) f1 (fun x hx => by rw [w1]; exact hl x (by simp [hx]))
    exact ⟨⟨f2, w2.trans w1⟩, wr2.trans wr1⟩

theorem flushWrapping_step (s s' : SubR) (h : s.Fits) (he : s.flushWrapping = .ok s') :
    Step s s' ∧ s'.wrapping = none := by
  unfold SubR.flushWrapping at he
  cases hw : s.wrapping with
  | none => simp only [hw] at he; injection he with he; subst he; exact ⟨⟨h, rfl⟩, hw⟩
  | some w =>
    simp only [hw] at he
    obtain ⟨wi, ww, wo⟩ := h.wrap w hw
    generalize hw' : (if w.word.noContent = true then { w with word := [] } else w) = w' at he
    have hi' : w'.Inv ∧ w'.width = w.width ∧ w'.overflow = w.overflow := by
      rw [← hw']; split
      · rename_i hn
        exact ⟨⟨wi.linelen_eq, by show w.wordlen = lw []; rw [wi.wordlen_eq, noContent_lw _ hn]; rfl, wi.line_fit, wi.text_fit, wi.tag_ok⟩, rfl, rfl⟩
      · exact ⟨wi, rfl, rfl⟩
    cases hf : w'.finish with
    | error e => simp [hf, andThen] at he
    | ok ls =>
      simp only [hf, andThen] at he
      injection he with he; subst he
      have hfit := finish_lines_fit w' ls hi'.1 (by rw [hi'.2.2]; exact wo) hf
      have h0 : ({ s with wrapping := none } : SubR).Fits := ⟨h.lines, h.frags, fun _ hx => by simp at hx⟩
      obtain ⟨⟨f1, w1⟩, wr1⟩ := addLines_step (ls.map RLine.text) _ h0 (by
        intro l hl; simp at hl; obtain ⟨tl, htl, rfl⟩ := hl
        show lw tl ≤ s.width
        have := hfit tl htl; rw [hi'.2.1] at this; omega)
      refine ⟨⟨⟨f1.lines, ?_, fun x hx => by rw [show _ = ({ s with wrapping := none } : SubR).wrapping from wr1] at hx; simp at hx⟩, w1⟩, wr1⟩
      intro e he'
      simp only [List.mem_append] at he'
      rcases he' with h1 | h1
      · exact f1.frags e h1
      · split at h1
        · rename_i hn; exact noContent_fragsOnly _ hn e h1
        · simp at h1

theorem addEmptyLine_step (s s' : SubR) (h : s.Fits) (he : s.addEmptyLine = .ok s') :
    Step s s' ∧ s'.wrapping = none := by
  unfold SubR.addEmptyLine at he
  cases h1 : s.flushWrapping with
  | error e => simp [h1, andThen] at he
  | ok s1 =>
    simp only [h1, andThen] at he; injection he with he; subst he
    obtain ⟨⟨f1, w1⟩, wr1⟩ := flushWrapping_step s s1 h h1
    obtain ⟨⟨f2, w2⟩, wr2⟩ := addLine_step s1 (.text []) f1 (by simp [rlw])
    exact ⟨⟨⟨f2.lines, f2.frags, f2.wrap⟩, w2.trans w1⟩, wr2.trans wr1⟩

theorem startBlock_step (s s' : SubR) (h : s.Fits) (he : s.startBlock = .ok s') : Step s s' := by
  unfold SubR.startBlock at he
  cases h1 : s.flushWrapping with
  | error e => simp [h1, andThen] at he
  | ok s1 =>
    simp only [h1, andThen] at he
    obtain ⟨⟨f1, w1⟩, _⟩ := flushWrapping_step s s1 h h1
    generalize hr : (if s1.lines.any RLine.hasContent = true then s1.addEmptyLine else Except.ok s1) = r at he
    cases r with
    | error e => simp at he
    | ok s2 =>
      simp only at he; injection he with he; subst he
      have st2 : Step s1 s2 := by
        split at hr
        · exact (addEmptyLine_step s1 s2 f1 hr).1
        · injection hr with hr; subst hr; exact ⟨f1, rfl⟩
      exact ⟨⟨st2.1.lines, st2.1.frags, st2.1.wrap⟩, st2.2.trans w1⟩

theorem newLineHard_step (s s' : SubR) (h : s.Fits) (he : s.newLineHard = .ok s') : Step s s' := by
  unfold SubR.newLineHard at he
  split at he
  · exact (addEmptyLine_step s s' h he).1
  · split at he
    · exact (addEmptyLine_step s s' h he).1
    · exact (flushWrapping_step s s' h he).1

theorem getWrapping_ok (s : SubR) (cfg : Cfg) (h : s.Fits) (hov : cfg.overflow = false) :
    (s.getWrapping cfg).Inv ∧ (s.getWrapping cfg).width ≤ s.width ∧ (s.getWrapping cfg).overflow = false := by
  unfold SubR.getWrapping
  cases hw : s.wrapping with
  | some w => exact h.wrap w hw
  | none =>
    refine ⟨new_inv _ _ _, ?_, hov⟩
    show (match cfg.wrapWidth with | some m => min m s.width | none => s.width) ≤ s.width
    split
    · exact Nat.min_le_right _ _
    · exact Nat.le_refl _

theorem addInlineText_step (s s' : SubR) (cfg : Cfg) (x : List Ch) (f : Ann → Ann) (h : s.Fits)
    (hov : cfg.overflow = false) (he : s.addInlineText cfg x f = .ok s') : Step s s' := by
  unfold SubR.addInlineText at he
  split at he
  · injection he with he; subst he; exact ⟨h, rfl⟩
  · generalize hs0 : (if s.atBlockEnd = true then s.startBlock else Except.ok s) = r0 at he
    cases r0 with
    | error e => simp [andThen] at he
    | ok s0 =>
      have st0 : Step s s0 := by
        split at hs0
        · exact startBlock_step s s0 h hs0
        · injection hs0 with hs0; subst hs0; exact ⟨h, rfl⟩
      simp only [andThen] at he
      obtain ⟨gi, gw, go⟩ := getWrapping_ok s0 cfg st0.1 hov
      generalize (s0.getWrapping cfg) = w at he gi gw go
      generalize hr : w.addText s0.wsMode _ _ (iterN strikeFilter s0.filterDepth x) = r at he
      cases r with
      | error e => simp at he
      | ok w' =>
        simp only at he; injection he with he; subst he
        obtain ⟨i', sm⟩ := addText_inv _ _ _ _ w w' gi go hr
        refine ⟨⟨st0.1.lines, st0.1.frags, ?_⟩, st0.2⟩
        intro x hx; simp at hx; subst hx
        exact ⟨i', by rw [sm.width]; exact gw, by rw [sm.overflow]; exact go⟩

theorem recordFrag_step (s : SubR) (cfg : Cfg) (n : List Ch) (h : s.Fits) (hov : cfg.overflow = false) :
    Step s (s.recordFrag cfg n) := by
  obtain ⟨gi, gw, go⟩ := getWrapping_ok s cfg h hov
  refine ⟨⟨h.lines, h.frags, ?_⟩, rfl⟩
  intro x hx; simp [SubR.recordFrag] at hx; subst hx
  exact ⟨⟨gi.linelen_eq, by simp [WB.addElement, gi.wordlen_eq, Elt.w], gi.line_fit, gi.text_fit, gi.tag_ok⟩, gw, go⟩

theorem dispW_cells (tag : Tag) (p : List Ch) : lw (p.map fun c => Elt.cell ⟨c, tag⟩) = dispW p := by
  induction p with
  | nil => rfl
  | cons c p ih => simp [dispW, Elt.w] at ih ⊢; omega

theorem dispW_borderChars (b : Border) : dispW b.chars = b.length := by
  induction b with
  | nil => rfl
  | cons sg b ih => simp [Border.chars, dispW, mkCh] at ih ⊢; omega

theorem prefixLine_width (tag : Tag) (p : List Ch) (l : RLine) : rlw (prefixLine tag p l) ≤ dispW p + rlw l := by
  cases l with
  | text tl =>
    simp only [prefixLine]
    split
    · simp [rlw]
    · simp [rlw, dispW_cells]
  | rule b t =>
    simp only [prefixLine, rlw, List.map_append, lw_append, dispW_cells, dispW_borderChars]
    omega

theorem appendSub_step (s other s' : SubR) (first rest : List Ch) (h : s.Fits) (ho : other.Fits)
    (h1 : dispW first + other.width ≤ s.width) (h2 : dispW rest + other.width ≤ s.width)
    (he : s.appendSub other first rest = .ok s') : Step s s' := by
  unfold SubR.appendSub at he
  cases e1 : s.flushWrapping with
  | error e => simp [e1, andThen] at he
  | ok s1 =>
    simp only [e1, andThen] at he
    obtain ⟨⟨f1, w1⟩, _⟩ := flushWrapping_step s s1 h e1
    unfold SubR.intoLines at he
    cases e2 : other.flushWrapping with
    | error e => simp [e2, andThen] at he
    | ok o1 =>
      simp only [e2, andThen] at he; injection he with he; subst he
      obtain ⟨⟨fo, wo⟩, _⟩ := flushWrapping_step other o1 ho e2
      have hl : ∀ l ∈ zipPrefix s1.annStack first rest o1.lines, rlw l ≤ s1.width := by
        intro l hl
        cases hls : o1.lines with
        | nil => simp [hls, zipPrefix] at hl
        | cons x xs =>
          simp only [hls, zipPrefix, List.mem_cons, List.mem_map] at hl
          rcases hl with rfl | ⟨y, hy, rfl⟩
          · have := prefixLine_width s1.annStack first x
            have := fo.lines x (by simp [hls])
            omega
          · have := prefixLine_width s1.annStack rest y
            have := fo.lines y (by simp [hls, hy])
            omega
      obtain ⟨⟨f2, w2⟩, _⟩ := addLines_step _ s1 f1 hl
      exact ⟨f2, w2.trans w1⟩

/-- the `width_minus` contract the block layer relies on -/
def WMContract (wm : SubR → Cfg → Nat → Nat → Except Err Nat) (cfg : Cfg) : Prop :=
  ∀ s p m w, wm s cfg p m = .ok w → w + p ≤ s.width

/-- `SubRenderer::width_minus` honours the contract (since the `fix:` commit "width_minus fails when the
    prefix alone is wider than the block"; before it, `{ width := 1 }`, prefix 2, minimum 0 was a counterexample) -/
theorem widthMinus_contract (cfg : Cfg) (hov : cfg.overflow = false) : WMContract SubR.widthMinus cfg := by
  intro s p m w h
  unfold SubR.widthMinus at h
  simp only [hov, Bool.not_false, Bool.and_true] at h
  split at h
  · simp at h
  · rename_i hc
    injection h with h
    simp only [Bool.or_eq_true, decide_eq_true_eq, not_or, Nat.not_lt] at hc
    omega

-- table-free programs whose sub-renderer prefixes are no wider than the width they reserved
mutual
def okOp : Op → Bool
  | .sub p _ first rest _ body => decide (dispW first ≤ p) && decide (dispW rest ≤ p) && okOps body
  | .table _ _ => false
  | .row _ _ _ => false
  | .cell _ _ _ => false
  | _ => true
def okOps : List Op → Bool
  | [] => true
  | op :: ops => okOp op && okOps ops
end

theorem stepSimple_step (cfg : Cfg) (d : Deco) (t t' : RS) (op : Op) (h : t.cur.Fits) (hov : cfg.overflow = false)
    (he : stepSimple cfg d t op = .ok t') : Step t.cur t'.cur := by
  have onCur : ∀ (t0 : RS) (f : SubR → Except Err SubR) (t1 : RS), t0.onCur f = .ok t1 →
      (∀ s1, f t0.cur = .ok s1 → Step t0.cur s1) → Step t0.cur t1.cur := by
    intro t0 f t1 h0 hf
    unfold RS.onCur at h0
    cases hfc : f t0.cur with
    | error e => simp [hfc, andThen] at h0
    | ok s1 => simp only [hfc, andThen] at h0; injection h0 with h0; subst h0; exact hf s1 hfc
  have keep : ∀ (s : SubR) (g : SubR → SubR), s.Fits → (g s).lines = s.lines → (g s).pendingFrags = s.pendingFrags →
      (g s).wrapping = s.wrapping → (g s).width = s.width → Step s (g s) := by
    intro s g hs e1 e2 e3 e4
    exact ⟨⟨by rw [e1, e4]; exact hs.lines, by rw [e2]; exact hs.frags, by rw [e3, e4]; exact hs.wrap⟩, e4⟩
  cases op <;> simp only [stepSimple] at he
  case pushWs ws => exact onCur t _ t' he fun s1 hs => by injection hs with hs; subst hs; exact keep _ (fun s => { s with wsStack := s.wsStack ++ [ws] }) h rfl rfl rfl rfl
  case popWs => exact onCur t _ t' he fun s1 hs => by injection hs with hs; subst hs; exact keep _ (fun s => { s with wsStack := s.wsStack.dropLast }) h rfl rfl rfl rfl
  case pushAnn a => exact onCur t _ t' he fun s1 hs => by injection hs with hs; subst hs; exact keep _ (fun s => { s with annStack := s.annStack ++ [a] }) h rfl rfl rfl rfl
  case popAnn => exact onCur t _ t' he fun s1 hs => by injection hs with hs; subst hs; exact keep _ (fun s => { s with annStack := s.annStack.dropLast }) h rfl rfl rfl rfl
  case pushPre => exact onCur t _ t' he fun s1 hs => by injection hs with hs; subst hs; exact keep _ (fun s => { s with preDepth := s.preDepth + 1 }) h rfl rfl rfl rfl
  case popPre =>
    exact onCur t _ t' he fun s1 hs => by
      split at hs
      · simp at hs
      · injection hs with hs; subst hs; exact keep _ (fun s => { s with preDepth := s.preDepth - 1 }) h rfl rfl rfl rfl
  case text x => exact onCur t _ t' he fun s1 hs => addInlineText_step _ s1 cfg x _ h hov hs
  case frag n => exact onCur t _ t' he fun s1 hs => by injection hs with hs; subst hs; exact recordFrag_step _ cfg n h hov
  case startLink href =>
    exact onCur { t with links := t.links ++ [href] } _ t' he fun s1 hs =>
      let st := keep t.cur (fun s => { s with annStack := s.annStack ++ [d.annOf (Ann.link href)] }) h rfl rfl rfl rfl
      let r := addInlineText_step _ s1 cfg _ _ st.1 hov hs
      ⟨r.1, r.2.trans st.2⟩
  case endLink =>
    generalize h1 : (t.onCur fun s => andThen (s.addInlineText cfg d.linkEnd d.annOf) fun s' => Except.ok { s' with annStack := s'.annStack.dropLast }) = r1 at he
    cases r1 with
    | error e => simp [andThen] at he
    | ok t1 =>
      simp only [andThen] at he
      have st1 : Step t.cur t1.cur := onCur t _ t1 h1 fun s1 hs => by
        cases h2 : t.cur.addInlineText cfg d.linkEnd d.annOf with
        | error e => simp [h2, andThen] at hs
        | ok s2 =>
          simp only [h2, andThen] at hs; injection hs with hs; subst hs
          have r := addInlineText_step _ s2 cfg _ _ h hov h2
          have k := keep s2 (fun s => { s with annStack := s.annStack.dropLast }) r.1 rfl rfl rfl rfl
          exact ⟨k.1, k.2.trans r.2⟩
      by_cases hf : cfg.footnotes = true
      · simp only [hf, if_true] at he
        have r := onCur t1 _ t' he fun s1 hs => addInlineText_step _ s1 cfg _ _ st1.1 hov hs
        exact ⟨r.1, r.2.trans st1.2⟩
      · simp only [hf] at he
        injection he with he; subst he; exact st1
  case startAnn a x strike =>
    exact onCur t _ t' he fun s1 hs => by
      have st := keep t.cur (fun s => { s with annStack := s.annStack ++ [d.annOf a] }) h rfl rfl rfl rfl
      cases h2 : ({ t.cur with annStack := t.cur.annStack ++ [d.annOf a] } : SubR).addInlineText cfg x d.annOf with
      | error e => simp [h2, andThen] at hs
      | ok s2 =>
        simp only [h2, andThen] at hs; injection hs with hs; subst hs
        have r := addInlineText_step _ s2 cfg _ _ st.1 hov h2
        split
        · have k := keep s2 (fun s => { s with filterDepth := s.filterDepth + 1 }) r.1 rfl rfl rfl rfl
          exact ⟨k.1, (k.2.trans r.2).trans st.2⟩
        · exact ⟨r.1, r.2.trans st.2⟩
  case endAnn x strike =>
    exact onCur t _ t' he fun s1 hs => by
      generalize hs0 : (if (strike && cfg.unicodeStrike) = true then { t.cur with filterDepth := t.cur.filterDepth - 1 } else t.cur) = s0 at hs
      have st0 : Step t.cur s0 := by
        rw [← hs0]; split
        · exact keep t.cur (fun s => { s with filterDepth := s.filterDepth - 1 }) h rfl rfl rfl rfl
        · exact ⟨h, rfl⟩
      cases h2 : s0.addInlineText cfg x d.annOf with
      | error e => simp [h2, andThen] at hs
      | ok s2 =>
        simp only [h2, andThen] at hs; injection hs with hs; subst hs
        have r := addInlineText_step _ s2 cfg _ _ st0.1 hov h2
        have k := keep s2 (fun s => { s with annStack := s.annStack.dropLast }) r.1 rfl rfl rfl rfl
        exact ⟨k.1, (k.2.trans r.2).trans st0.2⟩
  case image src title =>
    exact onCur t _ t' he fun s1 hs => by
      have st := keep t.cur (fun s => { s with annStack := s.annStack ++ [d.annOf (Ann.image src)] }) h rfl rfl rfl rfl
      cases h2 : ({ t.cur with annStack := t.cur.annStack ++ [d.annOf (Ann.image src)] } : SubR).addInlineText cfg (d.imgText title) d.annOf with
      | error e => simp [h2, andThen] at hs
      | ok s2 =>
        simp only [h2, andThen] at hs; injection hs with hs; subst hs
        have r := addInlineText_step _ s2 cfg _ _ st.1 hov h2
        have k := keep s2 (fun s => { s with annStack := s.annStack.dropLast }) r.1 rfl rfl rfl rfl
        exact ⟨k.1, (k.2.trans r.2).trans st.2⟩
  case startBlock => exact onCur t _ t' he fun s1 hs => startBlock_step _ s1 h hs
  case endBlock => exact onCur t _ t' he fun s1 hs => by injection hs with hs; subst hs; exact keep _ (fun s => { s with atBlockEnd := true }) h rfl rfl rfl rfl
  case newLine => exact onCur t _ t' he fun s1 hs => (flushWrapping_step _ s1 h hs).1
  case newLineHard => exact onCur t _ t' he fun s1 hs => newLineHard_step _ s1 h hs
  case sub _ _ _ _ _ _ => injection he with he; subst he; exact ⟨h, rfl⟩
  case table _ _ => injection he with he; subst he; exact ⟨h, rfl⟩
  case row _ _ _ => injection he with he; subst he; exact ⟨h, rfl⟩
  case cell _ _ _ => injection he with he; subst he; exact ⟨h, rfl⟩

theorem okOps_cons {op : Op} {ops : List Op} (h : okOps (op :: ops) = true) : okOp op = true ∧ okOps ops = true := by
  simpa [okOps] using h

mutual
/-- one operation keeps the current sub-renderer fitting, and does not change its width -/
theorem runOp_fits (wm : SubR → Cfg → Nat → Nat → Except Err Nat) (cfg : Cfg) (d : Deco)
    (hwm : WMContract wm cfg) (hov : cfg.overflow = false) :
    (op : Op) → (t t' : RS) → okOp op = true → t.cur.Fits → runOp wm cfg d t op = .ok t' → Step t.cur t'.cur
  | .sub p m first rest asBlock body, t, t', hok, hf, he => by
    simp only [okOp, Bool.and_eq_true, decide_eq_true_eq] at hok
    obtain ⟨⟨hp1, hp2⟩, hbody⟩ := hok
    simp only [runOp] at he
    cases h1 : wm t.cur cfg p m with
    | error e => simp [h1, andThen] at he
    | ok w =>
      simp only [h1, andThen] at he
      have hw := hwm t.cur p m w h1
      have hfresh : ({ width := w, annStack := t.cur.annStack } : SubR).Fits :=
        ⟨fun l hl => by simp at hl, fun e he' => by simp at he', fun x hx => by simp at hx⟩
      cases h2 : runOps wm cfg d { links := t.links, cur := ({ width := w, annStack := t.cur.annStack } : SubR) } body with
      | error e => simp [h2] at he
      | ok r =>
        simp only [h2] at he
        have hsub := runOps_fits wm cfg d hwm hov body _ r hbody hfresh h2
        generalize h3 : (if asBlock = true then t.cur.startBlock else Except.ok t.cur) = r3 at he
        cases r3 with
        | error e => simp at he
        | ok s1 =>
          simp only at he
          have st1 : Step t.cur s1 := by
            split at h3
            · exact startBlock_step _ s1 hf h3
            · injection h3 with h3; subst h3; exact ⟨hf, rfl⟩
          cases h4 : s1.appendSub r.cur first rest with
          | error e => simp [h4] at he
          | ok s2 =>
            simp only [h4] at he; injection he with he; subst he
            have hwr : r.cur.width = w := hsub.2
            have st2 := appendSub_step s1 r.cur s2 first rest st1.1 hsub.1
              (by rw [hwr, st1.2]; omega) (by rw [hwr, st1.2]; omega) h4
            split
            · exact ⟨⟨st2.1.lines, st2.1.frags, st2.1.wrap⟩, st2.2.trans st1.2⟩
            · exact ⟨st2.1, st2.2.trans st1.2⟩
  | .table _ _, _, _, hok, _, _ => by simp [okOp] at hok
  | .row _ _ _, _, _, hok, _, _ => by simp [okOp] at hok
  | .cell _ _ _, _, _, hok, _, _ => by simp [okOp] at hok
  | .pushWs ws, t, t', _, hf, he => stepSimple_step cfg d t t' _ hf hov (by simpa [runOp] using he)
  | .popWs, t, t', _, hf, he => stepSimple_step cfg d t t' _ hf hov (by simpa [runOp] using he)
  | .pushPre, t, t', _, hf, he => stepSimple_step cfg d t t' _ hf hov (by simpa [runOp] using he)
  | .popPre, t, t', _, hf, he => stepSimple_step cfg d t t' _ hf hov (by simpa [runOp] using he)
  | .pushAnn a, t, t', _, hf, he => stepSimple_step cfg d t t' _ hf hov (by simpa [runOp] using he)
  | .popAnn, t, t', _, hf, he => stepSimple_step cfg d t t' _ hf hov (by simpa [runOp] using he)
  | .text x, t, t', _, hf, he => stepSimple_step cfg d t t' _ hf hov (by simpa [runOp] using he)
  | .frag n, t, t', _, hf, he => stepSimple_step cfg d t t' _ hf hov (by simpa [runOp] using he)
  | .startLink h, t, t', _, hf, he => stepSimple_step cfg d t t' _ hf hov (by simpa [runOp] using he)
  | .endLink, t, t', _, hf, he => stepSimple_step cfg d t t' _ hf hov (by simpa [runOp] using he)
  | .startAnn a x s, t, t', _, hf, he => stepSimple_step cfg d t t' _ hf hov (by simpa [runOp] using he)
  | .endAnn x s, t, t', _, hf, he => stepSimple_step cfg d t t' _ hf hov (by simpa [runOp] using he)
  | .image a b, t, t', _, hf, he => stepSimple_step cfg d t t' _ hf hov (by simpa [runOp] using he)
  | .startBlock, t, t', _, hf, he => stepSimple_step cfg d t t' _ hf hov (by simpa [runOp] using he)
  | .endBlock, t, t', _, hf, he => stepSimple_step cfg d t t' _ hf hov (by simpa [runOp] using he)
  | .newLine, t, t', _, hf, he => stepSimple_step cfg d t t' _ hf hov (by simpa [runOp] using he)
  | .newLineHard, t, t', _, hf, he => stepSimple_step cfg d t t' _ hf hov (by simpa [runOp] using he)
theorem runOps_fits (wm : SubR → Cfg → Nat → Nat → Except Err Nat) (cfg : Cfg) (d : Deco)
    (hwm : WMContract wm cfg) (hov : cfg.overflow = false) :
    (ops : List Op) → (t t' : RS) → okOps ops = true → t.cur.Fits → runOps wm cfg d t ops = .ok t' → Step t.cur t'.cur
  | [], t, t', _, hf, he => by simp [runOps] at he; subst he; exact ⟨hf, rfl⟩
  | op :: ops, t, t', hok, hf, he => by
    obtain ⟨h1, h2⟩ := okOps_cons hok
    simp only [runOps] at he
    cases h3 : runOp wm cfg d t op with
    | error e => simp [h3, andThen] at he
    | ok t1 =>
      simp only [h3, andThen] at he
      have s1 := runOp_fits wm cfg d hwm hov op t t1 h1 hf h3
      have s2 := runOps_fits wm cfg d hwm hov ops t1 t' h2 s1.1 he
      exact ⟨s2.1, s2.2.trans s1.2⟩
end

/-- C02, block layer: a table-free program whose prefixes respect their reservations, run from an empty renderer of
    width `w` with overflow off and a `width_minus` that honours its contract, yields only lines of width ≤ `w`. -/
theorem block_lines_fit (wm : SubR → Cfg → Nat → Nat → Except Err Nat) (cfg : Cfg) (d : Deco)
    (hwm : WMContract wm cfg) (hov : cfg.overflow = false) (w : Nat) (ops : List Op) (hok : okOps ops = true)
    (t : RS) (ls : List RLine)
    (h1 : runOps wm cfg d { cur := { width := w } } ops = .ok t) (h2 : t.cur.intoLines = .ok ls) :
    ∀ l ∈ ls, rlw l ≤ w := by
  have hfresh : ({ width := w } : SubR).Fits :=
    ⟨fun l hl => by simp at hl, fun e he' => by simp at he', fun x hx => by simp at hx⟩
  have st := runOps_fits wm cfg d hwm hov ops _ t hok hfresh h1
  unfold SubR.intoLines at h2
  cases h3 : t.cur.flushWrapping with
  | error e => simp [h3, andThen] at h2
  | ok s1 =>
    simp only [h3, andThen] at h2; injection h2 with h2; subst h2
    obtain ⟨⟨f1, w1⟩, _⟩ := flushWrapping_step _ s1 st.1 h3
    intro l hl
    have := f1.lines l hl
    rw [w1, st.2] at this
    exact this

end H2T
