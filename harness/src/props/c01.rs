//! C01: rendering is total — any bytes, width and configuration; never panics or hangs.

use super::common::*;
use crate::cfg::{gen_cfg, gen_fam, Cfg, Deco};
use crate::gen::{self, Knobs};
use crate::obs::Obs;
use crate::util::R;
use crate::{Case, Prop, Tier, Viol};
use std::io::Write;
use std::process::{Command, Stdio};

pub struct C01;

const HOSTILE: &[&str] = &[
    "0", "1", "-1", "+5", "2147483647", "2147483648", "-2147483648", "4294967295", "4294967296", "9223372036854775807", "9223372036854775808", "-9223372036854775808", "-9223372036854775809", "18446744073709551615", "18446744073709551616", "99999999999999999999999", "1e9", "0x10", " 7", "7 ",
    "", "abc", "1000", "1001", "65535", "65536",
];

fn hostile_doc(r: &mut R) -> String {
    let v = |r: &mut R| r.pick(HOSTILE).to_string();
    match r.b(7) {
        0 => format!("<ol start=\"{}\">{}</ol>", v(r), "<li>a".repeat(1 + r.u(12))),
        // an ordered list without items (or with one) in a table cell: its marker width still enters the column's estimate
        // (added after a mutation of `saturating_sub` in the marker-width computation survived: it differs only for
        // start = i64::MIN with no items)
        6 => format!("<table><tr><td><ol start=\"{}\">{}</ol></td><td>qa qb qc qd</td></tr><tr><td>qe</td><td>qf</td></tr></table>", v(r), "<li>qx".repeat(r.u(2))),
        1 => format!("<table><tr><td colspan=\"{}\">a<td colspan=\"{}\">b<tr><td>c<td colspan=\"{}\">d</table>", v(r), v(r), v(r)),
        2 => format!("<table><tr><td colspan={}>a</td><td>b</td></tr><tr><td>c</td></tr></table><ol start={}><li>x</ol>", v(r), v(r)),
        3 => format!("<ul><li><table><tr><td colspan={} rowspan={}>a<td>b</table></ul>", v(r), v(r)),
        4 => format!("<ol start={}><li><ol start={}><li>x<li>y</ol></ol>", v(r), v(r)),
        _ => format!("<table><tr><th colspan={}><table><tr><td colspan={}>q</table></table>", v(r), v(r)),
    }
}

fn widths(r: &mut R) -> usize {
    match r.b(12) {
        0 => 0,
        1 => 1,
        2 => 2,
        3 => 100_000,
        4 => usize::MAX,
        5 => usize::MAX - 1,
        6 => 1 << 32,
        _ => 1 + r.u(200),
    }
}

fn rand_cfg(r: &mut R) -> Cfg {
    let deco = match r.b(5) {
        0 => Deco::Plain,
        1 => Deco::Rich,
        2 => Deco::Trivial,
        3 => Deco::Fam(gen_fam(r, false)),
        _ => Deco::Plain,
    };
    let css = r.p(40);
    let mut c = gen_cfg(r, deco, css);
    c.overflow = r.p(30);
    if r.p(20) {
        c.max_wrap = Some(*r.pick(&[&0usize, &1, &2, &usize::MAX, &100]));
    }
    if r.p(25) {
        c.min_wrap = *r.pick(&[&0usize, &1, &2, &10, &1000, &usize::MAX]);
    }
    if css {
        if r.p(50) {
            c.user_css = Some(if r.p(50) { gen::sheet(r) } else { gen::css_soup(r) });
        }
        if r.p(25) {
            c.agent_css = Some(if r.p(50) { gen::sheet(r) } else { gen::css_soup(r) });
        }
    }
    c
}

/// run one case in a child process on its main thread; returns the outcome class or the way it died
fn isolated(html: &[u8], cfg: &Cfg, width: usize, secs: u64, clone: bool) -> String {
    let exe = std::env::current_exe().unwrap();
    let mut args: Vec<String> = vec!["single-main".into(), width.to_string()];
    args.extend(cfg.encode().split(' ').map(|s| s.to_string()));
    if clone {
        args.push("clone".into());
    }
    // the harness is built with opt-level 1, whose stack frames are a fraction of the debug profile's (the profile the
    // property speaks about): a recursion that overflows 8 MiB at depth 4*10^4 in a debug build needs 2*10^5 here.  The
    // child therefore gets a 2 MiB main-thread stack, which restores roughly the debug profile's depth budget.
    let mut child = match Command::new("sh")
        .arg("-c")
        .arg("ulimit -s 2048; exec \"$0\" \"$@\"")
        .arg(exe)
        .args(&args)
        .stdin(Stdio::piped())
        .stdout(Stdio::piped())
        .stderr(Stdio::null())
        .spawn()
    {
        Ok(c) => c,
        Err(e) => return format!("spawn-error {e}"),
    };
    let mut stdin = child.stdin.take().unwrap();
    let data = html.to_vec();
    let w = std::thread::spawn(move || {
        let _ = stdin.write_all(&data);
    });
    let t0 = std::time::Instant::now();
    loop {
        match child.try_wait() {
            Ok(Some(st)) => {
                let _ = w.join();
                let mut out = String::new();
                if let Some(mut o) = child.stdout.take() {
                    use std::io::Read;
                    let _ = o.read_to_string(&mut out);
                }
                if st.success() {
                    return out.lines().next().unwrap_or("").to_string();
                }
                #[cfg(unix)]
                {
                    use std::os::unix::process::ExitStatusExt;
                    if let Some(sig) = st.signal() {
                        return format!("killed-by-signal-{sig}");
                    }
                }
                return format!("exit-{:?} {}", st.code(), out.lines().next().unwrap_or(""));
            }
            Ok(None) => {
                if t0.elapsed().as_secs() > secs {
                    let _ = child.kill();
                    let _ = child.wait();
                    return format!("timeout-{secs}s");
                }
                std::thread::sleep(std::time::Duration::from_millis(20));
            }
            Err(e) => return format!("wait-error {e}"),
        }
    }
}

/// does some style sheet of the case hold a selector with two or more descendant steps, and is the document nested deeply?
fn selector_backtracking(c: &Case) -> bool {
    let mut sheets: Vec<String> = Vec::new();
    if let Some(s) = &c.cfg.user_css {
        sheets.push(s.clone());
    }
    if let Some(s) = &c.cfg.agent_css {
        sheets.push(s.clone());
    }
    let html = String::from_utf8_lossy(&c.html).to_string();
    if c.cfg.use_doc_css {
        let mut rest = html.as_str();
        while let Some(i) = rest.find("<style") {
            let t = &rest[i..];
            let j = t.find("</style").unwrap_or(t.len());
            sheets.push(t[..j].to_string());
            rest = &t[j..];
        }
    }
    let deep_steps = sheets.iter().any(|sh| {
        // strip comments
        let mut t = String::new();
        let mut r = sh.as_str();
        while let Some(i) = r.find("/*") {
            t.push_str(&r[..i]);
            t.push(' ');
            r = match r[i + 2..].find("*/") { Some(j) => &r[i + 2 + j + 2..], None => "" };
        }
        t.push_str(r);
        t.split('{').any(|part| {
            let sel = part.rsplit('}').next().unwrap_or("");
            sel.split(',').any(|one| {
                let spaced = one.replace('>', " > ");
                let toks: Vec<&str> = spaced.split_whitespace().collect();
                let mut steps = 0;
                for w in toks.windows(2) {
                    if w[0] != ">" && w[1] != ">" {
                        steps += 1;
                    }
                }
                steps >= 2
            })
        })
    });
    // nesting depth: the longest run of open tags without a close tag in between is a cheap lower bound
    let mut depth = 0usize;
    let mut best = 0usize;
    let b = html.as_bytes();
    let mut i = 0;
    while i + 1 < b.len() {
        if b[i] == b'<' {
            if b[i + 1] == b'/' {
                depth = depth.saturating_sub(1);
            } else if b[i + 1].is_ascii_alphabetic() {
                depth += 1;
                best = best.max(depth);
            }
        }
        i += 1;
    }
    deep_steps && best >= 200
}

impl Prop for C01 {
    fn id(&self) -> &'static str {
        "C01"
    }
    fn rule(&self) -> &'static str {
        "streams: G-doc and byte mutation (invalid UTF-8, control bytes) x random configurations incl. custom ASCII decorators, CSS from sheets and token soup, extreme min/max wrap widths; hostile numeric attributes (0, +-1, +-2^31, +-2^63, 2^64-1, junk) for colspan/ol start; widths {0,1,2,..200,10^5,2^32,usize::MAX}; isolated child-process runs for deep nesting (inline to 10^5, block to 3000), early-failure-then-drop, RenderTree::clone, long selectors and descendant-combinator chains under a watchdog; outcome must be Ok, TooNarrow or (with CSS) CssParseError; non-trivial = every case counts (distinct by input)"
    }
    fn cases(&self, r: &mut R, tier: Tier) -> Vec<Case> {
        let n = scale(tier, 4000, 120000);
        let mut v = Vec::new();
        for i in 0..n {
            let (html, stream): (Vec<u8>, &'static str) = match i % 5 {
                0 => (hostile_doc(r).into_bytes(), "hostile-attrs"),
                1 => {
                    let d = gen_doc(r, Knobs::all()).0;
                    (gen::mutate(r, d.as_bytes()), "g-mut")
                }
                2 => {
                    // exotic Unicode: ligatures, VS16, Khmer width 3, zero-width joiners, bidi controls
                    let atoms = ["لا", "\u{2764}\u{fe0f}", "\u{17d8}", "a\u{200d}b", "\u{202e}x", "\u{1f468}\u{200d}\u{1f469}", "\u{0}", "\u{7f}", "\u{85}", "\u{a0}", "\u{3000}", "\u{feff}", "e\u{301}\u{301}\u{301}", "\u{115f}", "字"];
                    let mut s = String::from(*r.pick(&[&"<p>", &"<pre>", &"<table><tr><td>", &"<ul><li>", &"<h1>"]));
                    for _ in 0..1 + r.u(12) {
                        s.push_str(r.pick(&atoms));
                        if r.p(40) {
                            s.push(' ');
                        }
                    }
                    (s.into_bytes(), "exotic-unicode")
                }
                3 => {
                    // repetition
                    let unit = *r.pick(&[&"<div>", &"<span>", &"<li>", &"<td>", &"<table>", &"<blockquote>", &"<a href=x>", &"<b>", &"<ol><li>", &"<pre>", &"&nbsp;", &"<br>", &"x ", &"\t", &"<p id=a>", &"</p>"]);
                    let k = *r.pick(&[&10usize, &50, &200, &1000]);
                    (unit.repeat(k).into_bytes(), "repetition")
                }
                _ => {
                    let css = r.p(50);
                    let k = if css { Knobs::all() } else { Knobs::all().no_css() };
                    let mut d = String::new();
                    if css && r.p(50) {
                        d.push_str(&format!("<style>{}</style>", if r.p(50) { gen::sheet(r) } else { gen::css_soup(r) }.replace("</", "< /")));
                    }
                    d.push_str(&gen_doc(r, k).0);
                    (d.into_bytes(), "g-doc")
                }
            };
            let mut cfg = rand_cfg(r);
            let w = widths(r);
            if w > 100_000 {
                cfg.pad = false; // padding to an enormous width allocates that much: "bounded widths only"
            }
            v.push(case(html, cfg, w, stream));
        }
        v
    }
    fn oracle(&self, c: &Case, o: &Obs) -> Vec<Viol> {
        let mut out = vec![];
        let css = c.cfg.user_css.is_some() || c.cfg.agent_css.is_some();
        match o {
            Obs::Ok(_) | Obs::Narrow => {}
            Obs::CssErr if css => {}
            // known finding: descendant combinators backtrack without memoisation — Θ(depth^k) for k descendant steps; a
            // sheet with two or more of them over a document nested hundreds of levels deep needs minutes
            Obs::Hang(_) if selector_backtracking(c) => out.push(known(format!("no result within the watchdog: descendant-combinator backtracking over deep nesting (width {}, config {})", c.width, c.cfg.describe()), "C01-selector-backtracking")),
            x => out.push(viol(format!("rendering is not total: {} (width {}, config {})", x.short(), c.width, c.cfg.describe()))),
        }
        out
    }
    fn project(&self, _c: &Case, o: &Obs) -> String {
        o.class().to_string()
    }
    fn nontrivial(&self, _c: &Case, _o: &Obs) -> bool {
        true
    }
    fn known_disagreement(&self, c: &Case, imp: &Obs, model: &Obs) -> Option<&'static str> {
        // the model's matcher is linear in the chain; the implementation's backtracks (known finding)
        let _ = model;
        if matches!(imp, Obs::Hang(_)) && selector_backtracking(c) {
            return Some("C01-selector-backtracking");
        }
        None
    }
    fn timeout(&self) -> u64 {
        20
    }
    fn extra_checks(&self, r: &mut R, tier: Tier) -> (usize, Vec<(Case, Viol)>) {
        let mut res: Vec<(Case, Viol)> = Vec::new();
        let mut n = 0;
        let plain = Cfg::plain();
        let mut run = |html: String, cfg: &Cfg, w: usize, secs: u64, clone: bool, what: &str, known: Option<&'static str>, res: &mut Vec<(Case, Viol)>| {
            n += 1;
            let r = isolated(html.as_bytes(), cfg, w, secs, clone);
            let ok = matches!(r.as_str(), "ok" | "narrow" | "csserr");
            if !ok {
                let mut shown = html.clone();
                if shown.len() > 300 {
                    shown = format!("{}… ({} bytes)", &shown[..200], shown.len());
                }
                let mut c = Case::new(html.into_bytes(), cfg.clone(), w, "isolated");
                c.aux = what.to_string();
                res.push((c, Viol { what: format!("{what}: child process ended with `{r}` on {shown:?} at width {w}"), known }));
            }
        };
        let deep: &[usize] = if tier == Tier::Quick { &[1000, 20000] } else { &[1000, 10000, 100000] };
        for &d in deep {
            run(format!("{}x{}", "<span>".repeat(d), "</span>".repeat(d)), &plain, 20, 120, false, "deep inline nesting", None, &mut res);
            run(format!("{}x", "<em>".repeat(d)), &Cfg::rich(), 20, 120, false, "deep inline nesting (rich)", None, &mut res);
        }
        // the same depth below every element that has a handler of its own in the DOM -> render tree pass (link, cell,
        // list item, heading, pre, sup, strikeout ...): a recursive helper in one of those arms overflows the stack only
        // there (added after the seeded change C01-recursive-visibly-empty-link was missed by the plain <span>/<em> chains)
        let dctx = if tier == Tier::Quick { 60000 } else { 100000 };
        for (open, close) in [("<a href=\"u\">", "</a>"), ("<table><tr><td>", "</td></tr></table>"), ("<ul><li>", "</li></ul>"), ("<h2>", "</h2>"),
                              ("<pre>", "</pre>"), ("<sup>", "</sup>"), ("<s>", "</s>"), ("<dl><dt>", "</dt></dl>")] {
            let inner = if open.starts_with("<a") { "b" } else { "span" };
            run(format!("{open}{}x{}{close}", format!("<{inner}>").repeat(dctx), format!("</{inner}>").repeat(dctx)), &plain, 20, 120, false, "deep inline nesting inside an element with its own handler", None, &mut res);
        }
        run(format!("<a href=\"u\">{}x</a>", "<em>".repeat(dctx)), &Cfg::rich(), 20, 120, false, "deep inline nesting inside a link (rich)", None, &mut res);
        let deepb: &[usize] = if tier == Tier::Quick { &[300] } else { &[300, 1000, 3000] };
        for &d in deepb {
            let mut c = plain.clone();
            c.overflow = true;
            run(format!("{}x", "<div>".repeat(d)), &plain, 40, 120, false, "deep block nesting", None, &mut res);
            run(format!("{}x", "<blockquote>".repeat(d)), &c, 40, 120, false, "deep prefixed nesting with overflow", None, &mut res);
            run(format!("{}x", "<ul><li>".repeat(d)), &plain, 40, 120, false, "deep list nesting", None, &mut res);
        }
        // known finding #6: an early TooNarrow drops the unrendered remainder of a deep tree recursively; clone() is recursive too
        let d = if tier == Tier::Quick { 30000 } else { 100000 };
        run(format!("{}{}x", "<blockquote>".repeat(45), "<span>".repeat(d)), &plain, 20, 120, false, "early TooNarrow then drop of a deep remainder", Some("C01-recursive-drop"), &mut res);
        run(format!("{}x", "<span>".repeat(d)), &plain, 20, 120, true, "RenderTree::clone() of a deep tree", Some("C01-recursive-clone"), &mut res);
        // known finding #20: a compound selector of 65536 components recurses once per component
        let mut c = Cfg::rich();
        c.user_css = Some(format!("{}{{color:red}}", ".a".repeat(if tier == Tier::Quick { 65536 } else { 200000 })));
        run("<p class=a>x</p>".to_string(), &c, 20, 120, false, "very long compound selector", Some("C01-selector-recursion"), &mut res);
        // known finding #21: descendant-combinator chains backtrack without memoisation: Θ(depth^k)
        let k = if tier == Tier::Quick { 9 } else { 11 };
        let mut c = Cfg::rich();
        c.user_css = Some(format!("z {}y{{color:red}}", "x ".repeat(k)));
        run(format!("{}q", "<x>".repeat(40)), &c, 20, if tier == Tier::Quick { 20 } else { 60 }, false, "descendant-combinator chain over deep nesting", Some("C01-selector-backtracking"), &mut res);
        // grid: shorter chains must finish
        for k in 1..=5 {
            for depth in [5usize, 20, 40] {
                let mut c = Cfg::rich();
                c.user_css = Some(format!("z {}y{{color:red}}", "x ".repeat(k)));
                run(format!("{}q", "<x>".repeat(depth)), &c, 20, 60, false, "short descendant chain", None, &mut res);
            }
        }
        let _ = r;
        (n, res)
    }
}
