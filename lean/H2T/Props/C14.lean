import H2T.Lemmas.FitsBlock

/-! # C14 — every id with visible content yields one fragment marker at its content

Status: **partial** — proved: recording a marker adds exactly one marker element to the pending word of the
current block and nothing else; markers have no width (so they can never change wrapping or the text); the hard
wrap keeps the markers of the word it splits (this is what the `fix:` commit "keep fragment markers when a word
is hard-wrapped" repaired: before it the conservation lemma below was false); markers that reach the end of a
block are handed over to the next line.  Exactly-once and position over whole documents are decided by
correspondence and the search oracle; two situations in which a marker is lost or an id changes the layout are
known findings. -/

namespace H2T.C14

def isFrag : Elt → Bool | .frag _ => true | .cell _ => false
def frags (l : TLine) : List Elt := l.filter isFrag

/-- recording a fragment start appends exactly one marker to the pending word; line and finished text are untouched -/
theorem recordFrag_adds_one (s : SubR) (cfg : Cfg) (n : List Ch) :
    ∃ w, (s.recordFrag cfg n).wrapping = some w ∧ w.word = (s.getWrapping cfg).word ++ [Elt.frag n] ∧
      w.line = (s.getWrapping cfg).line ∧ w.text = (s.getWrapping cfg).text ∧ (s.recordFrag cfg n).lines = s.lines :=
  ⟨_, rfl, rfl, rfl, rfl, rfl⟩

/-- markers carry no width -/
theorem frag_zero_width (n : List Ch) : (Elt.frag n).w = 0 := rfl
theorem frags_zero_width (l : TLine) : lw (frags l) = 0 := by
  induction l with
  | nil => rfl
  | cons e l ih => cases e <;> simp [frags, isFrag, List.filter_cons, Elt.w] at ih ⊢ <;> exact ih

/-- the word is split into pieces and markers without losing a marker -/
theorem itemsOf_keeps_frags (l : TLine) :
    (itemsOf l).filterMap (fun i => match i with | .frag n => some (Elt.frag n) | .piece _ => none) = frags l := by
  induction l with
  | nil => rfl
  | cons e es ih =>
    cases e with
    | frag n => simp [itemsOf, frags, isFrag, List.filter_cons] at ih ⊢; exact ih
    | cell c =>
      simp only [itemsOf]
      split
      · rename_i p ps c' rest heq1 heq2
        split <;> simp_all [frags, isFrag, List.filter_cons]
      · simp_all [frags, isFrag, List.filter_cons]

/-- hard-wrapping a marker keeps it: it goes onto the current line (since fix 8ce5bbd) -/
theorem hardWrap_keeps_marker (b : WB) (ll : Nat) (n : List Ch) (rest : List WItem) :
    b.hardWrapGo ll (.frag n :: rest) = ({ b with line := b.line ++ [Elt.frag n] } : WB).hardWrapGo ll rest := rfl

/-- markers still pending when a block is flushed are kept for the next line, not dropped -/
theorem flush_keeps_trailing_markers (s s' : SubR) (w : WB) (hw : s.wrapping = some w) (hn : w.word.noContent = true)
    (h : s.flushWrapping = .ok s') : ∃ pre, s'.pendingFrags = pre ++ w.word := by
  unfold SubR.flushWrapping at h
  simp only [hw, hn, if_true] at h
  cases hf : ({ w with word := [] } : WB).finish with
  | error e => simp [hf, andThen] at h
  | ok ls =>
    simp only [hf, andThen] at h
    injection h with h
    exact ⟨_, by rw [← h]⟩

/-! non-vacuity: the witness of the repaired defect — `<p id=x>hhhhhhhh b</p>` at width 5 keeps its marker -/
example :
    let b0 : WB := ({ width := 5 } : WB).addElement (.frag (strCh "x"))
    ((b0.addText .normal [] [] (strCh "hhhhhhhh b")).toOption.bind fun b => b.finish.toOption.map fun ls => (ls.map frags).flatten.length)
      = some 1 := by decide +kernel

end H2T.C14
