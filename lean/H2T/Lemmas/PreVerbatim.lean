import H2T.Lemmas.WrapInv

/-! C12, the fits case: a source line of a preformatted block whose expansion (tabs to 8-column stops, a whitespace
    character of width `w` as `w` blanks, characters without width dropped) fits the width is reproduced exactly — the
    wrap machine in `pre` mode emits one line equal to the expansion up to trailing blanks, tagged with the main tag. -/

namespace H2T

/-- blanks up to the next 8-column stop (at least one) -/
def tabN (col : Nat) : Nat := 8 - col % 8

/-- the expansion of a source line (no newline), continuing `acc` -/
def expandGo (tag : Tag) : TLine → List Ch → TLine
  | acc, [] => acc
  | acc, c :: cs =>
    if c.ws then
      if c.cp = 9 then expandGo tag (acc ++ List.replicate (tabN (lw acc)) (spc tag)) cs
      else if c.ctrl then expandGo tag acc cs
      else expandGo tag (acc ++ List.replicate c.w (spc tag)) cs
    else if c.ctrl then expandGo tag acc cs
    else expandGo tag (acc ++ [Elt.cell ⟨c, tag⟩]) cs

theorem lw_expandGo_mono (tag : Tag) (cs : List Ch) : ∀ (acc : TLine), lw acc ≤ lw (expandGo tag acc cs) := by
  induction cs with
  | nil => intro acc; exact Nat.le_refl _
  | cons c cs ih =>
    intro acc
    simp only [expandGo]
    split
    · split
      · exact Nat.le_trans (by simp) (ih _)
      · split
        · exact ih _
        · exact Nat.le_trans (by simp) (ih _)
    · split
      · exact ih _
      · exact Nat.le_trans (by simp) (ih _)

/-- the tab loop adds exactly the blanks up to the next stop when they fit -/
theorem tabLoop_fits (tag : Tag) : ∀ (fuel : Nat) (b : WB) (pos k : Nat), pos + k ≤ b.width → k < fuel →
    (pos + k) % 8 = 0 → (∀ j, 0 < j → j < k → (pos + j) % 8 ≠ 0) → 0 < k →
    b.tabLoop tag pos false fuel = .ok { b with line := b.line ++ List.replicate k (spc tag), linelen := b.linelen + k } := by
  -- generalised over the `one` flag: either nothing was pushed yet, or the position is not at a stop
  have gen : ∀ (fuel : Nat) (b : WB) (pos k : Nat) (one : Bool), pos + k ≤ b.width → k < fuel →
      (pos + k) % 8 = 0 → (∀ j, j < k → (one = false ∧ j = 0) ∨ (pos + j) % 8 ≠ 0) → (k = 0 → one = true) →
      b.tabLoop tag pos one fuel = .ok { b with line := b.line ++ List.replicate k (spc tag), linelen := b.linelen + k } := by
    intro fuel
    induction fuel with
    | zero => intro b pos k one _ hk; omega
    | succ fuel ih =>
      intro b pos k one hw hk hstop hmid h0
      simp only [WB.tabLoop]
      cases k with
      | zero =>
        have ho := h0 rfl
        have hp : pos % 8 = 0 := by simpa using hstop
        simp [hp, ho]
      | succ k =>
        have hcond : (pos % 8 != 0 || !one) = true := by
          rcases hmid 0 (by omega) with ⟨h1, _⟩ | h1
          · simp [h1]
          · simp at h1; simp [h1]
        rw [if_pos hcond]
        rw [if_neg (by omega)]
        have := ih ({ b with line := b.line ++ [spc tag], linelen := b.linelen + 1 } : WB) (pos + 1) k true (by show pos + 1 + k ≤ b.width; omega) (by omega)
          (by rw [← hstop]; congr 1; omega)
          (by intro j hj; right
              rcases hmid (j + 1) (by omega) with ⟨_, h2⟩ | h2
              · omega
              · have : pos + 1 + j = pos + (j + 1) := by omega
                rw [this]; exact h2)
          (fun _ => rfl)
        rw [this]
        congr 1
        simp only [List.append_assoc, List.singleton_append, List.replicate_succ]
        congr 1
        omega
  intro fuel b pos k hw hk hstop hmid hk0
  exact gen fuel b pos k false hw hk hstop (by
    intro j hj
    by_cases hj0 : j = 0
    · left; exact ⟨rfl, hj0⟩
    · right; exact hmid j (by omega) hj) (by omega)

theorem tabN_spec (col : Nat) : 0 < tabN col ∧ tabN col ≤ 8 ∧ (col + tabN col) % 8 = 0 ∧ ∀ j, 0 < j → j < tabN col → (col + j) % 8 ≠ 0 := by
  unfold tabN
  refine ⟨by omega, by omega, by omega, ?_⟩
  intro j h1 h2; omega

/-- the state of the machine inside a line of a `pre` block, before any wrapping: line, pending blanks and pending word
    together are the expansion so far -/
structure PreInv (tag : Tag) (b : WB) (e : TLine) : Prop where
  inv : b.Inv
  eq : b.line ++ List.replicate b.wslen (spc tag) ++ b.word = e
  stag : 0 < b.wslen → b.spacetag = some tag
  pw : b.preWrapped = false
  cells : ∀ x ∈ b.word, x.isCell = true

theorem lw_replicate_spc' (n : Nat) (t : Tag) : lw (List.replicate n (spc t)) = n := lw_replicate_spc n t

/-- one character of a line that fits: the machine stays in `PreInv` with the expansion extended by that character -/
theorem addChar_pre_fits (b : WB) (tag wt : Tag) (e : TLine) (c : Ch) (h : PreInv tag b e) (hnl : c.cp ≠ 10)
    (hfit : lw (expandGo tag e [c]) ≤ b.width) :
    ∃ b', b.addChar .pre tag wt false c = .ok (b', false) ∧ PreInv tag b' (expandGo tag e [c]) ∧ b'.width = b.width ∧
      b'.text = b.text ∧ b'.padBlocks = b.padBlocks := by
  obtain ⟨hi, heq, hst, hpw, hcells⟩ := h
  have hle : lw e = b.linelen + b.wslen + b.wordlen := by
    rw [← heq, lw_append, lw_append, lw_replicate_spc, hi.linelen_eq, hi.wordlen_eq]
  have hmono := lw_expandGo_mono tag [c] e
  by_cases hws : c.ws = true
  · -- whitespace: flush the pending word first
    have hflush : ∃ b1, (if (c.ws && !b.word.noContent) = true then b.flushWord .pre else Except.ok b) = .ok b1 ∧
        PreInv tag b1 e ∧ b1.word = [] ∧ b1.wordlen = 0 ∧ b1.width = b.width ∧ b1.text = b.text ∧ b1.padBlocks = b.padBlocks := by
      by_cases hnc : b.word.noContent = true
      · rw [if_neg (by simp [hnc])]
        have hw0 : b.word = [] := by
          cases hw : b.word with
          | nil => rfl
          | cons x xs =>
            have hx := hcells x (by rw [hw]; simp)
            rw [hw] at hnc
            simp [TLine.noContent, hx] at hnc
        have hz : b.wordlen = 0 := by rw [hi.wordlen_eq, hw0]; rfl
        exact ⟨b, rfl, ⟨hi, heq, hst, hpw, hcells⟩, hw0, hz, rfl, rfl, rfl⟩
      · rw [if_pos (by simp [hws, hnc])]
        unfold WB.flushWord
        rw [if_neg hnc]
        simp only
        rw [if_neg (by have := hi.line_fit; show ¬ b.linelen > b.width; omega)]
        rw [if_pos (by show b.wslen + b.wordlen ≤ b.width - b.linelen; omega)]
        unfold WB.placeFits
        by_cases hwz : b.wslen > 0
        · rw [if_pos hwz]
          simp only [hst hwz]
          refine ⟨_, rfl, ⟨?_, ?_, fun h0 => by simp at h0, rfl, fun x hx => by simp at hx⟩, rfl, rfl, rfl, rfl, rfl⟩
          · refine ⟨?_, rfl, ?_, hi.text_fit, fun h0 => by simp at h0⟩
            · simp only [WB.pushWs, lw_append, lw_replicate_spc, hi.linelen_eq]
            · show b.linelen + b.wslen + lw b.word ≤ b.width
              rw [← hi.wordlen_eq]; omega
          · simp only [WB.pushWs, List.replicate_zero, List.append_nil]
            rw [← heq]
        · rw [if_neg hwz]
          have hz : b.wslen = 0 := by omega
          refine ⟨_, rfl, ⟨?_, ?_, fun h0 => by simp [hz] at h0, rfl, fun x hx => by simp at hx⟩, rfl, rfl, rfl, rfl, rfl⟩
          · refine ⟨?_, rfl, ?_, hi.text_fit, fun h0 => by simp [hz] at h0⟩
            · simp only [lw_append, hi.linelen_eq]
            · show b.linelen + lw b.word ≤ b.width
              rw [← hi.wordlen_eq]; omega
          · simp only [hz, List.replicate_zero, List.append_nil]
            rw [← heq, hz]; simp
    obtain ⟨b1, hf1, ⟨hi1, heq1, hst1, hpw1, _⟩, hw1, hwl1, hwid1, htx1, hpad1⟩ := hflush
    have hle1 : lw e = b1.linelen + b1.wslen := by
      rw [← heq1, hw1, lw_append, lw_append, lw_replicate_spc, hi1.linelen_eq]; simp [lw]
    unfold WB.addChar
    simp only
    rw [hf1]
    simp only [hws, if_true, WS.preserve, Bool.false_eq_true, if_false]
    rw [if_neg hnl]
    by_cases h9 : c.cp = 9
    · have hexp : expandGo tag e [c] = e ++ List.replicate (tabN (lw e)) (spc tag) := by
        simp only [expandGo, hws, h9, if_true]
      rw [hexp] at hfit ⊢
      rw [if_pos h9]
      obtain ⟨t1, t2, t3, t4⟩ := tabN_spec (lw e)
      have hfit' : lw e + tabN (lw e) ≤ b.width := by
        simpa [lw_append, lw_replicate_spc] using hfit
      have := tabLoop_fits tag (2 * b1.width + 20) b1 (b1.linelen + b1.wslen) (tabN (lw e)) (by rw [← hle1, hwid1]; exact hfit') (by omega)
        (by rw [← hle1]; exact t3) (by rw [← hle1]; exact t4) t1
      rw [this]
      refine ⟨_, rfl, ⟨?_, ?_, hst1, hpw1, fun x hx => by rw [hw1] at hx; simp at hx⟩, hwid1, htx1, hpad1⟩
      · refine ⟨?_, hi1.wordlen_eq, ?_, hi1.text_fit, hi1.tag_ok⟩
        · simp only [lw_append, lw_replicate_spc, hi1.linelen_eq]
        · show b1.linelen + tabN (lw e) ≤ b1.width
          rw [hwid1]; omega
      · show b1.line ++ List.replicate (tabN (lw e)) (spc tag) ++ List.replicate b1.wslen (spc tag) ++ b1.word = _
        rw [← heq1, hw1]
        simp only [List.append_nil, List.append_assoc, List.replicate_append_replicate]
        congr 2; omega
    · rw [if_neg h9]
      by_cases hct : c.ctrl = true
      · have hexp : expandGo tag e [c] = e := by
          simp only [expandGo, hws, h9, hct, if_true, if_false]
        rw [hexp]
        rw [if_pos hct]
        exact ⟨b1, rfl, ⟨hi1, heq1, hst1, hpw1, fun x hx => by rw [hw1] at hx; simp at hx⟩, hwid1, htx1, hpad1⟩
      · have hexp : expandGo tag e [c] = e ++ List.replicate c.w (spc tag) := by
          simp only [expandGo, hws, h9, hct, if_true, if_false, Bool.false_eq_true]
        rw [hexp] at hfit ⊢
        rw [if_neg hct]
        have hfit' : lw e + c.w ≤ b.width := by simpa [lw_append, lw_replicate_spc] using hfit
        rw [if_neg (by rw [hwid1]; omega)]
        refine ⟨_, rfl, ⟨?_, ?_, fun _ => rfl, hpw1, fun x hx => by rw [hw1] at hx; simp at hx⟩, hwid1, htx1, hpad1⟩
        · exact ⟨hi1.linelen_eq, hi1.wordlen_eq, hi1.line_fit, hi1.text_fit, fun _ => rfl⟩
        · show b1.line ++ List.replicate (b1.wslen + c.w) (spc tag) ++ b1.word = _
          rw [← heq1, hw1]
          simp only [List.append_nil, List.append_assoc, List.replicate_append_replicate]
  · have hws' : c.ws = false := by simpa using hws
    unfold WB.addChar
    simp only [hws', Bool.false_and, Bool.false_eq_true, if_false]
    by_cases hct : c.ctrl = true
    · have hexp : expandGo tag e [c] = e := by
        simp only [expandGo, hws', hct, if_true, Bool.false_eq_true, if_false]
      rw [hexp]
      rw [if_pos hct]
      exact ⟨b, rfl, ⟨hi, heq, hst, hpw, hcells⟩, rfl, rfl, rfl⟩
    · have hexp : expandGo tag e [c] = e ++ [Elt.cell ⟨c, tag⟩] := by
        simp only [expandGo, hws', hct, Bool.false_eq_true, if_false]
      rw [hexp] at hfit ⊢
      rw [if_neg hct]
      have hfit' : lw e + c.w ≤ b.width := by simpa [lw_append, lw, Elt.w] using hfit
      have hsw : decide (b.linelen + b.wslen + (b.wordlen + c.w) > b.width) = false := by
        simp; omega
      simp only [hsw, decide_true, Bool.true_and, Bool.and_false, Bool.false_eq_true, if_false, hpw]
      refine ⟨_, rfl, ⟨?_, ?_, hst, rfl, ?_⟩, rfl, rfl, rfl⟩
      · refine ⟨hi.linelen_eq, ?_, hi.line_fit, hi.text_fit, hi.tag_ok⟩
        show b.wordlen + c.w = lw (b.word ++ [Elt.cell ⟨c, tag⟩])
        simp [lw_append, lw, Elt.w, hi.wordlen_eq]
      · show b.line ++ List.replicate b.wslen (spc tag) ++ (b.word ++ [Elt.cell ⟨c, tag⟩]) = _
        rw [← heq]; simp
      · intro x hx
        simp only [List.mem_append, List.mem_singleton] at hx
        rcases hx with hx | hx
        · exact hcells x hx
        · rw [hx]; rfl

theorem expandGo_cons (tag : Tag) (e : TLine) (c : Ch) (cs : List Ch) : expandGo tag e (c :: cs) = expandGo tag (expandGo tag e [c]) cs := by
  simp only [expandGo]
  split
  · split
    · rfl
    · split <;> rfl
  · split <;> rfl

/-- a whole source line that fits (followed by anything): the machine ends in `PreInv` with the line's expansion -/
theorem addTextGo_pre_fits (tag wt : Tag) (rest : List Ch) (l : List Ch) : ∀ (b : WB) (e : TLine), PreInv tag b e → (∀ c ∈ l, c.cp ≠ 10) →
    lw (expandGo tag e l) ≤ b.width →
    ∃ b', b.addTextGo .pre tag wt false (l ++ rest) = b'.addTextGo .pre tag wt false rest ∧ PreInv tag b' (expandGo tag e l) ∧
      b'.width = b.width ∧ b'.text = b.text ∧ b'.padBlocks = b.padBlocks := by
  induction l with
  | nil => intro b e h _ _; exact ⟨b, rfl, h, rfl, rfl, rfl⟩
  | cons c cs ih =>
    intro b e h hnl hfit
    rw [expandGo_cons] at hfit ⊢
    have hfit1 : lw (expandGo tag e [c]) ≤ b.width := Nat.le_trans (lw_expandGo_mono tag cs _) hfit
    obtain ⟨b1, e1, i1, w1, t1, p1⟩ := addChar_pre_fits b tag wt e c h (hnl c (by simp)) hfit1
    obtain ⟨b2, e2, i2, w2, t2, p2⟩ := ih b1 _ i1 (fun x hx => hnl x (by simp [hx])) (by rw [w1]; exact hfit)
    refine ⟨b2, ?_, i2, w2.trans w1, t2.trans t1, p2.trans p1⟩
    simp only [List.cons_append, WB.addTextGo, e1]
    exact e2

/-- the newline that ends a source line: the line is emitted — the expansion minus the blanks still pending — and the
    machine starts the next line from scratch -/
theorem newline_pre (b : WB) (tag wt : Tag) (e : TLine) (h : PreInv tag b e) (hp : b.padBlocks = false) (hfit : lw e ≤ b.width)
    (nl : Ch) (hnl : nl.cp = 10) (hws : nl.ws = true) :
    ∃ b' L k, b.addChar .pre tag wt false nl = .ok (b', false) ∧ b'.text = b.text ++ [L] ∧ e = L ++ List.replicate k (spc tag) ∧
      PreInv tag b' [] ∧ b'.width = b.width ∧ b'.padBlocks = b.padBlocks := by
  obtain ⟨hi, heq, hst, hpw, hcells⟩ := h
  have hle : lw e = b.linelen + b.wslen + b.wordlen := by
    rw [← heq, lw_append, lw_append, lw_replicate_spc, hi.linelen_eq, hi.wordlen_eq]
  -- the state after the optional flush of the pending word
  have hflush : ∃ b1 k, (if (nl.ws && !b.word.noContent) = true then b.flushWord .pre else Except.ok b) = .ok b1 ∧
      e = b1.line ++ List.replicate k (spc tag) ∧ b1.Inv ∧ b1.word = [] ∧ b1.width = b.width ∧ b1.text = b.text ∧ b1.padBlocks = b.padBlocks := by
    by_cases hnc : b.word.noContent = true
    · rw [if_neg (by simp [hnc])]
      have hw0 : b.word = [] := by
        cases hw : b.word with
        | nil => rfl
        | cons x xs =>
          have hx := hcells x (by rw [hw]; simp)
          rw [hw] at hnc
          simp [TLine.noContent, hx] at hnc
      exact ⟨b, b.wslen, rfl, by rw [← heq, hw0]; simp, hi, hw0, rfl, rfl, rfl⟩
    · rw [if_pos (by simp [hws, hnc])]
      unfold WB.flushWord
      rw [if_neg hnc]
      simp only
      rw [if_neg (by have := hi.line_fit; show ¬ b.linelen > b.width; omega)]
      rw [if_pos (by show b.wslen + b.wordlen ≤ b.width - b.linelen; omega)]
      unfold WB.placeFits
      by_cases hwz : b.wslen > 0
      · rw [if_pos hwz]
        simp only [hst hwz]
        refine ⟨_, 0, rfl, ?_, ?_, rfl, rfl, rfl, rfl⟩
        · simp only [WB.pushWs, List.replicate_zero, List.append_nil]; rw [← heq]
        · refine ⟨?_, rfl, ?_, hi.text_fit, fun h0 => by simp at h0⟩
          · simp only [WB.pushWs, lw_append, lw_replicate_spc, hi.linelen_eq]
          · show b.linelen + b.wslen + lw b.word ≤ b.width
            rw [← hi.wordlen_eq]; omega
      · rw [if_neg hwz]
        have hz : b.wslen = 0 := by omega
        refine ⟨_, 0, rfl, ?_, ?_, rfl, rfl, rfl, rfl⟩
        · simp only [List.replicate_zero, List.append_nil]; rw [← heq, hz]; simp
        · refine ⟨?_, rfl, ?_, hi.text_fit, fun h0 => by simp [hz] at h0⟩
          · simp only [lw_append, hi.linelen_eq]
          · show b.linelen + lw b.word ≤ b.width
            rw [← hi.wordlen_eq]; omega
  obtain ⟨b1, k, hf1, he1, hi1, hw1, hwid1, htx1, hpad1⟩ := hflush
  unfold WB.addChar
  simp only
  rw [hf1]
  simp only [hws, if_true, WS.preserve, hnl]
  refine ⟨_, b1.line, k, rfl, ?_, he1, ⟨?_, ?_, fun h0 => by simp at h0, rfl, fun x hx => by
    have hx' : x ∈ b1.word := hx
    rw [hw1] at hx'; simp at hx'⟩, hwid1, hpad1⟩
  · simp [WB.forceFlush, hpad1, hp, htx1]
  · refine ⟨rfl, ?_, Nat.zero_le _, ?_, fun h0 => by simp at h0⟩
    · show b1.wordlen = lw b1.word
      exact hi1.wordlen_eq
    · intro ho l hl
      simp only [WB.forceFlush, hpad1, hp, Bool.false_and, Bool.false_eq_true, if_false, List.mem_append, List.mem_singleton] at hl
      rcases hl with hl | hl
      · exact hi1.text_fit ho l hl
      · rw [hl, ← hi1.linelen_eq]; exact hi1.line_fit
  · show ([] : TLine) ++ List.replicate 0 (spc tag) ++ b1.word = []
    rw [hw1]; rfl

/-- **a preformatted block whose lines fit is reproduced line for line**: feeding the lines `ls`, each followed by a
    newline, to a block at the start of a line emits exactly one line per source line — its expansion (tabs to 8-column
    stops, whitespace of width `w` as `w` blanks, characters without width dropped) minus trailing blanks, all tagged with
    the main tag (no continuation tag, no wrapping) -/
theorem pre_block_verbatim (tag wt : Tag) (nl : Ch) (hnl : nl.cp = 10) (hws : nl.ws = true) : ∀ (ls : List (List Ch)) (b : WB),
    PreInv tag b [] → b.padBlocks = false → (∀ l ∈ ls, (∀ c ∈ l, c.cp ≠ 10) ∧ lw (expandGo tag [] l) ≤ b.width) →
    ∃ b' Ls, b.addTextGo .pre tag wt false (ls.flatMap (· ++ [nl])) = .ok b' ∧ b'.text = b.text ++ Ls ∧ Ls.length = ls.length ∧
      (∀ i (hi : i < ls.length) (hj : i < Ls.length), ∃ k, expandGo tag [] ls[i] = Ls[i] ++ List.replicate k (spc tag)) ∧
      PreInv tag b' [] := by
  intro ls
  induction ls with
  | nil => intro b h _ _; exact ⟨b, [], rfl, by simp, rfl, fun i hi => by simp at hi, h⟩
  | cons l ls ih =>
    intro b h hp hall
    obtain ⟨hnl1, hfit1⟩ := hall l (by simp)
    obtain ⟨b1, e1, i1, w1, t1, p1⟩ := addTextGo_pre_fits tag wt ([nl] ++ ls.flatMap (· ++ [nl])) l b [] h hnl1 hfit1
    obtain ⟨b2, L, k, e2, t2, hk, i2, w2, p2⟩ := newline_pre b1 tag wt _ i1 (p1.trans hp) (by rw [w1]; exact hfit1) nl hnl hws
    obtain ⟨b3, Ls, e3, t3, len3, hk3, i3⟩ := ih b2 i2 (p2.trans (p1.trans hp)) (fun x hx => by
      have := hall x (by simp [hx]); rw [w2, w1]; exact this)
    refine ⟨b3, L :: Ls, ?_, by rw [t3, t2, t1]; simp, by simp [len3], ?_, i3⟩
    · simp only [List.flatMap_cons, List.append_assoc]
      rw [e1]
      simp only [List.singleton_append, WB.addTextGo, e2]
      exact e3
    · intro i hi hj
      cases i with
      | zero => exact ⟨k, hk⟩
      | succ i => simpa using hk3 i (by simpa using hi) (by simpa using hj)

end H2T
