import H2T.Lemmas.ConserveTagPre
import H2T.Lemmas.TagRich

/-! C09, tree level, `<pre>` included: the specification `nodeTN` also tracks the `pre` depth — a node whose style carries
    the internal `pre` flag (the `<pre>` element) adds the `Preformat` annotation on top of the stack of every text below
    it (inside the same sub-renderer), under a view `ν` that identifies the continuation flag. -/

namespace H2T

/-- the visible characters of a text under `dep` strikeout filters at `pre` depth `pre`, tagged with the viewed main tag -/
def tcellsN (ν : Tag → Tag) (d : Deco) (a : Tag) (dep pre : Nat) (x : List Ch) : List Cell :=
  tkeep (ν (preTag d a pre)) (iterN strikeFilter dep x)

/-- the `pre` depth below a node with style `sty` -/
def preIn (sty : Style) (pre : Nat) : Nat := pre + (if sty.pre then 1 else 0)

mutual
/-- **the specification, `<pre>` included** -/
def nodeTN (ν : Tag → Tag) (cfg : Cfg) (d : Deco) (st : Tag) (dep pre : Nat) : RNode → List Cell
  | .text sty s => tcellsN ν d (st ++ styleTags d sty) dep (preIn sty pre) s
  | .img sty src title => tcellsN ν d (st ++ styleTags d sty ++ [d.annOf (Ann.image src)]) dep (preIn sty pre) (d.imgText title)
  | .br _ => []
  | .frag _ => []
  | .box sty k kids =>
    let s1 := st ++ styleTags d sty
    let p1 := preIn sty pre
    match k with
    | .container => listTN ν cfg d s1 dep p1 kids
    | .block => listTN ν cfg d s1 dep p1 kids
    | .li => listTN ν cfg d s1 dep p1 kids
    | .div => listTN ν cfg d s1 dep p1 kids
    | .dl => listTN ν cfg d s1 dep p1 kids
    | .link href =>
      let a := s1 ++ [d.annOf (Ann.link href)]
      tcellsN ν d a dep p1 d.linkStart ++ listTN ν cfg d a dep p1 kids ++ tcellsN ν d a dep p1 d.linkEnd
    | .em =>
      let a := s1 ++ [d.annOf Ann.em]
      tcellsN ν d a dep p1 d.emStart ++ listTN ν cfg d a dep p1 kids ++ tcellsN ν d a dep p1 d.emEnd
    | .strong =>
      let a := s1 ++ [d.annOf Ann.strong]
      tcellsN ν d a dep p1 d.strongStart ++ listTN ν cfg d a dep p1 kids ++ tcellsN ν d a dep p1 d.strongEnd
    | .strike =>
      let a := s1 ++ [d.annOf Ann.strike]
      tcellsN ν d a dep p1 d.strikeStart ++ listTN ν cfg d a (if cfg.unicodeStrike then dep + 1 else dep) p1 kids ++ tcellsN ν d a dep p1 d.strikeEnd
    | .code =>
      let a := s1 ++ [d.annOf Ann.code]
      tcellsN ν d a dep p1 d.codeStart ++ listTN ν cfg d a dep p1 kids ++ tcellsN ν d a dep p1 d.codeEnd
    | .dt =>
      let a := s1 ++ [d.annOf Ann.em]
      tcellsN ν d a dep p1 d.emStart ++ listTN ν cfg d a dep p1 kids ++ tcellsN ν d a dep p1 d.emEnd
    | .header _ => listTN ν cfg d s1 0 0 kids
    | .quote => listTN ν cfg d s1 0 0 kids
    | .dd => listTN ν cfg d s1 0 0 kids
    | .ul => itemsTN ν cfg d s1 kids
    | .ol _ => itemsTN ν cfg d s1 kids
    | .sup =>
      match supDigits kids with
      | some ds => tcellsN ν d s1 dep p1 ds
      | none =>
        let a := s1 ++ [d.annOf Ann.dflt]
        tcellsN ν d a dep p1 d.supStart ++ listTN ν cfg d a dep p1 kids ++ tcellsN ν d a dep p1 d.supEnd
  | .cell sty _ kids => listTN ν cfg d (st ++ styleTags d sty) dep (preIn sty pre) kids
  | .row _ _ => []
  | .tbody _ _ => []
  | .table _ _ _ => []          -- tables: not covered by these theorems
def listTN (ν : Tag → Tag) (cfg : Cfg) (d : Deco) (st : Tag) (dep pre : Nat) : List RNode → List Cell
  | [] => []
  | n :: ns => nodeTN ν cfg d st dep pre n ++ listTN ν cfg d st dep pre ns
/-- list items: each is rendered by its own sub-renderer (fresh strikeout count, `pre` depth 0) -/
def itemsTN (ν : Tag → Tag) (cfg : Cfg) (d : Deco) (st : Tag) : List RNode → List Cell
  | [] => []
  | n :: ns => nodeTN ν cfg d st 0 0 n ++ itemsTN ν cfg d st ns
end

theorem opsTinkN_append (ν : Tag → Tag) (cfg : Cfg) (d : Deco) : ∀ (a b : List Op) (st : Tag) (dep pre : Nat),
    opsTinkN ν cfg d st dep pre (a ++ b) =
      ((opsTinkN ν cfg d st dep pre a).1 ++
          (opsTinkN ν cfg d (opsTinkN ν cfg d st dep pre a).2.1 (opsTinkN ν cfg d st dep pre a).2.2.1 (opsTinkN ν cfg d st dep pre a).2.2.2 b).1,
       (opsTinkN ν cfg d (opsTinkN ν cfg d st dep pre a).2.1 (opsTinkN ν cfg d st dep pre a).2.2.1 (opsTinkN ν cfg d st dep pre a).2.2.2 b).2) := by
  intro a
  induction a with
  | nil => intro b st dep pre; simp [opsTinkN]
  | cons x a ih =>
    intro b st dep pre
    simp only [List.cons_append, opsTinkN, ih, List.append_assoc]

theorem opsTinkN_styleOpen (ν : Tag → Tag) (cfg : Cfg) (d : Deco) (sty : Style) (st : Tag) (dep pre : Nat) :
    opsTinkN ν cfg d st dep pre (styleOpen d sty) = ([], st ++ styleTags d sty, dep, preIn sty pre) := by
  unfold styleOpen styleTags preIn
  cases sty.fg <;> cases sty.bg <;> cases d.colours <;> cases sty.pre <;> (cases sty.ws with | none => simp [opsTinkN, opTinkN] | some m => cases m <;> simp [opsTinkN, opTinkN])

theorem opsTinkN_styleClose (ν : Tag → Tag) (cfg : Cfg) (d : Deco) (sty : Style) (st : Tag) (dep pre : Nat) :
    opsTinkN ν cfg d (st ++ styleTags d sty) dep (preIn sty pre) (styleClose d sty) = ([], st, dep, pre) := by
  unfold styleClose styleTags preIn
  cases sty.fg <;> cases sty.bg <;> cases d.colours <;> cases sty.pre <;> (cases sty.ws with | none => simp [opsTinkN, opTinkN] | some m => cases m <;> simp [opsTinkN, opTinkN])

theorem opsTinkN_styled (ν : Tag → Tag) (cfg : Cfg) (d : Deco) (sty : Style) (st : Tag) (dep pre : Nat) (inner : List Op) (cells : List Cell)
    (h : opsTinkN ν cfg d (st ++ styleTags d sty) dep (preIn sty pre) inner = (cells, st ++ styleTags d sty, dep, preIn sty pre)) :
    opsTinkN ν cfg d st dep pre (styleOpen d sty ++ inner ++ styleClose d sty) = (cells, st, dep, pre) := by
  rw [List.append_assoc, opsTinkN_append, opsTinkN_styleOpen]
  simp only [opsTinkN_append, h, opsTinkN_styleClose, List.nil_append, List.append_nil]

theorem opsTinkN_bracket (ν : Tag → Tag) (cfg : Cfg) (d : Deco) (a : Ann) (x y : List Ch) (strike : Bool) (st : Tag) (dep pre : Nat) (body : List Op)
    (cells : List Cell)
    (h : opsTinkN ν cfg d (st ++ [d.annOf a]) (if (strike && cfg.unicodeStrike) = true then dep + 1 else dep) pre body =
      (cells, st ++ [d.annOf a], (if (strike && cfg.unicodeStrike) = true then dep + 1 else dep), pre)) :
    opsTinkN ν cfg d st dep pre ([.startAnn a x strike] ++ body ++ [.endAnn y strike]) =
      (tcellsN ν d (st ++ [d.annOf a]) dep pre x ++ cells ++ tcellsN ν d (st ++ [d.annOf a]) dep pre y, st, dep, pre) := by
  simp only [List.singleton_append, opsTinkN, opTinkN, opsTinkN_append, h, tcellsN]
  by_cases hs : (strike && cfg.unicodeStrike) = true
  · simp [hs]
  · simp [hs]

theorem opsTinkN_link (ν : Tag → Tag) (cfg : Cfg) (d : Deco) (href : List Ch) (st : Tag) (dep pre : Nat) (body : List Op) (cells : List Cell)
    (h : opsTinkN ν cfg d (st ++ [d.annOf (Ann.link href)]) dep pre body = (cells, st ++ [d.annOf (Ann.link href)], dep, pre)) :
    opsTinkN ν cfg d st dep pre ([.startLink href] ++ body ++ [.endLink]) =
      (tcellsN ν d (st ++ [d.annOf (Ann.link href)]) dep pre d.linkStart ++ cells ++ tcellsN ν d (st ++ [d.annOf (Ann.link href)]) dep pre d.linkEnd, st, dep, pre) := by
  simp [opsTinkN, opTinkN, opsTinkN_append, h, tcellsN]

mutual
theorem opsTinkN_compile (ν : Tag → Tag) (cfg : Cfg) (d : Deco) : (n : RNode) → (st : Tag) → (dep pre : Nat) →
    opsTinkN ν cfg d st dep pre (compile cfg d n) = (nodeTN ν cfg d st dep pre n, st, dep, pre)
  | .text sty s, st, dep, pre => by
    simp only [compile, nodeTN]
    exact opsTinkN_styled ν cfg d sty st dep pre _ _ (by simp [opsTinkN, opTinkN, tcellsN])
  | .img sty src title, st, dep, pre => by
    simp only [compile, nodeTN]
    exact opsTinkN_styled ν cfg d sty st dep pre _ _ (by simp [opsTinkN, opTinkN, tcellsN])
  | .br sty, st, dep, pre => by
    simp only [compile, nodeTN]
    exact opsTinkN_styled ν cfg d sty st dep pre _ _ (by simp [opsTinkN, opTinkN])
  | .frag n, st, dep, pre => by simp [compile, nodeTN, opsTinkN, opTinkN]
  | .row _ _, st, dep, pre => by simp [compile, nodeTN, opsTinkN]
  | .tbody _ _, st, dep, pre => by simp [compile, nodeTN, opsTinkN]
  | .table sty rows n, st, dep, pre => by
    simp only [compile, nodeTN]
    exact opsTinkN_styled ν cfg d sty st dep pre _ _ (by simp [opsTinkN, opTinkN])
  | .cell sty _ kids, st, dep, pre => by
    simp only [compile, nodeTN]
    exact opsTinkN_styled ν cfg d sty st dep pre _ _ (opsTinkN_compileList ν cfg d kids _ _ _)
  | .box sty k kids, st, dep, pre => by
    have hb := fun s e p => opsTinkN_compileList ν cfg d kids s e p
    cases k with
    | container => simp only [compile, nodeTN]; exact opsTinkN_styled ν cfg d sty st dep pre _ _ (hb _ _ _)
    | link href => simp only [compile, nodeTN]; exact opsTinkN_styled ν cfg d sty st dep pre _ _ (opsTinkN_link ν cfg d href _ dep _ _ _ (hb _ _ _))
    | em =>
      simp only [compile, nodeTN]
      exact opsTinkN_styled ν cfg d sty st dep pre _ _ (by
        have := opsTinkN_bracket ν cfg d .em d.emStart d.emEnd false (st ++ styleTags d sty) dep (preIn sty pre) (compileList cfg d kids) _ (by simpa using hb _ _ _)
        simpa using this)
    | strong =>
      simp only [compile, nodeTN]
      exact opsTinkN_styled ν cfg d sty st dep pre _ _ (by
        have := opsTinkN_bracket ν cfg d .strong d.strongStart d.strongEnd false (st ++ styleTags d sty) dep (preIn sty pre) (compileList cfg d kids) _ (by simpa using hb _ _ _)
        simpa using this)
    | strike =>
      simp only [compile, nodeTN]
      exact opsTinkN_styled ν cfg d sty st dep pre _ _ (by
        have := opsTinkN_bracket ν cfg d .strike d.strikeStart d.strikeEnd true (st ++ styleTags d sty) dep (preIn sty pre) (compileList cfg d kids) _ (by simpa using hb _ _ _)
        simpa using this)
    | code =>
      simp only [compile, nodeTN]
      exact opsTinkN_styled ν cfg d sty st dep pre _ _ (by
        have := opsTinkN_bracket ν cfg d .code d.codeStart d.codeEnd false (st ++ styleTags d sty) dep (preIn sty pre) (compileList cfg d kids) _ (by simpa using hb _ _ _)
        simpa using this)
    | block => simp only [compile, nodeTN]; exact opsTinkN_styled ν cfg d sty st dep pre _ _ (by simp [opsTinkN, opTinkN, opsTinkN_append, hb])
    | li => simp only [compile, nodeTN]; exact opsTinkN_styled ν cfg d sty st dep pre _ _ (by simp [opsTinkN, opTinkN, opsTinkN_append, hb])
    | header lvl => simp only [compile, nodeTN]; exact opsTinkN_styled ν cfg d sty st dep pre _ _ (by simp [opsTinkN, opTinkN, hb])
    | div => simp only [compile, nodeTN]; exact opsTinkN_styled ν cfg d sty st dep pre _ _ (by simp [opsTinkN, opTinkN, opsTinkN_append, hb])
    | quote => simp only [compile, nodeTN]; exact opsTinkN_styled ν cfg d sty st dep pre _ _ (by simp [opsTinkN, opTinkN, hb])
    | ul => simp only [compile, nodeTN]; exact opsTinkN_styled ν cfg d sty st dep pre _ _ (opsTinkN_compileItems ν cfg d _ _ _ _ 0 kids _ dep _)
    | ol start => simp only [compile, nodeTN]; exact opsTinkN_styled ν cfg d sty st dep pre _ _ (opsTinkN_compileItems ν cfg d _ _ _ _ 0 kids _ dep _)
    | dl => simp only [compile, nodeTN]; exact opsTinkN_styled ν cfg d sty st dep pre _ _ (by simp [opsTinkN, opTinkN, hb])
    | dt =>
      simp only [compile, nodeTN]
      exact opsTinkN_styled ν cfg d sty st dep pre _ _ (by
        have := opsTinkN_bracket ν cfg d .em d.emStart d.emEnd false (st ++ styleTags d sty) dep (preIn sty pre) _ _ (by simpa using hb _ _ _)
        simpa [opsTinkN, opTinkN] using this)
    | dd => simp only [compile, nodeTN]; exact opsTinkN_styled ν cfg d sty st dep pre _ _ (by simp [opsTinkN, opTinkN, hb])
    | sup =>
      simp only [compile, nodeTN]
      cases hsd : supDigits kids with
      | some ds => exact opsTinkN_styled ν cfg d sty st dep pre _ _ (by simp [opsTinkN, opTinkN, tcellsN])
      | none =>
        exact opsTinkN_styled ν cfg d sty st dep pre _ _ (by
          have := opsTinkN_bracket ν cfg d .dflt d.supStart d.supEnd false (st ++ styleTags d sty) dep (preIn sty pre) (compileList cfg d kids) _ (by simpa using hb _ _ _)
          simpa using this)
theorem opsTinkN_compileList (ν : Tag → Tag) (cfg : Cfg) (d : Deco) : (ns : List RNode) → (st : Tag) → (dep pre : Nat) →
    opsTinkN ν cfg d st dep pre (compileList cfg d ns) = (listTN ν cfg d st dep pre ns, st, dep, pre)
  | [], st, dep, pre => by simp [compileList, opsTinkN, listTN]
  | n :: ns, st, dep, pre => by
    simp [compileList, opsTinkN_append, listTN, opsTinkN_compile ν cfg d n, opsTinkN_compileList ν cfg d ns]
theorem opsTinkN_compileItems (ν : Tag → Tag) (cfg : Cfg) (d : Deco) (pw minW : Nat) (first : Nat → List Ch) (rest : List Ch) :
    (i : Nat) → (ns : List RNode) → (st : Tag) → (dep pre : Nat) →
    opsTinkN ν cfg d st dep pre (compileItems cfg d pw minW first rest i ns) = (itemsTN ν cfg d st ns, st, dep, pre)
  | _, [], st, dep, pre => by simp [compileItems, opsTinkN, itemsTN]
  | i, n :: ns, st, dep, pre => by
    simp [compileItems, opsTinkN, opTinkN, itemsTN, opsTinkN_compile ν cfg d n, opsTinkN_compileItems ν cfg d pw minW first rest (i + 1) ns]
end

/-! ## table-free trees compile to covered programs -/

theorem preOkOps_append (P : Ch → Bool) (a b : List Op) : preOkOps P (a ++ b) = (preOkOps P a && preOkOps P b) := by
  induction a with
  | nil => simp [preOkOps]
  | cons x a ih => simp [preOkOps, ih, Bool.and_assoc]

theorem preOk_styleOpen (P : Ch → Bool) (d : Deco) (sty : Style) : preOkOps P (styleOpen d sty) = true := by
  unfold styleOpen
  cases sty.fg <;> cases sty.bg <;> cases d.colours <;> cases sty.pre <;> (cases sty.ws with | none => simp [preOkOps, preOkOp] | some m => cases m <;> simp [preOkOps, preOkOp])

theorem preOk_styleClose (P : Ch → Bool) (d : Deco) (sty : Style) : preOkOps P (styleClose d sty) = true := by
  unfold styleClose
  cases sty.fg <;> cases sty.bg <;> cases d.colours <;> cases sty.pre <;> (cases sty.ws with | none => simp [preOkOps, preOkOp] | some m => cases m <;> simp [preOkOps, preOkOp])

mutual
theorem preOk_compile (P : Ch → Bool) (cfg : Cfg) (d : Deco) (hd : DecoAvoids P d) : (n : RNode) → noTable n = true →
    preOkOps P (compile cfg d n) = true
  | .text sty s, _ => by simp [compile, preOkOps_append, preOk_styleOpen, preOk_styleClose, preOkOps, preOkOp]
  | .img sty _ _, _ => by simp [compile, preOkOps_append, preOk_styleOpen, preOk_styleClose, preOkOps, preOkOp]
  | .br sty, _ => by simp [compile, preOkOps_append, preOk_styleOpen, preOk_styleClose, preOkOps, preOkOp]
  | .frag _, _ => by simp [compile, preOkOps, preOkOp]
  | .row _ _, _ => by simp [compile, preOkOps]
  | .tbody _ _, _ => by simp [compile, preOkOps]
  | .table _ _ _, h => by simp [noTable] at h
  | .cell sty _ kids, h => by
    simp only [noTable] at h
    simp [compile, preOkOps_append, preOk_styleOpen, preOk_styleClose, preOk_compileList P cfg d hd kids h]
  | .box sty k kids, h => by
    simp only [noTable] at h
    have hb := preOk_compileList P cfg d hd kids h
    have ho := preOk_styleOpen P d sty
    have hc := preOk_styleClose P d sty
    cases k with
    | container => simp [compile, preOkOps_append, ho, hc, hb]
    | link href => simp [compile, preOkOps_append, ho, hc, hb, preOkOps, preOkOp]
    | em => simp [compile, preOkOps_append, ho, hc, hb, preOkOps, preOkOp]
    | strong => simp [compile, preOkOps_append, ho, hc, hb, preOkOps, preOkOp]
    | strike => simp [compile, preOkOps_append, ho, hc, hb, preOkOps, preOkOp]
    | code => simp [compile, preOkOps_append, ho, hc, hb, preOkOps, preOkOp]
    | block => simp [compile, preOkOps_append, ho, hc, hb, preOkOps, preOkOp]
    | li => simp [compile, preOkOps_append, ho, hc, hb, preOkOps, preOkOp]
    | header lvl => simp [compile, preOkOps_append, ho, hc, hb, preOkOps, preOkOp, hd.header]
    | div => simp [compile, preOkOps_append, ho, hc, hb, preOkOps, preOkOp]
    | quote => simp [compile, preOkOps_append, ho, hc, hb, preOkOps, preOkOp, hd.quote]
    | ul =>
      simp only [compile, preOkOps_append, ho, hc, Bool.true_and, Bool.and_true]
      exact preOk_compileItems P cfg d hd _ _ _ _ (fun _ => hd.ul) (avoids_spaces P _) 0 kids h
    | ol start =>
      simp only [compile, preOkOps_append, ho, hc, Bool.true_and, Bool.and_true]
      exact preOk_compileItems P cfg d hd _ _ _ _ (fun i => avoids_padTo P _ _ (hd.ol _)) (avoids_spaces P _) 0 kids h
    | dl => simp [compile, preOkOps_append, ho, hc, hb, preOkOps, preOkOp]
    | dt => simp [compile, preOkOps_append, ho, hc, hb, preOkOps, preOkOp]
    | dd =>
      have : avoids P (strCh "  ") = true := by simp [avoids, strCh, spaceCh]
      simp [compile, preOkOps_append, ho, hc, hb, preOkOps, preOkOp, this]
    | sup =>
      simp only [compile]
      cases hsd : supDigits kids with
      | some ds => simp [preOkOps_append, ho, hc, preOkOps, preOkOp]
      | none => simp [preOkOps_append, ho, hc, hb, preOkOps, preOkOp]
theorem preOk_compileList (P : Ch → Bool) (cfg : Cfg) (d : Deco) (hd : DecoAvoids P d) : (ns : List RNode) → noTableL ns = true →
    preOkOps P (compileList cfg d ns) = true
  | [], _ => by simp [compileList, preOkOps]
  | n :: ns, h => by
    simp only [noTableL, Bool.and_eq_true] at h
    simp [compileList, preOkOps_append, preOk_compile P cfg d hd n h.1, preOk_compileList P cfg d hd ns h.2]
theorem preOk_compileItems (P : Ch → Bool) (cfg : Cfg) (d : Deco) (hd : DecoAvoids P d) (pw minW : Nat) (first : Nat → List Ch) (rest : List Ch)
    (hf : ∀ i, avoids P (first i) = true) (hr : avoids P rest = true) :
    (i : Nat) → (ns : List RNode) → noTableL ns = true → preOkOps P (compileItems cfg d pw minW first rest i ns) = true
  | _, [], _ => by simp [compileItems, preOkOps]
  | i, n :: ns, h => by
    simp only [noTableL, Bool.and_eq_true] at h
    simp [compileItems, preOkOps, preOkOp, hf i, hr, preOk_compile P cfg d hd n h.1,
      preOk_compileItems P cfg d hd pw minW first rest hf hr (i + 1) ns h.2]
end

/-- the view that erases the continuation flag of the preformat annotation -/
def erasePre (t : Tag) : Tag := t.map fun a => match a with | .pre _ => .pre false | a => a

theorem erasePre_rich : PreView erasePre Deco.rich := by intro st; simp [erasePre, Deco.rich]
theorem erasePre_plain : PreView erasePre Deco.plain := by intro st; simp [erasePre, Deco.plain]

/-- **C09 for every table-free render tree, `<pre>` included**: the `P`-characters of the rendered lines, with their tag
    vectors viewed through `ν` (which identifies `Preformat(true)` with `Preformat(false)`), in order, are exactly those of
    the specification `nodeTN` -/
theorem renderTree_tagsN (ν : Tag → Tag) (P : Ch → Bool) (cfg : Cfg) (d : Deco) (hν : PreView ν d) (w : Nat) (tree : RNode) (ls : List RLine)
    (hfn : cfg.footnotes = false) (hd : DecoAvoids P d) (ht : noTable tree = true) (h : renderTree cfg d w tree = .ok ls) :
    vw ν P (ls.flatMap trink) = pf P (nodeTN ν cfg d [] 0 0 tree) := by
  rw [renderTree_tinkN ν P cfg d hν w tree ls hfn (preOk_compile P cfg d hd tree ht) h, opsTinkN_compile]

end H2T
