import H2T.Lemmas.FitsTable

/-! Bracketing: the program `compile` emits for a node leaves the annotation stack, the `pre` depth, the white-space
    stack, the strikeout depth and the width of the current sub-renderer exactly as it found them (C09: no annotation
    leaks past the end of its element; C01: `pre_depth` never underflows). -/

namespace H2T

/-- the fields of a sub-renderer that the style/annotation brackets manipulate -/
def SubR.ff (s : SubR) : Tag × Nat × List WS × Nat × Nat := (s.annStack, s.preDepth, s.wsStack, s.filterDepth, s.width)

theorem addLine_ff (s : SubR) (l : RLine) : (s.addLine l).ff = s.ff := by
  cases l with
  | rule b t => rfl
  | text tl => simp only [SubR.addLine]; split <;> rfl

theorem addLines_ff (ls : List RLine) : ∀ s : SubR, (s.addLines ls).ff = s.ff := by
  induction ls with
  | nil => intro s; rfl
  | cons l ls ih => intro s; exact (ih (s.addLine l)).trans (addLine_ff s l)

theorem flushWrapping_ff (s s' : SubR) (h : s.flushWrapping = .ok s') : s'.ff = s.ff := by
  unfold SubR.flushWrapping at h
  cases hw : s.wrapping with
  | none => simp only [hw] at h; injection h with h; subst h; rfl
  | some w =>
    simp only [hw] at h
    generalize (if w.word.noContent = true then { w with word := [] } else w) = w' at h
    cases hf : w'.finish with
    | error e => simp [hf, andThen] at h
    | ok ls =>
      simp only [hf, andThen] at h; injection h with h; subst h
      exact addLines_ff _ _

theorem addEmptyLine_ff (s s' : SubR) (h : s.addEmptyLine = .ok s') : s'.ff = s.ff := by
  unfold SubR.addEmptyLine at h
  cases h1 : s.flushWrapping with
  | error e => simp [h1, andThen] at h
  | ok s1 =>
    simp only [h1, andThen] at h; injection h with h; subst h
    exact (addLine_ff s1 _).trans (flushWrapping_ff s s1 h1)

theorem startBlock_ff (s s' : SubR) (h : s.startBlock = .ok s') : s'.ff = s.ff := by
  unfold SubR.startBlock at h
  cases h1 : s.flushWrapping with
  | error e => simp [h1, andThen] at h
  | ok s1 =>
    simp only [h1, andThen] at h
    have e1 := flushWrapping_ff s s1 h1
    generalize hr : (if s1.lines.any RLine.hasContent = true then s1.addEmptyLine else Except.ok s1) = r at h
    cases r with
    | error e => simp at h
    | ok s2 =>
      simp only at h; injection h with h; subst h
      have e2 : s2.ff = s1.ff := by
        split at hr
        · exact addEmptyLine_ff s1 s2 hr
        · injection hr with hr; subst hr; rfl
      exact e2.trans e1

theorem newLineHard_ff (s s' : SubR) (h : s.newLineHard = .ok s') : s'.ff = s.ff := by
  unfold SubR.newLineHard at h
  split at h
  · exact addEmptyLine_ff s s' h
  · split at h
    · exact addEmptyLine_ff s s' h
    · exact flushWrapping_ff s s' h

theorem addInlineText_ff (s s' : SubR) (cfg : Cfg) (x : List Ch) (f : Ann → Ann) (h : s.addInlineText cfg x f = .ok s') :
    s'.ff = s.ff := by
  unfold SubR.addInlineText at h
  split at h
  · injection h with h; subst h; rfl
  · generalize hs0 : (if s.atBlockEnd = true then s.startBlock else Except.ok s) = r0 at h
    cases r0 with
    | error e => simp [andThen] at h
    | ok s0 =>
      have e0 : s0.ff = s.ff := by
        split at hs0
        · exact startBlock_ff s s0 hs0
        · injection hs0 with hs0; subst hs0; rfl
      simp only [andThen] at h
      generalize hr : (s0.getWrapping cfg).addText s0.wsMode _ _ (iterN strikeFilter s0.filterDepth x) = r at h
      cases r with
      | error e => simp at h
      | ok w' => simp only at h; injection h with h; subst h; exact e0

theorem appendSub_ff (s other s' : SubR) (first rest : List Ch) (h : s.appendSub other first rest = .ok s') : s'.ff = s.ff := by
  unfold SubR.appendSub at h
  cases e1 : s.flushWrapping with
  | error e => simp [e1, andThen] at h
  | ok s1 =>
    simp only [e1, andThen] at h
    cases e2 : other.intoLines with
    | error e => simp [e2] at h
    | ok ls =>
      simp only [e2] at h; injection h with h; subst h
      exact (addLines_ff _ _).trans (flushWrapping_ff s s1 e1)

theorem setLastRule_ff (s : SubR) (prev : Option Border) : (s.setLastRule prev).ff = s.ff := by
  unfold SubR.setLastRule
  split
  · split <;> rfl
  · rfl

theorem emitColumns_ff (s : SubR) (cfg : Cfg) (ann : Tag) (a : List (Nat × List RLine)) (b : List (Option (List Ch))) (nb : Border) :
    (s.emitColumns cfg ann a b nb).ff = s.ff := by
  unfold SubR.emitColumns
  simp only []
  split
  · exact (addLine_ff _ _).trans (addLines_ff _ _)
  · exact addLines_ff _ _

theorem appendColumns_ff (s s' : SubR) (cfg : Cfg) (cols : List SubR) (h : s.appendColumns cfg cols = .ok s') : s'.ff = s.ff := by
  unfold SubR.appendColumns at h
  cases h1 : s.flushWrapping with
  | error e => simp [h1, andThen_error_eq] at h
  | ok s0 =>
    simp only [h1, andThen_ok_eq] at h
    cases h2 : colSets s0.annStack cols with
    | error e => simp [h2, andThen_error_eq] at h
    | ok sets =>
      simp only [h2, andThen_ok_eq] at h
      split at h
      · simp at h
      · cases h3 : collapseTop (s0.joinBars sets ((sets.map (·.1)).sum + (sets.length - 1))).1 0 sets with
        | error e => simp [h3, andThen_error_eq] at h
        | ok v =>
          simp only [h3, andThen_ok_eq] at h
          injection h with h; subst h
          exact ((emitColumns_ff _ _ _ _ _ _).trans (setLastRule_ff _ _)).trans (flushWrapping_ff s s0 h1)

theorem vertCells_ff (cfg : Cfg) : ∀ (cols : List SubR) (first : Bool) (s s' : SubR), vertCells cfg first s cols = .ok s' → s'.ff = s.ff := by
  intro cols
  induction cols with
  | nil => intro first s s' h; simp [vertCells] at h; subst h; rfl
  | cons c cs ih =>
    intro first s s' h
    simp only [vertCells] at h
    generalize h1 : (if (!first && cfg.drawBorders) = true then
        andThen s.flushWrapping fun s' => Except.ok (s'.addLine (.rule (List.replicate s.width Seg.vert) s'.annStack))
      else Except.ok s) = r1 at h
    cases r1 with
    | error e => simp [andThen_error_eq] at h
    | ok s1 =>
      have e1 : s1.ff = s.ff := by
        split at h1
        · cases h2 : s.flushWrapping with
          | error e => simp [h2, andThen_error_eq] at h1
          | ok s2 =>
            simp only [h2, andThen_ok_eq] at h1; injection h1 with h1; subst h1
            exact (addLine_ff _ _).trans (flushWrapping_ff s s2 h2)
        · injection h1 with h1; subst h1; rfl
      simp only [andThen_ok_eq] at h
      cases h3 : s1.appendSub c [] [] with
      | error e => simp [h3, andThen_error_eq] at h
      | ok s2 =>
        simp only [h3, andThen_ok_eq] at h
        exact ((ih false s2 s' h).trans (appendSub_ff s1 c s2 [] [] h3)).trans e1

theorem appendVertRow_ff (s s' : SubR) (cfg : Cfg) (cols : List SubR) (h : s.appendVertRow cfg cols = .ok s') : s'.ff = s.ff := by
  unfold SubR.appendVertRow at h
  cases h1 : s.flushWrapping with
  | error e => simp [h1, andThen_error_eq] at h
  | ok s0 =>
    simp only [h1, andThen_ok_eq] at h
    cases h2 : vertCells cfg true s0 cols with
    | error e => simp [h2, andThen_error_eq] at h
    | ok s1 =>
      simp only [h2, andThen_ok_eq] at h
      have e01 := (vertCells_ff cfg cols true s0 s1 h2).trans (flushWrapping_ff s s0 h1)
      split at h
      · cases h3 : s1.flushWrapping with
        | error e => simp [h3, andThen_error_eq] at h
        | ok s2 =>
          simp only [h3, andThen_ok_eq] at h; injection h with h; subst h
          exact ((addLine_ff _ _).trans (flushWrapping_ff s1 s2 h3)).trans e01
      · injection h with h; subst h; exact e01

theorem appendRow_ff (s s' : SubR) (cfg : Cfg) (vert : Bool) (subs : List SubR) (h : s.appendRow cfg vert subs = .ok s') : s'.ff = s.ff := by
  unfold SubR.appendRow at h
  split at h
  · exact appendVertRow_ff s s' cfg subs h
  · split at h
    · exact appendColumns_ff s s' cfg subs h
    · injection h with h; subst h; rfl

theorem tableTop_ff (s s' : SubR) (cfg : Cfg) (tw : Nat) (h : s.tableTop cfg tw = .ok s') : s'.ff = s.ff := by
  unfold SubR.tableTop at h
  split at h
  · cases h4 : s.flushWrapping with
    | error e => simp [h4, andThen_error_eq] at h
    | ok s2 =>
      simp only [h4, andThen_ok_eq] at h; injection h with h; subst h
      exact (addLine_ff _ _).trans (flushWrapping_ff s s2 h4)
  · injection h with h; subst h; rfl

/-! ## effects of operations on the bracket fields -/

abbrev FF := Tag × Nat × List WS × Nat × Nat

/-- what a simple operation does to the bracket fields (everything else: nothing) -/
def opEffect (cfg : Cfg) (d : Deco) : Op → FF → FF
  | .pushWs ws, (a, p, w, f, wd) => (a, p, w ++ [ws], f, wd)
  | .popWs, (a, p, w, f, wd) => (a, p, w.dropLast, f, wd)
  | .pushAnn x, (a, p, w, f, wd) => (a ++ [x], p, w, f, wd)
  | .popAnn, (a, p, w, f, wd) => (a.dropLast, p, w, f, wd)
  | .pushPre, (a, p, w, f, wd) => (a, p + 1, w, f, wd)
  | .popPre, (a, p, w, f, wd) => (a, p - 1, w, f, wd)
  | .startLink href, (a, p, w, f, wd) => (a ++ [d.annOf (Ann.link href)], p, w, f, wd)
  | .endLink, (a, p, w, f, wd) => (a.dropLast, p, w, f, wd)
  | .startAnn x _ strike, (a, p, w, f, wd) => (a ++ [d.annOf x], p, w, if strike && cfg.unicodeStrike then f + 1 else f, wd)
  | .endAnn _ strike, (a, p, w, f, wd) => (a.dropLast, p, w, if strike && cfg.unicodeStrike then f - 1 else f, wd)
  | _, x => x

theorem onCur_ff (t0 : RS) (f : SubR → Except Err SubR) (t1 : RS) (g : FF → FF) (h0 : t0.onCur f = .ok t1)
    (hf : ∀ s1, f t0.cur = .ok s1 → s1.ff = g t0.cur.ff) : t1.cur.ff = g t0.cur.ff := by
  unfold RS.onCur at h0
  cases hfc : f t0.cur with
  | error e => simp [hfc, andThen] at h0
  | ok s1 => simp only [hfc, andThen] at h0; injection h0 with h0; subst h0; exact hf s1 hfc

theorem stepSimple_effect (cfg : Cfg) (d : Deco) (t t' : RS) (op : Op) (h : stepSimple cfg d t op = .ok t') :
    t'.cur.ff = opEffect cfg d op t.cur.ff := by
  cases op <;> simp only [stepSimple] at h
  case pushWs ws => exact onCur_ff t _ t' _ h fun s1 hs => by injection hs with hs; subst hs; rfl
  case popWs => exact onCur_ff t _ t' _ h fun s1 hs => by injection hs with hs; subst hs; rfl
  case pushAnn a => exact onCur_ff t _ t' _ h fun s1 hs => by injection hs with hs; subst hs; rfl
  case popAnn => exact onCur_ff t _ t' _ h fun s1 hs => by injection hs with hs; subst hs; rfl
  case pushPre => exact onCur_ff t _ t' _ h fun s1 hs => by injection hs with hs; subst hs; rfl
  case popPre =>
    exact onCur_ff t _ t' _ h fun s1 hs => by
      split at hs
      · simp at hs
      · injection hs with hs; subst hs; rfl
  case text x => exact onCur_ff t _ t' _ h fun s1 hs => addInlineText_ff _ s1 cfg x _ hs
  case frag n => exact onCur_ff t _ t' _ h fun s1 hs => by injection hs with hs; subst hs; rfl
  case startLink href =>
    exact onCur_ff { t with links := t.links ++ [href] } _ t' (opEffect cfg d (.startLink href)) h fun s1 hs => by
      have := addInlineText_ff _ s1 cfg _ _ hs
      rw [this]; rfl
  case endLink =>
    generalize h1 : (t.onCur fun s => andThen (s.addInlineText cfg d.linkEnd d.annOf) fun s' => Except.ok { s' with annStack := s'.annStack.dropLast }) = r1 at h
    cases r1 with
    | error e => simp [andThen] at h
    | ok t1 =>
      simp only [andThen] at h
      have e1 : t1.cur.ff = opEffect cfg d .endLink t.cur.ff := onCur_ff t _ t1 _ h1 fun s1 hs => by
        cases h2 : t.cur.addInlineText cfg d.linkEnd d.annOf with
        | error e => simp [h2, andThen] at hs
        | ok s2 =>
          simp only [h2, andThen] at hs; injection hs with hs; subst hs
          have := addInlineText_ff _ s2 cfg _ _ h2
          simp only [SubR.ff, Prod.mk.injEq] at this ⊢
          obtain ⟨a1, a2, a3, a4, a5⟩ := this
          simp [opEffect, a1, a2, a3, a4, a5]
      by_cases hf : cfg.footnotes = true
      · simp only [hf, if_true] at h
        have := onCur_ff t1 _ t' id h fun s1 hs => addInlineText_ff _ s1 cfg _ _ hs
        exact this.trans e1
      · simp only [hf] at h
        injection h with h; subst h; exact e1
  case startAnn a x strike =>
    exact onCur_ff t _ t' _ h fun s1 hs => by
      cases h2 : ({ t.cur with annStack := t.cur.annStack ++ [d.annOf a] } : SubR).addInlineText cfg x d.annOf with
      | error e => simp [h2, andThen] at hs
      | ok s2 =>
        simp only [h2, andThen] at hs; injection hs with hs; subst hs
        have := addInlineText_ff _ s2 cfg _ _ h2
        simp only [SubR.ff, Prod.mk.injEq] at this
        obtain ⟨a1, a2, a3, a4, a5⟩ := this
        split <;> simp_all [SubR.ff, opEffect]
  case endAnn x strike =>
    exact onCur_ff t _ t' _ h fun s1 hs => by
      by_cases hc : (strike && cfg.unicodeStrike) = true
      · simp only [hc, if_true] at hs
        cases h2 : ({ t.cur with filterDepth := t.cur.filterDepth - 1 } : SubR).addInlineText cfg x d.annOf with
        | error e => simp [h2, andThen] at hs
        | ok s2 =>
          simp only [h2, andThen] at hs; injection hs with hs; subst hs
          have := addInlineText_ff _ s2 cfg _ _ h2
          simp only [SubR.ff, Prod.mk.injEq] at this
          obtain ⟨a1, a2, a3, a4, a5⟩ := this
          simp [SubR.ff, opEffect, hc, a1, a2, a3, a4, a5]
      · simp only [hc, Bool.false_eq_true, if_false] at hs
        cases h2 : t.cur.addInlineText cfg x d.annOf with
        | error e => simp [h2, andThen] at hs
        | ok s2 =>
          simp only [h2, andThen] at hs; injection hs with hs; subst hs
          have := addInlineText_ff _ s2 cfg _ _ h2
          simp only [SubR.ff, Prod.mk.injEq] at this
          obtain ⟨a1, a2, a3, a4, a5⟩ := this
          simp [SubR.ff, opEffect, hc, a1, a2, a3, a4, a5]
  case image src title =>
    exact onCur_ff t _ t' _ h fun s1 hs => by
      cases h2 : ({ t.cur with annStack := t.cur.annStack ++ [d.annOf (Ann.image src)] } : SubR).addInlineText cfg (d.imgText title) d.annOf with
      | error e => simp [h2, andThen] at hs
      | ok s2 =>
        simp only [h2, andThen] at hs; injection hs with hs; subst hs
        have := addInlineText_ff _ s2 cfg _ _ h2
        simp only [SubR.ff, Prod.mk.injEq] at this
        obtain ⟨a1, a2, a3, a4, a5⟩ := this
        simp [SubR.ff, opEffect, a1, a2, a3, a4, a5]
  case startBlock => exact onCur_ff t _ t' _ h fun s1 hs => startBlock_ff _ s1 hs
  case endBlock => exact onCur_ff t _ t' _ h fun s1 hs => by injection hs with hs; subst hs; rfl
  case newLine => exact onCur_ff t _ t' _ h fun s1 hs => flushWrapping_ff _ s1 hs
  case newLineHard => exact onCur_ff t _ t' _ h fun s1 hs => newLineHard_ff _ s1 hs
  case sub _ _ _ _ _ _ => injection h with h; subst h; rfl
  case table _ _ => injection h with h; subst h; rfl
  case row _ _ _ => injection h with h; subst h; rfl
  case cell _ _ _ => injection h with h; subst h; rfl

/-! ## programs -/

theorem runOps_append (wm : SubR → Cfg → Nat → Nat → Except Err Nat) (cfg : Cfg) (d : Deco) :
    ∀ (a b : List Op) (t : RS), runOps wm cfg d t (a ++ b) = andThen (runOps wm cfg d t a) fun t1 => runOps wm cfg d t1 b := by
  intro a
  induction a with
  | nil => intro b t; simp [runOps, andThen]
  | cons x a ih =>
    intro b t
    simp only [List.cons_append, runOps]
    cases runOp wm cfg d t x with
    | error e => simp [andThen]
    | ok t1 => simp only [andThen_ok_eq]; exact ih b t1

/-- a program has effect `g` on the bracket fields of the current sub-renderer -/
def Eff (wm : SubR → Cfg → Nat → Nat → Except Err Nat) (cfg : Cfg) (d : Deco) (ops : List Op) (g : FF → FF) : Prop :=
  ∀ t t', runOps wm cfg d t ops = .ok t' → t'.cur.ff = g t.cur.ff

variable {wm : SubR → Cfg → Nat → Nat → Except Err Nat} {cfg : Cfg} {d : Deco}

theorem Eff.nil : Eff wm cfg d [] id := by
  intro t t' h; simp [runOps] at h; subst h; rfl

theorem Eff.append {a b : List Op} {g1 g2 : FF → FF} (h1 : Eff wm cfg d a g1) (h2 : Eff wm cfg d b g2) :
    Eff wm cfg d (a ++ b) (g2 ∘ g1) := by
  intro t t' h
  rw [runOps_append] at h
  cases ha : runOps wm cfg d t a with
  | error e => simp [ha, andThen_error_eq] at h
  | ok t1 =>
    simp only [ha, andThen_ok_eq] at h
    rw [h2 t1 t' h, h1 t t1 ha]; rfl

theorem Eff.congr {a : List Op} {g g' : FF → FF} (h : Eff wm cfg d a g) (e : ∀ x, g x = g' x) : Eff wm cfg d a g' := by
  intro t t' hr; rw [h t t' hr, e]

/-- a single simple operation -/
theorem Eff.simple (op : Op) (hs : ∀ p m f r a b, op ≠ .sub p m f r a b) (ht : ∀ c r, op ≠ .table c r) :
    Eff wm cfg d [op] (opEffect cfg d op) := by
  intro t t' h
  simp only [runOps] at h
  cases h1 : runOp wm cfg d t op with
  | error e => simp [h1, andThen_error_eq] at h
  | ok t1 =>
    simp only [h1, andThen_ok_eq] at h; injection h with h; subst h
    cases op
    case sub p m f r a b => exact absurd rfl (hs p m f r a b)
    case table c r => exact absurd rfl (ht c r)
    case row a b c => simp [runOp] at h1; subst h1; rfl
    case cell a b c => simp [runOp] at h1; subst h1; rfl
    all_goals exact stepSimple_effect cfg d t t1 _ (by simpa [runOp] using h1)

/-- a sub-renderer frame leaves the bracket fields of its parent alone, whatever its body does -/
theorem Eff.sub (p m : Nat) (first rest : List Ch) (asBlock : Bool) (body : List Op) :
    Eff wm cfg d [.sub p m first rest asBlock body] id := by
  intro t t' h
  simp only [runOps] at h
  cases h0 : runOp wm cfg d t (.sub p m first rest asBlock body) with
  | error e => simp [h0, andThen_error_eq] at h
  | ok t0 =>
    simp only [h0, andThen_ok_eq] at h; injection h with h; subst h
    simp only [runOp] at h0
    cases h1 : wm t.cur cfg p m with
    | error e => simp [h1, andThen_error_eq] at h0
    | ok w =>
      simp only [h1, andThen_ok_eq] at h0
      cases h2 : runOps wm cfg d { links := t.links, cur := ({ width := w, annStack := t.cur.annStack } : SubR) } body with
      | error e => simp [h2, andThen_error_eq] at h0
      | ok r =>
        simp only [h2, andThen_ok_eq] at h0
        cases h3 : (if asBlock = true then t.cur.startBlock else Except.ok t.cur) with
        | error e => simp [h3, andThen_error_eq] at h0
        | ok s1 =>
          simp only [h3, andThen_ok_eq] at h0
          have e1 : s1.ff = t.cur.ff := by
            split at h3
            · exact startBlock_ff _ s1 h3
            · injection h3 with h3; subst h3; rfl
          cases h4 : s1.appendSub r.cur first rest with
          | error e => simp [h4, andThen_error_eq] at h0
          | ok s2 =>
            simp only [h4, andThen_ok_eq] at h0; injection h0 with h0; subst h0
            have e2 := appendSub_ff s1 r.cur s2 first rest h4
            show (if asBlock = true then { s2 with atBlockEnd := true } else s2).ff = t.cur.ff
            split
            · exact e2.trans e1
            · exact e2.trans e1

/-- rows of a table whose `pre`/`post` programs are inverse brackets -/
def RowsBal (wm : SubR → Cfg → Nat → Nat → Except Err Nat) (cfg : Cfg) (d : Deco) : List Op → Prop
  | [] => True
  | .row pre post _ :: rs => (∃ g1 g2, Eff wm cfg d pre g1 ∧ Eff wm cfg d post g2 ∧ ∀ f, g2 (g1 f) = f) ∧ RowsBal wm cfg d rs
  | _ :: rs => RowsBal wm cfg d rs

theorem runRows_ff : ∀ (rows : List Op) (ws : List Nat) (vert : Bool) (t t' : RS), RowsBal wm cfg d rows →
    runRows wm cfg d ws vert t rows = .ok t' → t'.cur.ff = t.cur.ff := by
  intro rows
  induction rows with
  | nil => intro ws vert t t' _ h; simp [runRows] at h; subst h; rfl
  | cons r rs ih =>
    intro ws vert t t' hb h
    cases r
    case row pre post cells =>
      simp only [RowsBal] at hb
      obtain ⟨⟨g1, g2, e1, e2, e3⟩, hrs⟩ := hb
      simp only [runRows] at h
      cases h1 : runOps wm cfg d t pre with
      | error e => simp [h1, andThen_error_eq] at h
      | ok t1 =>
        simp only [h1, andThen_ok_eq] at h
        cases h2 : runCells wm cfg d ws vert t1.cur.annStack t1.links cells with
        | error e => simp [h2, andThen_error_eq] at h
        | ok v =>
          simp only [h2, andThen_ok_eq] at h
          cases h3 : t1.cur.appendRow cfg vert v.2 with
          | error e => simp [h3, andThen_error_eq] at h
          | ok s2 =>
            simp only [h3, andThen_ok_eq] at h
            cases h4 : runOps wm cfg d { links := v.1, cur := s2 } post with
            | error e => simp [h4, andThen_error_eq] at h
            | ok t3 =>
              simp only [h4, andThen_ok_eq] at h
              rw [ih ws vert t3 t' hrs h, e2 _ t3 h4]
              show g2 s2.ff = t.cur.ff
              rw [appendRow_ff _ s2 cfg vert v.2 h3, e1 t t1 h1, e3]
    all_goals (simp only [RowsBal] at hb; simp only [runRows] at h; exact ih ws vert t t' hb h)

/-- a table leaves the bracket fields alone when its rows are balanced -/
theorem Eff.table (cols : List SizeEst) (rows : List Op) (hb : RowsBal wm cfg d rows) : Eff wm cfg d [.table cols rows] id := by
  intro t t' h
  simp only [runOps] at h
  cases h0 : runOp wm cfg d t (.table cols rows) with
  | error e => simp [h0, andThen_error_eq] at h
  | ok t0 =>
    simp only [h0, andThen_ok_eq] at h; injection h with h; subst h
    simp only [runOp] at h0
    cases h1 : allocCols cfg t.cur.width cols with
    | error e => simp [h1, andThen_error_eq] at h0
    | ok v =>
      simp only [h1, andThen_ok_eq] at h0
      cases h2 : t.cur.startBlock with
      | error e => simp [h2, andThen_error_eq] at h0
      | ok s1 =>
        simp only [h2, andThen_ok_eq] at h0
        cases h3 : s1.tableTop cfg v.2.2 with
        | error e => simp [h3, andThen_error_eq] at h0
        | ok s3 =>
          simp only [h3, andThen_ok_eq] at h0
          have := runRows_ff rows v.1 v.2.1 _ t0 hb h0
          exact this.trans ((tableTop_ff s1 s3 cfg _ h3).trans (startBlock_ff _ s1 h2))

/-! ## style brackets -/

theorem dropLast_snoc {α : Type} (l : List α) (a : α) : (l ++ [a]).dropLast = l := by simp

/-- what `styleOpen` does to the bracket fields -/
def openFF (d : Deco) (st : Style) : FF → FF := fun (a, p, w, f, wd) =>
  (a ++ (match st.fg with | some c => if d.colours then [Ann.fg c.r c.g c.b] else [] | none => [])
     ++ (match st.bg with | some c => if d.colours then [Ann.bg c.r c.g c.b] else [] | none => []),
   (if st.pre then p + 1 else p),
   w ++ (match st.ws with | some .pre => [WS.pre] | some .preWrap => [WS.preWrap] | _ => []), f, wd)

theorem styleOpen_eff (st : Style) : Eff wm cfg d (styleOpen d st) (openFF d st) := by
  unfold styleOpen
  have simple : ∀ op, (∀ p m f r a b, op ≠ Op.sub p m f r a b) → (∀ c r, op ≠ Op.table c r) → Eff wm cfg d [op] (opEffect cfg d op) :=
    fun op h1 h2 => Eff.simple op h1 h2
  have e1 : Eff wm cfg d (match st.fg with | some c => if d.colours = true then [Op.pushAnn (.fg c.r c.g c.b)] else [] | none => [])
      (fun (x : FF) => (x.1 ++ (match st.fg with | some c => if d.colours then [Ann.fg c.r c.g c.b] else [] | none => []), x.2)) := by
    cases st.fg with
    | none => exact Eff.nil.congr (by intro x; simp)
    | some c =>
      by_cases hc : d.colours = true
      · simp only [hc, if_true]; exact (simple _ (by simp) (by simp)).congr (by intro x; rfl)
      · simp only [hc]; exact Eff.nil.congr (by intro x; simp)
  have e2 : Eff wm cfg d (match st.bg with | some c => if d.colours = true then [Op.pushAnn (.bg c.r c.g c.b)] else [] | none => [])
      (fun (x : FF) => (x.1 ++ (match st.bg with | some c => if d.colours then [Ann.bg c.r c.g c.b] else [] | none => []), x.2)) := by
    cases st.bg with
    | none => exact Eff.nil.congr (by intro x; simp)
    | some c =>
      by_cases hc : d.colours = true
      · simp only [hc, if_true]; exact (simple _ (by simp) (by simp)).congr (by intro x; rfl)
      · simp only [hc]; exact Eff.nil.congr (by intro x; simp)
  have e3 : Eff wm cfg d (match st.ws with | some .pre => [Op.pushWs .pre] | some .preWrap => [Op.pushWs .preWrap] | _ => [])
      (fun (x : FF) => (x.1, x.2.1, x.2.2.1 ++ (match st.ws with | some .pre => [WS.pre] | some .preWrap => [WS.preWrap] | _ => []), x.2.2.2)) := by
    cases st.ws with
    | none => exact Eff.nil.congr (by intro x; simp)
    | some v => cases v with
      | normal => exact Eff.nil.congr (by intro x; simp)
      | pre => exact (simple _ (by simp) (by simp)).congr (by intro x; rfl)
      | preWrap => exact (simple _ (by simp) (by simp)).congr (by intro x; rfl)
  have e4 : Eff wm cfg d (if st.pre = true then [Op.pushPre] else [])
      (fun (x : FF) => (x.1, (if st.pre then x.2.1 + 1 else x.2.1), x.2.2)) := by
    by_cases hp : st.pre = true
    · simp only [hp, if_true]; exact (simple _ (by simp) (by simp)).congr (by intro x; rfl)
    · simp only [hp]; exact Eff.nil.congr (by intro x; simp)
  exact (((e1.append e2).append e3).append e4).congr (by intro x; simp [openFF, List.append_assoc])

theorem styleClose_eff (st : Style) : ∃ g, Eff wm cfg d (styleClose d st) g ∧ ∀ f, g (openFF d st f) = f := by
  unfold styleClose
  have simple : ∀ op, (∀ p m f r a b, op ≠ Op.sub p m f r a b) → (∀ c r, op ≠ Op.table c r) → Eff wm cfg d [op] (opEffect cfg d op) :=
    fun op h1 h2 => Eff.simple op h1 h2
  -- number of annotations pushed
  let nb : Nat := match st.bg with | some _ => if d.colours then 1 else 0 | none => 0
  let nf : Nat := match st.fg with | some _ => if d.colours then 1 else 0 | none => 0
  let nw : Nat := match st.ws with | some .pre => 1 | some .preWrap => 1 | _ => 0
  have e1 : Eff wm cfg d (match st.bg with | some _ => if d.colours = true then [Op.popAnn] else [] | none => [])
      (fun (x : FF) => (iterN List.dropLast nb x.1, x.2)) := by
    cases hb : st.bg with
    | none => exact Eff.nil.congr (by intro x; simp [nb, hb, iterN])
    | some c =>
      by_cases hc : d.colours = true
      · simp only [hc, if_true]; exact (simple _ (by simp) (by simp)).congr (by intro x; simp [nb, hb, hc, iterN, opEffect])
      · simp only [hc]; exact Eff.nil.congr (by intro x; simp [nb, hb, hc, iterN])
  have e2 : Eff wm cfg d (match st.fg with | some _ => if d.colours = true then [Op.popAnn] else [] | none => [])
      (fun (x : FF) => (iterN List.dropLast nf x.1, x.2)) := by
    cases hb : st.fg with
    | none => exact Eff.nil.congr (by intro x; simp [nf, hb, iterN])
    | some c =>
      by_cases hc : d.colours = true
      · simp only [hc, if_true]; exact (simple _ (by simp) (by simp)).congr (by intro x; simp [nf, hb, hc, iterN, opEffect])
      · simp only [hc]; exact Eff.nil.congr (by intro x; simp [nf, hb, hc, iterN])
  have e3 : Eff wm cfg d (match st.ws with | some .pre => [Op.popWs] | some .preWrap => [Op.popWs] | _ => [])
      (fun (x : FF) => (x.1, x.2.1, iterN List.dropLast nw x.2.2.1, x.2.2.2)) := by
    cases hb : st.ws with
    | none => exact Eff.nil.congr (by intro x; simp [nw, hb, iterN])
    | some v => cases v with
      | normal => exact Eff.nil.congr (by intro x; simp [nw, hb, iterN])
      | pre => exact (simple _ (by simp) (by simp)).congr (by intro x; simp [nw, hb, iterN, opEffect])
      | preWrap => exact (simple _ (by simp) (by simp)).congr (by intro x; simp [nw, hb, iterN, opEffect])
  have e4 : Eff wm cfg d (if st.pre = true then [Op.popPre] else [])
      (fun (x : FF) => (x.1, (if st.pre then x.2.1 - 1 else x.2.1), x.2.2)) := by
    by_cases hp : st.pre = true
    · simp only [hp, if_true]; exact (simple _ (by simp) (by simp)).congr (by intro x; rfl)
    · simp only [hp]; exact Eff.nil.congr (by intro x; simp)
  refine ⟨_, ((e1.append e2).append e3).append e4, ?_⟩
  intro f
  obtain ⟨a, p, w, fd, wd⟩ := f
  simp only [openFF, Function.comp]
  cases hfg : st.fg <;> cases hbg : st.bg <;> cases hws : st.ws <;> cases hpre : st.pre <;> by_cases hc : d.colours = true <;>
    (try rename_i v; cases v) <;> simp [nb, nf, nw, hfg, hbg, hws, hpre, hc, iterN]

/-- a node's own style brackets around a balanced body are balanced -/
theorem Eff.styled (st : Style) {body : List Op} (hb : Eff wm cfg d body id) :
    Eff wm cfg d (styleOpen d st ++ body ++ styleClose d st) id := by
  obtain ⟨g, eg, hg⟩ := styleClose_eff (wm := wm) (cfg := cfg) (d := d) st
  exact (((styleOpen_eff st).append hb).append eg).congr (by intro x; simp [hg])

/-! ## the programs `compile` emits are balanced -/

theorem Eff.id_append {a b : List Op} (h1 : Eff wm cfg d a id) (h2 : Eff wm cfg d b id) : Eff wm cfg d (a ++ b) id :=
  (h1.append h2).congr (by intro x; rfl)

/-- an opening and a closing simple operation whose effects cancel, around a balanced body -/
theorem Eff.bracket (o c : Op) {body : List Op} (ho1 : ∀ p m f r a b, o ≠ .sub p m f r a b) (ho2 : ∀ x r, o ≠ .table x r)
    (hc1 : ∀ p m f r a b, c ≠ .sub p m f r a b) (hc2 : ∀ x r, c ≠ .table x r)
    (hcancel : ∀ f, opEffect cfg d c (opEffect cfg d o f) = f) (hb : Eff wm cfg d body id) :
    Eff wm cfg d ([o] ++ body ++ [c]) id :=
  (((Eff.simple (wm := wm) o ho1 ho2).append hb).append (Eff.simple (wm := wm) c hc1 hc2)).congr (by intro x; simp [hcancel])

theorem ann_cancel (o c : Op) (x : Ann) (ho : ∀ f : FF, opEffect cfg d o f = (f.1 ++ [x], f.2))
    (hc : ∀ f : FF, opEffect cfg d c f = (f.1.dropLast, f.2)) : ∀ f, opEffect cfg d c (opEffect cfg d o f) = f := by
  intro f; rw [ho, hc]; simp

mutual
/-- **bracketing**: the program of any render node restores annotation stack, `pre` depth, white-space stack,
    strikeout depth and width of the current sub-renderer -/
theorem compile_frame (wm : SubR → Cfg → Nat → Nat → Except Err Nat) (cfg : Cfg) (d : Deco) :
    (n : RNode) → Eff wm cfg d (compile cfg d n) id
  | .text st s => by
    simp only [compile]
    exact Eff.styled st ((Eff.simple (.text s) (by simp) (by simp)).congr (by intro x; rfl))
  | .img st src title => by
    simp only [compile]
    exact Eff.styled st ((Eff.simple (.image src title) (by simp) (by simp)).congr (by intro x; rfl))
  | .br st => by
    simp only [compile]
    exact Eff.styled st ((Eff.simple .newLineHard (by simp) (by simp)).congr (by intro x; rfl))
  | .frag n => by
    simp only [compile]
    exact (Eff.simple (.frag n) (by simp) (by simp)).congr (by intro x; rfl)
  | .box st k kids => by
    have hb := compileList_frame wm cfg d kids
    cases k <;> simp only [compile] <;> apply Eff.styled st
    case container => exact hb
    case link href => exact Eff.bracket _ _ (by simp) (by simp) (by simp) (by simp) (by intro f; simp [opEffect]) hb
    case em => exact Eff.bracket _ _ (by simp) (by simp) (by simp) (by simp) (by intro f; simp [opEffect]) hb
    case strong => exact Eff.bracket _ _ (by simp) (by simp) (by simp) (by simp) (by intro f; simp [opEffect]) hb
    case strike =>
      exact Eff.bracket _ _ (by simp) (by simp) (by simp) (by simp) (by
        intro f; obtain ⟨a, p, w, fd, wd⟩ := f
        by_cases hu : cfg.unicodeStrike = true <;> simp [opEffect, hu]) hb
    case code => exact Eff.bracket _ _ (by simp) (by simp) (by simp) (by simp) (by intro f; simp [opEffect]) hb
    case block => exact Eff.bracket _ _ (by simp) (by simp) (by simp) (by simp) (by intro f; simp [opEffect]) hb
    case li => exact Eff.bracket _ _ (by simp) (by simp) (by simp) (by simp) (by intro f; simp [opEffect]) hb
    case header lvl => exact Eff.sub _ _ _ _ _ _
    case div => exact Eff.bracket _ _ (by simp) (by simp) (by simp) (by simp) (by intro f; simp [opEffect]) hb
    case quote => exact Eff.sub _ _ _ _ _ _
    case ul => exact compileItems_frame wm cfg d _ _ _ _ 0 kids
    case ol start => exact compileItems_frame wm cfg d _ _ _ _ 0 kids
    case dl => exact Eff.id_append ((Eff.simple .startBlock (by simp) (by simp)).congr (by intro x; rfl)) hb
    case dt =>
      have h1 : Eff wm cfg d [Op.newLine] id := (Eff.simple .newLine (by simp) (by simp)).congr (by intro x; rfl)
      have h2 := Eff.bracket (wm := wm) (cfg := cfg) (d := d) (.startAnn .em d.emStart false) (.endAnn d.emEnd false)
        (by simp) (by simp) (by simp) (by simp) (by intro f; simp [opEffect]) hb
      have := Eff.id_append h1 h2
      simpa [List.append_assoc] using this
    case dd => exact Eff.sub _ _ _ _ _ _
    case sup =>
      split
      · exact (Eff.simple (.text _) (by simp) (by simp)).congr (by intro x; rfl)
      · exact Eff.bracket _ _ (by simp) (by simp) (by simp) (by simp) (by intro f; simp [opEffect]) hb
  | .cell st _ kids => by
    simp only [compile]
    exact Eff.styled st (compileList_frame wm cfg d kids)
  | .row _ _ => by simp only [compile]; exact Eff.nil
  | .tbody _ _ => by simp only [compile]; exact Eff.nil
  | .table st rows n => by
    simp only [compile]
    exact Eff.styled st (Eff.table _ _ (compileRows_bal wm cfg d rows))
theorem compileList_frame (wm : SubR → Cfg → Nat → Nat → Except Err Nat) (cfg : Cfg) (d : Deco) :
    (ns : List RNode) → Eff wm cfg d (compileList cfg d ns) id
  | [] => by simp only [compileList]; exact Eff.nil
  | n :: ns => by
    simp only [compileList]
    exact Eff.id_append (compile_frame wm cfg d n) (compileList_frame wm cfg d ns)
theorem compileItems_frame (wm : SubR → Cfg → Nat → Nat → Except Err Nat) (cfg : Cfg) (d : Deco) (pw minW : Nat)
    (first : Nat → List Ch) (rest : List Ch) : (i : Nat) → (ns : List RNode) →
    Eff wm cfg d (compileItems cfg d pw minW first rest i ns) id
  | _, [] => by simp only [compileItems]; exact Eff.nil
  | i, n :: ns => by
    simp only [compileItems]
    have := Eff.id_append (Eff.sub (wm := wm) (cfg := cfg) (d := d) pw minW (first i) rest false (compile cfg d n))
      (compileItems_frame wm cfg d pw minW first rest (i + 1) ns)
    simpa using this
theorem compileRows_bal (wm : SubR → Cfg → Nat → Nat → Except Err Nat) (cfg : Cfg) (d : Deco) :
    (rows : List RNode) → RowsBal wm cfg d (compileRows cfg d rows)
  | [] => by simp [compileRows, RowsBal]
  | .row st cells :: rs => by
    simp only [compileRows, RowsBal]
    obtain ⟨g, eg, hg⟩ := styleClose_eff (wm := wm) (cfg := cfg) (d := d) st
    exact ⟨⟨openFF d st, g, styleOpen_eff st, eg, hg⟩, compileRows_bal wm cfg d rs⟩
  | .text _ _ :: rs => by simp only [compileRows]; exact compileRows_bal wm cfg d rs
  | .img _ _ _ :: rs => by simp only [compileRows]; exact compileRows_bal wm cfg d rs
  | .br _ :: rs => by simp only [compileRows]; exact compileRows_bal wm cfg d rs
  | .frag _ :: rs => by simp only [compileRows]; exact compileRows_bal wm cfg d rs
  | .box _ _ _ :: rs => by simp only [compileRows]; exact compileRows_bal wm cfg d rs
  | .cell _ _ _ :: rs => by simp only [compileRows]; exact compileRows_bal wm cfg d rs
  | .tbody _ _ :: rs => by simp only [compileRows]; exact compileRows_bal wm cfg d rs
  | .table _ _ _ :: rs => by simp only [compileRows]; exact compileRows_bal wm cfg d rs
end

end H2T
