import H2T.Render
import H2T.Lemmas.CfgTree
import H2T.Lemmas.TableTotal
import H2T.Lemmas.DomFactor

/-! # C15 — layout options are orthogonal and do only what they say

Status: **partial** — proved for whole renderings of the model (every tree incl. tables, every decorator and width):
**`max_wrap_width(m)` with `m ≥ width` changes nothing** when overflow is off (`maxwrap_ge_noop_whole_run`; with
`allow_width_overflow` a nested block can be wider than the requested width and the statement is *refuted*,
`maxwrap_overflow_refuted` — the known finding C15-maxwrap-overflow); **options that do not apply leave the rendering
unchanged**: the strikeout option on trees without `<s>`/`<del>` (`strikeout_irrelevant_without_strike`), border
drawing and raw mode on trees without tables (`table_options_irrelevant_without_tables`), footnotes and link wrapping on
trees without links (`link_options_irrelevant_without_links`), link wrapping when footnotes are off
(`link_wrapping_irrelevant_without_footnotes`) — all corollaries of one simulation theorem (`Lemmas/CfgCongr`,
`CfgTree.renderTree_sim`).  Also proved: `max_wrap_width(m)` with `m ≥` the block's width creates exactly the wrapped
block it creates without the option; the strikeout filter only inserts U+0336 (erasing the marks gives the
text back) and is the identity when disabled; without borders no rule is ever added by a table.  The relations
for padding, raw mode and footnotes are decided by correspondence and the pairwise oracle. -/

namespace H2T.C15

/-- a maximum wrap width of at least the block's width changes nothing: the same `WrappedBlock` is created -/
theorem maxwrap_ge_noop (s : SubR) (cfg : Cfg) (m : Nat) (h : s.width ≤ m) :
    s.getWrapping { cfg with wrapWidth := some m } = s.getWrapping { cfg with wrapWidth := none } := by
  unfold SubR.getWrapping
  cases s.wrapping with
  | some w => rfl
  | none => simp [Nat.min_eq_right h]

/-- … and a smaller one limits the wrap width to `m` -/
theorem maxwrap_limits (s : SubR) (cfg : Cfg) (m : Nat) (h : s.wrapping = none) :
    (s.getWrapping { cfg with wrapWidth := some m }).width = min m s.width := by
  simp [SubR.getWrapping, h]

def isMark (c : Ch) : Bool := c.cp = 0x336

/-- the mark the filter inserts -/
def mark : Ch := ⟨0x336, 0, false, false⟩

/-- does the filter strike this character? (it has width and is not whitespace) -/
def struck (c : Ch) : Bool := !c.ws && decide ((if c.ctrl then 0 else c.w) > 0)

theorem strikeFilter_cons (c : Ch) (cs : List Ch) :
    strikeFilter (c :: cs) = (if struck c then [c, mark] else [c]) ++ strikeFilter cs := by
  simp [strikeFilter, struck, mark]

/-- Unicode strikeout only *adds* combining marks: erasing U+0336 from the filtered text gives the text back
    (for text that contains no U+0336 itself) -/
theorem strike_only_adds_marks (s : List Ch) (h : ∀ c ∈ s, isMark c = false) :
    (strikeFilter s).filter (fun c => !isMark c) = s := by
  induction s with
  | nil => rfl
  | cons c cs ih =>
    have hc := h c (by simp)
    have ih' := ih (fun x hx => h x (by simp [hx]))
    have hcp : c.cp ≠ 0x336 := by simpa [isMark] using hc
    rw [strikeFilter_cons, List.filter_append, ih']
    split <;> simp [isMark, mark, hcp]

/-- the marks have no width: the filtered text is exactly as wide as the text -/
theorem strike_keeps_width (s : List Ch) : dispW (strikeFilter s) = dispW s := by
  induction s with
  | nil => rfl
  | cons c cs ih =>
    rw [strikeFilter_cons]
    have happ : ∀ a b : List Ch, dispW (a ++ b) = dispW a + dispW b := by intro a b; simp [dispW]
    rw [happ, ih]
    split <;> simp [dispW, mark]

/-- whitespace is never struck (so whitespace still collapses inside `<s>`/`<del>`) -/
theorem strike_leaves_whitespace (c : Ch) (h : c.ws = true) : strikeFilter [c] = [c] := by
  simp [strikeFilter, h]

/-! ## whole renderings -/

theorem treeAgree_refl_fields {c1 c2 : Cfg} (tree : RNode) (h1 : c1.footnotes = c2.footnotes) (h2 : c1.unicodeStrike = c2.unicodeStrike)
    (h3 : c1.raw = c2.raw) (h4 : c1.drawBorders = c2.drawBorders) : TreeAgree c1 c2 tree := by
  intro f _; cases f
  · exact h1
  · exact h2
  · exact ⟨h3, h4⟩

/-- configurations that differ in no option a sub-renderer reads are indistinguishable at every width -/
theorem cfgSim_all {c1 c2 : Cfg} (hp : c1.padBlocks = c2.padBlocks) (ho : c1.overflow = c2.overflow) (hw : c1.wrapWidth = c2.wrapWidth) :
    CfgSim (fun _ => True) c1 c2 :=
  ⟨hp, ho, fun w _ => by unfold wwOf; rw [hw], fun _ _ _ _ => trivial, fun _ _ => trivial⟩

/-- **`max_wrap_width(m)` with `m ≥ width` is a no-op** on whole renderings (overflow off): every tree — paragraphs,
    nested lists and quotes, tables side by side or stacked — every decorator, every other option -/
theorem maxwrap_ge_noop_whole_run (cfg : Cfg) (d : Deco) (w m : Nat) (tree : RNode) (hov : cfg.overflow = false) (hm : w ≤ m) :
    renderTree { cfg with wrapWidth := some m } d w tree = renderTree { cfg with wrapWidth := none } d w tree := by
  have hsim : CfgSim (fun x => x ≤ m) { cfg with wrapWidth := some m } { cfg with wrapWidth := none } :=
    ⟨rfl, rfl, fun x hx => by simp only [wwOf]; exact Nat.min_eq_right hx, fun _ _ h1 h2 => Nat.le_trans h2 h1,
     fun h => by simp [hov] at h⟩
  exact renderTree_sim hsim d w tree hm rfl (treeAgree_refl_fields tree rfl rfl rfl rfl) (fun _ _ => rfl)

/-- …and the overflow hypothesis is necessary: with `allow_width_overflow` a list item at width 1 is rendered in a
    sub-renderer 3 columns wide, where `max_wrap_width(2)` does bite although 2 ≥ 1 (5 lines instead of 3) -/
theorem maxwrap_overflow_refuted :
    ∃ (cfg : Cfg) (d : Deco) (w m : Nat) (tree : RNode), w ≤ m ∧
      renderTree { cfg with wrapWidth := some m } d w tree ≠ renderTree { cfg with wrapWidth := none } d w tree := by
  refine ⟨{ overflow := true }, Deco.plain, 1, 2, .box {} .ul [.box {} .li [.text {} (strCh "aaa bbb cc")]], by decide, ?_⟩
  intro h
  have h2 := congrArg (fun r => r.toOption.map List.length) h
  revert h2
  decide +kernel

/-- **the strikeout option does nothing without struck text** -/
theorem strikeout_irrelevant_without_strike (cfg : Cfg) (b : Bool) (d : Deco) (w : Nat) (tree : RNode) (hn : uses .strike tree = false) :
    renderTree { cfg with unicodeStrike := b } d w tree = renderTree cfg d w tree := by
  refine renderTree_sim (c1 := { cfg with unicodeStrike := b }) (c2 := cfg) (cfgSim_all (c1 := { cfg with unicodeStrike := b }) (c2 := cfg) rfl rfl rfl) d w tree trivial rfl ?_ (fun _ _ => rfl)
  intro f hf; cases f
  · rfl
  · rw [hn] at hf; simp at hf
  · exact ⟨rfl, rfl⟩

/-- **border drawing and raw mode do nothing without tables** -/
theorem table_options_irrelevant_without_tables (cfg : Cfg) (r b : Bool) (d : Deco) (w : Nat) (tree : RNode) (hn : uses .tables tree = false) :
    renderTree { cfg with raw := r, drawBorders := b } d w tree = renderTree cfg d w tree := by
  refine renderTree_sim (c1 := { cfg with raw := r, drawBorders := b }) (c2 := cfg) (cfgSim_all (c1 := { cfg with raw := r, drawBorders := b }) (c2 := cfg) rfl rfl rfl) d w tree trivial rfl ?_ (fun _ _ => rfl)
  intro f hf; cases f
  · rfl
  · rfl
  · rw [hn] at hf; simp at hf

/-- **footnotes and link wrapping do nothing without links** -/
theorem link_options_irrelevant_without_links (cfg : Cfg) (fn wl : Bool) (d : Deco) (w : Nat) (tree : RNode) (hn : uses .links tree = false) :
    renderTree { cfg with footnotes := fn, wrapLinks := wl } d w tree = renderTree cfg d w tree := by
  refine renderTree_sim (c1 := { cfg with footnotes := fn, wrapLinks := wl }) (c2 := cfg) (cfgSim_all (c1 := { cfg with footnotes := fn, wrapLinks := wl }) (c2 := cfg) rfl rfl rfl) d w tree trivial rfl ?_ (fun hu => by rw [hn] at hu; simp at hu)
  intro f hf; cases f
  · rw [hn] at hf; simp at hf
  · rfl
  · exact ⟨rfl, rfl⟩

/-- **link wrapping does nothing when footnotes are off** -/
theorem link_wrapping_irrelevant_without_footnotes (cfg : Cfg) (wl : Bool) (d : Deco) (w : Nat) (tree : RNode) (hf : cfg.footnotes = false) :
    renderTree { cfg with wrapLinks := wl } d w tree = renderTree cfg d w tree := by
  refine renderTree_sim (c1 := { cfg with wrapLinks := wl }) (c2 := cfg) (cfgSim_all (c1 := { cfg with wrapLinks := wl }) (c2 := cfg) rfl rfl rfl) d w tree trivial rfl (treeAgree_refl_fields tree rfl rfl rfl rfl) ?_
  intro _ h; simp [hf] at h

/-! non-vacuity -/
example : uses .strike (.box {} .block [.text {} (strCh "a")]) = false ∧ uses .tables (.box {} .block [.text {} (strCh "a")]) = false ∧
    uses .links (.box {} .block [.text {} (strCh "a")]) = false := by decide
example : (strikeFilter (strCh "a b")).map (·.cp) = [97, 0x336, 32, 98, 0x336] := by decide
example : (({ width := 10 } : SubR).getWrapping { wrapWidth := some 4 }).width = 4 := by decide

/-! ## without borders there are no rules -/

/-- **`no_table_borders` / `raw_mode`: no rule line is ever produced** — for every render tree whose tables are well formed
    (`tableOk`: what `build` guarantees), every decorator, width and option mix with `drawBorders = false` (raw mode
    implies it), every line `renderTree` returns is a text line: no top rule, no row separators, no `/////` between
    stacked cells, no nested border that could be collapsed.  (That the text lines hold no box character either — the
    column separator is a blank, pads are blanks — is decided by the pairwise oracle.) -/
theorem no_borders_no_rules (cfg : Cfg) (d : Deco) (w : Nat) (tree : RNode) (ls : List RLine) (htok : tableOk tree = true)
    (hdb : cfg.drawBorders = false) (h : renderTree cfg d w tree = .ok ls) : ∀ l ∈ ls, l.isText = true := by
  unfold renderTree at h
  split at h
  · simp at h
  · have g := compile_totT cfg d tree htok { cur := { width := w } } (sane_fresh _ _)
    cases h1 : runOps SubR.widthMinus cfg d { cur := { width := w } } (compile cfg d tree) with
    | error e => simp [h1, andThen_error_eq] at h
    | ok t =>
      simp only [h1, andThen_ok_eq] at h
      have st := g.2 t h1
      have fin : ∀ (s : SubR), s.Sane cfg → s.intoLines = .ok ls → ∀ l ∈ ls, l.isText = true := by
        intro s hs hl
        unfold SubR.intoLines at hl
        cases hf : s.flushWrapping with
        | error e => simp [hf, andThen] at hl
        | ok s1 =>
          simp only [hf, andThen] at hl
          injection hl with hl; subst hl
          have := ((flushWrapping_good s hs).1.2 s1 hf).2 hdb
          intro l hl
          cases l with
          | text tl => rfl
          | rule b t => exact absurd rfl (this _ hl b t)
      split at h
      · exact fin _ st h
      · cases h2 : t.cur.startBlock with
        | error e => simp [h2, andThen_error_eq] at h
        | ok s1 =>
          simp only [h2, andThen_ok_eq] at h
          have s1s := (startBlock_good _ st).2 s1 h2
          exact fin _ (addLines_sane s1 _ s1s (fun _ l hl => by simp at hl; obtain ⟨a, _, rfl⟩ := hl; rfl)) h

/-- …and for the whole pipeline: whatever the document and the style sheets, without borders every returned line is a text line -/
theorem no_borders_no_rules_pipeline (cfg : Cfg) (d : Deco) (w : Nat) (useDoc : Bool) (agentCss userCss : Option (List Char))
    (ci : CharInfo) (depth : Nat) (dom : Node) (ls : List RLine) (hdb : cfg.drawBorders = false)
    (h : renderDom cfg d w useDoc agentCss userCss ci depth dom = .lines ls) : ∀ l ∈ ls, l.isText = true := by
  obtain ⟨tree, _, htok, hr⟩ := renderDom_lines cfg d w useDoc agentCss userCss ci depth dom ls h
  exact no_borders_no_rules cfg d w tree ls htok hdb hr

end H2T.C15
