import H2T.Lemmas.RenderTotal

/-! C01, table layer: column allocation, stacked rows, side-by-side rows with border collapsing and the row/cell
    recursion never end in one of the model's `panic`/`hang` outcomes, provided every cell's column range lies inside
    the table (`tableOk`, which `RenderTable::new` establishes). -/

namespace H2T

variable {cfg : Cfg}

/-! ## column allocation -/

theorem allocCols_total' (cfg : Cfg) (width : Nat) (cols : List SizeEst) :
    ∃ ws vert tw, allocCols cfg width cols = .ok (ws, vert, tw) ∧ ws.length = cols.length ∧ (vert = false → ws.sum ≤ tw) := by
  unfold allocCols
  simp only []
  split
  · exact ⟨_, _, _, rfl, by simp, by simp⟩
  · rename_i hv
    simp only [Bool.or_eq_true, decide_eq_true_eq, not_or, Nat.not_lt] at hv
    generalize hinit : (cols.map fun sz =>
      if sz.size = 0 then 0 else
        min sz.size (if 18446744073709551615 / width ≤ sz.size then max ((width / (cols.map (·.size)).sum) * sz.size) sz.minW
                     else max (sz.size * width / (cols.map (·.size)).sum) sz.minW)) = init
    have hlen : init.length = cols.length := by rw [← hinit]; simp
    by_cases he : init.isEmpty = true
    · simp only [he, if_true, andThen_ok_eq]
      exact ⟨_, _, _, rfl, hlen, fun _ => by omega⟩
    · simp only [he]
      obtain ⟨w2, e1, e2, _⟩ := shrinkLoop_ok width cols (init.sum + 2) init (by omega) (by
        have := hv.2.1
        have : cols.length - 1 ≤ (cols.map (·.minW)).sum + (cols.length - 1) := by omega
        omega) (by omega)
      simp only [Bool.false_eq_true, if_false, e1, andThen_ok_eq]
      exact ⟨_, _, _, rfl, by rw [e2, hlen], fun _ => by omega⟩

/-! ## the last line is a rule -/

def SubR.LastRule (s : SubR) : Prop := ∃ b t, s.lines.getLast? = some (.rule b t)

theorem addLine_rule_last (s : SubR) (b : Border) (t : Tag) : (s.addLine (.rule b t)).LastRule :=
  ⟨b, t, by simp [SubR.addLine]⟩

theorem tableTop_good (s : SubR) (tw : Nat) (h : s.Sane cfg) :
    GoodS cfg (s.tableTop cfg tw) ∧ ∀ s', s.tableTop cfg tw = .ok s' →
      (s.wrapping = none → s'.wrapping = none) ∧ (cfg.drawBorders = true → tw ≠ 0 → s'.wrapping = none ∧ s'.LastRule) := by
  unfold SubR.tableTop
  by_cases hc : (decide (tw ≠ 0) && cfg.drawBorders) = true
  · simp only [hc, if_true]
    have hd : cfg.drawBorders = true := by simp at hc; exact hc.2
    have g := flushWrapping_good s h
    constructor
    · apply g.1.andThen
      intro s2 _ h2
      exact GoodS.ok (addLine_sane s2 _ h2 (fun hb => by rw [hd] at hb; simp at hb))
    · intro s' hs'
      cases h4 : s.flushWrapping with
      | error e => simp [h4, andThen_error_eq] at hs'
      | ok s2 =>
        simp only [h4, andThen_ok_eq] at hs'; injection hs' with hs'; subst hs'
        have hn := g.2 s2 h4
        exact ⟨fun _ => by rw [addLine_wrapping]; exact hn, fun _ _ => ⟨by rw [addLine_wrapping]; exact hn, addLine_rule_last _ _ _⟩⟩
  · simp only [hc]
    refine ⟨GoodS.ok h, ?_⟩
    intro s' hs'
    injection hs' with hs'; subst hs'
    refine ⟨fun e => e, fun hd htw => ?_⟩
    simp [hd, htw] at hc

/-! ## stacked rows -/

theorem vertCells_good : ∀ (cols : List SubR) (first : Bool) (s : SubR), s.Sane cfg → (∀ c ∈ cols, c.Sane cfg) →
    GoodS cfg (vertCells cfg first s cols) := by
  intro cols
  induction cols with
  | nil => intro first s h _; simp only [vertCells]; exact GoodS.ok h
  | cons c cs ih =>
    intro first s h hc
    simp only [vertCells]
    have g1 : GoodS cfg (if (!first && cfg.drawBorders) = true then
        andThen s.flushWrapping fun s' => Except.ok (s'.addLine (.rule (List.replicate s.width Seg.vert) s'.annStack))
      else Except.ok s) := by
      split
      · rename_i hcnd
        have hd : cfg.drawBorders = true := by simp at hcnd; exact hcnd.2
        apply (flushWrapping_good s h).1.andThen
        intro s2 _ h2
        exact GoodS.ok (addLine_sane s2 _ h2 (fun hb => by rw [hd] at hb; simp at hb))
      · exact GoodS.ok h
    apply g1.andThen
    intro s1 _ h1
    apply (appendSub_good s1 c [] [] h1 (hc c (by simp))).andThen
    intro s2 _ h2
    exact ih false s2 h2 (fun x hx => hc x (by simp [hx]))

theorem appendVertRow_good (s : SubR) (cols : List SubR) (h : s.Sane cfg) (hc : ∀ c ∈ cols, c.Sane cfg) :
    GoodS cfg (s.appendVertRow cfg cols) := by
  unfold SubR.appendVertRow
  apply (flushWrapping_good s h).1.andThen
  intro s0 _ h0
  apply (vertCells_good cols true s0 h0 hc).andThen
  intro s1 _ h1
  split
  · rename_i hd
    apply (flushWrapping_good s1 h1).1.andThen
    intro s2 _ h2
    exact GoodS.ok (addLine_sane s2 _ h2 (fun hb => by rw [hd] at hb; simp at hb))
  · exact GoodS.ok h1

/-! ## side-by-side rows -/

theorem colSets_safe (ann : Tag) : ∀ (cols : List SubR), (∀ c ∈ cols, c.Sane cfg) → Safe cfg.overflow (colSets ann cols) := by
  intro cols
  induction cols with
  | nil => intro _; simp only [colSets]; exact Safe.ok _
  | cons c cs ih =>
    intro hc
    simp only [colSets]
    apply Safe.andThen (intoLines_safe c (hc c (by simp)))
    intro ls _
    apply Safe.andThen (ih (fun x hx => hc x (by simp [hx])))
    intro r _
    exact Safe.ok _

theorem colSets_length (ann : Tag) : ∀ (cols : List SubR) (sets : List (Nat × List RLine)), colSets ann cols = .ok sets →
    sets.length = cols.length := by
  intro cols
  induction cols with
  | nil => intro sets h; simp [colSets] at h; subst h; rfl
  | cons c cs ih =>
    intro sets h
    simp only [colSets] at h
    cases h1 : c.intoLines with
    | error e => simp [h1, andThen_error_eq] at h
    | ok ls =>
      simp only [h1, andThen_ok_eq] at h
      cases h2 : colSets ann cs with
      | error e => simp [h2, andThen_error_eq] at h
      | ok r =>
        simp only [h2, andThen_ok_eq] at h; injection h with h; subst h
        simp [ih r h2]

theorem padLine_isText (tag : Tag) (w : Nat) (l : RLine) : (padLine tag w l).isText = l.isText := by cases l <;> rfl

/-- without borders the cells' line sets contain no rule -/
theorem colSets_text (ann : Tag) (hb : cfg.drawBorders = false) : ∀ (cols : List SubR) (sets : List (Nat × List RLine)),
    (∀ c ∈ cols, c.Sane cfg) → colSets ann cols = .ok sets → ∀ st ∈ sets, ∀ l ∈ st.2, l.isText = true := by
  intro cols
  induction cols with
  | nil => intro sets _ h; simp [colSets] at h; subst h; simp
  | cons c cs ih =>
    intro sets hc h
    simp only [colSets] at h
    cases h1 : c.intoLines with
    | error e => simp [h1, andThen_error_eq] at h
    | ok ls =>
      simp only [h1, andThen_ok_eq] at h
      cases h2 : colSets ann cs with
      | error e => simp [h2, andThen_error_eq] at h
      | ok r =>
        simp only [h2, andThen_ok_eq] at h; injection h with h; subst h
        intro st hst
        simp only [List.mem_cons] at hst
        rcases hst with rfl | hst
        · intro l hl
          simp only [List.mem_map] at hl
          obtain ⟨l0, hl0, rfl⟩ := hl
          rw [padLine_isText]
          -- the lines of a sane cell without borders are text
          unfold SubR.intoLines at h1
          have g := flushWrapping_good c (hc c (by simp))
          cases h3 : c.flushWrapping with
          | error e => simp [h3, andThen_error_eq] at h1
          | ok c1 =>
            simp only [h3, andThen_ok_eq] at h1; injection h1 with h1; subst h1
            have := (g.1.2 c1 h3).2 hb l0 hl0
            cases l0 with
            | text tl => rfl
            | rule b t => exact absurd rfl (this b t)
        · exact ih r (fun x hx => hc x (by simp [hx])) h2 st hst

theorem collapseTop_safe : ∀ (sets : List (Nat × List RLine)) (prev : Option Border) (pos : Nat),
    (prev.isSome = true ∨ ∀ st ∈ sets, ∀ l ∈ st.2, l.isText = true) → Safe cfg.overflow (collapseTop prev pos sets) := by
  intro sets
  induction sets with
  | nil => intro prev pos _; simp only [collapseTop]; exact Safe.ok _
  | cons st r ih =>
    intro prev pos h
    unfold collapseTop
    split
    · rename_i b t restLines heq
      cases prev with
      | none =>
        exfalso
        rcases h with h | h
        · simp at h
        · have := h st (by simp) (.rule b t) (by rw [heq]; simp)
          simp [RLine.isText] at this
      | some pb =>
        simp only
        apply Safe.andThen (ih _ _ (Or.inl rfl))
        intro v _; exact Safe.ok _
    · apply Safe.andThen (ih prev _ (by
        rcases h with h | h
        · exact Or.inl h
        · exact Or.inr (fun x hx => h x (by simp [hx]))))
      intro v _; exact Safe.ok _

theorem setLastRule_sane (s : SubR) (prev : Option Border) (h : s.Sane cfg) : (s.setLastRule prev).Sane cfg ∧ (s.setLastRule prev).wrapping = s.wrapping := by
  unfold SubR.setLastRule
  split
  · rename_i pb
    split
    · rename_i b t heq
      refine ⟨⟨h.1, ?_⟩, rfl⟩
      intro hb
      -- without borders there is no rule to replace
      exact absurd rfl (h.2 hb _ (List.mem_of_getLast? heq) _ _)
    · exact ⟨h, rfl⟩
  · exact ⟨h, rfl⟩

theorem emitColumns_sane (s : SubR) (ann : Tag) (a : List (Nat × List RLine)) (b : List (Option (List Ch))) (nb : Border)
    (h : s.Sane cfg) : (s.emitColumns cfg ann a b nb).Sane cfg ∧ (s.emitColumns cfg ann a b nb).wrapping = s.wrapping ∧
      (cfg.drawBorders = true → (s.emitColumns cfg ann a b nb).LastRule) := by
  unfold SubR.emitColumns
  simp only []
  generalize (if cfg.drawBorders = true then mkCh 0x2502 else spaceCh) = sep
  have h1 := addLines_sane (cfg := cfg) s ((List.range ((a.map (·.2.length)).foldl max 0)).map fun i =>
    RLine.text (colLine ann sep i (a.zip b))) h
    (fun _ l hl => by simp at hl; obtain ⟨i, _, rfl⟩ := hl; rfl)
  split
  · rename_i hd
    exact ⟨addLine_sane _ _ h1 (fun hb => by rw [hd] at hb; simp at hb), by rw [addLine_wrapping, addLines_wrapping], fun _ => addLine_rule_last _ _ _⟩
  · rename_i hd
    exact ⟨h1, addLines_wrapping _ _, fun hd' => absurd hd' hd⟩

/-- `append_columns_with_borders` is total: the "no previous line" expectation of border collapsing is met because,
    with borders, the caller guarantees that the last line is a rule, and without borders no cell holds a rule -/
theorem appendColumns_good (s : SubR) (cols : List SubR) (h : s.Sane cfg) (hc : ∀ c ∈ cols, c.Sane cfg) (hne : cols ≠ [])
    (hr : cfg.drawBorders = true → s.wrapping = none ∧ s.LastRule) :
    GoodS cfg (s.appendColumns cfg cols) ∧ ∀ s', s.appendColumns cfg cols = .ok s' →
      s'.wrapping = none ∧ (cfg.drawBorders = true → s'.LastRule) := by
  unfold SubR.appendColumns
  have g0 := flushWrapping_good s h
  cases h0 : s.flushWrapping with
  | error e =>
    exact ⟨⟨by intro e' he'; simp [andThen_error_eq] at he'; subst he'; exact g0.1.1 e h0, by intro s' he'; simp [andThen_error_eq] at he'⟩,
      by intro s' he'; simp [andThen_error_eq] at he'⟩
  | ok s0 =>
    simp only [andThen_ok_eq]
    have s0s := g0.1.2 s0 h0
    have s0n := g0.2 s0 h0
    have hsets := colSets_safe (cfg := cfg) s0.annStack cols hc
    cases h1 : colSets s0.annStack cols with
    | error e =>
      exact ⟨⟨by intro e' he'; simp [andThen_error_eq] at he'; subst he'; exact hsets e h1, by intro s' he'; simp [andThen_error_eq] at he'⟩,
        by intro s' he'; simp [andThen_error_eq] at he'⟩
    | ok sets =>
      simp only [andThen_ok_eq]
      have hlen := colSets_length _ cols sets h1
      have hsne : sets.isEmpty = false := by
        cases sets with
        | nil => simp at hlen; exact absurd (List.length_eq_zero_iff.mp hlen.symm) hne
        | cons a r => rfl
      simp only [hsne, Bool.false_eq_true, if_false]
      generalize htot : (sets.map (·.1)).sum + (sets.length - 1) = tot
      -- the previous border is there whenever some cell could start with a rule
      have hprev : (s0.joinBars sets tot).1.isSome = true ∨ ∀ st ∈ sets, ∀ l ∈ st.2, l.isText = true := by
        by_cases hd : cfg.drawBorders = true
        · left
          obtain ⟨hw, b, t, hl⟩ := hr hd
          -- nothing was pending, so the flush changed nothing
          have : s0 = s := by
            unfold SubR.flushWrapping at h0; rw [hw] at h0; injection h0 with h0; exact h0.symm
          subst this
          unfold SubR.joinBars
          simp only [hl]
          rfl
        · right
          exact colSets_text (cfg := cfg) _ (by simpa using hd) cols sets hc h1
      have hct := collapseTop_safe (cfg := cfg) sets (s0.joinBars sets tot).1 0 hprev
      cases h3 : collapseTop (s0.joinBars sets tot).1 0 sets with
      | error e =>
        exact ⟨⟨by intro e' he'; simp [andThen_error_eq] at he'; subst he'; exact hct e h3, by intro s' he'; simp [andThen_error_eq] at he'⟩,
          by intro s' he'; simp [andThen_error_eq] at he'⟩
      | ok v =>
        simp only [andThen_ok_eq]
        obtain ⟨a1, a2⟩ := setLastRule_sane s0 v.1 s0s
        obtain ⟨b1, b2, b3⟩ := emitColumns_sane (s0.setLastRule v.1) s0.annStack (collapseBottom (s0.joinBars sets tot).2 0 v.2).2.1
          (collapseBottom (s0.joinBars sets tot).2 0 v.2).2.2 (collapseBottom (s0.joinBars sets tot).2 0 v.2).1 a1
        refine ⟨GoodS.ok b1, ?_⟩
        intro s' hs'
        injection hs' with hs'; subst hs'
        exact ⟨by rw [b2, a2]; exact s0n, b3⟩

/-! ## wrapping is flushed -/

theorem addEmptyLine_none (s s' : SubR) (h : s.Sane cfg) (e : s.addEmptyLine = .ok s') : s'.wrapping = none := by
  unfold SubR.addEmptyLine at e
  cases h1 : s.flushWrapping with
  | error x => simp [h1, andThen_error_eq] at e
  | ok s1 =>
    simp only [h1, andThen_ok_eq] at e; injection e with e; subst e
    show (s1.addLine (.text [])).wrapping = none
    rw [addLine_wrapping]; exact (flushWrapping_good s h).2 s1 h1

theorem startBlock_none (s s' : SubR) (h : s.Sane cfg) (e : s.startBlock = .ok s') : s'.wrapping = none := by
  unfold SubR.startBlock at e
  cases h1 : s.flushWrapping with
  | error x => simp [h1, andThen_error_eq] at e
  | ok s1 =>
    simp only [h1, andThen_ok_eq] at e
    have n1 := (flushWrapping_good s h).2 s1 h1
    have s1s := (flushWrapping_good s h).1.2 s1 h1
    generalize hr : (if s1.lines.any RLine.hasContent = true then s1.addEmptyLine else Except.ok s1) = r at e
    cases r with
    | error x => simp [andThen_error_eq] at e
    | ok s2 =>
      simp only [andThen_ok_eq] at e; injection e with e; subst e
      show s2.wrapping = none
      split at hr
      · exact addEmptyLine_none s1 s2 s1s hr
      · injection hr with hr; subst hr; exact n1

theorem appendSub_none (s other s' : SubR) (first rest : List Ch) (h : s.Sane cfg) (e : s.appendSub other first rest = .ok s') :
    s'.wrapping = none := by
  unfold SubR.appendSub at e
  cases e1 : s.flushWrapping with
  | error x => simp [e1, andThen_error_eq] at e
  | ok s1 =>
    simp only [e1, andThen_ok_eq] at e
    cases e2 : other.intoLines with
    | error x => simp [e2, andThen_error_eq] at e
    | ok ls =>
      simp only [e2, andThen_ok_eq] at e; injection e with e; subst e
      rw [addLines_wrapping]; exact (flushWrapping_good s h).2 s1 e1

theorem vertCells_none : ∀ (cols : List SubR) (first : Bool) (s s' : SubR), s.Sane cfg → (∀ c ∈ cols, c.Sane cfg) → s.wrapping = none →
    vertCells cfg first s cols = .ok s' → s'.wrapping = none := by
  intro cols
  induction cols with
  | nil => intro first s s' _ _ hn e; simp [vertCells] at e; subst e; exact hn
  | cons c cs ih =>
    intro first s s' h hc hn e
    simp only [vertCells] at e
    have g1 : GoodS cfg (if (!first && cfg.drawBorders) = true then
        andThen s.flushWrapping fun s' => Except.ok (s'.addLine (.rule (List.replicate s.width Seg.vert) s'.annStack))
      else Except.ok s) := by
      split
      · rename_i hcnd
        have hd : cfg.drawBorders = true := by simp at hcnd; exact hcnd.2
        apply (flushWrapping_good s h).1.andThen
        intro s2 _ h2
        exact GoodS.ok (addLine_sane s2 _ h2 (fun hb => by rw [hd] at hb; simp at hb))
      · exact GoodS.ok h
    cases h1 : (if (!first && cfg.drawBorders) = true then
        andThen s.flushWrapping fun s' => Except.ok (s'.addLine (.rule (List.replicate s.width Seg.vert) s'.annStack))
      else Except.ok s) with
    | error x => rw [h1] at e; simp [andThen_error_eq] at e
    | ok s1 =>
      rw [h1] at e
      simp only [andThen_ok_eq] at e
      have s1s := g1.2 s1 h1
      cases h3 : s1.appendSub c [] [] with
      | error x => simp [h3, andThen_error_eq] at e
      | ok s2 =>
        simp only [h3, andThen_ok_eq] at e
        have g2 := appendSub_good s1 c [] [] s1s (hc c (by simp))
        exact ih false s2 s' (g2.2 s2 h3) (fun x hx => hc x (by simp [hx])) (appendSub_none s1 c s2 [] [] s1s h3) e

theorem appendVertRow_none (s s' : SubR) (cols : List SubR) (h : s.Sane cfg) (hc : ∀ c ∈ cols, c.Sane cfg)
    (e : s.appendVertRow cfg cols = .ok s') : s'.wrapping = none := by
  unfold SubR.appendVertRow at e
  cases h1 : s.flushWrapping with
  | error x => simp [h1, andThen_error_eq] at e
  | ok s0 =>
    simp only [h1, andThen_ok_eq] at e
    have s0s := (flushWrapping_good s h).1.2 s0 h1
    have n0 := (flushWrapping_good s h).2 s0 h1
    cases h2 : vertCells cfg true s0 cols with
    | error x => simp [h2, andThen_error_eq] at e
    | ok s1 =>
      simp only [h2, andThen_ok_eq] at e
      have n1 := vertCells_none cols true s0 s1 s0s hc n0 h2
      have s1s := (vertCells_good cols true s0 s0s hc).2 s1 h2
      split at e
      · cases h3 : s1.flushWrapping with
        | error x => simp [h3, andThen_error_eq] at e
        | ok s2 =>
          simp only [h3, andThen_ok_eq] at e; injection e with e; subst e
          rw [addLine_wrapping]; exact (flushWrapping_good s1 s1s).2 s2 h3
      · injection e with e; subst e; exact n1

/-! ## style operations touch neither lines nor pending text -/

def isStyleOp : Op → Bool
  | .pushWs _ | .popWs | .pushAnn _ | .popAnn | .pushPre | .popPre => true
  | _ => false

theorem styleOps_quiet {d : Deco} : ∀ (ops : List Op), (∀ op ∈ ops, isStyleOp op = true) → ∀ t t',
    runOps SubR.widthMinus cfg d t ops = .ok t' → t'.cur.lines = t.cur.lines ∧ t'.cur.wrapping = t.cur.wrapping := by
  intro ops
  induction ops with
  | nil => intro _ t t' h; simp [runOps] at h; subst h; exact ⟨rfl, rfl⟩
  | cons op ops ih =>
    intro hall t t' h
    simp only [runOps] at h
    cases h1 : runOp SubR.widthMinus cfg d t op with
    | error e => simp [h1, andThen_error_eq] at h
    | ok t1 =>
      simp only [h1, andThen_ok_eq] at h
      have hop := hall op (by simp)
      have e1 : t1.cur.lines = t.cur.lines ∧ t1.cur.wrapping = t.cur.wrapping := by
        cases op <;> simp [isStyleOp] at hop
        case popPre =>
          simp only [runOp, stepSimple, RS.onCur] at h1
          by_cases hp : t.cur.preDepth = 0
          · simp [hp, andThen] at h1
          · simp only [hp, if_false, andThen] at h1; injection h1 with h1; subst h1; exact ⟨rfl, rfl⟩
        all_goals (simp only [runOp, stepSimple, RS.onCur, andThen] at h1; injection h1 with h1; subst h1; exact ⟨rfl, rfl⟩)
      have e2 := ih (fun x hx => hall x (by simp [hx])) t1 t' h
      exact ⟨e2.1.trans e1.1, e2.2.trans e1.2⟩

theorem styleOpen_style (d : Deco) (st : Style) : ∀ op ∈ styleOpen d st, isStyleOp op = true := by
  intro op hop
  unfold styleOpen at hop
  simp only [List.mem_append] at hop
  rcases hop with ((hop | hop) | hop) | hop
  · split at hop
    · split at hop <;> simp at hop; subst hop; rfl
    · simp at hop
  · split at hop
    · split at hop <;> simp at hop; subst hop; rfl
    · simp at hop
  · split at hop <;> simp at hop <;> subst hop <;> rfl
  · split at hop <;> simp at hop; subst hop; rfl

theorem styleClose_style (d : Deco) (st : Style) : ∀ op ∈ styleClose d st, isStyleOp op = true := by
  intro op hop
  unfold styleClose at hop
  simp only [List.mem_append] at hop
  rcases hop with ((hop | hop) | hop) | hop
  · split at hop
    · split at hop <;> simp at hop; subst hop; rfl
    · simp at hop
  · split at hop
    · split at hop <;> simp at hop; subst hop; rfl
    · simp at hop
  · split at hop <;> simp at hop <;> subst hop <;> rfl
  · split at hop <;> simp at hop; subst hop; rfl

/-! ## cells and rows -/

/-- cells: every cell lies inside the `n` columns and its body is total -/
def CellsTot (cfg : Cfg) (d : Deco) (n : Nat) : List Op → Prop
  | [] => True
  | .cell colno span body :: cs => colno < n ∧ colno + span ≤ n ∧ Tot SubR.widthMinus cfg d body ∧ CellsTot cfg d n cs
  | _ :: cs => CellsTot cfg d n cs

def RowsTot (cfg : Cfg) (d : Deco) (n : Nat) : List Op → Prop
  | [] => True
  | .row pre post cells :: rs => (∃ st, pre = styleOpen d st ∧ post = styleClose d st) ∧ CellsTot cfg d n cells ∧ RowsTot cfg d n rs
  | _ :: rs => RowsTot cfg d n rs

theorem sum_take_le (l : List Nat) (k : Nat) : (l.take k).sum ≤ l.sum := by
  have h2 : (l.take k ++ l.drop k).sum = (l.take k).sum + (l.drop k).sum := List.sum_append
  rw [List.take_append_drop] at h2
  omega

theorem runCells_good {d : Deco} : ∀ (cells : List Op) (ws : List Nat) (vert : Bool) (ann : Tag) (links : List (List Ch)),
    CellsTot cfg d ws.length cells →
    Safe cfg.overflow (runCells SubR.widthMinus cfg d ws vert ann links cells) ∧
    ∀ l2 subs, runCells SubR.widthMinus cfg d ws vert ann links cells = .ok (l2, subs) →
      (∀ c ∈ subs, c.Sane cfg) ∧ (vert = false → ws.sum = 0 → subs = []) := by
  intro cells
  induction cells with
  | nil =>
    intro ws vert ann links _
    simp only [runCells]
    exact ⟨Safe.ok _, fun l2 subs e => by injection e with e; simp only [Prod.mk.injEq] at e; obtain ⟨_, rfl⟩ := e; simp⟩
  | cons op cs ih =>
    intro ws vert ann links hct
    cases op
    case cell colno span body =>
      simp only [CellsTot] at hct
      obtain ⟨hlt, hle, hbody, hrest⟩ := hct
      have ihr := ih ws vert ann
      simp only [runCells]
      have hoob : cellOob ws vert colno span = false := by
        unfold cellOob; split <;> simp <;> omega
      simp only [hoob, Bool.false_eq_true, if_false]
      by_cases hz : cellInner ws vert colno span = 0
      · simp only [hz, if_true]
        exact ihr links hrest
      · simp only [hz, if_false]
        have gb := hbody { links := links, cur := ({ width := cellOuter vert (cellInner ws vert colno span) span, annStack := ann } : SubR) } (sane_fresh _ _)
        cases h1 : runOps SubR.widthMinus cfg d { links := links, cur := ({ width := cellOuter vert (cellInner ws vert colno span) span, annStack := ann } : SubR) } body with
        | error e =>
          exact ⟨by intro e' he'; simp [andThen_error_eq] at he'; subst he'; exact gb.1 e h1, by intro l2 subs he'; simp [andThen_error_eq] at he'⟩
        | ok r =>
          simp only [andThen_ok_eq]
          have rs := gb.2 r h1
          obtain ⟨i1, i2⟩ := ihr r.links hrest
          cases h2 : runCells SubR.widthMinus cfg d ws vert ann r.links cs with
          | error e =>
            exact ⟨by intro e' he'; simp [andThen_error_eq] at he'; subst he'; exact i1 e h2, by intro l2 subs he'; simp [andThen_error_eq] at he'⟩
          | ok v =>
            simp only [andThen_ok_eq]
            obtain ⟨j1, j2⟩ := i2 v.1 v.2 (by rw [h2])
            refine ⟨Safe.ok _, ?_⟩
            intro l2 subs e
            injection e with e
            simp only [Prod.mk.injEq] at e
            obtain ⟨_, rfl⟩ := e
            refine ⟨?_, ?_⟩
            · intro c hc
              simp only [List.mem_cons] at hc
              rcases hc with rfl | hc
              · exact rs
              · exact j1 c hc
            · intro hvf hsum
              exfalso
              apply hz
              unfold cellInner
              simp only [hvf, Bool.false_eq_true, if_false]
              have a := sum_take_le (ws.drop colno) span
              have b := sum_drop_le_sum ws colno
              omega
    all_goals (simp only [CellsTot] at hct; simp only [runCells]; exact ih ws vert ann links hct)

theorem getLast?_eq_of_lines {s s' : SubR} (e : s'.lines = s.lines) (h : s.LastRule) : s'.LastRule := by
  unfold SubR.LastRule at *; rw [e]; exact h

theorem runRows_good {d : Deco} : ∀ (rows : List Op) (ws : List Nat) (vert : Bool) (t : RS), RowsTot cfg d ws.length rows →
    t.cur.Sane cfg → t.cur.wrapping = none → (cfg.drawBorders = true → vert = false → ws.sum ≠ 0 → t.cur.LastRule) →
    GoodR cfg (runRows SubR.widthMinus cfg d ws vert t rows) := by
  intro rows
  induction rows with
  | nil => intro ws vert t _ h _ _; simp only [runRows]; exact GoodR.ok h
  | cons r rs ih =>
    intro ws vert t hrt h hn hl
    cases r
    case row pre post cells =>
      simp only [RowsTot] at hrt
      obtain ⟨⟨st, rfl, rfl⟩, hcells, hrest⟩ := hrt
      simp only [runRows]
      have g1 := styleOpen_tot (wm := SubR.widthMinus) (cfg := cfg) (d := d) st t h
      cases h1 : runOps SubR.widthMinus cfg d t (styleOpen d st) with
      | error e => exact ⟨by intro e' he'; simp [andThen_error_eq] at he'; subst he'; exact g1.1 e h1, by intro s' he'; simp [andThen_error_eq] at he'⟩
      | ok t1 =>
        simp only [andThen_ok_eq]
        have t1s := g1.2 t1 h1
        obtain ⟨q1, q2⟩ := styleOps_quiet (cfg := cfg) (d := d) _ (styleOpen_style d st) t t1 h1
        have f1 := styleOpen_eff (wm := SubR.widthMinus) (cfg := cfg) (d := d) st t t1 h1
        obtain ⟨c1, c2⟩ := runCells_good (cfg := cfg) (d := d) cells ws vert t1.cur.annStack t1.links hcells
        cases h2 : runCells SubR.widthMinus cfg d ws vert t1.cur.annStack t1.links cells with
        | error e => exact ⟨by intro e' he'; simp [andThen_error_eq] at he'; subst he'; exact c1 e h2, by intro s' he'; simp [andThen_error_eq] at he'⟩
        | ok v =>
          simp only [andThen_ok_eq]
          obtain ⟨d1, d2⟩ := c2 v.1 v.2 (by rw [h2])
          -- the row itself
          have grow : GoodS cfg (t1.cur.appendRow cfg vert v.2) ∧ ∀ s2, t1.cur.appendRow cfg vert v.2 = .ok s2 →
              s2.wrapping = none ∧ (cfg.drawBorders = true → vert = false → ws.sum ≠ 0 → s2.LastRule) := by
            unfold SubR.appendRow
            by_cases hv : vert = true
            · simp only [hv, if_true]
              exact ⟨appendVertRow_good _ _ t1s d1, fun s2 e => ⟨appendVertRow_none _ s2 _ t1s d1 e, fun _ hf => by simp at hf⟩⟩
            · simp only [hv]
              have hvf : vert = false := by simpa using hv
              by_cases hany : (v.2.any fun c => !c.empty) = true
              · simp only [hany, if_true]
                have hne : v.2 ≠ [] := by intro hh; rw [hh] at hany; simp at hany
                have hsum : ws.sum ≠ 0 := fun hh => hne (d2 hvf hh)
                have := appendColumns_good (cfg := cfg) t1.cur v.2 t1s d1 hne
                  (fun hd => ⟨by rw [q2]; exact hn, getLast?_eq_of_lines q1 (hl hd hvf hsum)⟩)
                exact ⟨this.1, fun s2 e => ⟨(this.2 s2 e).1, fun hd _ _ => (this.2 s2 e).2 hd⟩⟩
              · simp only [hany]
                refine ⟨GoodS.ok t1s, fun s2 e => ?_⟩
                injection e with e; subst e
                exact ⟨by rw [q2]; exact hn, fun hd _ hs => getLast?_eq_of_lines q1 (hl hd hvf hs)⟩
          cases h3 : t1.cur.appendRow cfg vert v.2 with
          | error e => exact ⟨by intro e' he'; simp [andThen_error_eq] at he'; subst he'; exact grow.1.1 e h3, by intro s' he'; simp [andThen_error_eq] at he'⟩
          | ok s2 =>
            simp only [andThen_ok_eq]
            have s2s := grow.1.2 s2 h3
            obtain ⟨n2, l2⟩ := grow.2 s2 h3
            have f2 := appendRow_ff t1.cur s2 cfg vert v.2 h3
            have g4 := styleClose_tot (wm := SubR.widthMinus) (cfg := cfg) (d := d) st { links := v.1, cur := s2 } s2s (by
              intro hpr
              show 0 < s2.preDepth
              have : s2.ff.2.1 = (openFF d st t.cur.ff).2.1 := by rw [f2, f1]
              have e : s2.preDepth = (openFF d st t.cur.ff).2.1 := this
              rw [e]; simp [openFF, hpr])
            cases h4 : runOps SubR.widthMinus cfg d { links := v.1, cur := s2 } (styleClose d st) with
            | error e => exact ⟨by intro e' he'; simp [andThen_error_eq] at he'; subst he'; exact g4.1 e h4, by intro s' he'; simp [andThen_error_eq] at he'⟩
            | ok t3 =>
              simp only [andThen_ok_eq]
              obtain ⟨q3, q4⟩ := styleOps_quiet (cfg := cfg) (d := d) _ (styleClose_style d st) _ t3 h4
              exact ih ws vert t3 hrest (g4.2 t3 h4) (by rw [q4]; exact n2)
                (fun hd hf hs => getLast?_eq_of_lines q3 (l2 hd hf hs))
    all_goals (simp only [RowsTot] at hrt; simp only [runRows]; exact ih ws vert t hrt h hn hl)

/-- a table is total when its rows are -/
theorem Tot.table {d : Deco} (cols : List SizeEst) (rows : List Op) (hr : RowsTot cfg d cols.length rows) :
    Tot SubR.widthMinus cfg d [.table cols rows] := by
  intro t h
  simp only [runOps, runOp]
  obtain ⟨ws, vert, tw, ha, hlen, htw⟩ := allocCols_total' cfg t.cur.width cols
  simp only [ha, andThen_ok_eq]
  have g2 := startBlock_good t.cur h
  cases h2 : t.cur.startBlock with
  | error e => exact ⟨by intro e' he'; simp [andThen_error_eq] at he'; subst he'; exact g2.1 e h2, by intro s' he'; simp [andThen_error_eq] at he'⟩
  | ok s1 =>
    simp only [andThen_ok_eq]
    have s1s := g2.2 s1 h2
    have n1 := startBlock_none t.cur s1 h h2
    obtain ⟨g3, g3'⟩ := tableTop_good (cfg := cfg) s1 tw s1s
    cases h3 : s1.tableTop cfg tw with
    | error e => exact ⟨by intro e' he'; simp [andThen_error_eq] at he'; subst he'; exact g3.1 e h3, by intro s' he'; simp [andThen_error_eq] at he'⟩
    | ok s3 =>
      simp only [andThen_ok_eq]
      obtain ⟨k1, k2⟩ := g3' s3 h3
      have := runRows_good (cfg := cfg) (d := d) rows ws vert { t with cur := s3 } (by rw [hlen]; exact hr) (g3.2 s3 h3) (k1 n1)
        (fun hd hvf hs => (k2 hd (by have := htw hvf; omega)).2)
      exact this.andThen fun t' _ h' => GoodR.ok h'

/-! ## every render tree whose tables keep their cells inside their columns -/

theorem foldl_modify_length {α : Type} (f : Nat → α → α) (l : List Nat) : ∀ (acc : List α),
    (l.foldl (fun a i => a.modify i (f i)) acc).length = acc.length := by
  induction l with
  | nil => intro acc; rfl
  | cons x l ih => intro acc; simp only [List.foldl_cons]; rw [ih]; simp

theorem rowColsMax_length (cfg : Cfg) (d : Deco) : ∀ (cells : List RNode) (colno : Nat) (acc : List SizeEst),
    (rowColsMax cfg d cells colno acc).length = acc.length := by
  intro cells
  induction cells with
  | nil => intro colno acc; simp [rowColsMax]
  | cons c cs ih =>
    intro colno acc
    cases c <;> simp only [rowColsMax] <;> try exact ih _ _
    rw [ih]
    generalize (List.range _) = l
    induction l generalizing acc with
    | nil => rfl
    | cons x l ihl => simp only [List.foldl_cons]; rw [ihl]; simp

theorem tableColsMax_length (cfg : Cfg) (d : Deco) : ∀ (rows : List RNode) (acc : List SizeEst),
    (tableColsMax cfg d rows acc).length = acc.length := by
  intro rows
  induction rows with
  | nil => intro acc; simp [tableColsMax]
  | cons r rs ih =>
    intro acc
    cases r <;> simp only [tableColsMax] <;> try exact ih _
    rw [ih, rowColsMax_length]

mutual
theorem compile_totT (cfg : Cfg) (d : Deco) : (n : RNode) → tableOk n = true → Tot SubR.widthMinus cfg d (compile cfg d n)
  | .text st s, _ => compile_tot cfg d (.text st s) rfl
  | .img st a b, _ => compile_tot cfg d (.img st a b) rfl
  | .br st, _ => compile_tot cfg d (.br st) rfl
  | .frag n, _ => compile_tot cfg d (.frag n) rfl
  | .row a b, _ => compile_tot cfg d (.row a b) rfl
  | .tbody a b, _ => compile_tot cfg d (.tbody a b) rfl
  | .box st k kids, h => by
    simp only [tableOk] at h
    have hb := compileList_totT cfg d kids h
    have hfb := compileList_frame SubR.widthMinus cfg d kids
    cases k <;> simp only [compile] <;> apply Tot.styled st
    case container => exact hb
    case container => exact hfb
    case link href => exact Tot.bracket _ _ rfl (by simp) rfl (by simp) hb
    case link href => exact Eff.bracket _ _ (by simp) (by simp) (by simp) (by simp) (by intro f; simp [opEffect]) hfb
    case em => exact Tot.bracket _ _ rfl (by simp) rfl (by simp) hb
    case em => exact Eff.bracket _ _ (by simp) (by simp) (by simp) (by simp) (by intro f; simp [opEffect]) hfb
    case strong => exact Tot.bracket _ _ rfl (by simp) rfl (by simp) hb
    case strong => exact Eff.bracket _ _ (by simp) (by simp) (by simp) (by simp) (by intro f; simp [opEffect]) hfb
    case strike => exact Tot.bracket _ _ rfl (by simp) rfl (by simp) hb
    case strike =>
      exact Eff.bracket _ _ (by simp) (by simp) (by simp) (by simp) (by
        intro f; obtain ⟨a, p, w, fd, wd⟩ := f
        by_cases hu : cfg.unicodeStrike = true <;> simp [opEffect, hu]) hfb
    case code => exact Tot.bracket _ _ rfl (by simp) rfl (by simp) hb
    case code => exact Eff.bracket _ _ (by simp) (by simp) (by simp) (by simp) (by intro f; simp [opEffect]) hfb
    case block => exact Tot.bracket _ _ rfl (by simp) rfl (by simp) hb
    case block => exact Eff.bracket _ _ (by simp) (by simp) (by simp) (by simp) (by intro f; simp [opEffect]) hfb
    case li => exact Tot.bracket _ _ rfl (by simp) rfl (by simp) hb
    case li => exact Eff.bracket _ _ (by simp) (by simp) (by simp) (by simp) (by intro f; simp [opEffect]) hfb
    case header lvl => exact Tot.sub _ _ _ _ _ hb
    case header lvl => exact Eff.sub _ _ _ _ _ _
    case div => exact Tot.bracket _ _ rfl (by simp) rfl (by simp) hb
    case div => exact Eff.bracket _ _ (by simp) (by simp) (by simp) (by simp) (by intro f; simp [opEffect]) hfb
    case quote => exact Tot.sub _ _ _ _ _ hb
    case quote => exact Eff.sub _ _ _ _ _ _
    case ul => exact compileItems_totT cfg d _ _ _ _ 0 kids h
    case ul => exact compileItems_frame SubR.widthMinus cfg d _ _ _ _ 0 kids
    case ol start => exact compileItems_totT cfg d _ _ _ _ 0 kids h
    case ol start => exact compileItems_frame SubR.widthMinus cfg d _ _ _ _ 0 kids
    case dl => exact (Tot.simple .startBlock rfl (by simp)).append hb
    case dl => exact Eff.id_append ((Eff.simple .startBlock (by simp) (by simp)).congr (by intro x; rfl)) hfb
    case dt =>
      have := (Tot.simple (wm := SubR.widthMinus) (cfg := cfg) (d := d) .newLine rfl (by simp)).append
        (Tot.bracket (.startAnn .em d.emStart false) (.endAnn d.emEnd false) rfl (by simp) rfl (by simp) hb)
      simpa [List.append_assoc] using this
    case dt =>
      have h1 : Eff SubR.widthMinus cfg d [Op.newLine] id := (Eff.simple .newLine (by simp) (by simp)).congr (by intro x; rfl)
      have h2 := Eff.bracket (wm := SubR.widthMinus) (cfg := cfg) (d := d) (.startAnn .em d.emStart false) (.endAnn d.emEnd false)
        (by simp) (by simp) (by simp) (by simp) (by intro f; simp [opEffect]) hfb
      have := Eff.id_append h1 h2
      simpa [List.append_assoc] using this
    case dd => exact Tot.sub _ _ _ _ _ hb
    case dd => exact Eff.sub _ _ _ _ _ _
    case sup =>
      split
      · exact Tot.simple (.text _) rfl (by simp)
      · exact Tot.bracket _ _ rfl (by simp) rfl (by simp) hb
    case sup =>
      split
      · exact (Eff.simple (.text _) (by simp) (by simp)).congr (by intro x; rfl)
      · exact Eff.bracket _ _ (by simp) (by simp) (by simp) (by simp) (by intro f; simp [opEffect]) hfb
  | .cell st _ kids, h => by
    simp only [tableOk] at h
    simp only [compile]
    exact Tot.styled st (compileList_totT cfg d kids h) (compileList_frame SubR.widthMinus cfg d kids)
  | .table st rows n, h => by
    simp only [tableOk] at h
    simp only [compile]
    apply Tot.styled st
    · apply Tot.table
      rw [tableColsMax_length]; simp only [List.length_replicate]
      exact compileRows_totT cfg d n rows h
    · exact Eff.table _ _ (compileRows_bal SubR.widthMinus cfg d rows)
theorem compileList_totT (cfg : Cfg) (d : Deco) : (ns : List RNode) → tableOkL ns = true → Tot SubR.widthMinus cfg d (compileList cfg d ns)
  | [], _ => by simp only [compileList]; exact Tot.nil
  | n :: ns, h => by
    simp only [tableOkL, Bool.and_eq_true] at h
    simp only [compileList]
    exact (compile_totT cfg d n h.1).append (compileList_totT cfg d ns h.2)
theorem compileItems_totT (cfg : Cfg) (d : Deco) (pw minW : Nat) (first : Nat → List Ch) (rest : List Ch) :
    (i : Nat) → (ns : List RNode) → tableOkL ns = true → Tot SubR.widthMinus cfg d (compileItems cfg d pw minW first rest i ns)
  | _, [], _ => by simp only [compileItems]; exact Tot.nil
  | i, n :: ns, h => by
    simp only [tableOkL, Bool.and_eq_true] at h
    simp only [compileItems]
    have := (Tot.sub pw minW (first i) rest false (compile_totT cfg d n h.1)).append (compileItems_totT cfg d pw minW first rest (i + 1) ns h.2)
    simpa using this
theorem compileRows_totT (cfg : Cfg) (d : Deco) (n : Nat) : (rows : List RNode) → rowsOk n rows = true → RowsTot cfg d n (compileRows cfg d rows)
  | [], _ => by simp [compileRows, RowsTot]
  | .row st cells :: rs, h => by
    simp only [rowsOk, Bool.and_eq_true] at h
    simp only [compileRows, RowsTot]
    exact ⟨⟨st, rfl, rfl⟩, compileCells_totT cfg d n 0 0 cells (Nat.le_refl _) h.1, compileRows_totT cfg d n rs h.2⟩
  | .text _ _ :: rs, h => by simp only [rowsOk] at h; simp only [compileRows]; exact compileRows_totT cfg d n rs h
  | .img _ _ _ :: rs, h => by simp only [rowsOk] at h; simp only [compileRows]; exact compileRows_totT cfg d n rs h
  | .br _ :: rs, h => by simp only [rowsOk] at h; simp only [compileRows]; exact compileRows_totT cfg d n rs h
  | .frag _ :: rs, h => by simp only [rowsOk] at h; simp only [compileRows]; exact compileRows_totT cfg d n rs h
  | .box _ _ _ :: rs, h => by simp only [rowsOk] at h; simp only [compileRows]; exact compileRows_totT cfg d n rs h
  | .cell _ _ _ :: rs, h => by simp only [rowsOk] at h; simp only [compileRows]; exact compileRows_totT cfg d n rs h
  | .tbody _ _ :: rs, h => by simp only [rowsOk] at h; simp only [compileRows]; exact compileRows_totT cfg d n rs h
  | .table _ _ _ :: rs, h => by simp only [rowsOk] at h; simp only [compileRows]; exact compileRows_totT cfg d n rs h
theorem compileCells_totT (cfg : Cfg) (d : Deco) (n : Nat) : (colno used : Nat) → (cells : List RNode) → colno ≤ used →
    cellsOk n used cells = true → CellsTot cfg d n (compileCells cfg d colno cells)
  | _, _, [], _, _ => by simp [compileCells, CellsTot]
  | colno, used, .cell st span kids :: cs, hle, h => by
    simp only [cellsOk, Bool.and_eq_true, decide_eq_true_eq] at h
    obtain ⟨⟨h1, h2⟩, h3⟩ := h
    simp only [compileCells, CellsTot]
    refine ⟨by omega, by omega, ?_, compileCells_totT cfg d n (colno + span) (used + max span 1) cs (by omega) h3⟩
    exact Tot.styled st (compileList_totT cfg d kids h2) (compileList_frame SubR.widthMinus cfg d kids)
  | colno, used, .text _ _ :: cs, hle, h => by simp only [cellsOk] at h; simp only [compileCells]; exact compileCells_totT cfg d n colno used cs hle h
  | colno, used, .img _ _ _ :: cs, hle, h => by simp only [cellsOk] at h; simp only [compileCells]; exact compileCells_totT cfg d n colno used cs hle h
  | colno, used, .br _ :: cs, hle, h => by simp only [cellsOk] at h; simp only [compileCells]; exact compileCells_totT cfg d n colno used cs hle h
  | colno, used, .frag _ :: cs, hle, h => by simp only [cellsOk] at h; simp only [compileCells]; exact compileCells_totT cfg d n colno used cs hle h
  | colno, used, .box _ _ _ :: cs, hle, h => by simp only [cellsOk] at h; simp only [compileCells]; exact compileCells_totT cfg d n colno used cs hle h
  | colno, used, .row _ _ :: cs, hle, h => by simp only [cellsOk] at h; simp only [compileCells]; exact compileCells_totT cfg d n colno used cs hle h
  | colno, used, .tbody _ _ :: cs, hle, h => by simp only [cellsOk] at h; simp only [compileCells]; exact compileCells_totT cfg d n colno used cs hle h
  | colno, used, .table _ _ _ :: cs, hle, h => by simp only [cellsOk] at h; simp only [compileCells]; exact compileCells_totT cfg d n colno used cs hle h
end

/-- **C01 for the render phase**: rendering any tree whose tables keep their cells inside their columns returns lines or
    `TooNarrow` — never a panic, never a hang — for every configuration, decorator and width; and `TooNarrow` only at
    width 0 or when overflow is not allowed (C11: with `allow_width_overflow` every document renders at every width ≥ 1) -/
theorem renderTree_total (cfg : Cfg) (d : Deco) (w : Nat) (tree : RNode) (h : tableOk tree = true) :
    Safe (cfg.overflow && decide (w ≠ 0)) (renderTree cfg d w tree) := by
  unfold renderTree
  split
  · rename_i hw; exact Safe.narrow (by simp [hw])
  · rename_i hw
    have hc : (cfg.overflow && decide (w ≠ 0)) = cfg.overflow := by simp [hw]
    rw [hc]
    have g := compile_totT cfg d tree h { cur := { width := w } } (sane_fresh _ _)
    apply Safe.andThen g.1
    intro t ht
    have st := g.2 t ht
    simp only
    split
    · exact intoLines_safe _ st
    · apply Safe.andThen (startBlock_good _ st).1
      intro s1 hs1
      have s1s := (startBlock_good _ st).2 s1 hs1
      exact intoLines_safe _ (addLines_sane s1 _ s1s (fun _ l hl => by simp at hl; obtain ⟨a, _, rfl⟩ := hl; rfl))

end H2T
