import H2T.Lemmas.Balance

/-! With footnotes off the link list is write-only: the sub-renderer states a run produces do not depend on the link list it
    starts from.  (Used by C07's compositional theorem for lists, whose items are rendered one after the other while the
    link list is threaded through them.) -/

namespace H2T

/-- the same run started from another link list: same current sub-renderer, some other link list -/
def SameCur (r r' : Except Err RS) : Prop :=
  match r, r' with
  | .ok t, .ok t' => t'.cur = t.cur
  | .error e, .error e' => e' = e
  | _, _ => False

theorem SameCur.ok_iff {t : RS} {r' : Except Err RS} (h : SameCur (.ok t) r') : ∃ t', r' = .ok t' ∧ t'.cur = t.cur := by
  cases r' with
  | ok t' => exact ⟨t', rfl, h⟩
  | error e => exact absurd h (by simp [SameCur])

theorem onCur_links_irrel (t : RS) (L : List (List Ch)) (f : SubR → Except Err SubR) :
    SameCur (t.onCur f) (({ t with links := L } : RS).onCur f) := by
  unfold RS.onCur
  show SameCur (andThen (f t.cur) _) (andThen (f t.cur) _)
  cases f t.cur with
  | error e => simp [andThen, SameCur]
  | ok s => simp [andThen, SameCur]

theorem stepSimple_links_irrel (cfg : Cfg) (d : Deco) (hfn : cfg.footnotes = false) (t : RS) (L : List (List Ch)) (op : Op) :
    SameCur (stepSimple cfg d t op) (stepSimple cfg d { t with links := L } op) := by
  cases op <;> simp only [stepSimple]
  case startLink href => exact onCur_links_irrel { t with links := t.links ++ [href] } (L ++ [href]) _
  case endLink =>
    rw [hfn]
    simp only [Bool.false_eq_true, if_false]
    have := onCur_links_irrel t L (fun s => andThen (s.addInlineText cfg d.linkEnd d.annOf) fun s' => Except.ok { s' with annStack := s'.annStack.dropLast })
    revert this
    cases (t.onCur fun s => andThen (s.addInlineText cfg d.linkEnd d.annOf) fun s' => Except.ok { s' with annStack := s'.annStack.dropLast }) <;>
      cases (({ t with links := L } : RS).onCur fun s => andThen (s.addInlineText cfg d.linkEnd d.annOf) fun s' => Except.ok { s' with annStack := s'.annStack.dropLast }) <;>
      simp [SameCur, andThen]
  case sub => simp [SameCur]
  case table => simp [SameCur]
  case row => simp [SameCur]
  case cell => simp [SameCur]
  all_goals exact onCur_links_irrel t L _

mutual
theorem runOp_links_irrel (wm : SubR → Cfg → Nat → Nat → Except Err Nat) (cfg : Cfg) (d : Deco) (hfn : cfg.footnotes = false) :
    (op : Op) → (t : RS) → (L : List (List Ch)) → SameCur (runOp wm cfg d t op) (runOp wm cfg d { t with links := L } op)
  | .sub p m first rest asBlock body, t, L => by
    simp only [runOp]
    cases e1 : wm t.cur cfg p m with
    | error e => simp [andThen_error_eq, SameCur]
    | ok w =>
      simp only [andThen_ok_eq]
      have hb := runOps_links_irrel wm cfg d hfn body { links := t.links, cur := ({ width := w, annStack := t.cur.annStack } : SubR) } L
      revert hb
      cases e2 : runOps wm cfg d { links := t.links, cur := ({ width := w, annStack := t.cur.annStack } : SubR) } body with
      | error e =>
        intro hb
        cases e2' : runOps wm cfg d { links := L, cur := ({ width := w, annStack := t.cur.annStack } : SubR) } body with
        | error e' => rw [e2'] at hb; simp only [SameCur] at hb; subst hb; simp [andThen_error_eq, SameCur]
        | ok r' => rw [e2'] at hb; simp [SameCur] at hb
      | ok r =>
        intro hb
        obtain ⟨r', e2', hc⟩ := hb.ok_iff
        have e2'' : runOps wm cfg d { links := L, cur := ({ width := w, annStack := t.cur.annStack } : SubR) } body = .ok r' := e2'
        rw [e2'']
        simp only [andThen_ok_eq]
        cases e3 : (if asBlock = true then t.cur.startBlock else Except.ok t.cur) with
        | error e => simp [andThen_error_eq, SameCur]
        | ok s1 =>
          simp only [andThen_ok_eq, hc]
          cases e4 : s1.appendSub r.cur first rest with
          | error e => simp [andThen_error_eq, SameCur]
          | ok s2 => simp [andThen_ok_eq, SameCur]
  | .table cols rows, t, L => by
    simp only [runOp]
    cases e1 : allocCols cfg t.cur.width cols with
    | error e => simp [andThen_error_eq, SameCur]
    | ok v =>
      simp only [andThen_ok_eq]
      cases e2 : t.cur.startBlock with
      | error e => simp [andThen_error_eq, SameCur]
      | ok s1 =>
        simp only [andThen_ok_eq]
        cases e3 : s1.tableTop cfg v.2.2 with
        | error e => simp [andThen_error_eq, SameCur]
        | ok s3 =>
          simp only [andThen_ok_eq]
          exact runRows_links_irrel wm cfg d hfn rows v.1 v.2.1 { t with cur := s3 } L
  | .row _ _ _, t, L => by simp [runOp, SameCur]
  | .cell _ _ _, t, L => by simp [runOp, SameCur]
  | .pushWs ws, t, L => by simp only [runOp]; exact stepSimple_links_irrel cfg d hfn t L _
  | .popWs, t, L => by simp only [runOp]; exact stepSimple_links_irrel cfg d hfn t L _
  | .pushPre, t, L => by simp only [runOp]; exact stepSimple_links_irrel cfg d hfn t L _
  | .popPre, t, L => by simp only [runOp]; exact stepSimple_links_irrel cfg d hfn t L _
  | .pushAnn a, t, L => by simp only [runOp]; exact stepSimple_links_irrel cfg d hfn t L _
  | .popAnn, t, L => by simp only [runOp]; exact stepSimple_links_irrel cfg d hfn t L _
  | .text x, t, L => by simp only [runOp]; exact stepSimple_links_irrel cfg d hfn t L _
  | .frag n, t, L => by simp only [runOp]; exact stepSimple_links_irrel cfg d hfn t L _
  | .startLink hh, t, L => by simp only [runOp]; exact stepSimple_links_irrel cfg d hfn t L _
  | .endLink, t, L => by simp only [runOp]; exact stepSimple_links_irrel cfg d hfn t L _
  | .startAnn a x s, t, L => by simp only [runOp]; exact stepSimple_links_irrel cfg d hfn t L _
  | .endAnn x s, t, L => by simp only [runOp]; exact stepSimple_links_irrel cfg d hfn t L _
  | .image a b, t, L => by simp only [runOp]; exact stepSimple_links_irrel cfg d hfn t L _
  | .startBlock, t, L => by simp only [runOp]; exact stepSimple_links_irrel cfg d hfn t L _
  | .endBlock, t, L => by simp only [runOp]; exact stepSimple_links_irrel cfg d hfn t L _
  | .newLine, t, L => by simp only [runOp]; exact stepSimple_links_irrel cfg d hfn t L _
  | .newLineHard, t, L => by simp only [runOp]; exact stepSimple_links_irrel cfg d hfn t L _
theorem runOps_links_irrel (wm : SubR → Cfg → Nat → Nat → Except Err Nat) (cfg : Cfg) (d : Deco) (hfn : cfg.footnotes = false) :
    (ops : List Op) → (t : RS) → (L : List (List Ch)) → SameCur (runOps wm cfg d t ops) (runOps wm cfg d { t with links := L } ops)
  | [], t, L => by simp [runOps, SameCur]
  | op :: ops, t, L => by
    simp only [runOps]
    have h1 := runOp_links_irrel wm cfg d hfn op t L
    revert h1
    cases e1 : runOp wm cfg d t op with
    | error e =>
      intro h1
      cases e1' : runOp wm cfg d { t with links := L } op with
      | error e' => rw [e1'] at h1; simp only [SameCur] at h1; subst h1; simp [andThen_error_eq, SameCur]
      | ok r' => rw [e1'] at h1; simp [SameCur] at h1
    | ok t1 =>
      intro h1
      obtain ⟨t1', e1', hc⟩ := h1.ok_iff
      rw [e1']
      simp only [andThen_ok_eq]
      have : t1' = { t1 with links := t1'.links } := by cases t1'; cases t1; simp_all
      rw [this]
      exact runOps_links_irrel wm cfg d hfn ops t1 t1'.links
theorem runRows_links_irrel (wm : SubR → Cfg → Nat → Nat → Except Err Nat) (cfg : Cfg) (d : Deco) (hfn : cfg.footnotes = false) :
    (rows : List Op) → (ws : List Nat) → (vert : Bool) → (t : RS) → (L : List (List Ch)) →
    SameCur (runRows wm cfg d ws vert t rows) (runRows wm cfg d ws vert { t with links := L } rows)
  | [], ws, vert, t, L => by simp [runRows, SameCur]
  | .row pre post cells :: rs, ws, vert, t, L => by
    simp only [runRows]
    have h1 := runOps_links_irrel wm cfg d hfn pre t L
    revert h1
    cases e1 : runOps wm cfg d t pre with
    | error e =>
      intro h1
      cases e1' : runOps wm cfg d { t with links := L } pre with
      | error e' => rw [e1'] at h1; simp only [SameCur] at h1; subst h1; simp [andThen_error_eq, SameCur]
      | ok r' => rw [e1'] at h1; simp [SameCur] at h1
    | ok t1 =>
      intro h1
      obtain ⟨t1', e1', hc⟩ := h1.ok_iff
      rw [e1']
      simp only [andThen_ok_eq, hc]
      have h2 := runCells_links_irrel wm cfg d hfn cells ws vert t1.cur.annStack t1.links t1'.links
      revert h2
      cases e2 : runCells wm cfg d ws vert t1.cur.annStack t1.links cells with
      | error e =>
        intro h2
        cases e2' : runCells wm cfg d ws vert t1.cur.annStack t1'.links cells with
        | error e' => rw [e2'] at h2; simp only at h2; subst h2; simp [andThen_error_eq, SameCur]
        | ok v' => rw [e2'] at h2; simp at h2
      | ok v =>
        intro h2
        cases e2' : runCells wm cfg d ws vert t1.cur.annStack t1'.links cells with
        | error e' => rw [e2'] at h2; simp at h2
        | ok v' =>
          rw [e2'] at h2
          simp only at h2
          simp only [andThen_ok_eq, h2]
          cases e3 : t1.cur.appendRow cfg vert v.2 with
          | error e => simp [andThen_error_eq, SameCur]
          | ok s2 =>
            simp only [andThen_ok_eq]
            have h4 := runOps_links_irrel wm cfg d hfn post { links := v.1, cur := s2 } v'.1
            revert h4
            cases e4 : runOps wm cfg d { links := v.1, cur := s2 } post with
            | error e =>
              intro h4
              cases e4' : runOps wm cfg d { links := v'.1, cur := s2 } post with
              | error e' => rw [e4'] at h4; simp only [SameCur] at h4; subst h4; simp [andThen_error_eq, SameCur]
              | ok r' => rw [e4'] at h4; simp [SameCur] at h4
            | ok t3 =>
              intro h4
              obtain ⟨t3', e4', hc3⟩ := h4.ok_iff
              have e4'' : runOps wm cfg d { links := v'.1, cur := s2 } post = .ok t3' := e4'
              rw [e4'']
              simp only [andThen_ok_eq]
              have : t3' = { t3 with links := t3'.links } := by cases t3'; cases t3; simp_all
              rw [this]
              exact runRows_links_irrel wm cfg d hfn rs ws vert t3 t3'.links
  | .sub .. :: rs, ws, vert, t, L => by simp only [runRows]; exact runRows_links_irrel wm cfg d hfn rs ws vert t L
  | .table .. :: rs, ws, vert, t, L => by simp only [runRows]; exact runRows_links_irrel wm cfg d hfn rs ws vert t L
  | .cell .. :: rs, ws, vert, t, L => by simp only [runRows]; exact runRows_links_irrel wm cfg d hfn rs ws vert t L
  | .pushWs _ :: rs, ws, vert, t, L => by simp only [runRows]; exact runRows_links_irrel wm cfg d hfn rs ws vert t L
  | .popWs :: rs, ws, vert, t, L => by simp only [runRows]; exact runRows_links_irrel wm cfg d hfn rs ws vert t L
  | .pushPre :: rs, ws, vert, t, L => by simp only [runRows]; exact runRows_links_irrel wm cfg d hfn rs ws vert t L
  | .popPre :: rs, ws, vert, t, L => by simp only [runRows]; exact runRows_links_irrel wm cfg d hfn rs ws vert t L
  | .pushAnn _ :: rs, ws, vert, t, L => by simp only [runRows]; exact runRows_links_irrel wm cfg d hfn rs ws vert t L
  | .popAnn :: rs, ws, vert, t, L => by simp only [runRows]; exact runRows_links_irrel wm cfg d hfn rs ws vert t L
  | .text _ :: rs, ws, vert, t, L => by simp only [runRows]; exact runRows_links_irrel wm cfg d hfn rs ws vert t L
  | .frag _ :: rs, ws, vert, t, L => by simp only [runRows]; exact runRows_links_irrel wm cfg d hfn rs ws vert t L
  | .startLink _ :: rs, ws, vert, t, L => by simp only [runRows]; exact runRows_links_irrel wm cfg d hfn rs ws vert t L
  | .endLink :: rs, ws, vert, t, L => by simp only [runRows]; exact runRows_links_irrel wm cfg d hfn rs ws vert t L
  | .startAnn .. :: rs, ws, vert, t, L => by simp only [runRows]; exact runRows_links_irrel wm cfg d hfn rs ws vert t L
  | .endAnn .. :: rs, ws, vert, t, L => by simp only [runRows]; exact runRows_links_irrel wm cfg d hfn rs ws vert t L
  | .image .. :: rs, ws, vert, t, L => by simp only [runRows]; exact runRows_links_irrel wm cfg d hfn rs ws vert t L
  | .startBlock :: rs, ws, vert, t, L => by simp only [runRows]; exact runRows_links_irrel wm cfg d hfn rs ws vert t L
  | .endBlock :: rs, ws, vert, t, L => by simp only [runRows]; exact runRows_links_irrel wm cfg d hfn rs ws vert t L
  | .newLine :: rs, ws, vert, t, L => by simp only [runRows]; exact runRows_links_irrel wm cfg d hfn rs ws vert t L
  | .newLineHard :: rs, ws, vert, t, L => by simp only [runRows]; exact runRows_links_irrel wm cfg d hfn rs ws vert t L
/-- the cells' renderers do not depend on the link list either -/
theorem runCells_links_irrel (wm : SubR → Cfg → Nat → Nat → Except Err Nat) (cfg : Cfg) (d : Deco) (hfn : cfg.footnotes = false) :
    (cells : List Op) → (ws : List Nat) → (vert : Bool) → (ann : Tag) → (L1 L2 : List (List Ch)) →
    (match runCells wm cfg d ws vert ann L1 cells, runCells wm cfg d ws vert ann L2 cells with
      | .ok v, .ok v' => v'.2 = v.2
      | .error e, .error e' => e' = e
      | _, _ => False)
  | [], ws, vert, ann, L1, L2 => by simp [runCells]
  | .cell colno span body :: cs, ws, vert, ann, L1, L2 => by
    simp only [runCells]
    by_cases hoob : cellOob ws vert colno span = true
    · rw [if_pos hoob, if_pos hoob]
    · rw [if_neg hoob, if_neg hoob]
      by_cases hz : cellInner ws vert colno span = 0
      · rw [if_pos hz, if_pos hz]; exact runCells_links_irrel wm cfg d hfn cs ws vert ann L1 L2
      · rw [if_neg hz, if_neg hz]
        have h1 := runOps_links_irrel wm cfg d hfn body { links := L1, cur := ({ width := cellOuter vert (cellInner ws vert colno span) span, annStack := ann } : SubR) } L2
        revert h1
        cases e1 : runOps wm cfg d { links := L1, cur := ({ width := cellOuter vert (cellInner ws vert colno span) span, annStack := ann } : SubR) } body with
        | error e =>
          intro h1
          cases e1' : runOps wm cfg d { links := L2, cur := ({ width := cellOuter vert (cellInner ws vert colno span) span, annStack := ann } : SubR) } body with
          | error e' => rw [e1'] at h1; simp only [SameCur] at h1; subst h1; simp [andThen_error_eq]
          | ok r' => rw [e1'] at h1; simp [SameCur] at h1
        | ok r =>
          intro h1
          obtain ⟨r', e1', hc⟩ := h1.ok_iff
          have e1'' : runOps wm cfg d { links := L2, cur := ({ width := cellOuter vert (cellInner ws vert colno span) span, annStack := ann } : SubR) } body = .ok r' := e1'
          rw [e1'']
          simp only [andThen_ok_eq]
          have h2 := runCells_links_irrel wm cfg d hfn cs ws vert ann r.links r'.links
          revert h2
          cases e2 : runCells wm cfg d ws vert ann r.links cs with
          | error e =>
            cases e2' : runCells wm cfg d ws vert ann r'.links cs with
            | error e' => intro h2; simp only at h2; subst h2; simp [andThen_error_eq]
            | ok v' => intro h2; simp at h2
          | ok v =>
            cases e2' : runCells wm cfg d ws vert ann r'.links cs with
            | error e' => intro h2; simp at h2
            | ok v' => intro h2; simp only at h2; simp [andThen_ok_eq, h2, hc]
  | .sub .. :: cs, ws, vert, ann, L1, L2 => by simp only [runCells]; exact runCells_links_irrel wm cfg d hfn cs ws vert ann L1 L2
  | .table .. :: cs, ws, vert, ann, L1, L2 => by simp only [runCells]; exact runCells_links_irrel wm cfg d hfn cs ws vert ann L1 L2
  | .row .. :: cs, ws, vert, ann, L1, L2 => by simp only [runCells]; exact runCells_links_irrel wm cfg d hfn cs ws vert ann L1 L2
  | .pushWs _ :: cs, ws, vert, ann, L1, L2 => by simp only [runCells]; exact runCells_links_irrel wm cfg d hfn cs ws vert ann L1 L2
  | .popWs :: cs, ws, vert, ann, L1, L2 => by simp only [runCells]; exact runCells_links_irrel wm cfg d hfn cs ws vert ann L1 L2
  | .pushPre :: cs, ws, vert, ann, L1, L2 => by simp only [runCells]; exact runCells_links_irrel wm cfg d hfn cs ws vert ann L1 L2
  | .popPre :: cs, ws, vert, ann, L1, L2 => by simp only [runCells]; exact runCells_links_irrel wm cfg d hfn cs ws vert ann L1 L2
  | .pushAnn _ :: cs, ws, vert, ann, L1, L2 => by simp only [runCells]; exact runCells_links_irrel wm cfg d hfn cs ws vert ann L1 L2
  | .popAnn :: cs, ws, vert, ann, L1, L2 => by simp only [runCells]; exact runCells_links_irrel wm cfg d hfn cs ws vert ann L1 L2
  | .text _ :: cs, ws, vert, ann, L1, L2 => by simp only [runCells]; exact runCells_links_irrel wm cfg d hfn cs ws vert ann L1 L2
  | .frag _ :: cs, ws, vert, ann, L1, L2 => by simp only [runCells]; exact runCells_links_irrel wm cfg d hfn cs ws vert ann L1 L2
  | .startLink _ :: cs, ws, vert, ann, L1, L2 => by simp only [runCells]; exact runCells_links_irrel wm cfg d hfn cs ws vert ann L1 L2
  | .endLink :: cs, ws, vert, ann, L1, L2 => by simp only [runCells]; exact runCells_links_irrel wm cfg d hfn cs ws vert ann L1 L2
  | .startAnn .. :: cs, ws, vert, ann, L1, L2 => by simp only [runCells]; exact runCells_links_irrel wm cfg d hfn cs ws vert ann L1 L2
  | .endAnn .. :: cs, ws, vert, ann, L1, L2 => by simp only [runCells]; exact runCells_links_irrel wm cfg d hfn cs ws vert ann L1 L2
  | .image .. :: cs, ws, vert, ann, L1, L2 => by simp only [runCells]; exact runCells_links_irrel wm cfg d hfn cs ws vert ann L1 L2
  | .startBlock :: cs, ws, vert, ann, L1, L2 => by simp only [runCells]; exact runCells_links_irrel wm cfg d hfn cs ws vert ann L1 L2
  | .endBlock :: cs, ws, vert, ann, L1, L2 => by simp only [runCells]; exact runCells_links_irrel wm cfg d hfn cs ws vert ann L1 L2
  | .newLine :: cs, ws, vert, ann, L1, L2 => by simp only [runCells]; exact runCells_links_irrel wm cfg d hfn cs ws vert ann L1 L2
  | .newLineHard :: cs, ws, vert, ann, L1, L2 => by simp only [runCells]; exact runCells_links_irrel wm cfg d hfn cs ws vert ann L1 L2
end

end H2T
