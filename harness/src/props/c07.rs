//! C07: lists, quotes, headings prefix every line; ordered items count from start.

use super::common::*;
use crate::cfg::Cfg;
use crate::obs::Obs;
use crate::util::R;
use crate::{run, Case, Prop, Tier, Viol};

pub struct C07;

#[derive(Clone, Debug)]
pub enum B {
    P(String),
    Ul(Vec<Vec<B>>),
    Ol(Option<i64>, Vec<Vec<B>>),
    Quote(Vec<B>),
    H(usize, String),
    Dl(Vec<(String, Vec<B>)>),
}

const WORDS: &[&str] = &["alpha", "be", "gamma", "delta", "epsilonzeta", "x", "字字", "étude", "lorem", "ipsum"];

fn inline(r: &mut R) -> String {
    let n = 1 + r.u(7);
    let mut v = Vec::new();
    for _ in 0..n {
        let w = r.pick(WORDS).to_string();
        v.push(match r.b(8) {
            0 => format!("<em>{w}</em>"),
            1 => format!("<strong>{w}</strong>"),
            2 => format!("<code>{w}</code>"),
            _ => w,
        });
    }
    v.join(" ")
}

fn gen_blocks(r: &mut R, d: u32, max: usize) -> Vec<B> {
    (0..1 + r.u(max)).map(|_| gen_block(r, d)).collect()
}
pub fn gen_block(r: &mut R, d: u32) -> B {
    let k = if d == 0 { 0 } else { r.b(10) };
    match k {
        0..=2 => B::P(inline(r)),
        3 | 4 => B::Ul((0..1 + r.u(4)).map(|_| gen_blocks(r, d - 1, 2)).collect()),
        5 | 6 => {
            let start = if r.p(40) { None } else { Some(*r.pick(&[&1i64, &-100, &-12, &-1, &0, &5, &9, &98, &99, &999, &100, &-9, &-10])) };
            let start = start.map(|s| if r.p(30) { r.b(201) as i64 - 100 } else { s });
            let n = if r.p(15) { 10 + r.u(6) } else { 1 + r.u(5) };
            B::Ol(start, (0..n).map(|_| if n > 6 { vec![B::P(inline(r))] } else { gen_blocks(r, d - 1, 2) }).collect())
        }
        7 => B::Quote(gen_blocks(r, d - 1, 2)),
        8 => B::H(1 + r.u(6), inline(r)),
        _ => B::Dl((0..1 + r.u(3)).map(|_| (inline(r), gen_blocks(r, d - 1, 2))).collect()),
    }
}
pub fn html(b: &B) -> String {
    match b {
        B::P(s) => format!("<p>{s}</p>"),
        B::Ul(items) => format!("<ul>{}</ul>", items.iter().map(|i| format!("<li>{}</li>", htmls(i))).collect::<String>()),
        B::Ol(st, items) => format!("<ol{}>{}</ol>", st.map(|s| format!(" start=\"{s}\"")).unwrap_or_default(), items.iter().map(|i| format!("<li>{}</li>", htmls(i))).collect::<String>()),
        B::Quote(c) => format!("<blockquote>{}</blockquote>", htmls(c)),
        B::H(l, s) => format!("<h{l}>{s}</h{l}>"),
        B::Dl(items) => format!("<dl>{}</dl>", items.iter().map(|(t, d)| format!("<dt>{t}</dt><dd>{}</dd>", htmls(d))).collect::<String>()),
    }
}
fn htmls(v: &[B]) -> String {
    v.iter().map(html).collect()
}

fn lines(o: &Obs) -> Option<Vec<String>> {
    o.text_lines()
}

/// the prefix strings of a decorator
#[derive(Clone, Debug)]
pub struct Prefixes {
    pub quote: String,
    pub ul: String,
    pub ol_tail: String,
    pub h_unit: String,
    pub h_tail: String,
}
impl Prefixes {
    pub fn of_fam(f: &crate::cfg::Fam) -> Prefixes {
        Prefixes { h_unit: f.0[0].clone(), h_tail: f.0[1].clone(), quote: f.0[2].clone(), ul: f.0[3].clone(), ol_tail: f.0[4].clone() }
    }
    pub fn builtin() -> Prefixes {
        Prefixes { quote: "> ".into(), ul: "* ".into(), ol_tail: ". ".into(), h_unit: "#".into(), h_tail: " ".into() }
    }
}
fn dw(s: &str) -> usize {
    s.chars().map(crate::refimpl::cw).sum()
}

/// check the compositional law for one block rendered alone at width `w`; returns the first problem
fn check(b: &B, cfg: &Cfg, w: usize, depth: u32) -> Option<String> {
    check_with(b, cfg, w, depth, &Prefixes::builtin())
}

pub fn check_with(b: &B, cfg: &Cfg, w: usize, depth: u32, px: &Prefixes) -> Option<String> {
    let src = html(b);
    let o = run(src.as_bytes(), cfg, w);
    let got = match lines(&o) {
        Some(l) => l,
        None => return None, // property speaks about widths where rendering succeeds
    };
    let inner_render = |h: &str, iw: usize| -> Option<Vec<String>> { lines(&run(h.as_bytes(), cfg, iw)) };
    let prefixed = |first: &str, rest: &str, ls: &[String]| -> Vec<String> { ls.iter().enumerate().map(|(i, l)| format!("{}{}", if i == 0 { first } else { rest }, l)).collect() };
    // exact comparison (a blank line of the content keeps the blank indentation); with pad_block_width the content's own
    // lines are padded to their narrower width, so only then trailing blanks are ignored
    let pad = cfg.pad;
    let trim = move |v: Vec<String>| -> Vec<String> { if pad { v.into_iter().map(|l| l.trim_end().to_string()).collect() } else { v } };
    match b {
        B::P(_) => None,
        B::Quote(c) => {
            let p = dw(&px.quote);
            if w <= p {
                return None;
            }
            let inner = inner_render(&htmls(c), w - p)?;
            let exp = prefixed(&px.quote, &px.quote, &inner);
            if trim(got.clone()) != trim(exp.clone()) {
                return Some(format!("blockquote at width {w}: {:?} is not {:?} + content rendered at {}: {:?}", got, px.quote, w - p, exp));
            }
            if c.len() == 1 && depth > 0 {
                return check_with(&c[0], cfg, w - p, depth - 1, px);
            }
            None
        }
        B::H(l, s) => {
            let pre = format!("{}{}", px.h_unit.repeat(*l), px.h_tail);
            let p = dw(&pre);
            if w <= p {
                return None;
            }
            let inner = inner_render(s, w - p)?;
            let exp = prefixed(&pre, &pre, &inner);
            if trim(got.clone()) != trim(exp.clone()) {
                return Some(format!("h{l} at width {w}: {:?} is not '{pre}' + content rendered at {}: {:?}", got, w - p, exp));
            }
            None
        }
        B::Ul(items) => {
            let p = dw(&px.ul);
            if w <= p {
                return None;
            }
            let mut exp = Vec::new();
            for it in items {
                let inner = inner_render(&htmls(it), w - p)?;
                exp.extend(prefixed(&px.ul, &" ".repeat(p), &inner));
            }
            if trim(got.clone()) != trim(exp.clone()) {
                return Some(format!("ul at width {w}: {:?} is not the items rendered at {} with {:?} / {} spaces: {:?}", got, w - p, px.ul, p, exp));
            }
            if items.len() == 1 && items[0].len() == 1 && depth > 0 {
                return check_with(&items[0][0], cfg, w - p, depth - 1, px);
            }
            None
        }
        B::Ol(st, items) => {
            let start = st.unwrap_or(1);
            let n = items.len() as i64;
            let pw = dw(&format!("{}{}", start, px.ol_tail)).max(dw(&format!("{}{}", start + n - 1, px.ol_tail)));
            if w <= pw {
                return None;
            }
            let mut exp = Vec::new();
            for (k, it) in items.iter().enumerate() {
                let inner = inner_render(&htmls(it), w - pw)?;
                let m0 = format!("{}{}", start + k as i64, px.ol_tail);
                let marker = format!("{}{}", m0, " ".repeat(pw.saturating_sub(dw(&m0))));
                exp.extend(prefixed(&marker, &" ".repeat(pw), &inner));
            }
            if trim(got.clone()) != trim(exp.clone()) {
                return Some(format!("ol start={start} with {n} items at width {w}: {:?} is not the items rendered at {} behind markers padded to {pw}: {:?}", got, w - pw, exp));
            }
            None
        }
        B::Dl(items) => {
            if w < 3 {
                return None;
            }
            // every dd is its content at w-2 behind two spaces; dt lines are not prefixed
            let mut exp_dd: Vec<Vec<String>> = Vec::new();
            for (_, d) in items {
                let inner = inner_render(&htmls(d), w - 2)?;
                exp_dd.push(prefixed("  ", "  ", &inner));
            }
            // locate each expected dd block as a contiguous run in order
            let g = trim(got.clone());
            let mut pos = 0;
            for dd in exp_dd {
                let dd = trim(dd);
                if dd.is_empty() {
                    continue;
                }
                let found = (pos..=g.len().saturating_sub(dd.len())).find(|i| g[*i..*i + dd.len()] == dd[..]);
                match found {
                    Some(i) => pos = i + dd.len(),
                    None => return Some(format!("dl at width {w}: definition {:?} (content at {} behind two spaces) not found in order in {:?}", dd, w - 2, g)),
                }
            }
            None
        }
    }
}

impl Prop for C07 {
    fn id(&self) -> &'static str {
        "C07"
    }
    fn rule(&self) -> &'static str {
        "trees of nested ul/ol(start absent, -100..100, 9, 98, 999)/blockquote/h1-h6/dl with 1..15 items and paragraphs as content, each rendered alone at widths 4..100 (plain and rich): output == prefix column + the content's own rendering at width - prefix (checked down the first-child chain), numbers consecutive from start, markers padded to the list's widest; non-trivial = a prefixed block that renders Ok with >= 2 lines"
    }
    fn cases(&self, r: &mut R, tier: Tier) -> Vec<Case> {
        let n = scale(tier, 2500, 40000);
        let mut v = Vec::new();
        for _ in 0..n {
            let b = loop {
                let b = gen_block(r, 3);
                if !matches!(b, B::P(_)) {
                    break b;
                }
            };
            for _ in 0..(if tier == Tier::Quick { 3 } else { 6 }) {
                // one case in seven under a decorator of the custom family (prefixes over ASCII, 2-byte width-1, 3-byte width-2
                // characters): the law is about the decorator's prefixes by display width, not about the built-in strings
                // (added after the seeded change C07-ul-indent-by-byte-length was reported by C16 only)
                let mut cfg = if r.p(14) { Cfg::base(crate::cfg::Deco::Fam(crate::cfg::gen_fam(r, true))) } else if r.p(60) { Cfg::plain() } else { Cfg::rich() };
                if r.p(20) {
                    cfg.pad = true;
                }
                let w = if r.p(40) { 4 + r.u(16) } else { 4 + r.u(97) };
                let mut c = case(html(&b), cfg, w, "tree");
                c.aux = format!("{:?}", 0);
                v.push(c);
            }
        }
        // all starts in -100..=100 and the 9/98/999 crossings with 1..15 items (thorough: full grid)
        let starts: Vec<i64> = if tier == Tier::Quick { vec![-100, -99, -11, -10, -9, -1, 0, 1, 8, 9, 10, 95, 98, 99, 100, 989, 999] } else { (-100..=100).chain([989, 995, 998, 999]).collect() };
        for s in starts {
            for n in [1usize, 2, 3, 6, 11, 15] {
                if tier == Tier::Quick && n == 3 {
                    continue;
                }
                let b = B::Ol(Some(s), (0..n).map(|i| vec![B::P(format!("item{} text that wraps over lines", i))]).collect());
                v.push(case(html(&b), Cfg::plain(), 12 + r.u(20), "ol-grid"));
            }
        }
        v
    }
    fn oracle(&self, c: &Case, o: &Obs) -> Vec<Viol> {
        let mut out = vec![];
        if !matches!(o, Obs::Ok(_)) {
            return out;
        }
        // rebuild the block from the HTML (the generator's structure is recoverable from the oracle DOM)
        let dom = crate::domwalk::tree(&c.html);
        let body = match find_body(&dom) {
            Some(b) => b,
            None => return out,
        };
        let blocks: Vec<B> = body.kids().iter().filter_map(from_dom).collect();
        if blocks.len() != 1 {
            return out;
        }
        let res = match &c.cfg.deco {
            crate::cfg::Deco::Fam(f) => check_with(&blocks[0], &c.cfg, c.width, 3, &Prefixes::of_fam(f)),
            _ => check(&blocks[0], &c.cfg, c.width, 3),
        };
        if let Some(msg) = res {
            out.push(viol(msg));
        }
        out
    }
    fn project(&self, _c: &Case, o: &Obs) -> String {
        text_only(o)
    }
}

pub fn find_body(n: &crate::domwalk::N) -> Option<&crate::domwalk::N> {
    if n.is("body") {
        return Some(n);
    }
    n.kids().iter().find_map(find_body)
}

fn inner_html(n: &crate::domwalk::N) -> String {
    let mut s = String::new();
    for k in n.kids() {
        crate::domwalk::serialize(k, &|_| true, &|_| true, &mut s);
    }
    s
}

pub fn from_dom(n: &crate::domwalk::N) -> Option<B> {
    let kids_blocks = |n: &crate::domwalk::N| -> Vec<B> { n.kids().iter().filter_map(from_dom).collect() };
    match n.name() {
        "p" => Some(B::P(inner_html(n))),
        "ul" => Some(B::Ul(n.kids().iter().filter(|k| k.is("li")).map(|k| kids_blocks(k)).collect())),
        "ol" => Some(B::Ol(n.attr("start").and_then(|s| s.parse().ok()), n.kids().iter().filter(|k| k.is("li")).map(|k| kids_blocks(k)).collect())),
        "blockquote" => Some(B::Quote(kids_blocks(n))),
        "h1" | "h2" | "h3" | "h4" | "h5" | "h6" => Some(B::H(n.name()[1..].parse().ok()?, inner_html(n))),
        "dl" => {
            let mut items = Vec::new();
            let mut cur: Option<String> = None;
            for k in n.kids() {
                if k.is("dt") {
                    cur = Some(inner_html(k));
                } else if k.is("dd") {
                    items.push((cur.take().unwrap_or_default(), kids_blocks(k)));
                }
            }
            Some(B::Dl(items))
        }
        _ => None,
    }
}
