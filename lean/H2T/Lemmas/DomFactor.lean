import H2T.Lemmas.DomTotal
import H2T.DomTree

/-! The pipeline `renderDom` factors into a configuration-independent front end (style sheets, DOM → render tree, which only reads
    the `decorate` switch) and `renderTree`: whole-run relations between configurations proved for render trees transfer to
    the whole pipeline. -/
namespace H2T

theorem renderDom_factor (cfg : Cfg) (d : Deco) (w : Nat) (useDoc : Bool) (agentCss userCss : Option (List Char))
    (ci : CharInfo) (depth : Nat) (dom : Node) :
    renderDom cfg d w useDoc agentCss userCss ci depth dom =
      match domTree cfg.decorate useDoc agentCss userCss ci depth dom with
      | .error o => o
      | .ok tree => treeOutcome (renderTree cfg d w tree) := by
  have h0 : renderDom cfg d w useDoc agentCss userCss ci depth dom =
      (match addTo (if cfg.decorate then decorateRules else []) agentCss with
      | .error o => o
      | .ok agent =>
      match addTo [] userCss with
      | .error o => o
      | .ok user =>
      match docRulesOf useDoc depth dom with
      | .error o => o
      | .ok author =>
      match build { sd := { agent := agent, user := user, author := author }, useDoc := useDoc, ci := ci } [] 0 dom with
      | none => .panic "computed_style"
      | some none => .panic "Fail: no render tree"
      | some (some tree) =>
        if !tableOk tree then .panic "tableOk: a cell lies outside its table's columns" else
        match renderTree cfg d w tree with
        | .ok ls => .lines ls
        | .error .tooNarrow => .narrow
        | .error (.panic s) => .panic s
        | .error (.hang s) => .hang s) := rfl
  rw [h0]
  unfold domTree
  cases addTo (if cfg.decorate then decorateRules else []) agentCss with
  | error o => rfl
  | ok agent =>
    simp only
    cases addTo [] userCss with
    | error o => rfl
    | ok user =>
      simp only
      cases docRulesOf useDoc depth dom with
      | error o => rfl
      | ok author =>
        simp only
        unfold buildTree
        cases build { sd := { agent := agent, user := user, author := author }, useDoc := useDoc, ci := ci } [] 0 dom with
        | none => rfl
        | some r =>
          cases r with
          | none => rfl
          | some tree =>
            simp only
            cases tableOk tree with
            | false => rfl
            | true =>
              simp only [Bool.not_true, Bool.false_eq_true, if_false, treeOutcome]
              cases renderTree cfg d w tree with
              | ok ls => rfl
              | error e => cases e <;> rfl

/-! ## what a `.lines` outcome means -/

theorem domTree_tableOk (dec useDoc : Bool) (agentCss userCss : Option (List Char)) (ci : CharInfo) (depth : Nat) (dom : Node) (tree : RNode)
    (h : domTree dec useDoc agentCss userCss ci depth dom = .ok tree) : tableOk tree = true := by
  unfold domTree at h
  split at h
  · simp at h
  · split at h
    · simp at h
    · split at h
      · simp at h
      · unfold buildTree at h
        split at h
        · simp at h
        · simp at h
        · split at h
          · simp at h
          · rename_i hok
            injection h with h; subst h
            simpa using hok

theorem addTo_error (base : List Css.Rule) (css : Option (List Char)) (o : Outcome) (h : addTo base css = .error o) : ∀ ls, o ≠ .lines ls := by
  unfold addTo at h
  split at h
  · simp at h
  · split at h
    · simp at h
    · injection h with h; subst h; intro ls hh; cases hh
    · injection h with h; subst h; intro ls hh; cases hh

theorem docRulesOf_error (useDoc : Bool) (depth : Nat) (dom : Node) (o : Outcome) (h : docRulesOf useDoc depth dom = .error o) :
    ∀ ls, o ≠ .lines ls := by
  unfold docRulesOf at h
  split at h
  · simp at h
  · have key : ∀ (l : List (List Ch)) (acc : Except Outcome (List Css.Rule)), (∀ o', acc = .error o' → ∀ ls, o' ≠ .lines ls) →
        ∀ o', l.foldl (fun acc t => match acc with
          | .error o => .error o
          | .ok rs => match Css.doAddCss (t.map fun c => Char.ofNat c.cp) with
            | .ok r => .ok (rs ++ r)
            | .err => .ok rs
            | .hang => .error (.hang "css parser (document)")) acc = .error o' → ∀ ls, o' ≠ .lines ls := by
      intro l
      induction l with
      | nil => intro acc hacc o' h'; exact hacc o' h'
      | cons t r ih =>
        intro acc hacc o' h'
        simp only [List.foldl_cons] at h'
        refine ih _ ?_ o' h'
        intro o'' ho''
        cases acc with
        | error e => simp only at ho''; exact hacc _ (by rw [← ho''])
        | ok rs =>
          simp only at ho''
          split at ho''
          · simp at ho''
          · simp at ho''
          · injection ho'' with ho''; subst ho''; intro ls hh; cases hh
    exact key _ _ (by intro o' h'; simp at h') o h


/-- **a `.lines` outcome of the pipeline is a rendering of the tree the front end built**, and that tree passed `tableOk` -/
theorem renderDom_lines (cfg : Cfg) (d : Deco) (w : Nat) (useDoc : Bool) (agentCss userCss : Option (List Char))
    (ci : CharInfo) (depth : Nat) (dom : Node) (ls : List RLine)
    (h : renderDom cfg d w useDoc agentCss userCss ci depth dom = .lines ls) :
    ∃ tree, domTree cfg.decorate useDoc agentCss userCss ci depth dom = .ok tree ∧ tableOk tree = true ∧ renderTree cfg d w tree = .ok ls := by
  rw [renderDom_factor] at h
  cases hd : domTree cfg.decorate useDoc agentCss userCss ci depth dom with
  | error o =>
    rw [hd] at h; simp only at h; subst h
    exfalso
    unfold domTree at hd
    split at hd
    · rename_i o1 h1; injection hd with hd; subst hd; exact addTo_error _ _ _ h1 ls rfl
    · split at hd
      · rename_i o2 h2; injection hd with hd; subst hd; exact addTo_error _ _ _ h2 ls rfl
      · split at hd
        · rename_i o3 h3; injection hd with hd; subst hd; exact docRulesOf_error _ _ _ _ h3 ls rfl
        · unfold buildTree at hd
          split at hd
          · simp at hd
          · simp at hd
          · split at hd <;> simp at hd
  | ok tree =>
    rw [hd] at h
    simp only at h
    cases hr : renderTree cfg d w tree with
    | error e => rw [hr] at h; cases e <;> simp [treeOutcome] at h
    | ok ls' =>
      rw [hr] at h
      simp only [treeOutcome] at h
      injection h with h; subst h
      exact ⟨tree, rfl, domTree_tableOk _ _ _ _ _ _ _ tree hd, hr⟩

end H2T
