import H2T.Lemmas.ConserveBlock
import H2T.Lemmas.FitsTable

/-! C03 with tables: no character is invented or duplicated.  For every character `c` that is not a box-drawing character
    (nor `/`, the rule of stacked rows) and not the strikeout mark, the number of occurrences of `c` in the rendered lines
    is at most the number of its occurrences in the texts the program adds — tables, nested tables, stacked rows and
    border collapsing included; cells of zero width are dropped, nothing else is. -/

namespace H2T

def isBox (c : Ch) : Bool := c.cp = 0x2500 || c.cp = 0x2502 || c.cp = 0x252c || c.cp = 0x2534 || c.cp = 0x253c || c.cp = 47

theorem glyph_isBox (sg : Seg) : isBox (mkCh sg.glyph) = true := by cases sg <;> rfl

section
variable (c : Ch) (hc : isBox c = false)
include hc

theorem cnt_border (b : Border) : b.chars.count c = 0 := by
  apply List.count_eq_zero.mpr
  intro hm
  simp only [Border.chars, List.mem_map] at hm
  obtain ⟨sg, _, rfl⟩ := hm
  rw [glyph_isBox] at hc; cases hc

theorem cnt_vertAbove (tag : Tag) (b : Border) : (ink (b.vertAbove.map fun x => Elt.cell ⟨x, tag⟩)).count c = 0 := by
  apply List.count_eq_zero.mpr
  intro hm
  simp only [ink, List.mem_filterMap, List.mem_map] at hm
  obtain ⟨e, ⟨x, hx, rfl⟩, he⟩ := hm
  simp only [Border.vertAbove, List.mem_map] at hx
  obtain ⟨sg, _, rfl⟩ := hx
  cases sg <;> simp [spaceCh, mkCh] at he <;> (subst he; simp [isBox] at hc)

omit hc in
theorem cnt_spaces (tag : Tag) (n : Nat) : (ink ((List.replicate n spaceCh).map fun x => Elt.cell ⟨x, tag⟩)).count c = 0 := by
  have : ink ((List.replicate n spaceCh).map fun x => Elt.cell ⟨x, tag⟩) = [] := by
    induction n with
    | zero => rfl
    | succ n ih => simp [List.replicate_succ, ink, spaceCh] at ih ⊢
  rw [this]; rfl

theorem cnt_padLine (tag : Tag) (w : Nat) (l : RLine) : (rink (padLine tag w l)).count c = (rink l).count c := by
  cases l with
  | text tl => simp [padLine, rink, ink_append, ink_spaces]
  | rule b t => simp only [padLine, rink]; rw [cnt_border c hc, cnt_border c hc]

/-- occurrences of `c` in the line sets of a row's cells -/
def setsCnt (sets : List (Nat × List RLine)) : Nat := (sets.map fun st => (st.2.flatMap rink).count c).sum

omit hc in
theorem count_flatMap {α β : Type} [BEq β] (l : List α) (f : α → List β) (x : β) :
    (l.flatMap f).count x = (l.map fun a => (f a).count x).sum := by
  induction l with
  | nil => rfl
  | cons a l ih => simp [List.flatMap_cons, List.count_append, ih]

theorem colSets_cnt (ann : Tag) : ∀ (cols : List SubR) (sets : List (Nat × List RLine)), (∀ col ∈ cols, col.FragsOk) →
    colSets ann cols = .ok sets → setsCnt c sets = (cols.map fun col => col.ink.count c).sum := by
  intro cols
  induction cols with
  | nil => intro sets _ h; simp [colSets] at h; subst h; rfl
  | cons col cols ih =>
    intro sets hf h
    simp only [colSets] at h
    cases h1 : col.intoLines with
    | error e => simp [h1, andThen] at h
    | ok ls =>
      simp only [h1, andThen] at h
      cases h2 : colSets ann cols with
      | error e => simp [h2] at h
      | ok r =>
        simp only [h2] at h; injection h with h; subst h
        have i1 := intoLines_ink col ls (hf col (by simp)) h1
        have i2 := ih r (fun x hx => hf x (by simp [hx])) h2
        simp only [setsCnt, List.map_cons, List.sum_cons] at i2 ⊢
        rw [i2, ← i1, count_flatMap, count_flatMap, List.map_map]
        congr 2
        apply List.map_congr_left
        intro l _
        exact cnt_padLine c hc ann col.width l

theorem collapseTop_cnt : ∀ (sets : List (Nat × List RLine)) (prev : Option Border) (pos : Nat)
    (p2 : Option Border) (out : List (Nat × List RLine)),
    collapseTop prev pos sets = .ok (p2, out) → setsCnt c out = setsCnt c sets ∧ out.length = sets.length := by
  intro sets
  induction sets with
  | nil =>
    intro prev pos p2 out h
    simp [collapseTop] at h
    obtain ⟨_, rfl⟩ := h
    exact ⟨rfl, rfl⟩
  | cons st r ih =>
    intro prev pos p2 out h
    unfold collapseTop at h
    split at h
    · rename_i b t restLines heq
      cases prev with
      | none => simp at h
      | some pb =>
        simp only at h
        cases h1 : collapseTop (some (pb.mergeFromBelow b pos)) (pos + st.1 + 1) r with
        | error e => simp [h1, andThen] at h
        | ok v =>
          obtain ⟨p', out'⟩ := v
          simp only [h1, andThen] at h
          injection h with h
          simp only [Prod.mk.injEq] at h
          obtain ⟨_, rfl⟩ := h
          obtain ⟨a1, a2⟩ := ih _ _ p' out' h1
          refine ⟨?_, by simp [a2]⟩
          simp only [setsCnt, List.map_cons, List.sum_cons] at a1 ⊢
          rw [a1, heq]
          simp only [List.flatMap_cons, List.count_append, rink, cnt_border c hc, Nat.zero_add]
    · cases h1 : collapseTop prev (pos + st.1 + 1) r with
      | error e => simp [h1, andThen] at h
      | ok v =>
        obtain ⟨p', out'⟩ := v
        simp only [h1, andThen] at h
        injection h with h
        simp only [Prod.mk.injEq] at h
        obtain ⟨_, rfl⟩ := h
        obtain ⟨a1, a2⟩ := ih _ _ p' out' h1
        refine ⟨?_, by simp [a2]⟩
        simp only [setsCnt, List.map_cons, List.sum_cons] at a1 ⊢
        rw [a1]

/-- a pad below a short cell: blanks, or the vertical continuation of a collapsed border -/
def PadShape (p : Option (List Ch)) : Prop := p = none ∨ ∃ b : Border, p = some b.vertAbove

omit hc in
theorem count_dropLast_rule (ls : List RLine) (b : Border) (t : Tag) (h : ls.getLast? = some (.rule b t)) (x : Ch) (hx : b.chars.count x = 0) :
    (ls.dropLast.flatMap rink).count x = (ls.flatMap rink).count x := by
  have : ls = ls.dropLast ++ [.rule b t] := by
    induction ls with
    | nil => simp at h
    | cons a r ih =>
      cases r with
      | nil => simp at h; simp [h]
      | cons y r2 =>
        simp only [List.getLast?_cons_cons] at h
        simp only [List.dropLast_cons_cons, List.cons_append]
        rw [← ih h]
  conv => rhs; rw [this]
  simp [List.flatMap_append, List.count_append, rink, hx]

theorem collapseBottom_cnt : ∀ (sets : List (Nat × List RLine)) (nb : Border) (pos : Nat),
    setsCnt c (collapseBottom nb pos sets).2.1 = setsCnt c sets ∧ (collapseBottom nb pos sets).2.1.length = sets.length ∧
    (collapseBottom nb pos sets).2.2.length = sets.length ∧ ∀ p ∈ (collapseBottom nb pos sets).2.2, PadShape p := by
  intro sets
  induction sets with
  | nil => intro nb pos; simp [collapseBottom, setsCnt]
  | cons st r ih =>
    intro nb pos
    unfold collapseBottom
    split
    · rename_i b t heq
      obtain ⟨a1, a2, a3, a4⟩ := ih (nb.mergeFromAbove b pos) (pos + st.1 + 1)
      simp only
      refine ⟨?_, by simp [a2], by simp [a3], ?_⟩
      · simp only [setsCnt, List.map_cons, List.sum_cons] at a1 ⊢
        rw [a1, count_dropLast_rule st.2 b t heq c (cnt_border c hc b)]
      · intro p hp
        simp only [List.mem_cons] at hp
        rcases hp with rfl | hp
        · exact Or.inr ⟨b, rfl⟩
        · exact a4 p hp
    · obtain ⟨a1, a2, a3, a4⟩ := ih nb (pos + st.1 + 1)
      simp only
      refine ⟨?_, by simp [a2], by simp [a3], ?_⟩
      · simp only [setsCnt, List.map_cons, List.sum_cons] at a1 ⊢
        rw [a1]
      · intro p hp
        simp only [List.mem_cons] at hp
        rcases hp with rfl | hp
        · exact Or.inl rfl
        · exact a4 p hp

omit hc in
theorem sum_zeros {α : Type} (l : List α) : (l.map fun _ => 0).sum = 0 := by
  induction l with
  | nil => rfl
  | cons a l ih => simp [ih]

omit hc in
theorem sum_range_opt {α : Type} (g : α → Nat) : ∀ (l : List α) (H : Nat), l.length ≤ H →
    ((List.range H).map fun i => (l[i]?.map g).getD 0).sum = (l.map g).sum := by
  intro l
  induction l with
  | nil =>
    intro H _
    have : ((List.range H).map fun i => ((([] : List α)[i]?).map g).getD 0) = (List.range H).map fun _ => 0 := by
      apply List.map_congr_left; intro i _; simp
    rw [this]; exact sum_zeros _
  | cons a r ih =>
    intro H hH
    cases H with
    | zero => simp at hH
    | succ H' =>
      rw [List.range_succ_eq_map]
      simp only [List.map_cons, List.sum_cons, List.map_map, List.getElem?_cons_zero]
      have := ih H' (by simp at hH; omega)
      rw [← this]
      congr 2

omit hc in
theorem sum_map_add {α : Type} (l : List α) (f g : α → Nat) : (l.map fun i => f i + g i).sum = (l.map f).sum + (l.map g).sum := by
  induction l with
  | nil => rfl
  | cons a l ih => simp [ih]; omega

/-- what a cell contributes to line `i` of its row -/
def lineCnt (st : Nat × List RLine) (i : Nat) : Nat := (st.2[i]?.map fun l => (rink l).count c).getD 0

theorem cnt_colLineBody (ann : Tag) (i : Nat) (st : Nat × List RLine) (pad : Option (List Ch)) (hp : PadShape pad) :
    (ink (colLineBody ann i st pad)).count c = lineCnt c st i := by
  unfold colLineBody lineCnt
  cases h : st.2[i]? with
  | none =>
    simp only [Option.map_none, Option.getD_none]
    rcases hp with rfl | ⟨b, rfl⟩
    · exact cnt_spaces c ann st.1
    · exact cnt_vertAbove c hc ann b
  | some l =>
    cases l with
    | text tl => rfl
    | rule b t => simp only [rink, Option.map_some, Option.getD_some]; rw [ink_borderCells]

theorem cnt_colLine (ann : Tag) (sep : Ch) (hsep : isBox sep = true ∨ sep.ws = true) (i : Nat) :
    ∀ (zs : List ((Nat × List RLine) × Option (List Ch))), (∀ z ∈ zs, PadShape z.2) →
    (ink (colLine ann sep i zs)).count c = (zs.map fun z => lineCnt c z.1 i).sum := by
  intro zs
  induction zs with
  | nil => intro _; rfl
  | cons z r ih =>
    intro hp
    obtain ⟨st, pad⟩ := z
    have h0 := cnt_colLineBody c hc ann i st pad (hp (st, pad) (by simp))
    cases r with
    | nil => simp [colLine, h0]
    | cons q r2 =>
      have := ih (fun x hx => hp x (by simp [hx]))
      simp only [colLine, ink_append, List.count_append, h0, this, List.map_cons, List.sum_cons]
      have hs : (ink [Elt.cell ⟨sep, ann⟩]).count c = 0 := by
        rcases hsep with h | h
        · have : c ≠ sep := by intro e; subst e; rw [h] at hc; cases hc
          simp only [ink, List.filterMap_cons, List.filterMap_nil]
          split <;> simp [List.count_cons, List.count_nil]
          rename_i x hx
          split at hx
          · simp at hx
          · simp at hx; subst hx; exact fun e => this e.symm
        · simp [ink, h]
      omega

omit hc in
theorem foldl_max_ge (l : List Nat) : ∀ (a : Nat), a ≤ l.foldl max a ∧ ∀ x ∈ l, x ≤ l.foldl max a := by
  induction l with
  | nil => intro a; simp
  | cons y l ih =>
    intro a
    obtain ⟨h1, h2⟩ := ih (max a y)
    simp only [List.foldl_cons]
    refine ⟨by omega, ?_⟩
    intro x hx
    simp only [List.mem_cons] at hx
    rcases hx with rfl | hx
    · omega
    · exact h2 x hx

/-- the text lines of a row hold exactly what the cells' line sets hold -/
theorem rowLines_cnt (ann : Tag) (sep : Ch) (hsep : isBox sep = true ∨ sep.ws = true) (H : Nat) :
    ∀ (zs : List ((Nat × List RLine) × Option (List Ch))), (∀ z ∈ zs, PadShape z.2) → (∀ z ∈ zs, z.1.2.length ≤ H) →
    ((List.range H).map fun i => (ink (colLine ann sep i zs)).count c).sum = (zs.map fun z => (z.1.2.flatMap rink).count c).sum := by
  intro zs hp hl
  have h1 : ((List.range H).map fun i => (ink (colLine ann sep i zs)).count c) =
      (List.range H).map fun i => (zs.map fun z => lineCnt c z.1 i).sum := by
    apply List.map_congr_left; intro i _; exact cnt_colLine c hc ann sep hsep i zs hp
  rw [h1]
  clear h1 hp
  induction zs with
  | nil => simp only [List.map_nil, List.sum_nil]; exact sum_zeros _
  | cons z r ih =>
    simp only [List.map_cons, List.sum_cons]
    rw [sum_map_add, ih (fun x hx => hl x (by simp [hx]))]
    congr 1
    have := sum_range_opt (fun l => (rink l).count c) z.1.2 H (hl z (by simp))
    rw [count_flatMap]
    show ((List.range H).map fun i => lineCnt c z.1 i).sum = _
    unfold lineCnt; exact this

theorem setLastRule_cnt (s : SubR) (prev : Option Border) :
    (s.setLastRule prev).ink.count c = s.ink.count c ∧ (s.setLastRule prev).pendingFrags = s.pendingFrags ∧
    (s.setLastRule prev).wrapping = s.wrapping := by
  unfold SubR.setLastRule
  cases prev with
  | none => exact ⟨rfl, rfl, rfl⟩
  | some pb =>
    simp only
    split
    · rename_i b t heq
      refine ⟨?_, rfl, rfl⟩
      simp only [SubR.ink, List.count_append, setLast, List.flatMap_append, List.flatMap_cons, List.flatMap_nil, List.append_nil, rink,
        cnt_border c hc, Nat.add_zero]
      rw [count_dropLast_rule s.lines b t heq c (cnt_border c hc b)]
    · exact ⟨rfl, rfl, rfl⟩

theorem emitColumns_cnt (s : SubR) (cfg : Cfg) (ann : Tag) (sets3 : List (Nat × List RLine)) (pads : List (Option (List Ch)))
    (nb : Border) (hf : s.FragsOk) (hw : s.wrapping = none) (hl : sets3.length = pads.length) (hp : ∀ p ∈ pads, PadShape p) :
    (s.emitColumns cfg ann sets3 pads nb).ink.count c = s.ink.count c + setsCnt c sets3 ∧ (s.emitColumns cfg ann sets3 pads nb).FragsOk := by
  unfold SubR.emitColumns
  simp only []
  have hsep : isBox (if cfg.drawBorders = true then mkCh 0x2502 else spaceCh) = true ∨ (if cfg.drawBorders = true then mkCh 0x2502 else spaceCh).ws = true := by
    split
    · left; rfl
    · right; rfl
  generalize (if cfg.drawBorders = true then mkCh 0x2502 else spaceCh) = sep at hsep ⊢
  obtain ⟨a1, a2, a3⟩ := addLines_ink ((List.range ((sets3.map (·.2.length)).foldl max 0)).map fun i => RLine.text (colLine ann sep i (sets3.zip pads))) s hf hw
  have hz : ∀ z ∈ sets3.zip pads, PadShape z.2 := fun z hz => hp z.2 (List.of_mem_zip hz).2
  have hH : ∀ z ∈ sets3.zip pads, z.1.2.length ≤ (sets3.map (·.2.length)).foldl max 0 := by
    intro z hz
    have hm := (List.of_mem_zip hz).1
    exact (foldl_max_ge (sets3.map (·.2.length)) 0).2 _ (List.mem_map_of_mem hm)
  have hrow := rowLines_cnt c hc ann sep hsep _ (sets3.zip pads) hz hH
  have hzip : ((sets3.zip pads).map fun z => (z.1.2.flatMap rink).count c).sum = setsCnt c sets3 := by
    unfold setsCnt
    have : (sets3.zip pads).map (·.1) = sets3 := by
      rw [List.map_fst_zip]; omega
    conv => rhs; rw [← this]
    rw [List.map_map]; rfl
  have hadd : (((List.range ((sets3.map (·.2.length)).foldl max 0)).map fun i => RLine.text (colLine ann sep i (sets3.zip pads))).flatMap rink).count c =
      setsCnt c sets3 := by
    rw [count_flatMap, List.map_map, ← hzip, ← hrow]; rfl
  split
  · obtain ⟨b1, b2⟩ := addLine_ink _ (.rule nb ann) a2
    refine ⟨?_, b2⟩
    rw [b1, a3]
    have : (s.addLines ((List.range ((sets3.map (·.2.length)).foldl max 0)).map fun i => RLine.text (colLine ann sep i (sets3.zip pads)))).lines.flatMap rink =
        (s.addLines ((List.range ((sets3.map (·.2.length)).foldl max 0)).map fun i => RLine.text (colLine ann sep i (sets3.zip pads)))).ink := by
      simp [SubR.ink, a3]
    rw [this, a1]
    simp only [List.count_append, rink, cnt_border c hc, hadd, List.append_nil]
    omega
  · refine ⟨?_, a2⟩
    rw [a1, List.count_append, hadd]

theorem appendColumns_cnt (s s' : SubR) (cfg : Cfg) (cols : List SubR) (hf : s.FragsOk) (hcf : ∀ col ∈ cols, col.FragsOk)
    (h : s.appendColumns cfg cols = .ok s') :
    s'.ink.count c = s.ink.count c + (cols.map fun col => col.ink.count c).sum ∧ s'.FragsOk := by
  unfold SubR.appendColumns at h
  cases h1 : s.flushWrapping with
  | error e => simp [h1, andThen] at h
  | ok s0 =>
    simp only [h1, andThen] at h
    obtain ⟨f1, f2, f3⟩ := flushWrapping_ink s s0 hf h1
    cases h2 : colSets s0.annStack cols with
    | error e => simp [h2] at h
    | ok sets =>
      simp only [h2] at h
      have hs := colSets_cnt c hc _ cols sets hcf h2
      split at h
      · simp at h
      · generalize s0.joinBars sets ((sets.map (·.1)).sum + (sets.length - 1)) = pn at h
        cases h3 : collapseTop pn.1 0 sets with
        | error e => simp [h3] at h
        | ok v =>
          obtain ⟨prev2, sets2⟩ := v
          simp only [h3] at h
          injection h with h; subst h
          obtain ⟨t1, _⟩ := collapseTop_cnt c hc sets pn.1 0 prev2 sets2 h3
          obtain ⟨b1, b2, b3, b4⟩ := collapseBottom_cnt c hc sets2 pn.2 0
          obtain ⟨l1, l2, l3⟩ := setLastRule_cnt c hc s0 prev2
          have hfr : (s0.setLastRule prev2).FragsOk := by unfold SubR.FragsOk; rw [l2]; exact f2
          obtain ⟨e1, e2⟩ := emitColumns_cnt c hc (s0.setLastRule prev2) cfg s0.annStack _ _ (collapseBottom pn.2 0 sets2).1 hfr (l3.trans f3)
            (by rw [b2, b3]) b4
          exact ⟨by rw [e1, l1, f1, b1, t1, hs], e2⟩

theorem addRule_cnt (s s' : SubR) (b : Border) (hf : s.FragsOk) (h : s.flushWrapping = .ok s') :
    (s'.addLine (.rule b s'.annStack)).ink.count c = s.ink.count c ∧ (s'.addLine (.rule b s'.annStack)).FragsOk := by
  obtain ⟨f1, f2, f3⟩ := flushWrapping_ink s s' hf h
  obtain ⟨b1, b2⟩ := addLine_ink s' (.rule b s'.annStack) f2
  refine ⟨?_, b2⟩
  rw [b1, f3, ← f1]
  simp [SubR.ink, f3, List.count_append, rink, cnt_border c hc]

theorem vertCells_cnt (cfg : Cfg) : ∀ (cols : List SubR) (first : Bool) (s s' : SubR), s.FragsOk → (∀ col ∈ cols, col.FragsOk) →
    vertCells cfg first s cols = .ok s' →
    s'.ink.count c = s.ink.count c + (cols.map fun col => col.ink.count c).sum ∧ s'.FragsOk := by
  intro cols
  induction cols with
  | nil => intro first s s' hf _ h; simp [vertCells] at h; subst h; exact ⟨by simp, hf⟩
  | cons col cols ih =>
    intro first s s' hf hcf h
    simp only [vertCells] at h
    generalize h0 : (if (!first && cfg.drawBorders) = true then
        andThen s.flushWrapping fun s' => Except.ok (s'.addLine (.rule (List.replicate s.width Seg.vert) s'.annStack))
      else Except.ok s) = r0 at h
    cases r0 with
    | error e => simp [andThen] at h
    | ok s1 =>
      simp only [andThen] at h
      have st1 : s1.ink.count c = s.ink.count c ∧ s1.FragsOk := by
        split at h0
        · cases hfl : s.flushWrapping with
          | error e => simp [hfl, andThen] at h0
          | ok s0 =>
            simp only [hfl, andThen] at h0; injection h0 with h0; subst h0
            exact addRule_cnt c hc s s0 _ hf hfl
        · injection h0 with h0; subst h0; exact ⟨rfl, hf⟩
      cases h2 : s1.appendSub col [] [] with
      | error e => simp [h2] at h
      | ok s2 =>
        simp only [h2] at h
        obtain ⟨a1, a2⟩ := appendSub_ink s1 col s2 [] [] st1.2 (hcf col (by simp)) (by simp) (by simp) h2
        obtain ⟨i1, i2⟩ := ih false s2 s' a2 (fun x hx => hcf x (by simp [hx])) h
        refine ⟨?_, i2⟩
        rw [i1, a1, List.count_append, st1.1]
        simp only [List.map_cons, List.sum_cons]; omega

theorem appendVertRow_cnt (s s' : SubR) (cfg : Cfg) (cols : List SubR) (hf : s.FragsOk) (hcf : ∀ col ∈ cols, col.FragsOk)
    (h : s.appendVertRow cfg cols = .ok s') :
    s'.ink.count c = s.ink.count c + (cols.map fun col => col.ink.count c).sum ∧ s'.FragsOk := by
  unfold SubR.appendVertRow at h
  cases h1 : s.flushWrapping with
  | error e => simp [h1, andThen] at h
  | ok s0 =>
    simp only [h1, andThen] at h
    obtain ⟨f1, f2, _⟩ := flushWrapping_ink s s0 hf h1
    cases h2 : vertCells cfg true s0 cols with
    | error e => simp [h2] at h
    | ok s1 =>
      simp only [h2] at h
      obtain ⟨v1, v2⟩ := vertCells_cnt c hc cfg cols true s0 s1 f2 hcf h2
      split at h
      · cases h3 : s1.flushWrapping with
        | error e => simp [h3] at h
        | ok s2 =>
          simp only [h3] at h; injection h with h; subst h
          obtain ⟨r1, r2⟩ := addRule_cnt c hc s1 s2 (List.replicate s2.width Seg.straight) v2 h3
          exact ⟨by rw [r1, v1, f1], r2⟩
      · injection h with h; subst h; exact ⟨by rw [v1, f1], v2⟩

theorem tableTop_cnt (s s' : SubR) (cfg : Cfg) (tw : Nat) (hf : s.FragsOk) (h : s.tableTop cfg tw = .ok s') :
    s'.ink.count c = s.ink.count c ∧ s'.FragsOk := by
  unfold SubR.tableTop at h
  split at h
  · cases h1 : s.flushWrapping with
    | error e => simp [h1, andThen] at h
    | ok s2 =>
      simp only [h1, andThen] at h; injection h with h; subst h
      exact addRule_cnt c hc s s2 _ hf h1
  · injection h with h; subst h; exact ⟨rfl, hf⟩

/-- a finished row adds exactly what its cells hold (for characters other than box-drawing ones) -/
theorem appendRow_cnt (s s' : SubR) (cfg : Cfg) (vert : Bool) (subs : List SubR) (hf : s.FragsOk) (hcf : ∀ col ∈ subs, col.FragsOk)
    (h : s.appendRow cfg vert subs = .ok s') :
    s'.ink.count c ≤ s.ink.count c + (subs.map fun col => col.ink.count c).sum ∧ s'.FragsOk := by
  unfold SubR.appendRow at h
  split at h
  · obtain ⟨a, b⟩ := appendVertRow_cnt c hc s s' cfg subs hf hcf h; exact ⟨by omega, b⟩
  · split at h
    · obtain ⟨a, b⟩ := appendColumns_cnt c hc s s' cfg subs hf hcf h; exact ⟨by omega, b⟩
    · injection h with h; subst h; exact ⟨by omega, hf⟩

end

/-! ## programs -/

mutual
/-- the visible characters of the texts a program adds (strikeout marks not counted), tables included -/
def rawInk (d : Deco) : Op → List Ch
  | .text x => keep x
  | .startLink _ => keep d.linkStart
  | .endLink => keep d.linkEnd
  | .startAnn _ x _ => keep x
  | .endAnn x _ => keep x
  | .image _ title => keep (d.imgText title)
  | .sub _ _ _ _ _ body => rawInks d body
  | .table _ rows => rawInks d rows
  | .row pre post cells => rawInks d pre ++ (rawInks d cells ++ rawInks d post)
  | .cell _ _ body => rawInks d body
  | _ => []
def rawInks (d : Deco) : List Op → List Ch
  | [] => []
  | op :: r => rawInk d op ++ rawInks d r
end

mutual
/-- sub-renderer prefixes are whitespace (the trivial decorator; blank indentation) — at every depth, in tables too -/
def wsPrefOp : Op → Bool
  | .sub _ _ first rest _ body => first.all chIsWs && rest.all chIsWs && wsPrefOps body
  | .table _ rows => wsPrefOps rows
  | .row pre post cells => wsPrefOps pre && wsPrefOps post && wsPrefOps cells
  | .cell _ _ body => wsPrefOps body
  | _ => true
def wsPrefOps : List Op → Bool
  | [] => true
  | op :: r => wsPrefOp op && wsPrefOps r
end

def strikeMark : Ch := ⟨0x336, 0, false, false⟩

theorem keep_append (a b : List Ch) : keep (a ++ b) = keep a ++ keep b := by simp [keep]

theorem cnt_strikeFilter (c : Ch) (hm : c ≠ strikeMark) (x : List Ch) : (keep (strikeFilter x)).count c = (keep x).count c := by
  induction x with
  | nil => rfl
  | cons a r ih =>
    have hm0 : (keep [strikeMark]).count c = 0 := by
      simp only [keep, strikeMark, List.filter_cons, List.filter_nil]
      simp [List.count_cons, strikeMark] at *
      exact fun e => hm e.symm
    have key : ∀ (b : Bool), (keep (if b = true then [a, strikeMark] else [a])).count c = (keep [a]).count c := by
      intro b
      cases b with
      | false => rfl
      | true =>
        simp only [if_true]
        rw [show [a, strikeMark] = [a] ++ [strikeMark] from rfl, keep_append, List.count_append, hm0]; rfl
    have : strikeFilter (a :: r) = (if (!a.ws && decide ((if a.ctrl then 0 else a.w) > 0)) = true then [a, strikeMark] else [a]) ++ strikeFilter r := by
      simp [strikeFilter, strikeMark]
    rw [this, keep_append, List.count_append, ih, show a :: r = [a] ++ r from rfl, keep_append, List.count_append, key]

theorem cnt_iterFilter (c : Ch) (hm : c ≠ strikeMark) (n : Nat) : ∀ (x : List Ch), (keep (iterN strikeFilter n x)).count c = (keep x).count c := by
  induction n with
  | zero => intro x; rfl
  | succ n ih => intro x; simp only [iterN]; rw [ih, cnt_strikeFilter c hm]


/-- an operation without a body adds exactly its own text -/
theorem simple_cnt (c : Ch) (hm : c ≠ strikeMark) (cfg : Cfg) (d : Deco) (hfn : cfg.footnotes = false) (t t' : RS) (op : Op)
    (hfr : t.cur.FragsOk) (hs : silentOp op = true) (hsub : ∀ p m f r a b, op ≠ .sub p m f r a b)
    (h : stepSimple cfg d t op = .ok t') :
    t'.cur.ink.count c ≤ t.cur.ink.count c + (rawInk d op).count c ∧ t'.cur.FragsOk := by
  obtain ⟨a1, _, a3⟩ := stepSimple_ink cfg d t t' op hfn hfr hs hsub h
  refine ⟨?_, a3⟩
  rw [a1, List.count_append]
  apply Nat.add_le_add_left
  cases op <;> simp only [opInk, rawInk, cnt_iterFilter c hm, List.count_nil] <;> first | exact Nat.le_refl _ | skip
  all_goals (first | exact absurd rfl (hsub _ _ _ _ _ _) | simp [silentOp] at hs)

mutual
theorem runOp_cnt (c : Ch) (hc : isBox c = false) (hm : c ≠ strikeMark) (cfg : Cfg) (d : Deco) (hfn : cfg.footnotes = false) :
    (op : Op) → (t t' : RS) → wsPrefOp op = true → t.cur.FragsOk → runOp SubR.widthMinus cfg d t op = .ok t' →
    t'.cur.ink.count c ≤ t.cur.ink.count c + (rawInk d op).count c ∧ t'.cur.FragsOk
  | .sub p m first rest asBlock body, t, t', hs, hfr, he => by
    simp only [wsPrefOp, Bool.and_eq_true] at hs
    obtain ⟨⟨h1, h2⟩, hbody⟩ := hs
    simp only [runOp] at he
    cases e1 : t.cur.widthMinus cfg p m with
    | error e => simp [e1, andThen_error_eq] at he
    | ok w =>
      simp only [e1, andThen_ok_eq] at he
      cases e2 : runOps SubR.widthMinus cfg d { links := t.links, cur := ({ width := w, annStack := t.cur.annStack } : SubR) } body with
      | error e => simp [e2, andThen_error_eq] at he
      | ok r =>
        simp only [e2, andThen_ok_eq] at he
        obtain ⟨f1, f2, _⟩ := fresh_ink w t.cur.annStack
        obtain ⟨hb1, hb2⟩ := runOps_cnt c hc hm cfg d hfn body _ r hbody f2 e2
        rw [f1] at hb1
        cases e3 : (if asBlock = true then t.cur.startBlock else Except.ok t.cur) with
        | error e => simp [e3, andThen_error_eq] at he
        | ok s1 =>
          simp only [e3, andThen_ok_eq] at he
          have st1 : s1.ink = t.cur.ink ∧ s1.FragsOk := by
            split at e3
            · exact startBlock_ink _ s1 hfr e3
            · injection e3 with e3; subst e3; exact ⟨rfl, hfr⟩
          cases e4 : s1.appendSub r.cur first rest with
          | error e => simp [e4, andThen_error_eq] at he
          | ok s2 =>
            simp only [e4, andThen_ok_eq] at he; injection he with he; subst he
            obtain ⟨a, b⟩ := appendSub_ink s1 r.cur s2 first rest st1.2 hb2 h1 h2 e4
            have hi : (if asBlock = true then ({ s2 with atBlockEnd := true } : SubR) else s2).ink = s2.ink := by split <;> rfl
            have hf : (if asBlock = true then ({ s2 with atBlockEnd := true } : SubR) else s2).FragsOk := by split <;> exact b
            refine ⟨?_, hf⟩
            show (if asBlock = true then ({ s2 with atBlockEnd := true } : SubR) else s2).ink.count c ≤ _
            rw [hi, a, st1.1, List.count_append]
            simp only [rawInk, List.count_nil, Nat.zero_add] at hb1 ⊢
            omega
  | .table cols rows, t, t', hs, hfr, he => by
    simp only [wsPrefOp] at hs
    simp only [runOp] at he
    cases h1 : allocCols cfg t.cur.width cols with
    | error e => simp [h1, andThen] at he
    | ok v =>
      obtain ⟨ws, vert, tw⟩ := v
      simp only [h1, andThen_ok_eq] at he
      cases h2 : t.cur.startBlock with
      | error e => simp [h2, andThen_error_eq] at he
      | ok s1 =>
        simp only [h2, andThen_ok_eq] at he
        obtain ⟨b1, b2⟩ := startBlock_ink _ s1 hfr h2
        cases h3 : s1.tableTop cfg tw with
        | error e => simp [h3, andThen_error_eq] at he
        | ok s3 =>
          simp only [h3, andThen_ok_eq] at he
          obtain ⟨c1, c2⟩ := tableTop_cnt c hc s1 s3 cfg tw b2 h3
          obtain ⟨r1, r2⟩ := runRows_cnt c hc hm cfg d hfn rows ws vert { t with cur := s3 } t' hs c2 he
          refine ⟨?_, r2⟩
          simp only [rawInk]
          have : ({ t with cur := s3 } : RS).cur.ink.count c = t.cur.ink.count c := by show s3.ink.count c = _; rw [c1, b1]
          omega
  | .row _ _ _, t, t', _, hfr, he => by simp [runOp] at he; subst he; exact ⟨Nat.le_add_right _ _, hfr⟩
  | .cell _ _ _, t, t', _, hfr, he => by simp [runOp] at he; subst he; exact ⟨Nat.le_add_right _ _, hfr⟩
  | .pushWs ws, t, t', hs, hfr, he => simple_cnt c hm cfg d hfn t t' _ hfr (by simp [silentOp]) (by simp) (by simpa [runOp] using he)
  | .popWs, t, t', hs, hfr, he => simple_cnt c hm cfg d hfn t t' _ hfr (by simp [silentOp]) (by simp) (by simpa [runOp] using he)
  | .pushPre, t, t', hs, hfr, he => simple_cnt c hm cfg d hfn t t' _ hfr (by simp [silentOp]) (by simp) (by simpa [runOp] using he)
  | .popPre, t, t', hs, hfr, he => simple_cnt c hm cfg d hfn t t' _ hfr (by simp [silentOp]) (by simp) (by simpa [runOp] using he)
  | .pushAnn a, t, t', hs, hfr, he => simple_cnt c hm cfg d hfn t t' _ hfr (by simp [silentOp]) (by simp) (by simpa [runOp] using he)
  | .popAnn, t, t', hs, hfr, he => simple_cnt c hm cfg d hfn t t' _ hfr (by simp [silentOp]) (by simp) (by simpa [runOp] using he)
  | .text x, t, t', hs, hfr, he => simple_cnt c hm cfg d hfn t t' _ hfr (by simp [silentOp]) (by simp) (by simpa [runOp] using he)
  | .frag n, t, t', hs, hfr, he => simple_cnt c hm cfg d hfn t t' _ hfr (by simp [silentOp]) (by simp) (by simpa [runOp] using he)
  | .startLink h, t, t', hs, hfr, he => simple_cnt c hm cfg d hfn t t' _ hfr (by simp [silentOp]) (by simp) (by simpa [runOp] using he)
  | .endLink, t, t', hs, hfr, he => simple_cnt c hm cfg d hfn t t' _ hfr (by simp [silentOp]) (by simp) (by simpa [runOp] using he)
  | .startAnn a x s, t, t', hs, hfr, he => simple_cnt c hm cfg d hfn t t' _ hfr (by simp [silentOp]) (by simp) (by simpa [runOp] using he)
  | .endAnn x s, t, t', hs, hfr, he => simple_cnt c hm cfg d hfn t t' _ hfr (by simp [silentOp]) (by simp) (by simpa [runOp] using he)
  | .image a b, t, t', hs, hfr, he => simple_cnt c hm cfg d hfn t t' _ hfr (by simp [silentOp]) (by simp) (by simpa [runOp] using he)
  | .startBlock, t, t', hs, hfr, he => simple_cnt c hm cfg d hfn t t' _ hfr (by simp [silentOp]) (by simp) (by simpa [runOp] using he)
  | .endBlock, t, t', hs, hfr, he => simple_cnt c hm cfg d hfn t t' _ hfr (by simp [silentOp]) (by simp) (by simpa [runOp] using he)
  | .newLine, t, t', hs, hfr, he => simple_cnt c hm cfg d hfn t t' _ hfr (by simp [silentOp]) (by simp) (by simpa [runOp] using he)
  | .newLineHard, t, t', hs, hfr, he => simple_cnt c hm cfg d hfn t t' _ hfr (by simp [silentOp]) (by simp) (by simpa [runOp] using he)
theorem runOps_cnt (c : Ch) (hc : isBox c = false) (hm : c ≠ strikeMark) (cfg : Cfg) (d : Deco) (hfn : cfg.footnotes = false) :
    (ops : List Op) → (t t' : RS) → wsPrefOps ops = true → t.cur.FragsOk → runOps SubR.widthMinus cfg d t ops = .ok t' →
    t'.cur.ink.count c ≤ t.cur.ink.count c + (rawInks d ops).count c ∧ t'.cur.FragsOk
  | [], t, t', _, hfr, he => by simp [runOps] at he; subst he; exact ⟨Nat.le_add_right _ _, hfr⟩
  | op :: ops, t, t', hs, hfr, he => by
    simp only [wsPrefOps, Bool.and_eq_true] at hs
    simp only [runOps] at he
    cases h1 : runOp SubR.widthMinus cfg d t op with
    | error e => simp [h1, andThen_error_eq] at he
    | ok t1 =>
      simp only [h1, andThen_ok_eq] at he
      obtain ⟨a1, a2⟩ := runOp_cnt c hc hm cfg d hfn op t t1 hs.1 hfr h1
      obtain ⟨b1, b2⟩ := runOps_cnt c hc hm cfg d hfn ops t1 t' hs.2 a2 he
      refine ⟨?_, b2⟩
      simp only [rawInks, List.count_append]; omega
theorem runRows_cnt (c : Ch) (hc : isBox c = false) (hm : c ≠ strikeMark) (cfg : Cfg) (d : Deco) (hfn : cfg.footnotes = false) :
    (rows : List Op) → (ws : List Nat) → (vert : Bool) → (t t' : RS) → wsPrefOps rows = true → t.cur.FragsOk →
    runRows SubR.widthMinus cfg d ws vert t rows = .ok t' →
    t'.cur.ink.count c ≤ t.cur.ink.count c + (rawInks d rows).count c ∧ t'.cur.FragsOk
  | [], ws, vert, t, t', _, hfr, he => by simp [runRows] at he; subst he; exact ⟨Nat.le_add_right _ _, hfr⟩
  | .row pre post cells :: rs, ws, vert, t, t', hs, hfr, he => by
    simp only [wsPrefOps, wsPrefOp, Bool.and_eq_true] at hs
    obtain ⟨⟨⟨hpre, hpost⟩, hcells⟩, hrs⟩ := hs
    simp only [runRows] at he
    cases h1 : runOps SubR.widthMinus cfg d t pre with
    | error e => simp [h1, andThen] at he
    | ok t1 =>
      simp only [h1, andThen_ok_eq] at he
      obtain ⟨p1, p2⟩ := runOps_cnt c hc hm cfg d hfn pre t t1 hpre hfr h1
      cases h2 : runCells SubR.widthMinus cfg d ws vert t1.cur.annStack t1.links cells with
      | error e => simp [h2, andThen_error_eq] at he
      | ok v =>
        obtain ⟨links, subs⟩ := v
        simp only [h2, andThen_ok_eq] at he
        obtain ⟨q1, q2⟩ := runCells_cnt c hc hm cfg d hfn cells ws vert t1.cur.annStack t1.links links subs hcells h2
        cases h3 : t1.cur.appendRow cfg vert subs with
        | error e => simp [h3, andThen_error_eq] at he
        | ok s2 =>
          simp only [h3, andThen_ok_eq] at he
          obtain ⟨r1, r2⟩ := appendRow_cnt c hc t1.cur s2 cfg vert subs p2 q2 h3
          cases h4 : runOps SubR.widthMinus cfg d { links := links, cur := s2 } post with
          | error e => simp [h4, andThen_error_eq] at he
          | ok t3 =>
            simp only [h4, andThen_ok_eq] at he
            obtain ⟨u1, u2⟩ := runOps_cnt c hc hm cfg d hfn post _ t3 hpost r2 h4
            obtain ⟨v1, v2⟩ := runRows_cnt c hc hm cfg d hfn rs ws vert t3 t' hrs u2 he
            refine ⟨?_, v2⟩
            simp only [rawInks, rawInk, List.count_append]
            have : ({ links := links, cur := s2 } : RS).cur.ink.count c = s2.ink.count c := rfl
            omega
  | .sub _ _ _ _ _ _ :: rs, ws, vert, t, t', hs, hfr, he => by
    simp only [wsPrefOps, Bool.and_eq_true] at hs; simp only [runRows] at he
    obtain ⟨a, b⟩ := runRows_cnt c hc hm cfg d hfn rs ws vert t t' hs.2 hfr he
    exact ⟨by simp only [rawInks, List.count_append]; omega, b⟩
  | .table _ _ :: rs, ws, vert, t, t', hs, hfr, he => by
    simp only [wsPrefOps, Bool.and_eq_true] at hs; simp only [runRows] at he
    obtain ⟨a, b⟩ := runRows_cnt c hc hm cfg d hfn rs ws vert t t' hs.2 hfr he
    exact ⟨by simp only [rawInks, List.count_append]; omega, b⟩
  | .cell _ _ _ :: rs, ws, vert, t, t', hs, hfr, he => by
    simp only [wsPrefOps, Bool.and_eq_true] at hs; simp only [runRows] at he
    obtain ⟨a, b⟩ := runRows_cnt c hc hm cfg d hfn rs ws vert t t' hs.2 hfr he
    exact ⟨by simp only [rawInks, List.count_append]; omega, b⟩
  | .pushWs _ :: rs, ws, vert, t, t', hs, hfr, he => by
    simp only [wsPrefOps, Bool.and_eq_true] at hs; simp only [runRows] at he
    obtain ⟨a, b⟩ := runRows_cnt c hc hm cfg d hfn rs ws vert t t' hs.2 hfr he
    exact ⟨by simp only [rawInks, List.count_append]; omega, b⟩
  | .popWs :: rs, ws, vert, t, t', hs, hfr, he => by
    simp only [wsPrefOps, Bool.and_eq_true] at hs; simp only [runRows] at he
    obtain ⟨a, b⟩ := runRows_cnt c hc hm cfg d hfn rs ws vert t t' hs.2 hfr he
    exact ⟨by simp only [rawInks, List.count_append]; omega, b⟩
  | .pushPre :: rs, ws, vert, t, t', hs, hfr, he => by
    simp only [wsPrefOps, Bool.and_eq_true] at hs; simp only [runRows] at he
    obtain ⟨a, b⟩ := runRows_cnt c hc hm cfg d hfn rs ws vert t t' hs.2 hfr he
    exact ⟨by simp only [rawInks, List.count_append]; omega, b⟩
  | .popPre :: rs, ws, vert, t, t', hs, hfr, he => by
    simp only [wsPrefOps, Bool.and_eq_true] at hs; simp only [runRows] at he
    obtain ⟨a, b⟩ := runRows_cnt c hc hm cfg d hfn rs ws vert t t' hs.2 hfr he
    exact ⟨by simp only [rawInks, List.count_append]; omega, b⟩
  | .pushAnn _ :: rs, ws, vert, t, t', hs, hfr, he => by
    simp only [wsPrefOps, Bool.and_eq_true] at hs; simp only [runRows] at he
    obtain ⟨a, b⟩ := runRows_cnt c hc hm cfg d hfn rs ws vert t t' hs.2 hfr he
    exact ⟨by simp only [rawInks, List.count_append]; omega, b⟩
  | .popAnn :: rs, ws, vert, t, t', hs, hfr, he => by
    simp only [wsPrefOps, Bool.and_eq_true] at hs; simp only [runRows] at he
    obtain ⟨a, b⟩ := runRows_cnt c hc hm cfg d hfn rs ws vert t t' hs.2 hfr he
    exact ⟨by simp only [rawInks, List.count_append]; omega, b⟩
  | .text _ :: rs, ws, vert, t, t', hs, hfr, he => by
    simp only [wsPrefOps, Bool.and_eq_true] at hs; simp only [runRows] at he
    obtain ⟨a, b⟩ := runRows_cnt c hc hm cfg d hfn rs ws vert t t' hs.2 hfr he
    exact ⟨by simp only [rawInks, List.count_append]; omega, b⟩
  | .frag _ :: rs, ws, vert, t, t', hs, hfr, he => by
    simp only [wsPrefOps, Bool.and_eq_true] at hs; simp only [runRows] at he
    obtain ⟨a, b⟩ := runRows_cnt c hc hm cfg d hfn rs ws vert t t' hs.2 hfr he
    exact ⟨by simp only [rawInks, List.count_append]; omega, b⟩
  | .startLink _ :: rs, ws, vert, t, t', hs, hfr, he => by
    simp only [wsPrefOps, Bool.and_eq_true] at hs; simp only [runRows] at he
    obtain ⟨a, b⟩ := runRows_cnt c hc hm cfg d hfn rs ws vert t t' hs.2 hfr he
    exact ⟨by simp only [rawInks, List.count_append]; omega, b⟩
  | .endLink :: rs, ws, vert, t, t', hs, hfr, he => by
    simp only [wsPrefOps, Bool.and_eq_true] at hs; simp only [runRows] at he
    obtain ⟨a, b⟩ := runRows_cnt c hc hm cfg d hfn rs ws vert t t' hs.2 hfr he
    exact ⟨by simp only [rawInks, List.count_append]; omega, b⟩
  | .startAnn _ _ _ :: rs, ws, vert, t, t', hs, hfr, he => by
    simp only [wsPrefOps, Bool.and_eq_true] at hs; simp only [runRows] at he
    obtain ⟨a, b⟩ := runRows_cnt c hc hm cfg d hfn rs ws vert t t' hs.2 hfr he
    exact ⟨by simp only [rawInks, List.count_append]; omega, b⟩
  | .endAnn _ _ :: rs, ws, vert, t, t', hs, hfr, he => by
    simp only [wsPrefOps, Bool.and_eq_true] at hs; simp only [runRows] at he
    obtain ⟨a, b⟩ := runRows_cnt c hc hm cfg d hfn rs ws vert t t' hs.2 hfr he
    exact ⟨by simp only [rawInks, List.count_append]; omega, b⟩
  | .image _ _ :: rs, ws, vert, t, t', hs, hfr, he => by
    simp only [wsPrefOps, Bool.and_eq_true] at hs; simp only [runRows] at he
    obtain ⟨a, b⟩ := runRows_cnt c hc hm cfg d hfn rs ws vert t t' hs.2 hfr he
    exact ⟨by simp only [rawInks, List.count_append]; omega, b⟩
  | .startBlock :: rs, ws, vert, t, t', hs, hfr, he => by
    simp only [wsPrefOps, Bool.and_eq_true] at hs; simp only [runRows] at he
    obtain ⟨a, b⟩ := runRows_cnt c hc hm cfg d hfn rs ws vert t t' hs.2 hfr he
    exact ⟨by simp only [rawInks, List.count_append]; omega, b⟩
  | .endBlock :: rs, ws, vert, t, t', hs, hfr, he => by
    simp only [wsPrefOps, Bool.and_eq_true] at hs; simp only [runRows] at he
    obtain ⟨a, b⟩ := runRows_cnt c hc hm cfg d hfn rs ws vert t t' hs.2 hfr he
    exact ⟨by simp only [rawInks, List.count_append]; omega, b⟩
  | .newLine :: rs, ws, vert, t, t', hs, hfr, he => by
    simp only [wsPrefOps, Bool.and_eq_true] at hs; simp only [runRows] at he
    obtain ⟨a, b⟩ := runRows_cnt c hc hm cfg d hfn rs ws vert t t' hs.2 hfr he
    exact ⟨by simp only [rawInks, List.count_append]; omega, b⟩
  | .newLineHard :: rs, ws, vert, t, t', hs, hfr, he => by
    simp only [wsPrefOps, Bool.and_eq_true] at hs; simp only [runRows] at he
    obtain ⟨a, b⟩ := runRows_cnt c hc hm cfg d hfn rs ws vert t t' hs.2 hfr he
    exact ⟨by simp only [rawInks, List.count_append]; omega, b⟩
theorem runCells_cnt (c : Ch) (hc : isBox c = false) (hm : c ≠ strikeMark) (cfg : Cfg) (d : Deco) (hfn : cfg.footnotes = false) :
    (cells : List Op) → (ws : List Nat) → (vert : Bool) → (ann : Tag) → (links : List (List Ch)) →
    (l2 : List (List Ch)) → (subs : List SubR) → wsPrefOps cells = true →
    runCells SubR.widthMinus cfg d ws vert ann links cells = .ok (l2, subs) →
    (subs.map fun col => col.ink.count c).sum ≤ (rawInks d cells).count c ∧ ∀ col ∈ subs, col.FragsOk
  | [], ws, vert, ann, links, l2, subs, _, he => by
    simp [runCells] at he; obtain ⟨_, rfl⟩ := he; simp
  | .cell colno span body :: cs, ws, vert, ann, links, l2, subs, hs, he => by
    simp only [wsPrefOps, wsPrefOp, Bool.and_eq_true] at hs
    simp only [runCells] at he
    split at he
    · simp at he
    · split at he
      · obtain ⟨a, b⟩ := runCells_cnt c hc hm cfg d hfn cs ws vert ann links l2 subs hs.2 he
        exact ⟨by simp only [rawInks, List.count_append]; omega, b⟩
      · cases h1 : runOps SubR.widthMinus cfg d { links := links, cur := ({ width := cellOuter vert (cellInner ws vert colno span) span, annStack := ann } : SubR) } body with
        | error e => simp [h1, andThen] at he
        | ok r =>
          simp only [h1, andThen_ok_eq] at he
          obtain ⟨f1, f2, _⟩ := fresh_ink (cellOuter vert (cellInner ws vert colno span) span) ann
          obtain ⟨b1, b2⟩ := runOps_cnt c hc hm cfg d hfn body _ r hs.1 f2 h1
          rw [f1] at b1
          cases h2 : runCells SubR.widthMinus cfg d ws vert ann r.links cs with
          | error e => simp [h2, andThen_error_eq] at he
          | ok v =>
            obtain ⟨l3, subs2⟩ := v
            simp only [h2, andThen_ok_eq] at he
            injection he with he
            simp only [Prod.mk.injEq] at he
            obtain ⟨_, rfl⟩ := he
            obtain ⟨q1, q2⟩ := runCells_cnt c hc hm cfg d hfn cs ws vert ann r.links l3 subs2 hs.2 h2
            refine ⟨?_, ?_⟩
            · simp only [List.map_cons, List.sum_cons, rawInks, rawInk, List.count_append, List.count_nil, Nat.zero_add] at b1 ⊢
              omega
            · intro col hcol
              simp only [List.mem_cons] at hcol
              rcases hcol with rfl | hcol
              · exact b2
              · exact q2 col hcol
  | .sub _ _ _ _ _ _ :: cs, ws, vert, ann, links, l2, subs, hs, he => by
    simp only [wsPrefOps, Bool.and_eq_true] at hs; simp only [runCells] at he
    obtain ⟨a, b⟩ := runCells_cnt c hc hm cfg d hfn cs ws vert ann links l2 subs hs.2 he
    exact ⟨by simp only [rawInks, List.count_append]; omega, b⟩
  | .table _ _ :: cs, ws, vert, ann, links, l2, subs, hs, he => by
    simp only [wsPrefOps, Bool.and_eq_true] at hs; simp only [runCells] at he
    obtain ⟨a, b⟩ := runCells_cnt c hc hm cfg d hfn cs ws vert ann links l2 subs hs.2 he
    exact ⟨by simp only [rawInks, List.count_append]; omega, b⟩
  | .row _ _ _ :: cs, ws, vert, ann, links, l2, subs, hs, he => by
    simp only [wsPrefOps, Bool.and_eq_true] at hs; simp only [runCells] at he
    obtain ⟨a, b⟩ := runCells_cnt c hc hm cfg d hfn cs ws vert ann links l2 subs hs.2 he
    exact ⟨by simp only [rawInks, List.count_append]; omega, b⟩
  | .pushWs _ :: cs, ws, vert, ann, links, l2, subs, hs, he => by
    simp only [wsPrefOps, Bool.and_eq_true] at hs; simp only [runCells] at he
    obtain ⟨a, b⟩ := runCells_cnt c hc hm cfg d hfn cs ws vert ann links l2 subs hs.2 he
    exact ⟨by simp only [rawInks, List.count_append]; omega, b⟩
  | .popWs :: cs, ws, vert, ann, links, l2, subs, hs, he => by
    simp only [wsPrefOps, Bool.and_eq_true] at hs; simp only [runCells] at he
    obtain ⟨a, b⟩ := runCells_cnt c hc hm cfg d hfn cs ws vert ann links l2 subs hs.2 he
    exact ⟨by simp only [rawInks, List.count_append]; omega, b⟩
  | .pushPre :: cs, ws, vert, ann, links, l2, subs, hs, he => by
    simp only [wsPrefOps, Bool.and_eq_true] at hs; simp only [runCells] at he
    obtain ⟨a, b⟩ := runCells_cnt c hc hm cfg d hfn cs ws vert ann links l2 subs hs.2 he
    exact ⟨by simp only [rawInks, List.count_append]; omega, b⟩
  | .popPre :: cs, ws, vert, ann, links, l2, subs, hs, he => by
    simp only [wsPrefOps, Bool.and_eq_true] at hs; simp only [runCells] at he
    obtain ⟨a, b⟩ := runCells_cnt c hc hm cfg d hfn cs ws vert ann links l2 subs hs.2 he
    exact ⟨by simp only [rawInks, List.count_append]; omega, b⟩
  | .pushAnn _ :: cs, ws, vert, ann, links, l2, subs, hs, he => by
    simp only [wsPrefOps, Bool.and_eq_true] at hs; simp only [runCells] at he
    obtain ⟨a, b⟩ := runCells_cnt c hc hm cfg d hfn cs ws vert ann links l2 subs hs.2 he
    exact ⟨by simp only [rawInks, List.count_append]; omega, b⟩
  | .popAnn :: cs, ws, vert, ann, links, l2, subs, hs, he => by
    simp only [wsPrefOps, Bool.and_eq_true] at hs; simp only [runCells] at he
    obtain ⟨a, b⟩ := runCells_cnt c hc hm cfg d hfn cs ws vert ann links l2 subs hs.2 he
    exact ⟨by simp only [rawInks, List.count_append]; omega, b⟩
  | .text _ :: cs, ws, vert, ann, links, l2, subs, hs, he => by
    simp only [wsPrefOps, Bool.and_eq_true] at hs; simp only [runCells] at he
    obtain ⟨a, b⟩ := runCells_cnt c hc hm cfg d hfn cs ws vert ann links l2 subs hs.2 he
    exact ⟨by simp only [rawInks, List.count_append]; omega, b⟩
  | .frag _ :: cs, ws, vert, ann, links, l2, subs, hs, he => by
    simp only [wsPrefOps, Bool.and_eq_true] at hs; simp only [runCells] at he
    obtain ⟨a, b⟩ := runCells_cnt c hc hm cfg d hfn cs ws vert ann links l2 subs hs.2 he
    exact ⟨by simp only [rawInks, List.count_append]; omega, b⟩
  | .startLink _ :: cs, ws, vert, ann, links, l2, subs, hs, he => by
    simp only [wsPrefOps, Bool.and_eq_true] at hs; simp only [runCells] at he
    obtain ⟨a, b⟩ := runCells_cnt c hc hm cfg d hfn cs ws vert ann links l2 subs hs.2 he
    exact ⟨by simp only [rawInks, List.count_append]; omega, b⟩
  | .endLink :: cs, ws, vert, ann, links, l2, subs, hs, he => by
    simp only [wsPrefOps, Bool.and_eq_true] at hs; simp only [runCells] at he
    obtain ⟨a, b⟩ := runCells_cnt c hc hm cfg d hfn cs ws vert ann links l2 subs hs.2 he
    exact ⟨by simp only [rawInks, List.count_append]; omega, b⟩
  | .startAnn _ _ _ :: cs, ws, vert, ann, links, l2, subs, hs, he => by
    simp only [wsPrefOps, Bool.and_eq_true] at hs; simp only [runCells] at he
    obtain ⟨a, b⟩ := runCells_cnt c hc hm cfg d hfn cs ws vert ann links l2 subs hs.2 he
    exact ⟨by simp only [rawInks, List.count_append]; omega, b⟩
  | .endAnn _ _ :: cs, ws, vert, ann, links, l2, subs, hs, he => by
    simp only [wsPrefOps, Bool.and_eq_true] at hs; simp only [runCells] at he
    obtain ⟨a, b⟩ := runCells_cnt c hc hm cfg d hfn cs ws vert ann links l2 subs hs.2 he
    exact ⟨by simp only [rawInks, List.count_append]; omega, b⟩
  | .image _ _ :: cs, ws, vert, ann, links, l2, subs, hs, he => by
    simp only [wsPrefOps, Bool.and_eq_true] at hs; simp only [runCells] at he
    obtain ⟨a, b⟩ := runCells_cnt c hc hm cfg d hfn cs ws vert ann links l2 subs hs.2 he
    exact ⟨by simp only [rawInks, List.count_append]; omega, b⟩
  | .startBlock :: cs, ws, vert, ann, links, l2, subs, hs, he => by
    simp only [wsPrefOps, Bool.and_eq_true] at hs; simp only [runCells] at he
    obtain ⟨a, b⟩ := runCells_cnt c hc hm cfg d hfn cs ws vert ann links l2 subs hs.2 he
    exact ⟨by simp only [rawInks, List.count_append]; omega, b⟩
  | .endBlock :: cs, ws, vert, ann, links, l2, subs, hs, he => by
    simp only [wsPrefOps, Bool.and_eq_true] at hs; simp only [runCells] at he
    obtain ⟨a, b⟩ := runCells_cnt c hc hm cfg d hfn cs ws vert ann links l2 subs hs.2 he
    exact ⟨by simp only [rawInks, List.count_append]; omega, b⟩
  | .newLine :: cs, ws, vert, ann, links, l2, subs, hs, he => by
    simp only [wsPrefOps, Bool.and_eq_true] at hs; simp only [runCells] at he
    obtain ⟨a, b⟩ := runCells_cnt c hc hm cfg d hfn cs ws vert ann links l2 subs hs.2 he
    exact ⟨by simp only [rawInks, List.count_append]; omega, b⟩
  | .newLineHard :: cs, ws, vert, ann, links, l2, subs, hs, he => by
    simp only [wsPrefOps, Bool.and_eq_true] at hs; simp only [runCells] at he
    obtain ⟨a, b⟩ := runCells_cnt c hc hm cfg d hfn cs ws vert ann links l2 subs hs.2 he
    exact ⟨by simp only [rawInks, List.count_append]; omega, b⟩
end

end H2T
