import H2T.Lemmas.ConserveBlock
import H2T.Lemmas.TableTotal

/-! C03/C16: with a decorator whose block prefixes are whitespace (the trivial decorator), every table-free render tree
    compiles to a "silent" program; and for simple trees (text, inline emphasis, links, blocks, lists, quotes, headings,
    definitions, line breaks, markers) under the trivial decorator the ink of the program is just the text of the tree. -/

namespace H2T

theorem silentOps_append (a b : List Op) : silentOps (a ++ b) = (silentOps a && silentOps b) := by
  induction a with
  | nil => simp [silentOps]
  | cons x a ih => simp [silentOps, ih, Bool.and_assoc]

theorem styleOpen_silent (d : Deco) (st : Style) : silentOps (styleOpen d st) = true := by
  unfold styleOpen
  simp only [silentOps_append, Bool.and_eq_true]
  refine ⟨⟨⟨?_, ?_⟩, ?_⟩, ?_⟩ <;> (repeat' split) <;> simp [silentOps, silentOp]

theorem styleClose_silent (d : Deco) (st : Style) : silentOps (styleClose d st) = true := by
  unfold styleClose
  simp only [silentOps_append, Bool.and_eq_true]
  refine ⟨⟨⟨?_, ?_⟩, ?_⟩, ?_⟩ <;> (repeat' split) <;> simp [silentOps, silentOp]

/-- a decorator whose block prefixes (quote, bullet, number, heading) print only whitespace -/
def SilentDeco (d : Deco) : Prop :=
  d.quotePrefix.all chIsWs = true ∧ d.ulPrefix.all chIsWs = true ∧ (∀ i, (d.olPrefix i).all chIsWs = true) ∧
  (∀ l, (d.headerPrefix l).all chIsWs = true)

theorem trivial_silent : SilentDeco Deco.trivial := ⟨rfl, rfl, fun _ => rfl, fun _ => rfl⟩

theorem all_replicate_space (n : Nat) : (List.replicate n spaceCh).all chIsWs = true := by
  induction n with
  | zero => rfl
  | succ n ih => simp [List.replicate_succ, chIsWs, spaceCh] at ih ⊢

theorem all_padTo (s : List Ch) (n : Nat) (h : s.all chIsWs = true) : (padTo s n).all chIsWs = true := by
  simp only [padTo, List.all_append, Bool.and_eq_true]
  exact ⟨h, all_replicate_space _⟩

mutual
theorem compile_silent (cfg : Cfg) (d : Deco) (hd : SilentDeco d) : (n : RNode) → noTable n = true → silentOps (compile cfg d n) = true
  | .text st s, _ => by simp [compile, silentOps_append, styleOpen_silent, styleClose_silent, silentOps, silentOp]
  | .img st a b, _ => by simp [compile, silentOps_append, styleOpen_silent, styleClose_silent, silentOps, silentOp]
  | .br st, _ => by simp [compile, silentOps_append, styleOpen_silent, styleClose_silent, silentOps, silentOp]
  | .frag n, _ => by simp [compile, silentOps, silentOp]
  | .row _ _, _ => by simp [compile, silentOps]
  | .tbody _ _, _ => by simp [compile, silentOps]
  | .table _ _ _, h => by simp [noTable] at h
  | .cell st _ kids, h => by
    simp only [noTable] at h
    simp [compile, silentOps_append, styleOpen_silent, styleClose_silent, compileList_silent cfg d hd kids h]
  | .box st k kids, h => by
    simp only [noTable] at h
    have hb := compileList_silent cfg d hd kids h
    cases k with
    | container => simp [compile, silentOps_append, styleOpen_silent, styleClose_silent, hb]
    | link href => simp [compile, silentOps_append, styleOpen_silent, styleClose_silent, hb, silentOps, silentOp]
    | em => simp [compile, silentOps_append, styleOpen_silent, styleClose_silent, hb, silentOps, silentOp]
    | strong => simp [compile, silentOps_append, styleOpen_silent, styleClose_silent, hb, silentOps, silentOp]
    | strike => simp [compile, silentOps_append, styleOpen_silent, styleClose_silent, hb, silentOps, silentOp]
    | code => simp [compile, silentOps_append, styleOpen_silent, styleClose_silent, hb, silentOps, silentOp]
    | block => simp [compile, silentOps_append, styleOpen_silent, styleClose_silent, hb, silentOps, silentOp]
    | li => simp [compile, silentOps_append, styleOpen_silent, styleClose_silent, hb, silentOps, silentOp]
    | header lvl => simp [compile, silentOps_append, styleOpen_silent, styleClose_silent, hb, silentOps, silentOp, hd.2.2.2 lvl]
    | div => simp [compile, silentOps_append, styleOpen_silent, styleClose_silent, hb, silentOps, silentOp]
    | quote => simp [compile, silentOps_append, styleOpen_silent, styleClose_silent, hb, silentOps, silentOp, hd.1]
    | ul =>
      simp only [compile, silentOps_append, styleOpen_silent, styleClose_silent, Bool.true_and, Bool.and_true]
      exact compileItems_silent cfg d hd _ _ _ _ 0 kids h (fun _ => hd.2.1) (all_replicate_space _)
    | ol start =>
      simp only [compile, silentOps_append, styleOpen_silent, styleClose_silent, Bool.true_and, Bool.and_true]
      exact compileItems_silent cfg d hd _ _ _ _ 0 kids h (fun _ => all_padTo _ _ (hd.2.2.1 _)) (all_replicate_space _)
    | dl => simp [compile, silentOps_append, styleOpen_silent, styleClose_silent, hb, silentOps, silentOp]
    | dt => simp [compile, silentOps_append, styleOpen_silent, styleClose_silent, hb, silentOps, silentOp]
    | dd => simp [compile, silentOps_append, styleOpen_silent, styleClose_silent, hb, silentOps, silentOp, strCh, chIsWs, spaceCh]
    | sup =>
      simp only [compile]
      split <;> simp [silentOps_append, styleOpen_silent, styleClose_silent, hb, silentOps, silentOp]
theorem compileList_silent (cfg : Cfg) (d : Deco) (hd : SilentDeco d) : (ns : List RNode) → noTableL ns = true → silentOps (compileList cfg d ns) = true
  | [], _ => by simp [compileList, silentOps]
  | n :: ns, h => by
    simp only [noTableL, Bool.and_eq_true] at h
    simp [compileList, silentOps_append, compile_silent cfg d hd n h.1, compileList_silent cfg d hd ns h.2]
theorem compileItems_silent (cfg : Cfg) (d : Deco) (hd : SilentDeco d) (pw minW : Nat) (first : Nat → List Ch) (rest : List Ch) :
    (i : Nat) → (ns : List RNode) → noTableL ns = true → (∀ j, (first j).all chIsWs = true) → rest.all chIsWs = true →
    silentOps (compileItems cfg d pw minW first rest i ns) = true
  | _, [], _, _, _ => by simp [compileItems, silentOps]
  | i, n :: ns, h, hf, hr => by
    simp only [noTableL, Bool.and_eq_true] at h
    simp only [compileItems, silentOps, silentOp, Bool.and_eq_true]
    exact ⟨⟨⟨hf i, hr⟩, compile_silent cfg d hd n h.1⟩, compileItems_silent cfg d hd pw minW first rest (i + 1) ns h.2 hf hr⟩
end

/-! ## the ink of simple trees under the trivial decorator is their text -/

theorem opsInk_append (cfg : Cfg) (d : Deco) : ∀ (a b : List Op) (dep : Nat),
    opsInk cfg d dep (a ++ b) = ((opsInk cfg d dep a).1 ++ (opsInk cfg d (opsInk cfg d dep a).2 b).1, (opsInk cfg d (opsInk cfg d dep a).2 b).2) := by
  intro a
  induction a with
  | nil => intro b dep; simp [opsInk]
  | cons x a ih => intro b dep; simp only [List.cons_append, opsInk, ih, List.append_assoc]

theorem opsInk_silent_append (cfg : Cfg) (d : Deco) (a b : List Op) (ha : ∀ dep, opsInk cfg d dep a = ([], dep)) (dep : Nat) :
    opsInk cfg d dep (a ++ b) = opsInk cfg d dep b := by
  rw [opsInk_append, ha]; simp

theorem iterN_strike_nil (n : Nat) : iterN strikeFilter n [] = [] := by
  induction n with
  | zero => rfl
  | succ n ih => simp only [iterN]; exact ih

theorem opsInk_styleOps (cfg : Cfg) (d : Deco) : ∀ (a : List Op) (dep : Nat), (∀ op ∈ a, isStyleOp op = true) → opsInk cfg d dep a = ([], dep) := by
  intro a
  induction a with
  | nil => intro dep _; rfl
  | cons op a ih =>
    intro dep h
    have hop := h op (by simp)
    have hrest := ih dep (fun x hx => h x (by simp [hx]))
    cases op <;> simp [isStyleOp] at hop <;> simp [opsInk, opInk, hrest]

theorem styleOpen_ink (cfg : Cfg) (d : Deco) (st : Style) (dep : Nat) : opsInk cfg d dep (styleOpen d st) = ([], dep) :=
  opsInk_styleOps cfg d _ dep (styleOpen_style d st)

theorem styleClose_ink (cfg : Cfg) (d : Deco) (st : Style) (dep : Nat) : opsInk cfg d dep (styleClose d st) = ([], dep) :=
  opsInk_styleOps cfg d _ dep (styleClose_style d st)

mutual
/-- trees made of text, line breaks, markers and boxes other than strikeout and superscript (no images, no tables) -/
def simpleTree : RNode → Bool
  | .text _ _ => true
  | .br _ => true
  | .frag _ => true
  | .box _ k kids => (match k with | .strike => false | .sup => false | _ => true) && simpleL kids
  | _ => false
def simpleL : List RNode → Bool
  | [] => true
  | n :: ns => simpleTree n && simpleL ns
end

mutual
/-- the text of a tree: the non-whitespace, non-control characters of its text nodes, in document order -/
def plainText : RNode → List Ch
  | .text _ s => keep s
  | .box _ _ kids => plainTextL kids
  | _ => []
def plainTextL : List RNode → List Ch
  | [] => []
  | n :: ns => plainText n ++ plainTextL ns
end

theorem keep_nil : keep [] = [] := rfl

theorem trivial_affixes : Deco.trivial.linkStart = [] ∧ Deco.trivial.linkEnd = [] ∧ Deco.trivial.emStart = [] ∧ Deco.trivial.emEnd = [] ∧
    Deco.trivial.strongStart = [] ∧ Deco.trivial.strongEnd = [] ∧ Deco.trivial.codeStart = [] ∧ Deco.trivial.codeEnd = [] :=
  ⟨rfl, rfl, rfl, rfl, rfl, rfl, rfl, rfl⟩

mutual
theorem compile_plainText (cfg : Cfg) : (n : RNode) → simpleTree n = true →
    opsInk cfg Deco.trivial 0 (compile cfg Deco.trivial n) = (plainText n, 0)
  | .text st s, _ => by
    simp [compile, opsInk_append, styleOpen_ink, styleClose_ink, opsInk, opInk, iterN, plainText]
  | .br st, _ => by simp [compile, opsInk_append, styleOpen_ink, styleClose_ink, opsInk, opInk, plainText]
  | .frag n, _ => by simp [compile, opsInk, opInk, plainText]
  | .img _ _ _, h => by simp [simpleTree] at h
  | .cell _ _ _, h => by simp [simpleTree] at h
  | .row _ _, h => by simp [simpleTree] at h
  | .tbody _ _, h => by simp [simpleTree] at h
  | .table _ _ _, h => by simp [simpleTree] at h
  | .box st k kids, h => by
    simp only [simpleTree, Bool.and_eq_true] at h
    have hb := compileList_plainText cfg kids h.2
    cases k with
    | strike => simp at h
    | sup => simp at h
    | container => simp [compile, opsInk_append, styleOpen_ink, styleClose_ink, hb, plainText]
    | link href => simp [compile, opsInk_append, styleOpen_ink, styleClose_ink, hb, plainText, opsInk, opInk, trivial_affixes, iterN_strike_nil, keep_nil]
    | em => simp [compile, opsInk_append, styleOpen_ink, styleClose_ink, hb, plainText, opsInk, opInk, trivial_affixes, iterN_strike_nil, keep_nil]
    | strong => simp [compile, opsInk_append, styleOpen_ink, styleClose_ink, hb, plainText, opsInk, opInk, trivial_affixes, iterN_strike_nil, keep_nil]
    | code => simp [compile, opsInk_append, styleOpen_ink, styleClose_ink, hb, plainText, opsInk, opInk, trivial_affixes, iterN_strike_nil, keep_nil]
    | block => simp [compile, opsInk_append, styleOpen_ink, styleClose_ink, hb, plainText, opsInk, opInk]
    | li => simp [compile, opsInk_append, styleOpen_ink, styleClose_ink, hb, plainText, opsInk, opInk]
    | header lvl => simp [compile, opsInk_append, styleOpen_ink, styleClose_ink, hb, plainText, opsInk, opInk]
    | div => simp [compile, opsInk_append, styleOpen_ink, styleClose_ink, hb, plainText, opsInk, opInk]
    | quote => simp [compile, opsInk_append, styleOpen_ink, styleClose_ink, hb, plainText, opsInk, opInk]
    | ul => simp [compile, opsInk_append, styleOpen_ink, styleClose_ink, plainText, compileItems_plainText cfg _ _ _ _ 0 kids h.2]
    | ol start => simp [compile, opsInk_append, styleOpen_ink, styleClose_ink, plainText, compileItems_plainText cfg _ _ _ _ 0 kids h.2]
    | dl => simp [compile, opsInk_append, styleOpen_ink, styleClose_ink, hb, plainText, opsInk, opInk]
    | dt => simp [compile, opsInk_append, styleOpen_ink, styleClose_ink, hb, plainText, opsInk, opInk, trivial_affixes, iterN_strike_nil, keep_nil]
    | dd => simp [compile, opsInk_append, styleOpen_ink, styleClose_ink, hb, plainText, opsInk, opInk]
theorem compileList_plainText (cfg : Cfg) : (ns : List RNode) → simpleL ns = true →
    opsInk cfg Deco.trivial 0 (compileList cfg Deco.trivial ns) = (plainTextL ns, 0)
  | [], _ => by simp [compileList, opsInk, plainTextL]
  | n :: ns, h => by
    simp only [simpleL, Bool.and_eq_true] at h
    simp [compileList, opsInk_append, compile_plainText cfg n h.1, compileList_plainText cfg ns h.2, plainTextL]
theorem compileItems_plainText (cfg : Cfg) (pw minW : Nat) (first : Nat → List Ch) (rest : List Ch) : (i : Nat) → (ns : List RNode) →
    simpleL ns = true → opsInk cfg Deco.trivial 0 (compileItems cfg Deco.trivial pw minW first rest i ns) = (plainTextL ns, 0)
  | _, [], _ => by simp [compileItems, opsInk, plainTextL]
  | i, n :: ns, h => by
    simp only [simpleL, Bool.and_eq_true] at h
    simp [compileItems, opsInk, opInk, compile_plainText cfg n h.1, compileItems_plainText cfg pw minW first rest (i + 1) ns h.2, plainTextL]
end

theorem simple_noTable : (n : RNode) → simpleTree n = true → noTable n = true
  | .text _ _, _ => rfl
  | .br _, _ => rfl
  | .frag _, _ => rfl
  | .img _ _ _, h => by simp [simpleTree] at h
  | .cell _ _ _, h => by simp [simpleTree] at h
  | .row _ _, h => by simp [simpleTree] at h
  | .tbody _ _, h => by simp [simpleTree] at h
  | .table _ _ _, h => by simp [simpleTree] at h
  | .box st k kids, h => by
    simp only [simpleTree, Bool.and_eq_true] at h
    simp only [noTable]
    exact simpleL_noTable kids h.2
where
  simpleL_noTable : (ns : List RNode) → simpleL ns = true → noTableL ns = true
  | [], _ => rfl
  | n :: ns, h => by
    simp only [simpleL, Bool.and_eq_true] at h
    simp only [noTableL, Bool.and_eq_true]
    exact ⟨simple_noTable n h.1, simpleL_noTable ns h.2⟩

/-- **C03/C16 for the trivial decorator**: for every simple render tree (text, inline emphasis/strong/code, links, blocks,
    lists, quotes, headings, definitions, line breaks, markers), every configuration without footnotes and every width, if
    rendering succeeds then the non-whitespace characters of the output, in order, are exactly the non-whitespace
    characters of the tree's text — nothing lost, duplicated, reordered or invented -/
theorem trivial_text_preserved (cfg : Cfg) (w : Nat) (tree : RNode) (ls : List RLine) (hfn : cfg.footnotes = false)
    (hs : simpleTree tree = true) (h : renderTree cfg Deco.trivial w tree = .ok ls) : ls.flatMap rink = plainText tree := by
  rw [renderTree_ink cfg Deco.trivial w tree ls hfn (compile_silent cfg _ trivial_silent tree (simple_noTable tree hs)) h,
    compile_plainText cfg tree hs]

end H2T
