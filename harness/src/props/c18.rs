//! C18: display:none hides exactly the matched subtrees; document styles are inert unless enabled.

use super::common::*;
use super::css_common::*;
use crate::cfg::Cfg;
use crate::domwalk::{self, N};
use crate::gen::Knobs;
use crate::obs::Obs;
use crate::refcss::{self, Sel};
use crate::util::R;
use crate::{run, Case, Prop, Tier, Viol};

pub struct C18;

fn knobs() -> Knobs {
    let mut k = Knobs::all().unique();
    k.classes_only = true;
    k.href_digits = true;
    k.digits = false;
    k.weird_colspan = false;
    k.comments = false;
    k
}

const HIDE_DECLS: &[&str] = &["display:none", "display: none;", "DISPLAY:NONE", "height:0;overflow:hidden", "max-height:0px;overflow-y:hidden;", "overflow:hidden;height:0em"];

/// address of an element: child indices from the document node
fn addr_of(f: &domwalk::Flat, e: usize) -> Vec<usize> {
    // element ids are preorder; recompute the address by walking parents
    let mut v = Vec::new();
    let mut cur = e;
    loop {
        match f.elems[cur].parent {
            Some(p) => {
                let pos = f.elems[p].node.kids().iter().position(|k| std::ptr::eq(k, f.elems[cur].node)).unwrap_or(0);
                v.push(pos);
                cur = p;
            }
            None => break,
        }
    }
    v.reverse();
    v
}

impl Prop for C18 {
    fn id(&self) -> &'static str {
        "C18"
    }
    fn rule(&self) -> &'static str {
        "canonically serialised G-doc (classes/ids over lists, tables, links, headings) x sheets of 1-3 hiding rules (display:none or the zero-height + hidden-overflow idiom; class/id/element/descendant/child/nth-child selectors, any origin) or inline hiding styles: render with CSS == render of the document with the hidden subtrees deleted (same bytes, same tags and markers), widths 1..100; and with use_doc_css off, render(d) == render(d without style elements/attributes); non-trivial = something is hidden and something remains"
    }
    fn cases(&self, r: &mut R, tier: Tier) -> Vec<Case> {
        let n = scale(tier, 2500, 40000);
        let mut v = Vec::new();
        for _ in 0..n {
            let raw = gen_doc(r, knobs()).0;
            let dom0 = domwalk::tree(raw.as_bytes());
            let mut html = domwalk::to_html(&dom0);
            let dom = domwalk::tree(html.as_bytes());
            if !domwalk::same_tree(&dom0, &dom) {
                continue;
            }
            let fl = flat_of(&dom);
            if fl.elems.is_empty() {
                continue;
            }
            let mut cfg = mk_cfg(r, false);
            cfg.overflow = false;
            let mode = r.b(10);
            let mut aux = String::new();
            if mode < 6 {
                // hiding rules in a sheet
                let nr = 1 + r.u(3);
                let mut sheet = String::new();
                let mut sels = Vec::new();
                for _ in 0..nr {
                    let s: Sel = if r.p(80) { super::c20::targeted_pub(r, &fl) } else { refcss::gen_sel(r, &["p", "li", "td", "tr", "table", "a", "em", "div", "ul", "h2", "span", "dd"], 2) };
                    // never hide the root or the body wholesale too often
                    sheet.push_str(&format!("{}{{{}}}\n", s.print(r), r.pick(HIDE_DECLS)));
                    sels.push(super::c20::enc_sel_pub(&s));
                }
                match r.b(3) {
                    0 => cfg.user_css = Some(sheet),
                    1 => cfg.agent_css = Some(sheet),
                    _ => {
                        cfg.use_doc_css = true;
                        // the style element leads the document (hoisted into <head>) or follows the body content (stays
                        // inside <body>, as the last child: no earlier sibling's position changes)
                        html = if r.p(50) { format!("<style>{sheet}</style>{html}") } else { format!("{html}<style>{sheet}</style>") };
                    }
                }
                aux = format!("S{}", sels.join("\n"));
            } else if mode < 8 {
                // inline hiding styles on random elements
                cfg.use_doc_css = true;
                let k = 1 + r.u(2);
                let mut targets: Vec<Vec<usize>> = Vec::new();
                for _ in 0..k {
                    let e = r.u(fl.elems.len());
                    if matches!(fl.elems[e].node.name(), "html" | "body" | "head") {
                        continue;
                    }
                    targets.push(addr_of(&fl, e));
                }
                let decl = r.pick(HIDE_DECLS).to_string();
                let marked = mark(&dom, &targets, &decl);
                html = domwalk::to_html(&marked);
                aux = "I".to_string();
            } else {
                // use_doc_css off: document styles are inert
                cfg.use_doc_css = false;
                let sheet = format!("{}{{{}}} p{{color:red}}", refcss::gen_sel(r, &["p", "li", "div", "em"], 2).print(r), r.pick(HIDE_DECLS));
                let e = r.u(fl.elems.len());
                let marked = mark(&dom, &[addr_of(&fl, e)], "display:none;color:#123456");
                html = format!("<style>{sheet}</style>{}", domwalk::to_html(&marked));
                aux = "G".to_string();
            }
            let w = if r.p(40) { 1 + r.u(16) } else { 1 + r.u(100) };
            let mut c = case(html, cfg, w, match aux.chars().next() { Some('S') => "sheet", Some('I') => "inline-style", _ => "gate" });
            c.aux = aux;
            v.push(c);
        }
        v
    }
    fn oracle(&self, c: &Case, o: &Obs) -> Vec<Viol> {
        let mut out = vec![];
        if c.aux.is_empty() {
            return out;
        }
        let dom = domwalk::tree(&c.html);
        let strip_attr = |a: &str| !matches!(a, "style" | "color" | "bgcolor");
        let not_style = |n: &N| !n.is("style");
        let mut cfg2 = c.cfg.clone();
        cfg2.use_doc_css = false;
        cfg2.user_css = None;
        cfg2.agent_css = None;
        if c.aux == "G" {
            let stripped = domwalk::prune(&dom, &not_style, &strip_attr);
            let h2 = domwalk::to_html(&stripped);
            if !domwalk::same_tree(&domwalk::prune(&domwalk::tree(h2.as_bytes()), &|_| true, &|_| true), &stripped) {
                return out;
            }
            let o2 = run(h2.as_bytes(), &cfg2, c.width);
            if *o != o2 {
                out.push(viol(format!("document styles have an effect although use_doc_css is off: {} vs {} (stripped: {:?})", o.short(), o2.short(), h2)));
            }
            return out;
        }
        // the hidden set, by the reference matcher
        let f = flat_of(&dom);
        let sels: Vec<Sel> = if let Some(t) = c.aux.strip_prefix('S') { t.lines().filter_map(super::c20::dec_sel_pub).collect() } else { vec![] };
        let mut hidden: Vec<*const N> = Vec::new();
        for e in 0..f.elems.len() {
            let node = f.elems[e].node;
            let by_rule = !sels.is_empty() && { let p = f.path(e); sels.iter().any(|s| refcss::sel_matches(s, &p)) };
            let by_style = c.cfg.use_doc_css && node.attr("style").map(|s| { let l = s.to_lowercase(); l.contains("display") || l.contains("overflow") }).unwrap_or(false);
            if by_rule || by_style {
                hidden.push(node as *const N);
            }
        }
        let keep = |n: &N| !hidden.contains(&(n as *const N)) && !n.is("style");
        let pruned = domwalk::prune(&dom, &keep, &strip_attr);
        let h2 = domwalk::to_html(&pruned);
        let back = domwalk::prune(&domwalk::tree(h2.as_bytes()), &|_| true, &|_| true);
        if !domwalk::same_tree(&back, &pruned) {
            return out; // the pruned tree does not survive serialisation (html5ever re-structures it): not a usable reference
        }
        let o2 = run(h2.as_bytes(), &cfg2, c.width);
        if *o != o2 {
            let hidden_desc: Vec<String> = (0..f.elems.len()).filter(|e| hidden.contains(&(f.elems[*e].node as *const N))).map(|e| f.chain(e).iter().map(|x| format!("{}#{}", f.elems[*x].node.name(), f.elems[*x].idx)).collect::<Vec<_>>().join(">")).collect();
            out.push(viol(format!("rendering with the hiding CSS differs from rendering the document with the hidden subtrees deleted: {}; hidden by the reference: {:?}", first_diff(o, &o2), hidden_desc)));
        }
        out
    }
    fn project(&self, _c: &Case, o: &Obs) -> String {
        whole(o)
    }
}

/// add `style="decl"` to the elements at the given addresses
fn mark(n: &N, targets: &[Vec<usize>], decl: &str) -> N {
    fn go(n: &N, here: &mut Vec<usize>, targets: &[Vec<usize>], decl: &str) -> N {
        match n {
            N::Doc(k) => N::Doc(k.iter().enumerate().map(|(i, c)| { here.push(i); let r = go(c, here, targets, decl); here.pop(); r }).collect()),
            N::Elem { name, html, attrs, kids } => {
                let mut a = attrs.clone();
                if targets.iter().any(|t| t == here) {
                    a.retain(|x| x.0 != "style");
                    a.push(("style".into(), decl.into()));
                }
                N::Elem { name: name.clone(), html: *html, attrs: a, kids: kids.iter().enumerate().map(|(i, c)| { here.push(i); let r = go(c, here, targets, decl); here.pop(); r }).collect() }
            }
            x => x.clone(),
        }
    }
    go(n, &mut Vec::new(), targets, decl)
}
