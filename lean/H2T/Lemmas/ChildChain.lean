import H2T.Css.Cascade

/-! C20: what repeated child combinators mean.  `> > … > B` (k combinators, nothing to their left) matches an element named
    `B` that has at least k ancestors, the document node included; `A > > … > B` one whose k-th ancestor is an element named
    `A`.  (The reference semantics of the harness's `child-chains` stream.) -/

namespace H2T

namespace Css

/-- climbing `k` child combinators with enough fuel: succeeds iff there are `k` ancestors, then continues with `rest` there -/
theorem doMatches_children (rest : List SelComp) : ∀ (k : Nat) (chain : List Frame) (fuel : Nat), k < fuel → chain ≠ [] →
    doMatches (List.replicate k .child ++ rest) chain fuel =
      (if k < chain.length then doMatches rest (chain.drop k) (fuel - k) else .no) := by
  intro k
  induction k with
  | zero =>
    intro chain fuel hf hc
    have : 0 < chain.length := List.length_pos_iff.mpr hc
    simp [this]
  | succ k ih =>
    intro chain fuel hf hc
    cases chain with
    | nil => exact absurd rfl hc
    | cons node up =>
      cases fuel with
      | zero => omega
      | succ fuel =>
        simp only [List.replicate_succ, List.cons_append, doMatches]
        cases up with
        | nil => simp
        | cons p ups =>
          simp only [List.isEmpty_cons, Bool.false_eq_true, if_false]
          rw [ih (p :: ups) fuel (by omega) (by simp)]
          simp only [List.length_cons, List.drop_succ_cons, Nat.add_lt_add_iff_right, Nat.add_sub_add_right]

/-- **a leading chain of `k` child combinators in front of an element name**: the selector `(>)^k B` (stored right-most first as
    `[elem B, child, …, child]`) matches the node at the head of `chain` iff it is an element named `B` with at least `k`
    ancestors — the document node counts -/
theorem leading_child_chain (b : String) (k : Nat) (node : Frame) (up : List Frame) (fuel : Nat) (hf : k + 2 ≤ fuel) :
    doMatches (.elem b :: List.replicate k .child) (node :: up) fuel =
      (if node.isElem && node.name = b then (if k ≤ up.length then .yes else .no) else .no) := by
  cases fuel with
  | zero => omega
  | succ fuel =>
    simp only [doMatches]
    split
    · have := doMatches_children [] k (node :: up) fuel (by omega) (by simp)
      simp only [List.append_nil] at this
      rw [this]
      simp only [List.length_cons]
      by_cases hk : k ≤ up.length
      · have h1 : k < up.length + 1 := by omega
        simp only [h1, if_true, hk]
        cases hfu : fuel - k with
        | zero => omega
        | succ f => simp [doMatches]
      · have h1 : ¬ k < up.length + 1 := by omega
        simp [h1, hk]
    · rfl

/-- **`A (>)^k B`** (k ≥ 1): the node is an element named `B` and its k-th ancestor is an element named `A` -/
theorem child_chain_between (a b : String) (k : Nat) (node : Frame) (up : List Frame) (fuel : Nat) (hk : 1 ≤ k) (hf : k + 3 ≤ fuel) :
    doMatches (.elem b :: (List.replicate k .child ++ [.elem a])) (node :: up) fuel =
      (if node.isElem && node.name = b then
        (match up[k - 1]? with
         | some anc => if anc.isElem && anc.name = a then .yes else .no
         | none => .no)
       else .no) := by
  cases fuel with
  | zero => omega
  | succ fuel =>
    simp only [doMatches]
    split
    · rw [doMatches_children [.elem a] k (node :: up) fuel (by omega) (by simp)]
      simp only [List.length_cons]
      obtain ⟨j, rfl⟩ : ∃ j, k = j + 1 := ⟨k - 1, by omega⟩
      simp only [List.drop_succ_cons, Nat.add_sub_cancel, Nat.add_lt_add_iff_right]
      by_cases hj : j < up.length
      · simp only [hj, if_true]
        have hd : up.drop j = up[j] :: up.drop (j + 1) := (List.drop_eq_getElem_cons hj)
        rw [hd, List.getElem?_eq_getElem hj]
        obtain ⟨f, hfe⟩ : ∃ f, fuel - (j + 1) = f + 2 := ⟨fuel - (j + 1) - 2, by omega⟩
        rw [hfe]
        simp only [doMatches]
      · have : up[j]? = none := List.getElem?_eq_none (by omega)
        simp [hj, this]
    · rfl

end Css

end H2T
