import H2T.Lemmas.ConserveTagTable

/-! C09 with tables, program layer: no tagged cell is invented.  For every viewed cell `y` (a character that is neither
    box-drawing nor part of a block prefix, with a tag vector) the number of its occurrences in the output is at most
    the number of its occurrences in the specification `opsTinkT` — tables, nested tables, stacked rows included; the
    specification threads the annotation stack through the rows' style brackets into the cells. -/

namespace H2T

/-- the cells whose view is `y` -/
def qy (ν : Tag → Tag) (y : Cell) (c : Cell) : Bool := decide (retag ν c = y)

theorem qy_ch (ν : Tag → Tag) (y c : Cell) (h : qy ν y c = true) : c.ch = y.ch := by
  simp only [qy, decide_eq_true_eq] at h
  rw [← h]; rfl

theorem count_map_retag (ν : Tag → Tag) (y : Cell) (l : List Cell) : (l.map (retag ν)).count y = l.countP (qy ν y) := by
  rw [List.count_eq_countP, List.countP_map]
  apply List.countP_congr
  intro c _
  simp [qy, Function.comp]

theorem count_vw (ν : Tag → Tag) (P : Ch → Bool) (y : Cell) (hy : P y.ch = true) (l : List Cell) :
    (vw ν P l).count y = l.countP (qy ν y) := by
  rw [← count_map_retag]
  exact List.count_filter (by simpa using hy)

theorem count_pf (P : Ch → Bool) (y : Cell) (hy : P y.ch = true) (l : List Cell) : (pf P l).count y = l.count y :=
  List.count_filter (by simpa using hy)

section
variable (q : Cell → Bool) (hq : ∀ y, q y = true → isBox y.ch = false) (P : Ch → Bool) (hqP : ∀ y, q y = true → P y.ch = true)
include hq hqP

omit hq in
theorem tcnt_prefixCells (tag : Tag) (p : List Ch) (h : avoids P p = true) : (tink (p.map fun x => Elt.cell ⟨x, tag⟩)).countP q = 0 := by
  apply List.countP_eq_zero.mpr
  intro y hy
  simp only [tink, List.mem_filterMap, List.mem_map] at hy
  obtain ⟨e, ⟨x, hx, rfl⟩, he⟩ := hy
  simp only at he
  split at he
  · simp at he
  · rename_i hws
    injection he with he; subst he
    intro hqy
    have := hqP _ hqy
    simp only [avoids, List.all_eq_true, Bool.or_eq_true, Bool.not_eq_true'] at h
    rcases h x hx with hw | hp
    · exact hws hw
    · simp only at this; rw [hp] at this; cases this

theorem prefixLine_tcnt (tag : Tag) (p : List Ch) (l : RLine) (h : avoids P p = true) :
    (trink (prefixLine tag p l)).countP q = (trink l).countP q := by
  cases l with
  | text tl =>
    simp only [prefixLine]
    split
    · rfl
    · simp [trink, tink_append, List.countP_append, tcnt_prefixCells q P hqP tag p h]
  | rule b t =>
    simp only [prefixLine, trink, List.map_append, tink_append, List.countP_append, List.countP_nil,
      tcnt_prefixCells q P hqP tag p h, tcnt_borderCells q hq tag b]

theorem appendSub_tcnt (s other s' : SubR) (first rest : List Ch) (hf : s.FragsOk) (ho : other.FragsOk)
    (h1 : avoids P first = true) (h2 : avoids P rest = true) (h : s.appendSub other first rest = .ok s') :
    s'.tink.countP q = s.tink.countP q + other.tink.countP q ∧ s'.FragsOk := by
  unfold SubR.appendSub at h
  cases e1 : s.flushWrapping with
  | error e => simp [e1, andThen] at h
  | ok s1 =>
    simp only [e1, andThen] at h
    obtain ⟨a1, a2, a3⟩ := flushWrapping_tink s s1 hf e1
    cases e2 : other.intoLines with
    | error e => simp [e2] at h
    | ok ls =>
      simp only [e2] at h; injection h with h; subst h
      obtain ⟨b1, b2, _⟩ := addLines_tink (zipPrefix s1.annStack first rest ls) s1 a2 a3
      refine ⟨?_, b2⟩
      rw [b1, List.countP_append, a1, ← intoLines_tink other ls ho e2]
      congr 1
      cases ls with
      | nil => rfl
      | cons l ls =>
        simp only [zipPrefix, List.flatMap_cons, List.countP_append, prefixLine_tcnt q hq P hqP _ first l h1]
        congr 1
        rw [countP_flatMap', countP_flatMap', List.map_map]
        congr 1
        apply List.map_congr_left
        intro x _
        exact prefixLine_tcnt q hq P hqP _ rest x h2

end

mutual
/-- programs these theorems cover: every block prefix avoids the alphabet — tables, rows and cells at any depth -/
def tOkOp (P : Ch → Bool) : Op → Bool
  | .sub _ _ first rest _ body => avoids P first && avoids P rest && tOkOps P body
  | .table _ rows => tOkOps P rows
  | .row pre post cells => tOkOps P pre && tOkOps P post && tOkOps P cells
  | .cell _ _ body => tOkOps P body
  | _ => true
def tOkOps (P : Ch → Bool) : List Op → Bool
  | [] => true
  | op :: ops => tOkOp P op && tOkOps P ops
end

mutual
/-- the specification with tables: rows run their style brackets on the table's renderer; every cell starts from the stack
    in force after the row's opening bracket, with a fresh strikeout count and `pre` depth -/
def opTinkT (ν : Tag → Tag) (cfg : Cfg) (d : Deco) (st : Tag) (dep pre : Nat) : Op → List Cell × Tag × Nat × Nat
  | .sub _ _ _ _ _ body => ((opsTinkT ν cfg d st 0 0 body).1, st, dep, pre)
  | .table _ rows => rowsTinkT ν cfg d st dep pre rows
  | .row _ _ _ => ([], st, dep, pre)
  | .cell _ _ _ => ([], st, dep, pre)
  | op => opTinkN ν cfg d st dep pre op
def opsTinkT (ν : Tag → Tag) (cfg : Cfg) (d : Deco) (st : Tag) (dep pre : Nat) : List Op → List Cell × Tag × Nat × Nat
  | [] => ([], st, dep, pre)
  | op :: r =>
    ((opTinkT ν cfg d st dep pre op).1 ++
        (opsTinkT ν cfg d (opTinkT ν cfg d st dep pre op).2.1 (opTinkT ν cfg d st dep pre op).2.2.1 (opTinkT ν cfg d st dep pre op).2.2.2 r).1,
     (opsTinkT ν cfg d (opTinkT ν cfg d st dep pre op).2.1 (opTinkT ν cfg d st dep pre op).2.2.1 (opTinkT ν cfg d st dep pre op).2.2.2 r).2)
def rowsTinkT (ν : Tag → Tag) (cfg : Cfg) (d : Deco) (st : Tag) (dep pre : Nat) : List Op → List Cell × Tag × Nat × Nat
  | [] => ([], st, dep, pre)
  | .row pre_ post cells :: rs =>
    ((opsTinkT ν cfg d st dep pre pre_).1 ++
      (cellsTinkT ν cfg d (opsTinkT ν cfg d st dep pre pre_).2.1 cells ++
        ((opsTinkT ν cfg d (opsTinkT ν cfg d st dep pre pre_).2.1 (opsTinkT ν cfg d st dep pre pre_).2.2.1 (opsTinkT ν cfg d st dep pre pre_).2.2.2 post).1 ++
          (rowsTinkT ν cfg d
            (opsTinkT ν cfg d (opsTinkT ν cfg d st dep pre pre_).2.1 (opsTinkT ν cfg d st dep pre pre_).2.2.1 (opsTinkT ν cfg d st dep pre pre_).2.2.2 post).2.1
            (opsTinkT ν cfg d (opsTinkT ν cfg d st dep pre pre_).2.1 (opsTinkT ν cfg d st dep pre pre_).2.2.1 (opsTinkT ν cfg d st dep pre pre_).2.2.2 post).2.2.1
            (opsTinkT ν cfg d (opsTinkT ν cfg d st dep pre pre_).2.1 (opsTinkT ν cfg d st dep pre pre_).2.2.1 (opsTinkT ν cfg d st dep pre pre_).2.2.2 post).2.2.2 rs).1)),
     (rowsTinkT ν cfg d
        (opsTinkT ν cfg d (opsTinkT ν cfg d st dep pre pre_).2.1 (opsTinkT ν cfg d st dep pre pre_).2.2.1 (opsTinkT ν cfg d st dep pre pre_).2.2.2 post).2.1
        (opsTinkT ν cfg d (opsTinkT ν cfg d st dep pre pre_).2.1 (opsTinkT ν cfg d st dep pre pre_).2.2.1 (opsTinkT ν cfg d st dep pre pre_).2.2.2 post).2.2.1
        (opsTinkT ν cfg d (opsTinkT ν cfg d st dep pre pre_).2.1 (opsTinkT ν cfg d st dep pre pre_).2.2.1 (opsTinkT ν cfg d st dep pre pre_).2.2.2 post).2.2.2 rs).2)
  | _ :: rs => rowsTinkT ν cfg d st dep pre rs
def cellsTinkT (ν : Tag → Tag) (cfg : Cfg) (d : Deco) (st : Tag) : List Op → List Cell
  | [] => []
  | .cell _ _ body :: cs => (opsTinkT ν cfg d st 0 0 body).1 ++ cellsTinkT ν cfg d st cs
  | _ :: cs => cellsTinkT ν cfg d st cs
end

/-- what a run may add, with tables: at most the specification's occurrences of `y`; stack and depths exactly -/
def CntStepT (ν : Tag → Tag) (y : Cell) (s s' : SubR) (added : List Cell × Tag × Nat × Nat) : Prop :=
  s'.tink.countP (qy ν y) ≤ s.tink.countP (qy ν y) + added.1.count y ∧ s'.annStack = added.2.1 ∧ s'.filterDepth = added.2.2.1 ∧
    s'.preDepth = added.2.2.2 ∧ s'.FragsOk

theorem TinkStepN.toCnt {ν : Tag → Tag} {P : Ch → Bool} {y : Cell} (hy : P y.ch = true) {s s' : SubR} {added : List Cell × Tag × Nat × Nat}
    (h : TinkStepN ν P s s' added) : CntStepT ν y s s' added := by
  obtain ⟨a, b, c, e, f⟩ := h
  refine ⟨?_, b, c, e, f⟩
  have := congrArg (List.count y) a
  rw [List.count_append, count_vw ν P y hy, count_vw ν P y hy, count_pf P y hy] at this
  omega

theorem fresh_tinkP (ν : Tag → Tag) (y : Cell) (w : Nat) (ann : Tag) : ({ width := w, annStack := ann } : SubR).tink.countP (qy ν y) = 0 := rfl

mutual
theorem runOp_T (ν : Tag → Tag) (P : Ch → Bool) (y : Cell) (hyb : isBox y.ch = false) (hyP : P y.ch = true) (cfg : Cfg) (d : Deco) (hν : PreView ν d)
    (hfn : cfg.footnotes = false) :
    (op : Op) → (t t' : RS) → tOkOp P op = true → t.cur.FragsOk → runOp SubR.widthMinus cfg d t op = .ok t' →
    CntStepT ν y t.cur t'.cur (opTinkT ν cfg d t.cur.annStack t.cur.filterDepth t.cur.preDepth op)
  | .sub p m first rest asBlock body, t, t', hs, hfr, he => by
    have hqb : ∀ c, qy ν y c = true → isBox c.ch = false := fun c hc => by rw [qy_ch ν y c hc]; exact hyb
    have hqP : ∀ c, qy ν y c = true → P c.ch = true := fun c hc => by rw [qy_ch ν y c hc]; exact hyP
    simp only [tOkOp, Bool.and_eq_true] at hs
    obtain ⟨⟨h1, h2⟩, hbody⟩ := hs
    simp only [runOp] at he
    cases e1 : t.cur.widthMinus cfg p m with
    | error e => simp [e1, andThen_error_eq] at he
    | ok w =>
      simp only [e1, andThen_ok_eq] at he
      cases e2 : runOps SubR.widthMinus cfg d { links := t.links, cur := ({ width := w, annStack := t.cur.annStack } : SubR) } body with
      | error e => simp [e2, andThen_error_eq] at he
      | ok r =>
        simp only [e2, andThen_ok_eq] at he
        obtain ⟨_, f2⟩ := fresh_tink w t.cur.annStack
        have hb := runOps_T ν P y hyb hyP cfg d hν hfn body _ r hbody f2 e2
        generalize e3 : (if asBlock = true then t.cur.startBlock else Except.ok t.cur) = r3 at he
        cases r3 with
        | error e => simp [andThen_error_eq] at he
        | ok s1 =>
          simp only [andThen_ok_eq] at he
          have st1 : s1.tink = t.cur.tink ∧ s1.FragsOk ∧ s1.ff = t.cur.ff := by
            split at e3
            · obtain ⟨a, b⟩ := startBlock_tink _ s1 hfr e3
              exact ⟨a, b, startBlock_ff _ s1 e3⟩
            · injection e3 with e3; subst e3; exact ⟨rfl, hfr, rfl⟩
          cases e4 : s1.appendSub r.cur first rest with
          | error e => simp [e4, andThen_error_eq] at he
          | ok s2 =>
            simp only [e4, andThen_ok_eq] at he; injection he with he; subst he
            obtain ⟨a, b⟩ := appendSub_tcnt (qy ν y) hqb P hqP s1 r.cur s2 first rest st1.2.1 hb.2.2.2.2 h1 h2 e4
            have hfd := (appendSub_ff s1 r.cur s2 first rest e4).trans st1.2.2
            simp only [SubR.ff, Prod.mk.injEq] at hfd
            have hb1 := hb.1
            rw [fresh_tinkP] at hb1
            simp only [opTinkT]
            have key : CntStepT ν y t.cur s2 ((opsTinkT ν cfg d t.cur.annStack 0 0 body).1, t.cur.annStack, t.cur.filterDepth, t.cur.preDepth) :=
              ⟨by rw [a, st1.1]; simp only at hb1 ⊢; omega, hfd.1, hfd.2.2.2.1, hfd.2.1, b⟩
            split
            · exact ⟨key.1, key.2.1, key.2.2.1, key.2.2.2.1, key.2.2.2.2⟩
            · exact key
  | .table cols rows, t, t', hs, hfr, he => by
    simp only [tOkOp] at hs
    simp only [runOp] at he
    cases h1 : allocCols cfg t.cur.width cols with
    | error e => simp [h1, andThen] at he
    | ok v =>
      obtain ⟨ws, vert, tw⟩ := v
      simp only [h1, andThen_ok_eq] at he
      cases h2 : t.cur.startBlock with
      | error e => simp [h2, andThen_error_eq] at he
      | ok s1 =>
        simp only [h2, andThen_ok_eq] at he
        obtain ⟨b1, b2⟩ := startBlock_tink _ s1 hfr h2
        have b3 := startBlock_ff _ s1 h2
        cases h3 : s1.tableTop cfg tw with
        | error e => simp [h3, andThen_error_eq] at he
        | ok s3 =>
          simp only [h3, andThen_ok_eq] at he
          obtain ⟨c1, c2⟩ := tableTop_tcnt s1 s3 cfg tw b2 h3
          have c3 := (tableTop_ff s1 s3 cfg tw h3).trans b3
          simp only [SubR.ff, Prod.mk.injEq] at c3
          have hr := runRows_T ν P y hyb hyP cfg d hν hfn rows ws vert { t with cur := s3 } t' hs c2 he
          simp only [opTinkT]
          have e1 : ({ t with cur := s3 } : RS).cur.annStack = t.cur.annStack := c3.1
          have e2 : ({ t with cur := s3 } : RS).cur.filterDepth = t.cur.filterDepth := c3.2.2.2.1
          have e3 : ({ t with cur := s3 } : RS).cur.preDepth = t.cur.preDepth := c3.2.1
          have e4 : ({ t with cur := s3 } : RS).cur.tink = t.cur.tink := c1.trans b1
          rw [e1, e2, e3] at hr
          exact ⟨by rw [← e4]; exact hr.1, hr.2.1, hr.2.2.1, hr.2.2.2.1, hr.2.2.2.2⟩
  | .row _ _ _, t, t', _, hfr, he => by simp [runOp] at he; subst he; exact ⟨by simp [opTinkT], rfl, rfl, rfl, hfr⟩
  | .cell _ _ _, t, t', _, hfr, he => by simp [runOp] at he; subst he; exact ⟨by simp [opTinkT], rfl, rfl, rfl, hfr⟩
  | .pushWs ws, t, t', _, hfr, he => (stepSimple_tinkN ν P cfg d hν t t' _ hfn hfr (by simp) rfl (by simpa [runOp] using he)).toCnt hyP
  | .popWs, t, t', _, hfr, he => (stepSimple_tinkN ν P cfg d hν t t' _ hfn hfr (by simp) rfl (by simpa [runOp] using he)).toCnt hyP
  | .pushPre, t, t', _, hfr, he => (stepSimple_tinkN ν P cfg d hν t t' _ hfn hfr (by simp) rfl (by simpa [runOp] using he)).toCnt hyP
  | .popPre, t, t', _, hfr, he => (stepSimple_tinkN ν P cfg d hν t t' _ hfn hfr (by simp) rfl (by simpa [runOp] using he)).toCnt hyP
  | .pushAnn a, t, t', _, hfr, he => (stepSimple_tinkN ν P cfg d hν t t' _ hfn hfr (by simp) rfl (by simpa [runOp] using he)).toCnt hyP
  | .popAnn, t, t', _, hfr, he => (stepSimple_tinkN ν P cfg d hν t t' _ hfn hfr (by simp) rfl (by simpa [runOp] using he)).toCnt hyP
  | .text x, t, t', _, hfr, he => (stepSimple_tinkN ν P cfg d hν t t' _ hfn hfr (by simp) rfl (by simpa [runOp] using he)).toCnt hyP
  | .frag n, t, t', _, hfr, he => (stepSimple_tinkN ν P cfg d hν t t' _ hfn hfr (by simp) rfl (by simpa [runOp] using he)).toCnt hyP
  | .startLink h, t, t', _, hfr, he => (stepSimple_tinkN ν P cfg d hν t t' _ hfn hfr (by simp) rfl (by simpa [runOp] using he)).toCnt hyP
  | .endLink, t, t', _, hfr, he => (stepSimple_tinkN ν P cfg d hν t t' _ hfn hfr (by simp) rfl (by simpa [runOp] using he)).toCnt hyP
  | .startAnn a x s, t, t', _, hfr, he => (stepSimple_tinkN ν P cfg d hν t t' _ hfn hfr (by simp) rfl (by simpa [runOp] using he)).toCnt hyP
  | .endAnn x s, t, t', _, hfr, he => (stepSimple_tinkN ν P cfg d hν t t' _ hfn hfr (by simp) rfl (by simpa [runOp] using he)).toCnt hyP
  | .image a b, t, t', _, hfr, he => (stepSimple_tinkN ν P cfg d hν t t' _ hfn hfr (by simp) rfl (by simpa [runOp] using he)).toCnt hyP
  | .startBlock, t, t', _, hfr, he => (stepSimple_tinkN ν P cfg d hν t t' _ hfn hfr (by simp) rfl (by simpa [runOp] using he)).toCnt hyP
  | .endBlock, t, t', _, hfr, he => (stepSimple_tinkN ν P cfg d hν t t' _ hfn hfr (by simp) rfl (by simpa [runOp] using he)).toCnt hyP
  | .newLine, t, t', _, hfr, he => (stepSimple_tinkN ν P cfg d hν t t' _ hfn hfr (by simp) rfl (by simpa [runOp] using he)).toCnt hyP
  | .newLineHard, t, t', _, hfr, he => (stepSimple_tinkN ν P cfg d hν t t' _ hfn hfr (by simp) rfl (by simpa [runOp] using he)).toCnt hyP
theorem runOps_T (ν : Tag → Tag) (P : Ch → Bool) (y : Cell) (hyb : isBox y.ch = false) (hyP : P y.ch = true) (cfg : Cfg) (d : Deco) (hν : PreView ν d)
    (hfn : cfg.footnotes = false) :
    (ops : List Op) → (t t' : RS) → tOkOps P ops = true → t.cur.FragsOk → runOps SubR.widthMinus cfg d t ops = .ok t' →
    CntStepT ν y t.cur t'.cur (opsTinkT ν cfg d t.cur.annStack t.cur.filterDepth t.cur.preDepth ops)
  | [], t, t', _, hfr, he => by simp [runOps] at he; subst he; exact ⟨by simp [opsTinkT], rfl, rfl, rfl, hfr⟩
  | op :: ops, t, t', hs, hfr, he => by
    simp only [tOkOps, Bool.and_eq_true] at hs
    simp only [runOps] at he
    cases h1 : runOp SubR.widthMinus cfg d t op with
    | error e => simp [h1, andThen_error_eq] at he
    | ok t1 =>
      simp only [h1, andThen_ok_eq] at he
      obtain ⟨a1, a2, a3, a4, a5⟩ := runOp_T ν P y hyb hyP cfg d hν hfn op t t1 hs.1 hfr h1
      obtain ⟨b1, b2, b3, b4, b5⟩ := runOps_T ν P y hyb hyP cfg d hν hfn ops t1 t' hs.2 a5 he
      simp only [opsTinkT]
      rw [a2, a3, a4] at b1 b2 b3 b4
      exact ⟨by rw [List.count_append]; omega, b2, b3, b4, b5⟩
theorem runRows_T (ν : Tag → Tag) (P : Ch → Bool) (y : Cell) (hyb : isBox y.ch = false) (hyP : P y.ch = true) (cfg : Cfg) (d : Deco) (hν : PreView ν d)
    (hfn : cfg.footnotes = false) :
    (rows : List Op) → (ws : List Nat) → (vert : Bool) → (t t' : RS) → tOkOps P rows = true → t.cur.FragsOk →
    runRows SubR.widthMinus cfg d ws vert t rows = .ok t' →
    CntStepT ν y t.cur t'.cur (rowsTinkT ν cfg d t.cur.annStack t.cur.filterDepth t.cur.preDepth rows)
  | [], ws, vert, t, t', _, hfr, he => by simp [runRows] at he; subst he; exact ⟨by simp [rowsTinkT], rfl, rfl, rfl, hfr⟩
  | .row pre post cells :: rs, ws, vert, t, t', hs, hfr, he => by
    have hqb : ∀ c, qy ν y c = true → isBox c.ch = false := fun c hc => by rw [qy_ch ν y c hc]; exact hyb
    simp only [tOkOps, tOkOp, Bool.and_eq_true] at hs
    obtain ⟨⟨⟨hpre, hpost⟩, hcells⟩, hrs⟩ := hs
    simp only [runRows] at he
    cases h1 : runOps SubR.widthMinus cfg d t pre with
    | error e => simp [h1, andThen] at he
    | ok t1 =>
      simp only [h1, andThen_ok_eq] at he
      obtain ⟨p1, p2, p3, p4, p5⟩ := runOps_T ν P y hyb hyP cfg d hν hfn pre t t1 hpre hfr h1
      cases h2 : runCells SubR.widthMinus cfg d ws vert t1.cur.annStack t1.links cells with
      | error e => simp [h2, andThen_error_eq] at he
      | ok v =>
        obtain ⟨links, subs⟩ := v
        simp only [h2, andThen_ok_eq] at he
        obtain ⟨q1, q2⟩ := runCells_T ν P y hyb hyP cfg d hν hfn cells ws vert t1.cur.annStack t1.links links subs hcells h2
        cases h3 : t1.cur.appendRow cfg vert subs with
        | error e => simp [h3, andThen_error_eq] at he
        | ok s2 =>
          simp only [h3, andThen_ok_eq] at he
          obtain ⟨r1, r2⟩ := appendRow_tcnt (qy ν y) hqb t1.cur s2 cfg vert subs p5 q2 h3
          have r3 := appendRow_ff t1.cur s2 cfg vert subs h3
          simp only [SubR.ff, Prod.mk.injEq] at r3
          cases h4 : runOps SubR.widthMinus cfg d { links := links, cur := s2 } post with
          | error e => simp [h4, andThen_error_eq] at he
          | ok t3 =>
            simp only [h4, andThen_ok_eq] at he
            obtain ⟨u1, u2, u3, u4, u5⟩ := runOps_T ν P y hyb hyP cfg d hν hfn post _ t3 hpost r2 h4
            obtain ⟨v1, v2, v3, v4, v5⟩ := runRows_T ν P y hyb hyP cfg d hν hfn rs ws vert t3 t' hrs u5 he
            have e1 : ({ links := links, cur := s2 } : RS).cur.annStack = t1.cur.annStack := r3.1
            have e2 : ({ links := links, cur := s2 } : RS).cur.filterDepth = t1.cur.filterDepth := r3.2.2.2.1
            have e3 : ({ links := links, cur := s2 } : RS).cur.preDepth = t1.cur.preDepth := r3.2.1
            rw [e1, e2, e3, p2, p3, p4] at u1 u2 u3 u4
            rw [p2] at q1
            rw [u2, u3, u4] at v1 v2 v3 v4
            simp only [rowsTinkT]
            refine ⟨?_, v2, v3, v4, v5⟩
            simp only [List.count_append]
            have : ({ links := links, cur := s2 } : RS).cur.tink.countP (qy ν y) = s2.tink.countP (qy ν y) := rfl
            omega
  | .sub _ _ _ _ _ _ :: rs, ws, vert, t, t', hs, hfr, he => by
    simp only [tOkOps, Bool.and_eq_true] at hs; simp only [runRows] at he
    simpa only [rowsTinkT] using runRows_T ν P y hyb hyP cfg d hν hfn rs ws vert t t' hs.2 hfr he
  | .table _ _ :: rs, ws, vert, t, t', hs, hfr, he => by
    simp only [tOkOps, Bool.and_eq_true] at hs; simp only [runRows] at he
    simpa only [rowsTinkT] using runRows_T ν P y hyb hyP cfg d hν hfn rs ws vert t t' hs.2 hfr he
  | .cell _ _ _ :: rs, ws, vert, t, t', hs, hfr, he => by
    simp only [tOkOps, Bool.and_eq_true] at hs; simp only [runRows] at he
    simpa only [rowsTinkT] using runRows_T ν P y hyb hyP cfg d hν hfn rs ws vert t t' hs.2 hfr he
  | .pushWs _ :: rs, ws, vert, t, t', hs, hfr, he => by
    simp only [tOkOps, Bool.and_eq_true] at hs; simp only [runRows] at he
    simpa only [rowsTinkT] using runRows_T ν P y hyb hyP cfg d hν hfn rs ws vert t t' hs.2 hfr he
  | .popWs :: rs, ws, vert, t, t', hs, hfr, he => by
    simp only [tOkOps, Bool.and_eq_true] at hs; simp only [runRows] at he
    simpa only [rowsTinkT] using runRows_T ν P y hyb hyP cfg d hν hfn rs ws vert t t' hs.2 hfr he
  | .pushPre :: rs, ws, vert, t, t', hs, hfr, he => by
    simp only [tOkOps, Bool.and_eq_true] at hs; simp only [runRows] at he
    simpa only [rowsTinkT] using runRows_T ν P y hyb hyP cfg d hν hfn rs ws vert t t' hs.2 hfr he
  | .popPre :: rs, ws, vert, t, t', hs, hfr, he => by
    simp only [tOkOps, Bool.and_eq_true] at hs; simp only [runRows] at he
    simpa only [rowsTinkT] using runRows_T ν P y hyb hyP cfg d hν hfn rs ws vert t t' hs.2 hfr he
  | .pushAnn _ :: rs, ws, vert, t, t', hs, hfr, he => by
    simp only [tOkOps, Bool.and_eq_true] at hs; simp only [runRows] at he
    simpa only [rowsTinkT] using runRows_T ν P y hyb hyP cfg d hν hfn rs ws vert t t' hs.2 hfr he
  | .popAnn :: rs, ws, vert, t, t', hs, hfr, he => by
    simp only [tOkOps, Bool.and_eq_true] at hs; simp only [runRows] at he
    simpa only [rowsTinkT] using runRows_T ν P y hyb hyP cfg d hν hfn rs ws vert t t' hs.2 hfr he
  | .text _ :: rs, ws, vert, t, t', hs, hfr, he => by
    simp only [tOkOps, Bool.and_eq_true] at hs; simp only [runRows] at he
    simpa only [rowsTinkT] using runRows_T ν P y hyb hyP cfg d hν hfn rs ws vert t t' hs.2 hfr he
  | .frag _ :: rs, ws, vert, t, t', hs, hfr, he => by
    simp only [tOkOps, Bool.and_eq_true] at hs; simp only [runRows] at he
    simpa only [rowsTinkT] using runRows_T ν P y hyb hyP cfg d hν hfn rs ws vert t t' hs.2 hfr he
  | .startLink _ :: rs, ws, vert, t, t', hs, hfr, he => by
    simp only [tOkOps, Bool.and_eq_true] at hs; simp only [runRows] at he
    simpa only [rowsTinkT] using runRows_T ν P y hyb hyP cfg d hν hfn rs ws vert t t' hs.2 hfr he
  | .endLink :: rs, ws, vert, t, t', hs, hfr, he => by
    simp only [tOkOps, Bool.and_eq_true] at hs; simp only [runRows] at he
    simpa only [rowsTinkT] using runRows_T ν P y hyb hyP cfg d hν hfn rs ws vert t t' hs.2 hfr he
  | .startAnn _ _ _ :: rs, ws, vert, t, t', hs, hfr, he => by
    simp only [tOkOps, Bool.and_eq_true] at hs; simp only [runRows] at he
    simpa only [rowsTinkT] using runRows_T ν P y hyb hyP cfg d hν hfn rs ws vert t t' hs.2 hfr he
  | .endAnn _ _ :: rs, ws, vert, t, t', hs, hfr, he => by
    simp only [tOkOps, Bool.and_eq_true] at hs; simp only [runRows] at he
    simpa only [rowsTinkT] using runRows_T ν P y hyb hyP cfg d hν hfn rs ws vert t t' hs.2 hfr he
  | .image _ _ :: rs, ws, vert, t, t', hs, hfr, he => by
    simp only [tOkOps, Bool.and_eq_true] at hs; simp only [runRows] at he
    simpa only [rowsTinkT] using runRows_T ν P y hyb hyP cfg d hν hfn rs ws vert t t' hs.2 hfr he
  | .startBlock :: rs, ws, vert, t, t', hs, hfr, he => by
    simp only [tOkOps, Bool.and_eq_true] at hs; simp only [runRows] at he
    simpa only [rowsTinkT] using runRows_T ν P y hyb hyP cfg d hν hfn rs ws vert t t' hs.2 hfr he
  | .endBlock :: rs, ws, vert, t, t', hs, hfr, he => by
    simp only [tOkOps, Bool.and_eq_true] at hs; simp only [runRows] at he
    simpa only [rowsTinkT] using runRows_T ν P y hyb hyP cfg d hν hfn rs ws vert t t' hs.2 hfr he
  | .newLine :: rs, ws, vert, t, t', hs, hfr, he => by
    simp only [tOkOps, Bool.and_eq_true] at hs; simp only [runRows] at he
    simpa only [rowsTinkT] using runRows_T ν P y hyb hyP cfg d hν hfn rs ws vert t t' hs.2 hfr he
  | .newLineHard :: rs, ws, vert, t, t', hs, hfr, he => by
    simp only [tOkOps, Bool.and_eq_true] at hs; simp only [runRows] at he
    simpa only [rowsTinkT] using runRows_T ν P y hyb hyP cfg d hν hfn rs ws vert t t' hs.2 hfr he
theorem runCells_T (ν : Tag → Tag) (P : Ch → Bool) (y : Cell) (hyb : isBox y.ch = false) (hyP : P y.ch = true) (cfg : Cfg) (d : Deco) (hν : PreView ν d)
    (hfn : cfg.footnotes = false) :
    (cells : List Op) → (ws : List Nat) → (vert : Bool) → (ann : Tag) → (links : List (List Ch)) →
    (l2 : List (List Ch)) → (subs : List SubR) → tOkOps P cells = true →
    runCells SubR.widthMinus cfg d ws vert ann links cells = .ok (l2, subs) →
    (subs.map fun col => col.tink.countP (qy ν y)).sum ≤ (cellsTinkT ν cfg d ann cells).count y ∧ ∀ col ∈ subs, col.FragsOk
  | [], ws, vert, ann, links, l2, subs, _, he => by
    simp [runCells] at he; obtain ⟨_, rfl⟩ := he; simp
  | .cell colno span body :: cs, ws, vert, ann, links, l2, subs, hs, he => by
    simp only [tOkOps, tOkOp, Bool.and_eq_true] at hs
    simp only [runCells] at he
    split at he
    · simp at he
    · split at he
      · obtain ⟨a, b⟩ := runCells_T ν P y hyb hyP cfg d hν hfn cs ws vert ann links l2 subs hs.2 he
        exact ⟨by simp only [cellsTinkT, List.count_append]; omega, b⟩
      · cases h1 : runOps SubR.widthMinus cfg d { links := links, cur := ({ width := cellOuter vert (cellInner ws vert colno span) span, annStack := ann } : SubR) } body with
        | error e => simp [h1, andThen] at he
        | ok r =>
          simp only [h1, andThen_ok_eq] at he
          obtain ⟨_, f2⟩ := fresh_tink (cellOuter vert (cellInner ws vert colno span) span) ann
          obtain ⟨b1, _, _, _, b5⟩ := runOps_T ν P y hyb hyP cfg d hν hfn body _ r hs.1 f2 h1
          rw [fresh_tinkP] at b1
          cases h2 : runCells SubR.widthMinus cfg d ws vert ann r.links cs with
          | error e => simp [h2, andThen_error_eq] at he
          | ok v =>
            obtain ⟨l3, subs2⟩ := v
            simp only [h2, andThen_ok_eq] at he
            injection he with he
            simp only [Prod.mk.injEq] at he
            obtain ⟨_, rfl⟩ := he
            obtain ⟨q1, q2⟩ := runCells_T ν P y hyb hyP cfg d hν hfn cs ws vert ann r.links l3 subs2 hs.2 h2
            refine ⟨?_, ?_⟩
            · simp only [List.map_cons, List.sum_cons, cellsTinkT, List.count_append] at b1 ⊢
              omega
            · intro col hcol
              simp only [List.mem_cons] at hcol
              rcases hcol with rfl | hcol
              · exact b5
              · exact q2 col hcol
  | .sub _ _ _ _ _ _ :: cs, ws, vert, ann, links, l2, subs, hs, he => by
    simp only [tOkOps, Bool.and_eq_true] at hs; simp only [runCells] at he
    simpa only [cellsTinkT] using runCells_T ν P y hyb hyP cfg d hν hfn cs ws vert ann links l2 subs hs.2 he
  | .table _ _ :: cs, ws, vert, ann, links, l2, subs, hs, he => by
    simp only [tOkOps, Bool.and_eq_true] at hs; simp only [runCells] at he
    simpa only [cellsTinkT] using runCells_T ν P y hyb hyP cfg d hν hfn cs ws vert ann links l2 subs hs.2 he
  | .row _ _ _ :: cs, ws, vert, ann, links, l2, subs, hs, he => by
    simp only [tOkOps, Bool.and_eq_true] at hs; simp only [runCells] at he
    simpa only [cellsTinkT] using runCells_T ν P y hyb hyP cfg d hν hfn cs ws vert ann links l2 subs hs.2 he
  | .pushWs _ :: cs, ws, vert, ann, links, l2, subs, hs, he => by
    simp only [tOkOps, Bool.and_eq_true] at hs; simp only [runCells] at he
    simpa only [cellsTinkT] using runCells_T ν P y hyb hyP cfg d hν hfn cs ws vert ann links l2 subs hs.2 he
  | .popWs :: cs, ws, vert, ann, links, l2, subs, hs, he => by
    simp only [tOkOps, Bool.and_eq_true] at hs; simp only [runCells] at he
    simpa only [cellsTinkT] using runCells_T ν P y hyb hyP cfg d hν hfn cs ws vert ann links l2 subs hs.2 he
  | .pushPre :: cs, ws, vert, ann, links, l2, subs, hs, he => by
    simp only [tOkOps, Bool.and_eq_true] at hs; simp only [runCells] at he
    simpa only [cellsTinkT] using runCells_T ν P y hyb hyP cfg d hν hfn cs ws vert ann links l2 subs hs.2 he
  | .popPre :: cs, ws, vert, ann, links, l2, subs, hs, he => by
    simp only [tOkOps, Bool.and_eq_true] at hs; simp only [runCells] at he
    simpa only [cellsTinkT] using runCells_T ν P y hyb hyP cfg d hν hfn cs ws vert ann links l2 subs hs.2 he
  | .pushAnn _ :: cs, ws, vert, ann, links, l2, subs, hs, he => by
    simp only [tOkOps, Bool.and_eq_true] at hs; simp only [runCells] at he
    simpa only [cellsTinkT] using runCells_T ν P y hyb hyP cfg d hν hfn cs ws vert ann links l2 subs hs.2 he
  | .popAnn :: cs, ws, vert, ann, links, l2, subs, hs, he => by
    simp only [tOkOps, Bool.and_eq_true] at hs; simp only [runCells] at he
    simpa only [cellsTinkT] using runCells_T ν P y hyb hyP cfg d hν hfn cs ws vert ann links l2 subs hs.2 he
  | .text _ :: cs, ws, vert, ann, links, l2, subs, hs, he => by
    simp only [tOkOps, Bool.and_eq_true] at hs; simp only [runCells] at he
    simpa only [cellsTinkT] using runCells_T ν P y hyb hyP cfg d hν hfn cs ws vert ann links l2 subs hs.2 he
  | .frag _ :: cs, ws, vert, ann, links, l2, subs, hs, he => by
    simp only [tOkOps, Bool.and_eq_true] at hs; simp only [runCells] at he
    simpa only [cellsTinkT] using runCells_T ν P y hyb hyP cfg d hν hfn cs ws vert ann links l2 subs hs.2 he
  | .startLink _ :: cs, ws, vert, ann, links, l2, subs, hs, he => by
    simp only [tOkOps, Bool.and_eq_true] at hs; simp only [runCells] at he
    simpa only [cellsTinkT] using runCells_T ν P y hyb hyP cfg d hν hfn cs ws vert ann links l2 subs hs.2 he
  | .endLink :: cs, ws, vert, ann, links, l2, subs, hs, he => by
    simp only [tOkOps, Bool.and_eq_true] at hs; simp only [runCells] at he
    simpa only [cellsTinkT] using runCells_T ν P y hyb hyP cfg d hν hfn cs ws vert ann links l2 subs hs.2 he
  | .startAnn _ _ _ :: cs, ws, vert, ann, links, l2, subs, hs, he => by
    simp only [tOkOps, Bool.and_eq_true] at hs; simp only [runCells] at he
    simpa only [cellsTinkT] using runCells_T ν P y hyb hyP cfg d hν hfn cs ws vert ann links l2 subs hs.2 he
  | .endAnn _ _ :: cs, ws, vert, ann, links, l2, subs, hs, he => by
    simp only [tOkOps, Bool.and_eq_true] at hs; simp only [runCells] at he
    simpa only [cellsTinkT] using runCells_T ν P y hyb hyP cfg d hν hfn cs ws vert ann links l2 subs hs.2 he
  | .image _ _ :: cs, ws, vert, ann, links, l2, subs, hs, he => by
    simp only [tOkOps, Bool.and_eq_true] at hs; simp only [runCells] at he
    simpa only [cellsTinkT] using runCells_T ν P y hyb hyP cfg d hν hfn cs ws vert ann links l2 subs hs.2 he
  | .startBlock :: cs, ws, vert, ann, links, l2, subs, hs, he => by
    simp only [tOkOps, Bool.and_eq_true] at hs; simp only [runCells] at he
    simpa only [cellsTinkT] using runCells_T ν P y hyb hyP cfg d hν hfn cs ws vert ann links l2 subs hs.2 he
  | .endBlock :: cs, ws, vert, ann, links, l2, subs, hs, he => by
    simp only [tOkOps, Bool.and_eq_true] at hs; simp only [runCells] at he
    simpa only [cellsTinkT] using runCells_T ν P y hyb hyP cfg d hν hfn cs ws vert ann links l2 subs hs.2 he
  | .newLine :: cs, ws, vert, ann, links, l2, subs, hs, he => by
    simp only [tOkOps, Bool.and_eq_true] at hs; simp only [runCells] at he
    simpa only [cellsTinkT] using runCells_T ν P y hyb hyP cfg d hν hfn cs ws vert ann links l2 subs hs.2 he
  | .newLineHard :: cs, ws, vert, ann, links, l2, subs, hs, he => by
    simp only [tOkOps, Bool.and_eq_true] at hs; simp only [runCells] at he
    simpa only [cellsTinkT] using runCells_T ν P y hyb hyP cfg d hν hfn cs ws vert ann links l2 subs hs.2 he
end

/-- **no tagged cell is invented — tables included** (footnotes off): for every viewed cell `y` whose character is neither
    box-drawing nor part of a block prefix, the rendered lines hold `y` at most as often as the program's specification -/
theorem renderTree_T (ν : Tag → Tag) (P : Ch → Bool) (y : Cell) (hyb : isBox y.ch = false) (hyP : P y.ch = true) (cfg : Cfg) (d : Deco)
    (hν : PreView ν d) (w : Nat) (tree : RNode) (ls : List RLine) (hfn : cfg.footnotes = false)
    (hs : tOkOps P (compile cfg d tree) = true) (h : renderTree cfg d w tree = .ok ls) :
    ((ls.flatMap trink).map (retag ν)).count y ≤ (opsTinkT ν cfg d [] 0 0 (compile cfg d tree)).1.count y := by
  unfold renderTree at h
  split at h
  · simp at h
  · cases h1 : runOps SubR.widthMinus cfg d { cur := { width := w } } (compile cfg d tree) with
    | error e => simp [h1, andThen_error_eq] at h
    | ok t =>
      simp only [h1, andThen_ok_eq] at h
      obtain ⟨_, f2⟩ := fresh_tink w []
      obtain ⟨a1, _, _, _, a5⟩ := runOps_T ν P y hyb hyP cfg d hν hfn _ _ t hs f2 h1
      have hf0 : footTexts cfg t.links = [] := by simp [footTexts, hfn]
      rw [hf0] at h
      simp only [List.isEmpty_nil, if_true] at h
      rw [intoLines_tink t.cur ls a5 h]
      rw [fresh_tinkP] at a1
      rw [count_map_retag]
      simpa using a1

end H2T
