#!/usr/bin/env python3
"""Source anchors (advisory drift detector, DESIGN §4.4).

Every `fn` of the library's four logic files is extracted (brace matching), whitespace-normalised and hashed.
`anchors.json` records the hashes together with the Lean definitions that model the function (MODEL below).
`python3 tools/anchors.py --record` rewrites anchors.json from /repo's current tree (done after the model has been brought
in line with a source change and the correspondence is clean); `drift()` is called by ./check on every run and returns the
functions whose text differs from the recorded one — named in the evidence as the places the model may no longer describe.
It never fails a check by itself: the correspondence decides."""
import hashlib, json, os, re, subprocess, sys

ROOT = os.path.dirname(os.path.dirname(os.path.abspath(__file__)))
FILES = ["src/render/text_renderer.rs", "src/lib.rs", "src/css.rs", "src/css/parser.rs"]

# Rust function (file-local name; the k-th definition of a repeated name is name#k) -> Lean definitions that model it
MODEL = {
    "src/render/text_renderer.rs": {
        "flush_word": ["WB.flushWord", "WB.placeFits", "WB.disposeWs", "WB.startWordLine", "WB.wsLoop"],
        "flush_word_hard_wrap": ["WB.hardWrap", "WB.hardWrapGo", "WB.hardWrapPiece", "WB.pieceLoop", "scanFit", "itemsOf"],
        "flush_line": ["WB.flushLine"], "force_flush_line": ["WB.forceFlush"], "flush": ["WB.finish", "rescueMarks"],
        "into_lines": ["WB.finish", "SubR.intoLines"], "add_text": ["WB.addText", "WB.addTextGo", "WB.addChar", "WB.zeroGuard", "WB.tabLoop"],
        "add_element": ["WB.addElement"], "text_len": ["WB.textLen"], "is_empty#2": ["SubR.empty"], "empty": ["SubR.empty"],
        "stretch_to": ["Border.stretch"], "join_above": ["Border.joinAbove", "Seg.joinAbove"], "join_below": ["Border.joinBelow", "Seg.joinBelow"],
        "merge_from_below": ["Border.mergeFromBelow"], "merge_from_above": ["Border.mergeFromAbove"], "to_vertical_lines_above": ["Border.vertAbove"],
        "add_line": ["SubR.addLine"], "extend_lines": ["SubR.addLines"], "flush_wrapping": ["SubR.flushWrapping"], "flush_all": ["SubR.flushWrapping"],
        "fmt_links": ["fmtLinkLine", "linkStep", "footTexts"], "width_minus": ["SubR.widthMinus"], "filter_text_strikeout": ["strikeFilter"],
        "add_empty_line": ["SubR.addEmptyLine"], "new_sub_renderer": ["runOp (.sub: fresh renderer)"], "start_block": ["SubR.startBlock"],
        "new_line": ["stepSimple (.newLine)"], "new_line_hard": ["SubR.newLineHard"], "end_block": ["stepSimple (.endBlock)"], "add_inline_text": ["SubR.addInlineText", "SubR.getWrapping"],
        "append_subrender": ["SubR.appendSub", "zipPrefix", "prefixLine"],
        "append_columns_with_borders": ["SubR.appendColumns", "colSets", "collapseTop", "collapseBottom", "SubR.joinBars", "SubR.setLastRule", "SubR.emitColumns", "colLine", "colLineBody", "barPositions", "padLine"],
        "append_vert_row": ["SubR.appendVertRow", "vertCells"], "record_frag_start": ["SubR.recordFrag"],
        "start_link": ["stepSimple (.startLink)"], "end_link": ["stepSimple (.endLink)"], "start_emphasis": ["compile (.em)"], "start_strikeout": ["compile (.strike)", "stepSimple (.startAnn)"],
        "end_strikeout": ["stepSimple (.endAnn)"], "add_image": ["stepSimple (.image)"], "push_ws": ["stepSimple (.pushWs)"], "pop_ws": ["stepSimple (.popWs)"],
        "push_preformat": ["stepSimple (.pushPre)"], "pop_preformat": ["stepSimple (.popPre)"], "push_colour": ["styleOpen"], "pop_colour": ["styleClose"],
        "start_superscript": ["compile (.sup)", "supDigits"], "add_horizontal_border_width": ["SubR.tableTop"],
    },
    "src/lib.rs": {
        "insert_child": ["insertChild"], "process_dom_node": ["build", "buildList", "elemBase", "elemWrap", "elemFrag"], "is_shallow_empty": ["RNode.shallowEmpty"],
        "calc_size_estimate": ["sizeOf", "sizeSum", "tableColsAdd", "rowColsAdd"], "calc_ol_prefix_size": ["olPrefixSize", "olMaxNumber"],
        "do_render_node": ["compile", "compileList", "compileItems", "compileRows", "compileCells", "runOp", "runOps"],
        "render_table_tree": ["allocCols", "shrinkLoop", "argmaxCol", "tableColsMax", "rowColsMax", "runRows"], "render_table_row": ["runRows", "SubR.appendRow"],
        "render_table_row_vert": ["runRows", "SubR.appendRow"], "render_table_cell": ["runCells"], "into_cells": ["runCells", "cellInner", "cellOuter", "cellOob"],
        "table_to_render_tree": ["remapTable", "fixZeroSpans"], "tbody_to_render_tree": ["elemBase (tbody)"], "tr_to_render_tree": ["elemBase (tr)"], "td_to_render_tree": ["elemBase (td)"],
        "render_with_context": ["renderTree"], "dom_to_render_tree_with_context": ["renderDom", "domTree"], "string_from_read": ["renderDom (route Str)"], "lines_from_read": ["renderDom (route Lines)"],
        "add_css": ["Css.doAddCss"], "add_agent_css": ["Css.doAddCss"], },
    "src/css.rs": {
        "do_matches": ["Css.doMatches", "Css.selMatches"], "matches": ["Css.selMatches"], "specificity": ["Css.specOf"], "computed_style": ["Css.computedStyle", "Css.applyRules"],
        "styles_from_properties": ["Css.stylesFromProperties"], "add_user_css": ["Css.doAddCss"], "add_agent_css": ["Css.doAddCss"], "add_author_css": ["Css.doAddCss"],
        "extract_style_nodes": ["styleTexts"], "dom_to_stylesheet": ["styleTexts", "renderDom (document rules)"], "merge": ["Css.Computed.merge"],
        "pending": ["styleTexts"],
    },
    "src/css/parser.rs": {
        "parse_token": ["Css.parseToken", "Css.tokenBody"], "parse_ident": ["Css.parseIdent", "Css.identBody", "Css.stripDash"], "parse_number": ["Css.parseNumberRest", "Css.numberRestGo", "Css.stripSign"],
        "parse_string_token": ["Css.stringGo"], "parse_value": ["Css.parseValue"], "parse_rules": ["Css.parseRules"], "parse_declaration": ["Css.parseDeclaration"],
        "parse_color": ["Css.parseColor"], "parse_faulty_color": ["Css.parseColorAttribute"], "parse_color_attribute": ["Css.parseColorAttribute"], "parse_selector": ["Css.parseSelector"],
        "parse_selector_without_element": ["Css.parseSelector"], "parse_nth_child_args": ["Css.parseNthArgs"], "parse_ruleset": ["Css.parseRuleset"], "parse_at_rule": ["Css.parseAtRule", "Css.skipStmtGo"],
        "skip_to_end_of_statement": ["Css.skipStmtGo"], "parse_stylesheet": ["Css.parseStylesheet"], "parse_style_attribute": ["Css.parseRules"], "parse_height": ["Css.parseHeight"],
        "parse_overflow": ["Css.parseOverflow"], "parse_display": ["Css.firstIdentMatch"], "parse_white_space": ["Css.firstIdentMatch"], "parse_content": ["Css.parseContent"],
    },
}


def functions(text):
    """name (name#k for repeats) -> normalised source text of every `fn` in a Rust file"""
    out, seen = {}, {}
    for m in re.finditer(r"\bfn\s+([a-zA-Z_][a-zA-Z0-9_]*)", text):
        name, i = m.group(1), m.end()
        # find the body's opening brace (skip signatures of trait method declarations ending in ';')
        depth_par, j = 0, i
        while j < len(text):
            ch = text[j]
            if ch in "([<":
                depth_par += ch != "<"
            elif ch in ")]":
                depth_par -= 1
            elif ch == ";" and depth_par <= 0:
                j = -1
                break
            elif ch == "{" and depth_par <= 0:
                break
            j += 1
        if j < 0 or j >= len(text):
            continue
        depth, k = 0, j
        while k < len(text):
            if text[k] == "{":
                depth += 1
            elif text[k] == "}":
                depth -= 1
                if depth == 0:
                    break
            k += 1
        body = text[m.start():k + 1]
        seen[name] = seen.get(name, 0) + 1
        key = name if seen[name] == 1 else "%s#%d" % (name, seen[name])
        out[key] = hashlib.sha1(re.sub(r"\s+", " ", body).encode()).hexdigest()[:16]
    return out


def scan(repo="/repo"):
    res = {}
    for f in FILES:
        p = os.path.join(repo, f)
        if os.path.exists(p):
            res[f] = functions(open(p, encoding="utf-8", errors="replace").read())
    return res


def drift(repo="/repo"):
    """(recorded commit, list of changed/added/removed functions with the Lean definitions that model them)"""
    p = os.path.join(ROOT, "anchors.json")
    if not os.path.exists(p):
        return None, []
    rec = json.load(open(p))
    now, changes = scan(repo), []
    for f in FILES:
        old, new = rec["functions"].get(f, {}), now.get(f, {})
        for name in sorted(set(old) | set(new)):
            a, b = old.get(name, {}).get("hash"), new.get(name)
            if a != b:
                kind = "changed" if a and b else ("added" if b else "removed")
                changes.append({"file": f, "fn": name, "kind": kind, "modelled_by": MODEL.get(f, {}).get(name, [])})
    return rec.get("recorded_at"), changes


def record(repo="/repo"):
    head = subprocess.run(["git", "-C", repo, "rev-parse", "--short", "HEAD"], capture_output=True, text=True).stdout.strip()
    fns = {f: {n: {"hash": h, "modelled_by": MODEL.get(f, {}).get(n, [])} for n, h in d.items()} for f, d in scan(repo).items()}
    unknown = [(f, n) for f in MODEL for n in MODEL[f] if n not in fns.get(f, {})]
    json.dump({"comment": "whitespace-normalised hashes of every fn of the modelled source files, recorded when model and source were last reconciled (tools/anchors.py --record)",
               "recorded_at": head, "functions": fns}, open(os.path.join(ROOT, "anchors.json"), "w"), indent=1, sort_keys=True)
    n = sum(len(d) for d in fns.values())
    m = sum(1 for f in fns for x in fns[f].values() if x["modelled_by"])
    print("recorded %d functions (%d mapped to Lean definitions) at %s" % (n, m, head))
    for f, nme in unknown:
        print("  note: MODEL names %s::%s, which does not exist in the source" % (f, nme))


if __name__ == "__main__":
    if "--record" in sys.argv:
        record()
    else:
        at, ch = drift()
        print("recorded at", at, "-", len(ch), "function(s) differ")
        for c in ch:
            print("  %s %s::%s  modelled by %s" % (c["kind"], c["file"], c["fn"], ", ".join(c["modelled_by"]) or "(glue, not modelled)"))
