import H2T.Lemmas.Shrink

/-! C06, "columns with text get space": the column allocation never takes a column below its minimum.  Side by side
    means `Σ min_width + (n − 1) ≤ width`; while the row does not fit some column is above its minimum, the shrink loop
    picks a column with the largest slack, so the column it shrinks stays at or above its minimum. -/

namespace H2T

theorem decAt_get : ∀ (ws : List Nat) (i j : Nat), (decAt ws i).getD j 0 = if j = i then ws.getD j 0 - 1 else ws.getD j 0 := by
  intro ws
  induction ws with
  | nil => intro i j; simp [decAt]
  | cons w ws ih =>
    intro i j
    cases i with
    | zero =>
      cases j with
      | zero => simp [decAt]
      | succ j => simp [decAt]
    | succ i =>
      cases j with
      | zero => simp [decAt]
      | succ j => simpa [decAt] using ih i j

theorem decAt_length : ∀ (ws : List Nat) (i : Nat), (decAt ws i).length = ws.length := by
  intro ws
  induction ws with
  | nil => intro i; rfl
  | cons w ws ih => intro i; cases i <;> simp [decAt, ih]

/-- if the sum exceeds the sum of the bounds, some element exceeds its bound -/
theorem exists_gt_of_sum_gt : ∀ (ws ms : List Nat), ws.length = ms.length → ms.sum < ws.sum →
    ∃ j, j < ws.length ∧ ms.getD j 0 < ws.getD j 0 := by
  intro ws
  induction ws with
  | nil => intro ms hl h; cases ms <;> simp at hl h
  | cons w ws ih =>
    intro ms hl h
    cases ms with
    | nil => simp at hl
    | cons m ms =>
      simp only [List.sum_cons] at h
      by_cases hw : m < w
      · exact ⟨0, by simp, by simpa using hw⟩
      · obtain ⟨j, hj, hlt⟩ := ih ms (by simpa using hl) (by omega)
        exact ⟨j + 1, by simpa using hj, by simpa using hlt⟩

/-- **the shrink loop keeps every column at or above its floor**, for any floor below the columns' minimum widths, when
    the minimum widths fit side by side -/
theorem shrinkLoop_floor (width : Nat) (cs : List SizeEst) (fl : List Nat) : ∀ (fuel : Nat) (ws ws' : List Nat),
    ws.length ≤ cs.length → (∀ j, j < ws.length → fl.getD j 0 ≤ ws.getD j 0) →
    (∀ j, j < ws.length → fl.getD j 0 ≤ (cs.getD j {}).minW) →
    ((cs.take ws.length).map (·.minW)).sum + (ws.length - 1) ≤ width →
    shrinkLoop width cs fuel ws = .ok ws' → ws'.length = ws.length ∧ ∀ j, j < ws.length → fl.getD j 0 ≤ ws'.getD j 0 := by
  intro fuel
  induction fuel with
  | zero => intro ws ws' _ _ _ _ h; simp [shrinkLoop] at h
  | succ fuel ih =>
    intro ws ws' hl hfl hmin hguard h
    simp only [shrinkLoop] at h
    by_cases hfit : ws.sum + ws.length - 1 ≤ width
    · rw [if_pos hfit] at h; injection h with h; subst h; exact ⟨rfl, hfl⟩
    · rw [if_neg hfit] at h
      -- some column is above its minimum
      have hlen : ws.length = ((cs.take ws.length).map (·.minW)).length := by simp [Nat.min_eq_left hl]
      have hex := exists_gt_of_sum_gt ws ((cs.take ws.length).map (·.minW)) hlen (by
        have : 0 < ws.length := by
          cases ws with
          | nil => simp at hfit
          | cons _ _ => simp
        omega)
      obtain ⟨j0, hj0, hgt⟩ := hex
      have hgt' : (cs.getD j0 {}).minW < ws.getD j0 0 := by
        have : ((cs.take ws.length).map (·.minW)).getD j0 0 = (cs.getD j0 {}).minW := by
          have hj0c : j0 < cs.length := Nat.lt_of_lt_of_le hj0 hl
          simp [List.getD, List.getElem?_map, List.getElem?_take, hj0, hj0c]
        rw [this] at hgt; exact hgt
      have hspec := argmaxCol_spec ws cs 0 none hl
      cases hr : argmaxCol ws cs 0 none with
      | none => rw [hr] at h; simp at h
      | some r =>
        rw [hr] at hspec
        unfold ArgSpec at hspec
        obtain ⟨_, hmax, hwho⟩ := hspec
        rcases hwho with hw | ⟨i, hi, hri⟩
        · simp at hw
        · simp only [hr] at h
          split at h
          · simp at h
          · have hidx : r.2 = i := by rw [hri]; simp
            -- the winner's slack is at least j0's slack, which is positive
            have hle := hmax j0 hj0
            rw [hri] at hle
            have hwi : ws.getD i 0 = ws[i] := by simp [hi]
            have hwj : ws.getD j0 0 = ws[j0] := by simp [hj0]
            have hslack : (cs.getD i {}).minW < ws[i] := by
              simp only [keyLe, colKey, Nat.zero_add, Bool.or_eq_true, Bool.and_eq_true, decide_eq_true_eq] at hle
              rw [hwj] at hgt'
              omega
            rw [hidx] at h
            have := ih (decAt ws i) ws' (by rw [decAt_length]; exact hl)
              (by
                intro j hj
                rw [decAt_length] at hj
                rw [decAt_get]
                by_cases hji : j = i
                · rw [if_pos hji, hji, hwi]
                  have := hmin i hi
                  omega
                · rw [if_neg hji]; exact hfl j hj)
              (by intro j hj; rw [decAt_length] at hj; exact hmin j hj)
              (by rw [decAt_length]; exact hguard) h
            rw [decAt_length] at this
            exact this

/-- the initial proportional width of a column -/
def initW (width tot : Nat) (sz : SizeEst) : Nat :=
  if sz.size = 0 then 0 else
    min sz.size (if 18446744073709551615 / width ≤ sz.size then max ((width / tot) * sz.size) sz.minW
                 else max (sz.size * width / tot) sz.minW)

theorem initW_floor (width tot : Nat) (sz : SizeEst) (h : sz.size ≠ 0) : min sz.size sz.minW ≤ initW width tot sz := by
  unfold initW
  rw [if_neg h]
  split <;> omega

/-- **columns with text get space**: side by side, every column ends at least as wide as the smaller of its content size
    and its minimum width — in particular a column that holds text (`size ≠ 0`) with a positive minimum is never
    allocated zero width -/
theorem allocCols_floor (cfg : Cfg) (width : Nat) (cols : List SizeEst) (ws : List Nat) (tw : Nat)
    (h : allocCols cfg width cols = .ok (ws, false, tw)) :
    ws.length = cols.length ∧ ∀ j, j < cols.length → (cols.getD j {}).size ≠ 0 →
      min (cols.getD j {}).size (cols.getD j {}).minW ≤ ws.getD j 0 := by
  unfold allocCols at h
  simp only at h
  split at h
  · injection h with h; simp only [Prod.mk.injEq] at h; exact absurd h.2.1 (by simp)
  · rename_i hv
    have hguard : (cols.map (·.minW)).sum + (cols.length - 1) ≤ width := by
      simp only [Bool.or_eq_true, decide_eq_true_eq, not_or, Nat.not_lt] at hv
      exact hv.2.1
    generalize htot : (cols.map (·.size)).sum = tot at h
    have hinit : (cols.map fun sz =>
        if sz.size = 0 then 0 else
          min sz.size (if 18446744073709551615 / width ≤ sz.size then max ((width / tot) * sz.size) sz.minW
                       else max (sz.size * width / tot) sz.minW)) = cols.map (initW width tot) := rfl
    rw [hinit] at h
    have hfloor0 : ∀ j, j < cols.length → (min ((cols.map (initW width tot)).getD j 0) (cols.getD j {}).minW) ≤ (cols.map (initW width tot)).getD j 0 :=
      fun j _ => Nat.min_le_left _ _
    by_cases he : (cols.map (initW width tot)).isEmpty = true
    · rw [if_pos he] at h
      simp only [andThen] at h
      injection h with h; simp only [Prod.mk.injEq] at h
      obtain ⟨rfl, _⟩ := h
      have : cols = [] := by simpa using he
      subst this
      exact ⟨rfl, fun j hj => by simp at hj⟩
    · rw [if_neg he] at h
      cases hs : shrinkLoop width cols ((cols.map (initW width tot)).sum + 2) (cols.map (initW width tot)) with
      | error e => rw [hs] at h; simp [andThen] at h
      | ok ws1 =>
        rw [hs] at h
        simp only [andThen] at h
        injection h with h; simp only [Prod.mk.injEq] at h
        obtain ⟨rfl, _⟩ := h
        have hlen : (cols.map (initW width tot)).length = cols.length := by simp
        have := shrinkLoop_floor width cols ((cols.map (initW width tot)).zipWith min (cols.map (·.minW)))
          _ (cols.map (initW width tot)) ws1 (by simp)
          (by
            intro j hj
            rw [hlen] at hj
            simp only [List.getD, List.getElem?_zipWith, List.getElem?_map]
            have : cols[j]? = some cols[j] := by simp [hj]
            simp [this]; exact Nat.min_le_left _ _)
          (by
            intro j hj
            rw [hlen] at hj
            simp only [List.getD, List.getElem?_zipWith, List.getElem?_map]
            have : cols[j]? = some cols[j] := by simp [hj]
            simp [this]; exact Nat.min_le_right _ _)
          (by rw [hlen, List.take_length]; exact hguard) hs
        obtain ⟨l1, f1⟩ := this
        refine ⟨l1.trans hlen, ?_⟩
        intro j hj hsz
        have hf := f1 j (by rw [hlen]; exact hj)
        have hcj : cols[j]? = some cols[j] := by simp [hj]
        have hgd : cols.getD j {} = cols[j] := by simp [List.getD, hcj]
        rw [hgd] at hsz ⊢
        have hfl : ((cols.map (initW width tot)).zipWith min (cols.map (·.minW))).getD j 0 = min (initW width tot cols[j]) cols[j].minW := by
          simp [List.getD, List.getElem?_zipWith, List.getElem?_map, hcj]
        rw [hfl] at hf
        have := initW_floor width tot cols[j] hsz
        omega

end H2T
