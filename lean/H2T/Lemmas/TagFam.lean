import H2T.Lemmas.TagTextPre

/-! C16 from C09: the custom-decorator family.  A family whose block prefixes avoid an alphabet `P` (itself free of digits
    and `-`, which ordered-list markers are made of) satisfies `DecoAvoids P`, so every conservation theorem applies to it:
    the decorator's affixes are part of the conserved text, in document order. -/

namespace H2T

theorem avoids_mono (P Q : Ch → Bool) (h : ∀ c, P c = true → Q c = true) (p : List Ch) (hq : avoids Q p = true) : avoids P p = true := by
  simp only [avoids, List.all_eq_true, Bool.or_eq_true, Bool.not_eq_true'] at hq ⊢
  intro c hc
  rcases hq c hc with hw | hn
  · exact Or.inl hw
  · right
    cases hp : P c with
    | false => rfl
    | true => rw [h c hp] at hn; cases hn

theorem avoids_flatten_replicate (P : Ch → Bool) (u : List Ch) (hu : avoids P u = true) (n : Nat) :
    avoids P (List.replicate n u).flatten = true := by
  induction n with
  | zero => rfl
  | succ n ih => simp [List.replicate_succ, avoids_append, hu, ih]

/-- a family whose prefixes avoid `P` — with `P` free of the characters of decimal numbers — is covered -/
theorem fam_avoids (P : Ch → Bool) (f : DecoFam) (hP : ∀ c, P c = true → richAlpha c = true) (h1 : avoids P f.hUnit = true)
    (h2 : avoids P f.hTail = true) (h3 : avoids P f.quote = true) (h4 : avoids P f.ul = true) (h5 : avoids P f.olTail = true) :
    DecoAvoids P (Deco.ofFam f) where
  header n := by simp [Deco.ofFam, avoids_append, avoids_flatten_replicate P f.hUnit h1 n, h2]
  quote := h3
  ul := h4
  ol i := by simp [Deco.ofFam, avoids_append, avoids_mono P richAlpha hP _ (fmtInt_avoids i), h5]

end H2T
