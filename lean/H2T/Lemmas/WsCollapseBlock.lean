import H2T.Lemmas.WsCollapse
import H2T.Lemmas.ConserveBlock

/-! C13, block level: `add_inline_text` in normal white-space mode does not see how a collapsible whitespace run is
    spelled. -/

namespace H2T

theorem strikeFilter_append (a b : List Ch) : strikeFilter (a ++ b) = strikeFilter a ++ strikeFilter b := by
  simp [strikeFilter, List.flatMap_append]

theorem iterStrike_append (n : Nat) : ∀ (a b : List Ch), iterN strikeFilter n (a ++ b) = iterN strikeFilter n a ++ iterN strikeFilter n b := by
  induction n with
  | zero => intro a b; rfl
  | succ n ih => intro a b; simp only [iterN, strikeFilter_append, ih]

theorem iterStrike_ws (n : Nat) (w : List Ch) (h : w.all chIsWs = true) : iterN strikeFilter n w = w := by
  induction n with
  | zero => rfl
  | succ n ih => simp only [iterN, strikeFilter_ws w h, ih]

/-- **`add_inline_text` in normal mode is blind to the spelling of whitespace runs**: replacing a non-empty run of
    whitespace inside a text by any other non-empty run gives the same sub-renderer (or the same error) -/
theorem addInlineText_ws_runs (s : SubR) (cfg : Cfg) (f : Ann → Ann) (pre w1 w2 rest : List Ch) (hm : s.wsMode = .normal)
    (h1 : w1 ≠ []) (h2 : w2 ≠ []) (a1 : w1.all chIsWs = true) (a2 : w2.all chIsWs = true) :
    s.addInlineText cfg (pre ++ w1 ++ rest) f = s.addInlineText cfg (pre ++ w2 ++ rest) f := by
  unfold SubR.addInlineText
  have hall : (pre ++ w1 ++ rest).all chIsWs = (pre ++ w2 ++ rest).all chIsWs := by
    simp only [List.all_append, a1, a2]
  rw [hall]
  by_cases hc : (!s.wsMode.preserve && s.atBlockEnd && (pre ++ w2 ++ rest).all chIsWs) = true
  · rw [if_pos hc, if_pos hc]
  · rw [if_neg hc, if_neg hc]
    cases hsb : (if s.atBlockEnd = true then s.startBlock else Except.ok s) with
    | error e => rfl
    | ok s0 =>
      simp only [andThen]
      have hm0 : s0.wsMode = .normal := by
        have : s0.ff = s.ff := by
          split at hsb
          · exact startBlock_ff s s0 hsb
          · injection hsb with hsb; subst hsb; rfl
        simp only [SubR.ff, Prod.mk.injEq] at this
        unfold SubR.wsMode at hm ⊢
        rw [this.2.2.1]; exact hm
      rw [hm0]
      simp only [iterStrike_append, iterStrike_ws _ w1 a1, iterStrike_ws _ w2 a2]
      have b1 : w1.all Ch.ws = true := a1
      have b2 : w2.all Ch.ws = true := a2
      rw [addText_ws_runs _ _ _ _ w1 w2 _ h1 h2 b1 b2]

end H2T
