import H2T.Lemmas.ConserveTagPre
import H2T.Lemmas.ConserveTable

/-! C09 with tables, table layer: the counting argument of `ConserveTable` for tagged cells.  `q` is any predicate on cells
    that no box-drawing cell satisfies; `countP q` of what a row adds is what its cells hold. -/

namespace H2T

section
variable (q : Cell → Bool) (hq : ∀ y, q y = true → isBox y.ch = false)
include hq

/-- cells made of box-drawing characters and blanks count nothing -/
theorem tcnt_boxCells (tag : Tag) (cs : List Ch) (h : ∀ c ∈ cs, isBox c = true ∨ c.ws = true) :
    (tink (cs.map fun x => Elt.cell ⟨x, tag⟩)).countP q = 0 := by
  apply List.countP_eq_zero.mpr
  intro y hy
  simp only [tink, List.mem_filterMap, List.mem_map] at hy
  obtain ⟨e, ⟨x, hx, rfl⟩, he⟩ := hy
  simp only at he
  split at he
  · simp at he
  · rename_i hws
    injection he with he; subst he
    intro hqy
    have := hq _ hqy
    rcases h x hx with hb | hw
    · simp only at this; rw [hb] at this; cases this
    · exact hws hw

theorem tcnt_borderCells (tag : Tag) (b : Border) : (tink (b.chars.map fun x => Elt.cell ⟨x, tag⟩)).countP q = 0 := by
  apply tcnt_boxCells q hq
  intro c hc
  simp only [Border.chars, List.mem_map] at hc
  obtain ⟨sg, _, rfl⟩ := hc
  exact Or.inl (glyph_isBox sg)

theorem tcnt_vertAbove (tag : Tag) (b : Border) : (tink (b.vertAbove.map fun x => Elt.cell ⟨x, tag⟩)).countP q = 0 := by
  apply tcnt_boxCells q hq
  intro c hc
  simp only [Border.vertAbove, List.mem_map] at hc
  obtain ⟨sg, _, rfl⟩ := hc
  cases sg <;> first | exact Or.inl rfl | exact Or.inr rfl

omit hq in
theorem tcnt_spaces (tag : Tag) (n : Nat) : (tink ((List.replicate n spaceCh).map fun x => Elt.cell ⟨x, tag⟩)).countP q = 0 := by
  have : tink ((List.replicate n spaceCh).map fun x => Elt.cell ⟨x, tag⟩) = [] := by
    induction n with
    | zero => rfl
    | succ n ih => simp [List.replicate_succ, tink, spaceCh] at ih ⊢
  rw [this]; rfl

omit hq in
theorem tcnt_padLine (tag : Tag) (w : Nat) (l : RLine) : (trink (padLine tag w l)).countP q = (trink l).countP q := by
  cases l with
  | text tl => simp [padLine, trink, tink_append, tink_spaces]
  | rule b t => rfl

/-- what the line sets of a row's cells hold -/
def setsTCnt (sets : List (Nat × List RLine)) : Nat := (sets.map fun st => (st.2.flatMap trink).countP q).sum

omit hq in
theorem countP_flatMap' {α : Type} (l : List α) (f : α → List Cell) :
    (l.flatMap f).countP q = (l.map fun a => (f a).countP q).sum := by
  induction l with
  | nil => rfl
  | cons a l ih => simp [List.flatMap_cons, List.countP_append, ih]

omit hq in
theorem colSets_tcnt (ann : Tag) : ∀ (cols : List SubR) (sets : List (Nat × List RLine)), (∀ col ∈ cols, col.FragsOk) →
    colSets ann cols = .ok sets → setsTCnt q sets = (cols.map fun col => col.tink.countP q).sum := by
  intro cols
  induction cols with
  | nil => intro sets _ h; simp [colSets] at h; subst h; rfl
  | cons col cols ih =>
    intro sets hf h
    simp only [colSets] at h
    cases h1 : col.intoLines with
    | error e => simp [h1, andThen] at h
    | ok ls =>
      simp only [h1, andThen] at h
      cases h2 : colSets ann cols with
      | error e => simp [h2] at h
      | ok r =>
        simp only [h2] at h; injection h with h; subst h
        have i1 := intoLines_tink col ls (hf col (by simp)) h1
        have i2 := ih r (fun x hx => hf x (by simp [hx])) h2
        simp only [setsTCnt, List.map_cons, List.sum_cons] at i2 ⊢
        rw [i2, ← i1, countP_flatMap', countP_flatMap', List.map_map]
        congr 2
        apply List.map_congr_left
        intro l _
        exact tcnt_padLine q ann col.width l

omit hq in
theorem collapseTop_tcnt : ∀ (sets : List (Nat × List RLine)) (prev : Option Border) (pos : Nat)
    (p2 : Option Border) (out : List (Nat × List RLine)),
    collapseTop prev pos sets = .ok (p2, out) → setsTCnt q out = setsTCnt q sets ∧ out.length = sets.length := by
  intro sets
  induction sets with
  | nil =>
    intro prev pos p2 out h
    simp [collapseTop] at h
    obtain ⟨_, rfl⟩ := h
    exact ⟨rfl, rfl⟩
  | cons st r ih =>
    intro prev pos p2 out h
    unfold collapseTop at h
    split at h
    · rename_i b t restLines heq
      cases prev with
      | none => simp at h
      | some pb =>
        simp only at h
        cases h1 : collapseTop (some (pb.mergeFromBelow b pos)) (pos + st.1 + 1) r with
        | error e => simp [h1, andThen] at h
        | ok v =>
          obtain ⟨p', out'⟩ := v
          simp only [h1, andThen] at h
          injection h with h
          simp only [Prod.mk.injEq] at h
          obtain ⟨_, rfl⟩ := h
          obtain ⟨a1, a2⟩ := ih _ _ p' out' h1
          refine ⟨?_, by simp [a2]⟩
          simp only [setsTCnt, List.map_cons, List.sum_cons] at a1 ⊢
          rw [a1, heq]
          simp [List.flatMap_cons, trink]
    · cases h1 : collapseTop prev (pos + st.1 + 1) r with
      | error e => simp [h1, andThen] at h
      | ok v =>
        obtain ⟨p', out'⟩ := v
        simp only [h1, andThen] at h
        injection h with h
        simp only [Prod.mk.injEq] at h
        obtain ⟨_, rfl⟩ := h
        obtain ⟨a1, a2⟩ := ih _ _ p' out' h1
        refine ⟨?_, by simp [a2]⟩
        simp only [setsTCnt, List.map_cons, List.sum_cons] at a1 ⊢
        rw [a1]

omit hq in
theorem trink_dropLast_rule (ls : List RLine) (b : Border) (t : Tag) (h : ls.getLast? = some (.rule b t)) :
    ls.dropLast.flatMap trink = ls.flatMap trink := by
  have : ls = ls.dropLast ++ [.rule b t] := by
    induction ls with
    | nil => simp at h
    | cons a r ih =>
      cases r with
      | nil => simp at h; simp [h]
      | cons y r2 =>
        simp only [List.getLast?_cons_cons] at h
        simp only [List.dropLast_cons_cons, List.cons_append]
        rw [← ih h]
  conv => rhs; rw [this]
  simp [List.flatMap_append, trink]

omit hq in
theorem collapseBottom_tcnt : ∀ (sets : List (Nat × List RLine)) (nb : Border) (pos : Nat),
    setsTCnt q (collapseBottom nb pos sets).2.1 = setsTCnt q sets ∧ (collapseBottom nb pos sets).2.1.length = sets.length ∧
    (collapseBottom nb pos sets).2.2.length = sets.length ∧ ∀ p ∈ (collapseBottom nb pos sets).2.2, PadShape p := by
  intro sets
  induction sets with
  | nil => intro nb pos; simp [collapseBottom, setsTCnt]
  | cons st r ih =>
    intro nb pos
    unfold collapseBottom
    split
    · rename_i b t heq
      obtain ⟨a1, a2, a3, a4⟩ := ih (nb.mergeFromAbove b pos) (pos + st.1 + 1)
      simp only
      refine ⟨?_, by simp [a2], by simp [a3], ?_⟩
      · simp only [setsTCnt, List.map_cons, List.sum_cons] at a1 ⊢
        rw [a1, trink_dropLast_rule st.2 b t heq]
      · intro p hp
        simp only [List.mem_cons] at hp
        rcases hp with rfl | hp
        · exact Or.inr ⟨b, rfl⟩
        · exact a4 p hp
    · obtain ⟨a1, a2, a3, a4⟩ := ih nb (pos + st.1 + 1)
      simp only
      refine ⟨?_, by simp [a2], by simp [a3], ?_⟩
      · simp only [setsTCnt, List.map_cons, List.sum_cons] at a1 ⊢
        rw [a1]
      · intro p hp
        simp only [List.mem_cons] at hp
        rcases hp with rfl | hp
        · exact Or.inl rfl
        · exact a4 p hp

/-- what a cell contributes to line `i` of its row -/
def lineTCnt (st : Nat × List RLine) (i : Nat) : Nat := (st.2[i]?.map fun l => (trink l).countP q).getD 0

theorem tcnt_colLineBody (ann : Tag) (i : Nat) (st : Nat × List RLine) (pad : Option (List Ch)) (hp : PadShape pad) :
    (tink (colLineBody ann i st pad)).countP q = lineTCnt q st i := by
  unfold colLineBody lineTCnt
  cases h : st.2[i]? with
  | none =>
    simp only [Option.map_none, Option.getD_none]
    rcases hp with rfl | ⟨b, rfl⟩
    · exact tcnt_spaces q ann st.1
    · exact tcnt_vertAbove q hq ann b
  | some l =>
    cases l with
    | text tl => rfl
    | rule b t => simp only [trink, Option.map_some, Option.getD_some]; exact tcnt_borderCells q hq ann b

theorem tcnt_colLine (ann : Tag) (sep : Ch) (hsep : isBox sep = true ∨ sep.ws = true) (i : Nat) :
    ∀ (zs : List ((Nat × List RLine) × Option (List Ch))), (∀ z ∈ zs, PadShape z.2) →
    (tink (colLine ann sep i zs)).countP q = (zs.map fun z => lineTCnt q z.1 i).sum := by
  intro zs
  induction zs with
  | nil => intro _; rfl
  | cons z r ih =>
    intro hp
    obtain ⟨st, pad⟩ := z
    have h0 := tcnt_colLineBody q hq ann i st pad (hp (st, pad) (by simp))
    cases r with
    | nil => simp [colLine, h0]
    | cons z2 r2 =>
      have := ih (fun x hx => hp x (by simp [hx]))
      simp only [colLine, tink_append, List.countP_append, h0, this, List.map_cons, List.sum_cons]
      have hs : (tink [Elt.cell ⟨sep, ann⟩]).countP q = 0 := by
        have := tcnt_boxCells q hq ann [sep] (by intro c hc; simp at hc; subst hc; exact hsep)
        simpa using this
      omega

/-- the text lines of a row hold exactly what the cells' line sets hold -/
theorem rowLines_tcnt (ann : Tag) (sep : Ch) (hsep : isBox sep = true ∨ sep.ws = true) (H : Nat) :
    ∀ (zs : List ((Nat × List RLine) × Option (List Ch))), (∀ z ∈ zs, PadShape z.2) → (∀ z ∈ zs, z.1.2.length ≤ H) →
    ((List.range H).map fun i => (tink (colLine ann sep i zs)).countP q).sum = (zs.map fun z => (z.1.2.flatMap trink).countP q).sum := by
  intro zs hp hl
  have h1 : ((List.range H).map fun i => (tink (colLine ann sep i zs)).countP q) =
      (List.range H).map fun i => (zs.map fun z => lineTCnt q z.1 i).sum := by
    apply List.map_congr_left; intro i _; exact tcnt_colLine q hq ann sep hsep i zs hp
  rw [h1]
  clear h1 hp
  induction zs with
  | nil => simp only [List.map_nil, List.sum_nil]; exact sum_zeros _
  | cons z r ih =>
    simp only [List.map_cons, List.sum_cons]
    rw [sum_map_add, ih (fun x hx => hl x (by simp [hx]))]
    congr 1
    have := sum_range_opt (fun l => (trink l).countP q) z.1.2 H (hl z (by simp))
    rw [countP_flatMap']
    show ((List.range H).map fun i => lineTCnt q z.1 i).sum = _
    unfold lineTCnt; exact this

omit hq in
theorem setLastRule_tcnt (s : SubR) (prev : Option Border) :
    (s.setLastRule prev).tink = s.tink ∧ (s.setLastRule prev).pendingFrags = s.pendingFrags ∧
    (s.setLastRule prev).wrapping = s.wrapping := by
  unfold SubR.setLastRule
  cases prev with
  | none => exact ⟨rfl, rfl, rfl⟩
  | some pb =>
    simp only
    split
    · rename_i b t heq
      refine ⟨?_, rfl, rfl⟩
      simp only [SubR.tink, setLast, List.flatMap_append, List.flatMap_cons, List.flatMap_nil, List.append_nil, trink]
      rw [trink_dropLast_rule s.lines b t heq]
    · exact ⟨rfl, rfl, rfl⟩

theorem emitColumns_tcnt (s : SubR) (cfg : Cfg) (ann : Tag) (sets3 : List (Nat × List RLine)) (pads : List (Option (List Ch)))
    (nb : Border) (hf : s.FragsOk) (hw : s.wrapping = none) (hl : sets3.length = pads.length) (hp : ∀ p ∈ pads, PadShape p) :
    (s.emitColumns cfg ann sets3 pads nb).tink.countP q = s.tink.countP q + setsTCnt q sets3 ∧ (s.emitColumns cfg ann sets3 pads nb).FragsOk := by
  unfold SubR.emitColumns
  simp only []
  have hsep : isBox (if cfg.drawBorders = true then mkCh 0x2502 else spaceCh) = true ∨ (if cfg.drawBorders = true then mkCh 0x2502 else spaceCh).ws = true := by
    split
    · left; rfl
    · right; rfl
  generalize (if cfg.drawBorders = true then mkCh 0x2502 else spaceCh) = sep at hsep ⊢
  obtain ⟨a1, a2, a3⟩ := addLines_tink ((List.range ((sets3.map (·.2.length)).foldl max 0)).map fun i => RLine.text (colLine ann sep i (sets3.zip pads))) s hf hw
  have hz : ∀ z ∈ sets3.zip pads, PadShape z.2 := fun z hz => hp z.2 (List.of_mem_zip hz).2
  have hH : ∀ z ∈ sets3.zip pads, z.1.2.length ≤ (sets3.map (·.2.length)).foldl max 0 := by
    intro z hz
    have hm := (List.of_mem_zip hz).1
    exact (foldl_max_ge (sets3.map (·.2.length)) 0).2 _ (List.mem_map_of_mem hm)
  have hrow := rowLines_tcnt q hq ann sep hsep _ (sets3.zip pads) hz hH
  have hzip : ((sets3.zip pads).map fun z => (z.1.2.flatMap trink).countP q).sum = setsTCnt q sets3 := by
    unfold setsTCnt
    have : (sets3.zip pads).map (·.1) = sets3 := by
      rw [List.map_fst_zip]; omega
    conv => rhs; rw [← this]
    rw [List.map_map]; rfl
  have hadd : (((List.range ((sets3.map (·.2.length)).foldl max 0)).map fun i => RLine.text (colLine ann sep i (sets3.zip pads))).flatMap trink).countP q =
      setsTCnt q sets3 := by
    rw [countP_flatMap', List.map_map, ← hzip, ← hrow]; rfl
  split
  · obtain ⟨b1, b2⟩ := addLine_tink _ (.rule nb ann) a2
    refine ⟨?_, b2⟩
    rw [b1, a3]
    have : (s.addLines ((List.range ((sets3.map (·.2.length)).foldl max 0)).map fun i => RLine.text (colLine ann sep i (sets3.zip pads)))).lines.flatMap trink =
        (s.addLines ((List.range ((sets3.map (·.2.length)).foldl max 0)).map fun i => RLine.text (colLine ann sep i (sets3.zip pads)))).tink := by
      simp [SubR.tink, a3]
    rw [this, a1]
    simp only [List.countP_append, trink, hadd, List.append_nil]
  · refine ⟨?_, a2⟩
    rw [a1, List.countP_append, hadd]

theorem appendColumns_tcnt (s s' : SubR) (cfg : Cfg) (cols : List SubR) (hf : s.FragsOk) (hcf : ∀ col ∈ cols, col.FragsOk)
    (h : s.appendColumns cfg cols = .ok s') :
    s'.tink.countP q = s.tink.countP q + (cols.map fun col => col.tink.countP q).sum ∧ s'.FragsOk := by
  unfold SubR.appendColumns at h
  cases h1 : s.flushWrapping with
  | error e => simp [h1, andThen] at h
  | ok s0 =>
    simp only [h1, andThen] at h
    obtain ⟨f1, f2, f3⟩ := flushWrapping_tink s s0 hf h1
    cases h2 : colSets s0.annStack cols with
    | error e => simp [h2] at h
    | ok sets =>
      simp only [h2] at h
      have hs := colSets_tcnt q _ cols sets hcf h2
      split at h
      · simp at h
      · generalize s0.joinBars sets ((sets.map (·.1)).sum + (sets.length - 1)) = pn at h
        cases h3 : collapseTop pn.1 0 sets with
        | error e => simp [h3] at h
        | ok v =>
          obtain ⟨prev2, sets2⟩ := v
          simp only [h3] at h
          injection h with h; subst h
          obtain ⟨t1, _⟩ := collapseTop_tcnt q sets pn.1 0 prev2 sets2 h3
          obtain ⟨b1, b2, b3, b4⟩ := collapseBottom_tcnt q sets2 pn.2 0
          obtain ⟨l1, l2, l3⟩ := setLastRule_tcnt s0 prev2
          have hfr : (s0.setLastRule prev2).FragsOk := by unfold SubR.FragsOk; rw [l2]; exact f2
          obtain ⟨e1, e2⟩ := emitColumns_tcnt q hq (s0.setLastRule prev2) cfg s0.annStack _ _ (collapseBottom pn.2 0 sets2).1 hfr (l3.trans f3)
            (by rw [b2, b3]) b4
          exact ⟨by rw [e1, l1, f1, b1, t1, hs], e2⟩

omit hq in
theorem addRule_tcnt (s s' : SubR) (b : Border) (hf : s.FragsOk) (h : s.flushWrapping = .ok s') :
    (s'.addLine (.rule b s'.annStack)).tink = s.tink ∧ (s'.addLine (.rule b s'.annStack)).FragsOk := by
  obtain ⟨f1, f2, f3⟩ := flushWrapping_tink s s' hf h
  obtain ⟨b1, b2⟩ := addLine_tink s' (.rule b s'.annStack) f2
  refine ⟨?_, b2⟩
  rw [b1, f3, ← f1]
  simp [SubR.tink, f3, trink]

/-- a sub-renderer appended without prefix (a cell of a stacked row): its rules arrive as box-drawing cells -/
theorem appendSub_tcnt0 (s other s' : SubR) (hf : s.FragsOk) (ho : other.FragsOk) (h : s.appendSub other [] [] = .ok s') :
    s'.tink.countP q = s.tink.countP q + other.tink.countP q ∧ s'.FragsOk := by
  unfold SubR.appendSub at h
  cases e1 : s.flushWrapping with
  | error e => simp [e1, andThen] at h
  | ok s1 =>
    simp only [e1, andThen] at h
    obtain ⟨a1, a2, a3⟩ := flushWrapping_tink s s1 hf e1
    cases e2 : other.intoLines with
    | error e => simp [e2] at h
    | ok ls =>
      simp only [e2] at h; injection h with h; subst h
      obtain ⟨b1, b2, _⟩ := addLines_tink (zipPrefix s1.annStack [] [] ls) s1 a2 a3
      refine ⟨?_, b2⟩
      rw [b1, List.countP_append, a1, ← intoLines_tink other ls ho e2]
      congr 1
      have hpl : ∀ l : RLine, (trink (prefixLine s1.annStack [] l)).countP q = (trink l).countP q := by
        intro l
        cases l with
        | text tl => simp [prefixLine]
        | rule b t =>
          simp only [prefixLine, List.nil_append, trink, List.countP_nil]
          exact tcnt_borderCells q hq _ b
      cases ls with
      | nil => rfl
      | cons l ls =>
        simp only [zipPrefix, List.flatMap_cons, List.countP_append, hpl]
        congr 1
        rw [countP_flatMap', countP_flatMap', List.map_map]
        congr 1
        apply List.map_congr_left
        intro x _
        exact hpl x

theorem vertCells_tcnt (cfg : Cfg) : ∀ (cols : List SubR) (first : Bool) (s s' : SubR), s.FragsOk → (∀ col ∈ cols, col.FragsOk) →
    vertCells cfg first s cols = .ok s' →
    s'.tink.countP q = s.tink.countP q + (cols.map fun col => col.tink.countP q).sum ∧ s'.FragsOk := by
  intro cols
  induction cols with
  | nil => intro first s s' hf _ h; simp [vertCells] at h; subst h; exact ⟨by simp, hf⟩
  | cons col cols ih =>
    intro first s s' hf hcf h
    simp only [vertCells] at h
    generalize h0 : (if (!first && cfg.drawBorders) = true then
        andThen s.flushWrapping fun s' => Except.ok (s'.addLine (.rule (List.replicate s.width Seg.vert) s'.annStack))
      else Except.ok s) = r0 at h
    cases r0 with
    | error e => simp [andThen] at h
    | ok s1 =>
      simp only [andThen] at h
      have st1 : s1.tink = s.tink ∧ s1.FragsOk := by
        split at h0
        · cases hfl : s.flushWrapping with
          | error e => simp [hfl, andThen] at h0
          | ok s0 =>
            simp only [hfl, andThen] at h0; injection h0 with h0; subst h0
            exact addRule_tcnt s s0 _ hf hfl
        · injection h0 with h0; subst h0; exact ⟨rfl, hf⟩
      cases h2 : s1.appendSub col [] [] with
      | error e => simp [h2] at h
      | ok s2 =>
        simp only [h2] at h
        obtain ⟨a1, a2⟩ := appendSub_tcnt0 q hq s1 col s2 st1.2 (hcf col (by simp)) h2
        obtain ⟨i1, i2⟩ := ih false s2 s' a2 (fun x hx => hcf x (by simp [hx])) h
        refine ⟨?_, i2⟩
        rw [i1, a1, st1.1]
        simp only [List.map_cons, List.sum_cons]; omega

theorem appendVertRow_tcnt (s s' : SubR) (cfg : Cfg) (cols : List SubR) (hf : s.FragsOk) (hcf : ∀ col ∈ cols, col.FragsOk)
    (h : s.appendVertRow cfg cols = .ok s') :
    s'.tink.countP q = s.tink.countP q + (cols.map fun col => col.tink.countP q).sum ∧ s'.FragsOk := by
  unfold SubR.appendVertRow at h
  cases h1 : s.flushWrapping with
  | error e => simp [h1, andThen] at h
  | ok s0 =>
    simp only [h1, andThen] at h
    obtain ⟨f1, f2, _⟩ := flushWrapping_tink s s0 hf h1
    cases h2 : vertCells cfg true s0 cols with
    | error e => simp [h2] at h
    | ok s1 =>
      simp only [h2] at h
      obtain ⟨v1, v2⟩ := vertCells_tcnt q hq cfg cols true s0 s1 f2 hcf h2
      split at h
      · cases h3 : s1.flushWrapping with
        | error e => simp [h3] at h
        | ok s2 =>
          simp only [h3] at h; injection h with h; subst h
          obtain ⟨r1, r2⟩ := addRule_tcnt s1 s2 (List.replicate s2.width Seg.straight) v2 h3
          exact ⟨by rw [r1, v1, f1], r2⟩
      · injection h with h; subst h; exact ⟨by rw [v1, f1], v2⟩

omit hq in
theorem tableTop_tcnt (s s' : SubR) (cfg : Cfg) (tw : Nat) (hf : s.FragsOk) (h : s.tableTop cfg tw = .ok s') :
    s'.tink = s.tink ∧ s'.FragsOk := by
  unfold SubR.tableTop at h
  split at h
  · cases h1 : s.flushWrapping with
    | error e => simp [h1, andThen] at h
    | ok s2 =>
      simp only [h1, andThen] at h; injection h with h; subst h
      exact addRule_tcnt s s2 _ hf h1
  · injection h with h; subst h; exact ⟨rfl, hf⟩

/-- a finished row adds at most what its cells hold (cells of zero width are dropped) -/
theorem appendRow_tcnt (s s' : SubR) (cfg : Cfg) (vert : Bool) (subs : List SubR) (hf : s.FragsOk) (hcf : ∀ col ∈ subs, col.FragsOk)
    (h : s.appendRow cfg vert subs = .ok s') :
    s'.tink.countP q ≤ s.tink.countP q + (subs.map fun col => col.tink.countP q).sum ∧ s'.FragsOk := by
  unfold SubR.appendRow at h
  split at h
  · obtain ⟨a, b⟩ := appendVertRow_tcnt q hq s s' cfg subs hf hcf h; exact ⟨by omega, b⟩
  · split at h
    · obtain ⟨a, b⟩ := appendColumns_tcnt q hq s s' cfg subs hf hcf h; exact ⟨by omega, b⟩
    · injection h with h; subst h; exact ⟨by omega, hf⟩

end

end H2T
