import H2T.Spec.Greedy
import H2T.Props.C13
import H2T.Lemmas.WrapInv

/-! # C04 — paragraph wrapping is exactly greedy word filling with whitespace collapsed

`Spec.greedy` (H2T/Spec/Greedy.lean) is the reference: words are placed on the current line behind one space
when they fit, otherwise on a new line; a word wider than a line is cut into maximal pieces that never split a
character; `TooNarrow` exactly when a character is wider than a whole line.

Status: **partial** (being extended).  The full refinement statement is `wrap_eq_greedy_full`; its proof on the
earlier per-character hard-wrap model exists (480 lines, design-phase calibration) and is being re-proved for the
piece-based hard wrap of this model.  Proved here for the current model: every emitted line fits the width
(all inputs, all tags); whitespace runs collapse and any whitespace character acts as a space; whitespace at the
start of a line is dropped (no line begins with a space); a word that fits is placed whole behind exactly the
pending space.  The `example`s at the end compare the machine with the reference on concrete inputs — those are
tests, labelled as such.  Independently of the theorems, the check's search oracle compares the real library with
an independent greedy wrapper written in Rust on exhaustive small and random large inputs. -/

namespace H2T.C04
open H2T.Spec

/-- the text of the lines a block returns -/
def linesText (ls : List TLine) : List (List Ch) :=
  ls.map fun l => l.filterMap fun e => match e with | .cell c => some c.ch | .frag _ => none

/-- running the wrap machine on text parts with arbitrary tags, then finishing -/
def wrapParts (w : Nat) (parts : List (Tag × List Ch)) : Except Err (List (List Ch)) :=
  andThen (parts.foldlM (fun (b : WB) (p : Tag × List Ch) => b.addText .normal p.1 p.1 p.2) ({ width := w } : WB))
    fun b => andThen b.finish fun ls => .ok (linesText ls)

/-- **Full statement**: for every split of a text over `add_text` calls with arbitrary tags, every width ≥ 1, and
    words of positive display width (the property's own domain), the machine's lines are the reference's. -/
def wrap_eq_greedy_full : Prop :=
  ∀ (w : Nat) (parts : List (Tag × List Ch)), 1 ≤ w →
    (∀ wd ∈ words (parts.flatMap (·.2)), 0 < lwc wd) →
    wrapParts w parts = greedy w (words (parts.flatMap (·.2)))

/-- every line fits (all tags, all splits): from the C02 wrap-layer invariant -/
theorem lines_fit (b : WB) (ls : List TLine) (hi : b.Inv) (ho : b.overflow = false) (h : b.finish = .ok ls) :
    ∀ l ∈ ls, lw l ≤ b.width :=
  finish_lines_fit b ls hi ho h

/-- whitespace runs collapse to one pending space, whichever whitespace characters they consist of -/
theorem ws_run_collapses (b b1 : WB) (mt wt : Tag) (cur cur1 : Bool) (c1 c2 : Ch) (h1 : c1.ws = true) (h2 : c2.ws = true)
    (hw : b.wordlen = 0) (hstep : b.addChar .normal mt wt cur c1 = .ok (b1, cur1)) :
    b1.addChar .normal mt wt cur1 c2 = .ok (b1, cur1) :=
  C13.second_ws_noop b b1 mt wt cur cur1 c1 c2 h1 h2 hw hstep

/-- no line begins with a space: whitespace met at the start of a line is dropped -/
theorem no_leading_space (b : WB) (mt wt : Tag) (cur : Bool) (c : Ch) (hc : c.ws = true) (hw : b.wordlen = 0)
    (hl : b.linelen = 0) : b.addChar .normal mt wt cur c = .ok (b, cur) :=
  C13.leading_ws_dropped b mt wt cur c hc hw hl

/-- a word that fits behind the pending space is placed whole, behind exactly `wslen` spaces (0 or 1 in normal
    mode); nothing else on the line or in the finished text changes -/
theorem fitting_word_placed (b b' : WB) (h : b.placeFits = .ok b') :
    lw b'.line = lw b.line + b.wslen + lw b.word ∧ b'.text = b.text ∧ b'.word = [] := by
  unfold WB.placeFits at h
  split at h
  · cases hs : b.spacetag with
    | none => simp [hs] at h
    | some t =>
      simp only [hs] at h; injection h with h; subst h
      simp [WB.pushWs, lw_replicate_spc]; omega
  · rename_i hz
    injection h with h; subst h
    have : b.wslen = 0 := by omega
    simp [this]

/-- the reference wrapper itself never makes a line wider than `W` when it places a word that fits -/
theorem spec_place_fits (W : Nat) (g : G) (word : List Ch) (hne : g.cur ≠ [])
    (hfit : lwc g.cur + 1 + lwc word ≤ W) :
    g.place W word = .ok { g with cur := g.cur ++ [spaceCh] ++ word } := by
  simp [G.place, hne, hfit]

/-! ## tests (not proofs): machine = reference on concrete inputs, checked by kernel evaluation -/

/-- "aaa bb  cccccc d" split over three tagged parts, widths 1..8 -/
example : ∀ w ∈ [1, 2, 3, 4, 5, 6, 7, 8],
    (wrapParts w [([], strCh "aaa b"), ([Ann.em], strCh "b  ccc"), ([], strCh "ccc d")]).toOption
      = (greedy w (words (strCh "aaa bb  cccccc d"))).toOption := by decide +kernel

/-- a width-2 character at width 1 is TooNarrow in both -/
example :
    let wide : Ch := ⟨0x5b57, 2, false, false⟩
    (match wrapParts 1 [([], [mkCh 97, spaceCh, wide])] with | .error .tooNarrow => true | _ => false) = true ∧
    (match greedy 1 (words [mkCh 97, spaceCh, wide]) with | .error .tooNarrow => true | _ => false) = true := by decide +kernel

end H2T.C04
