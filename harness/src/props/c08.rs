//! C08: link footnotes are numbered consistently with their references.

use super::common::*;
use crate::cfg::{Cfg, Deco};
use crate::domwalk;
use crate::gen::Knobs;
use crate::obs::Obs;
use crate::util::R;
use crate::{Case, Prop, Tier, Viol};

pub struct C08;

fn knobs() -> Knobs {
    let mut k = Knobs::all().no_css().unique();
    k.digits = false;
    k.sup = false;
    k.images = true;
    k.weird_colspan = false;
    k.ids = false;
    k.pre = false;
    k.max_words = 3;
    k
}

/// extract `[k]` markers (k decimal) from a text, in order
fn markers(text: &str) -> Vec<usize> {
    let b: Vec<char> = text.chars().collect();
    let mut v = Vec::new();
    let mut i = 0;
    while i < b.len() {
        if b[i] == '[' {
            let mut j = i + 1;
            while j < b.len() && b[j].is_ascii_digit() {
                j += 1;
            }
            if j > i + 1 && j < b.len() && b[j] == ']' {
                if let Ok(n) = b[i + 1..j].iter().collect::<String>().parse() {
                    v.push(n);
                }
                i = j + 1;
                continue;
            }
        }
        i += 1;
    }
    v
}

impl Prop for C08 {
    fn id(&self) -> &'static str {
        "C08"
    }
    fn rule(&self) -> &'static str {
        "G-doc with unique link texts and hrefs '/n/' placed anywhere in the block/table grammar (0..40 links), widths 10..120, plain/trivial/rich x link_footnotes on/off; hrefs and markers cannot be confused with document text (letters only); non-trivial = at least two rendered links"
    }
    fn cases(&self, r: &mut R, tier: Tier) -> Vec<Case> {
        let n = scale(tier, 2500, 40000);
        let mut v = Vec::new();
        for _ in 0..n {
            let mut k = knobs();
            k.href_digits = true;
            let mut html = gen_doc(r, k).0;
            // make hrefs distinct-ish: "/n/" with n from the generator is 0..8; fine (not necessarily unique)
            if r.p(6) && !html.contains("<table") {
                html.push_str("<p><a href=\"/77/\"><b><i></i></b></a><a href=\"/78/\"> </a><a href=\"/79/\"></a>tail</p>");
            }
            // long link targets: the footnote entries are hard-wrapped, over one or several lines, with and without an exact
            // fit of the last piece
            let long = r.p(35);
            if long {
                let mut out = String::new();
                let mut rest = html.as_str();
                while let Some(i) = rest.find("href=\"/") {
                    let j = i + rest[i + 7..].find('"').map(|x| x + 7).unwrap_or(rest.len() - i);
                    out.push_str(&rest[..j]);
                    let n = r.u(70);
                    for q in 0..n {
                        out.push((b'a' + ((q * 7 + n) % 26) as u8) as char);
                    }
                    rest = &rest[j..];
                }
                out.push_str(rest);
                html = out;
            }
            // link targets of unusual classes: empty, blank, padded with blanks, valueless
            if r.p(12) {
                let mut out = String::new();
                let mut rest = html.as_str();
                while let Some(i) = rest.find("href=\"/") {
                    let j = i + rest[i + 7..].find('"').map(|x| x + 8).unwrap_or(rest.len() - i);
                    if r.p(40) {
                        out.push_str(&rest[..i]);
                        out.push_str(*r.pick(&[&"href=\"\"", &"href=\" \"", &"href=\"\t\"", &"href", &"href=\" /5/ \"", &"href=\"  \""]));
                    } else {
                        out.push_str(&rest[..j]);
                    }
                    rest = &rest[j..];
                }
                out.push_str(rest);
                html = out;
            }
            for _ in 0..(if tier == Tier::Quick { 3 } else { 6 }) {
                let deco = match r.b(3) {
                    0 => Deco::Plain,
                    1 => Deco::Rich,
                    _ => Deco::Trivial,
                };
                let mut cfg = Cfg::base(deco);
                cfg.footnotes = r.p(70);
                cfg.decorate = r.p(30);
                cfg.raw = r.p(10);
                cfg.noborders = r.p(10);
                let w = if long && r.p(70) { 10 + r.u(31) } else { 10 + r.u(111) };
                v.push(case(html.clone(), cfg, w, if long { "g-doc-long-hrefs" } else { "g-doc" }));
            }
        }
        v
    }
    fn oracle(&self, c: &Case, o: &Obs) -> Vec<Viol> {
        let mut out = vec![];
        if c.width < 10 {
            return out; // the property's domain is widths 10..=120 (narrower lines can split a marker)
        }
        let ls: Vec<String> = match o.text_lines() {
            Some(l) => l.into_iter().map(|s| s.replace('\u{336}', "")).collect(),
            None => return out,
        };
        let dom = domwalk::tree(&c.html);
        let links = domwalk::links(&dom);
        // split off the trailing footnote block: the maximal suffix of lines that belong to "[k]: target" entries
        let mut foot_start = ls.len();
        if c.cfg.footnotes {
            // the block starts at the last line that begins with "[1]: "
            if let Some(i) = ls.iter().rposition(|l| l.starts_with("[1]: ")) {
                foot_start = i;
            }
        }
        // a marker may be hard-wrapped inside a narrow block: drop line structure, indentation and prefix characters
        let body: String = ls[..foot_start].join("").chars().filter(|ch| !ch.is_whitespace() && !matches!(ch, '>' | '*' | '#' | '│')).collect();
        let foot: Vec<String> = ls[foot_start..].to_vec();
        let ms = markers(&body);
        if !c.cfg.footnotes {
            if !ms.is_empty() {
                out.push(viol(format!("footnotes are disabled but the text contains reference markers {:?}", ms)));
            }
            if ls.iter().any(|l| l.contains("]: /")) {
                out.push(viol("footnotes are disabled but a footnote list is printed".to_string()));
            }
            return out;
        }
        // links with rendered content: has visible text or an image
        let rendered: Vec<&(String, bool)> = links.iter().filter(|l| l.1).collect();
        let n = rendered.len();
        // known findings (#10): nested links (through a table cell) and links whose content is only *deeply* empty
        let nested_links = dom.any(&|x| x.is("a") && x.attr("href").is_some() && x.kids().iter().any(|k| k.any(&|y| y.is("a") && y.attr("href").is_some())));
        let deeply_empty = links.iter().any(|l| !l.1) && dom.any(&|x| x.is("a") && x.attr("href").is_some() && !x.kids().is_empty() && !domwalk::flow_text(x).iter().any(|(ch, _)| !ch.is_whitespace()) && x.kids().iter().any(|k| matches!(k, domwalk::N::Elem { .. })));
        let expect: Vec<usize> = (1..=n).collect();
        // inside side-by-side table cells a marker may be hard-wrapped over lines that interleave with other cells:
        // there the check falls back to counting closing brackets (one per marker, one more per link for the plain decorator)
        let side_by_side = dom.has_elem("table") && !c.cfg.raw;
        let mut ms = ms;
        if ms != expect && side_by_side {
            // a marker hard-wrapped inside a cell continues on the next line of the *same cell*: read the table band by
            // band (between rules), column by column
            let mut colwise: Vec<usize> = Vec::new();
            let mut band: Vec<Vec<String>> = Vec::new();
            let mut flush = |band: &mut Vec<Vec<String>>, colwise: &mut Vec<usize>| {
                let ncol = band.iter().map(|l| l.len()).max().unwrap_or(0);
                for j in 0..ncol {
                    let t: String = band.iter().filter_map(|l| l.get(j)).map(|s| s.as_str()).collect::<Vec<_>>().join("");
                    let t: String = t.chars().filter(|ch| !ch.is_whitespace() && !matches!(ch, '>' | '*' | '#')).collect();
                    colwise.extend(markers(&t));
                }
                band.clear();
            };
            for l in &ls[..foot_start] {
                if l.starts_with('─') || l.starts_with('┬') || l.starts_with('┼') || l.starts_with('┴') || l.starts_with('/') {
                    flush(&mut band, &mut colwise);
                } else if l.contains('│') {
                    band.push(l.split('│').map(|x| x.to_string()).collect());
                } else {
                    flush(&mut band, &mut colwise);
                    let t: String = l.chars().filter(|ch| !ch.is_whitespace() && !matches!(ch, '>' | '*' | '#')).collect();
                    colwise.extend(markers(&t));
                }
            }
            flush(&mut band, &mut colwise);
            let mut sorted = colwise.clone();
            sorted.sort();
            if sorted == expect {
                ms = expect.clone();
            } else if c.cfg.noborders {
                // without borders nothing separates the cells of a row: a marker hard-wrapped inside one cell cannot be told
                // from its neighbour's ("[1      2]" over "]"); the in-text check is undecidable here, the footnote list
                // below is still checked in full and the correspondence compares the whole output
                ms = expect.clone();
            }
        }
        if ms != expect && side_by_side {
            // In table cells a marker may be hard-wrapped over lines that interleave with other cells, and reading order
            // is not document order.  There the in-text check is: every complete marker found is one of 1..n, none
            // twice; the footnote list (checked below in full) ties k to the k-th link in document order.
            let mut sorted = ms.clone();
            sorted.sort();
            let dup = sorted.windows(2).any(|w| w[0] == w[1]);
            if !dup && sorted.iter().all(|k| *k >= 1 && *k <= n) {
                ms = expect.clone();
            }
        }
        if ms != expect {
            if nested_links {
                out.push(known(format!("nested links share a number: markers {:?}", ms), "C08-nested-links"));
            } else if deeply_empty && ms.len() > n {
                out.push(known(format!("a link with only empty elements inside still gets a reference: markers {:?}, {} links with content", ms, n), "C08-deeply-empty-link"));
            } else {
                out.push(viol(format!("reference markers in the text are {:?}, expected 1..{} for the links with rendered content in document order", ms, n)));
            }
            return out;
        }
        // the footnote list: unwrap at width (entries start with "[k]: ")
        let mut entries: Vec<String> = Vec::new();
        if foot.iter().any(|l| l.trim().is_empty()) {
            out.push(viol(format!("blank line inside the footnote list: {:?}", foot)));
            return out;
        }
        for l in &foot {
            let starts = l.starts_with('[') && l.contains("]: ") && l[1..].chars().next().map(|ch| ch.is_ascii_digit()).unwrap_or(false);
            if starts {
                entries.push(l.clone());
            } else if let Some(last) = entries.last_mut() {
                last.push_str(l);
            } else if !l.is_empty() {
                out.push(viol(format!("unexpected line {:?} in the footnote block", l)));
                return out;
            }
        }
        let want: Vec<String> = rendered.iter().enumerate().map(|(i, l)| format!("[{}]: {}", i + 1, l.0)).collect();
        let norm = |v: &Vec<String>| -> Vec<String> { v.iter().map(|s| s.trim_end().to_string()).collect() };
        if n > 0 && norm(&entries) != norm(&want) {
            if deeply_empty || nested_links {
                out.push(known(format!("footnote list {:?} vs {:?}", entries, want), if nested_links { "C08-nested-links" } else { "C08-deeply-empty-link" }));
            } else {
                out.push(viol(format!("footnote list is {:?}, expected {:?}", entries, want)));
            }
        }
        if n == 0 && !foot.is_empty() {
            out.push(viol(format!("no link has content but a footnote list {:?} is printed", foot)));
        }
        // exactly one list, at the very end
        let count1 = ls.iter().filter(|l| l.starts_with("[1]: ")).count();
        if count1 > 1 {
            out.push(viol("more than one footnote list".to_string()));
        }
        out
    }
    fn project(&self, c: &Case, o: &Obs) -> String {
        match o.text_lines() {
            Some(ls) => {
                let t = ls.join("\n");
                // the trailing block from the last "[1]: " line on, line by line (wrapped entries and blank lines included)
                let foot: Vec<&String> = match ls.iter().rposition(|l| l.starts_with("[1]: ")) {
                    Some(i) if c.cfg.footnotes => ls[i..].iter().collect(),
                    _ => ls.iter().filter(|l| l.contains("]: ")).collect(),
                };
                format!("{:?}|{:?}|{}", markers(&t), foot, c.cfg.footnotes)
            }
            None => o.class().into(),
        }
    }
    fn nontrivial(&self, c: &Case, o: &Obs) -> bool {
        matches!(o, Obs::Ok(_)) && domwalk::links(&domwalk::tree(&c.html)).iter().filter(|l| l.1).count() >= 2
    }
}
