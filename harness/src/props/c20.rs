//! C20: selectors match exactly the elements CSS says they match.

use super::common::*;
use super::css_common::*;
use crate::cfg::Cfg;
use crate::domwalk;
use crate::gen::Knobs;
use crate::obs::Obs;
use crate::refcss::{self, Sel, Simple};
use crate::util::R;
use crate::{Case, Prop, Tier, Viol};

pub struct C20;

const ELEMS: &[&str] = &["p", "div", "li", "strong", "em", "h2", "span", "ul", "ol", "a", "code", "dt", "dd", "dl", "blockquote", "body", "html", "table", "tr", "td", "i", "section"];
const RULE_COL: (u8, u8, u8) = (1, 2, 3);

fn knobs(tables: bool) -> Knobs {
    let mut k = Knobs::all().unique();
    k.classes_only = true;
    k.href_digits = true;
    k.digits = false;
    k.ids = true;
    k.pre = false;
    if !tables {
        k = k.no_tables();
    }
    k.weird_colspan = false;
    k
}

/// aux: the selector list in a replayable structured form (debug format), one per line
fn enc_sels(sels: &[Sel]) -> String {
    sels.iter().map(|s| enc_sel(s)).collect::<Vec<_>>().join("\n")
}
fn enc_sel(s: &Sel) -> String {
    let mut out = String::new();
    for (i, c) in s.compounds.iter().enumerate() {
        if i > 0 {
            out.push_str(if s.combs[i - 1] == refcss::Comb::Child { " > " } else { " _ " });
        }
        out.push_str(&format!(
            "{}|{}|{}|{}|{}",
            c.elem.clone().unwrap_or_default(),
            c.star as u8,
            c.classes.join(","),
            c.id.clone().unwrap_or_default(),
            c.nth.map(|(a, b)| format!("{a},{b}")).unwrap_or_default()
        ));
    }
    out
}
fn dec_sel(s: &str) -> Option<Sel> {
    let mut compounds = Vec::new();
    let mut combs = Vec::new();
    for (i, tok) in s.split(' ').enumerate() {
        if i % 2 == 1 {
            combs.push(if tok == ">" { refcss::Comb::Child } else { refcss::Comb::Desc });
            continue;
        }
        let f: Vec<&str> = tok.split('|').collect();
        if f.len() != 5 {
            return None;
        }
        let nth = if f[4].is_empty() {
            None
        } else {
            let (a, b) = f[4].split_once(',')?;
            Some((a.parse().ok()?, b.parse().ok()?))
        };
        compounds.push(Simple {
            elem: if f[0].is_empty() { None } else { Some(f[0].to_string()) },
            star: f[1] == "1",
            classes: f[2].split(',').filter(|x| !x.is_empty()).map(|x| x.to_string()).collect(),
            id: if f[3].is_empty() { None } else { Some(f[3].to_string()) },
            nth,
        });
    }
    Some(Sel { compounds, combs })
}

/// a selector built from a random element of the document, so that it usually matches something
fn targeted(r: &mut R, f: &crate::domwalk::Flat) -> Sel {
    let e = r.u(f.elems.len());
    let chain = f.chain(e);
    // choose up to 4 positions of the chain, always including the element itself
    let mut pick: Vec<usize> = vec![chain.len() - 1];
    let mut i = chain.len() - 1;
    while pick.len() < 4 && i > 0 {
        let step = if r.p(55) { 1 } else { 1 + r.u(3) };
        if step > i || r.p(25) {
            break;
        }
        i -= step;
        pick.push(i);
    }
    pick.reverse();
    let mut compounds = Vec::new();
    let mut combs = Vec::new();
    for (k, pi) in pick.iter().enumerate() {
        let el = &f.elems[chain[*pi]];
        let mut s = Simple::default();
        if r.p(60) {
            s.elem = Some(el.node.name().to_string()).filter(|x| !x.is_empty());
        }
        if r.p(40) {
            if let Some(c) = el.node.attr("class") {
                if let Some(w) = c.split_whitespace().next() {
                    s.classes.push(w.to_string());
                }
            }
        }
        if r.p(25) {
            s.id = el.node.attr("id").map(|x| x.to_string());
        } else if r.p(30) {
            // decoy: an anchor's `name` used as an id selector (`#name` selects by the id attribute only)
            if let Some(nm) = el.node.attr("name") {
                s.id = Some(nm.to_string());
            }
        }
        if r.p(30) {
            let a = r.b(11) as i64 - 5;
            let n = r.b(3) as i64;
            s.nth = Some((a, el.idx - a * n));
            if r.p(15) {
                s.nth = Some((a, el.idx - a * n + 1)); // near miss
            }
        }
        if s.elem.is_none() && s.classes.is_empty() && s.id.is_none() && s.nth.is_none() {
            s.star = true;
        }
        compounds.push(s);
        if k > 0 {
            let adjacent = pick[k] - pick[k - 1] == 1;
            combs.push(if adjacent && r.p(60) { refcss::Comb::Child } else if r.p(90) { refcss::Comb::Desc } else { refcss::Comb::Child });
        }
    }
    Sel { compounds, combs }
}

pub fn targeted_pub(r: &mut R, f: &crate::domwalk::Flat) -> Sel { targeted(r, f) }
pub fn enc_sel_pub(s: &Sel) -> String { enc_sel(s) }
pub fn dec_sel_pub(s: &str) -> Option<Sel> { dec_sel(s) }

impl Prop for C20 {
    fn id(&self) -> &'static str {
        "C20"
    }
    fn rule(&self) -> &'static str {
        "documents with classes/ids and unique tokens x one user rule `S{color:#010203}` with S a list of 1-2 selectors of up to 4 compounds (element, *, classes, id, :nth-child(an+b) with a,b in -5..5 and odd/even/n forms, descendant and child combinators); exhaustive a,b in -5..5 over sibling lists of length 0..8; rich output; non-trivial = at least one token coloured and one not"
    }
    fn cases(&self, r: &mut R, tier: Tier) -> Vec<Case> {
        let mut v = Vec::new();
        let mut cfg0 = Cfg::rich();
        cfg0.min_wrap = 1;
        // G-enum: nth-child(an+b) on flat sibling lists
        let range: i64 = if tier == Tier::Quick { 3 } else { 5 };
        let maxlen = if tier == Tier::Quick { 6 } else { 8 };
        for a in -range..=range {
            for b in -range..=range {
                for len in 0..=maxlen {
                    if tier == Tier::Quick && (len == 2 || len == 4) {
                        continue;
                    }
                    let mut html = String::from("<div>");
                    for i in 0..len {
                        // mixed text/element children: text nodes and comments do not count
                        if i % 3 == 1 {
                            html.push_str(" x <!-- c -->");
                        }
                        html.push_str(&format!("<p>{}</p>", crate::gen::token_name(i)));
                    }
                    html.push_str("</div>");
                    let sel = Sel { compounds: vec![Simple { elem: Some("p".into()), nth: Some((a, b)), ..Default::default() }], combs: vec![] };
                    let mut cfg = cfg0.clone();
                    cfg.user_css = Some(format!("{}{{color:{}}}", sel.print(r), hexcol(RULE_COL)));
                    let mut c = case(html, cfg, 40, "g-enum-nth");
                    c.aux = enc_sels(&[sel]);
                    v.push(c);
                }
            }
        }
        // random documents x random selector lists
        let n = scale(tier, 3000, 50000);
        for _ in 0..n {
            let tables = r.p(25);
            let html = gen_doc(r, knobs(tables)).0;
            let nsel = 1 + r.u(2);
            let dom = domwalk::tree(html.as_bytes());
            let fl = flat_of(&dom);
            let sels: Vec<Sel> = (0..nsel).map(|_| if r.p(70) && !fl.elems.is_empty() { targeted(r, &fl) } else { refcss::gen_sel(r, ELEMS, 4) }).collect();
            let printed: Vec<String> = sels.iter().map(|s| s.print(r)).collect();
            let mut cfg = cfg0.clone();
            cfg.raw = tables;
            let sheet = format!("{}{}{{color:{}}}", printed.join(r.pick(&[",", ", ", " ,\n"])), r.pick(&["", " "]), hexcol(RULE_COL));
            // the rule may come from any origin
            match r.b(3) {
                0 => cfg.user_css = Some(sheet),
                1 => cfg.agent_css = Some(sheet),
                _ => {
                    cfg.use_doc_css = true;
                    let mut c = case(format!("<style>{sheet}</style>{html}"), cfg, 1 + r.u(60), "random-doc-style");
                    c.aux = enc_sels(&sels);
                    v.push(c);
                    continue;
                }
            }
            let mut c = case(html, cfg, 1 + r.u(60), "random");
            c.aux = enc_sels(&sels);
            v.push(c);
        }
        // leading and repeated child combinators (`> > html`, `div > > p`): the grammar accepts them; `A > > B` says that A is
        // the grandparent of B, a leading chain of k combinators that B has k ancestors, the document node included
        // (added after a mutation of CombChild on the parentless document node, first judged unreachable, was not)
        let n = scale(tier, 300, 5000);
        for _ in 0..n {
            let html = gen_doc(r, knobs(false)).0;
            let k = 1 + r.u(7);
            let a: Option<&str> = if r.p(50) { Some(r.pick(ELEMS)) } else { None };
            let b: &str = if r.p(20) { "*" } else if r.p(25) { *r.pick(&[&"html", &"body"]) } else { r.pick(ELEMS) };
            let gt = (0..k).map(|_| *r.pick(&[&">", &" > ", &"> ", &" >"])).collect::<Vec<_>>().join("");
            let sheet = format!("{}{}{}{{color:{}}}", a.unwrap_or(""), gt, b, hexcol(RULE_COL));
            let mut cfg = cfg0.clone();
            cfg.user_css = Some(sheet);
            let mut c = case(html, cfg, 1 + r.u(60), "child-chains");
            c.aux = format!("K{}|{}|{}", k, a.unwrap_or("-"), b);
            v.push(c);
        }
        v
    }
    fn oracle(&self, c: &Case, o: &Obs) -> Vec<Viol> {
        let mut out = vec![];
        if c.aux.is_empty() {
            return out;
        }
        // repeated child combinators: K<k>|<A or ->|<B>
        let chain_rule: Option<(usize, Option<String>, String)> = c.aux.strip_prefix('K').and_then(|t| {
            let p: Vec<&str> = t.split('|').collect();
            if p.len() == 3 { Some((p[0].parse().ok()?, if p[1] == "-" { None } else { Some(p[1].to_string()) }, p[2].to_string())) } else { None }
        });
        let sels: Vec<Sel> = if chain_rule.is_some() { vec![] } else {
            match c.aux.lines().map(dec_sel).collect::<Option<Vec<_>>>() {
                Some(s) => s,
                None => return out,
            }
        };
        let got = match out_colours(o, false) {
            Some(g) => g,
            None => {
                if !matches!(o, Obs::Narrow) {
                    out.push(viol(format!("a valid selector list gave outcome {}", o.short())));
                }
                return out;
            }
        };
        let dom = domwalk::tree(&c.html);
        if !sequence_ok(&dom, c.cfg.raw) {
            return out;
        }
        let f = flat_of(&dom);
        let toks = doc_tokens(&f);
        if toks.len() != got.len() || toks.iter().zip(&got).any(|(a, b)| a.0 != b.0) {
            return out; // text not aligned (C03's business)
        }
        // reference: which elements match any selector of the list
        let matched: Vec<bool> = (0..f.elems.len())
            .map(|e| {
                if let Some((k, a, b)) = &chain_rule {
                    let ch = f.chain(e);
                    let name_ok = b == "*" || f.elems[e].node.name() == b;
                    // the element has ch.len() ancestors, the document node included; its k-th ancestor is an element for k < ch.len()
                    name_ok && match a {
                        Some(a) => *k < ch.len() && f.elems[ch[ch.len() - 1 - *k]].node.name() == a,
                        None => *k <= ch.len(),
                    }
                } else {
                    let p = f.path(e);
                    sels.iter().any(|s| refcss::sel_matches(s, &p))
                }
            })
            .collect();
        let want = col(RULE_COL);
        for (i, ((ch, e), (_, cols))) in toks.iter().zip(&got).enumerate() {
            let expected = *e != usize::MAX && f.chain(*e).iter().any(|x| matched[*x]);
            let observed = cols.iter().any(|x| *x == want);
            if expected != observed {
                // styles on thead/tbody never reach the render tree (known finding)
                let only_via_section = expected && !observed && *e != usize::MAX && f.chain(*e).iter().filter(|x| matched[**x]).all(|x| matches!(f.elems[*x].node.name(), "thead" | "tbody" | "tfoot"));
                if only_via_section {
                    out.push(known("a style on thead/tbody is not applied".to_string(), "C20-table-section-style"));
                } else {
                    let chain: Vec<String> = if *e == usize::MAX { vec![] } else { f.chain(*e).iter().map(|x| format!("{}#{}", f.elems[*x].node.name(), f.elems[*x].idx)).collect() };
                    out.push(viol(format!("token character #{i} {:?} (in {}) is {} but the selector list {:?} {} it", ch, chain.join(">"), if observed { "coloured" } else { "not coloured" }, c.aux, if expected { "matches" } else { "does not match" })));
                }
                break;
            }
        }
        out
    }
    fn project(&self, _c: &Case, o: &Obs) -> String {
        match out_colours(o, false) {
            Some(v) => v.iter().map(|(c, cols)| format!("{c}{}", if cols.is_empty() { "" } else { "!" })).collect(),
            None => o.class().into(),
        }
    }
    fn nontrivial(&self, _c: &Case, o: &Obs) -> bool {
        match out_colours(o, false) {
            Some(v) => v.iter().any(|x| !x.1.is_empty()) && v.iter().any(|x| x.1.is_empty()),
            None => false,
        }
    }
}
