import H2T.Lemmas.Comments
import H2T.Lemmas.DomFactor

/-! C13 for the whole pipeline: deleting every comment of a document changes nothing. -/

namespace H2T

theorem stripList_flatMap {β : Type} (f : Node → List β) (hc : f .comment = []) (hf : ∀ n, f (stripNode n) = f n) :
    ∀ (ns : List Node), (stripList ns).flatMap f = ns.flatMap f
  | [] => by simp only [stripList]
  | .comment :: ns => by simp only [stripList, List.flatMap_cons, hc, List.nil_append, stripList_flatMap f hc hf ns]
  | .text s :: ns => by simp only [stripList, List.flatMap_cons, stripList_flatMap f hc hf ns]
  | .other :: ns => by simp only [stripList, List.flatMap_cons, stripList_flatMap f hc hf ns]
  | .elem name html attrs kids :: ns => by
    have := hf (.elem name html attrs kids); simp only [stripNode] at this
    simp only [stripList, List.flatMap_cons, this, stripList_flatMap f hc hf ns]
  | .doc kids :: ns => by
    have := hf (.doc kids); simp only [stripNode] at this
    simp only [stripList, List.flatMap_cons, this, stripList_flatMap f hc hf ns]

theorem styleTexts_comment (fuel : Nat) : styleTexts fuel .comment = [] := by cases fuel <;> rfl

theorem styleBody_strip : ∀ (kids : List Node), (stripList kids).flatMap (fun k => match k with | .text s => s | _ => []) =
    kids.flatMap (fun k => match k with | .text s => s | _ => ([] : List Ch))
  | [] => by simp only [stripList]
  | .comment :: ns => by simp only [stripList, List.flatMap_cons, List.nil_append, styleBody_strip ns]
  | .text s :: ns => by simp only [stripList, List.flatMap_cons, styleBody_strip ns]
  | .other :: ns => by simp only [stripList, List.flatMap_cons, styleBody_strip ns]
  | .elem .. :: ns => by simp only [stripList, List.flatMap_cons, styleBody_strip ns]
  | .doc .. :: ns => by simp only [stripList, List.flatMap_cons, styleBody_strip ns]

theorem styleTexts_strip : ∀ (fuel : Nat) (n : Node), styleTexts fuel (stripNode n) = styleTexts fuel n := by
  intro fuel
  induction fuel with
  | zero => intro n; simp only [styleTexts]
  | succ fuel ih =>
    intro n
    cases n with
    | text s => rfl
    | comment => rfl
    | other => rfl
    | doc kids => simp only [stripNode, styleTexts, stripList_flatMap _ (styleTexts_comment fuel) ih kids]
    | elem name html attrs kids =>
      simp only [stripNode, styleTexts, stripList_flatMap _ (styleTexts_comment fuel) ih kids]
      split
      · congr 1; exact styleBody_strip kids
      · rfl

/-- **comments never matter**: the whole pipeline gives the same outcome on a document and on the document with every
    comment deleted — every configuration, decorator, width and style sheet -/
theorem renderDom_strip (cfg : Cfg) (d : Deco) (w : Nat) (useDoc : Bool) (agentCss userCss : Option (List Char))
    (ci : CharInfo) (depth : Nat) (dom : Node) :
    renderDom cfg d w useDoc agentCss userCss ci depth (stripNode dom) = renderDom cfg d w useDoc agentCss userCss ci depth dom := by
  rw [renderDom_factor, renderDom_factor]
  have : domTree cfg.decorate useDoc agentCss userCss ci depth (stripNode dom) = domTree cfg.decorate useDoc agentCss userCss ci depth dom := by
    unfold domTree docRulesOf buildTree
    simp only [styleTexts_strip, build_strip]
  rw [this]

end H2T
