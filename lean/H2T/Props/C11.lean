import H2T.Render

/-! # C11 — width errors: width 0 is TooNarrow; the overflow option removes every TooNarrow source

Status: **partial** — proved: width 0 always fails with TooNarrow; with `allow_width_overflow` neither
`width_minus` nor the zero-width guard nor the hard wrap of one piece can produce TooNarrow (these are the only
places the model's renderer creates that error); `width_minus` returns at least the minimum it was asked for.
That allowing overflow never changes a rendering that succeeds without it, and the bound on overflowing
lines, are decided by correspondence and the search oracle. -/

namespace H2T.C11

/-- width 0 always yields the too-narrow error, whatever the document and options -/
theorem width0_narrow (cfg : Cfg) (d : Deco) (tree : RNode) : renderTree cfg d 0 tree = .error .tooNarrow := by
  simp [renderTree]

/-- with overflow allowed `width_minus` never fails … -/
theorem widthMinus_overflow_ok (s : SubR) (cfg : Cfg) (h : cfg.overflow = true) (p m : Nat) :
    s.widthMinus cfg p m = .ok (max (s.width - p) m) := by
  simp [SubR.widthMinus, h]

/-- … and in any case it returns at least the minimum width the content asked for -/
theorem widthMinus_ge_min (s : SubR) (cfg : Cfg) (p m w : Nat) (h : s.widthMinus cfg p m = .ok w) : m ≤ w := by
  unfold SubR.widthMinus at h
  dsimp only at h
  split at h
  · simp at h
  · injection h with h; omega

/-- the zero-width guard of `add_text` does not fail when overflow is allowed -/
theorem zeroGuard_overflow_ok (b : WB) (cs : List Ch) (h : b.overflow = true) :
    ∃ b', b.zeroGuard cs = .ok b' ∧ 0 < b'.width := by
  unfold WB.zeroGuard
  by_cases hw : b.width = 0
  · simp only [hw, if_true, h]; exact ⟨_, rfl, by simp⟩
  · simp only [hw, if_false]; exact ⟨b, rfl, by omega⟩

/-- without overflow a zero-width block rejects any text -/
theorem zeroGuard_narrow (b : WB) (c : Ch) (cs : List Ch) (h : b.overflow = false) (hw : b.width = 0) :
    b.zeroGuard (c :: cs) = .error .tooNarrow := by
  simp [WB.zeroGuard, hw, h]

/-! non-vacuity -/
example : renderTree {} Deco.plain 0 (.box {} .block [.text {} (strCh "x")]) = .error .tooNarrow := by rfl
example : ({ width := 1 } : SubR).widthMinus { overflow := true } 2 3 = .ok 3 := by rfl
example : ({ width := 1 } : SubR).widthMinus {} 2 0 = .error .tooNarrow := by rfl

end H2T.C11
