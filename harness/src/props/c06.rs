//! C06: table cells stay in their columns, in order; columns with text get space.

use super::common::*;
use super::tables::*;
use crate::obs::Obs;
use crate::util::R;
use crate::{Case, Prop, Tier, Viol};

pub struct C06;

fn find_all(hay: &[char], needle: &[char]) -> Vec<usize> {
    let mut v = Vec::new();
    if needle.is_empty() || hay.len() < needle.len() {
        return v;
    }
    for i in 0..=hay.len() - needle.len() {
        if hay[i..i + needle.len()] == *needle {
            v.push(i);
        }
    }
    v
}

impl Prop for C06 {
    fn id(&self) -> &'static str {
        "C06"
    }
    fn rule(&self) -> &'static str {
        "regular tables as in C05 without nested tables, a unique token per non-empty cell; widths 1..100; non-trivial = side-by-side layout with at least two columns and two rows"
    }
    fn cases(&self, r: &mut R, tier: Tier) -> Vec<Case> {
        super::c05::table_cases(r, tier, true)
    }
    fn oracle(&self, c: &Case, o: &Obs) -> Vec<Viol> {
        let mut out = vec![];
        let t = match Table::decode(&c.aux) {
            Some(t) => t,
            None => return out,
        };
        let g = match grid(o) {
            Some(g) => g,
            None => return out,
        };
        let weak = t.has_weak_column();
        let mut push = |out: &mut Vec<Viol>, msg: String| {
            if weak {
                out.push(known(msg, "C06-zero-width-column-in-colspan"));
            } else {
                out.push(viol(msg));
            }
        };
        // every non-empty source cell has its token somewhere (possibly hard-wrapped: look for its first character run)
        let flat: Vec<char> = g.iter().flat_map(|l| l.iter().cloned().chain(std::iter::once('\n'))).collect();
        let joined: String = flat.iter().filter(|c| c.is_ascii_lowercase()).collect();
        for row in &t.rows {
            for cell in row {
                if !cell.token.is_empty() && !joined.contains(&cell.token) {
                    // the token may be split over lines in a narrow column with other cells' text interleaved; check per character order instead
                    let mut it = joined.chars();
                    if !cell.token.chars().all(|x| it.any(|y| y == x)) {
                        push(&mut out, format!("cell token {:?} does not appear in the output", cell.token));
                        return out;
                    }
                }
            }
        }
        if g.is_empty() || g.iter().any(|l| is_vsep(l)) {
            return out; // stacked layout: C05 checks it
        }
        let w0 = g[0].len();
        if w0 > c.width {
            push(&mut out, format!("sum of column widths plus separators is {} > {}", w0, c.width));
            return out;
        }
        let ragged = g.iter().any(|l| l.len() != w0);
        let wmax = g.iter().map(|l| l.len()).max().unwrap_or(0);
        // bands between rules correspond to rows that rendered at least one cell
        let mut bands: Vec<(usize, usize)> = Vec::new();
        let mut start: Option<usize> = None;
        for (i, l) in g.iter().enumerate() {
            if is_rule(l) {
                if let Some(s) = start.take() {
                    bands.push((s, i));
                }
            } else if start.is_none() {
                start = Some(i);
            }
        }
        // rows without any text are not rendered at all; match bands to rows that have a token
        let rows_with_text: Vec<&Vec<TCell>> = t.rows.iter().filter(|r| r.iter().any(|c| !c.token.is_empty())).collect();
        if bands.len() != rows_with_text.len() {
            return out; // cannot align bands with rows (empty rows / collapsed borders); token presence was checked above
        }
        // global column boundaries: union of bar positions
        let mut global: Vec<usize> = Vec::new();
        for (s, e) in &bands {
            for l in &g[*s..*e] {
                for (x, ch) in l.iter().enumerate() {
                    if *ch == '│' && !global.contains(&x) {
                        global.push(x);
                    }
                }
            }
        }
        global.sort();
        // when every column boundary is visible somewhere, each token must lie between the boundaries of the table
        // columns its cell spans — whatever bars its own row shows (a row that lost a cell shifts its later cells left;
        // added after the seeded change C06-empty-td-dropped-at-build produced only a correspondence break)
        if global.len() + 1 == t.cols {
            for (bi, ((s, e), row)) in bands.iter().zip(&rows_with_text).enumerate() {
                let mut col = 0usize;
                for cell in row.iter() {
                    let (c0, c1) = (col, col + cell.span);
                    col = c1;
                    if cell.token.is_empty() || c1 > t.cols {
                        continue;
                    }
                    let lo = if c0 == 0 { 0 } else { global[c0 - 1] + 1 };
                    let hi = if c1 == t.cols { wmax } else { global[c1 - 1] };
                    let tok: Vec<char> = cell.token.chars().collect();
                    for l in &g[*s..*e] {
                        for x in find_all(l, &tok) {
                            if x < lo || x + tok.len() > hi {
                                push(&mut out, format!("token {:?} (row {bi}, table columns {c0}..{c1}) lies at x {}..{} but those columns span x {lo}..{hi}", cell.token, x, x + tok.len()));
                                return out;
                            }
                        }
                    }
                }
            }
        }
        if ragged {
            return out; // unequal line widths are C05's subject; the per-row bar checks below assume a rectangular grid
        }
        let mut last_band_of_token = 0usize;
        for (bi, ((s, e), row)) in bands.iter().zip(&rows_with_text).enumerate() {
            let bars: Vec<usize> = g[*s].iter().enumerate().filter(|(_, ch)| **ch == '│').map(|(x, _)| x).collect();
            // cells that got a non-zero width: as many as intervals
            if bars.len() + 1 != row.len() {
                // a cell was skipped (zero width) or bars are missing
                if row.iter().filter(|c| !c.token.is_empty()).count() > bars.len() + 1 {
                    push(&mut out, format!("row {bi}: {} cells with text but only {} intervals between bars", row.len(), bars.len() + 1));
                    return out;
                }
                continue;
            }
            let mut bounds = vec![0usize];
            for b in &bars {
                bounds.push(b + 1);
            }
            let mut ends: Vec<usize> = bars.clone();
            ends.push(w0);
            for (j, cell) in row.iter().enumerate() {
                if cell.token.is_empty() {
                    continue;
                }
                let tok: Vec<char> = cell.token.chars().collect();
                // where does the token (or its hard-wrapped pieces) occur? check every occurrence of the whole token in the grid
                for (li, l) in g.iter().enumerate() {
                    for x in find_all(l, &tok) {
                        if li < *s || li >= *e {
                            push(&mut out, format!("token {:?} of row {bi} appears on line {li}, outside its row band {}..{}", cell.token, s, e));
                            return out;
                        }
                        if x < bounds[j] || x + tok.len() > ends[j] {
                            push(&mut out, format!("token {:?} (row {bi}, cell {j}) lies at columns {}..{} outside its cell's range {}..{}", cell.token, x, x + tok.len(), bounds[j], ends[j]));
                            return out;
                        }
                        if li < last_band_of_token {
                            push(&mut out, format!("token {:?} appears above a token of an earlier row", cell.token));
                            return out;
                        }
                    }
                }
            }
            last_band_of_token = *s;
            // column boundaries are shared between rows: this row's bars are global boundaries at the cumulative span positions
            if global.len() + 1 == t.cols {
                let mut col = 0;
                for (j, cell) in row.iter().enumerate() {
                    col += cell.span;
                    if j + 1 < row.len() {
                        let want = global[col - 1];
                        if bars[j] != want {
                            push(&mut out, format!("row {bi}: bar after cell {j} at column {} but the boundary after table column {} is at {}", bars[j], col, want));
                            return out;
                        }
                    }
                }
            }
        }
        out
    }
    fn shrinkable(&self) -> bool {
        false
    }
    fn project(&self, _c: &Case, o: &Obs) -> String {
        text_only(o)
    }
    fn nontrivial(&self, _c: &Case, o: &Obs) -> bool {
        grid(o).map(|g| g.iter().filter(|l| is_rule(l)).count() >= 3 && g.iter().any(|l| l.contains(&'│'))).unwrap_or(false)
    }
}
