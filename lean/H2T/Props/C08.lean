import H2T.Lemmas.RenderFits
import H2T.Lemmas.LinksExact

/-! # C08 — link footnotes are numbered consistently with their references

The number printed after a link is the length of the renderer's global link list at the moment the link ends;
the list grows by exactly one target at each `start_link` and is touched by nothing else; the footnote list is
`[k]: target_k` for `k = 1..n` in the order of that list.  Status: **proved for whole programs** as far as the
list is concerned (`links_follow_document_order`: after any program the list has grown by a sub-sequence of the link
targets the document mentions, in document order — exactly the targets when nothing was skipped; only table cells of
width 0 skip; `footnote_list_shape`: the footnote block is `[k]: target_k`, `k = 1..n`, for that list).  That the
k-th reference printed *in the text* is `[k]` additionally needs links not to nest; nested links (possible only
through a table cell) and links whose content is only deeply empty are known findings with witnesses. -/

namespace H2T.C08

/-- `start_link` appends exactly its target to the link list -/
theorem startLink_appends (cfg : Cfg) (d : Deco) (t t' : RS) (href : List Ch)
    (h : stepSimple cfg d t (.startLink href) = .ok t') : t'.links = t.links ++ [href] := by
  simp only [stepSimple, RS.onCur] at h
  generalize h1 : ({ t.cur with annStack := t.cur.annStack ++ [d.annOf (Ann.link href)] } : SubR).addInlineText cfg d.linkStart d.annOf = r at h
  cases r with
  | error e => simp [andThen] at h
  | ok s' => simp only [andThen] at h; injection h with h; subst h; rfl

/-- every other simple operation leaves the link list alone -/
theorem other_ops_keep_links (cfg : Cfg) (d : Deco) (t t' : RS) (op : Op)
    (hop : ∀ href, op ≠ .startLink href) (h : stepSimple cfg d t op = .ok t') : t'.links = t.links := by
  have onCur : ∀ (t0 : RS) (f : SubR → Except Err SubR) (t1 : RS), t0.onCur f = .ok t1 → t1.links = t0.links := by
    intro t0 f t1 h0
    unfold RS.onCur at h0
    cases hf : f t0.cur with
    | error e => simp [hf, andThen] at h0
    | ok s1 => simp only [hf, andThen] at h0; injection h0 with h0; subst h0; rfl
  cases op <;> simp only [stepSimple] at h
  case startLink href => exact absurd rfl (hop href)
  case endLink =>
    generalize h1 : (t.onCur fun s => andThen (s.addInlineText cfg d.linkEnd d.annOf) fun s' => Except.ok { s' with annStack := s'.annStack.dropLast }) = r1 at h
    cases r1 with
    | error e => simp [andThen] at h
    | ok t1 =>
      simp only [andThen] at h
      have e1 := onCur _ _ _ h1
      by_cases hf : cfg.footnotes = true
      · simp only [hf, if_true] at h
        exact (onCur _ _ _ h).trans e1
      · simp only [hf] at h
        injection h with h; subst h; exact e1
  all_goals first
    | exact onCur _ _ _ h
    | (injection h with h; subst h; rfl)

/-- **the link list follows document order**: running the program of a tree from an empty list ends with a
    sub-sequence of the tree's link targets in document order (`nodeHrefs`); nothing is invented, duplicated or
    reordered, wherever the links occur (paragraphs, lists, quotes, headings, cells, nested tables) -/
theorem links_follow_document_order (cfg : Cfg) (d : Deco) (w : Nat) (tree : RNode) (t : RS)
    (h : runOps SubR.widthMinus cfg d { cur := { width := w } } (compile cfg d tree) = .ok t) :
    t.links.Sublist (nodeHrefs tree) := by
  obtain ⟨added, e1, e2⟩ := runOps_links SubR.widthMinus cfg d _ _ t h
  rw [e1, compile_hrefs] at *
  simpa using e2

/-- the footnote block: entry `k` (1-based) is `[k]: ` followed by the `k`-th target of the link list; with footnotes
    disabled there is no block -/
theorem footnote_list_shape (cfg : Cfg) (links : List (List Ch)) :
    footTexts cfg links = if cfg.footnotes then (links.zipIdx.map fun (u, i) => strCh "[" ++ natCh (i + 1) ++ strCh "]: " ++ u) else [] :=
  rfl
theorem footnote_list_length (cfg : Cfg) (links : List (List Ch)) (hf : cfg.footnotes = true) :
    (footTexts cfg links).length = links.length := by simp [footTexts, hf]
theorem no_footnotes_no_list (cfg : Cfg) (links : List (List Ch)) (hf : cfg.footnotes = false) : footTexts cfg links = [] := by
  simp [footTexts, hf]

/-- the reference printed at the end of a link is the current length of the link list -/
theorem endLink_reference (cfg : Cfg) (d : Deco) (t : RS) (hf : cfg.footnotes = true) :
    stepSimple cfg d t .endLink =
      andThen (t.onCur fun s => andThen (s.addInlineText cfg d.linkEnd d.annOf) fun s' => .ok { s' with annStack := s'.annStack.dropLast })
        fun t' => t'.onCur fun s => s.addInlineText cfg (strCh "[" ++ natCh t'.links.length ++ strCh "]") d.annOf := by
  simp [stepSimple, hf]

/-- with footnotes disabled no reference is added -/
theorem endLink_no_reference (cfg : Cfg) (d : Deco) (t : RS) (hf : cfg.footnotes = false) :
    stepSimple cfg d t .endLink =
      (t.onCur fun s => andThen (s.addInlineText cfg d.linkEnd d.annOf) fun s' => .ok { s' with annStack := s'.annStack.dropLast }) := by
  simp only [stepSimple, hf]
  cases (t.onCur fun s => andThen (s.addInlineText cfg d.linkEnd d.annOf) fun s' => Except.ok { s' with annStack := s'.annStack.dropLast }) <;> simp [andThen]

/-- links without content are dropped when the tree is built: a link all of whose children are shallowly
    empty produces no node at all (and hence neither a reference nor a footnote) -/
theorem shallow_empty_examples :
    (RNode.text {} (strCh "  ")).shallowEmpty = true ∧ (RNode.br {}).shallowEmpty = true ∧
    (RNode.box {} .container []).shallowEmpty = true ∧ (RNode.text {} (strCh "x")).shallowEmpty = false := by decide

/-! non-vacuity: two links in a paragraph at width 40 with footnotes give `[a][1] [b][2]`, a blank line and the
    list `[1]: u`, `[2]: v` (lines as code points) -/
example :
    let tree : RNode := .box {} .block [.box {} (.link (strCh "u")) [.text {} (strCh "a")], .text {} (strCh " "),
                                         .box {} (.link (strCh "v")) [.text {} (strCh "b")]]
    ((renderTree { footnotes := true } Deco.plain 40 tree).toOption.map fun ls =>
        ls.map fun l => match l with | .text tl => tl.filterMap (fun e => match e with | .cell c => some c.ch.cp | _ => none) | _ => [])
      = some [[91, 97, 93, 91, 49, 93, 32, 91, 98, 93, 91, 50, 93], [], [91, 49, 93, 58, 32, 117], [91, 50, 93, 58, 32, 118]] := by
  decide +kernel

/-! ## exactly the links, and the reference number -/

/-- **in a table-free program the link list is exactly the program's link targets, in document order** (nothing skipped:
    only cells of zero width can swallow a link) -/
theorem links_are_exactly_the_targets (cfg : Cfg) (d : Deco) (ops : List Op) (t t' : RS) (hs : tableFreeOps ops = true)
    (h : runOps SubR.widthMinus cfg d t ops = .ok t') : t'.links = t.links ++ opsHrefs ops :=
  runOps_links_exact SubR.widthMinus cfg d ops t t' hs h

/-- **the reference number is the link's position in the document**: after a table-free prefix `pre`, a link whose content
    holds no further link ends with the link list `(links before) + (links in pre) + 1` long — and that length is the
    number its reference prints (`endLink_reference`, `reference_prints_the_count`) -/
theorem reference_number_is_link_position (cfg : Cfg) (d : Deco) (t t1 t2 t3 : RS) (pre body : List Op) (href : List Ch)
    (hp : tableFreeOps pre = true) (hb : tableFreeOps body = true) (hnl : opsHrefs body = [])
    (h1 : runOps SubR.widthMinus cfg d t pre = .ok t1) (h2 : runOp SubR.widthMinus cfg d t1 (.startLink href) = .ok t2)
    (h3 : runOps SubR.widthMinus cfg d t2 body = .ok t3) :
    t3.links.length = t.links.length + (opsHrefs pre).length + 1 :=
  reference_is_position SubR.widthMinus cfg d t t1 t2 t3 pre body href hp hb hnl h1 h2 h3

/-- the reference is printed from the length of the link list at the moment the link ends -/
theorem reference_prints_the_count (cfg : Cfg) (d : Deco) (t t' : RS) (hf : cfg.footnotes = true)
    (h : stepSimple cfg d t .endLink = .ok t') :
    ∃ t1 : RS, t1.links = t.links ∧
      t1.onCur (fun s => s.addInlineText cfg (strCh "[" ++ natCh t.links.length ++ strCh "]") d.annOf) = .ok t' := by
  obtain ⟨t1, _, e1, e2⟩ := endLink_prints_count cfg d t t' hf h
  exact ⟨t1, e1, e2⟩

end H2T.C08
