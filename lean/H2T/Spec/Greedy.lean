import H2T.Wrap

/-! Reference specification for C04: the textbook greedy wrapper, at word level.  Small enough to read in a
    minute; it knows nothing of tags, pending-space counters, pieces or the hard-wrap loop. -/

namespace H2T.Spec

/-- display width of a character list -/
def lwc (l : List Ch) : Nat := (l.map (·.w)).sum

/-- the words of a text: maximal runs of non-whitespace characters; characters without a width (controls)
    vanish without separating words -/
def wordsFrom : List Ch → List Ch → List (List Ch)
  | pend, [] => if pend = [] then [] else [pend]
  | pend, c :: cs =>
    if c.ws then (if pend = [] then wordsFrom [] cs else pend :: wordsFrom [] cs)
    else if c.ctrl then wordsFrom pend cs
    else wordsFrom (pend ++ [c]) cs
def words (text : List Ch) : List (List Ch) := wordsFrom [] text

structure G where
  done : List (List Ch)
  cur : List Ch
deriving Repr

/-- put one character of an over-long word: same line if it fits, else a new line; never split a character;
    too narrow iff the character is wider than a whole line -/
def G.fillCh (W : Nat) (g : G) (c : Ch) : Except Err G :=
  if lwc g.cur + c.w ≤ W then .ok { g with cur := g.cur ++ [c] }
  else if lwc g.cur = 0 then .error .tooNarrow
  else if c.w ≤ W then .ok { done := g.done ++ [g.cur], cur := [c] }
  else .error .tooNarrow

def G.fill (W : Nat) (g : G) : List Ch → Except Err G
  | [] => .ok g
  | c :: cs => match g.fillCh W c with
    | .ok g' => g'.fill W cs
    | .error e => .error e

/-- place a word: on the current line behind one space if it fits, otherwise on a new line, cut if over-long -/
def G.place (W : Nat) (g : G) (word : List Ch) : Except Err G :=
  if g.cur = [] then g.fill W word
  else if lwc g.cur + 1 + lwc word ≤ W then .ok { g with cur := g.cur ++ [spaceCh] ++ word }
  else ({ done := g.done ++ [g.cur], cur := [] } : G).fill W word

def G.places (W : Nat) (g : G) : List (List Ch) → Except Err G
  | [] => .ok g
  | w :: ws => match g.place W w with
    | .ok g' => g'.places W ws
    | .error e => .error e

def G.finish (g : G) : List (List Ch) := if g.cur = [] then g.done else g.done ++ [g.cur]

/-- greedy filling of words into lines of width `W` -/
def greedy (W : Nat) (ws : List (List Ch)) : Except Err (List (List Ch)) :=
  match (⟨[], []⟩ : G).places W ws with
  | .ok g => .ok g.finish
  | .error e => .error e

end H2T.Spec
