import H2T.Lemmas.Links

/-! C08: in a table-free program the link list grows by *exactly* the targets the program mentions, in order — so the number
    a reference prints (the length of the list when the link ends) is the link's position in the document. -/

namespace H2T

mutual
theorem runOp_links_exact (wm : SubR → Cfg → Nat → Nat → Except Err Nat) (cfg : Cfg) (d : Deco) :
    (op : Op) → (t t' : RS) → tableFreeOp op = true → runOp wm cfg d t op = .ok t' → t'.links = t.links ++ opHrefs op
  | .sub p m first rest asBlock body, t, t', hs, he => by
    simp only [tableFreeOp] at hs
    simp only [runOp] at he
    cases h1 : wm t.cur cfg p m with
    | error e => simp [h1, andThen_error_eq] at he
    | ok w =>
      simp only [h1, andThen_ok_eq] at he
      cases h2 : runOps wm cfg d { links := t.links, cur := ({ width := w, annStack := t.cur.annStack } : SubR) } body with
      | error e => simp [h2, andThen_error_eq] at he
      | ok r =>
        simp only [h2, andThen_ok_eq] at he
        have e1 := runOps_links_exact wm cfg d body _ r hs h2
        cases h3 : (if asBlock = true then t.cur.startBlock else Except.ok t.cur) with
        | error e => simp [h3, andThen_error_eq] at he
        | ok s1 =>
          simp only [h3, andThen_ok_eq] at he
          cases h4 : s1.appendSub r.cur first rest with
          | error e => simp [h4, andThen_error_eq] at he
          | ok s2 =>
            simp only [h4, andThen_ok_eq] at he; injection he with he; subst he
            simpa [opHrefs] using e1
  | .table _ _, _, _, hs, _ => by simp [tableFreeOp] at hs
  | .row _ _ _, _, _, hs, _ => by simp [tableFreeOp] at hs
  | .cell _ _ _, _, _, hs, _ => by simp [tableFreeOp] at hs
  | .pushWs ws, t, t', _, he => stepSimple_links cfg d t t' _ (by simpa [runOp] using he) (by simp) (by simp) (by simp) (by simp)
  | .popWs, t, t', _, he => stepSimple_links cfg d t t' _ (by simpa [runOp] using he) (by simp) (by simp) (by simp) (by simp)
  | .pushPre, t, t', _, he => stepSimple_links cfg d t t' _ (by simpa [runOp] using he) (by simp) (by simp) (by simp) (by simp)
  | .popPre, t, t', _, he => stepSimple_links cfg d t t' _ (by simpa [runOp] using he) (by simp) (by simp) (by simp) (by simp)
  | .pushAnn a, t, t', _, he => stepSimple_links cfg d t t' _ (by simpa [runOp] using he) (by simp) (by simp) (by simp) (by simp)
  | .popAnn, t, t', _, he => stepSimple_links cfg d t t' _ (by simpa [runOp] using he) (by simp) (by simp) (by simp) (by simp)
  | .text x, t, t', _, he => stepSimple_links cfg d t t' _ (by simpa [runOp] using he) (by simp) (by simp) (by simp) (by simp)
  | .frag n, t, t', _, he => stepSimple_links cfg d t t' _ (by simpa [runOp] using he) (by simp) (by simp) (by simp) (by simp)
  | .startLink hh, t, t', _, he => stepSimple_links cfg d t t' _ (by simpa [runOp] using he) (by simp) (by simp) (by simp) (by simp)
  | .endLink, t, t', _, he => stepSimple_links cfg d t t' _ (by simpa [runOp] using he) (by simp) (by simp) (by simp) (by simp)
  | .startAnn a x s, t, t', _, he => stepSimple_links cfg d t t' _ (by simpa [runOp] using he) (by simp) (by simp) (by simp) (by simp)
  | .endAnn x s, t, t', _, he => stepSimple_links cfg d t t' _ (by simpa [runOp] using he) (by simp) (by simp) (by simp) (by simp)
  | .image a b, t, t', _, he => stepSimple_links cfg d t t' _ (by simpa [runOp] using he) (by simp) (by simp) (by simp) (by simp)
  | .startBlock, t, t', _, he => stepSimple_links cfg d t t' _ (by simpa [runOp] using he) (by simp) (by simp) (by simp) (by simp)
  | .endBlock, t, t', _, he => stepSimple_links cfg d t t' _ (by simpa [runOp] using he) (by simp) (by simp) (by simp) (by simp)
  | .newLine, t, t', _, he => stepSimple_links cfg d t t' _ (by simpa [runOp] using he) (by simp) (by simp) (by simp) (by simp)
  | .newLineHard, t, t', _, he => stepSimple_links cfg d t t' _ (by simpa [runOp] using he) (by simp) (by simp) (by simp) (by simp)
theorem runOps_links_exact (wm : SubR → Cfg → Nat → Nat → Except Err Nat) (cfg : Cfg) (d : Deco) :
    (ops : List Op) → (t t' : RS) → tableFreeOps ops = true → runOps wm cfg d t ops = .ok t' → t'.links = t.links ++ opsHrefs ops
  | [], t, t', _, he => by simp [runOps] at he; subst he; simp [opsHrefs]
  | op :: ops, t, t', hs, he => by
    simp only [tableFreeOps, Bool.and_eq_true] at hs
    simp only [runOps] at he
    cases h3 : runOp wm cfg d t op with
    | error e => simp [h3, andThen_error_eq] at he
    | ok t1 =>
      simp only [h3, andThen_ok_eq] at he
      rw [runOps_links_exact wm cfg d ops t1 t' hs.2 he, runOp_links_exact wm cfg d op t t1 hs.1 h3]
      simp [opsHrefs, List.append_assoc]
end

/-- the text a finished link prints as its reference (footnotes on) is the number of link targets recorded so far -/
theorem endLink_prints_count (cfg : Cfg) (d : Deco) (t t' : RS) (hf : cfg.footnotes = true) (h : stepSimple cfg d t .endLink = .ok t') :
    ∃ t1, (t.onCur fun s => andThen (s.addInlineText cfg d.linkEnd d.annOf) fun s' => .ok { s' with annStack := s'.annStack.dropLast }) = .ok t1 ∧
      t1.links = t.links ∧
      t1.onCur (fun s => s.addInlineText cfg (strCh "[" ++ natCh t.links.length ++ strCh "]") d.annOf) = .ok t' := by
  simp only [stepSimple, hf, if_true] at h
  cases h1 : (t.onCur fun s => andThen (s.addInlineText cfg d.linkEnd d.annOf) fun s' => Except.ok { s' with annStack := s'.annStack.dropLast }) with
  | error e => rw [h1] at h; simp [andThen] at h
  | ok t1 =>
    rw [h1] at h
    simp only [andThen] at h
    have e1 := onCur_links _ _ _ h1
    exact ⟨t1, rfl, e1, by rw [← e1]; exact h⟩

/-- **the reference number is the link's position**: run a table-free program `pre`, then a link whose content `body` is
    table-free and holds no link of its own; the reference printed when the link ends is `[n]` with
    `n = (links before) + (links in pre) + 1` -/
theorem reference_is_position (wm : SubR → Cfg → Nat → Nat → Except Err Nat) (cfg : Cfg) (d : Deco) (t t1 t2 t3 : RS)
    (pre body : List Op) (href : List Ch) (hp : tableFreeOps pre = true) (hb : tableFreeOps body = true) (hnl : opsHrefs body = [])
    (h1 : runOps wm cfg d t pre = .ok t1) (h2 : runOp wm cfg d t1 (.startLink href) = .ok t2) (h3 : runOps wm cfg d t2 body = .ok t3) :
    t3.links.length = t.links.length + (opsHrefs pre).length + 1 := by
  have e1 := runOps_links_exact wm cfg d pre t t1 hp h1
  have e2 := runOp_links_exact wm cfg d (.startLink href) t1 t2 rfl h2
  have e3 := runOps_links_exact wm cfg d body t2 t3 hb h3
  rw [e3, hnl, e2, e1]
  simp [opHrefs]
  omega

end H2T
