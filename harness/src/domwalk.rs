//! An independent walk over the oracle DOM (harness's own sink) used by the search oracles.

use crate::rcdom::{Handle, NodeData, RcDom};

#[derive(Clone, Debug)]
pub enum N {
    Doc(Vec<N>),
    Text(String),
    Comment,
    Other,
    Elem { name: String, html: bool, attrs: Vec<(String, String)>, kids: Vec<N> },
}

fn conv(h: &Handle, depth: usize) -> N {
    if depth > 400 {
        return N::Other;
    }
    match &h.data {
        NodeData::Document => N::Doc(h.children.borrow().iter().map(|c| conv(c, depth + 1)).collect()),
        NodeData::Text { contents } => N::Text(contents.borrow().to_string()),
        NodeData::Comment { .. } => N::Comment,
        NodeData::Element { name, attrs, .. } => N::Elem {
            name: name.local.to_string(),
            html: &*name.ns == "http://www.w3.org/1999/xhtml",
            attrs: attrs.borrow().iter().map(|a| (a.name.local.to_string(), a.value.to_string())).collect(),
            kids: h.children.borrow().iter().map(|c| conv(c, depth + 1)).collect(),
        },
        _ => N::Other,
    }
}

pub fn tree(html: &[u8]) -> N {
    let dom: RcDom = crate::obs::parse(html);
    conv(&dom.document, 0)
}

impl N {
    pub fn kids(&self) -> &[N] {
        match self {
            N::Doc(k) => k,
            N::Elem { kids, .. } => kids,
            _ => &[],
        }
    }
    pub fn name(&self) -> &str {
        match self {
            N::Elem { name, html: true, .. } => name,
            _ => "",
        }
    }
    pub fn attr(&self, a: &str) -> Option<&str> {
        match self {
            N::Elem { attrs, .. } => attrs.iter().find(|x| x.0 == a).map(|x| x.1.as_str()),
            _ => None,
        }
    }
    /// last occurrence (html5ever keeps only the first duplicate, so this is the same)
    pub fn is(&self, n: &str) -> bool {
        self.name() == n
    }
    pub fn any(&self, f: &dyn Fn(&N) -> bool) -> bool {
        f(self) || self.kids().iter().any(|k| k.any(f))
    }
    pub fn count(&self, f: &dyn Fn(&N) -> bool) -> usize {
        (f(self) as usize) + self.kids().iter().map(|k| k.count(f)).sum::<usize>()
    }
    pub fn has_elem(&self, n: &str) -> bool {
        self.any(&|x| x.is(n))
    }
}

/// elements whose subtree the renderer never shows
pub fn never_rendered(name: &str) -> bool {
    matches!(name, "head" | "script" | "style" | "link" | "meta" | "hr")
}

/// regions in which the unchanged library is known to drop text (DESIGN §8 #8): `reason` per dropped region
#[derive(Clone, Copy, PartialEq, Debug)]
pub enum Drop {
    No,
    /// table children other than thead/tbody (caption, tfoot, colgroup…) and non-row/non-cell children
    TableStray,
    /// children of ol other than li, of dl other than dt/dd
    ListStray,
    /// a cell with colspan >= 2 (its estimate may be divided down to zero width)
    ColspanCell,
    /// img without src or without alt
    Img,
}

/// visible text in document order: (char, drop-region classification)
pub fn flow_text(n: &N) -> Vec<(char, Drop)> {
    let mut out = Vec::new();
    walk(n, Drop::No, &mut out);
    out
}

fn walk(n: &N, d: Drop, out: &mut Vec<(char, Drop)>) {
    match n {
        N::Text(t) => {
            for c in t.chars() {
                out.push((c, d));
            }
        }
        N::Doc(k) => {
            for c in k {
                walk(c, d, out);
            }
        }
        N::Elem { name, html, attrs, kids } => {
            let nm: &str = if *html { name } else { "" };
            if never_rendered(nm) {
                return;
            }
            if nm == "img" {
                let alt = attrs.iter().find(|a| a.0 == "alt" && !a.1.is_empty());
                let src = attrs.iter().find(|a| a.0 == "src" && !a.1.is_empty());
                if let Some(a) = alt {
                    let dd = if src.is_some() { d } else { Drop::Img };
                    for c in a.1.chars() {
                        out.push((c, dd));
                    }
                }
                return;
            }
            for c in kids {
                let cd = match (nm, c) {
                    (_, _) if d != Drop::No => d,
                    ("table", k) if !(k.is("thead") || k.is("tbody")) => Drop::TableStray,
                    ("thead" | "tbody", k) if !k.is("tr") => Drop::TableStray,
                    ("tfoot", _) => Drop::TableStray,
                    ("tr", k) if !(k.is("td") || k.is("th")) => Drop::TableStray,
                    ("tr", k) if k.attr("colspan").map(|v| v.trim() != "1").unwrap_or(false) => Drop::ColspanCell,
                    ("ol", k) if !k.is("li") => Drop::ListStray,
                    ("dl", k) if !(k.is("dt") || k.is("dd")) => Drop::ListStray,
                    _ => d,
                };
                walk(c, cd, out);
            }
        }
        _ => {}
    }
}

/// `<a href>` elements in document order: (href, subtree has visible non-whitespace text or an image)
pub fn links(n: &N) -> Vec<(String, bool)> {
    let mut out = Vec::new();
    fn go(n: &N, out: &mut Vec<(String, bool)>) {
        if let N::Elem { name, html, .. } = n {
            let nm: &str = if *html { name } else { "" };
            if never_rendered(nm) {
                return;
            }
            if nm == "a" {
                if let Some(h) = n.attr("href") {
                    let vis = flow_text(n).iter().any(|(c, _)| !c.is_whitespace());
                    out.push((h.to_string(), vis));
                }
            }
        }
        for k in n.kids() {
            go(k, out);
        }
    }
    go(n, &mut out);
    out
}

// ---------------------------------------------------------------------------------------------
// flat view: elements with parents, and the visible text with the element each character belongs to

pub struct FlatEl<'a> {
    pub node: &'a N,
    pub parent: Option<usize>,
    /// 1-based index among the element children of the parent
    pub idx: i64,
}
pub struct Flat<'a> {
    pub elems: Vec<FlatEl<'a>>,
    /// (character, innermost element id or usize::MAX)
    pub flow: Vec<(char, usize)>,
}

pub fn flat<'a>(root: &'a N) -> Flat<'a> {
    let mut f = Flat { elems: Vec::new(), flow: Vec::new() };
    fn go<'a>(n: &'a N, me: Option<usize>, hidden: bool, f: &mut Flat<'a>) {
        let mut idx = 0;
        for k in n.kids() {
            match k {
                N::Text(t) => {
                    if !hidden {
                        for c in t.chars() {
                            f.flow.push((c, me.unwrap_or(usize::MAX)));
                        }
                    }
                }
                N::Elem { name, html, .. } => {
                    idx += 1;
                    let id = f.elems.len();
                    f.elems.push(FlatEl { node: k, parent: me, idx });
                    let nm: &str = if *html { name } else { "" };
                    let h = hidden || never_rendered(nm);
                    if nm == "img" && !h {
                        let alt = k.attr("alt").filter(|a| !a.is_empty());
                        let src = k.attr("src").filter(|a| !a.is_empty());
                        if let (Some(a), Some(_)) = (alt, src) {
                            for c in a.chars() {
                                f.flow.push((c, id));
                            }
                        }
                    }
                    go(k, Some(id), h, f);
                }
                _ => {}
            }
        }
    }
    go(root, None, false, &mut f);
    f
}

impl<'a> Flat<'a> {
    /// ids from the root down to `e`
    pub fn chain(&self, e: usize) -> Vec<usize> {
        let mut v = vec![e];
        let mut cur = e;
        while let Some(p) = self.elems[cur].parent {
            v.push(p);
            cur = p;
        }
        v.reverse();
        v
    }
    pub fn path(&self, e: usize) -> Vec<crate::refcss::PathEl<'a>> {
        self.chain(e).into_iter().map(|i| crate::refcss::PathEl { node: self.elems[i].node, idx: self.elems[i].idx }).collect()
    }
}

// ---------------------------------------------------------------------------------------------
// serialisation of a (possibly pruned) tree back to HTML

fn esc_text(s: &str, out: &mut String) {
    for c in s.chars() {
        match c {
            '&' => out.push_str("&amp;"),
            '<' => out.push_str("&lt;"),
            '>' => out.push_str("&gt;"),
            c => out.push(c),
        }
    }
}
fn esc_attr(s: &str, out: &mut String) {
    for c in s.chars() {
        match c {
            '&' => out.push_str("&amp;"),
            '"' => out.push_str("&quot;"),
            c => out.push(c),
        }
    }
}
const VOID: &[&str] = &["area", "base", "br", "col", "embed", "hr", "img", "input", "link", "meta", "param", "source", "track", "wbr"];

/// serialise; `keep(node)` = false drops the subtree; `attr_ok(name)` filters attributes
pub fn serialize(n: &N, keep: &dyn Fn(&N) -> bool, attr_ok: &dyn Fn(&str) -> bool, out: &mut String) {
    match n {
        N::Doc(k) => {
            for c in k {
                serialize(c, keep, attr_ok, out);
            }
        }
        N::Text(t) => esc_text(t, out),
        N::Comment => out.push_str("<!--c-->"),
        N::Other => {}
        N::Elem { name, attrs, kids, .. } => {
            if !keep(n) {
                return;
            }
            out.push('<');
            out.push_str(name);
            for (a, v) in attrs {
                if attr_ok(a) {
                    out.push(' ');
                    out.push_str(a);
                    out.push_str("=\"");
                    esc_attr(v, out);
                    out.push('"');
                }
            }
            out.push('>');
            if VOID.contains(&name.as_str()) {
                return;
            }
            if matches!(name.as_str(), "pre" | "textarea" | "listing") {
                if let Some(N::Text(t)) = kids.first() {
                    if t.starts_with('\n') {
                        out.push('\n');
                    }
                }
            }
            if matches!(name.as_str(), "script" | "style") {
                for c in kids {
                    if let N::Text(t) = c {
                        out.push_str(t);
                    }
                }
            } else {
                for c in kids {
                    serialize(c, keep, attr_ok, out);
                }
            }
            out.push_str("</");
            out.push_str(name);
            out.push('>');
        }
    }
}

/// structural equality of two trees (used to confirm that a serialisation re-parses to the same tree)
pub fn same_tree(a: &N, b: &N) -> bool {
    match (a, b) {
        (N::Doc(x), N::Doc(y)) => x.len() == y.len() && x.iter().zip(y).all(|(p, q)| same_tree(p, q)),
        (N::Text(x), N::Text(y)) => x == y,
        (N::Comment, N::Comment) | (N::Other, N::Other) => true,
        (N::Elem { name: n1, attrs: a1, kids: k1, .. }, N::Elem { name: n2, attrs: a2, kids: k2, .. }) => n1 == n2 && a1 == a2 && k1.len() == k2.len() && k1.iter().zip(k2).all(|(p, q)| same_tree(p, q)),
        _ => false,
    }
}

/// copy of a tree without the subtrees for which `keep` is false, without attributes for which `attr_ok`
/// is false, and with adjacent text nodes merged (as a re-parse would merge them)
pub fn prune(n: &N, keep: &dyn Fn(&N) -> bool, attr_ok: &dyn Fn(&str) -> bool) -> N {
    fn kids(ks: &[N], keep: &dyn Fn(&N) -> bool, attr_ok: &dyn Fn(&str) -> bool) -> Vec<N> {
        let mut out: Vec<N> = Vec::new();
        for k in ks {
            if let N::Elem { .. } = k {
                if !keep(k) {
                    // Deleting a node from a DOM does not merge its neighbours.  A comment (which the renderer
                    // ignores) stands where the subtree was, so that a re-parse keeps the text nodes apart too.
                    out.push(N::Comment);
                    continue;
                }
            }
            let p = prune(k, keep, attr_ok);
            if let (Some(N::Text(a)), N::Text(b)) = (out.last_mut(), &p) {
                a.push_str(b);
                continue;
            }
            out.push(p);
        }
        out
    }
    match n {
        N::Doc(k) => N::Doc(kids(k, keep, attr_ok)),
        N::Elem { name, html, attrs, kids: k } => N::Elem { name: name.clone(), html: *html, attrs: attrs.iter().filter(|a| attr_ok(&a.0)).cloned().collect(), kids: kids(k, keep, attr_ok) },
        x => x.clone(),
    }
}

pub fn to_html(n: &N) -> String {
    let mut s = String::new();
    serialize(n, &|_| true, &|_| true, &mut s);
    s
}
