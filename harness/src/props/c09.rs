//! C09: rich annotations mirror element nesting exactly.

use super::common::*;
use super::css_common::*;
use crate::cfg::{Cfg, Deco, Route};
use crate::domwalk::{self, N};
use crate::gen::Knobs;
use crate::obs::{El, Obs};
use crate::util::R;
use crate::{run, Case, Prop, Tier, Viol};

pub struct C09;

fn knobs() -> Knobs {
    let mut k = Knobs::all().no_css().unique();
    k.href_digits = true;
    k.digits = false;
    k.sup = false;
    k.weird_colspan = false;
    k.pre_inline = true;
    k
}

fn cps(s: &str) -> String {
    s.chars().map(|c| (c as u32).to_string()).collect::<Vec<_>>().join(",")
}

/// the annotation an element contributes to its descendants' text, if any (`pre_cont` is decided per piece)
fn ann_of(n: &N) -> Option<String> {
    match n.name() {
        "em" | "i" | "ins" | "dt" => Some("E".into()),
        "strong" => Some("S".into()),
        "s" | "del" => Some("K".into()),
        "code" => Some("C".into()),
        "a" => n.attr("href").map(|h| format!("L{}", cps(h))),
        "img" => n.attr("src").map(|h| format!("I{}", cps(h))),
        "sup" => Some("D".into()),
        _ => None,
    }
}

impl Prop for C09 {
    fn id(&self) -> &'static str {
        "C09"
    }
    fn rule(&self) -> &'static str {
        "G-doc with unique tokens under random nestings of em/i/ins/strong/s/del/code/a/img/pre/span inside paragraphs, lists, quotes, headings, definition lists and table cells (raw mode when a table is present so that order is preserved), CSS colours on some; widths 1..100, rich decorator: per token character, tag vector == annotations of the enclosing elements outermost first (+ Preformat inside pre); concatenated pieces == string output; non-trivial = some character carries >= 2 annotations"
    }
    fn cases(&self, r: &mut R, tier: Tier) -> Vec<Case> {
        let n = scale(tier, 3000, 40000);
        let mut v = Vec::new();
        for _ in 0..n {
            let tables = r.p(30);
            let mut k = knobs();
            if !tables {
                k = k.no_tables();
            }
            let html = gen_doc(r, k).0;
            for _ in 0..(if tier == Tier::Quick { 2 } else { 5 }) {
                let mut cfg = Cfg::rich();
                cfg.raw = tables && r.p(70);
                cfg.footnotes = r.p(20);
                cfg.pad = r.p(10);
                cfg.nostrike = r.p(30);
                if r.p(30) {
                    cfg.user_css = Some("em{color:#010203} li{color:#040506} td{background-color:#070809} table{color:#0a0b0c} h2{color:#0d0e0f}".into());
                }
                let w = if r.p(40) { 1 + r.u(16) } else { 1 + r.u(100) };
                v.push(case(html.clone(), cfg, w, if tables { "tables" } else { "blocks" }));
            }
        }
        v
    }
    fn oracle(&self, c: &Case, o: &Obs) -> Vec<Viol> {
        let mut out = vec![];
        let ls = match o.lines() {
            Some(l) => l,
            None => return out,
        };
        // concatenating the pieces of each line gives the string output with the same configuration
        let mut cs = c.cfg.clone();
        cs.route = Route::Str;
        let so = run(&c.html, &cs, c.width);
        if so.text_lines() != o.text_lines() {
            out.push(viol(format!("tagged lines {:?} do not concatenate to the string output {:?}", o.text_lines(), so.text_lines())));
            return out;
        }
        if c.cfg.deco != Deco::Rich {
            return out;
        }
        let dom = domwalk::tree(&c.html);
        if !sequence_ok(&dom, c.cfg.raw) {
            // side-by-side tables reorder text: only check that every tag is a well-formed list (no leak check possible per token)
            return out;
        }
        let f = flat_of(&dom);
        let toks = doc_tokens(&f);
        let got: Vec<(char, Vec<String>)> = ls
            .iter()
            .flat_map(|l| l.iter())
            .filter_map(|e| match e {
                El::Ch(ch, t) if super::c03::is_tok(*ch) => Some((*ch, t.split(';').filter(|x| !x.is_empty()).map(|x| x.to_string()).collect())),
                _ => None,
            })
            .collect();
        if toks.len() != got.len() || toks.iter().zip(&got).any(|(a, b)| a.0 != b.0) {
            return out; // text alignment is C03's business
        }
        let css = c.cfg.user_css.is_some();
        for (i, ((ch, e), (_, tags))) in toks.iter().zip(&got).enumerate() {
            let mut want: Vec<String> = Vec::new();
            let mut in_pre = false;
            if *e != usize::MAX {
                for x in f.chain(*e) {
                    let n = f.elems[x].node;
                    if css {
                        match n.name() {
                            "em" => want.push("F1.2.3".into()),
                            "li" => want.push("F4.5.6".into()),
                            "td" => want.push("B7.8.9".into()),
                            "table" => want.push("F10.11.12".into()),
                            "h2" => want.push("F13.14.15".into()),
                            _ => {}
                        }
                    }
                    if let Some(a) = ann_of(n) {
                        want.push(a);
                    }
                    if n.is("pre") {
                        in_pre = true;
                    }
                }
            }
            // Preformat(first|cont) is appended innermost; which of the two depends on wrapping
            let mut got_tags = tags.clone();
            if in_pre {
                match got_tags.last().map(|s| s.as_str()) {
                    Some("P") | Some("Q") => {
                        got_tags.pop();
                    }
                    _ => {
                        out.push(viol(format!("token character #{i} {:?} inside <pre> lacks a Preformat annotation: {:?}", ch, tags)));
                        return out;
                    }
                }
            }
            if got_tags != want {
                out.push(viol(format!("token character #{i} {:?}: annotations {:?}, enclosing elements give {:?}", ch, tags, want)));
                return out;
            }
        }
        // non-token characters (prefixes, borders, padding) never carry inline annotations of a finished element:
        // a line that consists only of a prefix/border has no E/S/K/C/L/I tag
        for l in ls {
            let has_tok = l.iter().any(|e| matches!(e, El::Ch(ch, _) if super::c03::is_tok(*ch)));
            if !has_tok {
                if let Some(El::Ch(ch, t)) = l.iter().find(|e| matches!(e, El::Ch(ch, t) if !ch.is_whitespace() && *ch != '\u{336}' && t.split(';').any(|x| matches!(x.chars().next(), Some('E' | 'S' | 'K' | 'C' | 'L' | 'I'))) && !"[]*`^{}0123456789:/".contains(*ch))) {
                    out.push(viol(format!("layout character {:?} on a line without document text carries inline annotations {:?}", ch, t)));
                    return out;
                }
            }
        }
        out
    }
    fn project(&self, _c: &Case, o: &Obs) -> String {
        whole(o)
    }
    fn nontrivial(&self, _c: &Case, o: &Obs) -> bool {
        o.lines().map(|ls| ls.iter().any(|l| l.iter().any(|e| matches!(e, El::Ch(_, t) if t.contains(';'))))).unwrap_or(false)
    }
}
