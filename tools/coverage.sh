#!/bin/bash
# Advisory (not a registered check): which lines of /repo/src do the generator streams of all 20 properties + CORR reach?
# Builds the harness with -C instrument-coverage on the nightly toolchain (llvm-tools), runs every stream at the quick tier,
# prints llvm-cov's per-file report and the never-executed lines of the four files that hold the library's logic.
# Scratch lives outside /repo and /verif and is removed at the end.
set -e
S=${COV_SCRATCH:-/tmp/h2t-cov}; rm -rf $S; mkdir -p $S/prof $S/replays
TB=$(rustc +nightly --print sysroot)/lib/rustlib/x86_64-unknown-linux-gnu/bin
cd "$(dirname "$0")/../harness"
RUSTFLAGS="-C instrument-coverage" CARGO_NET_OFFLINE=true cargo +nightly build --offline --target-dir $S/target >/dev/null 2>&1
BIN=$S/target/debug/h2t-harness; MODEL=../lean/.lake/build/bin/h2t_model
for p in C01 C02 C03 C04 C05 C06 C07 C08 C09 C10 C11 C12 C13 C14 C15 C16 C17 C18 C19 C20 CORR; do
  LLVM_PROFILE_FILE=$S/prof/$p-%p.profraw VERIF_ROOT=$(cd ..; pwd) $BIN run $p ${1:-quick} 1 $MODEL $S/res_$p.json $S/replays >/dev/null 2>&1 || true
done
$TB/llvm-profdata merge -sparse $S/prof/*.profraw -o $S/all.profdata
$TB/llvm-cov report $BIN -instr-profile=$S/all.profdata 2>/dev/null | grep -E "Filename|repo/src" | awk '{print $1, "regions", $4, "functions", $7, "lines", $10}'
for f in lib.rs render/text_renderer.rs css.rs css/parser.rs; do
  echo "== never executed in /repo/src/$f"
  $TB/llvm-cov show $BIN -instr-profile=$S/all.profdata /repo/src/$f 2>/dev/null | awk -F'|' '$2 ~ /^ *0$/ {print $1 "|" $3}' | grep -v "^ *[0-9]*| *//" | grep -v "write\|fmt(\|todo!\|unreachable!\|panic!()" || true
done
rm -rf $S
