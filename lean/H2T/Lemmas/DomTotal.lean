import H2T.Lemmas.BuildOk
import H2T.Lemmas.Select
import H2T.Lemmas.CssTotal

/-! C01 end to end on the model: from a DOM to lines.  `build` never fails (the selector matcher never panics), its trees
    satisfy `tableOk`, and rendering them is total — so the only non-value outcomes of `renderDom` are `TooNarrow` and a CSS
    parse error of user/agent CSS (the CSS parser itself never hangs: `CssTotal`). -/

namespace H2T
open Css

theorem selMatches_ne_panic (s : Selector) (chain : List Frame) : selMatches s chain ≠ .panic :=
  (doMatches_iff _ s.comps chain (by
    unfold matchFuel
    have h1 : s.comps.length + 1 ≤ (s.comps.length + 1) * (chain.length + 1) := Nat.le_mul_of_pos_right _ (Nat.succ_pos _)
    have h2 : chain.length ≤ (s.comps.length + 1) * (chain.length + 1) * chain.length :=
      Nat.le_mul_of_pos_left _ (Nat.lt_of_lt_of_le (Nat.succ_pos _) h1)
    have h3 : (s.comps.length + 1) * (chain.length + 1) * (chain.length + 1)
        = (s.comps.length + 1) * (chain.length + 1) * chain.length + (s.comps.length + 1) * (chain.length + 1) := by
      rw [Nat.mul_succ]
    omega)).2

theorem applyRules_ok (origin : Origin) (rules : List Rule) (chain : List Frame) : ∀ (c : Computed), ∃ c', applyRules origin rules chain (.ok c) = .ok c' := by
  unfold applyRules
  induction rules with
  | nil => intro c; exact ⟨c, rfl⟩
  | cons r rs ih =>
    intro c
    simp only [List.foldl_cons]
    cases h : selMatches r.selector chain with
    | panic => exact absurd h (selMatches_ne_panic _ _)
    | no => exact ih c
    | yes => exact ih _

theorem computedStyle_ok (sd : StyleData) (useDoc : Bool) (chain : List Frame) : ∃ c, computedStyle sd useDoc chain = .ok c := by
  unfold computedStyle
  obtain ⟨c1, h1⟩ := applyRules_ok .agent sd.agent chain {}
  obtain ⟨c2, h2⟩ := applyRules_ok .user sd.user chain c1
  obtain ⟨c3, h3⟩ := applyRules_ok .author sd.author chain c2
  simp only [h1, h2, h3]
  cases chain with
  | nil => exact ⟨c3, rfl⟩
  | cons node up =>
    simp only
    split
    · exact ⟨_, rfl⟩
    · exact ⟨_, rfl⟩

mutual
theorem build_some (bc : BuildCfg) : (n : Node) → (up : List Css.Frame) → (idx : Nat) → ∃ r, build bc up idx n = some r
  | .text s, up, idx => by simp [build]
  | .comment, up, idx => by simp [build]
  | .other, up, idx => by simp [build]
  | .doc kids, up, idx => by
    obtain ⟨cs, h⟩ := buildList_some bc kids [{ isElem := false }] 0
    simp [build, h]
  | .elem name html attrs kids, up, idx => by
    obtain ⟨c, hc⟩ := computedStyle_ok bc.sd bc.useDoc ({ isElem := true, name := name, attrs := attrs, elemIdx := idx } :: up)
    obtain ⟨cs, h⟩ := buildList_some bc kids ({ isElem := true, name := name, attrs := attrs, elemIdx := idx } :: up) 0
    simp only [build, hc, h]
    split
    · exact ⟨_, rfl⟩
    · exact ⟨_, rfl⟩
theorem buildList_some (bc : BuildCfg) : (ns : List Node) → (chain : List Css.Frame) → (seen : Nat) → ∃ rs, buildList bc chain seen ns = some rs
  | [], chain, seen => ⟨[], by simp [buildList]⟩
  | n :: ns, chain, seen => by
    obtain ⟨r, h1⟩ := build_some bc n chain (if isElemNode n = true then seen + 1 else seen)
    obtain ⟨rs, h2⟩ := buildList_some bc ns chain (if isElemNode n = true then seen + 1 else seen)
    simp [buildList, h1, h2]
end

theorem build_doc (bc : BuildCfg) (up : List Css.Frame) (idx : Nat) (kids : List Node) :
    ∃ tree, build bc up idx (.doc kids) = some (some tree) ∧ tableOk tree = true := by
  obtain ⟨cs, h⟩ := buildList_some bc kids [{ isElem := false }] 0
  refine ⟨.box {} .container cs, by simp [build, h], ?_⟩
  exact build_ok bc (.doc kids) up idx _ (by simp [build, h])

/-- the outcomes that are values or documented errors: lines, `TooNarrow`, a CSS parse error — never a panic, never a
    hang -/
def Outcome.acceptable : Outcome → Prop
  | .lines _ => True
  | .narrow => True
  | .cssErr => True
  | .hang _ => False
  | .panic _ => False

theorem doAddCss_ne_hang (css : Css.Inp) : Css.doAddCss css ≠ .hang := by
  rcases Css.doAddCss_no_hang css with ⟨rs, e⟩ | e <;> simp [e]

/-- the shape of `renderDom`: whatever holds of the three CSS error outcomes and of the outcome of rendering any
    `tableOk` tree holds of the pipeline's outcome (the DOM → render tree pass never fails and only yields such trees) -/
theorem renderDom_ind (P : Outcome → Prop) (cfg : Cfg) (d : Deco) (w : Nat) (useDoc : Bool) (agentCss userCss : Option (List Char))
    (ci : CharInfo) (depth : Nat) (kids : List Node)
    (h1 : P .cssErr)
    (h4 : ∀ tree, tableOk tree = true → P (match renderTree cfg d w tree with
      | .ok ls => .lines ls
      | .error .tooNarrow => .narrow
      | .error (.panic s) => .panic s
      | .error (.hang s) => .hang s)) :
    P (renderDom cfg d w useDoc agentCss userCss ci depth (.doc kids)) := by
  unfold renderDom
  simp only []
  split
  · rename_i o ho
    cases agentCss with
    | none => simp at ho
    | some t =>
      simp only at ho
      split at ho
      · simp at ho
      · injection ho with ho; subst ho; exact h1
      · rename_i hh; exact absurd hh (doAddCss_ne_hang _)
  · split
    · rename_i o ho
      cases userCss with
      | none => simp at ho
      | some t =>
        simp only at ho
        split at ho
        · simp at ho
        · injection ho with ho; subst ho; exact h1
        · rename_i hh; exact absurd hh (doAddCss_ne_hang _)
    · split
      · rename_i o ho
        have key : ∀ (l : List (List Ch)) (acc : Except Outcome (List Css.Rule)), (∀ o', acc = .error o' → P o') →
            ∀ o', l.foldl (fun acc t => match acc with
              | .error o => .error o
              | .ok rs => match Css.doAddCss (t.map fun c => Char.ofNat c.cp) with
                | .ok r => .ok (rs ++ r)
                | .err => .ok rs
                | .hang => .error (.hang "css parser (document)")) acc = .error o' → P o' := by
          intro l
          induction l with
          | nil => intro acc h o' e; exact h o' e
          | cons t l ih =>
            intro acc h o' e
            simp only [List.foldl_cons] at e
            apply ih _ _ o' e
            intro o2 e2
            cases acc with
            | error oe => simp only at e2; injection e2 with e2; subst e2; exact h _ rfl
            | ok rs =>
              simp only at e2
              split at e2
              · simp at e2
              · simp at e2
              · rename_i hh; exact absurd hh (doAddCss_ne_hang _)
        split at ho
        all_goals first
          | exact key _ _ (by intro o' e; simp at e) o ho
          | (injection ho)
      · split
        · rename_i hb
          obtain ⟨tree, hb', _⟩ := build_doc _ [] 0 kids
          rw [hb'] at hb; simp at hb
        · rename_i hb
          obtain ⟨tree, hb', _⟩ := build_doc _ [] 0 kids
          rw [hb'] at hb; simp at hb
        · rename_i tree hb
          have hok := build_ok _ (.doc kids) [] 0 tree hb
          simp only [hok, Bool.not_true, Bool.false_eq_true, if_false]
          exact h4 tree hok

/-- **C01 on the whole model pipeline**: for every document (a DOM rooted at a document node, as html5ever produces),
    every configuration, decorator, width, agent/user/document CSS: the outcome is lines, `TooNarrow`, a CSS parse error,
    — the CSS parser never hangs, the DOM → render tree pass never fails, its trees are renderable, and
    the renderer never panics or hangs -/
theorem renderDom_acceptable (cfg : Cfg) (d : Deco) (w : Nat) (useDoc : Bool) (agentCss userCss : Option (List Char))
    (ci : CharInfo) (depth : Nat) (kids : List Node) :
    (renderDom cfg d w useDoc agentCss userCss ci depth (.doc kids)).acceptable := by
  apply renderDom_ind Outcome.acceptable
  · trivial
  · intro tree hok
    have hs := renderTree_total cfg d w tree hok
    cases hr : renderTree cfg d w tree with
    | ok ls => trivial
    | error e =>
      have := (hs e hr).1
      subst this
      trivial

/-- **C11 on the whole model pipeline**: with `allow_width_overflow` and a width of at least 1, every document renders —
    the outcome is lines unless user/agent CSS is rejected; it is never `TooNarrow` -/
theorem renderDom_overflow (cfg : Cfg) (d : Deco) (w : Nat) (useDoc : Bool) (agentCss userCss : Option (List Char))
    (ci : CharInfo) (depth : Nat) (kids : List Node) (hov : cfg.overflow = true) (hw : 1 ≤ w) :
    ∀ o, renderDom cfg d w useDoc agentCss userCss ci depth (.doc kids) = o → (match o with | .narrow => False | _ => True) := by
  intro o ho
  subst ho
  apply renderDom_ind (fun o => match o with | .narrow => False | _ => True)
  · trivial
  · intro tree hok
    have hs := renderTree_total cfg d w tree hok
    have hc : (cfg.overflow && decide (w ≠ 0)) = true := by simp [hov]; omega
    rw [hc] at hs
    obtain ⟨ls, hls⟩ := hs.is_ok
    simp [hls]

end H2T
