import H2T.Lemmas.WrapInv

/-! C14, wrap layer: fragment markers are conserved exactly.  What a `WrappedBlock` holds (finished lines, current line,
    pending word) contains, in order, exactly the markers recorded so far: `add_text` in any mode neither loses,
    duplicates, reorders nor invents a marker, and `into_lines` emits all of them except those still waiting in a
    text-less pending word (which the sub-renderer keeps as pending markers). -/

namespace H2T

/-- the fragment markers of a line, in order -/
def marks (l : TLine) : List (List Ch) := l.filterMap fun e => match e with | .frag n => some n | .cell _ => none

def WB.marks (b : WB) : List (List Ch) := b.text.flatMap H2T.marks ++ H2T.marks b.line ++ H2T.marks b.word

theorem marks_append (a b : TLine) : marks (a ++ b) = marks a ++ marks b := by simp [marks, List.filterMap_append]
theorem marks_spaces (n : Nat) (t : Tag) : marks (List.replicate n (spc t)) = [] := by
  induction n with
  | zero => rfl
  | succ n ih => simp [List.replicate_succ, marks, spc] at ih ⊢
theorem marks_cells (cs : List Cell) : marks (cs.map Elt.cell) = [] := by
  induction cs with
  | nil => rfl
  | cons c cs ih => simp [marks] at ih ⊢

/-- a line without text is empty, or something has been flushed before it: then the final rescue loses nothing -/
def WB.LineOk (b : WB) : Prop := b.line.noContent = true → b.line = [] ∨ b.text ≠ []

theorem marks_forceFlush (b : WB) : b.forceFlush.marks = b.marks ∧ b.forceFlush.LineOk := by
  constructor
  · simp only [WB.marks, WB.forceFlush, List.flatMap_append, List.flatMap_cons, List.flatMap_nil, List.append_nil]
    split
    · rw [marks_append, marks_spaces]; simp [marks]
    · simp [marks]
  · intro _; left; rfl

theorem marks_flushLine (b : WB) (h : b.LineOk) : b.flushLine.marks = b.marks ∧ b.flushLine.LineOk := by
  unfold WB.flushLine; split
  · exact ⟨rfl, h⟩
  · exact marks_forceFlush b

theorem noContent_append_cell (l : TLine) (c : Cell) (r : TLine) : (l ++ Elt.cell c :: r).noContent = false := by
  simp [TLine.noContent, Elt.isCell]

theorem marks_pushWs (b : WB) (n : Nat) (t : Tag) (h : b.LineOk) (hn : 0 < n ∨ True) : (b.pushWs n t).marks = b.marks := by
  simp [WB.marks, WB.pushWs, marks_append, marks_spaces]

theorem lineOk_of_content (b : WB) (h : b.line.noContent = false) : b.LineOk := by
  intro hn; rw [h] at hn; simp at hn

theorem lineOk_pushWs (b : WB) (n : Nat) (t : Tag) (h : b.LineOk) : (b.pushWs n t).LineOk := by
  cases n with
  | zero => simpa [WB.pushWs, WB.LineOk] using h
  | succ n =>
    apply lineOk_of_content
    simp [WB.pushWs, List.replicate_succ, TLine.noContent, spc, Elt.isCell]

theorem marks_pushCells (b : WB) (cs : List Cell) : (b.pushCells cs).marks = b.marks := by
  simp [WB.marks, WB.pushCells, marks_append, marks_cells]

theorem lineOk_pushCells (b : WB) (cs : List Cell) (h : b.LineOk) : (b.pushCells cs).LineOk := by
  cases cs with
  | nil => simpa [WB.pushCells, WB.LineOk] using h
  | cons c cs => apply lineOk_of_content; simp [WB.pushCells, TLine.noContent, Elt.isCell]

/-- after placing a non-empty piece, text has been flushed or the line has content -/
def WB.Solid (b : WB) : Prop := b.text ≠ [] ∨ b.line.noContent = false

theorem Solid.lineOk {b : WB} (h : b.Solid) : b.LineOk := by
  intro hn
  rcases h with h | h
  · exact Or.inr h
  · rw [h] at hn; simp at hn

theorem solid_forceFlush (b : WB) : b.forceFlush.Solid := by
  left; simp [WB.forceFlush]

theorem solid_pushCells (b : WB) (c : Cell) (cs : List Cell) : (b.pushCells (c :: cs)).Solid := by
  right; simp [WB.pushCells, TLine.noContent, Elt.isCell]

theorem solid_pushCells_of (b : WB) (cs : List Cell) (h : b.Solid) : (b.pushCells cs).Solid := by
  rcases h with h | h
  · exact Or.inl h
  · right
    simp only [WB.pushCells, TLine.noContent, List.any_append, Bool.not_eq_eq_eq_not, Bool.not_true, Bool.or_eq_false_iff] at h ⊢
    simp only [TLine.noContent, Bool.not_eq_eq_eq_not, Bool.not_false] at h
    simp [h]

/-! ## hard wrap -/

theorem pieceLoop_marks (w : Nat) : ∀ (fuel : Nat) (b : WB) (ll wpos : Nat) (rest : List Cell) (moved : Bool)
    (b' : WB) (ll' wpos' : Nat) (rest' : List Cell) (moved' : Bool),
    b.pieceLoop w fuel ll wpos rest moved = .ok (b', ll', wpos', rest', moved') →
    b'.marks = b.marks ∧ b'.word = b.word ∧ (b.Solid → b'.Solid) ∧ (moved' = true → moved = false → b'.Solid) := by
  intro fuel
  induction fuel with
  | zero => intro b ll wpos rest moved b' ll' wpos' rest' moved' h; simp [WB.pieceLoop] at h
  | succ fuel ih =>
    intro b ll wpos rest moved b' ll' wpos' rest' moved' h
    simp only [WB.pieceLoop] at h
    by_cases hgt : w - wpos > ll
    · simp only [hgt, if_true] at h
      generalize hr : scanFit ll wpos rest = r at h
      obtain ⟨taken, rest1, ll1, wpos1⟩ := r
      simp only at h
      cases rest1 with
      | nil =>
        simp only at h
        obtain ⟨e1, e2, e3, e4⟩ := ih _ _ _ _ _ _ _ _ _ _ h
        exact ⟨e1.trans (marks_forceFlush b).1, e2, fun _ => e3 (solid_forceFlush b), fun _ _ => e3 (solid_forceFlush b)⟩
      | cons c more =>
        simp only at h
        by_cases hnp : (taken.isEmpty && lw b.line = 0) = true
        · simp only [hnp, if_true] at h
          by_cases ho : b.overflow = true
          · rw [if_pos ho] at h
            obtain ⟨e1, e2, e3, e4⟩ := ih _ _ _ _ _ _ _ _ _ _ h
            exact ⟨e1.trans ((marks_forceFlush _).1.trans (marks_pushCells b [c])), e2, fun _ => e3 (solid_forceFlush _),
              fun _ _ => e3 (solid_forceFlush _)⟩
          · rw [if_neg ho] at h; simp at h
        · simp only [hnp, Bool.false_eq_true, if_false] at h
          obtain ⟨e1, e2, e3, e4⟩ := ih _ _ _ _ _ _ _ _ _ _ h
          exact ⟨e1.trans ((marks_forceFlush _).1.trans (marks_pushCells b taken)), e2, fun _ => e3 (solid_forceFlush _),
            fun _ _ => e3 (solid_forceFlush _)⟩
    · simp only [hgt, if_false] at h
      injection h with h
      simp only [Prod.mk.injEq] at h
      obtain ⟨rfl, _, _, _, rfl⟩ := h
      exact ⟨rfl, rfl, fun hs => hs, fun hm hf => by rw [hf] at hm; simp at hm⟩

theorem hardWrapPiece_marks (b b' : WB) (ll ll' : Nat) (piece : List Cell) (hne : piece ≠ [])
    (h : b.hardWrapPiece ll piece = .ok (b', ll')) : b'.marks = b.marks ∧ b'.word = b.word ∧ b'.Solid := by
  unfold WB.hardWrapPiece at h
  simp only at h
  cases hp : b.pieceLoop (cellsW piece) (piece.length + 2) ll 0 piece false with
  | error e => simp [hp, andThen] at h
  | ok r =>
    obtain ⟨b1, ll1, wpos1, rest1, moved1⟩ := r
    simp only [hp, andThen] at h
    obtain ⟨e1, e2, _, e4⟩ := pieceLoop_marks _ _ b ll 0 piece false b1 ll1 wpos1 rest1 moved1 hp
    by_cases hm : moved1 = false
    · simp only [hm, Bool.not_false, if_true] at h
      injection h with h; simp only [Prod.mk.injEq] at h; obtain ⟨rfl, _⟩ := h
      cases piece with
      | nil => exact absurd rfl hne
      | cons c cs => exact ⟨(marks_pushCells b1 _).trans e1, e2, solid_pushCells b1 c cs⟩
    · have hm' : moved1 = true := by simpa using hm
      have hs1 := e4 hm' rfl
      simp only [hm', Bool.not_true, Bool.false_eq_true, if_false] at h
      split at h
      · injection h with h; simp only [Prod.mk.injEq] at h; obtain ⟨rfl, _⟩ := h
        exact ⟨(marks_pushCells b1 _).trans e1, e2, solid_pushCells_of b1 rest1 hs1⟩
      · injection h with h; simp only [Prod.mk.injEq] at h; obtain ⟨rfl, _⟩ := h
        exact ⟨e1, e2, hs1⟩

/-- the markers among a word's items -/
def itemsMarks : List WItem → List (List Ch)
  | [] => []
  | .piece _ :: r => itemsMarks r
  | .frag n :: r => n :: itemsMarks r

def hasPiece : List WItem → Bool
  | [] => false
  | .piece _ :: _ => true
  | .frag _ :: r => hasPiece r

def piecesNonEmpty : List WItem → Prop
  | [] => True
  | .piece p :: r => p ≠ [] ∧ piecesNonEmpty r
  | .frag _ :: r => piecesNonEmpty r

theorem hardWrapGo_marks (ps : List WItem) : ∀ (b b' : WB) (ll : Nat), b.word = [] → piecesNonEmpty ps → b.hardWrapGo ll ps = .ok b' →
    b'.marks = b.marks ++ itemsMarks ps ∧ b'.word = [] ∧ (b.Solid ∨ hasPiece ps = true → b'.Solid) := by
  induction ps with
  | nil => intro b b' ll hw _ h; simp [WB.hardWrapGo] at h; subst h; exact ⟨by simp [itemsMarks], hw, fun hs => by simpa [hasPiece] using hs⟩
  | cons p ps ih =>
    intro b b' ll hw hne h
    cases p with
    | frag n =>
      simp only [WB.hardWrapGo] at h
      simp only [piecesNonEmpty] at hne
      obtain ⟨e1, e2, e3⟩ := ih _ b' ll (by exact hw) hne h
      refine ⟨?_, e2, ?_⟩
      · rw [e1]; simp [WB.marks, marks_append, marks, itemsMarks, hw]
      · intro hs
        apply e3
        rcases hs with hs | hs
        · left
          rcases hs with hs | hs
          · exact Or.inl hs
          · right
            simp only [TLine.noContent, List.any_append, Bool.not_eq_eq_eq_not, Bool.not_true, Bool.or_eq_false_iff] at hs ⊢
            simp only [TLine.noContent, Bool.not_eq_eq_eq_not, Bool.not_false] at hs
            simp [hs]
        · right; simpa [hasPiece] using hs
    | piece p =>
      simp only [WB.hardWrapGo] at h
      simp only [piecesNonEmpty] at hne
      cases hq : b.hardWrapPiece ll p with
      | error e => simp [hq] at h
      | ok r =>
        obtain ⟨b1, ll1⟩ := r
        simp only [hq] at h
        obtain ⟨a1, a2, a3⟩ := hardWrapPiece_marks b b1 ll ll1 p hne.1 hq
        obtain ⟨e1, e2, e3⟩ := ih b1 b' ll1 (a2.trans hw) hne.2 h
        exact ⟨by rw [e1, a1]; simp [itemsMarks], e2, fun _ => e3 (Or.inl a3)⟩

theorem itemsOf_facts (l : TLine) : itemsMarks (itemsOf l) = marks l ∧ piecesNonEmpty (itemsOf l) ∧
    (l.noContent = false → hasPiece (itemsOf l) = true) := by
  induction l with
  | nil => simp [itemsOf, itemsMarks, marks, piecesNonEmpty, TLine.noContent]
  | cons e es ih =>
    obtain ⟨i1, i2, i3⟩ := ih
    cases e with
    | frag n =>
      refine ⟨by simp [itemsOf, itemsMarks, marks] at i1 ⊢; exact i1, by simpa [itemsOf, piecesNonEmpty] using i2, ?_⟩
      intro hn
      have : TLine.noContent es = false := by simpa [TLine.noContent, Elt.isCell] using hn
      simpa [itemsOf, hasPiece] using i3 this
    | cell c =>
      simp only [itemsOf]
      split
      · rename_i p ps c' rest heq
        rw [heq] at i1 i2
        simp only [itemsMarks, piecesNonEmpty] at i1 i2
        split
        · exact ⟨by simpa [itemsMarks, marks] using i1, ⟨by simp, i2.2⟩, fun _ => rfl⟩
        · exact ⟨by simpa [itemsMarks, marks] using i1, ⟨by simp, i2⟩, fun _ => rfl⟩
      · exact ⟨by simpa [itemsMarks, marks] using i1, ⟨by simp, i2⟩, fun _ => rfl⟩

theorem hardWrap_marks (b b' : WB) (word : TLine) (hw : b.word = []) (hc : word.noContent = false) (h : b.hardWrap word = .ok b') :
    b'.marks = b.marks ++ marks word ∧ b'.word = [] ∧ b'.LineOk := by
  unfold WB.hardWrap at h
  split at h
  · simp at h
  · obtain ⟨f1, f2, f3⟩ := itemsOf_facts word
    obtain ⟨e1, e2, e3⟩ := hardWrapGo_marks _ b b' _ hw f2 h
    exact ⟨by rw [e1, f1], e2, Solid.lineOk (e3 (Or.inr (f3 hc)))⟩

theorem wsLoop_marks : ∀ (fuel : Nat) (b b' : WB), b.LineOk → b.wsLoop fuel = .ok b' → b'.marks = b.marks ∧ b'.LineOk ∧ b'.word = b.word := by
  intro fuel
  induction fuel with
  | zero => intro b b' _ h; simp [WB.wsLoop] at h
  | succ fuel ih =>
    intro b b' hl h
    simp only [WB.wsLoop] at h
    split at h
    · injection h with h; subst h; exact ⟨rfl, hl, rfl⟩
    · cases hst : b.spacetag with
      | none => simp [hst] at h
      | some t =>
        simp only [hst] at h
        have hmid : (if min b.wslen b.width = b.width then (b.pushWs (min b.wslen b.width) t).flushLine else b.pushWs (min b.wslen b.width) t).marks = b.marks ∧
            (if min b.wslen b.width = b.width then (b.pushWs (min b.wslen b.width) t).flushLine else b.pushWs (min b.wslen b.width) t).LineOk ∧
            (if min b.wslen b.width = b.width then (b.pushWs (min b.wslen b.width) t).flushLine else b.pushWs (min b.wslen b.width) t).word = b.word := by
          have hp := lineOk_pushWs b (min b.wslen b.width) t hl
          have hm := marks_pushWs b (min b.wslen b.width) t hl (Or.inr trivial)
          split
          · obtain ⟨a, c⟩ := marks_flushLine _ hp
            exact ⟨a.trans hm, c, by unfold WB.flushLine; split <;> rfl⟩
          · exact ⟨hm, hp, rfl⟩
        obtain ⟨e1, e2, e3⟩ := ih _ b' (by exact hmid.2.1) h
        exact ⟨e1.trans hmid.1, e2, e3.trans hmid.2.2⟩

theorem placeFits_marks (b b' : WB) (hc : b.word.noContent = false) (h : b.placeFits = .ok b') : b'.marks = b.marks ∧ b'.LineOk ∧ b'.word = [] := by
  have hcontent : ∀ (pre : TLine), (pre ++ b.word).noContent = false := by
    intro pre
    simp only [TLine.noContent, List.any_append, Bool.not_eq_eq_eq_not, Bool.not_false, Bool.or_eq_true] at hc ⊢
    exact Or.inr hc
  unfold WB.placeFits at h
  split at h
  · cases hs : b.spacetag with
    | none => simp [hs] at h
    | some t =>
      simp only [hs] at h; injection h with h; subst h
      exact ⟨by simp [WB.marks, WB.pushWs, marks_append, marks_spaces]; simp [marks], lineOk_of_content _ (hcontent _), rfl⟩
  · injection h with h; subst h
    exact ⟨by simp [WB.marks, marks_append, marks], lineOk_of_content _ (hcontent _), rfl⟩

theorem disposeWs_marks (b b' : WB) (m : WS) (hl : b.LineOk) (h : b.disposeWs m = .ok b') : b'.marks = b.marks ∧ b'.LineOk ∧ b'.word = b.word := by
  unfold WB.disposeWs at h
  split at h
  · split at h
    · injection h with h; subst h; exact ⟨rfl, hl, rfl⟩
    · split at h
      · cases hs : b.spacetag with
        | none => simp [hs] at h
        | some t =>
          simp only [hs] at h; injection h with h; subst h
          exact ⟨marks_pushWs b b.wslen t hl (Or.inr trivial), lineOk_pushWs b b.wslen t hl, rfl⟩
      · injection h with h; subst h; exact ⟨rfl, hl, rfl⟩
  · injection h with h; subst h; exact ⟨rfl, hl, rfl⟩

theorem startWordLine_marks (b b' : WB) (m : WS) (hl : b.LineOk) (h : b.startWordLine m = .ok b') :
    b'.marks = b.marks ∧ b'.LineOk ∧ b'.word = b.word := by
  unfold WB.startWordLine at h
  simp only at h
  obtain ⟨a1, a2⟩ := marks_flushLine b hl
  have a3 : b.flushLine.word = b.word := by unfold WB.flushLine; split <;> rfl
  generalize hb3 : (if m = .pre then { b.flushLine with preWrapped := true } else b.flushLine) = b3 at h
  have e3 : b3.marks = b.marks ∧ b3.LineOk ∧ b3.word = b.word := by
    rw [← hb3]; split
    · exact ⟨a1, a2, a3⟩
    · exact ⟨a1, a2, a3⟩
  cases h4 : b3.wsLoop (b3.wslen + 1) with
  | error e => simp [h4, andThen] at h
  | ok b4 =>
    simp only [h4, andThen] at h; injection h with h; subst h
    obtain ⟨c1, c2, c3⟩ := wsLoop_marks _ b3 b4 e3.2.1 h4
    exact ⟨c1.trans e3.1, c2, c3.trans e3.2.2⟩

theorem flushWord_marks' (b b' : WB) (m : WS) (hl : b.LineOk) (h : b.flushWord m = .ok b') :
    b'.marks = b.marks ∧ b'.LineOk ∧ (b.word.noContent = true → b'.word = b.word) ∧ (b.word.noContent = false → b'.word = []) := by
  unfold WB.flushWord at h
  split at h
  · rename_i hn; injection h with h; subst h; exact ⟨rfl, hl, fun _ => rfl, fun hc => by rw [hn] at hc; simp at hc⟩
  · rename_i hn
    have hc : b.word.noContent = false := by simpa using hn
    simp only at h
    split at h
    · simp at h
    · split at h
      · obtain ⟨p1, p2, p3⟩ := placeFits_marks ({ b with preWrapped := false } : WB) b' hc h
        exact ⟨p1, p2, fun hh => by rw [hc] at hh; simp at hh, fun _ => p3⟩
      · cases h1 : ({ b with preWrapped := false } : WB).disposeWs m with
        | error e => simp [h1, andThen] at h
        | ok b1 =>
          simp only [h1, andThen] at h
          obtain ⟨a1, a2, a3⟩ := disposeWs_marks _ b1 m (by exact hl) h1
          cases h2 : b1.startWordLine m with
          | error e => simp [h2] at h
          | ok b4 =>
            simp only [h2] at h
            obtain ⟨c1, c2, c3⟩ := startWordLine_marks b1 b4 m a2 h2
            cases h3 : ({ b4 with word := [], wordlen := 0 } : WB).hardWrap b.word with
            | error e => simp [h3] at h
            | ok b5 =>
              simp only [h3] at h; injection h with h; subst h
              obtain ⟨d1, d2, d3⟩ := hardWrap_marks _ b5 b.word rfl hc h3
              refine ⟨?_, d3, fun hh => by rw [hc] at hh; simp at hh, fun _ => d2⟩
              show b5.marks = b.marks
              rw [d1]
              have hb4 : b4.marks = b.marks := c1.trans a1
              have hw4 : b4.word = b.word := c3.trans a3
              simp only [WB.marks] at hb4 ⊢
              rw [hw4] at hb4
              simpa [marks] using hb4

theorem flushWord_marks (b b' : WB) (m : WS) (hl : b.LineOk) (h : b.flushWord m = .ok b') : b'.marks = b.marks ∧ b'.LineOk :=
  ⟨(flushWord_marks' b b' m hl h).1, (flushWord_marks' b b' m hl h).2.1⟩

theorem tabLoop_marks (tag : Tag) : ∀ (fuel : Nat) (b b' : WB) (pos : Nat) (one : Bool), b.LineOk → b.tabLoop tag pos one fuel = .ok b' →
    b'.marks = b.marks ∧ b'.LineOk := by
  intro fuel
  induction fuel with
  | zero => intro b b' pos one _ h; simp [WB.tabLoop] at h
  | succ fuel ih =>
    intro b b' pos one hl h
    simp only [WB.tabLoop] at h
    split at h
    · split at h
      · obtain ⟨a1, a2⟩ := marks_flushLine b hl
        obtain ⟨e1, e2⟩ := ih _ b' _ _ a2 h
        exact ⟨e1.trans a1, e2⟩
      · have hl2 : ({ b with line := b.line ++ [spc tag], linelen := b.linelen + 1 } : WB).LineOk :=
          lineOk_of_content _ (by simp [TLine.noContent, spc, Elt.isCell])
        obtain ⟨e1, e2⟩ := ih _ b' _ _ hl2 h
        exact ⟨by rw [e1]; simp [WB.marks, marks_append, marks, spc], e2⟩
    · injection h with h; subst h; exact ⟨rfl, hl⟩

theorem addChar_marks (b b' : WB) (m : WS) (mt wt : Tag) (cur cur' : Bool) (c : Ch) (hl : b.LineOk)
    (h : b.addChar m mt wt cur c = .ok (b', cur')) : b'.marks = b.marks ∧ b'.LineOk := by
  unfold WB.addChar at h
  simp only at h
  generalize hr : (if (c.ws && !b.word.noContent) = true then b.flushWord m else Except.ok b) = r at h
  cases r with
  | error e => simp at h
  | ok b1 =>
    simp only at h
    have e1 : b1.marks = b.marks ∧ b1.LineOk := by
      split at hr
      · exact flushWord_marks b b1 m hl hr
      · injection hr with hr; subst hr; exact ⟨rfl, hl⟩
    by_cases hws : c.ws = true
    · simp only [hws, if_true] at h
      split at h
      · split at h
        · injection h with h; simp only [Prod.mk.injEq] at h; obtain ⟨rfl, _⟩ := h
          obtain ⟨a1, a2⟩ := marks_forceFlush b1
          exact ⟨a1.trans e1.1, a2⟩
        · split at h
          · cases ht : b1.tabLoop (if cur = true then wt else mt) (b1.linelen + b1.wslen) false (2 * b1.width + 20) with
            | error e => simp [ht] at h
            | ok bt =>
              simp only [ht] at h; injection h with h; simp only [Prod.mk.injEq] at h; obtain ⟨rfl, _⟩ := h
              obtain ⟨a1, a2⟩ := tabLoop_marks _ _ b1 _ _ _ e1.2 ht
              exact ⟨a1.trans e1.1, a2⟩
          · split at h
            · injection h with h; simp only [Prod.mk.injEq] at h; obtain ⟨rfl, _⟩ := h; exact e1
            · split at h
              · have hf := marks_flushLine ({ b1 with wslen := 0 } : WB) e1.2
                split at h
                · injection h with h; simp only [Prod.mk.injEq] at h; obtain ⟨rfl, _⟩ := h
                  exact ⟨hf.1.trans e1.1, hf.2⟩
                · injection h with h; simp only [Prod.mk.injEq] at h; obtain ⟨rfl, _⟩ := h
                  exact ⟨hf.1.trans e1.1, hf.2⟩
              · injection h with h; simp only [Prod.mk.injEq] at h; obtain ⟨rfl, _⟩ := h; exact e1
      · split at h <;> (injection h with h; simp only [Prod.mk.injEq] at h; obtain ⟨rfl, _⟩ := h; exact e1)
    · have hws' : c.ws = false := by simpa using hws
      simp only [hws', Bool.false_eq_true, if_false] at h
      split at h
      · injection h with h; simp only [Prod.mk.injEq] at h; obtain ⟨rfl, _⟩ := h; exact e1
      · injection h with h; simp only [Prod.mk.injEq] at h; obtain ⟨rfl, _⟩ := h
        refine ⟨?_, e1.2⟩
        rw [← e1.1]
        simp [WB.marks, marks_append, marks]

theorem addTextGo_marks (m : WS) (mt wt : Tag) (cs : List Ch) : ∀ (b b' : WB) (cur : Bool), b.LineOk → b.addTextGo m mt wt cur cs = .ok b' →
    b'.marks = b.marks ∧ b'.LineOk := by
  induction cs with
  | nil => intro b b' cur hl h; simp [WB.addTextGo] at h; subst h; exact ⟨rfl, hl⟩
  | cons c cs ih =>
    intro b b' cur hl h
    simp only [WB.addTextGo] at h
    cases hc : b.addChar m mt wt cur c with
    | error e => simp [hc] at h
    | ok r =>
      obtain ⟨b1, cur1⟩ := r
      simp only [hc] at h
      obtain ⟨a1, a2⟩ := addChar_marks b b1 m mt wt cur cur1 c hl hc
      obtain ⟨e1, e2⟩ := ih b1 b' cur1 a2 h
      exact ⟨e1.trans a1, e2⟩

/-- **`add_text` conserves markers** (every mode, with or without overflow) -/
theorem addText_marks (b b' : WB) (m : WS) (mt wt : Tag) (cs : List Ch) (hl : b.LineOk) (h : b.addText m mt wt cs = .ok b') :
    b'.marks = b.marks ∧ b'.LineOk := by
  unfold WB.addText WB.zeroGuard at h
  split at h
  · split at h
    · simp only [andThen] at h
      have := addTextGo_marks m mt wt cs ({ b with width := 1 } : WB) b' _ (by exact hl) h
      exact ⟨by simpa [WB.marks] using this.1, this.2⟩
    · split at h
      · simp [andThen] at h
      · simp only [andThen] at h
        exact addTextGo_marks m mt wt cs _ b' _ hl h
  · simp only [andThen] at h
    exact addTextGo_marks m mt wt cs _ b' _ hl h

/-- recording a marker adds exactly it, at the end -/
theorem addElement_marks (b : WB) (n : List Ch) : (b.addElement (.frag n)).marks = b.marks ++ [n] ∧ ((b.addElement (.frag n)).LineOk ↔ b.LineOk) := by
  constructor
  · simp [WB.marks, WB.addElement, marks_append, marks]
  · rfl

/-- **`into_lines` emits every marker** that is not waiting in a text-less pending word: when the pending word is empty
    or has text (the sub-renderer takes a text-less word's markers aside before calling it) the emitted lines hold
    exactly the block's markers, in order -/
theorem finish_marks (b : WB) (ls : List TLine) (hl : b.LineOk) (hw : b.word.noContent = true → b.word = []) (h : b.finish = .ok ls) :
    ls.flatMap marks = b.marks := by
  unfold WB.finish at h
  cases hf : b.flushWord .normal with
  | error e => simp [hf, andThen] at h
  | ok b1 =>
    simp only [hf, andThen] at h; injection h with h; subst h
    obtain ⟨m1, m2, m3, m4⟩ := flushWord_marks' b b1 .normal hl hf
    have hword1 : b1.word = [] := by
      cases hc : b.word.noContent with
      | true => rw [m3 hc]; exact hw hc
      | false => exact m4 hc
    obtain ⟨a1, a2⟩ := marks_flushLine b1 m2
    have hword : b1.flushLine.word = [] := by
      unfold WB.flushLine; split <;> exact hword1
    have hnc := flushLine_line_noContent b1
    have key : (rescueMarks b1.flushLine.text b1.flushLine.line).flatMap marks = b1.flushLine.marks := by
      have hm0 : marks ([] : TLine) = [] := rfl
      simp only [WB.marks, hword, hm0, List.append_nil]
      rcases a2 hnc with h0 | h0
      · rw [h0]
        unfold rescueMarks
        split
        · rename_i last hlast
          rw [List.append_nil, dropLast_append_of_getLast? _ last hlast]; simp [hm0]
        · simp [hm0]
      · unfold rescueMarks
        split
        · rename_i last hlast
          have ht := (dropLast_append_of_getLast? _ last hlast).symm
          conv => rhs; rw [ht]
          simp [marks_append]
        · rename_i hnone
          have : b1.flushLine.text = [] := by
            cases hh : b1.flushLine.text with
            | nil => rfl
            | cons x xs => rw [hh] at hnone; simp [List.getLast?] at hnone
          exact absurd this h0
    rw [key, a1, m1]

end H2T
