//! Regular-table generator and grid parser shared by C05 and C06.

use crate::obs::{cw, line_text, Obs};
use crate::util::R;

#[derive(Clone, Debug)]
pub struct TCell {
    pub span: usize,
    /// unique token (empty string = empty cell)
    pub token: String,
    pub html: String,
    pub nested: bool,
}
#[derive(Clone, Debug)]
pub struct Table {
    pub cols: usize,
    pub rows: Vec<Vec<TCell>>,
    pub thead: bool,
}

/// all ways to tile `cols` columns with spans
pub fn tilings(cols: usize) -> Vec<Vec<usize>> {
    if cols == 0 {
        return vec![vec![]];
    }
    let mut out = Vec::new();
    for first in 1..=cols {
        for mut rest in tilings(cols - first) {
            let mut v = vec![first];
            v.append(&mut rest);
            out.push(v);
        }
    }
    out
}

pub fn cell_content(r: &mut R, class: u64, tok: &str, nested_ok: bool) -> (String, bool) {
    match class {
        0 => (String::new(), false),
        1 => (tok.to_string(), false),
        2 => (format!("{tok} lorem ipsum dolor sit amet consectetur"), false),
        3 => (format!("{tok}<br>second line<p>para</p>"), false),
        4 => (format!("{tok}字字 日本"), false),
        5 if nested_ok => {
            let inner = format!("<table><tr><td>{tok}</td><td>nb</td></tr><tr><td>nc</td><td>nd</td></tr></table>");
            (inner, true)
        }
        _ => (format!("{tok} {}", ["x", "yy zz", "<em>em</em>", "<ul><li>li</li></ul>"][r.u(4)]), false),
    }
}

pub fn gen_table(r: &mut R, max_rows: usize, max_cols: usize, classes: u64, nested_ok: bool) -> Table {
    let cols = 1 + r.u(max_cols);
    let nrows = 1 + r.u(max_rows);
    let tl = tilings(cols);
    let mut rows = Vec::new();
    let mut n = 0;
    for _ in 0..nrows {
        let spans = if r.p(55) { vec![1; cols] } else { tl[r.u(tl.len())].clone() };
        let mut row = Vec::new();
        for s in spans {
            let tok = crate::gen::token_name(n) + "y";
            n += 1;
            let class = r.b(classes);
            let (html, nested) = cell_content(r, class, &tok, nested_ok);
            row.push(TCell { span: s, token: if class == 0 { String::new() } else { tok }, html, nested });
        }
        rows.push(row);
    }
    Table { cols, rows, thead: r.p(25) }
}

/// a table with one or more columns that are empty in every row, and short tokens elsewhere
pub fn gen_sparse_table(r: &mut R) -> Table {
    let cols = 2 + r.u(6);
    let nrows = 1 + r.u(2);
    let mut empty: Vec<bool> = (0..cols).map(|_| r.p(45)).collect();
    if empty.iter().all(|e| *e) {
        empty[0] = false;
    }
    if !empty.iter().any(|e| *e) {
        let k = r.u(cols);
        empty[k] = true;
        if empty.iter().all(|e| *e) {
            empty[(k + 1) % cols] = false;
        }
    }
    let mut n = 0;
    // in half of the tables, runs of empty columns may be covered by one empty spanning cell (still a regular table: the
    // row spans the same columns) — such a cell has no width of its own and must vanish with its columns (added after the
    // seeded change C05-colspan-over-empty-columns-phantom-width was missed)
    let merge = r.p(50);
    let rows = (0..nrows)
        .map(|_| {
            let mut row = Vec::new();
            let mut c = 0;
            while c < cols {
                if empty[c] {
                    let mut k = 1;
                    while c + k < cols && empty[c + k] {
                        k += 1;
                    }
                    let span = if merge && k >= 2 && r.p(60) { 2 + r.u(k - 1) } else { 1 };
                    row.push(TCell { span, token: String::new(), html: if span > 1 && r.p(25) { " ".into() } else { String::new() }, nested: false });
                    c += span;
                } else {
                    let mut tok = crate::gen::token_name(n);
                    n += 1;
                    tok.truncate(1 + r.u(2));
                    tok.push('y');
                    row.push(TCell { span: 1, token: tok.clone(), html: tok, nested: false });
                    c += 1;
                }
            }
            row
        })
        .collect();
    Table { cols, rows, thead: false }
}

impl Table {
    pub fn html(&self) -> String {
        let mut s = String::from("<table>");
        for (i, row) in self.rows.iter().enumerate() {
            if self.thead && i == 0 {
                s.push_str("<thead>");
            }
            if self.thead && i == 1 {
                s.push_str("<tbody>");
            }
            s.push_str("<tr>");
            for c in row {
                let tag = if self.thead && i == 0 { "th" } else { "td" };
                if c.span > 1 {
                    s.push_str(&format!("<{tag} colspan={}>{}</{tag}>", c.span, c.html));
                } else {
                    s.push_str(&format!("<{tag}>{}</{tag}>", c.html));
                }
            }
            s.push_str("</tr>");
            if self.thead && i == 0 {
                s.push_str("</thead>");
            }
        }
        if self.thead && self.rows.len() > 1 {
            s.push_str("</tbody>");
        }
        s.push_str("</table>");
        s
    }
    pub fn has_nested(&self) -> bool {
        self.rows.iter().any(|r| r.iter().any(|c| c.nested))
    }
    /// encoding for `aux`: cols;thead;rows as span:token:nested,... joined by '/'
    pub fn encode(&self) -> String {
        format!(
            "{};{};{}",
            self.cols,
            self.thead as u8,
            self.rows.iter().map(|r| r.iter().map(|c| format!("{}:{}:{}", c.span, c.token, c.nested as u8)).collect::<Vec<_>>().join(",")).collect::<Vec<_>>().join("/")
        )
    }
    pub fn decode(s: &str) -> Option<Table> {
        let mut it = s.splitn(3, ';');
        let cols = it.next()?.parse().ok()?;
        let thead = it.next()? == "1";
        let rows = it
            .next()?
            .split('/')
            .map(|r| {
                r.split(',')
                    .filter(|x| !x.is_empty())
                    .filter_map(|c| {
                        let f: Vec<&str> = c.split(':').collect();
                        Some(TCell { span: f.first()?.parse().ok()?, token: f.get(1)?.to_string(), html: String::new(), nested: *f.get(2)? == "1" })
                    })
                    .collect()
            })
            .collect();
        Some(Table { cols, rows, thead })
    }
    /// a column no single-span cell with text touches, inside some colspan: the unchanged library may give it
    /// zero width (DESIGN §8 #8/#9)
    pub fn has_weak_column(&self) -> bool {
        (0..self.cols).any(|col| {
            let mut covered_by_span = false;
            let mut has_own_text = false;
            for row in &self.rows {
                let mut c0 = 0;
                for c in row {
                    if col >= c0 && col < c0 + c.span {
                        if c.span > 1 {
                            covered_by_span = true;
                        } else if !c.token.is_empty() {
                            has_own_text = true;
                        }
                    }
                    c0 += c.span;
                }
            }
            covered_by_span && !has_own_text
        })
    }
}

pub const HGLYPHS: &[char] = &['─', '┬', '┴', '┼'];

/// the output as a grid of display columns: wide characters occupy two cells (second = '\0'), zero-width ones none
pub fn grid(o: &Obs) -> Option<Vec<Vec<char>>> {
    let ls = o.lines()?;
    Some(
        ls.iter()
            .map(|l| {
                let mut row = Vec::new();
                for c in line_text(l).chars() {
                    match cw(c) {
                        0 => {}
                        1 => row.push(c),
                        _ => {
                            row.push(c);
                            row.push('\0');
                        }
                    }
                }
                row
            })
            .collect(),
    )
}

pub fn is_rule(row: &[char]) -> bool {
    !row.is_empty() && row.iter().all(|c| HGLYPHS.contains(c))
}
pub fn is_vsep(row: &[char]) -> bool {
    !row.is_empty() && row.iter().all(|c| *c == '/')
}
