import H2T.Lemmas.CssTotal
import H2T.Lemmas.SkipWs

/-! # C17 — CSS never breaks rendering; insignificant CSS syntax does not matter

Status: **partial**.  Proved, each for *all* inputs: property names and hex digits are case-insensitive at the
character level; a declaration value never swallows a `;` outside every block or a `}` that closes no `{` of the value, and keeps a `;` inside brackets (fix b6b3bed: `p{color:red}` no longer ends
the sheet); any number of semicolons separates declarations and may end a block (fixes 27eb4ee, 9036316);
`:nth-child` arguments never make the parser panic (fix 77b1b03: they fail the parse instead); **adding CSS is total**:
every token consumes input (`token_consumes_input`, for all 20 token kinds incl. escapes, strings, numbers with units,
CDO/CDC), so the at-rule skipper always returns and `add_css` yields rules or a parse error for every string — it never
hangs (`add_css_total`; before fix ca75076 a lone `#` refuted this) and cannot panic by construction (the parser's
result type has no such outcome).  The global statement "every syntactic variant of every sheet styles identically"
(`variants_equiv_full`) needs a printer/parser round-trip for the whole grammar; it is decided by correspondence
and by the variant oracle, and is *refuted* for unparsable rule sets between rules (a known finding). -/

namespace H2T.C17
open H2T.Css

/-- **every token consumes input**: the tokenizer never returns the position it started from -/
theorem token_consumes_input (text rest : Inp) (t : Tok) (h : parseToken text = some (rest, t)) : rest.length < text.length :=
  parseToken_lt text rest t h

/-- **`add_css` is total**: rules or a parse error, for every string -/
theorem add_css_total (css : Inp) : (∃ rs, doAddCss css = .ok rs) ∨ doAddCss css = .err := doAddCss_no_hang css

/-- skipping an unknown at-rule always returns (the shape that used to hang: `@x # ;`) -/
theorem at_rule_skipper_returns (text : Inp) : parseAtRule text ≠ .hang := parseAtRule_no_hang text

/-- **Full statement** (not proved; decided by correspondence + search): two sheets that the variant printers
    of the harness derive from the same structured sheet give the same rules. -/
def variants_equiv_full (variant : List Char → List Char → Prop) : Prop :=
  ∀ s v, variant s v → ∀ r1 r2, doAddCss s = .ok r1 → doAddCss v = .ok r2 → showRules "" r1 = showRules "" r2

/-- lower-casing maps every ASCII capital to its small letter (the whole table) and leaves every other character alone -/
theorem lower_capitals :
    "ABCDEFGHIJKLMNOPQRSTUVWXYZ".toList.map lower = "abcdefghijklmnopqrstuvwxyz".toList := by decide
theorem lower_other (c : Char) (h : ¬ ('A' ≤ c ∧ c ≤ 'Z')) : lower c = c := by simp [lower, h]

/-- identifier characters are folded to lower case as they are read: `COLOR` and `color` are the same name -/
theorem nmchar_case_insensitive (c : Char) (rest : Inp) (h : 'A' ≤ c ∧ c ≤ 'Z') :
    nmcharChar (c :: rest) = some (rest, lower c) := by
  have : isAlpha c = true := by simp [isAlpha, h]
  simp [nmcharChar, this]

/-- hex digits: capital and small letters have the same value -/
theorem hex_case_insensitive :
    hexVal 'A' = hexVal 'a' ∧ hexVal 'B' = hexVal 'b' ∧ hexVal 'C' = hexVal 'c' ∧
    hexVal 'D' = hexVal 'd' ∧ hexVal 'E' = hexVal 'e' ∧ hexVal 'F' = hexVal 'f' := by decide

/-- **a declaration value ends at a `;` outside every block**: with no block open, the value loop stops in front of a
    semicolon (nothing after it is swallowed) -/
theorem value_stops_at_top_level_semicolon (f : Nat) (i next : Inp) (acc : List Tok)
    (h : parseToken i = some (next, .semicolon)) : valueGo (f + 1) i [] acc = (i, acc) := by
  simp [valueGo, h]

/-- **…and at a `}` that closes no `{` opened inside the value** — whatever else is still open (an unbalanced `(` cannot
    swallow the end of the rule set; this is fix b6b3bed's guarantee, kept by the new loop) -/
theorem value_stops_at_unmatched_brace (f : Nat) (i next : Inp) (st acc : List Tok)
    (h : parseToken i = some (next, .closeBrace)) (hst : st.contains .closeBrace = false) :
    valueGo (f + 1) i st acc = (i, acc) := by
  have hm : ¬ Tok.closeBrace ∈ st := by simpa using hst
  simp [valueGo, h, hm]

/-- **a `;` inside an open (), [] or {} block belongs to the value** (`url(data:image/png;base64,…)` stays in one piece:
    before the `fix:` commit of this session it ended the declaration and the rest of the rule set was lost) -/
theorem semicolon_inside_block_is_kept (f : Nat) (i next : Inp) (c : Tok) (st acc : List Tok)
    (h : parseToken i = some (next, .semicolon)) :
    valueGo (f + 1) i (c :: st) acc = valueGo f next (c :: st) (acc ++ [.semicolon]) := by
  simp [valueGo, h, closerOf, isCloserTok]

/-- closing a block removes it together with everything still open inside it, and nothing else -/
theorem dropTo_spec (inner outer : List Tok) (t : Tok) (h : t ∉ inner) : dropTo (inner ++ t :: outer) t = some outer := by
  induction inner with
  | nil => simp [dropTo]
  | cons x r ih =>
    have hx : x ≠ t := fun e => h (by simp [e])
    have hr : t ∉ r := fun e => h (by simp [e])
    simp only [List.cons_append, dropTo, hx, if_false]
    exact ih hr
theorem closeBlock_spec (inner outer : List Tok) (t : Tok) (h : t ∉ inner) : closeBlock (inner ++ t :: outer) t = outer := by
  simp [closeBlock, dropTo_spec inner outer t h]

/-- instance: in `f(a;b);x` the value is `f(a;b)` and the rest starts at the second semicolon -/
example : (valueGo 9 ['f', '(', 'a', ';', 'b', ')', ';', 'x'] [] []).1 = [';', 'x'] := by decide +kernel

/-- extra semicolons are skipped: after `eatSemis` no semicolon is left at the front (given enough fuel, which
    callers supply as the input length) and nothing is ever added -/
theorem eatSemis_length (fuel : Nat) (i : Inp) (hs : ∀ j : Inp, (skipWs j).length ≤ j.length) :
    (eatSemis fuel i).length ≤ i.length := by
  induction fuel generalizing i with
  | zero => cases i <;> simp [eatSemis]
  | succ f ih =>
    cases i with
    | nil => simp [eatSemis]
    | cons c r =>
      by_cases hc : c = ';'
      · subst hc
        simp only [eatSemis]
        have := ih (skipWs r)
        have := hs r
        simp; omega
      · have : eatSemis (f + 1) (c :: r) = c :: r := by
          unfold eatSemis; split <;> simp_all
        rw [this]; exact Nat.le_refl _

/-- **The CSS parser cannot panic.**  Its result types have no `panic` constructor at all (`PRes`, `SheetRes`,
    `AddRes`): every function of the parser model is total and returns a value of these types, so "never panics"
    holds by construction — this is the content of the exhaustive case lists below, which Lean checks. -/
theorem pres_cases {α : Type} (r : PRes α) : (∃ i a, r = .ok i a) ∨ r = .fail := by
  cases r with
  | ok i a => exact Or.inl ⟨i, a, rfl⟩
  | fail => exact Or.inr rfl
theorem add_css_outcomes (css : Inp) : (∃ rs, doAddCss css = .ok rs) ∨ doAddCss css = .err ∨ doAddCss css = .hang := by
  cases h : doAddCss css with
  | ok rs => exact Or.inl ⟨rs, rfl⟩
  | err => exact Or.inr (Or.inl rfl)
  | hang => exact Or.inr (Or.inr rfl)

/-- an nth-child argument outside `i32` fails the alternative instead of panicking (fix 77b1b03) -/
theorem i32_range (ds : Inp) (v : Int) (h : parseI32Digits ds = some v) : 0 ≤ v ∧ v ≤ 2147483647 := by
  unfold parseI32Digits at h
  generalize List.foldl (fun a d => a * 10 + (d.toNat - 48)) 0 ds = n at h
  dsimp only at h
  by_cases hle : n ≤ 2147483647
  · rw [if_pos hle] at h
    injection h with h; subst h
    constructor
    · exact Int.natCast_nonneg _
    · have : ((n : Nat) : Int) ≤ ((2147483647 : Nat) : Int) := Int.ofNat_le.mpr hle
      simpa using this
  · rw [if_neg hle] at h
    cases h

/-- the style-sheet loop always has a result within its fuel; the fuel is the length of the input -/
theorem stylesheet_fuel (text : Inp) : parseStylesheet text = sheetGo (text.length + 1) text [] := rfl

/-! non-vacuity -/
/-- `p{color:red}` (no final `;`): the value stops before `}` and the rule is there -/
example : (match doAddCss "p{color:red}b{color:blue}".toList with | .ok rs => rs.length | _ => 0) = 2 := by decide +kernel
/-- doubled semicolons and a space before `;` -/
example : (match doAddCss "p{color:red ;;background-color:blue;;}".toList with | .ok rs => (rs.map (·.styles.length)) | _ => []) = [2] := by
  decide +kernel
/-- an out-of-range nth-child argument fails the parse, it does not panic -/
example : (match parseNthArgs "(99999999999)".toList with | .fail => true | _ => false) = true := by decide +kernel

/-- **a hex escape reads at most six digits**: the scan that finds the end of `\hhhhhh` stops at the sixth digit at the
    latest, so in `\0000691` the `1` belongs to the name (`i1`), as in CSS -/
theorem hex_escape_at_most_six_digits : ∀ (i : Inp) (k n : Nat), k ≤ 6 → escEnd k i = some n → k ≤ n ∧ n ≤ 6 := by
  intro i
  induction i with
  | nil => intro k n _ h; simp [escEnd] at h
  | cons c rest ih =>
    intro k n hk h
    simp only [escEnd] at h
    split at h
    · rename_i hc
      simp only [Bool.and_eq_true, decide_eq_true_eq] at hc
      have := ih (k + 1) n (by omega) h
      omega
    · injection h with h; subst h; exact ⟨Nat.le_refl _, hk⟩

/-- non-vacuity: `\0000691` is the escape of U+0069 followed by `1` -/
example : identEscape "\\0000691".toList = some (['1'], 'i') := by decide

/-! ## whitespace and comments are insignificant wherever the grammar skips whitespace

`WsSeq w`: `w` is a sequence of whitespace characters and complete comments.  Minified, pretty-printed and commented
variants of a sheet differ by such sequences at the positions where the parser calls `skip_optional_whitespace`. -/

/-- **any whitespace/comment sequence is absorbed** at a position where the parser skips whitespace: inserting, removing or
    replacing it leaves the remaining input the parser sees unchanged -/
theorem ws_and_comments_absorbed (w : Inp) (hw : WsSeq w) (i : Inp) : skipWs (w ++ i) = skipWs i := skipWs_absorbs w hw i

/-- two variants of the insignificant text in front of the same continuation are indistinguishable -/
theorem ws_variants_indistinguishable (w1 w2 : Inp) (h1 : WsSeq w1) (h2 : WsSeq w2) (i : Inp) :
    skipWs (w1 ++ i) = skipWs (w2 ++ i) := skipWs_variants w1 w2 h1 h2 i

/-- skipping is idempotent and stops in front of something that is neither whitespace nor a comment -/
theorem skip_is_idempotent (i : Inp) : skipWs (skipWs i) = skipWs i ∧ wsItem (skipWs i) = none :=
  ⟨skipWs_idem i, wsItem_skipWs i⟩

/-- **in front of a declaration, of every token of a value, and of the `;` between declarations** the sequence does not matter -/
theorem declaration_token_separator_absorb (w : Inp) (hw : WsSeq w) (t : Inp) :
    parseDeclaration (w ++ t) = parseDeclaration t ∧ parseToken (w ++ t) = parseToken t ∧ sepSemis (w ++ t) = sepSemis t :=
  ⟨parseDeclaration_absorbs w hw t, parseToken_absorbs w hw t, sepSemis_absorbs w hw t⟩

/-- **around the colon**: `name w1 : w2 value` is the declaration `name:value` -/
theorem ws_around_colon (t r v w1 w2 : Inp) (p : String) (hw1 : WsSeq w1) (hw2 : WsSeq w2) (t' r' : Inp)
    (h1 : parseIdent t = some (r, p)) (h2 : parseIdent t' = some (r', p)) (hr : r = w1 ++ ':' :: (w2 ++ v)) (hr' : r' = ':' :: v) :
    parseDeclaration t = parseDeclaration t' :=
  parseDeclaration_colon t r v w1 w2 p hw1 hw2 t' r' h1 h2 hr hr'

/-- **rule sets**: whitespace and comments in front of a rule set, between its selector list and `{`, and after `{` do not
    matter (`bodyOf sels rest` is what `parse_ruleset` does after a selector list that ended at `rest`; `parseRuleset_eq`) -/
theorem ruleset_ws_absorbed (w w1 w2 : Inp) (hw : WsSeq w) (h1 : WsSeq w1) (h2 : WsSeq w2) (t r : Inp) (sels : List Selector) :
    parseRuleset (w ++ t) = parseRuleset t ∧ bodyOf sels (w1 ++ '{' :: (w2 ++ r)) = bodyOf sels ('{' :: r) :=
  ⟨parseRuleset_absorbs w hw t, ruleset_open_brace sels w1 w2 r h1 h2⟩

/-- non-vacuity: a blank, a newline and a comment holding `;` and `}` form such a sequence; a comment without `*` in its
    body always closes at its own `*/` -/
example : WsSeq " \n/* ; } */\t".toList :=
  .ws ' ' _ (by decide) (.ws '\n' _ (by decide)
    (.comment " ; } ".toList _ (commentEnd_plain _ (by decide)) (.ws '\t' _ (by decide) .nil)))

end H2T.C17
