import H2T.Lemmas.FitsTable

/-! C05, one row: every line a side-by-side row adds — its text lines and its bottom border — has exactly the same display
    width, the sum of the cells' widths plus one separator between neighbours; each cell's contribution to a text line
    is exactly as wide as the cell, so the separators stand at the same positions on every line of the row. -/

namespace H2T

/-- a line set whose lines are exactly as wide as the cell -/
def SetEq (st : Nat × List RLine) : Prop := ∀ l ∈ st.2, rlw l = st.1

theorem SetEq.ok {st : Nat × List RLine} (h : SetEq st) : SetOk st := fun l hl => Nat.le_of_eq (h l hl)

theorem padLine_exact (tag : Tag) (w : Nat) (l : RLine) (h : rlw l ≤ w) : rlw (padLine tag w l) = w := by
  cases l with
  | text tl =>
    simp only [rlw] at h
    simp only [padLine, rlw, lw_append, lw_replicate_spc]; omega
  | rule b t =>
    simp only [rlw] at h
    simp only [padLine, rlw, stretch_length]; omega

theorem colSets_exact (ann : Tag) : ∀ (cols : List SubR) (sets : List (Nat × List RLine)), (∀ c ∈ cols, c.Fits) →
    colSets ann cols = .ok sets → (∀ st ∈ sets, SetEq st) ∧ sets.map (·.1) = cols.map (·.width) := by
  intro cols
  induction cols with
  | nil => intro sets _ h; simp [colSets] at h; subst h; exact ⟨by simp, rfl⟩
  | cons c cs ih =>
    intro sets hf h
    simp only [colSets] at h
    cases h1 : c.intoLines with
    | error e => simp [h1, andThen] at h
    | ok ls =>
      simp only [h1, andThen] at h
      cases h2 : colSets ann cs with
      | error e => simp [h2] at h
      | ok r =>
        simp only [h2] at h; injection h with h; subst h
        obtain ⟨a, b⟩ := ih r (fun x hx => hf x (by simp [hx])) h2
        refine ⟨?_, by simp [b]⟩
        intro st hst
        simp only [List.mem_cons] at hst
        rcases hst with rfl | hst
        · intro l hl
          simp only [List.mem_map] at hl
          obtain ⟨l0, hl0, rfl⟩ := hl
          exact padLine_exact _ _ _ (intoLines_fit c ls (hf c (by simp)) h1 l0 hl0)
        · exact a st hst

/-! ## border lengths, exactly -/

theorem joinAbove_len (b : Border) (x : Nat) (h : x < b.length) : (b.joinAbove x).length = b.length := by
  simp [Border.joinAbove, stretch_length]; omega
theorem joinBelow_len (b : Border) (x : Nat) (h : x < b.length) : (b.joinBelow x).length = b.length := by
  simp [Border.joinBelow, stretch_length]; omega

theorem foldl_join_len (f : Border → Nat → Border) (hf : ∀ b x, x < b.length → (f b x).length = b.length) (js : List Nat) :
    ∀ (b : Border), (∀ x ∈ js, x < b.length) → (js.foldl f b).length = b.length := by
  induction js with
  | nil => intro b _; rfl
  | cons j js ih =>
    intro b hj
    have h1 := hf b j (hj j (by simp))
    simp only [List.foldl_cons]
    rw [ih (f b j) (fun x hx => by rw [h1]; exact hj x (by simp [hx])), h1]

theorem mergeFold_len (f : Border → Nat → Border) (hf : ∀ b x, x < b.length → (f b x).length = b.length)
    (pos : Nat) (l : List (Seg × Nat)) : ∀ (b : Border), (∀ p ∈ l, p.2 + pos < b.length) →
    (l.foldl (fun acc (p : Seg × Nat) => if p.1.isJoin then f acc (p.2 + pos) else acc) b).length = b.length := by
  induction l with
  | nil => intro b _; rfl
  | cons p l ih =>
    intro b hp
    simp only [List.foldl_cons]
    have h1 : (if p.1.isJoin then f b (p.2 + pos) else b).length = b.length := by
      split
      · exact hf b _ (hp p (by simp))
      · rfl
    rw [ih _ (fun q hq => by rw [h1]; exact hp q (by simp [hq])), h1]

theorem mergeFromBelow_len (b other : Border) (pos : Nat) (ho : other.length + pos ≤ b.length) :
    (b.mergeFromBelow other pos).length = b.length := by
  unfold Border.mergeFromBelow
  exact mergeFold_len Border.joinBelow joinBelow_len pos other.zipIdx b (by
    intro p hp
    obtain ⟨sg, i⟩ := p
    have := List.mem_zipIdx hp
    simp at this ⊢; omega)

theorem mergeFromAbove_len (b other : Border) (pos : Nat) (ho : other.length + pos ≤ b.length) :
    (b.mergeFromAbove other pos).length = b.length := by
  unfold Border.mergeFromAbove
  exact mergeFold_len Border.joinAbove joinAbove_len pos other.zipIdx b (by
    intro p hp
    obtain ⟨sg, i⟩ := p
    have := List.mem_zipIdx hp
    simp at this ⊢; omega)

/-! ## collapsing keeps exactness -/

theorem collapseTop_exact : ∀ (sets : List (Nat × List RLine)) (prev : Option Border) (pos : Nat)
    (p2 : Option Border) (out : List (Nat × List RLine)),
    (∀ st ∈ sets, SetEq st) → collapseTop prev pos sets = .ok (p2, out) →
    (∀ st ∈ out, SetEq st) ∧ out.map (·.1) = sets.map (·.1) := by
  intro sets
  induction sets with
  | nil =>
    intro prev pos p2 out _ h
    simp [collapseTop] at h
    obtain ⟨rfl, rfl⟩ := h
    exact ⟨by simp, rfl⟩
  | cons st r ih =>
    intro prev pos p2 out hs h
    have hst := hs st (by simp)
    have hr : ∀ x ∈ r, SetEq x := fun x hx => hs x (by simp [hx])
    unfold collapseTop at h
    split at h
    · rename_i b t restLines heq
      cases prev with
      | none => simp at h
      | some pb =>
        simp only at h
        cases h1 : collapseTop (some (pb.mergeFromBelow b pos)) (pos + st.1 + 1) r with
        | error e => simp [h1, andThen] at h
        | ok v =>
          obtain ⟨p', out'⟩ := v
          simp only [h1, andThen] at h
          injection h with h
          simp only [Prod.mk.injEq] at h
          obtain ⟨rfl, rfl⟩ := h
          obtain ⟨a1, a2⟩ := ih _ _ p' out' hr h1
          refine ⟨?_, by simp [a2]⟩
          intro x hx
          simp only [List.mem_cons] at hx
          rcases hx with rfl | hx
          · intro l hl; exact hst l (by rw [heq]; simp [hl])
          · exact a1 x hx
    · cases h1 : collapseTop prev (pos + st.1 + 1) r with
      | error e => simp [h1, andThen] at h
      | ok v =>
        obtain ⟨p', out'⟩ := v
        simp only [h1, andThen] at h
        injection h with h
        simp only [Prod.mk.injEq] at h
        obtain ⟨rfl, rfl⟩ := h
        obtain ⟨a1, a2⟩ := ih _ _ p' out' hr h1
        refine ⟨?_, by simp [a2]⟩
        intro x hx
        simp only [List.mem_cons] at hx
        rcases hx with rfl | hx
        · exact hst
        · exact a1 x hx

/-- a pad is exactly as wide as its cell -/
def PadEq (p : (Nat × List RLine) × Option (List Ch)) : Prop := ∀ v, p.2 = some v → v.length = p.1.1 ∧ dispW v = v.length

theorem PadEq.ok {p : (Nat × List RLine) × Option (List Ch)} (h : PadEq p) : PadOk p :=
  fun v hv => ⟨Nat.le_of_eq (h v hv).1, (h v hv).2⟩

theorem collapseBottom_exact : ∀ (sets : List (Nat × List RLine)) (nb : Border) (pos : Nat),
    (∀ st ∈ sets, SetEq st) →
    let r := collapseBottom nb pos sets
    (∀ p ∈ r.2.1.zip r.2.2, SetEq p.1 ∧ PadEq p) ∧ r.2.1.map (·.1) = sets.map (·.1) ∧ r.2.1.length = r.2.2.length := by
  intro sets
  induction sets with
  | nil => intro nb pos _; simp [collapseBottom]
  | cons st r ih =>
    intro nb pos hs
    have hst := hs st (by simp)
    have hr : ∀ x ∈ r, SetEq x := fun x hx => hs x (by simp [hx])
    unfold collapseBottom
    split
    · rename_i b t heq
      have hb : b.length = st.1 := by
        have := hst (.rule b t) (List.mem_of_getLast? heq)
        simpa [rlw] using this
      obtain ⟨a2, a3, a4⟩ := ih (nb.mergeFromAbove b pos) (pos + st.1 + 1) hr
      refine ⟨?_, by simp [a3], by simp [a4]⟩
      intro p hp
      simp only [List.zip_cons_cons, List.mem_cons] at hp
      rcases hp with rfl | hp
      · refine ⟨fun l hl => hst l (List.dropLast_subset _ hl), ?_⟩
        intro v hv
        simp only [Option.some.injEq] at hv
        subst hv
        have := vertAbove_len b
        exact ⟨by simp only; omega, this.2⟩
      · exact a2 p hp
    · obtain ⟨a2, a3, a4⟩ := ih nb (pos + st.1 + 1) hr
      refine ⟨?_, by simp [a3], by simp [a4]⟩
      intro p hp
      simp only [List.zip_cons_cons, List.mem_cons] at hp
      rcases hp with rfl | hp
      · exact ⟨hst, fun v hv => by simp at hv⟩
      · exact a2 p hp

/-! ## the lines of a row -/

/-- **a cell's part of every output line of its row is exactly as wide as the cell** — text, a nested rule, or padding
    below a short cell -/
theorem colLineBody_exact (ann : Tag) (i : Nat) (st : Nat × List RLine) (pad : Option (List Ch))
    (hs : SetEq st) (hp : PadEq (st, pad)) : lw (colLineBody ann i st pad) = st.1 := by
  unfold colLineBody
  split
  · rename_i tl heq
    have := hs (.text tl) (List.mem_of_getElem? heq)
    simpa [rlw] using this
  · rename_i b t heq
    have := hs (.rule b t) (List.mem_of_getElem? heq)
    simp only [rlw] at this
    rw [dispW_cells, dispW_borderChars]; exact this
  · rw [dispW_cells]
    cases pad with
    | none => simp [dispW, spaceCh]
    | some v =>
      obtain ⟨a, b⟩ := hp v rfl
      simp only at a
      simp only [Option.getD_some]; omega

/-- **every output line of a row is exactly `Σ widths + (n − 1)` wide** -/
theorem colLine_exact (ann : Tag) (sep : Ch) (hsep : sep.w = 1) (i : Nat) : ∀ (l : List ((Nat × List RLine) × Option (List Ch))),
    l ≠ [] → (∀ p ∈ l, SetEq p.1 ∧ PadEq p) → lw (colLine ann sep i l) + 1 = spanOfP l := by
  intro l
  induction l with
  | nil => intro h; exact absurd rfl h
  | cons p r ih =>
    intro _ h
    obtain ⟨st, pad⟩ := p
    have hb := colLineBody_exact ann i st pad (h (st, pad) (by simp)).1 (h (st, pad) (by simp)).2
    cases r with
    | nil => simp [colLine, spanOfP]; omega
    | cons q r2 =>
      have := ih (by simp) (fun x hx => h x (by simp [hx]))
      simp only [colLine, lw_append, spanOfP] at this ⊢
      simp [lw, Elt.w, hsep] at this ⊢
      simp only [lw] at hb
      omega

theorem spanOf_map (a b : List (Nat × List RLine)) (h : a.map (·.1) = b.map (·.1)) : spanOf a = spanOf b := by
  rw [spanOf_eq, spanOf_eq, h]
  have := congrArg List.length h
  simp at this; omega

/-- adding a line appends one line of the same display width (pending markers have none) -/
theorem addLine_shape (s : SubR) (l : RLine) (hf : fragsOnly s.pendingFrags) :
    ∃ l', (s.addLine l).lines = s.lines ++ [l'] ∧ rlw l' = rlw l ∧ fragsOnly (s.addLine l).pendingFrags := by
  cases l with
  | rule b t => exact ⟨_, rfl, rfl, hf⟩
  | text tl =>
    simp only [SubR.addLine]
    split
    · exact ⟨_, rfl, rfl, hf⟩
    · refine ⟨_, rfl, ?_, fun e he => by simp at he⟩
      simp only [rlw, lw_append, lw_fragsOnly _ hf, Nat.zero_add]

theorem addLines_shape (ls : List RLine) : ∀ (s : SubR), fragsOnly s.pendingFrags →
    ∃ ls', (s.addLines ls).lines = s.lines ++ ls' ∧ ls'.map rlw = ls.map rlw ∧ fragsOnly (s.addLines ls).pendingFrags := by
  induction ls with
  | nil => intro s hf; exact ⟨[], by simp [SubR.addLines], rfl, hf⟩
  | cons l ls ih =>
    intro s hf
    obtain ⟨l', a1, a2, a3⟩ := addLine_shape s l hf
    obtain ⟨ls', b1, b2, b3⟩ := ih (s.addLine l) a3
    refine ⟨l' :: ls', ?_, by simp [a2, b2], b3⟩
    show ((s.addLine l).addLines ls).lines = _
    rw [b1, a1]; simp

/-- **the lines `emit` adds for a row all have the same width** -/
theorem emitColumns_exact (s : SubR) (cfg : Cfg) (ann : Tag) (sets3 : List (Nat × List RLine)) (pads : List (Option (List Ch)))
    (next2 : Border) (tot : Nat) (hf : fragsOnly s.pendingFrags) (hl : sets3.length = pads.length) (hne : sets3 ≠ [])
    (hs : ∀ p ∈ sets3.zip pads, SetEq p.1 ∧ PadEq p) (hN : tot + 1 = spanOf sets3) (hb : next2.length = tot) :
    ∃ added, (s.emitColumns cfg ann sets3 pads next2).lines = s.lines ++ added ∧ ∀ l ∈ added, rlw l = tot := by
  unfold SubR.emitColumns
  simp only []
  have hsep : (if cfg.drawBorders = true then mkCh 0x2502 else spaceCh).w = 1 := by split <;> rfl
  generalize (if cfg.drawBorders = true then mkCh 0x2502 else spaceCh) = sep at hsep ⊢
  have hz : sets3.zip pads ≠ [] := by
    cases sets3 with
    | nil => exact absurd rfl hne
    | cons a r => cases pads with
      | nil => simp at hl
      | cons b r2 => simp
  obtain ⟨ls', a1, a2, a3⟩ := addLines_shape ((List.range ((sets3.map (·.2.length)).foldl max 0)).map (fun i => RLine.text (colLine ann
      sep i (sets3.zip pads)))) s hf
  have hw : ∀ l ∈ ls', rlw l = tot := by
    intro l hl'
    have : rlw l ∈ ls'.map rlw := List.mem_map_of_mem hl'
    rw [a2] at this
    simp only [List.map_map, List.mem_map, Function.comp] at this
    obtain ⟨i, _, hi⟩ := this
    have h1 := colLine_exact ann sep hsep i (sets3.zip pads) hz hs
    rw [spanOfP_zip _ _ hl] at h1
    rw [← hi]
    show lw (colLine ann sep i (sets3.zip pads)) = tot
    omega
  split
  · obtain ⟨l', b1, b2, _⟩ := addLine_shape _ (.rule next2 ann) a3
    refine ⟨ls' ++ [l'], by rw [b1, a1]; simp, ?_⟩
    intro l hl'
    simp only [List.mem_append, List.mem_singleton] at hl'
    rcases hl' with h1 | h1
    · exact hw l h1
    · rw [h1, b2]; simpa [rlw] using hb
  · exact ⟨ls', a1, hw⟩

theorem collapseBottom_border_len : ∀ (sets : List (Nat × List RLine)) (nb : Border) (pos : Nat),
    (∀ st ∈ sets, SetEq st) → pos + spanOf sets ≤ nb.length + 1 → (collapseBottom nb pos sets).1.length = nb.length := by
  intro sets
  induction sets with
  | nil => intro nb pos _ _; simp [collapseBottom]
  | cons st r ih =>
    intro nb pos hs hN
    have hst := hs st (by simp)
    have hr : ∀ x ∈ r, SetEq x := fun x hx => hs x (by simp [hx])
    simp only [spanOf] at hN
    unfold collapseBottom
    split
    · rename_i b t heq
      have hb : b.length = st.1 := by
        have := hst (.rule b t) (List.mem_of_getLast? heq)
        simpa [rlw] using this
      have hm := mergeFromAbove_len nb b pos (by omega)
      have := ih (nb.mergeFromAbove b pos) (pos + st.1 + 1) hr (by rw [hm]; omega)
      simp only
      rw [this, hm]
    · have := ih nb (pos + st.1 + 1) hr (by omega)
      simp only
      exact this

/-- **every line a side-by-side row adds has the same width**: after `append_columns_with_borders` the renderer's lines
    are the earlier ones (the last of which may have had junctions merged into it) followed by lines that are all exactly
    `Σ cell widths + (n − 1)` wide — the row's text lines and, with borders, its bottom rule -/
theorem appendColumns_exact (s s' : SubR) (cfg : Cfg) (cols : List SubR) (h : s.Fits) (hc : ∀ c ∈ cols, c.Fits)
    (he : s.appendColumns cfg cols = .ok s') :
    ∃ (s1 : SubR) (added : List RLine), s'.lines = s1.lines ++ added ∧ (∀ l ∈ added, rlw l = (cols.map (·.width)).sum + (cols.length - 1)) ∧
      (∃ s0, s.flushWrapping = .ok s0 ∧ s1.lines.length = s0.lines.length) := by
  unfold SubR.appendColumns at he
  cases h1 : s.flushWrapping with
  | error e => simp [h1, andThen] at he
  | ok s0 =>
    simp only [h1, andThen] at he
    obtain ⟨⟨f0, w0⟩, _⟩ := flushWrapping_step s s0 h h1
    cases h2 : colSets s0.annStack cols with
    | error e => simp [h2] at he
    | ok sets =>
      simp only [h2] at he
      obtain ⟨hse, hwid⟩ := colSets_exact _ cols sets hc h2
      split at he
      · simp at he
      · rename_i hne
        have hne' : sets ≠ [] := by intro hh; simp [hh] at hne
        have hlen : sets.length = cols.length := by have := congrArg List.length hwid; simpa using this
        have htot : (sets.map (·.1)).sum + (sets.length - 1) + 1 = spanOf sets := by
          rw [spanOf_eq]
          have : 0 < sets.length := List.length_pos_iff.mpr hne'
          omega
        generalize htt : (sets.map (·.1)).sum + (sets.length - 1) = tot at he htot
        have hbars : ∀ x ∈ barPositions 0 sets, x < tot := by
          intro x hx
          have := barPositions_lt sets 0 x hx
          omega
        have hnext : (s0.joinBars sets tot).2.length = tot := by
          unfold SubR.joinBars
          split
          · simp only
            rw [foldl_join_len Border.joinAbove joinAbove_len _ _ (by simpa using hbars)]; simp
          · simp
        generalize s0.joinBars sets tot = pn at he hnext
        cases h3 : collapseTop pn.1 0 sets with
        | error e => simp [h3] at he
        | ok v =>
          obtain ⟨prev2, sets2⟩ := v
          simp only [h3] at he
          injection he with he; subst he
          obtain ⟨t1, t2⟩ := collapseTop_exact sets pn.1 0 prev2 sets2 hse h3
          obtain ⟨b2, b3, b4⟩ := collapseBottom_exact sets2 pn.2 0 t1
          have hsp2 : spanOf sets2 = spanOf sets := spanOf_map _ _ t2
          have hbl := collapseBottom_border_len sets2 pn.2 0 t1 (by rw [hnext, hsp2]; omega)
          have hsp3 : spanOf (collapseBottom pn.2 0 sets2).2.1 = spanOf sets := (spanOf_map _ _ b3).trans hsp2
          have hne3 : (collapseBottom pn.2 0 sets2).2.1 ≠ [] := by
            intro hh
            have : spanOf (collapseBottom pn.2 0 sets2).2.1 = 0 := by rw [hh]; rfl
            rw [hsp3] at this
            cases sets with
            | nil => exact hne' rfl
            | cons a r => simp [spanOf] at this
          have hfr : fragsOnly (s0.setLastRule prev2).pendingFrags := by
            have : (s0.setLastRule prev2).pendingFrags = s0.pendingFrags := by
              unfold SubR.setLastRule; split
              · split <;> rfl
              · rfl
            rw [this]; exact f0.frags
          obtain ⟨added, e1, e2⟩ := emitColumns_exact (s0.setLastRule prev2) cfg s0.annStack _ _ (collapseBottom pn.2 0 sets2).1 tot hfr b4 hne3 b2
            (by rw [hsp3]; exact htot) (by rw [hbl, hnext])
          refine ⟨s0.setLastRule prev2, added, e1, ?_, s0, rfl, ?_⟩
          · intro l hl
            rw [e2 l hl, ← htt, hwid, hlen]
          · unfold SubR.setLastRule; split
            · split
              · simp [setLast]
                have : s0.lines ≠ [] := by
                  rename_i heq; intro hh; rw [hh] at heq; simp at heq
                have := List.length_pos_iff.mpr this
                omega
              · rfl
            · rfl

end H2T
