import H2T.Render

/-! # C05 — table borders form a consistent box drawing

The horizontal rule of a table is a list of segments; vertical bars of the row above are joined in with
`join_above`, those of the row below with `join_below` (`BorderHoriz` in text_renderer.rs).  The theorems say
that, whatever the order and multiplicity of the joins, the glyph printed at a position is exactly the one
that matches "a bar stands above" and "a bar stands below".  Status: **partial** — the segment algebra is
proved for every sequence of joins; that `appendColumns` calls the joins at exactly the bar positions of the
neighbouring rows is covered by the correspondence and the grid oracle. -/

namespace H2T.C05

/-- what a segment records: is there a bar above / below it -/
def up : Seg → Bool | .above | .cross => true | _ => false
def down : Seg → Bool | .below | .cross => true | _ => false

/-- the box-drawing character for (bar above, bar below) -/
def glyphFor : Bool → Bool → Nat
  | false, false => 0x2500   -- ─
  | true, false => 0x2534    -- ┴
  | false, true => 0x252c    -- ┬
  | true, true => 0x253c     -- ┼

/-- a horizontal segment prints the glyph that matches what it records -/
theorem glyph_matches (s : Seg) (h : s ≠ .vert) : s.glyph = glyphFor (up s) (down s) := by
  cases s <;> simp_all [Seg.glyph, glyphFor, up, down]

/-- `join_above` sets "bar above" and leaves "bar below" alone; `join_below` symmetrically -/
theorem joinAbove_spec (s : Seg) (h : s ≠ .vert) :
    up s.joinAbove = true ∧ down s.joinAbove = down s ∧ s.joinAbove ≠ .vert := by
  cases s <;> simp_all [Seg.joinAbove, up, down]
theorem joinBelow_spec (s : Seg) (h : s ≠ .vert) :
    down s.joinBelow = true ∧ up s.joinBelow = up s ∧ s.joinBelow ≠ .vert := by
  cases s <;> simp_all [Seg.joinBelow, up, down]

/-- one join operation on a segment -/
inductive Join | above | below
def Join.apply : Join → Seg → Seg | .above, s => s.joinAbove | .below, s => s.joinBelow
def Join.isAbove : Join → Bool | .above => true | .below => false
def Join.isBelow : Join → Bool | .below => true | .above => false

/-- **Segment level, any history.**  Starting from a straight segment, after any sequence of joins the segment
    records "bar above" iff some `join_above` happened and "bar below" iff some `join_below` happened — so its
    glyph is the junction character for exactly those two facts. -/
theorem joins_spec (js : List Join) :
    let s := js.foldl (fun s j => j.apply s) Seg.straight
    up s = js.any Join.isAbove ∧ down s = js.any Join.isBelow ∧ s ≠ .vert := by
  have gen : ∀ (js : List Join) (s0 : Seg), s0 ≠ .vert →
      let s := js.foldl (fun s j => j.apply s) s0
      up s = (up s0 || js.any Join.isAbove) ∧ down s = (down s0 || js.any Join.isBelow) ∧ s ≠ .vert := by
    intro js
    induction js with
    | nil => intro s0 h; simp [h]
    | cons j js ih =>
      intro s0 h
      cases j with
      | above =>
        obtain ⟨h1, h2, h3⟩ := joinAbove_spec s0 h
        have := ih s0.joinAbove h3
        simp only [List.foldl_cons, Join.apply] at this ⊢
        refine ⟨?_, ?_, this.2.2⟩
        · rw [this.1, h1]; simp [Join.isAbove]
        · rw [this.2.1, h2]; simp [Join.isBelow]
      | below =>
        obtain ⟨h1, h2, h3⟩ := joinBelow_spec s0 h
        have := ih s0.joinBelow h3
        simp only [List.foldl_cons, Join.apply] at this ⊢
        refine ⟨?_, ?_, this.2.2⟩
        · rw [this.1, h2]; simp [Join.isAbove]
        · rw [this.2.1, h1]; simp [Join.isBelow]
  have := gen js Seg.straight (by simp)
  simpa [up, down] using this

/-- corollary: the printed character after any join history -/
theorem joins_glyph (js : List Join) :
    (js.foldl (fun s j => j.apply s) Seg.straight).glyph = glyphFor (js.any Join.isAbove) (js.any Join.isBelow) := by
  obtain ⟨h1, h2, h3⟩ := joins_spec js
  rw [glyph_matches _ h3, h1, h2]

/-- joins commute and are idempotent: the rule does not depend on the order in which rows are merged -/
theorem join_comm (s : Seg) : s.joinAbove.joinBelow = s.joinBelow.joinAbove := by cases s <;> rfl
theorem joinAbove_idem (s : Seg) : s.joinAbove.joinAbove = s.joinAbove := by cases s <;> rfl
theorem joinBelow_idem (s : Seg) : s.joinBelow.joinBelow = s.joinBelow := by cases s <;> rfl

/-- a join touches only its own position: the rule keeps its width when the position is inside it -/
theorem joinAbove_length (b : Border) (x : Nat) (h : x < b.length) : (b.joinAbove x).length = b.length := by
  simp [Border.joinAbove, Border.stretch]; omega
theorem joinBelow_length (b : Border) (x : Nat) (h : x < b.length) : (b.joinBelow x).length = b.length := by
  simp [Border.joinBelow, Border.stretch]; omega

/-! non-vacuity -/
example : ([Join.above, .below, .above].foldl (fun s j => j.apply s) Seg.straight).glyph = 0x253c := by decide
example : (Border.joinBelow (Border.joinAbove (List.replicate 5 Seg.straight) 2) 4).map Seg.glyph
    = [0x2500, 0x2500, 0x2534, 0x2500, 0x252c] := by decide

end H2T.C05
