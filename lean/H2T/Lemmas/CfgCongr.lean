import H2T.Lemmas.Balance

/-! C15, whole runs: two configurations that agree on everything a program can observe give the same rendering.
    `CfgSim` is the part every program observes (block padding, the overflow flag, and the wrap width a sub-renderer of an
    admissible width would use); `opAgree` adds, per operation, the option that operation consults (footnote references
    for links, the strikeout filter for `<s>`/`<del>`, border drawing and raw mode for tables).  Consequences
    (Props/C15): `max_wrap_width(m)` with `m ≥ width` is a no-op on whole documents; options that do not apply to a
    document leave its rendering unchanged. -/

namespace H2T

/-! ## every operation keeps the width of the current sub-renderer -/

theorem ff_width {s s' : SubR} (h : s'.ff = s.ff) : s'.width = s.width := by
  simp only [SubR.ff, Prod.mk.injEq] at h; exact h.2.2.2.2

theorem opEffect_width (cfg : Cfg) (d : Deco) (op : Op) (f : FF) : (opEffect cfg d op f).2.2.2.2 = f.2.2.2.2 := by
  obtain ⟨a, p, w, fd, wd⟩ := f
  cases op <;> rfl

theorem stepSimple_width (cfg : Cfg) (d : Deco) (t t' : RS) (op : Op) (h : stepSimple cfg d t op = .ok t') :
    t'.cur.width = t.cur.width := by
  have := stepSimple_effect cfg d t t' op h
  have h2 := congrArg (fun f : FF => f.2.2.2.2) this
  simp only [opEffect_width] at h2
  exact h2

mutual
theorem runOp_width (wm : SubR → Cfg → Nat → Nat → Except Err Nat) (cfg : Cfg) (d : Deco) :
    (op : Op) → (t t' : RS) → runOp wm cfg d t op = .ok t' → t'.cur.width = t.cur.width
  | .sub p m first rest asBlock body, t, t', he => by
    simp only [runOp] at he
    cases e1 : wm t.cur cfg p m with
    | error e => simp [e1, andThen_error_eq] at he
    | ok w =>
      simp only [e1, andThen_ok_eq] at he
      cases e2 : runOps wm cfg d { links := t.links, cur := ({ width := w, annStack := t.cur.annStack } : SubR) } body with
      | error e => simp [e2, andThen_error_eq] at he
      | ok r =>
        simp only [e2, andThen_ok_eq] at he
        cases e3 : (if asBlock = true then t.cur.startBlock else Except.ok t.cur) with
        | error e => simp [e3, andThen_error_eq] at he
        | ok s1 =>
          simp only [e3, andThen_ok_eq] at he
          have st1 : s1.width = t.cur.width := by
            split at e3
            · exact ff_width (startBlock_ff _ s1 e3)
            · injection e3 with e3; subst e3; rfl
          cases e4 : s1.appendSub r.cur first rest with
          | error e => simp [e4, andThen_error_eq] at he
          | ok s2 =>
            simp only [e4, andThen_ok_eq] at he; injection he with he; subst he
            have := ff_width (appendSub_ff s1 r.cur s2 first rest e4)
            split
            · exact this.trans st1
            · exact this.trans st1
  | .table cols rows, t, t', he => by
    simp only [runOp] at he
    cases h1 : allocCols cfg t.cur.width cols with
    | error e => simp [h1, andThen_error_eq] at he
    | ok v =>
      simp only [h1, andThen_ok_eq] at he
      cases h2 : t.cur.startBlock with
      | error e => simp [h2, andThen_error_eq] at he
      | ok s1 =>
        simp only [h2, andThen_ok_eq] at he
        cases h3 : s1.tableTop cfg v.2.2 with
        | error e => simp [h3, andThen_error_eq] at he
        | ok s3 =>
          simp only [h3, andThen_ok_eq] at he
          have := runRows_width wm cfg d rows v.1 v.2.1 _ t' he
          exact this.trans ((ff_width (tableTop_ff s1 s3 cfg _ h3)).trans (ff_width (startBlock_ff _ s1 h2)))
  | .row _ _ _, t, t', he => by simp only [runOp] at he; injection he with he; subst he; rfl
  | .cell _ _ _, t, t', he => by simp only [runOp] at he; injection he with he; subst he; rfl
  | .pushWs ws, t, t', he => stepSimple_width cfg d t t' _ (by simpa [runOp] using he)
  | .popWs, t, t', he => stepSimple_width cfg d t t' _ (by simpa [runOp] using he)
  | .pushPre, t, t', he => stepSimple_width cfg d t t' _ (by simpa [runOp] using he)
  | .popPre, t, t', he => stepSimple_width cfg d t t' _ (by simpa [runOp] using he)
  | .pushAnn a, t, t', he => stepSimple_width cfg d t t' _ (by simpa [runOp] using he)
  | .popAnn, t, t', he => stepSimple_width cfg d t t' _ (by simpa [runOp] using he)
  | .text x, t, t', he => stepSimple_width cfg d t t' _ (by simpa [runOp] using he)
  | .frag n, t, t', he => stepSimple_width cfg d t t' _ (by simpa [runOp] using he)
  | .startLink h, t, t', he => stepSimple_width cfg d t t' _ (by simpa [runOp] using he)
  | .endLink, t, t', he => stepSimple_width cfg d t t' _ (by simpa [runOp] using he)
  | .startAnn a x s, t, t', he => stepSimple_width cfg d t t' _ (by simpa [runOp] using he)
  | .endAnn x s, t, t', he => stepSimple_width cfg d t t' _ (by simpa [runOp] using he)
  | .image a b, t, t', he => stepSimple_width cfg d t t' _ (by simpa [runOp] using he)
  | .startBlock, t, t', he => stepSimple_width cfg d t t' _ (by simpa [runOp] using he)
  | .endBlock, t, t', he => stepSimple_width cfg d t t' _ (by simpa [runOp] using he)
  | .newLine, t, t', he => stepSimple_width cfg d t t' _ (by simpa [runOp] using he)
  | .newLineHard, t, t', he => stepSimple_width cfg d t t' _ (by simpa [runOp] using he)
theorem runOps_width (wm : SubR → Cfg → Nat → Nat → Except Err Nat) (cfg : Cfg) (d : Deco) :
    (ops : List Op) → (t t' : RS) → runOps wm cfg d t ops = .ok t' → t'.cur.width = t.cur.width
  | [], t, t', he => by simp [runOps] at he; subst he; rfl
  | op :: ops, t, t', he => by
    simp only [runOps] at he
    cases h1 : runOp wm cfg d t op with
    | error e => simp [h1, andThen_error_eq] at he
    | ok t1 =>
      simp only [h1, andThen_ok_eq] at he
      exact (runOps_width wm cfg d ops t1 t' he).trans (runOp_width wm cfg d op t t1 h1)
theorem runRows_width (wm : SubR → Cfg → Nat → Nat → Except Err Nat) (cfg : Cfg) (d : Deco) :
    (rows : List Op) → (ws : List Nat) → (vert : Bool) → (t t' : RS) → runRows wm cfg d ws vert t rows = .ok t' → t'.cur.width = t.cur.width
  | [], ws, vert, t, t', he => by simp [runRows] at he; subst he; rfl
  | .row pre post cells :: rs, ws, vert, t, t', he => by
    simp only [runRows] at he
    cases h1 : runOps wm cfg d t pre with
    | error e => simp [h1, andThen_error_eq] at he
    | ok t1 =>
      simp only [h1, andThen_ok_eq] at he
      cases h2 : runCells wm cfg d ws vert t1.cur.annStack t1.links cells with
      | error e => simp [h2, andThen_error_eq] at he
      | ok v =>
        simp only [h2, andThen_ok_eq] at he
        cases h3 : t1.cur.appendRow cfg vert v.2 with
        | error e => simp [h3, andThen_error_eq] at he
        | ok s2 =>
          simp only [h3, andThen_ok_eq] at he
          cases h4 : runOps wm cfg d { links := v.1, cur := s2 } post with
          | error e => simp [h4, andThen_error_eq] at he
          | ok t3 =>
            simp only [h4, andThen_ok_eq] at he
            have a := runRows_width wm cfg d rs ws vert t3 t' he
            have b := runOps_width wm cfg d post _ t3 h4
            have c := ff_width (appendRow_ff _ s2 cfg vert v.2 h3)
            have e := runOps_width wm cfg d pre t t1 h1
            exact a.trans (b.trans (c.trans e))
  | .sub .. :: rs, ws, vert, t, t', he => by simp only [runRows] at he; exact runRows_width wm cfg d rs ws vert t t' he
  | .table .. :: rs, ws, vert, t, t', he => by simp only [runRows] at he; exact runRows_width wm cfg d rs ws vert t t' he
  | .cell .. :: rs, ws, vert, t, t', he => by simp only [runRows] at he; exact runRows_width wm cfg d rs ws vert t t' he
  | .pushWs _ :: rs, ws, vert, t, t', he => by simp only [runRows] at he; exact runRows_width wm cfg d rs ws vert t t' he
  | .popWs :: rs, ws, vert, t, t', he => by simp only [runRows] at he; exact runRows_width wm cfg d rs ws vert t t' he
  | .pushPre :: rs, ws, vert, t, t', he => by simp only [runRows] at he; exact runRows_width wm cfg d rs ws vert t t' he
  | .popPre :: rs, ws, vert, t, t', he => by simp only [runRows] at he; exact runRows_width wm cfg d rs ws vert t t' he
  | .pushAnn _ :: rs, ws, vert, t, t', he => by simp only [runRows] at he; exact runRows_width wm cfg d rs ws vert t t' he
  | .popAnn :: rs, ws, vert, t, t', he => by simp only [runRows] at he; exact runRows_width wm cfg d rs ws vert t t' he
  | .text _ :: rs, ws, vert, t, t', he => by simp only [runRows] at he; exact runRows_width wm cfg d rs ws vert t t' he
  | .frag _ :: rs, ws, vert, t, t', he => by simp only [runRows] at he; exact runRows_width wm cfg d rs ws vert t t' he
  | .startLink _ :: rs, ws, vert, t, t', he => by simp only [runRows] at he; exact runRows_width wm cfg d rs ws vert t t' he
  | .endLink :: rs, ws, vert, t, t', he => by simp only [runRows] at he; exact runRows_width wm cfg d rs ws vert t t' he
  | .startAnn .. :: rs, ws, vert, t, t', he => by simp only [runRows] at he; exact runRows_width wm cfg d rs ws vert t t' he
  | .endAnn .. :: rs, ws, vert, t, t', he => by simp only [runRows] at he; exact runRows_width wm cfg d rs ws vert t t' he
  | .image .. :: rs, ws, vert, t, t', he => by simp only [runRows] at he; exact runRows_width wm cfg d rs ws vert t t' he
  | .startBlock :: rs, ws, vert, t, t', he => by simp only [runRows] at he; exact runRows_width wm cfg d rs ws vert t t' he
  | .endBlock :: rs, ws, vert, t, t', he => by simp only [runRows] at he; exact runRows_width wm cfg d rs ws vert t t' he
  | .newLine :: rs, ws, vert, t, t', he => by simp only [runRows] at he; exact runRows_width wm cfg d rs ws vert t t' he
  | .newLineHard :: rs, ws, vert, t, t', he => by simp only [runRows] at he; exact runRows_width wm cfg d rs ws vert t t' he
end

/-! ## configurations a program cannot tell apart -/

/-- the wrap width a fresh block gets in a sub-renderer of width `w` -/
def wwOf (c : Cfg) (w : Nat) : Nat := match c.wrapWidth with | some m => min m w | none => w

/-- `c1` and `c2` agree on what every program observes, for sub-renderers whose width satisfies `ok` -/
structure CfgSim (ok : Nat → Prop) (c1 c2 : Cfg) : Prop where
  pad : c1.padBlocks = c2.padBlocks
  ov : c1.overflow = c2.overflow
  wrap : ∀ w, ok w → wwOf c1 w = wwOf c2 w
  down : ∀ w w', ok w → w' ≤ w → ok w'
  wide : c1.overflow = true → ∀ w, ok w

mutual
/-- the options an operation consults beyond `CfgSim` must agree too -/
def opAgree (c1 c2 : Cfg) : Op → Prop
  | .endLink => c1.footnotes = c2.footnotes
  | .startAnn _ _ strike => strike = true → c1.unicodeStrike = c2.unicodeStrike
  | .endAnn _ strike => strike = true → c1.unicodeStrike = c2.unicodeStrike
  | .sub _ _ _ _ _ body => opsAgree c1 c2 body
  | .table _ rows => c1.raw = c2.raw ∧ c1.drawBorders = c2.drawBorders ∧ rowsAgree c1 c2 rows
  | _ => True
def opsAgree (c1 c2 : Cfg) : List Op → Prop
  | [] => True
  | op :: ops => opAgree c1 c2 op ∧ opsAgree c1 c2 ops
def rowsAgree (c1 c2 : Cfg) : List Op → Prop
  | [] => True
  | .row pre post cells :: rs => opsAgree c1 c2 pre ∧ opsAgree c1 c2 post ∧ cellsAgree c1 c2 cells ∧ rowsAgree c1 c2 rs
  | _ :: rs => rowsAgree c1 c2 rs
def cellsAgree (c1 c2 : Cfg) : List Op → Prop
  | [] => True
  | .cell _ _ body :: cs => opsAgree c1 c2 body ∧ cellsAgree c1 c2 cs
  | _ :: cs => cellsAgree c1 c2 cs
end

variable {ok : Nat → Prop} {c1 c2 : Cfg}

theorem getWrapping_sim (h : CfgSim ok c1 c2) (s : SubR) (hs : ok s.width) : s.getWrapping c1 = s.getWrapping c2 := by
  unfold SubR.getWrapping
  cases s.wrapping with
  | some w => rfl
  | none =>
    have := h.wrap _ hs
    unfold wwOf at this
    simp only [h.pad, h.ov]
    cases h1 : c1.wrapWidth <;> cases h2 : c2.wrapWidth <;> simp only [h1, h2] at this ⊢ <;> first | rfl | (congr 1; done) | (congr 1; exact this)

theorem addInlineText_sim (h : CfgSim ok c1 c2) (s : SubR) (x : List Ch) (f : Ann → Ann) (hs : ok s.width) :
    s.addInlineText c1 x f = s.addInlineText c2 x f := by
  unfold SubR.addInlineText
  by_cases hc : (!s.wsMode.preserve && s.atBlockEnd && x.all chIsWs) = true
  · rw [if_pos hc, if_pos hc]
  · rw [if_neg hc, if_neg hc]
    cases hsb : (if s.atBlockEnd = true then s.startBlock else Except.ok s) with
    | error e => simp only [andThen_error_eq]
    | ok s0 =>
      simp only [andThen_ok_eq]
      have hw0 : s0.width = s.width := by
        split at hsb
        · exact ff_width (startBlock_ff s s0 hsb)
        · injection hsb with hsb; subst hsb; rfl
      rw [getWrapping_sim h s0 (by rw [hw0]; exact hs)]

theorem addInlineText_width (cfg : Cfg) (s s' : SubR) (x : List Ch) (f : Ann → Ann) (h : s.addInlineText cfg x f = .ok s') :
    s'.width = s.width := ff_width (addInlineText_ff s s' cfg x f h)

theorem onCur_congr (t : RS) (f g : SubR → Except Err SubR) (h : f t.cur = g t.cur) : t.onCur f = t.onCur g := by
  unfold RS.onCur; rw [h]

theorem stepSimple_sim (h : CfgSim ok c1 c2) (d : Deco) (t : RS) (op : Op) (ha : opAgree c1 c2 op) (hs : ok t.cur.width) :
    stepSimple c1 d t op = stepSimple c2 d t op := by
  cases op <;> simp only [stepSimple]
  case text x => exact onCur_congr t _ _ (addInlineText_sim h _ x _ hs)
  case frag n => exact onCur_congr t _ _ (by simp only [SubR.recordFrag, getWrapping_sim h t.cur hs])
  case startLink href =>
    exact onCur_congr _ _ _ (addInlineText_sim h ({ t.cur with annStack := t.cur.annStack ++ [d.annOf (Ann.link href)] } : SubR) _ _ hs)
  case endLink =>
    simp only [opAgree] at ha
    have e1 : (t.onCur fun s => andThen (s.addInlineText c1 d.linkEnd d.annOf) fun s' => Except.ok { s' with annStack := s'.annStack.dropLast }) =
        (t.onCur fun s => andThen (s.addInlineText c2 d.linkEnd d.annOf) fun s' => Except.ok { s' with annStack := s'.annStack.dropLast }) :=
      onCur_congr t _ _ (by simp only [addInlineText_sim h t.cur _ _ hs])
    rw [e1, ha]
    cases h1 : (t.onCur fun s => andThen (s.addInlineText c2 d.linkEnd d.annOf) fun s' => Except.ok { s' with annStack := s'.annStack.dropLast }) with
    | error e => simp only [andThen_error_eq]
    | ok t1 =>
      simp only [andThen_ok_eq]
      split
      · have hw1 : t1.cur.width = t.cur.width := by
          unfold RS.onCur at h1
          cases h2 : t.cur.addInlineText c2 d.linkEnd d.annOf with
          | error e => simp [h2, andThen_error_eq] at h1
          | ok s2 =>
            simp only [h2, andThen_ok_eq] at h1; injection h1 with h1; subst h1
            exact addInlineText_width c2 _ s2 _ _ h2
        exact onCur_congr t1 _ _ (addInlineText_sim h _ _ _ (by rw [hw1]; exact hs))
      · rfl
  case startAnn a x strike =>
    simp only [opAgree] at ha
    apply onCur_congr
    rw [addInlineText_sim h ({ t.cur with annStack := t.cur.annStack ++ [d.annOf a] } : SubR) x _ hs]
    cases strike with
    | false => simp
    | true => rw [ha rfl]
  case endAnn x strike =>
    simp only [opAgree] at ha
    apply onCur_congr
    cases strike with
    | false => simp only [Bool.false_and, Bool.false_eq_true, if_false]; rw [addInlineText_sim h t.cur x _ hs]
    | true =>
      rw [ha rfl]
      have hs' : ok (if (true && c2.unicodeStrike) = true then { t.cur with filterDepth := t.cur.filterDepth - 1 } else t.cur).width := by
        split <;> exact hs
      rw [addInlineText_sim h _ x _ hs']
  case image src title =>
    apply onCur_congr
    rw [addInlineText_sim h ({ t.cur with annStack := t.cur.annStack ++ [d.annOf (Ann.image src)] } : SubR) _ _ hs]

theorem widthMinus_sim (h : CfgSim ok c1 c2) (s : SubR) (p m : Nat) : s.widthMinus c1 p m = s.widthMinus c2 p m := by
  unfold SubR.widthMinus; rw [h.ov]

theorem widthMinus_ok (h : CfgSim ok c1 c2) (s : SubR) (p m w : Nat) (hs : ok s.width) (e : s.widthMinus c2 p m = .ok w) : ok w := by
  unfold SubR.widthMinus at e
  simp only at e
  split at e
  · simp at e
  · rename_i hc
    injection e with e; subst e
    cases hov : c2.overflow with
    | true => exact h.wide (h.ov.trans hov) _
    | false =>
      simp only [hov, Bool.not_false, Bool.and_true, Bool.or_eq_true, decide_eq_true_eq, not_or, Nat.not_lt] at hc
      apply h.down _ _ hs
      omega

theorem allocCols_sim (hraw : c1.raw = c2.raw) (w : Nat) (cols : List SizeEst) : allocCols c1 w cols = allocCols c2 w cols := by
  unfold allocCols; rw [hraw]

theorem emitColumns_sim (hdb : c1.drawBorders = c2.drawBorders) (s : SubR) (ann : Tag) (a : List (Nat × List RLine)) (b : List (Option (List Ch)))
    (nb : Border) : s.emitColumns c1 ann a b nb = s.emitColumns c2 ann a b nb := by
  unfold SubR.emitColumns; rw [hdb]

theorem appendColumns_sim (hdb : c1.drawBorders = c2.drawBorders) (s : SubR) (cols : List SubR) :
    s.appendColumns c1 cols = s.appendColumns c2 cols := by
  unfold SubR.appendColumns; simp only [emitColumns_sim hdb]

theorem vertCells_sim (hdb : c1.drawBorders = c2.drawBorders) : ∀ (cols : List SubR) (first : Bool) (s : SubR),
    vertCells c1 first s cols = vertCells c2 first s cols := by
  intro cols
  induction cols with
  | nil => intro first s; rfl
  | cons c cs ih => intro first s; simp only [vertCells, hdb, ih]

theorem appendVertRow_sim (hdb : c1.drawBorders = c2.drawBorders) (s : SubR) (cols : List SubR) :
    s.appendVertRow c1 cols = s.appendVertRow c2 cols := by
  unfold SubR.appendVertRow; simp only [vertCells_sim hdb, hdb]

theorem tableTop_sim (hdb : c1.drawBorders = c2.drawBorders) (s : SubR) (tw : Nat) : s.tableTop c1 tw = s.tableTop c2 tw := by
  unfold SubR.tableTop; rw [hdb]

theorem appendRow_sim (hdb : c1.drawBorders = c2.drawBorders) (s : SubR) (vert : Bool) (subs : List SubR) :
    s.appendRow c1 vert subs = s.appendRow c2 vert subs := by
  unfold SubR.appendRow; rw [appendVertRow_sim hdb, appendColumns_sim hdb]

/-- every cell of a table gets an admissible width -/
def CellsOk (ok : Nat → Prop) (ws : List Nat) (vert : Bool) : Prop :=
  ∀ colno span, cellOob ws vert colno span = false → cellInner ws vert colno span ≠ 0 → ok (cellOuter vert (cellInner ws vert colno span) span)

theorem cc_sum_take_le (l : List Nat) (n : Nat) : (l.take n).sum ≤ l.sum := by
  have h2 : (l.take n ++ l.drop n).sum = (l.take n).sum + (l.drop n).sum := List.sum_append
  rw [List.take_append_drop] at h2; omega

theorem cellsOk_of_alloc (h : CfgSim ok c1 c2) (cfg : Cfg) (w : Nat) (cols : List SizeEst) (ws : List Nat) (vert : Bool) (tw : Nat)
    (hw : ok w) (e : allocCols cfg w cols = .ok (ws, vert, tw)) : CellsOk ok ws vert := by
  obtain ⟨_, hv, hn⟩ := allocCols_ok cfg w cols ws vert tw e
  intro colno span hoob hnz
  apply h.down _ _ hw
  unfold cellOob at hoob
  unfold cellInner at hnz ⊢
  unfold cellOuter
  cases vert with
  | true =>
    simp only [if_true, ge_iff_le, decide_eq_false_iff_not, Nat.not_le] at hoob ⊢
    have : ws.getD colno 0 = ws[colno] := by simp [hoob]
    rw [this]; exact hv rfl _ (List.getElem_mem _)
  | false =>
    simp only [Bool.false_eq_true, if_false, decide_eq_false_iff_not, Nat.not_lt] at hoob hnz ⊢
    have h1 := cc_sum_take_le (ws.drop colno) span
    have h2 := sum_drop_le_sum ws colno
    have h3 := hn rfl
    omega

/-! ## whole programs -/

mutual
theorem runOp_sim (h : CfgSim ok c1 c2) (d : Deco) :
    (op : Op) → (t : RS) → opAgree c1 c2 op → ok t.cur.width →
    runOp SubR.widthMinus c1 d t op = runOp SubR.widthMinus c2 d t op
  | .sub p m first rest asBlock body, t, ha, hs => by
    simp only [opAgree] at ha
    simp only [runOp]
    rw [widthMinus_sim h]
    cases e1 : t.cur.widthMinus c2 p m with
    | error e => simp only [andThen_error_eq]
    | ok w =>
      simp only [andThen_ok_eq]
      rw [runOps_sim h d body _ ha (widthMinus_ok h t.cur p m w hs e1)]
  | .table cols rows, t, ha, hs => by
    simp only [opAgree] at ha
    obtain ⟨hraw, hdb, hrows⟩ := ha
    simp only [runOp]
    rw [allocCols_sim hraw]
    cases e1 : allocCols c2 t.cur.width cols with
    | error e => simp only [andThen_error_eq]
    | ok v =>
      obtain ⟨ws, vert, tw⟩ := v
      simp only [andThen_ok_eq]
      cases e2 : t.cur.startBlock with
      | error e => simp only [andThen_error_eq]
      | ok s1 =>
        simp only [andThen_ok_eq]
        rw [tableTop_sim hdb]
        cases e3 : s1.tableTop c2 tw with
        | error e => simp only [andThen_error_eq]
        | ok s3 =>
          simp only [andThen_ok_eq]
          have hw3 : s3.width = t.cur.width := (ff_width (tableTop_ff s1 s3 c2 _ e3)).trans (ff_width (startBlock_ff _ s1 e2))
          exact runRows_sim h d hdb rows ws vert { t with cur := s3 } hrows (by rw [hw3]; exact hs)
            (cellsOk_of_alloc h c2 _ cols ws vert tw hs e1)
  | .row _ _ _, t, _, _ => by simp only [runOp]
  | .cell _ _ _, t, _, _ => by simp only [runOp]
  | .pushWs ws, t, ha, hs => by simp only [runOp]; exact stepSimple_sim h d t _ ha hs
  | .popWs, t, ha, hs => by simp only [runOp]; exact stepSimple_sim h d t _ ha hs
  | .pushPre, t, ha, hs => by simp only [runOp]; exact stepSimple_sim h d t _ ha hs
  | .popPre, t, ha, hs => by simp only [runOp]; exact stepSimple_sim h d t _ ha hs
  | .pushAnn a, t, ha, hs => by simp only [runOp]; exact stepSimple_sim h d t _ ha hs
  | .popAnn, t, ha, hs => by simp only [runOp]; exact stepSimple_sim h d t _ ha hs
  | .text x, t, ha, hs => by simp only [runOp]; exact stepSimple_sim h d t _ ha hs
  | .frag n, t, ha, hs => by simp only [runOp]; exact stepSimple_sim h d t _ ha hs
  | .startLink _, t, ha, hs => by simp only [runOp]; exact stepSimple_sim h d t _ ha hs
  | .endLink, t, ha, hs => by simp only [runOp]; exact stepSimple_sim h d t _ ha hs
  | .startAnn a x s, t, ha, hs => by simp only [runOp]; exact stepSimple_sim h d t _ ha hs
  | .endAnn x s, t, ha, hs => by simp only [runOp]; exact stepSimple_sim h d t _ ha hs
  | .image a b, t, ha, hs => by simp only [runOp]; exact stepSimple_sim h d t _ ha hs
  | .startBlock, t, ha, hs => by simp only [runOp]; exact stepSimple_sim h d t _ ha hs
  | .endBlock, t, ha, hs => by simp only [runOp]; exact stepSimple_sim h d t _ ha hs
  | .newLine, t, ha, hs => by simp only [runOp]; exact stepSimple_sim h d t _ ha hs
  | .newLineHard, t, ha, hs => by simp only [runOp]; exact stepSimple_sim h d t _ ha hs
theorem runOps_sim (h : CfgSim ok c1 c2) (d : Deco) :
    (ops : List Op) → (t : RS) → opsAgree c1 c2 ops → ok t.cur.width →
    runOps SubR.widthMinus c1 d t ops = runOps SubR.widthMinus c2 d t ops
  | [], t, _, _ => by simp only [runOps]
  | op :: ops, t, ha, hs => by
    simp only [opsAgree] at ha
    simp only [runOps]
    rw [runOp_sim h d op t ha.1 hs]
    cases e1 : runOp SubR.widthMinus c2 d t op with
    | error e => simp only [andThen_error_eq]
    | ok t1 =>
      simp only [andThen_ok_eq]
      exact runOps_sim h d ops t1 ha.2 (by rw [runOp_width _ c2 d op t t1 e1]; exact hs)
theorem runRows_sim (h : CfgSim ok c1 c2) (d : Deco) (hdb : c1.drawBorders = c2.drawBorders) :
    (rows : List Op) → (ws : List Nat) → (vert : Bool) → (t : RS) → rowsAgree c1 c2 rows → ok t.cur.width → CellsOk ok ws vert →
    runRows SubR.widthMinus c1 d ws vert t rows = runRows SubR.widthMinus c2 d ws vert t rows
  | [], ws, vert, t, _, _, _ => by simp only [runRows]
  | .row pre post cells :: rs, ws, vert, t, ha, hs, hc => by
    simp only [rowsAgree] at ha
    obtain ⟨hpre, hpost, hcells, hrs⟩ := ha
    simp only [runRows]
    rw [runOps_sim h d pre t hpre hs]
    cases e1 : runOps SubR.widthMinus c2 d t pre with
    | error e => simp only [andThen_error_eq]
    | ok t1 =>
      simp only [andThen_ok_eq]
      have hw1 : t1.cur.width = t.cur.width := runOps_width _ c2 d pre t t1 e1
      rw [runCells_sim h d cells ws vert t1.cur.annStack t1.links hcells hc]
      cases e2 : runCells SubR.widthMinus c2 d ws vert t1.cur.annStack t1.links cells with
      | error e => simp only [andThen_error_eq]
      | ok v =>
        simp only [andThen_ok_eq]
        rw [appendRow_sim hdb]
        cases e3 : t1.cur.appendRow c2 vert v.2 with
        | error e => simp only [andThen_error_eq]
        | ok s2 =>
          simp only [andThen_ok_eq]
          have hw2 : s2.width = t.cur.width := (ff_width (appendRow_ff _ s2 c2 vert v.2 e3)).trans hw1
          rw [runOps_sim h d post { links := v.1, cur := s2 } hpost (by rw [hw2]; exact hs)]
          cases e4 : runOps SubR.widthMinus c2 d { links := v.1, cur := s2 } post with
          | error e => simp only [andThen_error_eq]
          | ok t3 =>
            simp only [andThen_ok_eq]
            have hw3 : t3.cur.width = t.cur.width := (runOps_width _ c2 d post _ t3 e4).trans hw2
            exact runRows_sim h d hdb rs ws vert t3 hrs (by rw [hw3]; exact hs) hc
  | .sub .. :: rs, ws, vert, t, ha, hs, hc => by simp only [rowsAgree] at ha; simp only [runRows]; exact runRows_sim h d hdb rs ws vert t ha hs hc
  | .table .. :: rs, ws, vert, t, ha, hs, hc => by simp only [rowsAgree] at ha; simp only [runRows]; exact runRows_sim h d hdb rs ws vert t ha hs hc
  | .cell .. :: rs, ws, vert, t, ha, hs, hc => by simp only [rowsAgree] at ha; simp only [runRows]; exact runRows_sim h d hdb rs ws vert t ha hs hc
  | .pushWs _ :: rs, ws, vert, t, ha, hs, hc => by simp only [rowsAgree] at ha; simp only [runRows]; exact runRows_sim h d hdb rs ws vert t ha hs hc
  | .popWs :: rs, ws, vert, t, ha, hs, hc => by simp only [rowsAgree] at ha; simp only [runRows]; exact runRows_sim h d hdb rs ws vert t ha hs hc
  | .pushPre :: rs, ws, vert, t, ha, hs, hc => by simp only [rowsAgree] at ha; simp only [runRows]; exact runRows_sim h d hdb rs ws vert t ha hs hc
  | .popPre :: rs, ws, vert, t, ha, hs, hc => by simp only [rowsAgree] at ha; simp only [runRows]; exact runRows_sim h d hdb rs ws vert t ha hs hc
  | .pushAnn _ :: rs, ws, vert, t, ha, hs, hc => by simp only [rowsAgree] at ha; simp only [runRows]; exact runRows_sim h d hdb rs ws vert t ha hs hc
  | .popAnn :: rs, ws, vert, t, ha, hs, hc => by simp only [rowsAgree] at ha; simp only [runRows]; exact runRows_sim h d hdb rs ws vert t ha hs hc
  | .text _ :: rs, ws, vert, t, ha, hs, hc => by simp only [rowsAgree] at ha; simp only [runRows]; exact runRows_sim h d hdb rs ws vert t ha hs hc
  | .frag _ :: rs, ws, vert, t, ha, hs, hc => by simp only [rowsAgree] at ha; simp only [runRows]; exact runRows_sim h d hdb rs ws vert t ha hs hc
  | .startLink _ :: rs, ws, vert, t, ha, hs, hc => by simp only [rowsAgree] at ha; simp only [runRows]; exact runRows_sim h d hdb rs ws vert t ha hs hc
  | .endLink :: rs, ws, vert, t, ha, hs, hc => by simp only [rowsAgree] at ha; simp only [runRows]; exact runRows_sim h d hdb rs ws vert t ha hs hc
  | .startAnn .. :: rs, ws, vert, t, ha, hs, hc => by simp only [rowsAgree] at ha; simp only [runRows]; exact runRows_sim h d hdb rs ws vert t ha hs hc
  | .endAnn .. :: rs, ws, vert, t, ha, hs, hc => by simp only [rowsAgree] at ha; simp only [runRows]; exact runRows_sim h d hdb rs ws vert t ha hs hc
  | .image .. :: rs, ws, vert, t, ha, hs, hc => by simp only [rowsAgree] at ha; simp only [runRows]; exact runRows_sim h d hdb rs ws vert t ha hs hc
  | .startBlock :: rs, ws, vert, t, ha, hs, hc => by simp only [rowsAgree] at ha; simp only [runRows]; exact runRows_sim h d hdb rs ws vert t ha hs hc
  | .endBlock :: rs, ws, vert, t, ha, hs, hc => by simp only [rowsAgree] at ha; simp only [runRows]; exact runRows_sim h d hdb rs ws vert t ha hs hc
  | .newLine :: rs, ws, vert, t, ha, hs, hc => by simp only [rowsAgree] at ha; simp only [runRows]; exact runRows_sim h d hdb rs ws vert t ha hs hc
  | .newLineHard :: rs, ws, vert, t, ha, hs, hc => by simp only [rowsAgree] at ha; simp only [runRows]; exact runRows_sim h d hdb rs ws vert t ha hs hc
theorem runCells_sim (h : CfgSim ok c1 c2) (d : Deco) :
    (cells : List Op) → (ws : List Nat) → (vert : Bool) → (ann : Tag) → (links : List (List Ch)) → cellsAgree c1 c2 cells → CellsOk ok ws vert →
    runCells SubR.widthMinus c1 d ws vert ann links cells = runCells SubR.widthMinus c2 d ws vert ann links cells
  | [], ws, vert, ann, links, _, _ => by simp only [runCells]
  | .cell colno span body :: cs, ws, vert, ann, links, ha, hc => by
    simp only [cellsAgree] at ha
    simp only [runCells]
    by_cases hoob : cellOob ws vert colno span = true
    · rw [if_pos hoob, if_pos hoob]
    · rw [if_neg hoob, if_neg hoob]
      by_cases hz : cellInner ws vert colno span = 0
      · rw [if_pos hz, if_pos hz]; exact runCells_sim h d cs ws vert ann links ha.2 hc
      · rw [if_neg hz, if_neg hz]
        rw [runOps_sim h d body _ ha.1 (hc colno span (by simpa using hoob) hz)]
        cases e1 : runOps SubR.widthMinus c2 d { links := links, cur := ({ width := cellOuter vert (cellInner ws vert colno span) span, annStack := ann } : SubR) } body with
        | error e => simp only [andThen_error_eq]
        | ok r =>
          simp only [andThen_ok_eq]
          rw [runCells_sim h d cs ws vert ann r.links ha.2 hc]
  | .sub .. :: cs, ws, vert, ann, links, ha, hc => by simp only [cellsAgree] at ha; simp only [runCells]; exact runCells_sim h d cs ws vert ann links ha hc
  | .table .. :: cs, ws, vert, ann, links, ha, hc => by simp only [cellsAgree] at ha; simp only [runCells]; exact runCells_sim h d cs ws vert ann links ha hc
  | .row .. :: cs, ws, vert, ann, links, ha, hc => by simp only [cellsAgree] at ha; simp only [runCells]; exact runCells_sim h d cs ws vert ann links ha hc
  | .pushWs _ :: cs, ws, vert, ann, links, ha, hc => by simp only [cellsAgree] at ha; simp only [runCells]; exact runCells_sim h d cs ws vert ann links ha hc
  | .popWs :: cs, ws, vert, ann, links, ha, hc => by simp only [cellsAgree] at ha; simp only [runCells]; exact runCells_sim h d cs ws vert ann links ha hc
  | .pushPre :: cs, ws, vert, ann, links, ha, hc => by simp only [cellsAgree] at ha; simp only [runCells]; exact runCells_sim h d cs ws vert ann links ha hc
  | .popPre :: cs, ws, vert, ann, links, ha, hc => by simp only [cellsAgree] at ha; simp only [runCells]; exact runCells_sim h d cs ws vert ann links ha hc
  | .pushAnn _ :: cs, ws, vert, ann, links, ha, hc => by simp only [cellsAgree] at ha; simp only [runCells]; exact runCells_sim h d cs ws vert ann links ha hc
  | .popAnn :: cs, ws, vert, ann, links, ha, hc => by simp only [cellsAgree] at ha; simp only [runCells]; exact runCells_sim h d cs ws vert ann links ha hc
  | .text _ :: cs, ws, vert, ann, links, ha, hc => by simp only [cellsAgree] at ha; simp only [runCells]; exact runCells_sim h d cs ws vert ann links ha hc
  | .frag _ :: cs, ws, vert, ann, links, ha, hc => by simp only [cellsAgree] at ha; simp only [runCells]; exact runCells_sim h d cs ws vert ann links ha hc
  | .startLink _ :: cs, ws, vert, ann, links, ha, hc => by simp only [cellsAgree] at ha; simp only [runCells]; exact runCells_sim h d cs ws vert ann links ha hc
  | .endLink :: cs, ws, vert, ann, links, ha, hc => by simp only [cellsAgree] at ha; simp only [runCells]; exact runCells_sim h d cs ws vert ann links ha hc
  | .startAnn .. :: cs, ws, vert, ann, links, ha, hc => by simp only [cellsAgree] at ha; simp only [runCells]; exact runCells_sim h d cs ws vert ann links ha hc
  | .endAnn .. :: cs, ws, vert, ann, links, ha, hc => by simp only [cellsAgree] at ha; simp only [runCells]; exact runCells_sim h d cs ws vert ann links ha hc
  | .image .. :: cs, ws, vert, ann, links, ha, hc => by simp only [cellsAgree] at ha; simp only [runCells]; exact runCells_sim h d cs ws vert ann links ha hc
  | .startBlock :: cs, ws, vert, ann, links, ha, hc => by simp only [cellsAgree] at ha; simp only [runCells]; exact runCells_sim h d cs ws vert ann links ha hc
  | .endBlock :: cs, ws, vert, ann, links, ha, hc => by simp only [cellsAgree] at ha; simp only [runCells]; exact runCells_sim h d cs ws vert ann links ha hc
  | .newLine :: cs, ws, vert, ann, links, ha, hc => by simp only [cellsAgree] at ha; simp only [runCells]; exact runCells_sim h d cs ws vert ann links ha hc
  | .newLineHard :: cs, ws, vert, ann, links, ha, hc => by simp only [cellsAgree] at ha; simp only [runCells]; exact runCells_sim h d cs ws vert ann links ha hc
end

end H2T
