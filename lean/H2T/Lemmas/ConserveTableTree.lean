import H2T.Lemmas.ConserveTable
import H2T.Lemmas.ConserveTree

/-! C03 with tables, tree level: every render tree compiles to a program whose sub-renderer prefixes are whitespace when the
    decorator's block prefixes are; so `renderTree` never invents or duplicates a character, tables included. -/

namespace H2T

theorem wsPrefOps_append (a b : List Op) : wsPrefOps (a ++ b) = (wsPrefOps a && wsPrefOps b) := by
  induction a with
  | nil => simp [wsPrefOps]
  | cons x a ih => simp [wsPrefOps, ih, Bool.and_assoc]

theorem styleOps_wsPref (ops : List Op) (h : ∀ op ∈ ops, isStyleOp op = true) : wsPrefOps ops = true := by
  induction ops with
  | nil => rfl
  | cons op ops ih =>
    have := h op (by simp)
    simp only [wsPrefOps, Bool.and_eq_true]
    refine ⟨?_, ih (fun o ho => h o (by simp [ho]))⟩
    cases op <;> simp [isStyleOp] at this <;> simp [wsPrefOp]

theorem styleOpen_wsPref (d : Deco) (st : Style) : wsPrefOps (styleOpen d st) = true := styleOps_wsPref _ (styleOpen_style d st)
theorem styleClose_wsPref (d : Deco) (st : Style) : wsPrefOps (styleClose d st) = true := styleOps_wsPref _ (styleClose_style d st)

mutual
theorem compile_wsPref (cfg : Cfg) (d : Deco) (hd : SilentDeco d) : (n : RNode) → wsPrefOps (compile cfg d n) = true
  | .text st s => by simp [compile, wsPrefOps_append, styleOpen_wsPref, styleClose_wsPref, wsPrefOps, wsPrefOp]
  | .img st a b => by simp [compile, wsPrefOps_append, styleOpen_wsPref, styleClose_wsPref, wsPrefOps, wsPrefOp]
  | .br st => by simp [compile, wsPrefOps_append, styleOpen_wsPref, styleClose_wsPref, wsPrefOps, wsPrefOp]
  | .frag n => by simp [compile, wsPrefOps, wsPrefOp]
  | .row _ _ => by simp [compile, wsPrefOps]
  | .tbody _ _ => by simp [compile, wsPrefOps]
  | .table st rows n => by
    simp [compile, wsPrefOps_append, styleOpen_wsPref, styleClose_wsPref, wsPrefOps, wsPrefOp, compileRows_wsPref cfg d hd rows]
  | .cell st _ kids => by
    simp [compile, wsPrefOps_append, styleOpen_wsPref, styleClose_wsPref, compileList_wsPref cfg d hd kids]
  | .box st k kids => by
    have hb := compileList_wsPref cfg d hd kids
    cases k with
    | container => simp [compile, wsPrefOps_append, styleOpen_wsPref, styleClose_wsPref, hb]
    | link href => simp [compile, wsPrefOps_append, styleOpen_wsPref, styleClose_wsPref, hb, wsPrefOps, wsPrefOp]
    | em => simp [compile, wsPrefOps_append, styleOpen_wsPref, styleClose_wsPref, hb, wsPrefOps, wsPrefOp]
    | strong => simp [compile, wsPrefOps_append, styleOpen_wsPref, styleClose_wsPref, hb, wsPrefOps, wsPrefOp]
    | strike => simp [compile, wsPrefOps_append, styleOpen_wsPref, styleClose_wsPref, hb, wsPrefOps, wsPrefOp]
    | code => simp [compile, wsPrefOps_append, styleOpen_wsPref, styleClose_wsPref, hb, wsPrefOps, wsPrefOp]
    | block => simp [compile, wsPrefOps_append, styleOpen_wsPref, styleClose_wsPref, hb, wsPrefOps, wsPrefOp]
    | li => simp [compile, wsPrefOps_append, styleOpen_wsPref, styleClose_wsPref, hb, wsPrefOps, wsPrefOp]
    | header lvl => simp [compile, wsPrefOps_append, styleOpen_wsPref, styleClose_wsPref, hb, wsPrefOps, wsPrefOp, hd.2.2.2 lvl]
    | div => simp [compile, wsPrefOps_append, styleOpen_wsPref, styleClose_wsPref, hb, wsPrefOps, wsPrefOp]
    | quote => simp [compile, wsPrefOps_append, styleOpen_wsPref, styleClose_wsPref, hb, wsPrefOps, wsPrefOp, hd.1]
    | ul =>
      simp only [compile, wsPrefOps_append, styleOpen_wsPref, styleClose_wsPref, Bool.true_and, Bool.and_true]
      exact compileItems_wsPref cfg d hd _ _ _ _ 0 kids (fun _ => hd.2.1) (all_replicate_space _)
    | ol start =>
      simp only [compile, wsPrefOps_append, styleOpen_wsPref, styleClose_wsPref, Bool.true_and, Bool.and_true]
      exact compileItems_wsPref cfg d hd _ _ _ _ 0 kids (fun _ => all_padTo _ _ (hd.2.2.1 _)) (all_replicate_space _)
    | dl => simp [compile, wsPrefOps_append, styleOpen_wsPref, styleClose_wsPref, hb, wsPrefOps, wsPrefOp]
    | dt => simp [compile, wsPrefOps_append, styleOpen_wsPref, styleClose_wsPref, hb, wsPrefOps, wsPrefOp]
    | dd => simp [compile, wsPrefOps_append, styleOpen_wsPref, styleClose_wsPref, hb, wsPrefOps, wsPrefOp, strCh, chIsWs, spaceCh]
    | sup =>
      simp only [compile]
      split <;> simp [wsPrefOps_append, styleOpen_wsPref, styleClose_wsPref, hb, wsPrefOps, wsPrefOp]
theorem compileList_wsPref (cfg : Cfg) (d : Deco) (hd : SilentDeco d) : (ns : List RNode) → wsPrefOps (compileList cfg d ns) = true
  | [] => by simp [compileList, wsPrefOps]
  | n :: ns => by
    simp [compileList, wsPrefOps_append, compile_wsPref cfg d hd n, compileList_wsPref cfg d hd ns]
theorem compileItems_wsPref (cfg : Cfg) (d : Deco) (hd : SilentDeco d) (pw minW : Nat) (first : Nat → List Ch) (rest : List Ch) :
    (i : Nat) → (ns : List RNode) → (∀ j, (first j).all chIsWs = true) → rest.all chIsWs = true →
    wsPrefOps (compileItems cfg d pw minW first rest i ns) = true
  | _, [], _, _ => by simp [compileItems, wsPrefOps]
  | i, n :: ns, hf, hr => by
    simp only [compileItems, wsPrefOps, wsPrefOp, Bool.and_eq_true]
    exact ⟨⟨⟨hf i, hr⟩, compile_wsPref cfg d hd n⟩, compileItems_wsPref cfg d hd pw minW first rest (i + 1) ns hf hr⟩
theorem compileRows_wsPref (cfg : Cfg) (d : Deco) (hd : SilentDeco d) : (rows : List RNode) → wsPrefOps (compileRows cfg d rows) = true
  | [] => by simp [compileRows, wsPrefOps]
  | .row st cells :: rs => by
    simp [compileRows, wsPrefOps, wsPrefOp, styleOpen_wsPref, styleClose_wsPref, compileCells_wsPref cfg d hd 0 cells, compileRows_wsPref cfg d hd rs]
  | .text .. :: rs => by simp [compileRows, compileRows_wsPref cfg d hd rs]
  | .img .. :: rs => by simp [compileRows, compileRows_wsPref cfg d hd rs]
  | .br .. :: rs => by simp [compileRows, compileRows_wsPref cfg d hd rs]
  | .frag .. :: rs => by simp [compileRows, compileRows_wsPref cfg d hd rs]
  | .box .. :: rs => by simp [compileRows, compileRows_wsPref cfg d hd rs]
  | .cell .. :: rs => by simp [compileRows, compileRows_wsPref cfg d hd rs]
  | .tbody .. :: rs => by simp [compileRows, compileRows_wsPref cfg d hd rs]
  | .table .. :: rs => by simp [compileRows, compileRows_wsPref cfg d hd rs]
theorem compileCells_wsPref (cfg : Cfg) (d : Deco) (hd : SilentDeco d) : (colno : Nat) → (cells : List RNode) →
    wsPrefOps (compileCells cfg d colno cells) = true
  | _, [] => by simp [compileCells, wsPrefOps]
  | colno, .cell st span kids :: cs => by
    simp [compileCells, wsPrefOps, wsPrefOp, wsPrefOps_append, styleOpen_wsPref, styleClose_wsPref, compileList_wsPref cfg d hd kids,
      compileCells_wsPref cfg d hd (colno + span) cs]
  | colno, .text .. :: cs => by simp [compileCells, compileCells_wsPref cfg d hd colno cs]
  | colno, .img .. :: cs => by simp [compileCells, compileCells_wsPref cfg d hd colno cs]
  | colno, .br .. :: cs => by simp [compileCells, compileCells_wsPref cfg d hd colno cs]
  | colno, .frag .. :: cs => by simp [compileCells, compileCells_wsPref cfg d hd colno cs]
  | colno, .box .. :: cs => by simp [compileCells, compileCells_wsPref cfg d hd colno cs]
  | colno, .row .. :: cs => by simp [compileCells, compileCells_wsPref cfg d hd colno cs]
  | colno, .tbody .. :: cs => by simp [compileCells, compileCells_wsPref cfg d hd colno cs]
  | colno, .table .. :: cs => by simp [compileCells, compileCells_wsPref cfg d hd colno cs]
end

/-- **nothing is invented or duplicated, tables included**: for every render tree — tables, nested tables, stacked rows —
    under a decorator with whitespace block prefixes and footnotes off, every character `c` other than a box-drawing
    character, `/` and the strikeout mark occurs in the rendered lines at most as often as in the texts of the program -/
theorem renderTree_no_invention (c : Ch) (hc : isBox c = false) (hm : c ≠ strikeMark) (cfg : Cfg) (d : Deco) (w : Nat) (tree : RNode)
    (ls : List RLine) (hfn : cfg.footnotes = false) (hd : SilentDeco d) (h : renderTree cfg d w tree = .ok ls) :
    (ls.flatMap rink).count c ≤ (rawInks d (compile cfg d tree)).count c := by
  unfold renderTree at h
  split at h
  · simp at h
  · cases h1 : runOps SubR.widthMinus cfg d { cur := { width := w } } (compile cfg d tree) with
    | error e => simp [h1, andThen_error_eq] at h
    | ok t =>
      simp only [h1, andThen_ok_eq] at h
      obtain ⟨f1, f2, _⟩ := fresh_ink w []
      obtain ⟨a1, a3⟩ := runOps_cnt c hc hm cfg d hfn _ _ t (compile_wsPref cfg d hd tree) f2 h1
      have hf0 : footTexts cfg t.links = [] := by simp [footTexts, hfn]
      rw [hf0] at h
      simp only [List.isEmpty_nil, if_true] at h
      rw [intoLines_ink t.cur ls a3 h]
      rw [f1] at a1
      simpa using a1


/-! ## the program's text is the tree's text -/

mutual
/-- the visible characters a render tree holds, in document order: text nodes, image texts, the decorator's inline
    affixes; table cells in row order -/
def nodeRaw (d : Deco) : RNode → List Ch
  | .text _ s => keep s
  | .img _ _ t => keep (d.imgText t)
  | .br _ => []
  | .frag _ => []
  | .box _ k kids =>
    match k with
    | .link _ => keep d.linkStart ++ (listRaw d kids ++ keep d.linkEnd)
    | .em => keep d.emStart ++ (listRaw d kids ++ keep d.emEnd)
    | .strong => keep d.strongStart ++ (listRaw d kids ++ keep d.strongEnd)
    | .strike => keep d.strikeStart ++ (listRaw d kids ++ keep d.strikeEnd)
    | .code => keep d.codeStart ++ (listRaw d kids ++ keep d.codeEnd)
    | .dt => keep d.emStart ++ (listRaw d kids ++ keep d.emEnd)
    | .sup => (match supDigits kids with
        | some ds => keep ds
        | none => keep d.supStart ++ (listRaw d kids ++ keep d.supEnd))
    | _ => listRaw d kids
  | .cell _ _ kids => listRaw d kids
  | .row _ _ => []
  | .tbody _ _ => []
  | .table _ rows _ => rowsRaw d rows
def listRaw (d : Deco) : List RNode → List Ch
  | [] => []
  | n :: ns => nodeRaw d n ++ listRaw d ns
def rowsRaw (d : Deco) : List RNode → List Ch
  | [] => []
  | .row _ cells :: rs => cellsRaw d cells ++ rowsRaw d rs
  | _ :: rs => rowsRaw d rs
def cellsRaw (d : Deco) : List RNode → List Ch
  | [] => []
  | .cell _ _ kids :: cs => listRaw d kids ++ cellsRaw d cs
  | _ :: cs => cellsRaw d cs
end

theorem rawInks_append (d : Deco) (a b : List Op) : rawInks d (a ++ b) = rawInks d a ++ rawInks d b := by
  induction a with
  | nil => rfl
  | cons x a ih => simp [rawInks, ih]

theorem styleOps_raw (d : Deco) (ops : List Op) (h : ∀ op ∈ ops, isStyleOp op = true) : rawInks d ops = [] := by
  induction ops with
  | nil => rfl
  | cons op ops ih =>
    have := h op (by simp)
    simp only [rawInks, ih (fun o ho => h o (by simp [ho])), List.append_nil]
    cases op <;> simp [isStyleOp] at this <;> rfl

theorem styleOpen_raw (d : Deco) (st : Style) : rawInks d (styleOpen d st) = [] := styleOps_raw d _ (styleOpen_style d st)
theorem styleClose_raw (d : Deco) (st : Style) : rawInks d (styleClose d st) = [] := styleOps_raw d _ (styleClose_style d st)

mutual
theorem rawInks_compile (cfg : Cfg) (d : Deco) : (n : RNode) → rawInks d (compile cfg d n) = nodeRaw d n
  | .text st s => by simp [compile, rawInks_append, styleOpen_raw, styleClose_raw, rawInks, rawInk, nodeRaw]
  | .img st a b => by simp [compile, rawInks_append, styleOpen_raw, styleClose_raw, rawInks, rawInk, nodeRaw]
  | .br st => by simp [compile, rawInks_append, styleOpen_raw, styleClose_raw, rawInks, rawInk, nodeRaw]
  | .frag n => by simp [compile, rawInks, rawInk, nodeRaw]
  | .row _ _ => by simp [compile, rawInks, nodeRaw]
  | .tbody _ _ => by simp [compile, rawInks, nodeRaw]
  | .table st rows n => by
    simp [compile, rawInks_append, styleOpen_raw, styleClose_raw, rawInks, rawInk, nodeRaw, rawInks_compileRows cfg d rows]
  | .cell st _ kids => by
    simp [compile, rawInks_append, styleOpen_raw, styleClose_raw, nodeRaw, rawInks_compileList cfg d kids]
  | .box st k kids => by
    have hb := rawInks_compileList cfg d kids
    cases k with
    | container => simp [compile, rawInks_append, styleOpen_raw, styleClose_raw, hb, nodeRaw]
    | link href => simp [compile, rawInks_append, styleOpen_raw, styleClose_raw, hb, nodeRaw, rawInks, rawInk]
    | em => simp [compile, rawInks_append, styleOpen_raw, styleClose_raw, hb, nodeRaw, rawInks, rawInk]
    | strong => simp [compile, rawInks_append, styleOpen_raw, styleClose_raw, hb, nodeRaw, rawInks, rawInk]
    | strike => simp [compile, rawInks_append, styleOpen_raw, styleClose_raw, hb, nodeRaw, rawInks, rawInk]
    | code => simp [compile, rawInks_append, styleOpen_raw, styleClose_raw, hb, nodeRaw, rawInks, rawInk]
    | block => simp [compile, rawInks_append, styleOpen_raw, styleClose_raw, hb, nodeRaw, rawInks, rawInk]
    | li => simp [compile, rawInks_append, styleOpen_raw, styleClose_raw, hb, nodeRaw, rawInks, rawInk]
    | header lvl => simp [compile, rawInks_append, styleOpen_raw, styleClose_raw, hb, nodeRaw, rawInks, rawInk]
    | div => simp [compile, rawInks_append, styleOpen_raw, styleClose_raw, hb, nodeRaw, rawInks, rawInk]
    | quote => simp [compile, rawInks_append, styleOpen_raw, styleClose_raw, hb, nodeRaw, rawInks, rawInk]
    | ul =>
      simp only [compile, rawInks_append, styleOpen_raw, styleClose_raw, List.nil_append, List.append_nil, nodeRaw]
      exact rawInks_compileItems cfg d _ _ _ _ 0 kids
    | ol start =>
      simp only [compile, rawInks_append, styleOpen_raw, styleClose_raw, List.nil_append, List.append_nil, nodeRaw]
      exact rawInks_compileItems cfg d _ _ _ _ 0 kids
    | dl => simp [compile, rawInks_append, styleOpen_raw, styleClose_raw, hb, nodeRaw, rawInks, rawInk]
    | dt => simp [compile, rawInks_append, styleOpen_raw, styleClose_raw, hb, nodeRaw, rawInks, rawInk]
    | dd => simp [compile, rawInks_append, styleOpen_raw, styleClose_raw, hb, nodeRaw, rawInks, rawInk]
    | sup =>
      simp only [compile, nodeRaw]
      cases hsd : supDigits kids with
      | some ds => simp [rawInks_append, styleOpen_raw, styleClose_raw, rawInks, rawInk]
      | none => simp [rawInks_append, styleOpen_raw, styleClose_raw, hb, rawInks, rawInk]
theorem rawInks_compileList (cfg : Cfg) (d : Deco) : (ns : List RNode) → rawInks d (compileList cfg d ns) = listRaw d ns
  | [] => by simp [compileList, rawInks, listRaw]
  | n :: ns => by simp [compileList, rawInks_append, listRaw, rawInks_compile cfg d n, rawInks_compileList cfg d ns]
theorem rawInks_compileItems (cfg : Cfg) (d : Deco) (pw minW : Nat) (first : Nat → List Ch) (rest : List Ch) :
    (i : Nat) → (ns : List RNode) → rawInks d (compileItems cfg d pw minW first rest i ns) = listRaw d ns
  | _, [] => by simp [compileItems, rawInks, listRaw]
  | i, n :: ns => by
    simp [compileItems, rawInks, rawInk, listRaw, rawInks_compile cfg d n, rawInks_compileItems cfg d pw minW first rest (i + 1) ns]
theorem rawInks_compileRows (cfg : Cfg) (d : Deco) : (rows : List RNode) → rawInks d (compileRows cfg d rows) = rowsRaw d rows
  | [] => by simp [compileRows, rawInks, rowsRaw]
  | .row st cells :: rs => by
    simp [compileRows, rawInks, rawInk, rowsRaw, styleOpen_raw, styleClose_raw, rawInks_compileCells cfg d 0 cells, rawInks_compileRows cfg d rs]
  | .text .. :: rs => by simp [compileRows, rowsRaw, rawInks_compileRows cfg d rs]
  | .img .. :: rs => by simp [compileRows, rowsRaw, rawInks_compileRows cfg d rs]
  | .br .. :: rs => by simp [compileRows, rowsRaw, rawInks_compileRows cfg d rs]
  | .frag .. :: rs => by simp [compileRows, rowsRaw, rawInks_compileRows cfg d rs]
  | .box .. :: rs => by simp [compileRows, rowsRaw, rawInks_compileRows cfg d rs]
  | .cell .. :: rs => by simp [compileRows, rowsRaw, rawInks_compileRows cfg d rs]
  | .tbody .. :: rs => by simp [compileRows, rowsRaw, rawInks_compileRows cfg d rs]
  | .table .. :: rs => by simp [compileRows, rowsRaw, rawInks_compileRows cfg d rs]
theorem rawInks_compileCells (cfg : Cfg) (d : Deco) : (colno : Nat) → (cells : List RNode) →
    rawInks d (compileCells cfg d colno cells) = cellsRaw d cells
  | _, [] => by simp [compileCells, rawInks, cellsRaw]
  | colno, .cell st span kids :: cs => by
    simp [compileCells, rawInks, rawInk, cellsRaw, rawInks_append, styleOpen_raw, styleClose_raw, rawInks_compileList cfg d kids,
      rawInks_compileCells cfg d (colno + span) cs]
  | colno, .text .. :: cs => by simp [compileCells, cellsRaw, rawInks_compileCells cfg d colno cs]
  | colno, .img .. :: cs => by simp [compileCells, cellsRaw, rawInks_compileCells cfg d colno cs]
  | colno, .br .. :: cs => by simp [compileCells, cellsRaw, rawInks_compileCells cfg d colno cs]
  | colno, .frag .. :: cs => by simp [compileCells, cellsRaw, rawInks_compileCells cfg d colno cs]
  | colno, .box .. :: cs => by simp [compileCells, cellsRaw, rawInks_compileCells cfg d colno cs]
  | colno, .row .. :: cs => by simp [compileCells, cellsRaw, rawInks_compileCells cfg d colno cs]
  | colno, .tbody .. :: cs => by simp [compileCells, cellsRaw, rawInks_compileCells cfg d colno cs]
  | colno, .table .. :: cs => by simp [compileCells, cellsRaw, rawInks_compileCells cfg d colno cs]
end

/-- `renderTree_no_invention` in terms of the tree -/
theorem renderTree_no_invention_tree (c : Ch) (hc : isBox c = false) (hm : c ≠ strikeMark) (cfg : Cfg) (d : Deco) (w : Nat) (tree : RNode)
    (ls : List RLine) (hfn : cfg.footnotes = false) (hd : SilentDeco d) (h : renderTree cfg d w tree = .ok ls) :
    (ls.flatMap rink).count c ≤ (nodeRaw d tree).count c := by
  rw [← rawInks_compile cfg d tree]
  exact renderTree_no_invention c hc hm cfg d w tree ls hfn hd h

end H2T
