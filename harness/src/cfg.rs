//! Configurations of the public builder, the custom decorator family, and serialisation of both.

use crate::util::{json_str, R};
use html2text::render::TextDecorator;

/// The 17 strings of the custom decorator family, in the order of `DecoFam` in lean/H2T/Tree.lean:
/// hUnit hTail quote ul olTail linkS linkE emS emE strongS strongE strikeS strikeE codeS codeE imgS imgE
#[derive(Clone, Debug, PartialEq)]
pub struct Fam(pub Vec<String>);

#[derive(Clone, Debug)]
pub struct FamDeco(pub Fam);
impl TextDecorator for FamDeco {
    type Annotation = ();
    fn decorate_link_start(&mut self, _url: &str) -> (String, ()) {
        (self.0 .0[5].clone(), ())
    }
    fn decorate_link_end(&mut self) -> String {
        self.0 .0[6].clone()
    }
    fn decorate_em_start(&self) -> (String, ()) {
        (self.0 .0[7].clone(), ())
    }
    fn decorate_em_end(&self) -> String {
        self.0 .0[8].clone()
    }
    fn decorate_strong_start(&self) -> (String, ()) {
        (self.0 .0[9].clone(), ())
    }
    fn decorate_strong_end(&self) -> String {
        self.0 .0[10].clone()
    }
    fn decorate_strikeout_start(&self) -> (String, ()) {
        (self.0 .0[11].clone(), ())
    }
    fn decorate_strikeout_end(&self) -> String {
        self.0 .0[12].clone()
    }
    fn decorate_code_start(&self) -> (String, ()) {
        (self.0 .0[13].clone(), ())
    }
    fn decorate_code_end(&self) -> String {
        self.0 .0[14].clone()
    }
    fn decorate_preformat_first(&self) {}
    fn decorate_preformat_cont(&self) {}
    fn decorate_image(&mut self, _src: &str, title: &str) -> (String, ()) {
        (format!("{}{}{}", self.0 .0[15], title, self.0 .0[16]), ())
    }
    fn header_prefix(&self, level: usize) -> String {
        self.0 .0[0].repeat(level) + &self.0 .0[1]
    }
    fn quote_prefix(&self) -> String {
        self.0 .0[2].clone()
    }
    fn unordered_item_prefix(&self) -> String {
        self.0 .0[3].clone()
    }
    fn ordered_item_prefix(&self, i: i64) -> String {
        format!("{}{}", i, self.0 .0[4])
    }
    fn make_subblock_decorator(&self) -> Self {
        self.clone()
    }
}

#[derive(Clone, Debug, PartialEq)]
pub enum Deco {
    Plain,
    Rich,
    Trivial,
    Fam(Fam),
}
impl Deco {
    pub fn code(&self) -> u32 {
        match self {
            Deco::Plain => 0,
            Deco::Rich => 1,
            Deco::Trivial => 2,
            Deco::Fam(_) => 3,
        }
    }
}

/// which public route produces the observation
#[derive(Clone, Copy, Debug, PartialEq)]
pub enum Route {
    /// `string_from_read`
    Str,
    /// `lines_from_read` (tagged lines with fragment markers)
    Lines,
}

#[derive(Clone, Debug, PartialEq)]
pub struct Cfg {
    pub deco: Deco,
    pub route: Route,
    pub decorate: bool,
    pub footnotes: bool,
    pub overflow: bool,
    pub pad: bool,
    pub raw: bool,
    pub noborders: bool,
    pub nostrike: bool,
    pub nolinkwrap: bool,
    pub max_wrap: Option<usize>,
    pub min_wrap: usize,
    pub use_doc_css: bool,
    pub agent_css: Option<String>,
    pub user_css: Option<String>,
}

impl Cfg {
    pub fn base(deco: Deco) -> Cfg {
        let route = if deco == Deco::Rich { Route::Lines } else { Route::Str };
        Cfg {
            deco,
            route,
            decorate: false,
            footnotes: false,
            overflow: false,
            pad: false,
            raw: false,
            noborders: false,
            nostrike: false,
            nolinkwrap: false,
            max_wrap: None,
            min_wrap: 3,
            use_doc_css: false,
            agent_css: None,
            user_css: None,
        }
    }
    /// `config::plain()`: decorate + footnotes
    pub fn plain() -> Cfg {
        let mut c = Cfg::base(Deco::Plain);
        c.decorate = true;
        c.footnotes = true;
        c
    }
    pub fn rich() -> Cfg {
        Cfg::base(Deco::Rich)
    }
    pub fn trivial() -> Cfg {
        Cfg::base(Deco::Trivial)
    }
    pub fn flags(&self) -> u64 {
        (self.decorate as u64)
            | (self.footnotes as u64) << 1
            | (self.overflow as u64) << 2
            | (self.pad as u64) << 3
            | (self.raw as u64) << 4
            | (self.noborders as u64) << 5
            | (self.nostrike as u64) << 6
            | (self.nolinkwrap as u64) << 7
            | ((self.route == Route::Lines) as u64) << 8
    }
    pub fn describe(&self) -> String {
        let mut v: Vec<String> = vec![format!("{:?}", self.deco.code())];
        v[0] = match &self.deco {
            Deco::Plain => "plain".into(),
            Deco::Rich => "rich".into(),
            Deco::Trivial => "trivial".into(),
            Deco::Fam(f) => format!("custom{:?}", f.0),
        };
        if self.route == Route::Lines {
            v.push("lines".into());
        }
        for (b, n) in [
            (self.decorate, "do_decorate"),
            (self.footnotes, "link_footnotes"),
            (self.overflow, "allow_width_overflow"),
            (self.pad, "pad_block_width"),
            (self.raw, "raw_mode"),
            (self.noborders, "no_table_borders"),
            (self.nostrike, "unicode_strikeout(false)"),
            (self.nolinkwrap, "no_link_wrapping"),
            (self.use_doc_css, "use_doc_css"),
        ] {
            if b {
                v.push(n.into());
            }
        }
        if let Some(m) = self.max_wrap {
            v.push(format!("max_wrap_width({m})"));
        }
        if self.min_wrap != 3 {
            v.push(format!("min_wrap_width({})", self.min_wrap));
        }
        if let Some(c) = &self.agent_css {
            v.push(format!("add_agent_css({c:?})"));
        }
        if let Some(c) = &self.user_css {
            v.push(format!("add_css({c:?})"));
        }
        v.join(" ")
    }
    pub fn to_json(&self) -> String {
        let opt = |o: &Option<String>| match o {
            None => "null".to_string(),
            Some(s) => json_str(s),
        };
        let fam = match &self.deco {
            Deco::Fam(f) => format!("[{}]", f.0.iter().map(|s| json_str(s)).collect::<Vec<_>>().join(",")),
            _ => "null".into(),
        };
        format!(
            "{{\"deco\":{},\"fam\":{},\"flags\":{},\"max_wrap\":{},\"min_wrap\":{},\"use_doc_css\":{},\"agent_css\":{},\"user_css\":{},\"describe\":{}}}",
            self.deco.code(),
            fam,
            self.flags(),
            self.max_wrap.map(|m| m.to_string()).unwrap_or("null".into()),
            self.min_wrap,
            self.use_doc_css,
            opt(&self.agent_css),
            opt(&self.user_css),
            json_str(&self.describe())
        )
    }
    /// one-line replayable encoding (used by replay files and the `single` sub-command)
    pub fn encode(&self) -> String {
        let enc = |s: &str| crate::util::hex(s.as_bytes());
        let opt = |o: &Option<String>| match o {
            None => "-".to_string(),
            Some(s) => format!("+{}", enc(s)),
        };
        let fam = match &self.deco {
            Deco::Fam(f) => f.0.iter().map(|s| format!("+{}", enc(s))).collect::<Vec<_>>().join(","),
            _ => "-".into(),
        };
        format!(
            "{} {} {} {} {} {} {} {}",
            self.deco.code(),
            fam,
            self.flags(),
            self.max_wrap.map(|m| (m as u128 + 1).to_string()).unwrap_or("0".into()),
            self.min_wrap,
            self.use_doc_css as u8,
            opt(&self.agent_css),
            opt(&self.user_css)
        )
    }
    pub fn decode(s: &str) -> Option<Cfg> {
        let t: Vec<&str> = s.split(' ').collect();
        if t.len() != 8 {
            return None;
        }
        let dec = |x: &str| -> Option<String> {
            if x == "-" {
                None
            } else {
                Some(String::from_utf8(crate::util::unhex(&x[1..])).ok()?)
            }
        };
        let code: u32 = t[0].parse().ok()?;
        let deco = match code {
            0 => Deco::Plain,
            1 => Deco::Rich,
            2 => Deco::Trivial,
            _ => Deco::Fam(Fam(t[1].split(',').map(|x| dec(x).unwrap_or_default()).collect())),
        };
        let flags: u64 = t[2].parse().ok()?;
        let mw: u128 = t[3].parse().ok()?;
        Some(Cfg {
            deco,
            route: if flags >> 8 & 1 == 1 { Route::Lines } else { Route::Str },
            decorate: flags & 1 == 1,
            footnotes: flags >> 1 & 1 == 1,
            overflow: flags >> 2 & 1 == 1,
            pad: flags >> 3 & 1 == 1,
            raw: flags >> 4 & 1 == 1,
            noborders: flags >> 5 & 1 == 1,
            nostrike: flags >> 6 & 1 == 1,
            nolinkwrap: flags >> 7 & 1 == 1,
            max_wrap: if mw == 0 { None } else { Some((mw - 1) as usize) },
            min_wrap: t[4].parse().ok()?,
            use_doc_css: t[5] == "1",
            agent_css: dec(t[6]),
            user_css: dec(t[7]),
        })
    }
}

/// strings for the decorator family
pub const FAM_ASCII: &[&str] = &["#", "=", "> ", "* ", "- ", ". ", ") ", "[", "]", "_", "<<", ">>", "~", "`", "!", "(", ")"];
pub const FAM_W1: &[&str] = &["§", "•", "│ ", "• ", "» ", "é", "·", "«", "»", "¶ "];
pub const FAM_W2: &[&str] = &["）", "〖", "〗", "。", "＃", "＞ "];

pub fn gen_fam(r: &mut R, nonascii: bool) -> Fam {
    let pick = |r: &mut R, allow_empty: bool| -> String {
        let k = r.b(100);
        if allow_empty && k < 15 {
            String::new()
        } else if !nonascii || k < 45 {
            r.pick(FAM_ASCII).to_string()
        } else if k < 75 {
            r.pick(FAM_W1).to_string()
        } else {
            r.pick(FAM_W2).to_string()
        }
    };
    let mut v = Vec::new();
    for i in 0..17 {
        // prefixes (0..=4) are rarely empty; affixes may be
        let e = r.p(20); let s = if i <= 4 { pick(r, e) } else { pick(r, true) };
        v.push(s);
    }
    // make prefixes end in a space sometimes, like the built-in ones
    for i in [1usize, 2, 3, 4] {
        if r.p(50) && !v[i].ends_with(' ') && !v[i].is_empty() {
            v[i].push(' ');
        }
    }
    Fam(v)
}

/// random option mix over a given decorator
pub fn gen_cfg(r: &mut R, deco: Deco, css: bool) -> Cfg {
    let mut c = Cfg::base(deco);
    match c.deco {
        Deco::Plain => {
            c.decorate = r.p(70);
            c.footnotes = r.p(70);
        }
        Deco::Rich => {
            c.decorate = r.p(30);
            c.footnotes = r.p(30);
        }
        Deco::Trivial => {
            c.footnotes = r.p(30);
        }
        Deco::Fam(_) => {
            c.decorate = r.p(20);
            c.footnotes = r.p(40);
        }
    }
    c.overflow = r.p(15);
    c.pad = r.p(15);
    c.raw = r.p(10);
    c.noborders = r.p(15);
    c.nostrike = r.p(15);
    c.nolinkwrap = r.p(15);
    if r.p(25) {
        c.max_wrap = Some(1 + r.u(30));
    }
    if r.p(20) {
        c.min_wrap = r.u(8);
    }
    if css {
        c.use_doc_css = r.p(50);
    }
    c
}
