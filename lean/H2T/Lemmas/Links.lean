import H2T.Lemmas.FitsTable

/-! The global link list: which targets it holds after a program has run (C08; used by C02 for the footnote list). -/

namespace H2T

mutual
/-- the link targets a program mentions, in program (= document) order -/
def opHrefs : Op → List (List Ch)
  | .startLink h => [h]
  | .sub _ _ _ _ _ body => opsHrefs body
  | .table _ rows => opsHrefs rows
  | .row pre post cells => opsHrefs pre ++ (opsHrefs cells ++ opsHrefs post)
  | .cell _ _ body => opsHrefs body
  | _ => []
def opsHrefs : List Op → List (List Ch)
  | [] => []
  | op :: r => opHrefs op ++ opsHrefs r
end

mutual
/-- programs without tables -/
def tableFreeOp : Op → Bool
  | .sub _ _ _ _ _ body => tableFreeOps body
  | .table _ _ => false
  | .row _ _ _ => false
  | .cell _ _ _ => false
  | _ => true
def tableFreeOps : List Op → Bool
  | [] => true
  | op :: r => tableFreeOp op && tableFreeOps r
end

theorem onCur_links (t0 : RS) (f : SubR → Except Err SubR) (t1 : RS) (h0 : t0.onCur f = .ok t1) : t1.links = t0.links := by
  unfold RS.onCur at h0
  cases hf : f t0.cur with
  | error e => simp [hf, andThen] at h0
  | ok s1 => simp only [hf, andThen] at h0; injection h0 with h0; subst h0; rfl

/-- a simple operation appends exactly the targets it mentions (`start_link`: one; everything else: none) -/
theorem stepSimple_links (cfg : Cfg) (d : Deco) (t t' : RS) (op : Op) (h : stepSimple cfg d t op = .ok t')
    (hs : ∀ p m f r a b, op ≠ .sub p m f r a b) (ht : ∀ c r, op ≠ .table c r) (hr : ∀ a b c, op ≠ .row a b c)
    (hc : ∀ a b c, op ≠ .cell a b c) : t'.links = t.links ++ opHrefs op := by
  cases op <;> simp only [stepSimple] at h
  case startLink href =>
    have := onCur_links _ _ _ h
    simpa [opHrefs] using this
  case endLink =>
    generalize h1 : (t.onCur fun s => andThen (s.addInlineText cfg d.linkEnd d.annOf) fun s' => Except.ok { s' with annStack := s'.annStack.dropLast }) = r1 at h
    cases r1 with
    | error e => simp [andThen] at h
    | ok t1 =>
      simp only [andThen] at h
      have e1 := onCur_links _ _ _ h1
      by_cases hf : cfg.footnotes = true
      · simp only [hf, if_true] at h
        simp [opHrefs, (onCur_links _ _ _ h).trans e1]
      · simp only [hf] at h
        injection h with h; subst h; simp [opHrefs, e1]
  case sub p m f r a b => exact absurd rfl (hs p m f r a b)
  case table c r => exact absurd rfl (ht c r)
  case row a b c => exact absurd rfl (hr a b c)
  case cell a b c => exact absurd rfl (hc a b c)
  all_goals simp [opHrefs, onCur_links _ _ _ h]

theorem Sublist.append_both {α : Type} {a b c d : List α} (h1 : a.Sublist b) (h2 : c.Sublist d) : (a ++ c).Sublist (b ++ d) :=
  List.Sublist.append h1 h2

mutual
/-- the link list only grows, by a sub-sequence of the targets the program mentions (targets inside table cells of
    width 0 are skipped together with the cell) -/
theorem runOp_links (wm : SubR → Cfg → Nat → Nat → Except Err Nat) (cfg : Cfg) (d : Deco) :
    (op : Op) → (t t' : RS) → runOp wm cfg d t op = .ok t' → ∃ added, t'.links = t.links ++ added ∧ added.Sublist (opHrefs op)
  | .sub p m first rest asBlock body, t, t', he => by
    simp only [runOp] at he
    cases h1 : wm t.cur cfg p m with
    | error e => simp [h1, andThen_error_eq] at he
    | ok w =>
      simp only [h1, andThen_ok_eq] at he
      cases h2 : runOps wm cfg d { links := t.links, cur := ({ width := w, annStack := t.cur.annStack } : SubR) } body with
      | error e => simp [h2, andThen_error_eq] at he
      | ok r =>
        simp only [h2, andThen_ok_eq] at he
        obtain ⟨added, e1, e2⟩ := runOps_links wm cfg d body _ r h2
        cases h3 : (if asBlock = true then t.cur.startBlock else Except.ok t.cur) with
        | error e => simp [h3, andThen_error_eq] at he
        | ok s1 =>
          simp only [h3, andThen_ok_eq] at he
          cases h4 : s1.appendSub r.cur first rest with
          | error e => simp [h4, andThen_error_eq] at he
          | ok s2 =>
            simp only [h4, andThen_ok_eq] at he; injection he with he; subst he
            exact ⟨added, e1, by simpa [opHrefs] using e2⟩
  | .table cols rows, t, t', he => by
    simp only [runOp] at he
    cases h1 : allocCols cfg t.cur.width cols with
    | error e => simp [h1, andThen_error_eq] at he
    | ok v =>
      obtain ⟨ws, vert, tw⟩ := v
      simp only [h1, andThen_ok_eq] at he
      cases h2 : t.cur.startBlock with
      | error e => simp [h2, andThen_error_eq] at he
      | ok s1 =>
        simp only [h2, andThen_ok_eq] at he
        cases h3 : s1.tableTop cfg tw with
        | error e => simp [h3, andThen_error_eq] at he
        | ok s3 =>
          simp only [h3, andThen_ok_eq] at he
          obtain ⟨added, e1, e2⟩ := runRows_links wm cfg d rows ws vert _ t' he
          exact ⟨added, e1, by simpa [opHrefs] using e2⟩
  | .row _ _ _, t, t', he => by simp [runOp] at he; subst he; exact ⟨[], by simp, List.nil_sublist _⟩
  | .cell _ _ _, t, t', he => by simp [runOp] at he; subst he; exact ⟨[], by simp, List.nil_sublist _⟩
  | .pushWs ws, t, t', he => ⟨_, stepSimple_links cfg d t t' _ (by simpa [runOp] using he) (by simp) (by simp) (by simp) (by simp), List.Sublist.refl _⟩
  | .popWs, t, t', he => ⟨_, stepSimple_links cfg d t t' _ (by simpa [runOp] using he) (by simp) (by simp) (by simp) (by simp), List.Sublist.refl _⟩
  | .pushPre, t, t', he => ⟨_, stepSimple_links cfg d t t' _ (by simpa [runOp] using he) (by simp) (by simp) (by simp) (by simp), List.Sublist.refl _⟩
  | .popPre, t, t', he => ⟨_, stepSimple_links cfg d t t' _ (by simpa [runOp] using he) (by simp) (by simp) (by simp) (by simp), List.Sublist.refl _⟩
  | .pushAnn a, t, t', he => ⟨_, stepSimple_links cfg d t t' _ (by simpa [runOp] using he) (by simp) (by simp) (by simp) (by simp), List.Sublist.refl _⟩
  | .popAnn, t, t', he => ⟨_, stepSimple_links cfg d t t' _ (by simpa [runOp] using he) (by simp) (by simp) (by simp) (by simp), List.Sublist.refl _⟩
  | .text x, t, t', he => ⟨_, stepSimple_links cfg d t t' _ (by simpa [runOp] using he) (by simp) (by simp) (by simp) (by simp), List.Sublist.refl _⟩
  | .frag n, t, t', he => ⟨_, stepSimple_links cfg d t t' _ (by simpa [runOp] using he) (by simp) (by simp) (by simp) (by simp), List.Sublist.refl _⟩
  | .startLink h, t, t', he => ⟨_, stepSimple_links cfg d t t' _ (by simpa [runOp] using he) (by simp) (by simp) (by simp) (by simp), List.Sublist.refl _⟩
  | .endLink, t, t', he => ⟨_, stepSimple_links cfg d t t' _ (by simpa [runOp] using he) (by simp) (by simp) (by simp) (by simp), List.Sublist.refl _⟩
  | .startAnn a x s, t, t', he => ⟨_, stepSimple_links cfg d t t' _ (by simpa [runOp] using he) (by simp) (by simp) (by simp) (by simp), List.Sublist.refl _⟩
  | .endAnn x s, t, t', he => ⟨_, stepSimple_links cfg d t t' _ (by simpa [runOp] using he) (by simp) (by simp) (by simp) (by simp), List.Sublist.refl _⟩
  | .image a b, t, t', he => ⟨_, stepSimple_links cfg d t t' _ (by simpa [runOp] using he) (by simp) (by simp) (by simp) (by simp), List.Sublist.refl _⟩
  | .startBlock, t, t', he => ⟨_, stepSimple_links cfg d t t' _ (by simpa [runOp] using he) (by simp) (by simp) (by simp) (by simp), List.Sublist.refl _⟩
  | .endBlock, t, t', he => ⟨_, stepSimple_links cfg d t t' _ (by simpa [runOp] using he) (by simp) (by simp) (by simp) (by simp), List.Sublist.refl _⟩
  | .newLine, t, t', he => ⟨_, stepSimple_links cfg d t t' _ (by simpa [runOp] using he) (by simp) (by simp) (by simp) (by simp), List.Sublist.refl _⟩
  | .newLineHard, t, t', he => ⟨_, stepSimple_links cfg d t t' _ (by simpa [runOp] using he) (by simp) (by simp) (by simp) (by simp), List.Sublist.refl _⟩
theorem runOps_links (wm : SubR → Cfg → Nat → Nat → Except Err Nat) (cfg : Cfg) (d : Deco) :
    (ops : List Op) → (t t' : RS) → runOps wm cfg d t ops = .ok t' → ∃ added, t'.links = t.links ++ added ∧ added.Sublist (opsHrefs ops)
  | [], t, t', he => by simp [runOps] at he; subst he; exact ⟨[], by simp, List.nil_sublist _⟩
  | op :: ops, t, t', he => by
    simp only [runOps] at he
    cases h3 : runOp wm cfg d t op with
    | error e => simp [h3, andThen_error_eq] at he
    | ok t1 =>
      simp only [h3, andThen_ok_eq] at he
      obtain ⟨a1, e1, s1⟩ := runOp_links wm cfg d op t t1 h3
      obtain ⟨a2, e2, s2⟩ := runOps_links wm cfg d ops t1 t' he
      exact ⟨a1 ++ a2, by rw [e2, e1, List.append_assoc], by simpa [opsHrefs] using List.Sublist.append s1 s2⟩
theorem runRows_links (wm : SubR → Cfg → Nat → Nat → Except Err Nat) (cfg : Cfg) (d : Deco) :
    (rows : List Op) → (ws : List Nat) → (vert : Bool) → (t t' : RS) → runRows wm cfg d ws vert t rows = .ok t' →
    ∃ added, t'.links = t.links ++ added ∧ added.Sublist (opsHrefs rows)
  | [], ws, vert, t, t', he => by simp [runRows] at he; subst he; exact ⟨[], by simp, List.nil_sublist _⟩
  | .row pre post cells :: rs, ws, vert, t, t', he => by
    simp only [runRows] at he
    cases h1 : runOps wm cfg d t pre with
    | error e => simp [h1, andThen_error_eq] at he
    | ok t1 =>
      simp only [h1, andThen_ok_eq] at he
      obtain ⟨a1, e1, s1⟩ := runOps_links wm cfg d pre t t1 h1
      cases h2 : runCells wm cfg d ws vert t1.cur.annStack t1.links cells with
      | error e => simp [h2, andThen_error_eq] at he
      | ok v =>
        obtain ⟨links, subs⟩ := v
        simp only [h2, andThen_ok_eq] at he
        obtain ⟨a2, e2, s2⟩ := runCells_links wm cfg d cells ws vert _ _ links subs h2
        cases h3 : t1.cur.appendRow cfg vert subs with
        | error e => simp [h3, andThen_error_eq] at he
        | ok s2' =>
          simp only [h3, andThen_ok_eq] at he
          cases h4 : runOps wm cfg d { links := links, cur := s2' } post with
          | error e => simp [h4, andThen_error_eq] at he
          | ok t3 =>
            simp only [h4, andThen_ok_eq] at he
            obtain ⟨a3, e3, s3⟩ := runOps_links wm cfg d post _ t3 h4
            obtain ⟨a4, e4, s4⟩ := runRows_links wm cfg d rs ws vert t3 t' he
            refine ⟨(a1 ++ (a2 ++ a3)) ++ a4, ?_, ?_⟩
            · rw [e4, e3]; simp only [e2, e1, List.append_assoc]
            · simpa [opsHrefs, opHrefs] using List.Sublist.append (List.Sublist.append s1 (List.Sublist.append s2 s3)) s4
  | .sub _ _ _ _ _ _ :: rs, ws, vert, t, t', he => by
    simp only [runRows] at he
    obtain ⟨a, e, s⟩ := runRows_links wm cfg d rs ws vert t t' he
    exact ⟨a, e, by simp only [opsHrefs]; exact List.Sublist.trans s (List.sublist_append_right _ _)⟩
  | .table _ _ :: rs, ws, vert, t, t', he => by
    simp only [runRows] at he
    obtain ⟨a, e, s⟩ := runRows_links wm cfg d rs ws vert t t' he
    exact ⟨a, e, by simp only [opsHrefs]; exact List.Sublist.trans s (List.sublist_append_right _ _)⟩
  | .cell _ _ _ :: rs, ws, vert, t, t', he => by
    simp only [runRows] at he
    obtain ⟨a, e, s⟩ := runRows_links wm cfg d rs ws vert t t' he
    exact ⟨a, e, by simp only [opsHrefs]; exact List.Sublist.trans s (List.sublist_append_right _ _)⟩
  | .pushWs _ :: rs, ws, vert, t, t', he => by
    simp only [runRows] at he
    obtain ⟨a, e, s⟩ := runRows_links wm cfg d rs ws vert t t' he
    exact ⟨a, e, by simp only [opsHrefs]; exact List.Sublist.trans s (List.sublist_append_right _ _)⟩
  | .popWs :: rs, ws, vert, t, t', he => by
    simp only [runRows] at he
    obtain ⟨a, e, s⟩ := runRows_links wm cfg d rs ws vert t t' he
    exact ⟨a, e, by simp only [opsHrefs]; exact List.Sublist.trans s (List.sublist_append_right _ _)⟩
  | .pushPre :: rs, ws, vert, t, t', he => by
    simp only [runRows] at he
    obtain ⟨a, e, s⟩ := runRows_links wm cfg d rs ws vert t t' he
    exact ⟨a, e, by simp only [opsHrefs]; exact List.Sublist.trans s (List.sublist_append_right _ _)⟩
  | .popPre :: rs, ws, vert, t, t', he => by
    simp only [runRows] at he
    obtain ⟨a, e, s⟩ := runRows_links wm cfg d rs ws vert t t' he
    exact ⟨a, e, by simp only [opsHrefs]; exact List.Sublist.trans s (List.sublist_append_right _ _)⟩
  | .pushAnn _ :: rs, ws, vert, t, t', he => by
    simp only [runRows] at he
    obtain ⟨a, e, s⟩ := runRows_links wm cfg d rs ws vert t t' he
    exact ⟨a, e, by simp only [opsHrefs]; exact List.Sublist.trans s (List.sublist_append_right _ _)⟩
  | .popAnn :: rs, ws, vert, t, t', he => by
    simp only [runRows] at he
    obtain ⟨a, e, s⟩ := runRows_links wm cfg d rs ws vert t t' he
    exact ⟨a, e, by simp only [opsHrefs]; exact List.Sublist.trans s (List.sublist_append_right _ _)⟩
  | .text _ :: rs, ws, vert, t, t', he => by
    simp only [runRows] at he
    obtain ⟨a, e, s⟩ := runRows_links wm cfg d rs ws vert t t' he
    exact ⟨a, e, by simp only [opsHrefs]; exact List.Sublist.trans s (List.sublist_append_right _ _)⟩
  | .frag _ :: rs, ws, vert, t, t', he => by
    simp only [runRows] at he
    obtain ⟨a, e, s⟩ := runRows_links wm cfg d rs ws vert t t' he
    exact ⟨a, e, by simp only [opsHrefs]; exact List.Sublist.trans s (List.sublist_append_right _ _)⟩
  | .startLink _ :: rs, ws, vert, t, t', he => by
    simp only [runRows] at he
    obtain ⟨a, e, s⟩ := runRows_links wm cfg d rs ws vert t t' he
    exact ⟨a, e, by simp only [opsHrefs]; exact List.Sublist.trans s (List.sublist_append_right _ _)⟩
  | .endLink :: rs, ws, vert, t, t', he => by
    simp only [runRows] at he
    obtain ⟨a, e, s⟩ := runRows_links wm cfg d rs ws vert t t' he
    exact ⟨a, e, by simp only [opsHrefs]; exact List.Sublist.trans s (List.sublist_append_right _ _)⟩
  | .startAnn _ _ _ :: rs, ws, vert, t, t', he => by
    simp only [runRows] at he
    obtain ⟨a, e, s⟩ := runRows_links wm cfg d rs ws vert t t' he
    exact ⟨a, e, by simp only [opsHrefs]; exact List.Sublist.trans s (List.sublist_append_right _ _)⟩
  | .endAnn _ _ :: rs, ws, vert, t, t', he => by
    simp only [runRows] at he
    obtain ⟨a, e, s⟩ := runRows_links wm cfg d rs ws vert t t' he
    exact ⟨a, e, by simp only [opsHrefs]; exact List.Sublist.trans s (List.sublist_append_right _ _)⟩
  | .image _ _ :: rs, ws, vert, t, t', he => by
    simp only [runRows] at he
    obtain ⟨a, e, s⟩ := runRows_links wm cfg d rs ws vert t t' he
    exact ⟨a, e, by simp only [opsHrefs]; exact List.Sublist.trans s (List.sublist_append_right _ _)⟩
  | .startBlock :: rs, ws, vert, t, t', he => by
    simp only [runRows] at he
    obtain ⟨a, e, s⟩ := runRows_links wm cfg d rs ws vert t t' he
    exact ⟨a, e, by simp only [opsHrefs]; exact List.Sublist.trans s (List.sublist_append_right _ _)⟩
  | .endBlock :: rs, ws, vert, t, t', he => by
    simp only [runRows] at he
    obtain ⟨a, e, s⟩ := runRows_links wm cfg d rs ws vert t t' he
    exact ⟨a, e, by simp only [opsHrefs]; exact List.Sublist.trans s (List.sublist_append_right _ _)⟩
  | .newLine :: rs, ws, vert, t, t', he => by
    simp only [runRows] at he
    obtain ⟨a, e, s⟩ := runRows_links wm cfg d rs ws vert t t' he
    exact ⟨a, e, by simp only [opsHrefs]; exact List.Sublist.trans s (List.sublist_append_right _ _)⟩
  | .newLineHard :: rs, ws, vert, t, t', he => by
    simp only [runRows] at he
    obtain ⟨a, e, s⟩ := runRows_links wm cfg d rs ws vert t t' he
    exact ⟨a, e, by simp only [opsHrefs]; exact List.Sublist.trans s (List.sublist_append_right _ _)⟩
theorem runCells_links (wm : SubR → Cfg → Nat → Nat → Except Err Nat) (cfg : Cfg) (d : Deco) :
    (cells : List Op) → (ws : List Nat) → (vert : Bool) → (ann : Tag) → (links : List (List Ch)) →
    (l2 : List (List Ch)) → (subs : List SubR) → runCells wm cfg d ws vert ann links cells = .ok (l2, subs) →
    ∃ added, l2 = links ++ added ∧ added.Sublist (opsHrefs cells)
  | [], ws, vert, ann, links, l2, subs, he => by
    simp [runCells] at he; obtain ⟨rfl, _⟩ := he; exact ⟨[], by simp, List.nil_sublist _⟩
  | .cell colno span body :: cs, ws, vert, ann, links, l2, subs, he => by
    simp only [runCells] at he
    split at he
    · simp at he
    · split at he
      · obtain ⟨a, e, s⟩ := runCells_links wm cfg d cs ws vert ann links l2 subs he
        exact ⟨a, e, by simp only [opsHrefs]; exact List.Sublist.trans s (List.sublist_append_right _ _)⟩
      · cases h1 : runOps wm cfg d { links := links, cur := ({ width := cellOuter vert (cellInner ws vert colno span) span, annStack := ann } : SubR) } body with
        | error e => simp [h1, andThen_error_eq] at he
        | ok r =>
          simp only [h1, andThen_ok_eq] at he
          obtain ⟨a1, e1, s1⟩ := runOps_links wm cfg d body _ r h1
          cases h2 : runCells wm cfg d ws vert ann r.links cs with
          | error e => simp [h2, andThen_error_eq] at he
          | ok v =>
            obtain ⟨l3, subs2⟩ := v
            simp only [h2, andThen_ok_eq] at he
            injection he with he
            simp only [Prod.mk.injEq] at he
            obtain ⟨rfl, _⟩ := he
            obtain ⟨a2, e2, s2⟩ := runCells_links wm cfg d cs ws vert ann r.links l3 subs2 h2
            exact ⟨a1 ++ a2, by rw [e2, e1, List.append_assoc], by simpa [opsHrefs, opHrefs] using List.Sublist.append s1 s2⟩
  | .sub _ _ _ _ _ _ :: cs, ws, vert, ann, links, l2, subs, he => by
    simp only [runCells] at he
    obtain ⟨a, e, s⟩ := runCells_links wm cfg d cs ws vert ann links l2 subs he
    exact ⟨a, e, by simp only [opsHrefs]; exact List.Sublist.trans s (List.sublist_append_right _ _)⟩
  | .table _ _ :: cs, ws, vert, ann, links, l2, subs, he => by
    simp only [runCells] at he
    obtain ⟨a, e, s⟩ := runCells_links wm cfg d cs ws vert ann links l2 subs he
    exact ⟨a, e, by simp only [opsHrefs]; exact List.Sublist.trans s (List.sublist_append_right _ _)⟩
  | .row _ _ _ :: cs, ws, vert, ann, links, l2, subs, he => by
    simp only [runCells] at he
    obtain ⟨a, e, s⟩ := runCells_links wm cfg d cs ws vert ann links l2 subs he
    exact ⟨a, e, by simp only [opsHrefs]; exact List.Sublist.trans s (List.sublist_append_right _ _)⟩
  | .pushWs _ :: cs, ws, vert, ann, links, l2, subs, he => by
    simp only [runCells] at he
    obtain ⟨a, e, s⟩ := runCells_links wm cfg d cs ws vert ann links l2 subs he
    exact ⟨a, e, by simp only [opsHrefs]; exact List.Sublist.trans s (List.sublist_append_right _ _)⟩
  | .popWs :: cs, ws, vert, ann, links, l2, subs, he => by
    simp only [runCells] at he
    obtain ⟨a, e, s⟩ := runCells_links wm cfg d cs ws vert ann links l2 subs he
    exact ⟨a, e, by simp only [opsHrefs]; exact List.Sublist.trans s (List.sublist_append_right _ _)⟩
  | .pushPre :: cs, ws, vert, ann, links, l2, subs, he => by
    simp only [runCells] at he
    obtain ⟨a, e, s⟩ := runCells_links wm cfg d cs ws vert ann links l2 subs he
    exact ⟨a, e, by simp only [opsHrefs]; exact List.Sublist.trans s (List.sublist_append_right _ _)⟩
  | .popPre :: cs, ws, vert, ann, links, l2, subs, he => by
    simp only [runCells] at he
    obtain ⟨a, e, s⟩ := runCells_links wm cfg d cs ws vert ann links l2 subs he
    exact ⟨a, e, by simp only [opsHrefs]; exact List.Sublist.trans s (List.sublist_append_right _ _)⟩
  | .pushAnn _ :: cs, ws, vert, ann, links, l2, subs, he => by
    simp only [runCells] at he
    obtain ⟨a, e, s⟩ := runCells_links wm cfg d cs ws vert ann links l2 subs he
    exact ⟨a, e, by simp only [opsHrefs]; exact List.Sublist.trans s (List.sublist_append_right _ _)⟩
  | .popAnn :: cs, ws, vert, ann, links, l2, subs, he => by
    simp only [runCells] at he
    obtain ⟨a, e, s⟩ := runCells_links wm cfg d cs ws vert ann links l2 subs he
    exact ⟨a, e, by simp only [opsHrefs]; exact List.Sublist.trans s (List.sublist_append_right _ _)⟩
  | .text _ :: cs, ws, vert, ann, links, l2, subs, he => by
    simp only [runCells] at he
    obtain ⟨a, e, s⟩ := runCells_links wm cfg d cs ws vert ann links l2 subs he
    exact ⟨a, e, by simp only [opsHrefs]; exact List.Sublist.trans s (List.sublist_append_right _ _)⟩
  | .frag _ :: cs, ws, vert, ann, links, l2, subs, he => by
    simp only [runCells] at he
    obtain ⟨a, e, s⟩ := runCells_links wm cfg d cs ws vert ann links l2 subs he
    exact ⟨a, e, by simp only [opsHrefs]; exact List.Sublist.trans s (List.sublist_append_right _ _)⟩
  | .startLink _ :: cs, ws, vert, ann, links, l2, subs, he => by
    simp only [runCells] at he
    obtain ⟨a, e, s⟩ := runCells_links wm cfg d cs ws vert ann links l2 subs he
    exact ⟨a, e, by simp only [opsHrefs]; exact List.Sublist.trans s (List.sublist_append_right _ _)⟩
  | .endLink :: cs, ws, vert, ann, links, l2, subs, he => by
    simp only [runCells] at he
    obtain ⟨a, e, s⟩ := runCells_links wm cfg d cs ws vert ann links l2 subs he
    exact ⟨a, e, by simp only [opsHrefs]; exact List.Sublist.trans s (List.sublist_append_right _ _)⟩
  | .startAnn _ _ _ :: cs, ws, vert, ann, links, l2, subs, he => by
    simp only [runCells] at he
    obtain ⟨a, e, s⟩ := runCells_links wm cfg d cs ws vert ann links l2 subs he
    exact ⟨a, e, by simp only [opsHrefs]; exact List.Sublist.trans s (List.sublist_append_right _ _)⟩
  | .endAnn _ _ :: cs, ws, vert, ann, links, l2, subs, he => by
    simp only [runCells] at he
    obtain ⟨a, e, s⟩ := runCells_links wm cfg d cs ws vert ann links l2 subs he
    exact ⟨a, e, by simp only [opsHrefs]; exact List.Sublist.trans s (List.sublist_append_right _ _)⟩
  | .image _ _ :: cs, ws, vert, ann, links, l2, subs, he => by
    simp only [runCells] at he
    obtain ⟨a, e, s⟩ := runCells_links wm cfg d cs ws vert ann links l2 subs he
    exact ⟨a, e, by simp only [opsHrefs]; exact List.Sublist.trans s (List.sublist_append_right _ _)⟩
  | .startBlock :: cs, ws, vert, ann, links, l2, subs, he => by
    simp only [runCells] at he
    obtain ⟨a, e, s⟩ := runCells_links wm cfg d cs ws vert ann links l2 subs he
    exact ⟨a, e, by simp only [opsHrefs]; exact List.Sublist.trans s (List.sublist_append_right _ _)⟩
  | .endBlock :: cs, ws, vert, ann, links, l2, subs, he => by
    simp only [runCells] at he
    obtain ⟨a, e, s⟩ := runCells_links wm cfg d cs ws vert ann links l2 subs he
    exact ⟨a, e, by simp only [opsHrefs]; exact List.Sublist.trans s (List.sublist_append_right _ _)⟩
  | .newLine :: cs, ws, vert, ann, links, l2, subs, he => by
    simp only [runCells] at he
    obtain ⟨a, e, s⟩ := runCells_links wm cfg d cs ws vert ann links l2 subs he
    exact ⟨a, e, by simp only [opsHrefs]; exact List.Sublist.trans s (List.sublist_append_right _ _)⟩
  | .newLineHard :: cs, ws, vert, ann, links, l2, subs, he => by
    simp only [runCells] at he
    obtain ⟨a, e, s⟩ := runCells_links wm cfg d cs ws vert ann links l2 subs he
    exact ⟨a, e, by simp only [opsHrefs]; exact List.Sublist.trans s (List.sublist_append_right _ _)⟩
end

end H2T
