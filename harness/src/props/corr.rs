//! CORR: not a property — the whole-observation correspondence on the generic stream (model validation).

use super::common::*;
use crate::gen::{self, Knobs};
use crate::obs::Obs;
use crate::util::R;
use crate::{Case, Prop, Tier, Viol};

pub struct Corr;
impl Prop for Corr {
    fn id(&self) -> &'static str {
        "CORR"
    }
    fn rule(&self) -> &'static str {
        "generic G-doc stream with random option mixes and style sheets; whole observation compared"
    }
    fn cases(&self, r: &mut R, tier: Tier) -> Vec<Case> {
        let n = scale(tier, 4000, 60000);
        let mut v = Vec::new();
        for _ in 0..n {
            let css = r.p(60);
            let mut k = if css { Knobs::all() } else { Knobs::all().no_css() };
            k.uspace = true;
            k.pre_inline = r.p(50);
            let mut html = String::new();
            if css && r.p(50) {
                let sh = gen::sheet(r).replace("</", "< /");
                html.push_str(&format!("<style>{sh}</style>"));
            }
            html.push_str(&gen_doc(r, k).0);
            // an id on an element that renders nothing still yields a fragment marker node
            if r.p(6) {
                let t = *r.pick(&[&"<script id=\"zs1\">var x;</script>", &"<style id=\"zs2\">q{}</style>", &"<title id=\"zs3\">T</title>", &"<template id=\"zs4\"><p>x</p></template>", &"<head id=\"zs5\"></head>"]);
                if r.p(50) {
                    html.push_str(t);
                } else {
                    html = format!("{t}{html}");
                }
            }
            let mut cfg = mk_cfg(r, css);
            if css {
                if r.p(45) {
                    cfg.user_css = Some(gen::sheet(r));
                }
                if r.p(20) {
                    cfg.agent_css = Some(gen::sheet(r));
                }
            }
            if r.p(10) {
                cfg.route = crate::cfg::Route::Lines;
            }
            let w = rand_width(r, 50);
            let bytes = if r.p(8) { gen::mutate(r, html.as_bytes()) } else if r.p(8) { gen::misnest(r, &html).into_bytes() } else { html.into_bytes() };
            v.push(case(bytes, cfg, w, "g-doc"));
        }
        v
    }
    fn oracle(&self, _c: &Case, _o: &Obs) -> Vec<Viol> {
        vec![]
    }
    fn project(&self, _c: &Case, o: &Obs) -> String {
        whole(o)
    }
}
