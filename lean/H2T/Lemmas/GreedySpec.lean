import H2T.Lemmas.Greedy

/-! Facts about the reference wrapper itself: its lines fit, and it neither loses, invents nor reorders the
    characters of the words.  Through the refinement theorem these become facts about the machine. -/

namespace H2T
open H2T.Spec

/-- the characters that are not whitespace -/
def nonWs (l : List Ch) : List Ch := l.filter fun c => !c.ws

@[simp] theorem nonWs_nil : nonWs [] = [] := rfl
@[simp] theorem nonWs_append (a b : List Ch) : nonWs (a ++ b) = nonWs a ++ nonWs b := by simp [nonWs]

/-- everything the reference has laid out so far -/
def Spec.G.chars (g : G) : List Ch := g.done.flatten ++ g.cur

theorem fillCh_chars (W : Nat) (g g' : G) (c : Ch) (h : g.fillCh W c = .ok g') : g'.chars = g.chars ++ [c] := by
  unfold G.fillCh at h
  split at h
  · injection h with h; subst h; simp [G.chars]
  · split at h
    · cases h
    · split at h
      · injection h with h; subst h; simp [G.chars]
      · cases h

theorem fill_chars (W : Nat) (word : List Ch) : ∀ (g g' : G), g.fill W word = .ok g' → g'.chars = g.chars ++ word := by
  induction word with
  | nil => intro g g' h; simp [G.fill] at h; subst h; simp
  | cons c cs ih =>
    intro g g' h
    simp only [G.fill] at h
    cases h1 : g.fillCh W c with
    | error e => simp [h1] at h
    | ok g1 =>
      simp only [h1] at h
      rw [ih g1 g' h, fillCh_chars W g g1 c h1]; simp

theorem place_chars (W : Nat) (g g' : G) (word : List Ch) (h : g.place W word = .ok g') :
    nonWs g'.chars = nonWs g.chars ++ nonWs word := by
  unfold G.place at h
  split at h
  · rw [fill_chars W word g g' h]; simp
  · split at h
    · injection h with h; subst h
      simp [G.chars, nonWs, spaceCh]
    · rename_i hne _
      rw [fill_chars W word _ g' h]; simp [G.chars]

theorem places_chars (W : Nat) (ws : List (List Ch)) : ∀ (g g' : G), g.places W ws = .ok g' →
    nonWs g'.chars = nonWs g.chars ++ nonWs ws.flatten := by
  induction ws with
  | nil => intro g g' h; simp [G.places] at h; subst h; simp
  | cons w ws ih =>
    intro g g' h
    simp only [G.places] at h
    cases h1 : g.place W w with
    | error e => simp [h1] at h
    | ok g1 =>
      simp only [h1] at h
      rw [ih g1 g' h, place_chars W g g1 w h1]; simp

theorem finish_flatten (g : G) : g.finish.flatten = g.chars := by
  unfold G.finish G.chars
  split
  · rename_i h; simp [h]
  · simp

/-- the reference neither loses, invents nor reorders a character of a word -/
theorem greedy_conserves (W : Nat) (ws : List (List Ch)) (ls : List (List Ch)) (h : greedy W ws = .ok ls) :
    nonWs ls.flatten = nonWs ws.flatten := by
  unfold greedy at h
  cases h1 : (⟨[], []⟩ : G).places W ws with
  | error e => simp [h1] at h
  | ok g =>
    simp only [h1] at h
    injection h with h; subst h
    rw [finish_flatten, places_chars W ws _ g h1]; simp [G.chars]

/-! ### the reference's lines fit -/

def Spec.G.Fits (W : Nat) (g : G) : Prop := (∀ l ∈ g.done, lwc l ≤ W) ∧ lwc g.cur ≤ W

theorem fillCh_fits (W : Nat) (g g' : G) (c : Ch) (hg : g.Fits W) (h : g.fillCh W c = .ok g') : g'.Fits W := by
  unfold G.fillCh at h
  split at h
  · injection h with h; subst h; exact ⟨hg.1, by simp; omega⟩
  · split at h
    · cases h
    · split at h
      · injection h with h; subst h
        refine ⟨?_, by simpa⟩
        intro l hl; simp at hl; rcases hl with hl | hl
        · exact hg.1 l hl
        · subst hl; exact hg.2
      · cases h

theorem fill_fits' (W : Nat) (word : List Ch) : ∀ (g g' : G), g.Fits W → g.fill W word = .ok g' → g'.Fits W := by
  induction word with
  | nil => intro g g' hg h; simp [G.fill] at h; subst h; exact hg
  | cons c cs ih =>
    intro g g' hg h
    simp only [G.fill] at h
    cases h1 : g.fillCh W c with
    | error e => simp [h1] at h
    | ok g1 => simp only [h1] at h; exact ih g1 g' (fillCh_fits W g g1 c hg h1) h

theorem newline_fits (W : Nat) (g : G) (hg : g.Fits W) : ({ done := g.done ++ [g.cur], cur := [] } : G).Fits W := by
  refine ⟨?_, by simp⟩
  intro l hl; simp at hl; rcases hl with hl | hl
  · exact hg.1 l hl
  · subst hl; exact hg.2

theorem place_fits (W : Nat) (g g' : G) (word : List Ch) (hg : g.Fits W) (h : g.place W word = .ok g') : g'.Fits W := by
  unfold G.place at h
  split at h
  · exact fill_fits' W word g g' hg h
  · split at h
    · rename_i hfit
      injection h with h; subst h
      exact ⟨hg.1, by simp [spaceCh] at hfit ⊢; omega⟩
    · exact fill_fits' W word _ g' (newline_fits W g hg) h

theorem places_fits (W : Nat) (ws : List (List Ch)) : ∀ (g g' : G), g.Fits W → g.places W ws = .ok g' → g'.Fits W := by
  induction ws with
  | nil => intro g g' hg h; simp [G.places] at h; subst h; exact hg
  | cons w ws ih =>
    intro g g' hg h
    simp only [G.places] at h
    cases h1 : g.place W w with
    | error e => simp [h1] at h
    | ok g1 => simp only [h1] at h; exact ih g1 g' (place_fits W g g1 w hg h1) h

/-- every line of the reference fits the width -/
theorem greedy_fits (W : Nat) (ws : List (List Ch)) (ls : List (List Ch)) (h : greedy W ws = .ok ls) :
    ∀ l ∈ ls, lwc l ≤ W := by
  unfold greedy at h
  cases h1 : (⟨[], []⟩ : G).places W ws with
  | error e => simp [h1] at h
  | ok g =>
    simp only [h1] at h
    injection h with h; subst h
    have hf := places_fits W ws _ g ⟨by simp, by simp⟩ h1
    intro l hl
    unfold G.finish at hl
    split at hl
    · exact hf.1 l hl
    · simp at hl; rcases hl with hl | hl
      · exact hf.1 l hl
      · subst hl; exact hf.2

/-! ### the words of a text -/

/-- the characters that make up words: neither whitespace nor without a width -/
def wordChars (l : List Ch) : List Ch := l.filter fun c => !c.ws && !c.ctrl

theorem wordsFrom_flatten : ∀ (cs pend : List Ch), (wordsFrom pend cs).flatten = pend ++ wordChars cs := by
  intro cs
  induction cs with
  | nil => intro pend; simp only [wordsFrom, wordChars]; split <;> simp_all
  | cons c cs ih =>
    intro pend
    simp only [wordsFrom]
    by_cases hws : c.ws = true
    · simp only [hws, if_true]
      have : wordChars (c :: cs) = wordChars cs := by simp [wordChars, hws]
      rw [this]
      split
      · rename_i hp; rw [ih]; simp [hp]
      · simp [ih]
    · have hws' : c.ws = false := by simpa using hws
      simp only [hws', Bool.false_eq_true, if_false]
      by_cases hct : c.ctrl = true
      · simp only [hct, if_true]
        have : wordChars (c :: cs) = wordChars cs := by simp [wordChars, hct]
        rw [this, ih]
      · have hct' : c.ctrl = false := by simpa using hct
        simp only [hct', Bool.false_eq_true, if_false]
        have : wordChars (c :: cs) = c :: wordChars cs := by simp [wordChars, hws', hct']
        rw [this, ih]; simp

theorem wordChars_nonWs (cs : List Ch) : nonWs (wordChars cs) = wordChars cs := by
  unfold nonWs wordChars
  rw [List.filter_filter]
  congr 1; funext c; cases c.ws <;> simp

/-- the words of a text are exactly its word characters, in order -/
theorem words_flatten (cs : List Ch) : (words cs).flatten = wordChars cs := by
  unfold words; rw [wordsFrom_flatten]; simp

end H2T
