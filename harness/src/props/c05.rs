//! C05: table borders form a consistent box drawing.

use super::common::*;
use super::tables::*;
use crate::cfg::{Cfg, Deco};
use crate::obs::Obs;
use crate::util::R;
use crate::{Case, Prop, Tier, Viol};

pub struct C05;

pub fn base_cfg() -> Cfg {
    Cfg::base(Deco::Plain)
}

pub fn table_cases(r: &mut R, tier: Tier, unique_only: bool) -> Vec<Case> {
    let mut v = Vec::new();
    // G-enum: tables up to 2x3 (quick: 2x2), 3 content classes, all colspan tilings
    let (mr, mc, mw) = if tier == Tier::Quick { (2usize, 2usize, 14usize) } else { (2, 3, 30) };
    for cols in 1..=mc {
        let tl = tilings(cols);
        for nrows in 1..=mr {
            // all combinations of tilings per row
            let mut combos: Vec<Vec<Vec<usize>>> = vec![vec![]];
            for _ in 0..nrows {
                let mut next = Vec::new();
                for c in &combos {
                    for t in &tl {
                        let mut x = c.clone();
                        x.push(t.clone());
                        next.push(x);
                    }
                }
                combos = next;
            }
            for combo in combos {
                // content classes: all assignments would explode; enumerate classes per table cyclically with 3 offsets
                for off in 0..3u64 {
                    let mut n = 0;
                    let rows: Vec<Vec<TCell>> = combo
                        .iter()
                        .map(|spans| {
                            spans
                                .iter()
                                .map(|s| {
                                    let tok = crate::gen::token_name(n) + "y";
                                    let class = (n as u64 + off) % 3;
                                    n += 1;
                                    let (html, nested) = cell_content(r, class, &tok, false);
                                    TCell { span: *s, token: if class == 0 { String::new() } else { tok }, html, nested }
                                })
                                .collect()
                        })
                        .collect();
                    let t = Table { cols, rows, thead: false };
                    for w in 1..=mw {
                        if tier == Tier::Quick && w % 2 == 0 && w > 6 {
                            continue;
                        }
                        let mut c = case(t.html(), base_cfg(), w, "g-enum");
                        c.aux = t.encode();
                        v.push(c);
                    }
                }
            }
        }
    }
    // sparse tables (columns empty in every row) at narrow widths: the window between "fits without the empty
    // columns' separators" and "fits with them"
    let ns = scale(tier, 400, 6000);
    for _ in 0..ns {
        let t = gen_sparse_table(r);
        for w in 1..=14usize {
            if tier == Tier::Quick && r.p(50) {
                continue;
            }
            let mut c = case(t.html(), base_cfg(), w, "sparse");
            c.aux = t.encode();
            v.push(c);
        }
    }
    // random regular tables
    let n = scale(tier, 2000, 30000);
    for _ in 0..n {
        let t = gen_table(r, 5, 6, 7, !unique_only);
        for _ in 0..(if tier == Tier::Quick { 3 } else { 6 }) {
            let w = if r.p(40) { 1 + r.u(20) } else { 1 + r.u(100) };
            let mut cfg = base_cfg();
            if r.p(10) {
                cfg.pad = true;
            }
            let mut c = case(t.html(), cfg, w, "random");
            c.aux = t.encode();
            v.push(c);
        }
    }
    v
}

impl Prop for C05 {
    fn id(&self) -> &'static str {
        "C05"
    }
    fn rule(&self) -> &'static str {
        "regular tables: exhaustive up to 2x3 (quick 2x2) with all colspan tilings and 3 content classes x widths 1..30 (quick 1..14), plus random 1..5 x 1..6 tables with empty/short/long/multi-line/wide/nested cells, thead/tbody, widths 1..100; plain decorator with borders; non-trivial = rendered Ok with at least one vertical bar"
    }
    fn cases(&self, r: &mut R, tier: Tier) -> Vec<Case> {
        table_cases(r, tier, false)
    }
    fn oracle(&self, c: &Case, o: &Obs) -> Vec<Viol> {
        let mut out = vec![];
        let t = match Table::decode(&c.aux) {
            Some(t) => t,
            None => return out,
        };
        let g = match grid(o) {
            Some(g) => g,
            None => return out,
        };
        if g.is_empty() {
            return out;
        }
        let weak = t.has_weak_column();
        let mut push = |out: &mut Vec<Viol>, msg: String| {
            if weak {
                out.push(known(msg, "C05-zero-width-column-in-colspan"));
            } else {
                out.push(viol(msg));
            }
        };
        // first and last lines are rules
        if !is_rule(&g[0]) || !is_rule(g.last().unwrap()) {
            push(&mut out, format!("first/last line is not a horizontal rule: {:?} / {:?}", g[0].iter().collect::<String>(), g.last().unwrap().iter().collect::<String>()));
            return out;
        }
        let w0 = g[0].len();
        let equal = g.iter().all(|l| l.len() == w0);
        let has_bar = g.iter().any(|l| l.contains(&'│'));
        if g.iter().any(|l| is_vsep(l)) || !equal {
            // stacked layout: full-width cells separated by full-width rules (cell lines are not padded)
            if has_bar && !t.has_nested() {
                push(&mut out, format!("lines of one side-by-side table differ in width (first rule {} columns)", w0));
                return out;
            }
            for (li, l) in g.iter().enumerate() {
                // rules of nested tables are narrower: with nesting only the outer frame and the cell separators are checked
                let outer = !t.has_nested() || is_vsep(l) || li == 0 || li + 1 == g.len();
                if outer && (is_rule(l) || is_vsep(l)) && l.len() != c.width {
                    push(&mut out, format!("stacked layout: rule {:?} is not {} columns wide", l.iter().collect::<String>(), c.width));
                    return out;
                }
                if l.len() > c.width {
                    push(&mut out, format!("stacked layout: line {:?} is wider than {}", l.iter().collect::<String>(), c.width));
                    return out;
                }
            }
            return out;
        }
        if w0 > c.width {
            push(&mut out, format!("table is {} columns wide at width {}", w0, c.width));
            return out;
        }
        // junction glyphs match bars above and below
        for i in 0..g.len() {
            for x in 0..g[i].len() {
                let ch = g[i][x];
                if !HGLYPHS.contains(&ch) {
                    continue;
                }
                let up = i > 0 && g[i - 1].get(x) == Some(&'│');
                let down = i + 1 < g.len() && g[i + 1].get(x) == Some(&'│');
                let want = match (up, down) {
                    (false, false) => '─',
                    (true, false) => '┴',
                    (false, true) => '┬',
                    (true, true) => '┼',
                };
                if ch != want {
                    push(&mut out, format!("line {i} column {x}: glyph {ch:?} but bar above = {up}, bar below = {down} (expected {want:?})"));
                    return out;
                }
            }
        }
        // rule/row alternation and bar alignment (tables without nested tables)
        if !t.has_nested() && has_bar {
            let mut band: Vec<usize> = Vec::new();
            let mut prev_rule = false;
            for (i, l) in g.iter().enumerate() {
                if is_rule(l) {
                    if prev_rule && i > 0 {
                        push(&mut out, format!("two horizontal rules in a row at line {i}"));
                        return out;
                    }
                    prev_rule = true;
                    band.clear();
                    continue;
                }
                prev_rule = false;
                let bars: Vec<usize> = l.iter().enumerate().filter(|(_, ch)| **ch == '│').map(|(x, _)| x).collect();
                if band.is_empty() && !bars.is_empty() {
                    band = bars.clone();
                } else if !band.is_empty() && bars != band {
                    push(&mut out, format!("bars move within one row: {:?} vs {:?} at line {i}", band, bars));
                    return out;
                } else if band.is_empty() && bars.is_empty() {
                    // single-column row
                }
            }
        }
        out
    }
    fn shrinkable(&self) -> bool {
        false
    }
    fn project(&self, _c: &Case, o: &Obs) -> String {
        text_only(o)
    }
    fn nontrivial(&self, _c: &Case, o: &Obs) -> bool {
        grid(o).map(|g| g.iter().any(|l| l.contains(&'│'))).unwrap_or(false)
    }
}
