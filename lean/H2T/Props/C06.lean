import H2T.Lemmas.Shrink

/-! # C06 — table cells stay in their columns; columns with text get space

The part of the property that is pure arithmetic is the column allocation of `render_table_tree`: the
initial proportional widths are reduced one column at a time until the row fits.  Status: **partial** — the
shrink loop is proved (terminates, never takes a column below zero, keeps the number of columns, exits with
`Σ widths + separators ≤ width`); that a column with text keeps a positive width is *refuted* for the
unchanged code in two situations, both recorded as known findings with witnesses replayed on every run
(a cell's estimate divided over its colspan rounds to zero; `min_wrap_width(0)` makes every minimum zero). -/

namespace H2T.C06

/-- **Column allocation fits.**  Under the side-by-side guard (`n − 1 ≤ width`, implied by
    `Σ min_width + (n−1) ≤ width`) and with enough fuel (the model passes `Σ w + 2`), the shrink loop returns —
    it neither hangs nor underflows — the same number of columns, with `Σ w + (n − 1) ≤ width`. -/
theorem allocation_fits (width : Nat) (cs : List SizeEst) (fuel : Nat) (ws : List Nat)
    (hl : ws.length ≤ cs.length) (hg : ws.length - 1 ≤ width) (hf : ws.sum < fuel) :
    ∃ ws', shrinkLoop width cs fuel ws = .ok ws' ∧ ws'.length = ws.length ∧ ws'.sum + ws'.length - 1 ≤ width :=
  shrinkLoop_ok width cs fuel ws hl hg hf

/-- the fuel `allocCols` supplies is enough -/
theorem allocCols_fuel (ws : List Nat) : ws.sum < ws.sum + 2 := by omega

/-- one shrink step takes exactly one column down by one -/
theorem shrink_step (ws : List Nat) (i : Nat) (hi : i < ws.length) (hp : 0 < ws[i]) :
    (decAt ws i).length = ws.length ∧ (decAt ws i).sum + 1 = ws.sum :=
  decAt_spec ws i hi hp

/-- the column that is shrunk has positive width whenever any column has: the loop never decrements a zero -/
theorem shrunk_column_positive (ws : List Nat) (cs : List SizeEst) (hl : ws.length ≤ cs.length) (hs : 0 < ws.sum) :
    ∃ k i, argmaxCol ws cs 0 none = some (k, i) ∧ ∃ hi : i < ws.length, 0 < ws[i] :=
  argmax_pos ws cs hl hs

/-! non-vacuity: three columns of 10 at width 12 are taken down to 3+3+4 (+2 separators = 12) -/
example : (shrinkLoop 12 [{ minW := 1 }, { minW := 1 }, { minW := 1 }] 40 [10, 10, 10]).toOption = some [3, 3, 4] := by decide

end H2T.C06
