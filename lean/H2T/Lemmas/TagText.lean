import H2T.Lemmas.TagRich
import H2T.Lemmas.ConserveTableTree

/-! C03 from C09: dropping the tags from `renderTree_tags` gives exact text conservation under decorators with visible
    block prefixes (the stock ones), on the content alphabet. -/

namespace H2T

theorem ink_eq_tink (l : TLine) : ink l = (tink l).map (·.ch) := by
  induction l with
  | nil => rfl
  | cons e l ih =>
    cases e with
    | frag n => simpa [ink, tink] using ih
    | cell c =>
      simp only [ink, tink, List.filterMap_cons] at ih ⊢
      by_cases hw : c.ch.ws = true
      · simpa [hw] using ih
      · simp [hw, ih]

theorem rink_eq_trink (l : RLine) (h : l.isText = true) : rink l = (trink l).map (·.ch) := by
  cases l with
  | text tl => exact ink_eq_tink tl
  | rule b t => simp [RLine.isText] at h

theorem flatMap_rink_eq (ls : List RLine) (h : ∀ l ∈ ls, l.isText = true) : ls.flatMap rink = (ls.flatMap trink).map (·.ch) := by
  induction ls with
  | nil => rfl
  | cons l ls ih =>
    simp only [List.flatMap_cons, List.map_append, rink_eq_trink l (h l (by simp)), ih (fun x hx => h x (by simp [hx]))]

theorem pf_map_ch (P : Ch → Bool) (cs : List Cell) : (pf P cs).map (·.ch) = (cs.map (·.ch)).filter P := by
  induction cs with
  | nil => rfl
  | cons c cs ih =>
    simp only [pf, List.filter_cons, List.map_cons] at ih ⊢
    by_cases hp : P c.ch = true
    · simp [hp, ih]
    · simp [hp, ih]

/-- a table-free program run from an empty renderer returns text lines only -/
theorem renderTree_text_lines (cfg : Cfg) (d : Deco) (w : Nat) (tree : RNode) (ls : List RLine) (hfn : cfg.footnotes = false)
    (hs : tableFreeOps (compile cfg d tree) = true) (h : renderTree cfg d w tree = .ok ls) : ∀ l ∈ ls, l.isText = true := by
  unfold renderTree at h
  split at h
  · simp at h
  · cases h1 : runOps SubR.widthMinus cfg d { cur := { width := w } } (compile cfg d tree) with
    | error e => simp [h1, andThen_error_eq] at h
    | ok t =>
      simp only [h1, andThen_ok_eq] at h
      have hnr := runOps_nr cfg d _ _ t hs (by intro l hl; simp at hl) h1
      have hf0 : footTexts cfg t.links = [] := by simp [footTexts, hfn]
      rw [hf0] at h
      simp only [List.isEmpty_nil, if_true] at h
      exact intoLines_text_of_nr t.cur ls hnr h

/-- **exact conservation of text under visible prefixes**: the `P`-characters of the output are the `P`-characters of the
    specification, in document order -/
theorem renderTree_chars (P : Ch → Bool) (cfg : Cfg) (d : Deco) (w : Nat) (tree : RNode) (ls : List RLine) (hfn : cfg.footnotes = false)
    (hd : DecoAvoids P d) (ht : plainTree tree = true) (h : renderTree cfg d w tree = .ok ls) :
    (ls.flatMap rink).filter P = ((nodeT cfg d [] 0 tree).map (·.ch)).filter P := by
  have hok := alphaOk_compile P cfg d hd tree ht
  rw [flatMap_rink_eq ls (renderTree_text_lines cfg d w tree ls hfn (alphaOks_tableFree P _ hok) h), ← pf_map_ch, ← pf_map_ch,
    renderTree_tags P cfg d w tree ls hfn hd ht h]

theorem tcells_ch (a : Tag) (x : List Ch) : (tcells a 0 x).map (·.ch) = keep x := by
  simp [tcells, tkeep, iterN, Function.comp_def]

mutual
/-- without the Unicode strikeout filter the specification's characters are the tree's raw text -/
theorem nodeT_chars (cfg : Cfg) (d : Deco) (hu : cfg.unicodeStrike = false) : (n : RNode) → (st : Tag) → plainTree n = true →
    (nodeT cfg d st 0 n).map (·.ch) = nodeRaw d n
  | .text sty s, st, _ => by simp [nodeT, nodeRaw, tcells_ch]
  | .img sty a b, st, _ => by simp [nodeT, nodeRaw, tcells_ch]
  | .br _, _, _ => by simp [nodeT, nodeRaw]
  | .frag _, _, _ => by simp [nodeT, nodeRaw]
  | .row _ _, _, _ => by simp [nodeT, nodeRaw]
  | .tbody _ _, _, _ => by simp [nodeT, nodeRaw]
  | .table _ rows _, _, h => by simp [plainTree] at h
  | .cell sty _ kids, st, h => by
    simp only [plainTree, Bool.and_eq_true] at h
    simp [nodeT, nodeRaw, listT_chars cfg d hu kids _ h.2]
  | .box sty k kids, st, h => by
    simp only [plainTree, Bool.and_eq_true] at h
    have hb := fun s => listT_chars cfg d hu kids s h.2
    cases k with
    | container => simp [nodeT, nodeRaw, hb]
    | link href => simp [nodeT, nodeRaw, hb, tcells_ch]
    | em => simp [nodeT, nodeRaw, hb, tcells_ch]
    | strong => simp [nodeT, nodeRaw, hb, tcells_ch]
    | strike => simp [nodeT, nodeRaw, hb, tcells_ch, hu]
    | code => simp [nodeT, nodeRaw, hb, tcells_ch]
    | block => simp [nodeT, nodeRaw, hb]
    | li => simp [nodeT, nodeRaw, hb]
    | header lvl => simp [nodeT, nodeRaw, hb]
    | div => simp [nodeT, nodeRaw, hb]
    | quote => simp [nodeT, nodeRaw, hb]
    | ul => simp [nodeT, nodeRaw, itemsT_chars cfg d hu kids _ h.2]
    | ol start => simp [nodeT, nodeRaw, itemsT_chars cfg d hu kids _ h.2]
    | dl => simp [nodeT, nodeRaw, hb]
    | dt => simp [nodeT, nodeRaw, hb, tcells_ch]
    | dd => simp [nodeT, nodeRaw, hb]
    | sup =>
      simp only [nodeT, nodeRaw]
      cases hsd : supDigits kids with
      | some ds => simp [tcells_ch]
      | none => simp [hb, tcells_ch]
theorem listT_chars (cfg : Cfg) (d : Deco) (hu : cfg.unicodeStrike = false) : (ns : List RNode) → (st : Tag) → plainTrees ns = true →
    (listT cfg d st 0 ns).map (·.ch) = listRaw d ns
  | [], _, _ => by simp [listT, listRaw]
  | n :: ns, st, h => by
    simp only [plainTrees, Bool.and_eq_true] at h
    simp [listT, listRaw, nodeT_chars cfg d hu n _ h.1, listT_chars cfg d hu ns _ h.2]
theorem itemsT_chars (cfg : Cfg) (d : Deco) (hu : cfg.unicodeStrike = false) : (ns : List RNode) → (st : Tag) → plainTrees ns = true →
    (itemsT cfg d st ns).map (·.ch) = listRaw d ns
  | [], _, _ => by simp [itemsT, listRaw]
  | n :: ns, st, h => by
    simp only [plainTrees, Bool.and_eq_true] at h
    simp [itemsT, listRaw, nodeT_chars cfg d hu n _ h.1, itemsT_chars cfg d hu ns _ h.2]
end

/-- **document text is conserved exactly under the stock decorators** (no tables, no `<pre>`, footnotes off, no Unicode
    strikeout): on every alphabet the block prefixes avoid, output characters = the tree's text, in document order -/
theorem renderTree_chars_raw (P : Ch → Bool) (cfg : Cfg) (d : Deco) (w : Nat) (tree : RNode) (ls : List RLine) (hfn : cfg.footnotes = false)
    (hu : cfg.unicodeStrike = false) (hd : DecoAvoids P d) (ht : plainTree tree = true) (h : renderTree cfg d w tree = .ok ls) :
    (ls.flatMap rink).filter P = (nodeRaw d tree).filter P := by
  rw [renderTree_chars P cfg d w tree ls hfn hd ht h, nodeT_chars cfg d hu tree [] ht]

end H2T
