import H2T.Lemmas.RenderFits
import H2T.Lemmas.DomFactor

/-! # C02 — no output line is wider than the requested width

Property theorems only (helper lemmas live in `H2T/Lemmas`).  Status: **proved for the whole model** —
`C02.lines_fit`: every line `renderTree` returns fits the requested width, for every render tree, configuration
and width: wrapped text in every white-space mode (tabs, padding, hard wrap), prefixed blocks at any nesting depth,
side-by-side table rows with border collapsing, stacked rows, column allocation, the footnote list, and the
programs `compile` emits (`compile_wf`).  Two hypotheses remain, both necessary:
* `DecoOk d` — within one ordered list no marker is wider than the wider of the first and last marker; proved for
  the three built-in decorators and the whole custom family (`builtin_decorators_ok`), false for a decorator that
  prints some middle number wider than both ends (the code then overflows too);
* every character of a link target is no wider than the line — the unguarded statement `lines_fit_full` is
  **refuted** by the known finding `C02-footnote-wide-char` (`lines_fit_full_refuted`), whose witness is replayed
  against the implementation on every run. -/

namespace H2T.C02

/-- display width of a rendered line -/
abbrev width (l : RLine) : Nat := rlw l

/-- **Unguarded statement**: whenever the model renders a tree with overflow off and link wrapping on, every line
    fits the width.  Refuted below (a link target containing a character wider than the whole line). -/
def lines_fit_full : Prop :=
  ∀ (cfg : Cfg) (d : Deco) (w : Nat) (tree : RNode) (ls : List RLine),
    cfg.overflow = false → cfg.wrapLinks = true →
    renderTree cfg d w tree = .ok ls → ∀ l ∈ ls, width l ≤ w

/-- **C02** for the whole model. -/
theorem lines_fit (cfg : Cfg) (d : Deco) (w : Nat) (tree : RNode) (ls : List RLine)
    (hov : cfg.overflow = false) (hwl : cfg.wrapLinks = true) (hd : DecoOk d)
    (hh : ∀ h ∈ nodeHrefs tree, ∀ c ∈ h, c.w ≤ w ∧ (c.ctrl = true → c.w = 0))
    (h : renderTree cfg d w tree = .ok ls) : ∀ l ∈ ls, width l ≤ w :=
  renderTree_lines_fit cfg d w tree ls hov hd (fun _ => ⟨hwl, hh⟩) h

/-- the hypothesis on decorators holds for plain, rich, trivial and every member of the custom family -/
theorem builtin_decorators_ok : DecoOk Deco.plain ∧ DecoOk Deco.rich ∧ DecoOk Deco.trivial ∧ ∀ f, DecoOk (Deco.ofFam f) :=
  ⟨plain_ok, rich_ok, trivial_ok, fam_ok⟩

/-- without footnotes neither link wrapping nor the link targets matter -/
theorem lines_fit_no_footnotes (cfg : Cfg) (d : Deco) (w : Nat) (tree : RNode) (ls : List RLine)
    (hov : cfg.overflow = false) (hd : DecoOk d) (hf : cfg.footnotes = false)
    (h : renderTree cfg d w tree = .ok ls) : ∀ l ∈ ls, width l ≤ w :=
  renderTree_lines_fit cfg d w tree ls hov hd (fun hfn => by simp [hf] at hfn) h

/-- some returned line is wider than `w` -/
def someLineWider (r : Except Err (List RLine)) (w : Nat) : Bool :=
  match r with
  | .ok ls => ls.any fun l => decide (width l > w)
  | .error _ => false

/-- the unguarded statement is false: `<a href="字">x</a>` at width 1 with footnotes — the footnote list is wrapped
    per character and a character of width 2 is emitted on its own line -/
theorem lines_fit_full_refuted : ¬ lines_fit_full := by
  intro h
  have hw : someLineWider (renderTree { footnotes := true } Deco.trivial 1
      (.box {} (.link [⟨0x5b57, 2, false, false⟩]) [.text {} (strCh "x")])) 1 = true := by decide +kernel
  cases hr : renderTree { footnotes := true } Deco.trivial 1
      (.box {} (.link [⟨0x5b57, 2, false, false⟩]) [.text {} (strCh "x")]) with
  | error e => rw [hr] at hw; simp [someLineWider] at hw
  | ok ls =>
    rw [hr] at hw
    simp only [someLineWider, List.any_eq_true, decide_eq_true_eq] at hw
    obtain ⟨l, hl, hgt⟩ := hw
    have := h _ _ _ _ ls rfl rfl hr l hl
    omega

/-- Wrap layer: a `WrappedBlock` that satisfies its invariant (every block reachable from `WrappedBlock::new`
    by `add_text`/`add_element` calls does — `addText_inv`) only emits lines that fit its width. -/
theorem wrap_lines_fit (b : WB) (ls : List TLine) (hi : b.Inv) (ho : b.overflow = false)
    (h : b.finish = .ok ls) : ∀ l ∈ ls, lw l ≤ b.width :=
  finish_lines_fit b ls hi ho h

/-- every sequence of `add_text` calls on a fresh block, then `into_lines`: all lines fit -/
theorem wrap_texts_fit (w : Nat) (pad : Bool) (texts : List (WS × Tag × Tag × List Ch)) (b : WB) (ls : List TLine)
    (hrun : texts.foldlM (fun (b : WB) (x : WS × Tag × Tag × List Ch) => b.addText x.1 x.2.1 x.2.2.1 x.2.2.2)
        ({ width := w, padBlocks := pad, overflow := false } : WB) = .ok b)
    (h : b.finish = .ok ls) : ∀ l ∈ ls, lw l ≤ w := by
  have key : ∀ (texts : List (WS × Tag × Tag × List Ch)) (b0 b : WB), b0.Inv → b0.overflow = false →
      texts.foldlM (fun (b : WB) (x : WS × Tag × Tag × List Ch) => b.addText x.1 x.2.1 x.2.2.1 x.2.2.2) b0 = .ok b →
      b.Inv ∧ b.overflow = false ∧ b.width = b0.width := by
    intro texts
    induction texts with
    | nil => intro b0 b hi ho hr; simp [List.foldlM, pure, Except.pure] at hr; subst hr; exact ⟨hi, ho, rfl⟩
    | cons x xs ih =>
      intro b0 b hi ho hr
      simp only [List.foldlM, bind, Except.bind] at hr
      cases h1 : b0.addText x.1 x.2.1 x.2.2.1 x.2.2.2 with
      | error e => simp [h1] at hr
      | ok b1 =>
        simp only [h1] at hr
        obtain ⟨i1, s1⟩ := addText_inv _ _ _ _ b0 b1 hi ho h1
        obtain ⟨i2, o2, w2⟩ := ih b1 b i1 (by rw [s1.overflow]; exact ho) hr
        exact ⟨i2, o2, by rw [w2, s1.width]⟩
  obtain ⟨hi, ho, hw⟩ := key texts _ b (new_inv w pad false) rfl hrun
  intro l hl
  have := finish_lines_fit b ls hi ho h l hl
  rw [hw] at this
  exact this

/-- `width_minus` returns a width that leaves room for the prefix (what the block layer needs of it) -/
theorem width_minus_contract (cfg : Cfg) (hov : cfg.overflow = false) (s : SubR) (p m w : Nat)
    (h : s.widthMinus cfg p m = .ok w) : w + p ≤ s.width :=
  widthMinus_contract cfg hov s p m w h

/-- Block layer (**partial**: table-free programs): any nesting of sub-renderers (quotes, list items,
    headings, definitions) whose prefixes are no wider than the width reserved for them, run from an empty
    renderer of width `w` with overflow off, yields only lines of width ≤ `w`. -/
theorem block_lines_fit_partial (cfg : Cfg) (d : Deco) (hov : cfg.overflow = false) (w : Nat) (ops : List Op)
    (hok : okOps ops = true) (t : RS) (ls : List RLine)
    (h1 : runOps SubR.widthMinus cfg d { cur := { width := w } } ops = .ok t) (h2 : t.cur.intoLines = .ok ls) :
    ∀ l ∈ ls, width l ≤ w :=
  block_lines_fit SubR.widthMinus cfg d (widthMinus_contract cfg hov) hov w ops hok t ls h1 h2

/-! ## non-vacuity: concrete inputs that meet the hypotheses -/

/-- "aaa bb" at width 4 wraps into two lines and both fit -/
example : (({ width := 4 } : WB).addText .normal [] [] (strCh "aaa bb")).toOption.bind
    (fun b => b.finish.toOption.map (·.map lw)) = some [3, 2] := by decide

/-- a quote containing a list item is an `okOps` program, renders, and fits width 8 -/
example :
    let ops : List Op := [.sub 2 3 (strCh "> ") (strCh "> ") true [.sub 2 1 (strCh "* ") (strCh "  ") false [.text (strCh "hello world")]]]
    okOps ops = true ∧
    ((runOps SubR.widthMinus {} Deco.plain { cur := { width := 8 } } ops).toOption.bind
      (fun t => t.cur.intoLines.toOption.map (·.map rlw))) = some [8, 5, 8, 5] := by decide

/-- `lines_fit` is not vacuous: a document with a quote, an ordered list, a two-row table with a colspan cell and a
    link renders at width 12 with footnotes, its hypotheses hold, and the widest line is exactly 12 -/
example :
    let tree : RNode := .box {} .container [
      .box {} .quote [.box {} (.ol 9) [.box {} .li [.text {} (strCh "alpha beta")], .box {} .li [.text {} (strCh "gamma")]]],
      .table {} [.row {} [.cell {} 1 [.text {} (strCh "aa")], .cell {} 1 [.box {} (.link (strCh "u")) [.text {} (strCh "bb")]]],
                 .row {} [.cell {} 2 [.text {} (strCh "cccc dddd")]]] 2]
    (∀ h ∈ nodeHrefs tree, ∀ c ∈ h, c.w ≤ 12 ∧ (c.ctrl = true → c.w = 0)) ∧
    ((renderTree { footnotes := true } Deco.plain 12 tree).toOption.map fun ls => (ls.map width).foldl max 0) = some 12 := by
  refine ⟨?_, by decide +kernel⟩
  intro h hh c hc
  have : h = strCh "u" := by simpa [nodeHrefs, listHrefs, rowsHrefs, cellsHrefs] using hh
  subst this
  have := strCh_ok "u" c hc
  exact ⟨by omega, by simp [this.2]⟩

/-! ## the whole pipeline -/

/-- **C02 for the whole pipeline** (style sheets → tree building → rendering): whatever the document and the style sheets,
    every line of a `.lines` outcome fits the width — under the hypotheses of `lines_fit`, the one about link targets
    stated for the tree the front end builds -/
theorem pipeline_lines_fit (cfg : Cfg) (d : Deco) (w : Nat) (useDoc : Bool) (agentCss userCss : Option (List Char))
    (ci : CharInfo) (depth : Nat) (dom : Node) (ls : List RLine)
    (hov : cfg.overflow = false) (hwl : cfg.wrapLinks = true) (hd : DecoOk d)
    (hh : ∀ tree, domTree cfg.decorate useDoc agentCss userCss ci depth dom = .ok tree →
      ∀ h ∈ nodeHrefs tree, ∀ c ∈ h, c.w ≤ w ∧ (c.ctrl = true → c.w = 0))
    (h : renderDom cfg d w useDoc agentCss userCss ci depth dom = .lines ls) : ∀ l ∈ ls, width l ≤ w := by
  obtain ⟨tree, hdt, _, hr⟩ := renderDom_lines cfg d w useDoc agentCss userCss ci depth dom ls h
  exact lines_fit cfg d w tree ls hov hwl hd (hh tree hdt) hr

/-- without footnotes no hypothesis about the document is left -/
theorem pipeline_lines_fit_no_footnotes (cfg : Cfg) (d : Deco) (w : Nat) (useDoc : Bool) (agentCss userCss : Option (List Char))
    (ci : CharInfo) (depth : Nat) (dom : Node) (ls : List RLine)
    (hov : cfg.overflow = false) (hd : DecoOk d) (hf : cfg.footnotes = false)
    (h : renderDom cfg d w useDoc agentCss userCss ci depth dom = .lines ls) : ∀ l ∈ ls, width l ≤ w := by
  obtain ⟨tree, _, _, hr⟩ := renderDom_lines cfg d w useDoc agentCss userCss ci depth dom ls h
  exact lines_fit_no_footnotes cfg d w tree ls hov hd hf hr

end H2T.C02
