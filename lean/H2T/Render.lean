import H2T.Tree

/-! SubRenderer / TextRenderer operations, compile (do_render_node) and step. No tables yet. -/

namespace H2T

structure Cfg where
  wrapWidth : Option Nat := none
  padBlocks : Bool := false
  overflow : Bool := false
  minWrap : Nat := 3
  wrapLinks : Bool := true
  footnotes : Bool := false
  unicodeStrike : Bool := true
  decorate : Bool := false
  raw : Bool := false
  drawBorders : Bool := true
deriving Repr

inductive Seg | straight | above | below | cross | vert
deriving Repr, DecidableEq

def Seg.joinAbove : Seg → Seg
  | .straight | .above => .above
  | .below | .cross => .cross
  | .vert => .vert
def Seg.joinBelow : Seg → Seg
  | .straight | .below => .below
  | .above | .cross => .cross
  | .vert => .vert
def Seg.glyph : Seg → Nat
  | .straight => 0x2500 | .vert => 47 | .above => 0x2534 | .below => 0x252c | .cross => 0x253c
def Seg.isJoin : Seg → Bool | .above | .below | .cross => true | _ => false

abbrev Border := List Seg
def Border.stretch (b : Border) (w : Nat) : Border := b ++ List.replicate (w - b.length) Seg.straight
def Border.joinAbove (b : Border) (x : Nat) : Border := (b.stretch (x + 1)).modify x Seg.joinAbove
def Border.joinBelow (b : Border) (x : Nat) : Border := (b.stretch (x + 1)).modify x Seg.joinBelow
def Border.mergeFromBelow (b : Border) (other : Border) (pos : Nat) : Border :=
  (other.zipIdx.foldl (fun acc (sg, i) => if sg.isJoin then Border.joinBelow acc (i + pos) else acc) b)
def Border.mergeFromAbove (b : Border) (other : Border) (pos : Nat) : Border :=
  (other.zipIdx.foldl (fun acc (sg, i) => if sg.isJoin then Border.joinAbove acc (i + pos) else acc) b)
def Border.chars (b : Border) : List Ch := b.map fun sg => mkCh sg.glyph
/-- to_vertical_lines_above -/
def Border.vertAbove (b : Border) : List Ch := b.map fun sg =>
  match sg with | .above | .cross => mkCh 0x2502 | _ => spaceCh

inductive RLine
  | text (l : TLine)
  | rule (b : Border) (tag : Tag)
deriving Repr

def RLine.hasContent : RLine → Bool | .text l => !l.noContent | .rule .. => false

structure SubR where
  width : Nat
  lines : List RLine := []
  pendingFrags : List Elt := []
  atBlockEnd : Bool := false
  wrapping : Option WB := none
  annStack : Tag := []
  filterDepth : Nat := 0
  preDepth : Nat := 0
  wsStack : List WS := []
deriving Repr

def SubR.wsMode (s : SubR) : WS := s.wsStack.getLast?.getD .normal

/-- add_line: pending fragments are prepended to a text line -/
def SubR.addLine (s : SubR) (l : RLine) : SubR :=
  match l with
  | .text tl =>
    if s.pendingFrags.isEmpty then { s with lines := s.lines ++ [.text tl] }
    else { s with lines := s.lines ++ [.text (s.pendingFrags ++ tl)], pendingFrags := [] }
  | .rule b t => { s with lines := s.lines ++ [.rule b t] }

def SubR.addLines (s : SubR) (ls : List RLine) : SubR := ls.foldl SubR.addLine s

def SubR.flushWrapping (s : SubR) : Except Err SubR :=
  match s.wrapping with
  | none => .ok s
  | some w =>
    let frags := if w.word.noContent then w.word else []
    let w' := if w.word.noContent then { w with word := [] } else w
    andThen w'.finish fun ls =>
    let s1 := ({ s with wrapping := none } : SubR).addLines (ls.map RLine.text)
    .ok { s1 with pendingFrags := s1.pendingFrags ++ frags }

def SubR.addEmptyLine (s : SubR) : Except Err SubR :=
  andThen s.flushWrapping fun s1 => .ok { (s1.addLine (.text [])) with atBlockEnd := false }

def SubR.startBlock (s : SubR) : Except Err SubR :=
  andThen s.flushWrapping fun s1 =>
  andThen (if s1.lines.any RLine.hasContent then s1.addEmptyLine else .ok s1) fun s2 =>
  .ok { s2 with atBlockEnd := false }

def SubR.newLineHard (s : SubR) : Except Err SubR :=
  match s.wrapping with
  | none => s.addEmptyLine
  | some w => if w.wordlen = 0 && w.linelen = 0 then s.addEmptyLine else s.flushWrapping

def strikeFilter (s : List Ch) : List Ch :=
  s.flatMap fun c => if !c.ws && (if c.ctrl then 0 else c.w) > 0 then [c, ⟨0x336, 0, false, false⟩] else [c]

def iterN {α : Type} (f : α → α) : Nat → α → α
  | 0, a => a
  | n + 1, a => iterN f n (f a)

def SubR.getWrapping (s : SubR) (cfg : Cfg) : WB :=
  match s.wrapping with
  | some w => w
  | none =>
    let ww := match cfg.wrapWidth with | some m => min m s.width | none => s.width
    { width := ww, padBlocks := cfg.padBlocks, overflow := cfg.overflow }

def SubR.addInlineText (s : SubR) (cfg : Cfg) (text : List Ch) (annOf : Ann → Ann := fun _ => Ann.unit) : Except Err SubR :=
  if !s.wsMode.preserve && s.atBlockEnd && text.all chIsWs then .ok s else
  andThen (if s.atBlockEnd then s.startBlock else .ok s) fun s =>
  let filtered := iterN strikeFilter s.filterDepth text
  let w := s.getWrapping cfg
  let mainTag := if s.preDepth > 0 then s.annStack ++ [annOf (Ann.pre false)] else s.annStack
  let contTag := if s.preDepth > 0 then s.annStack ++ [annOf (Ann.pre true)] else s.annStack
  andThen (w.addText s.wsMode mainTag contTag filtered) fun w' => .ok { s with wrapping := some w' }

def SubR.recordFrag (s : SubR) (cfg : Cfg) (name : List Ch) : SubR :=
  { s with wrapping := some ((s.getWrapping cfg).addElement (.frag name)) }

def SubR.widthMinus (s : SubR) (cfg : Cfg) (prefixLen minW : Nat) : Except Err Nat :=
  let nw := s.width - prefixLen
  if (nw < minW || s.width < prefixLen) && !cfg.overflow then .error .tooNarrow else .ok (max nw minW)

def SubR.intoLines (s : SubR) : Except Err (List RLine) :=
  andThen s.flushWrapping fun s1 => .ok s1.lines

def prefixLine (tag : Tag) (pfx : List Ch) : RLine → RLine
  | .text tl => if pfx.isEmpty then .text tl else .text (pfx.map (fun c => Elt.cell ⟨c, tag⟩) ++ tl)
  | .rule b _ => .text ((pfx ++ b.chars).map (fun c => Elt.cell ⟨c, tag⟩))

def zipPrefix (tag : Tag) (first rest : List Ch) : List RLine → List RLine
  | [] => []
  | l :: ls => prefixLine tag first l :: ls.map (prefixLine tag rest)

def SubR.appendSub (s : SubR) (other : SubR) (first rest : List Ch) : Except Err SubR :=
  andThen s.flushWrapping fun s1 =>
  andThen other.intoLines fun ls =>
  .ok (s1.addLines (zipPrefix s1.annStack first rest ls))

def padLine (tag : Tag) (w : Nat) : RLine → RLine
  | .text tl => .text (tl ++ List.replicate (w - lw tl) (spc tag))
  | .rule b t => .rule (b.stretch w) t

def SubR.empty (s : SubR) : Bool :=
  s.lines.isEmpty && (match s.wrapping with | some w => w.textLen == 0 | none => true)

def setLast {α : Type} (l : List α) (a : α) : List α := l.dropLast ++ [a]

/-- the padded line sets of the cells, with each cell's width (first failing cell's error wins) -/
def colSets (ann : Tag) : List SubR → Except Err (List (Nat × List RLine))
  | [] => .ok []
  | c :: cs =>
    andThen c.intoLines fun ls =>
    andThen (colSets ann cs) fun r => .ok ((c.width, ls.map (padLine ann c.width)) :: r)

/-- collapse top borders (`pos` = x offset of the cell, advanced by `w + 1` per cell as in the code): a cell whose
    first line is a rule merges it into the previous line -/
def collapseTop : Option Border → Nat → List (Nat × List RLine) → Except Err (Option Border × List (Nat × List RLine))
  | prev, _, [] => .ok (prev, [])
  | prev, pos, st :: r =>
    match st.2 with
    | .rule b _ :: restLines =>
      (match prev with
       | some pb => andThen (collapseTop (some (pb.mergeFromBelow b pos)) (pos + st.1 + 1) r) fun (p, out) => .ok (p, (st.1, restLines) :: out)
       | none => .error (.panic "No previous line / unreachable (collapse top border)"))
    | _ => andThen (collapseTop prev (pos + st.1 + 1) r) fun (p, out) => .ok (p, st :: out)

/-- collapse bottom borders: a cell whose last line is a rule merges it into the next border; the cell is padded
    below with the vertical continuation of that rule -/
def collapseBottom : Border → Nat → List (Nat × List RLine) → Border × List (Nat × List RLine) × List (Option (List Ch))
  | nb, _, [] => (nb, [], [])
  | nb, pos, st :: r =>
    match st.2.getLast? with
    | some (.rule b _) =>
      let (nb', out, pads) := collapseBottom (nb.mergeFromAbove b pos) (pos + st.1 + 1) r
      (nb', (st.1, st.2.dropLast) :: out, some b.vertAbove :: pads)
    | _ =>
      let (nb', out, pads) := collapseBottom nb (pos + st.1 + 1) r
      (nb', st :: out, none :: pads)

/-- what a cell contributes to output line `i` of its row -/
def colLineBody (ann : Tag) (i : Nat) (st : Nat × List RLine) (pad : Option (List Ch)) : TLine :=
  match st.2[i]? with
  | some (.text tl) => tl
  | some (.rule b _) => b.chars.map fun c => Elt.cell ⟨c, ann⟩
  | none => (pad.getD (List.replicate st.1 spaceCh)).map fun c => Elt.cell ⟨c, ann⟩

/-- output line `i` of a row: the cells' contributions with a separator after every cell but the last -/
def colLine (ann : Tag) (sep : Ch) (i : Nat) : List ((Nat × List RLine) × Option (List Ch)) → TLine
  | [] => []
  | [(st, pad)] => colLineBody ann i st pad
  | (st, pad) :: r => colLineBody ann i st pad ++ [Elt.cell ⟨sep, ann⟩] ++ colLine ann sep i r

/-- x positions of the vertical bars between the cells: right edge of every cell but the last -/
def barPositions (pos : Nat) : List (Nat × List RLine) → List Nat
  | [] => []
  | [_] => []
  | st :: r => (pos + st.1) :: barPositions (pos + st.1 + 1) r

/-- join the vertical bars of the row to the previous line (if it is a rule) and to the row's bottom border -/
def SubR.joinBars (s : SubR) (sets : List (Nat × List RLine)) (tot : Nat) : Option Border × Border :=
  let next0 : Border := List.replicate tot Seg.straight
  match s.lines.getLast? with
  | some (.rule pb _) =>
    let js := barPositions 0 sets
    (some (js.foldl Border.joinBelow pb), js.foldl Border.joinAbove next0)
  | _ => (none, next0)

/-- write the (joined, merged) previous border back -/
def SubR.setLastRule (s : SubR) (prev : Option Border) : SubR :=
  match prev with
  | some pb => (match s.lines.getLast? with
      | some (.rule _ t) => { s with lines := setLast s.lines (.rule pb t) }
      | _ => s)
  | none => s

/-- the text lines of the row, then its bottom border -/
def SubR.emitColumns (s : SubR) (cfg : Cfg) (ann : Tag) (sets3 : List (Nat × List RLine)) (pads : List (Option (List Ch))) (next2 : Border) : SubR :=
  let height := (sets3.map (·.2.length)).foldl max 0
  let sep : Ch := if cfg.drawBorders then mkCh 0x2502 else spaceCh
  let s2 := s.addLines ((List.range height).map fun i => RLine.text (colLine ann sep i (sets3.zip pads)))
  if cfg.drawBorders then s2.addLine (.rule next2 ann) else s2

/-- append_columns_with_borders(cols, collapse = true) -/
def SubR.appendColumns (s : SubR) (cfg : Cfg) (cols : List SubR) : Except Err SubR :=
  andThen s.flushWrapping fun s =>
  andThen (colSets s.annStack cols) fun (sets : List (Nat × List RLine)) =>
  if sets.isEmpty then .error (.panic "line_sets.len() - 1") else
  let tot := (sets.map (·.1)).sum + (sets.length - 1)
  let pn := s.joinBars sets tot
  andThen (collapseTop pn.1 0 sets) fun (prev2, sets2) =>
  let r := collapseBottom pn.2 0 sets2
  .ok ((s.setLastRule prev2).emitColumns cfg s.annStack r.2.1 r.2.2 r.1)

/-- the cells of a stacked row, one below the other, separated by `/////` rules -/
def vertCells (cfg : Cfg) (first : Bool) (s : SubR) : List SubR → Except Err SubR
  | [] => .ok s
  | c :: cs =>
    andThen (if !first && cfg.drawBorders then
        andThen s.flushWrapping fun s' => .ok (s'.addLine (.rule (List.replicate s.width Seg.vert) s'.annStack))
      else .ok s) fun s' =>
    andThen (s'.appendSub c [] []) fun s'' => vertCells cfg false s'' cs

/-- append_vert_row -/
def SubR.appendVertRow (s : SubR) (cfg : Cfg) (cols : List SubR) : Except Err SubR :=
  andThen s.flushWrapping fun s =>
  andThen (vertCells cfg true s cols) fun s1 =>
  if cfg.drawBorders then andThen s1.flushWrapping fun s2 => .ok (s2.addLine (.rule (List.replicate s2.width Seg.straight) s2.annStack))
  else .ok s1

/-- the top border of a table (drawn when the table has any width) -/
def SubR.tableTop (s : SubR) (cfg : Cfg) (tw : Nat) : Except Err SubR :=
  if tw ≠ 0 && cfg.drawBorders then
    andThen s.flushWrapping fun s2 => .ok (s2.addLine (.rule (List.replicate tw Seg.straight) s2.annStack))
  else .ok s

/-- a finished row: stacked, side by side, or nothing when every cell is empty -/
def SubR.appendRow (s : SubR) (cfg : Cfg) (vert : Bool) (subs : List SubR) : Except Err SubR :=
  if vert then s.appendVertRow cfg subs
  else if subs.any (fun c => !c.empty) then s.appendColumns cfg subs else .ok s

/-- `col_sizes[colno]` / `col_sizes[colno..colno + colspan]` would be out of bounds -/
def cellOob (ws : List Nat) (vert : Bool) (colno colspan : Nat) : Bool :=
  if vert then decide (colno ≥ ws.length) else decide (colno + colspan > ws.length)

/-- width of the columns a cell spans (stacked: the full width kept in `col_sizes[colno]`) -/
def cellInner (ws : List Nat) (vert : Bool) (colno colspan : Nat) : Nat :=
  if vert then ws.getD colno 0 else ((ws.drop colno).take colspan).sum
/-- the cell's renderer also gets the separators between the columns it spans -/
def cellOuter (vert : Bool) (cw colspan : Nat) : Nat := if vert then cw else cw + colspan - 1

/-- render state: the global link list and the sub-renderer currently on top of the (implicit) stack -/
structure RS where
  links : List (List Ch) := []
  cur : SubR
deriving Repr

/-- nested operation programs: a sub-renderer, a table, a row and a cell own their bodies -/
inductive Op
  | pushWs (ws : WS) | popWs | pushPre | popPre
  | pushAnn (a : Ann) | popAnn
  | text (s : List Ch)
  | frag (name : List Ch)
  | startLink (href : List Ch) | endLink
  | startAnn (a : Ann) (s : List Ch) (strike : Bool) | endAnn (s : List Ch) (strike : Bool)
  | image (src title : List Ch)
  | startBlock | endBlock | newLine | newLineHard
  /-- width_minus + new_sub_renderer + push; body; pop + (start_block) + append_subrender + (end_block) -/
  | sub (prefixLen minW : Nat) (first rest : List Ch) (asBlock : Bool) (body : List Op)
  | table (cols : List SizeEst) (rows : List Op)
  | row (pre post : List Op) (cells : List Op)
  | cell (colno colspan : Nat) (body : List Op)
deriving Repr

def RS.onCur (t : RS) (f : SubR → Except Err SubR) : Except Err RS :=
  andThen (f t.cur) fun s' => .ok { t with cur := s' }

def natCh (n : Nat) : List Ch := strCh (toString n)

/-- `max_by_key` key of a column: (slack over its minimum, width, usize::MAX - index) -/
def colKey (w minW i : Nat) : Nat × Nat × Nat := (w - minW, w, 18446744073709551615 - i)
def keyLe (a b : Nat × Nat × Nat) : Bool :=
  a.1 < b.1 || (a.1 = b.1 && (a.2.1 < b.2.1 || (a.2.1 = b.2.1 && a.2.2 ≤ b.2.2)))

/-- index of the maximal key (the last one among equals, as `Iterator::max_by_key`) -/
def argmaxCol : List Nat → List SizeEst → Nat → Option ((Nat × Nat × Nat) × Nat) → Option ((Nat × Nat × Nat) × Nat)
  | w :: ws, c :: cs, i, acc =>
    let k := (colKey w c.minW i, i)
    argmaxCol ws cs (i + 1) (match acc with
      | none => some k
      | some a => if keyLe a.1 k.1 then some k else some a)
  | _, _, _, acc => acc

def decAt : List Nat → Nat → List Nat
  | [], _ => []
  | w :: ws, 0 => (w - 1) :: ws
  | w :: ws, i + 1 => w :: decAt ws i

/-- render_table_tree: the shrink loop -/
def shrinkLoop (width : Nat) (cols : List SizeEst) : Nat → List Nat → Except Err (List Nat)
  | 0, _ => .error (.hang "table shrink loop")
  | fuel + 1, ws =>
    if ws.sum + ws.length - 1 ≤ width then .ok ws else
    match argmaxCol ws cols 0 none with
    | none => .error (.panic "max_by_key unwrap")
    | some (_, i) =>
      if ws.getD i 0 = 0 then .error (.panic "col_widths[i] -= 1 underflow") else
      shrinkLoop width cols fuel (decAt ws i)

def allocCols (cfg : Cfg) (width : Nat) (cols : List SizeEst) : Except Err (List Nat × Bool × Nat) :=
  let tot := (cols.map (·.size)).sum
  let minSize := (cols.map (·.minW)).sum + (cols.length - 1)
  let vert := cfg.raw || (minSize > width || width = 0)
  if vert then .ok (cols.map fun _ => width, true, width) else
  let init := cols.map fun sz =>
    if sz.size = 0 then 0 else
      min sz.size (if 18446744073709551615 / width ≤ sz.size then max ((width / tot) * sz.size) sz.minW
                   else max (sz.size * width / tot) sz.minW)
  andThen (if init.isEmpty then .ok init else shrinkLoop width cols (init.sum + 2) init) fun ws =>
  .ok (ws, false, ws.sum + ((ws.filter (· > 0)).length - 1))

/-- the operations that only touch the current sub-renderer and the link list -/
def stepSimple (cfg : Cfg) (d : Deco) (t : RS) : Op → Except Err RS
  | .pushWs ws => t.onCur fun s => .ok { s with wsStack := s.wsStack ++ [ws] }
  | .popWs => t.onCur fun s => .ok { s with wsStack := s.wsStack.dropLast }
  | .pushAnn a => t.onCur fun s => .ok { s with annStack := s.annStack ++ [a] }
  | .popAnn => t.onCur fun s => .ok { s with annStack := s.annStack.dropLast }
  | .pushPre => t.onCur fun s => .ok { s with preDepth := s.preDepth + 1 }
  | .popPre => t.onCur fun s => if s.preDepth = 0 then .error (.panic "pre_depth") else .ok { s with preDepth := s.preDepth - 1 }
  | .text x => t.onCur fun s => s.addInlineText cfg x d.annOf
  | .frag n => t.onCur fun s => .ok (s.recordFrag cfg n)
  | .startLink href =>
    ({ t with links := t.links ++ [href] } : RS).onCur fun s =>
      ({ s with annStack := s.annStack ++ [d.annOf (Ann.link href)] } : SubR).addInlineText cfg d.linkStart d.annOf
  | .endLink =>
    andThen (t.onCur fun s => andThen (s.addInlineText cfg d.linkEnd d.annOf) fun s' => .ok { s' with annStack := s'.annStack.dropLast }) fun t' =>
    if cfg.footnotes then t'.onCur fun s => s.addInlineText cfg (strCh "[" ++ natCh t'.links.length ++ strCh "]") d.annOf
    else .ok t'
  | .startAnn a x strike => t.onCur fun s =>
    andThen (({ s with annStack := s.annStack ++ [d.annOf a] } : SubR).addInlineText cfg x d.annOf) fun s' =>
    .ok (if strike && cfg.unicodeStrike then { s' with filterDepth := s'.filterDepth + 1 } else s')
  | .endAnn x strike => t.onCur fun s =>
    let s0 := if strike && cfg.unicodeStrike then { s with filterDepth := s.filterDepth - 1 } else s
    andThen (s0.addInlineText cfg x d.annOf) fun s' => .ok { s' with annStack := s'.annStack.dropLast }
  | .image src title => t.onCur fun s =>
    andThen (({ s with annStack := s.annStack ++ [d.annOf (Ann.image src)] } : SubR).addInlineText cfg (d.imgText title) d.annOf) fun s' =>
    .ok { s' with annStack := s'.annStack.dropLast }
  | .startBlock => t.onCur SubR.startBlock
  | .endBlock => t.onCur fun s => .ok { s with atBlockEnd := true }
  | .newLine => t.onCur SubR.flushWrapping
  | .newLineHard => t.onCur SubR.newLineHard
  | _ => .ok t

mutual
def runOp (wm : SubR → Cfg → Nat → Nat → Except Err Nat) (cfg : Cfg) (d : Deco) (t : RS) : Op → Except Err RS
  | .sub p m first rest asBlock body =>
    andThen (wm t.cur cfg p m) fun w =>
    andThen (runOps wm cfg d { links := t.links, cur := ({ width := w, annStack := t.cur.annStack } : SubR) } body) fun r =>
    andThen (if asBlock then t.cur.startBlock else .ok t.cur) fun s1 =>
    andThen (s1.appendSub r.cur first rest) fun s2 =>
    .ok { links := r.links, cur := if asBlock then { s2 with atBlockEnd := true } else s2 }
  | .table cols rows =>
    andThen (allocCols cfg t.cur.width cols) fun (ws, vert, tw) =>
    andThen t.cur.startBlock fun s1 =>
    andThen (s1.tableTop cfg tw) fun s3 =>
    runRows wm cfg d ws vert { t with cur := s3 } rows
  | .row _ _ _ => .ok t            -- rows only occur inside tables
  | .cell _ _ _ => .ok t           -- cells only occur inside rows
  | op => stepSimple cfg d t op
def runOps (wm : SubR → Cfg → Nat → Nat → Except Err Nat) (cfg : Cfg) (d : Deco) (t : RS) : List Op → Except Err RS
  | [] => .ok t
  | op :: ops => andThen (runOp wm cfg d t op) fun t' => runOps wm cfg d t' ops
def runRows (wm : SubR → Cfg → Nat → Nat → Except Err Nat) (cfg : Cfg) (d : Deco) (ws : List Nat) (vert : Bool) (t : RS) : List Op → Except Err RS
  | [] => .ok t
  | .row pre post cells :: rs =>
    andThen (runOps wm cfg d t pre) fun t1 =>
    andThen (runCells wm cfg d ws vert t1.cur.annStack t1.links cells) fun (links, subs) =>
    andThen (t1.cur.appendRow cfg vert subs) fun s2 =>
    andThen (runOps wm cfg d { links := links, cur := s2 } post) fun t3 =>
    runRows wm cfg d ws vert t3 rs
  | _ :: rs => runRows wm cfg d ws vert t rs
def runCells (wm : SubR → Cfg → Nat → Nat → Except Err Nat) (cfg : Cfg) (d : Deco) (ws : List Nat) (vert : Bool) (ann : Tag) (links : List (List Ch)) :
    List Op → Except Err (List (List Ch) × List SubR)
  | [] => .ok (links, [])
  | .cell colno colspan body :: cs =>
    -- `col_sizes[colno]` / `col_sizes[colno..colno + colspan]` are bounds-checked
    if cellOob ws vert colno colspan then .error (.panic "into_cells col_sizes index") else
    if cellInner ws vert colno colspan = 0 then runCells wm cfg d ws vert ann links cs
    else
      andThen (runOps wm cfg d { links := links, cur := ({ width := cellOuter vert (cellInner ws vert colno colspan) colspan, annStack := ann } : SubR) } body) fun r =>
      andThen (runCells wm cfg d ws vert ann r.links cs) fun (l2, subs) => .ok (l2, r.cur :: subs)
  | _ :: cs => runCells wm cfg d ws vert ann links cs
end

def styleOpen (d : Deco) (st : Style) : List Op :=
  (match st.fg with | some c => if d.colours then [Op.pushAnn (.fg c.r c.g c.b)] else [] | none => []) ++
  (match st.bg with | some c => if d.colours then [Op.pushAnn (.bg c.r c.g c.b)] else [] | none => []) ++
  (match st.ws with | some .pre => [Op.pushWs .pre] | some .preWrap => [Op.pushWs .preWrap] | _ => []) ++
  (if st.pre then [Op.pushPre] else [])
def styleClose (d : Deco) (st : Style) : List Op :=
  (match st.bg with | some _ => if d.colours then [Op.popAnn] else [] | none => []) ++
  (match st.fg with | some _ => if d.colours then [Op.popAnn] else [] | none => []) ++
  (match st.ws with | some .pre => [Op.popWs] | some .preWrap => [Op.popWs] | _ => []) ++
  (if st.pre then [Op.popPre] else [])

def supDigits (kids : List RNode) : Option (List Ch) :=
  match kids with
  | [.text _ s] =>
    if s.all (fun c => 48 ≤ c.cp && c.cp ≤ 57) then
      let tbl : List Nat := [0x2070, 0xb9, 0xb2, 0xb3, 0x2074, 0x2075, 0x2076, 0x2077, 0x2078, 0x2079]
      some (s.map fun c => mkCh (tbl.getD (c.cp - 48) 0))
    else none
  | _ => none

/-- pad a marker with spaces to display width `n` -/
def padTo (s : List Ch) (n : Nat) : List Ch := s ++ List.replicate (n - dispW s) spaceCh

mutual
/-- do_render_node as a nested operation program -/
def compile (cfg : Cfg) (d : Deco) : RNode → List Op
  | .text st s => styleOpen d st ++ [.text s] ++ styleClose d st
  | .img st src title => styleOpen d st ++ [.image src title] ++ styleClose d st
  | .br st => styleOpen d st ++ [.newLineHard] ++ styleClose d st
  | .frag n => [.frag n]
  | .box st k kids =>
    let se := sizeOf d cfg.minWrap (.box st k kids)
    -- the children's program; a thunk, because the list arms compile the children themselves (`compileItems`)
    -- and Lean evaluates a plain `let` eagerly: an unused copy would double the work at every list level
    let body (_ : Unit) : List Op := compileList cfg d kids
    let inner : List Op :=
      match k with
      | .container => body ()
      | .link href => [.startLink href] ++ body () ++ [.endLink]
      | .em => [.startAnn .em d.emStart false] ++ body () ++ [.endAnn d.emEnd false]
      | .strong => [.startAnn .strong d.strongStart false] ++ body () ++ [.endAnn d.strongEnd false]
      | .strike => [.startAnn .strike d.strikeStart true] ++ body () ++ [.endAnn d.strikeEnd true]
      | .code => [.startAnn .code d.codeStart false] ++ body () ++ [.endAnn d.codeEnd false]
      | .block | .li => [.startBlock] ++ body () ++ [.endBlock]
      | .header lvl =>
        let p := d.headerPrefix lvl
        [.sub se.prefixSize (se.minW - se.prefixSize) p p true (body ())]
      | .div => [.newLine] ++ body () ++ [.newLine]
      | .quote =>
        let p := d.quotePrefix
        [.sub (dispW p) (se.minW - dispW p) p p true (body ())]
      | .ul =>
        let p := d.ulPrefix
        compileItems cfg d (dispW p) (se.minW - dispW p) (fun _ => p) (List.replicate (dispW p) spaceCh) 0 kids
      | .ol start =>
        let pw := olPrefixSize d start kids.length
        compileItems cfg d pw (se.minW - se.prefixSize) (fun i => padTo (d.olPrefix (olItemNumber start i)) pw) (List.replicate pw spaceCh) 0 kids
      | .dl => [.startBlock] ++ body ()
      | .dt => [.newLine, .startAnn .em d.emStart false] ++ body () ++ [.endAnn d.emEnd false]
      | .dd => [.sub 2 (se.minW - 2) (strCh "  ") (strCh "  ") false (body ())]
      | .sup =>
        match supDigits kids with
        | some ds => [.text ds]
        | none => [.startAnn .dflt d.supStart false] ++ body () ++ [.endAnn d.supEnd false]
    styleOpen d st ++ inner ++ styleClose d st
  | .cell st _ kids => styleOpen d st ++ compileList cfg d kids ++ styleClose d st     -- only via compileCells
  | .row _ _ => []
  | .tbody _ _ => []
  | .table st rows n =>
    styleOpen d st ++ [.table (tableColsMax cfg d rows (List.replicate n {})) (compileRows cfg d rows)] ++ styleClose d st
def compileRows (cfg : Cfg) (d : Deco) : List RNode → List Op
  | [] => []
  | .row st cells :: rs => .row (styleOpen d st) (styleClose d st) (compileCells cfg d 0 cells) :: compileRows cfg d rs
  | _ :: rs => compileRows cfg d rs
def compileCells (cfg : Cfg) (d : Deco) (colno : Nat) : List RNode → List Op
  | [] => []
  | .cell st span kids :: cs =>
    .cell colno span (styleOpen d st ++ compileList cfg d kids ++ styleClose d st) :: compileCells cfg d (colno + span) cs
  | _ :: cs => compileCells cfg d colno cs
/-- render_table_tree's own estimate (max of per-cell estimate / colspan) -/
def tableColsMax (cfg : Cfg) (d : Deco) : List RNode → List SizeEst → List SizeEst
  | [], acc => acc
  | .row _ cells :: rs, acc => tableColsMax cfg d rs (rowColsMax cfg d cells 0 acc)
  | _ :: rs, acc => tableColsMax cfg d rs acc
def rowColsMax (cfg : Cfg) (d : Deco) : List RNode → Nat → List SizeEst → List SizeEst
  | [], _, acc => acc
  | .cell _ span kids :: cs, colno, acc =>
    let e := sizeSum d cfg.minWrap kids
    let acc' := (List.range span).foldl (fun a i =>
      a.modify (colno + i) fun x => { size := max x.size (e.size / span), minW := max x.minW (e.minW / span) }) acc
    rowColsMax cfg d cs (colno + span) acc'
  | _ :: cs, colno, acc => rowColsMax cfg d cs colno acc
def compileList (cfg : Cfg) (d : Deco) : List RNode → List Op
  | [] => []
  | n :: ns => compile cfg d n ++ compileList cfg d ns
/-- children of ul/ol with prefn/postfn -/
def compileItems (cfg : Cfg) (d : Deco) (pw minW : Nat) (first : Nat → List Ch) (rest : List Ch) (i : Nat) : List RNode → List Op
  | [] => []
  | n :: ns => .sub pw minW (first i) rest false (compile cfg d n) :: compileItems cfg d pw minW first rest (i + 1) ns
end

/-- one character of a hard-wrapped footnote: start a new piece when it no longer fits -/
def linkStep (ftag : Ann) (width : Nat) (acc : List TLine × TLine × Nat) (c : Ch) : List TLine × TLine × Nat :=
  let cw := if c.ctrl then 0 else c.w
  if acc.2.2 + cw > width then (acc.1 ++ [acc.2.1], [Elt.cell ⟨c, [ftag]⟩], cw)
  else (acc.1, acc.2.1 ++ [Elt.cell ⟨c, [ftag]⟩], acc.2.2 + cw)

/-- fmt_links for one line of plain text -/
def fmtLinkLine (cfg : Cfg) (ftag : Ann) (width : Nat) (s : List Ch) : List TLine :=
  let s := s.map fun c => if c.cp = 10 then spaceCh else c
  if cfg.wrapLinks && dispW s > width then
    let r := s.foldl (linkStep ftag width) ([], [], 0)
    r.1 ++ [r.2.1]
  else [s.map fun c => Elt.cell ⟨c, [ftag]⟩]

/-- the footnote list as plain text: `[k]: target` for every link, in the order of the link list -/
def footTexts (cfg : Cfg) (links : List (List Ch)) : List (List Ch) :=
  if cfg.footnotes then (links.zipIdx.map fun (u, i) => strCh "[" ++ natCh (i + 1) ++ strCh "]: " ++ u) else []

/-- render_tree_to_string + into_lines -/
def renderTree (cfg : Cfg) (d : Deco) (width : Nat) (tree : RNode) : Except Err (List RLine) :=
  if width = 0 then .error .tooNarrow else
  andThen (runOps SubR.widthMinus cfg d { cur := { width := width } } (compile cfg d tree)) fun t =>
  let s := t.cur
  let foot : List (List Ch) := footTexts cfg t.links
  if foot.isEmpty then s.intoLines else
  andThen s.startBlock fun s1 =>
  (s1.addLines ((foot.flatMap (fmtLinkLine cfg (d.annOf Ann.dflt) s1.width)).map RLine.text)).intoLines

mutual
/-- the cells of every row of every table lie inside the table's `ncols` columns (counting a cell of span 0 as one
    column) — what `RenderTable::new` establishes when it computes `num_columns` as the widest row -/
def tableOk : RNode → Bool
  | .table _ rows n => rowsOk n rows
  | .box _ _ kids => tableOkL kids
  | .cell _ _ kids => tableOkL kids
  | .row _ cells => tableOkL cells       -- rows and sections outside a table render nothing, but a table collects them
  | .tbody _ rows => tableOkL rows
  | _ => true
def tableOkL : List RNode → Bool
  | [] => true
  | n :: ns => tableOk n && tableOkL ns
def rowsOk (n : Nat) : List RNode → Bool
  | [] => true
  | .row _ cells :: rs => cellsOk n 0 cells && rowsOk n rs
  | _ :: rs => rowsOk n rs
def cellsOk (n used : Nat) : List RNode → Bool
  | [] => true
  | .cell _ span kids :: cs => decide (used + max span 1 ≤ n) && tableOkL kids && cellsOk n (used + max span 1) cs
  | _ :: cs => cellsOk n used cs
end

/-- dom_to_stylesheet: text of every <style> element, in document order -/
def styleTexts : Nat → Node → List (List Ch)
  | 0, _ => []
  | fuel + 1, n =>
    match n with
    | .doc kids => kids.flatMap (styleTexts fuel)
    | .elem name html _ kids =>
      if html && name = "style" then [kids.flatMap fun k => match k with | .text s => s | _ => []]
      else kids.flatMap (styleTexts fuel)
    | _ => []

def decorateRules : List Css.Rule :=
  let mk (el : String) (after : Bool) (c : String) : Css.Rule :=
    { selector := { comps := [.elem el], pseudo := some (if after then .after else .before) },
      styles := [⟨.content c, false⟩] }
  [mk "em" false "*", mk "em" true "*", mk "dt" false "*", mk "dt" true "*",
   mk "strong" false "**", mk "strong" true "**", mk "code" false "`", mk "code" true "`"]

inductive Outcome | lines (ls : List RLine) | narrow | panic (s : String) | hang (s : String) | cssErr

def renderDom (cfg : Cfg) (d : Deco) (width : Nat) (useDoc : Bool) (agentCss userCss : Option (List Char))
    (ci : CharInfo) (domDepth : Nat) (dom : Node) : Outcome :=
  -- Config::add_agent_css / add_css happen before rendering and surface CssParseError
  let addTo (base : List Css.Rule) (css : Option (List Char)) : Except Outcome (List Css.Rule) :=
    match css with
    | none => .ok base
    | some t => match Css.doAddCss t with
      | .ok rs => .ok (base ++ rs)
      | .err => .error .cssErr
      | .hang => .error (.hang "css parser")
  match addTo (if cfg.decorate then decorateRules else []) agentCss with
  | .error o => o
  | .ok agent =>
  match addTo [] userCss with
  | .error o => o
  | .ok user =>
  let docRules : Except Outcome (List Css.Rule) :=
    if !useDoc then .ok [] else
    (styleTexts domDepth dom).foldl (fun acc t => match acc with
      | .error o => .error o
      | .ok rs => match Css.doAddCss (t.map fun c => Char.ofNat c.cp) with
        | .ok r => .ok (rs ++ r)
        | .err => .ok rs                       -- document CSS parse errors are ignored
        | .hang => .error (.hang "css parser (document)")) (.ok [])
  match docRules with
  | .error o => o
  | .ok author =>
  let bc : BuildCfg := { sd := { agent := agent, user := user, author := author }, useDoc := useDoc, ci := ci }
  match build bc [] 0 dom with
  | none => .panic "computed_style"
  | some none => .panic "Fail: no render tree"
  | some (some tree) =>
    -- the hypothesis of the totality theorem (`C01.render_total`), evaluated on every tree `build` produces: a tree
    -- that violated it would show up as a disagreement with the implementation
    if !tableOk tree then .panic "tableOk: a cell lies outside its table's columns" else
    match renderTree cfg d width tree with
    | .ok ls => .lines ls
    | .error .tooNarrow => .narrow
    | .error (.panic s) => .panic s
    | .error (.hang s) => .hang s

end H2T
