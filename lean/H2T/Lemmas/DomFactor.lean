import H2T.Lemmas.DomTotal

/-! The pipeline `renderDom` factors into a configuration-independent front end (style sheets, DOM → render tree, which only reads
    the `decorate` switch) and `renderTree`: whole-run relations between configurations proved for render trees transfer to
    the whole pipeline. -/
namespace H2T

def treeOutcome : Except Err (List RLine) → Outcome
  | .ok ls => .lines ls
  | .error .tooNarrow => .narrow
  | .error (.panic s) => .panic s
  | .error (.hang s) => .hang s

def addTo (base : List Css.Rule) (css : Option (List Char)) : Except Outcome (List Css.Rule) :=
  match css with
  | none => .ok base
  | some t => match Css.doAddCss t with
    | .ok rs => .ok (base ++ rs)
    | .err => .error .cssErr
    | .hang => .error (.hang "css parser")

def docRulesOf (useDoc : Bool) (domDepth : Nat) (dom : Node) : Except Outcome (List Css.Rule) :=
  if !useDoc then .ok [] else
  (styleTexts domDepth dom).foldl (fun acc t => match acc with
    | .error o => .error o
    | .ok rs => match Css.doAddCss (t.map fun c => Char.ofNat c.cp) with
      | .ok r => .ok (rs ++ r)
      | .err => .ok rs
      | .hang => .error (.hang "css parser (document)")) (.ok [])

def buildTree (bc : BuildCfg) (dom : Node) : Except Outcome RNode :=
  match build bc [] 0 dom with
  | none => .error (.panic "computed_style")
  | some none => .error (.panic "Fail: no render tree")
  | some (some tree) =>
    if !tableOk tree then .error (.panic "tableOk: a cell lies outside its table's columns") else .ok tree

/-- the part of the pipeline before rendering: style sheets, DOM → render tree, the `tableOk` check -/
def domTree (decorate : Bool) (useDoc : Bool) (agentCss userCss : Option (List Char)) (ci : CharInfo) (domDepth : Nat) (dom : Node) :
    Except Outcome RNode :=
  match addTo (if decorate then decorateRules else []) agentCss with
  | .error o => .error o
  | .ok agent =>
  match addTo [] userCss with
  | .error o => .error o
  | .ok user =>
  match docRulesOf useDoc domDepth dom with
  | .error o => .error o
  | .ok author => buildTree { sd := { agent := agent, user := user, author := author }, useDoc := useDoc, ci := ci } dom

theorem renderDom_factor (cfg : Cfg) (d : Deco) (w : Nat) (useDoc : Bool) (agentCss userCss : Option (List Char))
    (ci : CharInfo) (depth : Nat) (dom : Node) :
    renderDom cfg d w useDoc agentCss userCss ci depth dom =
      match domTree cfg.decorate useDoc agentCss userCss ci depth dom with
      | .error o => o
      | .ok tree => treeOutcome (renderTree cfg d w tree) := by
  have h0 : renderDom cfg d w useDoc agentCss userCss ci depth dom =
      (match addTo (if cfg.decorate then decorateRules else []) agentCss with
      | .error o => o
      | .ok agent =>
      match addTo [] userCss with
      | .error o => o
      | .ok user =>
      match docRulesOf useDoc depth dom with
      | .error o => o
      | .ok author =>
      match build { sd := { agent := agent, user := user, author := author }, useDoc := useDoc, ci := ci } [] 0 dom with
      | none => .panic "computed_style"
      | some none => .panic "Fail: no render tree"
      | some (some tree) =>
        if !tableOk tree then .panic "tableOk: a cell lies outside its table's columns" else
        match renderTree cfg d w tree with
        | .ok ls => .lines ls
        | .error .tooNarrow => .narrow
        | .error (.panic s) => .panic s
        | .error (.hang s) => .hang s) := rfl
  rw [h0]
  unfold domTree
  cases addTo (if cfg.decorate then decorateRules else []) agentCss with
  | error o => rfl
  | ok agent =>
    simp only
    cases addTo [] userCss with
    | error o => rfl
    | ok user =>
      simp only
      cases docRulesOf useDoc depth dom with
      | error o => rfl
      | ok author =>
        simp only
        unfold buildTree
        cases build { sd := { agent := agent, user := user, author := author }, useDoc := useDoc, ci := ci } [] 0 dom with
        | none => rfl
        | some r =>
          cases r with
          | none => rfl
          | some tree =>
            simp only
            cases tableOk tree with
            | false => rfl
            | true =>
              simp only [Bool.not_true, Bool.false_eq_true, if_false, treeOutcome]
end H2T
