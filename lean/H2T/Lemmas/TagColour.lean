import H2T.Lemmas.TagTree

/-! C19 from C09: the innermost colour annotation of a character is the colour of the nearest enclosing render node that
    has one. -/

namespace H2T

abbrev Col := Nat × Nat × Nat

def fgOf : Ann → Option Col
  | .fg r g b => some (r, g, b)
  | _ => none

/-- the innermost `Colour` annotation of a tag vector -/
def lastFg (t : Tag) : Option Col := (t.filterMap fgOf).getLast?

theorem lastFg_append (a b : Tag) : lastFg (a ++ b) = (lastFg b).or (lastFg a) := by
  simp [lastFg, List.filterMap_append, List.getLast?_append]

/-- the colour in force below an element: its own winning colour if it has one, else the inherited one -/
def own (sty : Style) (inh : Option Col) : Option Col :=
  match sty.fg with | some c => some (c.r, c.g, c.b) | none => inh

theorem lastFg_style (d : Deco) (hc : d.colours = true) (sty : Style) (st : Tag) :
    lastFg (st ++ styleTags d sty) = own sty (lastFg st) := by
  rw [lastFg_append]
  unfold styleTags own
  cases sty.fg <;> cases sty.bg <;> simp [hc, lastFg, fgOf, List.filterMap_cons]

theorem lastFg_snoc (st : Tag) (a : Ann) (h : fgOf a = none) : lastFg (st ++ [a]) = lastFg st := by
  rw [lastFg_append]; simp [lastFg, h]

/-- visible characters of a text under `dep` strikeout filters, each with the colour `c` -/
def ccells (c : Option Col) (dep : Nat) (x : List Ch) : List (Ch × Option Col) := (keep (iterN strikeFilter dep x)).map fun ch => (ch, c)

theorem tcells_col (a : Tag) (dep : Nat) (x : List Ch) : (tcells a dep x).map (fun c => (c.ch, lastFg c.tag)) = ccells (lastFg a) dep x := by
  simp [tcells, tkeep, ccells, Function.comp_def]

mutual
/-- **the colour specification**: every visible character with the colour of the nearest enclosing node that has one
    (`inh` = the colour inherited from outside) -/
def colT (cfg : Cfg) (d : Deco) (inh : Option Col) (dep : Nat) : RNode → List (Ch × Option Col)
  | .text sty s => ccells (own sty inh) dep s
  | .img sty _ title => ccells (own sty inh) dep (d.imgText title)
  | .br _ => []
  | .frag _ => []
  | .box sty k kids =>
    let c := own sty inh
    match k with
    | .container => colL cfg d c dep kids
    | .block => colL cfg d c dep kids
    | .li => colL cfg d c dep kids
    | .div => colL cfg d c dep kids
    | .dl => colL cfg d c dep kids
    | .link _ => ccells c dep d.linkStart ++ colL cfg d c dep kids ++ ccells c dep d.linkEnd
    | .em => ccells c dep d.emStart ++ colL cfg d c dep kids ++ ccells c dep d.emEnd
    | .strong => ccells c dep d.strongStart ++ colL cfg d c dep kids ++ ccells c dep d.strongEnd
    | .strike => ccells c dep d.strikeStart ++ colL cfg d c (if cfg.unicodeStrike then dep + 1 else dep) kids ++ ccells c dep d.strikeEnd
    | .code => ccells c dep d.codeStart ++ colL cfg d c dep kids ++ ccells c dep d.codeEnd
    | .dt => ccells c dep d.emStart ++ colL cfg d c dep kids ++ ccells c dep d.emEnd
    | .header _ => colL cfg d c 0 kids
    | .quote => colL cfg d c 0 kids
    | .dd => colL cfg d c 0 kids
    | .ul => colI cfg d c kids
    | .ol _ => colI cfg d c kids
    | .sup =>
      match supDigits kids with
      | some ds => ccells c dep ds
      | none => ccells c dep d.supStart ++ colL cfg d c dep kids ++ ccells c dep d.supEnd
  | .cell sty _ kids => colL cfg d (own sty inh) dep kids
  | .row _ _ => []
  | .tbody _ _ => []
  | .table _ _ _ => []
def colL (cfg : Cfg) (d : Deco) (inh : Option Col) (dep : Nat) : List RNode → List (Ch × Option Col)
  | [] => []
  | n :: ns => colT cfg d inh dep n ++ colL cfg d inh dep ns
def colI (cfg : Cfg) (d : Deco) (inh : Option Col) : List RNode → List (Ch × Option Col)
  | [] => []
  | n :: ns => colT cfg d inh 0 n ++ colI cfg d inh ns
end

/-- a decorator with colours whose element annotations are not colours (the rich decorator) -/
structure ColourDeco (d : Deco) : Prop where
  colours : d.colours = true
  ann : ∀ a, fgOf a = none → fgOf (d.annOf a) = none

mutual
theorem nodeT_colour (cfg : Cfg) (d : Deco) (hd : ColourDeco d) : (n : RNode) → (st : Tag) → (dep : Nat) →
    (nodeT cfg d st dep n).map (fun c => (c.ch, lastFg c.tag)) = colT cfg d (lastFg st) dep n
  | .text sty s, st, dep => by simp [nodeT, colT, tcells_col, lastFg_style d hd.colours]
  | .img sty a b, st, dep => by
    simp only [nodeT, colT, tcells_col]
    rw [lastFg_snoc _ _ (hd.ann _ rfl), lastFg_style d hd.colours]
  | .br _, _, _ => by simp [nodeT, colT]
  | .frag _, _, _ => by simp [nodeT, colT]
  | .row _ _, _, _ => by simp [nodeT, colT]
  | .tbody _ _, _, _ => by simp [nodeT, colT]
  | .table _ _ _, _, _ => by simp [nodeT, colT]
  | .cell sty _ kids, st, dep => by simp [nodeT, colT, listT_colour cfg d hd kids, lastFg_style d hd.colours]
  | .box sty k kids, st, dep => by
    have hb := fun s e => listT_colour cfg d hd kids s e
    have hs := lastFg_style d hd.colours sty st
    have hn : ∀ (a : Ann), fgOf a = none → lastFg (st ++ (styleTags d sty ++ [d.annOf a])) = own sty (lastFg st) := fun a h => by
      rw [← List.append_assoc]; exact (lastFg_snoc (st ++ styleTags d sty) (d.annOf a) (hd.ann a h)).trans hs
    cases k with
    | container => simp [nodeT, colT, hb, hs]
    | link href => simp [nodeT, colT, hb, tcells_col, hn (.link href) rfl]
    | em => simp [nodeT, colT, hb, tcells_col, hn .em rfl]
    | strong => simp [nodeT, colT, hb, tcells_col, hn .strong rfl]
    | strike => simp [nodeT, colT, hb, tcells_col, hn .strike rfl]
    | code => simp [nodeT, colT, hb, tcells_col, hn .code rfl]
    | block => simp [nodeT, colT, hb, hs]
    | li => simp [nodeT, colT, hb, hs]
    | header lvl => simp [nodeT, colT, hb, hs]
    | div => simp [nodeT, colT, hb, hs]
    | quote => simp [nodeT, colT, hb, hs]
    | ul => simp [nodeT, colT, itemsT_colour cfg d hd kids, hs]
    | ol start => simp [nodeT, colT, itemsT_colour cfg d hd kids, hs]
    | dl => simp [nodeT, colT, hb, hs]
    | dt => simp [nodeT, colT, hb, tcells_col, hn .em rfl]
    | dd => simp [nodeT, colT, hb, hs]
    | sup =>
      simp only [nodeT, colT]
      cases hsd : supDigits kids with
      | some ds => simp [tcells_col, hs]
      | none => simp [hb, tcells_col, hn .dflt rfl]
theorem listT_colour (cfg : Cfg) (d : Deco) (hd : ColourDeco d) : (ns : List RNode) → (st : Tag) → (dep : Nat) →
    (listT cfg d st dep ns).map (fun c => (c.ch, lastFg c.tag)) = colL cfg d (lastFg st) dep ns
  | [], _, _ => by simp [listT, colL]
  | n :: ns, st, dep => by simp [listT, colL, nodeT_colour cfg d hd n, listT_colour cfg d hd ns]
theorem itemsT_colour (cfg : Cfg) (d : Deco) (hd : ColourDeco d) : (ns : List RNode) → (st : Tag) →
    (itemsT cfg d st ns).map (fun c => (c.ch, lastFg c.tag)) = colI cfg d (lastFg st) ns
  | [], _ => by simp [itemsT, colI]
  | n :: ns, st => by simp [itemsT, colI, nodeT_colour cfg d hd n, itemsT_colour cfg d hd ns]
end

theorem rich_colourDeco : ColourDeco Deco.rich := ⟨rfl, fun a h => by simpa [Deco.rich] using h⟩

theorem pf_map_col (P : Ch → Bool) (cs : List Cell) :
    (pf P cs).map (fun c => (c.ch, lastFg c.tag)) = (cs.map fun c => (c.ch, lastFg c.tag)).filter (fun x => P x.1) := by
  induction cs with
  | nil => rfl
  | cons c cs ih =>
    simp only [pf, List.filter_cons, List.map_cons] at ih ⊢
    by_cases hp : P c.ch = true
    · simp [hp, ih]
    · simp [hp, ih]

/-- **text takes its colour from the nearest enclosing element that has one**: for every table-free, `<pre>`-free render
    tree, every width and configuration (footnotes off), under a colour decorator whose prefixes avoid `P`: the
    `P`-characters of the output, each with the innermost `Colour` annotation of its tag vector, are exactly the
    characters of the colour specification `colT` -/
theorem renderTree_colours (P : Ch → Bool) (cfg : Cfg) (d : Deco) (w : Nat) (tree : RNode) (ls : List RLine) (hfn : cfg.footnotes = false)
    (hd : DecoAvoids P d) (hc : ColourDeco d) (ht : plainTree tree = true) (h : renderTree cfg d w tree = .ok ls) :
    ((ls.flatMap trink).map fun c => (c.ch, lastFg c.tag)).filter (fun x => P x.1) = (colT cfg d none 0 tree).filter (fun x => P x.1) := by
  rw [← pf_map_col, renderTree_tags P cfg d w tree ls hfn hd ht h, pf_map_col, nodeT_colour cfg d hc tree [] 0]
  rfl

end H2T
