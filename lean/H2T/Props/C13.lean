import H2T.Lemmas.WrapInv

/-! # C13 — output does not depend on source formatting of collapsible whitespace

The core mechanism is the wrap machine's treatment of whitespace in normal (non-preformatted) mode: a
whitespace character never enters the text, it only sets "one space is pending" — and only if something is on
the line already.  Status: **partial** — proved for the wrap machine: in normal mode every whitespace character
acts like a plain space, and a whitespace character that directly follows another one is a no-op, so any two
non-empty whitespace runs have the same effect.  That comments and neutral `span`s do not reach the renderer is
decided by correspondence and the metamorphic oracle (with the two named exceptions of DESIGN §8 #12). -/

namespace H2T.C13

/-- In normal mode, a whitespace character met when no word is pending only records a pending space (if the
    line is non-empty and none is pending yet); which whitespace character it is does not matter. -/
theorem ws_char_normal (b : WB) (mt wt : Tag) (cur : Bool) (c : Ch) (hc : c.ws = true) (hw : b.wordlen = 0) :
    b.addChar .normal mt wt cur c =
      .ok (if b.linelen > 0 && b.wslen = 0 then { b with spacetag := some (if cur then wt else mt), wslen := 1 } else b, cur) := by
  simp [WB.addChar, hc, hw, WS.preserve]
  split <;> rfl

/-- **Runs collapse.**  Directly after a whitespace character (in normal mode, no word pending) a second
    whitespace character changes nothing: the state after `c₁ c₂` is the state after `c₁`. -/
theorem second_ws_noop (b b1 : WB) (mt wt : Tag) (cur cur1 : Bool) (c1 c2 : Ch)
    (h1 : c1.ws = true) (h2 : c2.ws = true) (hw : b.wordlen = 0)
    (hstep : b.addChar .normal mt wt cur c1 = .ok (b1, cur1)) :
    b1.addChar .normal mt wt cur1 c2 = .ok (b1, cur1) := by
  rw [ws_char_normal b mt wt cur c1 h1 hw] at hstep
  injection hstep with hstep
  simp only [Prod.mk.injEq] at hstep
  obtain ⟨hb, hcur⟩ := hstep
  subst hcur
  have hw1 : b1.wordlen = 0 := by rw [← hb]; split <;> simp [hw]
  rw [ws_char_normal b1 mt wt cur c2 h2 hw1]
  -- after the first whitespace either a space is pending (wslen = 1) or the line is empty: no further change
  have hcond : (decide (b1.linelen > 0) && decide (b1.wslen = 0)) = false := by
    rw [← hb]
    split
    · simp
    · rename_i hn; simpa using hn
  simp [hcond]

/-- which whitespace character is used does not matter: space, tab, newline, any Unicode space -/
theorem ws_chars_interchangeable (b : WB) (mt wt : Tag) (cur : Bool) (c1 c2 : Ch)
    (h1 : c1.ws = true) (h2 : c2.ws = true) (hw : b.wordlen = 0) :
    b.addChar .normal mt wt cur c1 = b.addChar .normal mt wt cur c2 := by
  rw [ws_char_normal b mt wt cur c1 h1 hw, ws_char_normal b mt wt cur c2 h2 hw]

/-- whitespace at the start of a line is dropped: nothing is pending afterwards -/
theorem leading_ws_dropped (b : WB) (mt wt : Tag) (cur : Bool) (c : Ch) (hc : c.ws = true) (hw : b.wordlen = 0)
    (hl : b.linelen = 0) : b.addChar .normal mt wt cur c = .ok (b, cur) := by
  rw [ws_char_normal b mt wt cur c hc hw]; simp [hl]

/-! non-vacuity: "a  b", "a\n\tb" and "a b" give the same block -/
example :
    let nl : Ch := ⟨10, 0, true, true⟩
    let tab : Ch := ⟨9, 0, true, true⟩
    let run (s : List Ch) := (({ width := 10 } : WB).addText .normal [] [] s).toOption.bind fun b => b.finish.toOption
    run [mkCh 97, spaceCh, spaceCh, mkCh 98] = run [mkCh 97, spaceCh, mkCh 98] ∧
    run [mkCh 97, nl, tab, mkCh 98] = run [mkCh 97, spaceCh, mkCh 98] := by decide +kernel

end H2T.C13
