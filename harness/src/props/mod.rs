//! One module per property: generator streams, independent oracle, correspondence projection.

use crate::Prop;

pub mod common;
pub mod corr;
pub mod c02;
pub mod c04;

pub fn get(id: &str) -> Option<Box<dyn Prop>> {
    match id {
        "CORR" => Some(Box::new(corr::Corr)),
        "C02" => Some(Box::new(c02::C02)),
        "C04" => Some(Box::new(c04::C04)),
        _ => None,
    }
}
