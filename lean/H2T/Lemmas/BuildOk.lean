import H2T.Lemmas.TableTotal

/-! C01: the render trees `build` (DOM → render tree) produces satisfy `tableOk`: `RenderTable::new` gives every table
    as many columns as its widest row, so every cell lies inside its table. -/

namespace H2T

theorem tableOkL_append (a b : List RNode) : tableOkL (a ++ b) = (tableOkL a && tableOkL b) := by
  induction a with
  | nil => simp [tableOkL]
  | cons x a ih => simp [tableOkL, ih, Bool.and_assoc]

theorem tableOkL_iff (l : List RNode) : tableOkL l = true ↔ ∀ x ∈ l, tableOk x = true := by
  induction l with
  | nil => simp [tableOkL]
  | cons x l ih => simp [tableOkL, ih]

theorem tableOkL_filter (p : RNode → Bool) (l : List RNode) (h : tableOkL l = true) : tableOkL (l.filter p) = true := by
  rw [tableOkL_iff] at h ⊢
  intro x hx
  exact h x (List.mem_filter.mp hx).1

theorem setSpan_ok (k : Nat) (c : RNode) : tableOk (setSpan k c) = tableOk c := by
  cases c <;> simp [setSpan, tableOk]

/-! ## insert_child -/

theorem intoFirstCell_ok (new : RNode) (b : Bool) (cells : List RNode) (hn : tableOk new = true) (h : tableOkL cells = true) :
    tableOkL (intoFirstCell new b cells) = true := by
  cases cells with
  | nil => simpa [intoFirstCell] using h
  | cons c cs =>
    cases c <;> simp only [intoFirstCell] <;> try exact h
    simp only [tableOkL, tableOk, Bool.and_eq_true] at h ⊢
    refine ⟨?_, h.2⟩
    split
    · simp [tableOkL, hn, h.1]
    · simp [tableOkL_append, tableOkL, hn, h.1]

theorem cellsOk_into (new : RNode) (b : Bool) (n : Nat) : ∀ (cells : List RNode) (used : Nat), tableOk new = true →
    cellsOk n used cells = true → cellsOk n used (intoFirstCell new b cells) = true := by
  intro cells used hn h
  cases cells with
  | nil => simpa [intoFirstCell] using h
  | cons c cs =>
    cases c <;> simp only [intoFirstCell] <;> try exact h
    simp only [cellsOk, Bool.and_eq_true] at h ⊢
    refine ⟨⟨h.1.1, ?_⟩, h.2⟩
    split
    · simp [tableOkL, hn, h.1.2]
    · simp [tableOkL_append, tableOkL, hn, h.1.2]

theorem intoFirstRow_ok (new : RNode) (b : Bool) (rows : List RNode) (hn : tableOk new = true) (h : tableOkL rows = true) :
    tableOkL (intoFirstRow new b rows) = true := by
  cases rows with
  | nil => simpa [intoFirstRow] using h
  | cons r rs =>
    cases r <;> simp only [intoFirstRow] <;> try exact h
    simp only [tableOkL, tableOk, Bool.and_eq_true] at h ⊢
    exact ⟨intoFirstCell_ok new b _ hn h.1, h.2⟩

theorem rowsOk_into (new : RNode) (b : Bool) (n : Nat) (rows : List RNode) (hn : tableOk new = true) (h : rowsOk n rows = true) :
    rowsOk n (intoFirstRow new b rows) = true := by
  cases rows with
  | nil => simpa [intoFirstRow] using h
  | cons r rs =>
    cases r <;> simp only [intoFirstRow] <;> try exact h
    simp only [rowsOk, Bool.and_eq_true] at h ⊢
    exact ⟨cellsOk_into new b n _ 0 hn h.1, h.2⟩

theorem insertChild_ok (new orig : RNode) (b : Bool) (hn : tableOk new = true) (ho : tableOk orig = true) :
    tableOk (insertChild new orig b) = true := by
  unfold insertChild
  cases orig with
  | box st k kids =>
    simp only [tableOk] at ho
    cases b <;> cases k <;> simp [tableOk, tableOkL, tableOkL_append, hn, ho]
  | cell st cs kids =>
    simp only [tableOk] at ho ⊢
    split <;> simp [tableOkL, tableOkL_append, hn, ho]
  | row st cells => simp only [tableOk] at ho ⊢; exact intoFirstCell_ok new b cells hn ho
  | tbody st rows => simp only [tableOk] at ho ⊢; exact intoFirstRow_ok new b rows hn ho
  | table st rows n => simp only [tableOk] at ho ⊢; exact rowsOk_into new b n rows hn ho
  | text st s => simp only; split <;> simp [tableOk, tableOkL, hn]
  | img st a c => simp only; split <;> simp [tableOk, tableOkL, hn]
  | br st => simp only; split <;> simp [tableOk, tableOkL, hn]
  | frag f => simp only; split <;> simp [tableOk, tableOkL, hn]

/-! ## RenderTable::new -/

def rowSum (cells : List RNode) : Nat := (cells.map fun c => max (cellSpan c) 1).sum

/-- cells whose spans (0 counted as 1) add up to at most the columns that are left fit -/
theorem cellsOk_of_sum (n : Nat) : ∀ (cells : List RNode) (used : Nat), used + rowSum cells ≤ n → tableOkL cells = true →
    cellsOk n used cells = true := by
  intro cells
  induction cells with
  | nil => intro used _ _; rfl
  | cons c cs ih =>
    intro used hs hk
    simp only [tableOkL, Bool.and_eq_true] at hk
    have hs' : used + max (cellSpan c) 1 + rowSum cs ≤ n := by simp [rowSum] at hs ⊢; omega
    cases c <;> simp only [cellsOk]
    case cell st span kids =>
      simp only [tableOk] at hk
      simp only [cellSpan] at hs'
      simp only [Bool.and_eq_true, decide_eq_true_eq]
      exact ⟨⟨by omega, hk.1⟩, ih _ hs' hk.2⟩
    all_goals exact ih used (by simp [cellSpan] at hs'; omega) hk.2

theorem foldl_max_ge (l : List Nat) : ∀ (a : Nat), a ≤ l.foldl max a ∧ ∀ x ∈ l, x ≤ l.foldl max a := by
  induction l with
  | nil => intro a; simp
  | cons y l ih =>
    intro a
    simp only [List.foldl_cons]
    obtain ⟨h1, h2⟩ := ih (max a y)
    refine ⟨by omega, ?_⟩
    intro x hx
    simp only [List.mem_cons] at hx
    rcases hx with rfl | hx
    · omega
    · exact h2 x hx

/-- the remapping fold of one row: every produced cell is an original cell with a new span -/
theorem remapRow_mem (rank : Nat → Nat) : ∀ (cells : List RNode) (acc : Nat × Nat × List RNode),
    ∀ x ∈ (cells.foldl (fun (acc : Nat × Nat × List RNode) c =>
        (acc.1 + max (cellSpan c) 1, rank (acc.1 + max (cellSpan c) 1), acc.2.2 ++ [setSpan (rank (acc.1 + max (cellSpan c) 1) - acc.2.1) c])) acc).2.2,
      x ∈ acc.2.2 ∨ ∃ k c, c ∈ cells ∧ x = setSpan k c := by
  intro cells
  induction cells with
  | nil => intro acc x hx; exact Or.inl hx
  | cons c cs ih =>
    intro acc x hx
    simp only [List.foldl_cons] at hx
    rcases ih _ x hx with h | ⟨k, c', hc', rfl⟩
    · simp only [List.mem_append, List.mem_singleton] at h
      rcases h with h | rfl
      · exact Or.inl h
      · exact Or.inr ⟨_, c, by simp, rfl⟩
    · exact Or.inr ⟨k, c', by simp [hc'], rfl⟩

theorem remapCells_ok (rank : Nat → Nat) (cells : List RNode) (h : tableOkL cells = true) : tableOkL (remapCells rank cells) = true := by
  rw [tableOkL_iff] at h ⊢
  intro y hy
  unfold remapCells at hy
  rcases remapRow_mem rank cells (0, 0, []) y hy with h0 | ⟨k, c, hc, rfl⟩
  · simp at h0
  · rw [setSpan_ok]; exact h c hc

theorem remapRow_ok (rank : Nat → Nat) (r : RNode) (h : tableOk r = true) : tableOk (remapRow rank r) = true := by
  cases r <;> simp only [remapRow] <;> try exact h
  simp only [tableOk] at h ⊢
  exact remapCells_ok rank _ h

/-- every row fits a column count that is at least its own sum of spans -/
theorem rowsOk_of_sums : ∀ (l : List RNode) (n : Nat), tableOkL l = true → (∀ r ∈ l, rowSum (rowCells r) ≤ n) → rowsOk n l = true := by
  intro l
  induction l with
  | nil => intro n _ _; rfl
  | cons r rs ih =>
    intro n hk hs
    simp only [tableOkL, Bool.and_eq_true] at hk
    have hrest := ih n hk.2 (fun x hx => hs x (by simp [hx]))
    cases r <;> simp only [rowsOk] <;> try exact hrest
    rename_i st cells
    simp only [Bool.and_eq_true]
    refine ⟨cellsOk_of_sum n cells 0 (by have := hs (.row st cells) (by simp); simpa [rowCells] using this) (by simpa [tableOk] using hk.1), hrest⟩

theorem remapTable_ok (rows : List RNode) (h : tableOkL rows = true) : rowsOk (remapTable rows).2 (remapTable rows).1 = true := by
  unfold remapTable
  simp only []
  apply rowsOk_of_sums
  · rw [tableOkL_iff] at h ⊢
    intro x hx
    simp only [List.mem_map] at hx
    obtain ⟨r, hr, rfl⟩ := hx
    exact remapRow_ok _ r (h r hr)
  · intro r hr
    exact (foldl_max_ge ((rows.map (remapRow (remapRank rows))).map fun r => ((rowCells r).map (fun c => max (cellSpan c) 1)).sum) 0).2
      (rowSum (rowCells r)) (List.mem_map.mpr ⟨r, hr, rfl⟩)

/-! ## process_dom_node -/

theorem fixZeroSpans_ok (rows : List RNode) (h : tableOkL rows = true) : tableOkL (fixZeroSpans rows) = true := by
  unfold fixZeroSpans
  simp only []
  rw [tableOkL_iff] at h ⊢
  intro x hx
  simp only [List.mem_map] at hx
  obtain ⟨⟨r, hz, n⟩, hmem, rfl⟩ := hx
  have hr := h r (List.of_mem_zip hmem).1
  cases r <;> simp only <;> try exact hr
  rename_i st cells
  split
  · simp only [tableOk] at hr ⊢
    rw [tableOkL_iff] at hr ⊢
    intro y hy
    simp only [List.mem_map] at hy
    obtain ⟨c, hc, rfl⟩ := hy
    split
    · rw [setSpan_ok]; exact hr c hc
    · exact hr c hc
  · exact hr

theorem tableOkL_flatMap_tbodyRows (cs : List RNode) (h : tableOkL cs = true) : tableOkL (cs.flatMap tbodyRows) = true := by
  rw [tableOkL_iff] at h ⊢
  intro x hx
  simp only [List.mem_flatMap] at hx
  obtain ⟨c, hc, hx⟩ := hx
  have := h c hc
  cases c <;> simp [tbodyRows] at hx
  rename_i st rows
  simp only [tableOk] at this
  exact (tableOkL_iff rows).mp this x hx

theorem elemBase_ok (computed : Css.Computed) (html : Bool) (name : String) (attrs : List (String × List Ch)) (cs : List RNode)
    (h : tableOkL cs = true) (r : RNode) (e : elemBase computed html name attrs cs = some r) : tableOk r = true := by
  have hli := tableOkL_filter isLi cs h
  have hdt := tableOkL_filter isDtDd cs h
  have hcell := tableOkL_filter isCell cs h
  have hrow := fixZeroSpans_ok _ (tableOkL_filter isRow cs h)
  have htab := remapTable_ok _ (tableOkL_flatMap_tbodyRows cs h)
  unfold elemBase at e
  simp only [] at e
  split at e
  · split at e
    · simp at e
    · injection e with e; subst e; simpa [tableOk] using h
  · split at e
    all_goals first
      | (injection e with e; subst e; simp [tableOk, h, hli, hdt, hcell, hrow]; done)
      | (simp at e; done)
      | (split at e
         all_goals first
           | (injection e with e; subst e; simp [tableOk, h, hli, hdt, hcell, hrow, htab]; done)
           | (simp at e; done)
           | (split at e
              all_goals first
                | (injection e with e; subst e; simp [tableOk, h, hli, hdt, hcell, hrow, htab]; done)
                | (simp at e; done)))

theorem elemWrap_ok (ci : CharInfo) (computed : Css.Computed) (base : Option RNode) (hb : ∀ b, base = some b → tableOk b = true)
    (r : RNode) (e : elemWrap ci computed base = some r) : tableOk r = true := by
  unfold elemWrap at e
  split at e
  · cases base with
    | none => simp at e
    | some n =>
      simp only [Option.map_some, Option.some.injEq] at e
      subst e
      have hn := hb n rfl
      have h1 : tableOk (match computed.before.bind (·.content.val) with
          | some t => insertChild (.text {} (contentChars ci t)) n true
          | none => n) = true := by
        split
        · exact insertChild_ok _ _ _ rfl hn
        · exact hn
      split
      · exact insertChild_ok _ _ _ rfl h1
      · exact h1
  · exact hb r e

theorem elemFrag_ok (html : Bool) (name : String) (attrs : List (String × List Ch)) (wrapped : Option RNode)
    (hw : ∀ b, wrapped = some b → tableOk b = true) (r : RNode) (e : elemFrag html name attrs wrapped = some r) : tableOk r = true := by
  unfold elemFrag at e
  simp only [] at e
  split at e
  · exact hw r e
  · injection e with e; subst e; rfl
  · injection e with e; subst e
    exact insertChild_ok _ _ _ rfl (hw _ rfl)

mutual
/-- **every render tree `build` produces satisfies `tableOk`** -/
theorem build_ok (bc : BuildCfg) : (n : Node) → (up : List Css.Frame) → (idx : Nat) → (r : RNode) →
    build bc up idx n = some (some r) → tableOk r = true
  | .text s, up, idx, r, e => by simp [build] at e; subst e; rfl
  | .comment, up, idx, r, e => by simp [build] at e
  | .other, up, idx, r, e => by simp [build] at e
  | .doc kids, up, idx, r, e => by
    simp only [build] at e
    cases h : buildList bc [{ isElem := false }] 0 kids with
    | none => simp [h] at e
    | some cs =>
      simp only [h] at e
      injection e with e; injection e with e; subst e
      simpa [tableOk] using buildList_ok bc kids _ 0 cs h
  | .elem name html attrs kids, up, idx, r, e => by
    simp only [build] at e
    split at e
    · simp at e
    · rename_i computed _
      split at e
      · simp at e
      · cases h : buildList bc ({ isElem := true, name := name, attrs := attrs, elemIdx := idx } :: up) 0 kids with
        | none => simp [h] at e
        | some cs =>
          simp only [h] at e
          injection e with e
          have hcs := buildList_ok bc kids _ 0 cs h
          exact elemFrag_ok html name attrs _ (fun b hb => elemWrap_ok bc.ci computed _ (fun b' hb' => elemBase_ok computed html name attrs cs hcs b' hb') b hb) r e
theorem buildList_ok (bc : BuildCfg) : (ns : List Node) → (chain : List Css.Frame) → (seen : Nat) → (rs : List RNode) →
    buildList bc chain seen ns = some rs → tableOkL rs = true
  | [], chain, seen, rs, e => by simp [buildList] at e; subst e; rfl
  | n :: ns, chain, seen, rs, e => by
    simp only [buildList] at e
    cases h1 : build bc chain (if isElemNode n = true then seen + 1 else seen) n with
    | none => simp [h1] at e
    | some r =>
      simp only [h1] at e
      cases h2 : buildList bc chain (if isElemNode n = true then seen + 1 else seen) ns with
      | none => simp [h2] at e
      | some rs' =>
        simp only [h2] at e
        injection e with e; subst e
        have hrs := buildList_ok bc ns chain _ rs' h2
        cases r with
        | none => exact hrs
        | some x =>
          simp only [tableOkL, Bool.and_eq_true]
          exact ⟨build_ok bc n chain _ x h1, hrs⟩
end

end H2T
