import H2T.Lemmas.RowExact
import H2T.Lemmas.RenderTotal
import H2T.Lemmas.TableTotal
import H2T.Lemmas.CompileWf

/-! C05, whole table: in a side-by-side table with borders whose columns all have width and whose rows tile the columns,
    every line of the table has the same width, the first and the last are rules. -/

namespace H2T

/-- merging the top rules of cells into the previous rule keeps its length -/
theorem collapseTop_border_len : ∀ (sets : List (Nat × List RLine)) (pb : Border) (pos : Nat)
    (p2 : Option Border) (out : List (Nat × List RLine)),
    (∀ st ∈ sets, SetEq st) → pos + spanOf sets ≤ pb.length + 1 → collapseTop (some pb) pos sets = .ok (p2, out) →
    ∃ pb', p2 = some pb' ∧ pb'.length = pb.length := by
  intro sets
  induction sets with
  | nil =>
    intro pb pos p2 out _ _ h
    simp [collapseTop] at h
    exact ⟨pb, h.1.symm, rfl⟩
  | cons st r ih =>
    intro pb pos p2 out hs hN h
    have hst := hs st (by simp)
    have hr : ∀ x ∈ r, SetEq x := fun x hx => hs x (by simp [hx])
    simp only [spanOf] at hN
    unfold collapseTop at h
    split at h
    · rename_i b t restLines heq
      simp only at h
      have hb : b.length = st.1 := by
        have := hst (.rule b t) (by rw [heq]; simp)
        simpa [rlw] using this
      have hm := mergeFromBelow_len pb b pos (by omega)
      cases h1 : collapseTop (some (pb.mergeFromBelow b pos)) (pos + st.1 + 1) r with
      | error e => simp [h1, andThen] at h
      | ok v =>
        obtain ⟨p', out'⟩ := v
        simp only [h1, andThen] at h
        injection h with h
        simp only [Prod.mk.injEq] at h
        obtain ⟨rfl, _⟩ := h
        obtain ⟨pb', e1, e2⟩ := ih _ _ _ _ hr (by rw [hm]; omega) h1
        exact ⟨pb', e1, e2.trans hm⟩
    · cases h1 : collapseTop (some pb) (pos + st.1 + 1) r with
      | error e => simp [h1, andThen] at h
      | ok v =>
        obtain ⟨p', out'⟩ := v
        simp only [h1, andThen] at h
        injection h with h
        simp only [Prod.mk.injEq] at h
        obtain ⟨rfl, _⟩ := h
        exact ih _ _ _ _ hr (by omega) h1

theorem emitColumns_last (s : SubR) (cfg : Cfg) (ann : Tag) (sets3 : List (Nat × List RLine)) (pads : List (Option (List Ch)))
    (nb : Border) (hdb : cfg.drawBorders = true) :
    (s.emitColumns cfg ann sets3 pads nb).lines.getLast? = some (.rule nb ann) := by
  unfold SubR.emitColumns
  simp only [hdb, if_true, SubR.addLine, List.getLast?_append, List.getLast?_singleton, Option.some_or]

theorem emitColumns_ends_with_rule (s : SubR) (cfg : Cfg) (ann : Tag) (sets3 : List (Nat × List RLine)) (pads : List (Option (List Ch)))
    (nb : Border) (hdb : cfg.drawBorders = true) (hf : fragsOnly s.pendingFrags) :
    ∃ ls', (s.emitColumns cfg ann sets3 pads nb).lines = s.lines ++ (ls' ++ [.rule nb ann]) := by
  unfold SubR.emitColumns
  simp only [hdb, if_true]
  obtain ⟨ls', a1, _, _⟩ := addLines_shape ((List.range ((sets3.map (·.2.length)).foldl max 0)).map (fun i => RLine.text (colLine ann
      (mkCh 0x2502) i (sets3.zip pads)))) s hf
  exact ⟨ls', by simp only [SubR.addLine, a1, List.append_assoc]⟩

theorem emitColumns_wrapping (s : SubR) (cfg : Cfg) (ann : Tag) (sets3 : List (Nat × List RLine)) (pads : List (Option (List Ch)))
    (nb : Border) : (s.emitColumns cfg ann sets3 pads nb).wrapping = s.wrapping := by
  unfold SubR.emitColumns
  simp only []
  split
  · rw [addLine_wrapping, addLines_wrapping]
  · rw [addLines_wrapping]


theorem setLast_length {α : Type} (l : List α) (a : α) (h : l ≠ []) : (setLast l a).length = l.length := by
  have := List.length_pos_iff.mpr h
  simp [setLast]; omega

theorem setLast_getLast {α : Type} (l : List α) (a : α) : (setLast l a).getLast? = some a := by simp [setLast]

/-- **a row appended below a rule of the table's width**: the rule keeps its width (it only receives junctions), the lines
    added all have that width, and the last of them is again a rule -/
theorem appendColumns_table (s s' : SubR) (cfg : Cfg) (cols : List SubR) (W : Nat) (hf : s.Fits) (hwn : s.wrapping = none)
    (hc : ∀ c ∈ cols, c.Fits) (hdb : cfg.drawBorders = true) (pb : Border) (t : Tag)
    (hlast : s.lines.getLast? = some (.rule pb t)) (hpb : pb.length = W)
    (hW : (cols.map (·.width)).sum + (cols.length - 1) = W) (he : s.appendColumns cfg cols = .ok s') :
    ∃ pb' added nb, s'.lines = setLast s.lines (.rule pb' t) ++ added ∧ pb'.length = W ∧ (∀ l ∈ added, rlw l = W) ∧
      (∃ a', added = a' ++ [.rule nb s.annStack]) ∧ s'.wrapping = none := by
  unfold SubR.appendColumns at he
  have h1 : s.flushWrapping = .ok s := by simp [SubR.flushWrapping, hwn]
  simp only [h1, andThen] at he
  cases h2 : colSets s.annStack cols with
  | error e => simp [h2] at he
  | ok sets =>
    simp only [h2] at he
    obtain ⟨hse, hwid⟩ := colSets_exact _ cols sets hc h2
    split at he
    · simp at he
    · rename_i hne
      have hne' : sets ≠ [] := by intro hh; simp [hh] at hne
      have hlen : sets.length = cols.length := by have := congrArg List.length hwid; simpa using this
      have htot : (sets.map (·.1)).sum + (sets.length - 1) + 1 = spanOf sets := by
        rw [spanOf_eq]
        have : 0 < sets.length := List.length_pos_iff.mpr hne'
        omega
      have htW : (sets.map (·.1)).sum + (sets.length - 1) = W := by rw [hwid, hlen]; exact hW
      rw [htW] at he htot
      have hbars : ∀ x ∈ barPositions 0 sets, x < W := by
        intro x hx
        have := barPositions_lt sets 0 x hx
        omega
      have hpn : s.joinBars sets W = (some ((barPositions 0 sets).foldl Border.joinBelow pb),
          (barPositions 0 sets).foldl Border.joinAbove (List.replicate W Seg.straight)) := by
        unfold SubR.joinBars; rw [hlast]
      rw [hpn] at he
      simp only at he
      have hnext : ((barPositions 0 sets).foldl Border.joinAbove (List.replicate W Seg.straight)).length = W := by
        rw [foldl_join_len Border.joinAbove joinAbove_len _ _ (by simpa using hbars)]; simp
      have hprev : ((barPositions 0 sets).foldl Border.joinBelow pb).length = W := by
        rw [foldl_join_len Border.joinBelow joinBelow_len _ _ (by rw [hpb]; exact hbars)]; exact hpb
      generalize (barPositions 0 sets).foldl Border.joinAbove (List.replicate W Seg.straight) = nx at he hnext
      generalize (barPositions 0 sets).foldl Border.joinBelow pb = pv at he hprev
      cases h3 : collapseTop (some pv) 0 sets with
      | error e => simp [h3] at he
      | ok v =>
        obtain ⟨prev2, sets2⟩ := v
        simp only [h3] at he
        injection he with he; subst he
        obtain ⟨t1, t2⟩ := collapseTop_exact sets (some pv) 0 prev2 sets2 hse h3
        obtain ⟨pb', hp2, hpl⟩ := collapseTop_border_len sets pv 0 prev2 sets2 hse (by rw [hprev]; omega) h3
        subst hp2
        obtain ⟨b2, b3, b4⟩ := collapseBottom_exact sets2 nx 0 t1
        have hsp2 : spanOf sets2 = spanOf sets := spanOf_map _ _ t2
        have hbl := collapseBottom_border_len sets2 nx 0 t1 (by rw [hnext, hsp2]; omega)
        have hsp3 : spanOf (collapseBottom nx 0 sets2).2.1 = spanOf sets := (spanOf_map _ _ b3).trans hsp2
        have hne3 : (collapseBottom nx 0 sets2).2.1 ≠ [] := by
          intro hh
          have : spanOf (collapseBottom nx 0 sets2).2.1 = 0 := by rw [hh]; rfl
          rw [hsp3] at this
          cases sets with
          | nil => exact hne' rfl
          | cons a r => simp [spanOf] at this
        have hsl : (s.setLastRule (some pb')).lines = setLast s.lines (.rule pb' t) := by
          unfold SubR.setLastRule; simp only [hlast]
        have hfr : fragsOnly (s.setLastRule (some pb')).pendingFrags := by
          have : (s.setLastRule (some pb')).pendingFrags = s.pendingFrags := by
            unfold SubR.setLastRule; simp only [hlast]
          rw [this]; exact hf.frags
        obtain ⟨added, e1, e2⟩ := emitColumns_exact (s.setLastRule (some pb')) cfg s.annStack _ _ (collapseBottom nx 0 sets2).1 W hfr b4 hne3 b2
          (by rw [hsp3]; exact htot) (by rw [hbl, hnext])
        refine ⟨pb', added, (collapseBottom nx 0 sets2).1, by rw [e1, hsl], hpl.trans hprev, e2, ?_, ?_⟩
        · obtain ⟨ls', e4⟩ := emitColumns_ends_with_rule (s.setLastRule (some pb')) cfg s.annStack (collapseBottom nx 0 sets2).2.1
            (collapseBottom nx 0 sets2).2.2 (collapseBottom nx 0 sets2).1 hdb hfr
          exact ⟨ls', List.append_cancel_left (e1.symm.trans e4)⟩
        · rw [emitColumns_wrapping]
          unfold SubR.setLastRule; simp only [hlast]; exact hwn


/-! ## the cells of a row that tiles the columns -/

/-- the cells occupy consecutive column ranges from `next` up to exactly `n`, every span at least one -/
def tiles (n : Nat) : Nat → List Op → Bool
  | next, [] => next == n
  | next, .cell colno span _ :: cs => colno == next && decide (1 ≤ span) && tiles n (colno + span) cs
  | _, _ :: _ => false

theorem sum_pos_of_pos (l : List Nat) (h : ∀ x ∈ l, 0 < x) (hne : l ≠ []) : 0 < l.sum := by
  cases l with
  | nil => exact absurd rfl hne
  | cons a r => have := h a (by simp); simp; omega

theorem runCells_exact (cfg : Cfg) (d : Deco) (hov : cfg.overflow = false) (ws : List Nat) (hpos : ∀ x ∈ ws, 0 < x) (ann : Tag) :
    ∀ (cells : List Op) (links : List (List Ch)) (next : Nat) (l2 : List (List Ch)) (subs : List SubR),
    wfCells next cells = true → tiles ws.length next cells = true →
    runCells SubR.widthMinus cfg d ws false ann links cells = .ok (l2, subs) →
    (subs.map fun c => c.width + 1).sum = (ws.drop next).sum + (ws.length - next) ∧ (next < ws.length → subs ≠ []) := by
  intro cells
  induction cells with
  | nil =>
    intro links next l2 subs _ ht he
    simp [runCells] at he
    simp only [tiles, beq_iff_eq] at ht
    obtain ⟨_, rfl⟩ := he
    subst ht
    simp
  | cons op cs ih =>
    intro links next l2 subs hok ht he
    cases op with
    | cell colno span body =>
      simp only [tiles, Bool.and_eq_true, beq_iff_eq, decide_eq_true_eq] at ht
      obtain ⟨⟨rfl, hsp⟩, ht2⟩ := ht
      simp only [wfCells, Bool.and_eq_true, decide_eq_true_eq] at hok
      obtain ⟨⟨_, hbody⟩, hcs⟩ := hok
      simp only [runCells] at he
      split at he
      · simp at he
      · rename_i hidx
        simp only [cellOob, Bool.false_eq_true, if_false, decide_eq_true_eq, Nat.not_lt] at hidx
        have hin : 0 < cellInner ws false colno span := by
          simp only [cellInner, Bool.false_eq_true, if_false]
          apply sum_pos_of_pos
          · intro x hx; exact hpos x (List.mem_of_mem_drop (List.mem_of_mem_take hx))
          · intro hh
            have := congrArg List.length hh
            simp at this; omega
        rw [if_neg (by omega)] at he
        generalize hcw : cellInner ws false colno span = cw at he hin
        simp only [cellInner, Bool.false_eq_true, if_false] at hcw
        cases h1 : runOps SubR.widthMinus cfg d { links := links, cur := ({ width := cellOuter false cw span, annStack := ann } : SubR) } body with
        | error e => simp [h1, andThen] at he
        | ok r =>
          simp only [h1, andThen_ok_eq] at he
          have stb := runOps_fitsT SubR.widthMinus cfg d (widthMinus_contract cfg hov) hov body _ r hbody (fresh_fits _ ann) h1
          cases h2 : runCells SubR.widthMinus cfg d ws false ann r.links cs with
          | error e => simp [h2, andThen_error_eq] at he
          | ok v =>
            obtain ⟨l3, subs2⟩ := v
            simp only [h2, andThen_ok_eq] at he
            injection he with he
            simp only [Prod.mk.injEq] at he
            obtain ⟨_, rfl⟩ := he
            obtain ⟨c1, _⟩ := ih r.links (colno + span) l3 subs2 hcs ht2 h2
            have hwr : r.cur.width = cellOuter false cw span := stb.2
            refine ⟨?_, fun _ => by simp⟩
            simp only [List.map_cons, List.sum_cons, hwr, c1, cellOuter, Bool.false_eq_true, if_false]
            have e1 := sum_take_drop ws colno span
            omega
    | _ => simp [tiles] at ht


/-! ## the table region -/

/-- the renderer's lines are `pre` followed by the table so far: lines of width `W`, the first and the last a rule -/
def TblInv (W : Nat) (pre : List RLine) (s : SubR) : Prop :=
  s.Fits ∧ s.wrapping = none ∧ ∃ init pb t, s.lines = pre ++ init ++ [RLine.rule pb t] ∧ pb.length = W ∧ (∀ l ∈ init, rlw l = W) ∧
    (∃ b0 t0, (init ++ [RLine.rule pb t]).head? = some (RLine.rule b0 t0))

theorem sum_map_succ (subs : List SubR) : (subs.map fun c => c.width + 1).sum = (subs.map (·.width)).sum + subs.length := by
  induction subs with
  | nil => rfl
  | cons c r ih => simp [ih]; omega

theorem setLast_append_singleton {α : Type} (l : List α) (x y : α) : setLast (l ++ [x]) y = l ++ [y] := by
  simp [setLast]

theorem appendRow_inv (s s' : SubR) (cfg : Cfg) (subs : List SubR) (W : Nat) (pre : List RLine) (hdb : cfg.drawBorders = true)
    (hi : TblInv W pre s) (hW : W ≤ s.width) (hc : ∀ c ∈ subs, c.Fits) (hsum : (subs.map fun c => c.width + 1).sum = W + 1)
    (he : s.appendRow cfg false subs = .ok s') : TblInv W pre s' ∧ s'.width = s.width := by
  obtain ⟨hf, hwn, init, pb, t, hl, hpb, hin, b0, t0, hhd⟩ := hi
  unfold SubR.appendRow at he
  simp only [Bool.false_eq_true, if_false] at he
  split at he
  · have hne : subs ≠ [] := by intro hh; subst hh; simp at hsum
    have hlen := List.length_pos_iff.mpr hne
    have hsw : (subs.map (·.width)).sum + (subs.length - 1) = W := by
      have := sum_map_succ subs; omega
    have st := appendColumns_step s s' cfg subs hf hc (by omega) he
    have hlast : s.lines.getLast? = some (.rule pb t) := by rw [hl]; simp
    obtain ⟨pb', added, nb, e1, e2, e3, e4, e5⟩ := appendColumns_table s s' cfg subs W hf hwn hc hdb pb t hlast hpb hsw he
    refine ⟨⟨st.1, e5, ?_⟩, st.2⟩
    obtain ⟨a', rfl⟩ := e4
    refine ⟨init ++ [RLine.rule pb' t] ++ a', nb, s.annStack, ?_, ?_, ?_, ?_⟩
    · rw [e1, hl, setLast_append_singleton]; simp
    · have := e3 (.rule nb s.annStack) (by simp); simpa [rlw] using this
    · intro l hl'
      simp only [List.mem_append, List.mem_singleton] at hl'
      rcases hl' with (h1 | h1) | h1
      · exact hin l h1
      · subst h1; simpa [rlw] using e2
      · exact e3 l (by simp [h1])
    · cases init with
      | nil => exact ⟨pb', t, by simp⟩
      | cons x r =>
        simp only [List.cons_append, List.head?_cons, Option.some.injEq] at hhd
        exact ⟨b0, t0, by simp [hhd]⟩
  · injection he with he; subst he
    exact ⟨⟨hf, hwn, init, pb, t, hl, hpb, hin, b0, t0, hhd⟩, rfl⟩


/-- rows of a regular table: style operations around cells that tile the `n` columns -/
def regRows (n : Nat) : List Op → Bool
  | [] => true
  | .row pre post cells :: rs => pre.all isStyleOp && post.all isStyleOp && tiles n 0 cells && regRows n rs
  | _ :: _ => false

theorem TblInv.transfer {W : Nat} {pre : List RLine} {s s' : SubR} (h : TblInv W pre s) (hf : s'.Fits)
    (hl : s'.lines = s.lines) (hw : s'.wrapping = s.wrapping) : TblInv W pre s' := by
  obtain ⟨_, hwn, rest⟩ := h
  exact ⟨hf, hw.trans hwn, by rw [hl]; exact rest⟩

theorem runRows_table (cfg : Cfg) (d : Deco) (hov : cfg.overflow = false) (hdb : cfg.drawBorders = true)
    (ws : List Nat) (hpos : ∀ x ∈ ws, 0 < x) (hne : 0 < ws.length) (pre : List RLine) :
    ∀ (rows : List Op) (t t' : RS), wfRows rows = true → regRows ws.length rows = true →
    TblInv (ws.sum + (ws.length - 1)) pre t.cur → ws.sum + ws.length ≤ t.cur.width + 1 →
    runRows SubR.widthMinus cfg d ws false t rows = .ok t' →
    TblInv (ws.sum + (ws.length - 1)) pre t'.cur ∧ t'.cur.width = t.cur.width := by
  have hwm := widthMinus_contract cfg hov
  intro rows
  induction rows with
  | nil => intro t t' _ _ hi _ he; simp [runRows] at he; subst he; exact ⟨hi, rfl⟩
  | cons op rs ih =>
    intro t t' hok hreg hi hwid he
    cases op with
    | row rpre rpost cells =>
      simp only [regRows, Bool.and_eq_true, List.all_eq_true] at hreg
      obtain ⟨⟨⟨hpre, hpost⟩, htile⟩, hrs⟩ := hreg
      simp only [wfRows, Bool.and_eq_true] at hok
      obtain ⟨⟨⟨wpre, wpost⟩, wcells⟩, wrs⟩ := hok
      simp only [runRows] at he
      cases h1 : runOps SubR.widthMinus cfg d t rpre with
      | error e => simp [h1, andThen] at he
      | ok t1 =>
        simp only [h1, andThen_ok_eq] at he
        have st1 := runOps_fitsT SubR.widthMinus cfg d hwm hov rpre t t1 wpre hi.1 h1
        obtain ⟨q1, q2⟩ := styleOps_quiet rpre hpre t t1 h1
        have i1 : TblInv (ws.sum + (ws.length - 1)) pre t1.cur := hi.transfer st1.1 q1 q2
        cases h2 : runCells SubR.widthMinus cfg d ws false t1.cur.annStack t1.links cells with
        | error e => simp [h2, andThen_error_eq] at he
        | ok v =>
          obtain ⟨links, subs⟩ := v
          simp only [h2, andThen_ok_eq] at he
          obtain ⟨c1, _, _⟩ := runCells_fitsT SubR.widthMinus cfg d hwm hov cells ws false t1.cur.annStack t1.links 0 links subs wcells h2
          obtain ⟨x1, _⟩ := runCells_exact cfg d hov ws hpos t1.cur.annStack cells t1.links 0 links subs wcells htile h2
          simp only [List.drop_zero, Nat.sub_zero] at x1
          cases h3 : t1.cur.appendRow cfg false subs with
          | error e => simp [h3, andThen_error_eq] at he
          | ok s2 =>
            simp only [h3, andThen_ok_eq] at he
            obtain ⟨i2, w2⟩ := appendRow_inv t1.cur s2 cfg subs _ pre hdb i1 (by rw [st1.2]; omega) c1 (by rw [x1]; omega) h3
            cases h4 : runOps SubR.widthMinus cfg d { links := links, cur := s2 } rpost with
            | error e => simp [h4, andThen_error_eq] at he
            | ok t3 =>
              simp only [h4, andThen_ok_eq] at he
              have st3 := runOps_fitsT SubR.widthMinus cfg d hwm hov rpost _ t3 wpost i2.1 h4
              obtain ⟨q3, q4⟩ := styleOps_quiet rpost hpost _ t3 h4
              have i3 : TblInv (ws.sum + (ws.length - 1)) pre t3.cur := i2.transfer st3.1 q3 q4
              have hw3 : t3.cur.width = t.cur.width := (st3.2.trans w2).trans st1.2
              obtain ⟨i4, w4⟩ := ih t3 t' wrs hrs i3 (by rw [hw3]; exact hwid) he
              exact ⟨i4, w4.trans hw3⟩
    | _ => simp [regRows] at hreg

theorem startBlock_wnone (s s' : SubR) (hf : s.Fits) (h : s.startBlock = .ok s') : s'.wrapping = none := by
  unfold SubR.startBlock at h
  cases h1 : s.flushWrapping with
  | error e => simp [h1, andThen] at h
  | ok s1 =>
    simp only [h1, andThen] at h
    obtain ⟨_, wn⟩ := flushWrapping_step s s1 hf h1
    have hfl : s1.flushWrapping = .ok s1 := by simp [SubR.flushWrapping, wn]
    by_cases hc : s1.lines.any RLine.hasContent = true
    · simp only [hc, if_true, SubR.addEmptyLine, hfl, andThen] at h
      injection h with h; subst h
      simp only [addLine_wrapping, wn]
    · simp only [hc] at h
      injection h with h; subst h; exact wn

theorem allocCols_tw (cfg : Cfg) (width : Nat) (cols : List SizeEst) (ws : List Nat) (tw : Nat)
    (h : allocCols cfg width cols = .ok (ws, false, tw)) : tw = ws.sum + ((ws.filter (· > 0)).length - 1) := by
  unfold allocCols at h
  simp only [] at h
  split at h
  · injection h with h
    simp only [Prod.mk.injEq] at h
    exact absurd h.2.1 (by simp)
  · generalize (cols.map fun sz =>
      if sz.size = 0 then 0 else
        min sz.size (if 18446744073709551615 / width ≤ sz.size then max ((width / (cols.map (·.size)).sum) * sz.size) sz.minW
                     else max (sz.size * width / (cols.map (·.size)).sum) sz.minW)) = init at h
    cases h1 : (if init.isEmpty = true then Except.ok init else shrinkLoop width cols (init.sum + 2) init) with
    | error e => rw [h1] at h; simp [andThen] at h
    | ok ws' =>
      rw [h1] at h
      simp only [andThen_ok_eq] at h
      injection h with h
      simp only [Prod.mk.injEq] at h
      obtain ⟨rfl, _, rfl⟩ := h
      rfl

theorem filter_pos_all (ws : List Nat) (h : ∀ x ∈ ws, 0 < x) : ws.filter (· > 0) = ws := by
  apply List.filter_eq_self.mpr
  intro x hx; simpa using h x hx

/-- **a regular side-by-side table with borders is a rectangle**: all its lines — the top rule, the text lines and the
    bottom rule of every row — have the same display width `Σ columns + (n − 1)`, the first line and the last line are
    rules; the lines before the table are untouched -/
theorem table_exact (cfg : Cfg) (d : Deco) (hov : cfg.overflow = false) (hdb : cfg.drawBorders = true)
    (cols : List SizeEst) (rows : List Op) (t t' : RS) (ws : List Nat) (tw : Nat)
    (ha : allocCols cfg t.cur.width cols = .ok (ws, false, tw)) (hpos : ∀ x ∈ ws, 0 < x) (hne : 0 < ws.length)
    (hwf : wfRows rows = true) (hreg : regRows ws.length rows = true) (hf : t.cur.Fits)
    (he : runOp SubR.widthMinus cfg d t (.table cols rows) = .ok t') :
    ∃ s1, t.cur.startBlock = .ok s1 ∧ TblInv (ws.sum + (ws.length - 1)) s1.lines t'.cur := by
  simp only [runOp] at he
  simp only [ha, andThen_ok_eq] at he
  obtain ⟨a1, _, a3⟩ := allocCols_ok cfg _ cols ws false tw ha
  have htw := allocCols_tw cfg _ cols ws tw ha
  rw [filter_pos_all ws hpos] at htw
  cases h2 : t.cur.startBlock with
  | error e => simp [h2, andThen_error_eq] at he
  | ok s1 =>
    simp only [h2, andThen_ok_eq] at he
    have st1 := startBlock_step _ s1 hf h2
    have wn1 := startBlock_wnone _ s1 hf h2
    cases h3 : s1.tableTop cfg tw with
    | error e => simp [h3, andThen_error_eq] at he
    | ok s3 =>
      simp only [h3, andThen_ok_eq] at he
      have st3 : Step s1 s3 := tableTop_step s1 s3 cfg tw st1.1 (by rw [st1.2]; exact a1) h3
      have hw3 : s3.width = t.cur.width := st3.2.trans st1.2
      have i3 : TblInv (ws.sum + (ws.length - 1)) s1.lines s3 := by
        unfold SubR.tableTop at h3
        have hne0 : tw ≠ 0 := by
          have : 0 < ws.sum := sum_pos_of_pos ws hpos (by intro hh; subst hh; simp at hne)
          omega
        have hfl : s1.flushWrapping = .ok s1 := by simp [SubR.flushWrapping, wn1]
        simp only [hne0, hdb, ne_eq, not_false_eq_true, decide_true, Bool.and_self, if_true, hfl, andThen] at h3
        injection h3 with h3; subst h3
        refine ⟨st3.1, by simp [SubR.addLine, wn1], [], List.replicate tw Seg.straight, s1.annStack, by simp [SubR.addLine], by simp [htw], by simp, ⟨List.replicate tw Seg.straight, s1.annStack, by simp⟩⟩
      have := runRows_table cfg d hov hdb ws hpos hne s1.lines rows { t with cur := s3 } t' hwf hreg i3
        (by show ws.sum + ws.length ≤ s3.width + 1; rw [hw3]; exact a3 rfl) he
      exact ⟨s1, rfl, this.1⟩


/-! ## regular tables as render trees -/

/-- the cells of a row span exactly the `n` columns, each at least one -/
def regularCells (n : Nat) : Nat → List RNode → Bool
  | next, [] => next == n
  | next, .cell _ span _ :: cs => decide (1 ≤ span) && regularCells n (next + span) cs
  | _, _ :: _ => false
/-- every row spans the same `n` columns -/
def regularRows (n : Nat) : List RNode → Bool
  | [] => true
  | .row _ cells :: rs => regularCells n 0 cells && regularRows n rs
  | _ :: _ => false

theorem compileCells_tiles (cfg : Cfg) (d : Deco) (n : Nat) : ∀ (cells : List RNode) (c : Nat),
    regularCells n c cells = true → tiles n c (compileCells cfg d c cells) = true := by
  intro cells
  induction cells with
  | nil => intro c h; simpa [compileCells, tiles, regularCells] using h
  | cons x cs ih =>
    intro c h
    cases x with
    | cell st span kids =>
      simp only [regularCells, Bool.and_eq_true, decide_eq_true_eq] at h
      simp only [compileCells, tiles, Bool.and_eq_true, beq_self_eq_true, decide_eq_true_eq, true_and]
      exact ⟨h.1, ih _ h.2⟩
    | _ => simp [regularCells] at h

theorem compileRows_reg (cfg : Cfg) (d : Deco) (n : Nat) : ∀ (rows : List RNode),
    regularRows n rows = true → regRows n (compileRows cfg d rows) = true := by
  intro rows
  induction rows with
  | nil => intro _; simp [compileRows, regRows]
  | cons x rs ih =>
    intro h
    cases x with
    | row st cells =>
      simp only [regularRows, Bool.and_eq_true] at h
      simp only [compileRows, regRows, Bool.and_eq_true, List.all_eq_true]
      exact ⟨⟨⟨styleOpen_style d st, styleClose_style d st⟩, compileCells_tiles cfg d n cells 0 h.1⟩, ih h.2⟩
    | _ => simp [regularRows] at h

/-- **the rendering of a regular table node**: run from any fitting state, the program of `.table {} rows n` leaves the
    lines before it alone (after `start_block`) and adds a rectangle — see `table_exact` -/
theorem table_node_exact (cfg : Cfg) (d : Deco) (hd : DecoOk d) (hov : cfg.overflow = false) (hdb : cfg.drawBorders = true)
    (rows : List RNode) (n : Nat) (t t' : RS) (ws : List Nat) (tw : Nat)
    (ha : allocCols cfg t.cur.width (tableColsMax cfg d rows (List.replicate n {})) = .ok (ws, false, tw))
    (hpos : ∀ x ∈ ws, 0 < x) (hn : 0 < n) (hreg : regularRows n rows = true) (hf : t.cur.Fits)
    (he : runOps SubR.widthMinus cfg d t (compile cfg d (.table {} rows n)) = .ok t') :
    ∃ s1, t.cur.startBlock = .ok s1 ∧ TblInv (ws.sum + (n - 1)) s1.lines t'.cur := by
  have hlen : ws.length = n := by
    obtain ⟨ws2, v2, tw2, e, l, _⟩ := allocCols_total' cfg t.cur.width (tableColsMax cfg d rows (List.replicate n {}))
    rw [ha] at e
    injection e with e
    simp only [Prod.mk.injEq] at e
    obtain ⟨rfl, _, _⟩ := e
    rw [l, tableColsMax_length]; simp
  have hso : styleOpen d {} = [] := rfl
  have hsc : styleClose d {} = [] := rfl
  simp only [compile, hso, hsc, List.nil_append, List.append_nil, runOps] at he
  cases h1 : runOp SubR.widthMinus cfg d t (.table (tableColsMax cfg d rows (List.replicate n {})) (compileRows cfg d rows)) with
  | error e => simp [h1, andThen] at he
  | ok t1 =>
    simp only [h1, andThen_ok_eq] at he
    injection he with he; subst he
    have := table_exact cfg d hov hdb _ _ t t1 ws tw ha hpos (by omega) (compileRows_wf cfg d hd rows)
      (by rw [hlen]; exact compileRows_reg cfg d n rows hreg) hf h1
    rw [hlen] at this
    exact this

end H2T
