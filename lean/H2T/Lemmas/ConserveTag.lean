import H2T.Lemmas.Conserve

/-! C09, wrap layer (a port of `Conserve` that keeps the tags):  in every white-space mode, with or without overflow and padding, the non-whitespace characters a
    `WrappedBlock` holds (finished lines, current line, pending word — in that order) are exactly the non-whitespace,
    non-control characters it was given, in order.  Nothing is lost, duplicated, reordered or invented; wrapping, hard
    wrapping, tab expansion, padding and flushing only move characters and add or drop whitespace. -/

namespace H2T

/-- the non-whitespace characters of a line, in order (fragment markers carry none) -/
def tink (l : TLine) : List Cell :=
  l.filterMap fun e => match e with | .cell c => if c.ch.ws then none else some c | .frag _ => none

def tinkCells (cs : List Cell) : List Cell := cs.filterMap fun c => if c.ch.ws then none else some c

/-- everything a block holds: finished lines, the current line, the pending word -/
def WB.tink (b : WB) : List Cell := b.text.flatMap H2T.tink ++ H2T.tink b.line ++ H2T.tink b.word

/-- the cells a text adds when every character is tagged `τ` -/
def tkeep (τ : Tag) (cs : List Ch) : List Cell := (keep cs).map fun c => ⟨c, τ⟩

theorem tink_append (a b : TLine) : tink (a ++ b) = tink a ++ tink b := by simp [tink, List.filterMap_append]
theorem tink_nil : tink [] = [] := rfl
theorem tink_spaces (n : Nat) (t : Tag) : tink (List.replicate n (spc t)) = [] := by
  induction n with
  | zero => rfl
  | succ n ih => simp [List.replicate_succ, tink, spc, spaceCh] at ih ⊢
theorem tink_cells (cs : List Cell) : tink (cs.map Elt.cell) = tinkCells cs := by
  induction cs with
  | nil => rfl
  | cons c cs ih =>
    simp only [tink, tinkCells] at ih
    cases hws : c.ch.ws <;> simp [tink, tinkCells, List.filterMap_cons, hws, ih]
theorem tink_frag (n : List Ch) : tink [Elt.frag n] = [] := rfl
theorem tinkCells_append (a b : List Cell) : tinkCells (a ++ b) = tinkCells a ++ tinkCells b := by simp [tinkCells, List.filterMap_append]

theorem tink_forceFlush (b : WB) : b.forceFlush.tink = b.tink := by
  simp only [WB.tink, WB.forceFlush, List.flatMap_append, List.flatMap_cons, List.flatMap_nil, List.append_nil, tink_nil]
  split
  · simp [tink_append, tink_spaces]
  · simp

theorem tink_flushLine (b : WB) : b.flushLine.tink = b.tink := by
  unfold WB.flushLine; split
  · rfl
  · exact tink_forceFlush b

theorem tink_pushWs (b : WB) (n : Nat) (t : Tag) : (b.pushWs n t).tink = b.tink := by
  simp [WB.tink, WB.pushWs, tink_append, tink_spaces]

theorem tink_pushCells (b : WB) (cs : List Cell) (hw : b.word = []) : (b.pushCells cs).tink = b.tink ++ tinkCells cs := by
  simp [WB.tink, WB.pushCells, tink_append, tink_cells, hw, tink_nil]

/-! ## hard wrap -/

theorem pieceLoop_tink (w : Nat) : ∀ (fuel : Nat) (b : WB) (ll wpos : Nat) (rest : List Cell) (moved : Bool)
    (b' : WB) (ll' wpos' : Nat) (rest' : List Cell) (moved' : Bool), b.word = [] →
    b.pieceLoop w fuel ll wpos rest moved = .ok (b', ll', wpos', rest', moved') →
    b'.tink ++ tinkCells rest' = b.tink ++ tinkCells rest ∧ b'.word = [] := by
  intro fuel
  induction fuel with
  | zero => intro b ll wpos rest moved b' ll' wpos' rest' moved' _ h; simp [WB.pieceLoop] at h
  | succ fuel ih =>
    intro b ll wpos rest moved b' ll' wpos' rest' moved' hw h
    simp only [WB.pieceLoop] at h
    by_cases hgt : w - wpos > ll
    · simp only [hgt, if_true] at h
      have hs := (scanFit_spec rest ll wpos).1
      generalize hr : scanFit ll wpos rest = r at h hs
      obtain ⟨taken, rest1, ll1, wpos1⟩ := r
      simp only at h hs
      cases rest1 with
      | nil =>
        simp only at h
        have hw2 : b.forceFlush.word = [] := hw
        have := ih _ _ _ _ _ _ _ _ _ _ hw2 h
        rw [tink_forceFlush] at this
        exact this
      | cons c more =>
        simp only at h
        by_cases hnp : (taken.isEmpty && lw b.line = 0) = true
        · simp only [hnp, if_true] at h
          by_cases ho : b.overflow = true
          · rw [if_pos ho] at h
            have hw2 : (b.pushCells [c]).forceFlush.word = [] := hw
            obtain ⟨e1, e2⟩ := ih _ _ _ _ _ _ _ _ _ _ hw2 h
            refine ⟨?_, e2⟩
            rw [e1, tink_forceFlush, tink_pushCells b [c] hw]
            have htk : taken = [] := by simp only [Bool.and_eq_true, List.isEmpty_iff] at hnp; exact hnp.1
            subst htk
            simp only [List.nil_append] at hs
            rw [← hs]
            cases hws : c.ch.ws <;> simp [tinkCells, List.filterMap_cons, hws, List.append_assoc]
          · rw [if_neg ho] at h; simp at h
        · simp only [hnp, Bool.false_eq_true, if_false] at h
          have hw2 : (b.pushCells taken).forceFlush.word = [] := hw
          obtain ⟨e1, e2⟩ := ih _ _ _ _ _ _ _ _ _ _ hw2 h
          refine ⟨?_, e2⟩
          rw [e1, tink_forceFlush, tink_pushCells b taken hw, ← hs, tinkCells_append, List.append_assoc]
    · simp only [hgt, if_false] at h
      injection h with h
      simp only [Prod.mk.injEq] at h
      obtain ⟨rfl, rfl, rfl, rfl, rfl⟩ := h
      exact ⟨rfl, hw⟩

theorem hardWrapPiece_tink (b b' : WB) (ll ll' : Nat) (piece : List Cell) (hw : b.word = [])
    (h : b.hardWrapPiece ll piece = .ok (b', ll')) : b'.tink = b.tink ++ tinkCells piece ∧ b'.word = [] := by
  unfold WB.hardWrapPiece at h
  simp only at h
  cases hp : b.pieceLoop (cellsW piece) (piece.length + 2) ll 0 piece false with
  | error e => simp [hp, andThen] at h
  | ok r =>
    obtain ⟨b1, ll1, wpos1, rest1, moved1⟩ := r
    simp only [hp, andThen] at h
    obtain ⟨e1, e2⟩ := pieceLoop_tink _ _ b ll 0 piece false b1 ll1 wpos1 rest1 moved1 hw hp
    obtain ⟨_, m1⟩ := pieceLoop_moved _ _ b ll 0 piece false b1 ll1 wpos1 rest1 moved1 hp
    by_cases hm : moved1 = false
    · have hr := m1 hm
      simp only [hm, Bool.not_false, if_true] at h
      injection h with h; simp only [Prod.mk.injEq] at h; obtain ⟨rfl, _⟩ := h
      rw [hr] at e1
      refine ⟨?_, e2⟩
      rw [tink_pushCells b1 piece e2]
      -- b1.tink ++ tink piece = b.tink ++ tink piece, so b1.tink = b.tink
      have := List.append_cancel_right e1
      rw [this]
    · have hm' : moved1 = true := by simpa using hm
      simp only [hm', Bool.not_true, Bool.false_eq_true, if_false] at h
      by_cases hre : rest1.isEmpty = true
      · simp only [hre, Bool.not_true, Bool.false_eq_true, if_false] at h
        injection h with h; simp only [Prod.mk.injEq] at h; obtain ⟨rfl, _⟩ := h
        have : rest1 = [] := List.isEmpty_iff.mp hre
        subst this
        simp only [tinkCells, List.filterMap_nil, List.append_nil] at e1
        exact ⟨by rw [e1]; rfl, e2⟩
      · simp only [hre, Bool.not_false, if_true] at h
        injection h with h; simp only [Prod.mk.injEq] at h; obtain ⟨rfl, _⟩ := h
        exact ⟨by rw [tink_pushCells b1 rest1 e2, e1], e2⟩

/-- the tink of a word's items is the word's tink -/
def itemsTink : List WItem → List Cell
  | [] => []
  | .piece p :: r => tinkCells p ++ itemsTink r
  | .frag _ :: r => itemsTink r

theorem itemsTink_itemsOf (l : TLine) : itemsTink (itemsOf l) = tink l := by
  induction l with
  | nil => rfl
  | cons e es ih =>
    cases e with
    | frag n => simp only [itemsOf, itemsTink, ih]; simp [tink]
    | cell c =>
      simp only [itemsOf]
      have hc : tink (Elt.cell c :: es) = tinkCells [c] ++ tink es := by
        cases hws : c.ch.ws <;> simp [tink, tinkCells, List.filterMap_cons, hws]
      rw [hc, ← ih]
      split
      · rename_i heq
        rw [heq]
        rename_i p ps _ _
        split
        · simp only [itemsTink]
          have : tinkCells (c :: p) = tinkCells [c] ++ tinkCells p := by rw [← tinkCells_append]; rfl
          rw [this, List.append_assoc]
        · simp [itemsTink]
      · simp [itemsTink, tinkCells, List.filterMap_cons]

theorem hardWrapGo_tink (ps : List WItem) : ∀ (b b' : WB) (ll : Nat), b.word = [] → b.hardWrapGo ll ps = .ok b' →
    b'.tink = b.tink ++ itemsTink ps ∧ b'.word = [] := by
  induction ps with
  | nil => intro b b' ll hw h; simp [WB.hardWrapGo] at h; subst h; simp [itemsTink, hw]
  | cons p ps ih =>
    intro b b' ll hw h
    cases p with
    | frag n =>
      simp only [WB.hardWrapGo] at h
      obtain ⟨e1, e2⟩ := ih _ b' ll (by exact hw) h
      refine ⟨?_, e2⟩
      rw [e1]
      simp [WB.tink, tink_append, tink_frag, itemsTink]
    | piece p =>
      simp only [WB.hardWrapGo] at h
      cases hq : b.hardWrapPiece ll p with
      | error e => simp [hq] at h
      | ok r =>
        obtain ⟨b1, ll1⟩ := r
        simp only [hq] at h
        obtain ⟨a1, a2⟩ := hardWrapPiece_tink b b1 ll ll1 p hw hq
        obtain ⟨e1, e2⟩ := ih b1 b' ll1 a2 h
        exact ⟨by rw [e1, a1]; simp [itemsTink, List.append_assoc], e2⟩

theorem hardWrap_tink (b b' : WB) (word : TLine) (hw : b.word = []) (h : b.hardWrap word = .ok b') :
    b'.tink = b.tink ++ tink word ∧ b'.word = [] := by
  unfold WB.hardWrap at h
  split at h
  · simp at h
  · have := hardWrapGo_tink _ b b' _ hw h
    rw [itemsTink_itemsOf] at this
    exact this

/-! ## whitespace, placing a word -/

theorem wsLoop_tink : ∀ (fuel : Nat) (b b' : WB), b.wsLoop fuel = .ok b' → b'.tink = b.tink ∧ b'.word = b.word := by
  intro fuel
  induction fuel with
  | zero => intro b b' h; simp [WB.wsLoop] at h
  | succ fuel ih =>
    intro b b' h
    simp only [WB.wsLoop] at h
    split at h
    · injection h with h; subst h; exact ⟨rfl, rfl⟩
    · cases hst : b.spacetag with
      | none => simp [hst] at h
      | some t =>
        simp only [hst] at h
        obtain ⟨e1, e2⟩ := ih _ b' h
        constructor
        · rw [e1]
          show (if min b.wslen b.width = b.width then (b.pushWs (min b.wslen b.width) t).flushLine else b.pushWs (min b.wslen b.width) t).tink = b.tink
          split
          · rw [tink_flushLine, tink_pushWs]
          · rw [tink_pushWs]
        · rw [e2]
          show (if min b.wslen b.width = b.width then (b.pushWs (min b.wslen b.width) t).flushLine else b.pushWs (min b.wslen b.width) t).word = b.word
          split
          · unfold WB.flushLine; split <;> rfl
          · rfl

theorem placeFits_tink (b b' : WB) (h : b.placeFits = .ok b') : b'.tink = b.tink := by
  unfold WB.placeFits at h
  split at h
  · cases hs : b.spacetag with
    | none => simp [hs] at h
    | some t =>
      simp only [hs] at h; injection h with h; subst h
      simp [WB.tink, WB.pushWs, tink_append, tink_spaces, tink_nil]
  · injection h with h; subst h
    simp [WB.tink, tink_append, tink_nil]

theorem disposeWs_tink (b b' : WB) (m : WS) (h : b.disposeWs m = .ok b') : b'.tink = b.tink ∧ b'.word = b.word := by
  unfold WB.disposeWs at h
  split at h
  · split at h
    · injection h with h; subst h; exact ⟨rfl, rfl⟩
    · split at h
      · cases hs : b.spacetag with
        | none => simp [hs] at h
        | some t =>
          simp only [hs] at h; injection h with h; subst h
          exact ⟨by simp [WB.tink, WB.pushWs, tink_append, tink_spaces], rfl⟩
      · injection h with h; subst h; exact ⟨rfl, rfl⟩
  · injection h with h; subst h; exact ⟨rfl, rfl⟩

theorem startWordLine_tink (b b' : WB) (m : WS) (h : b.startWordLine m = .ok b') : b'.tink = b.tink ∧ b'.word = b.word := by
  unfold WB.startWordLine at h
  simp only at h
  generalize hb3 : (if m = .pre then { b.flushLine with preWrapped := true } else b.flushLine) = b3 at h
  have e3 : b3.tink = b.tink ∧ b3.word = b.word := by
    rw [← hb3]; split
    · exact ⟨tink_flushLine b, flushLine_word b⟩
    · exact ⟨tink_flushLine b, flushLine_word b⟩
  cases h4 : b3.wsLoop (b3.wslen + 1) with
  | error e => simp [h4, andThen] at h
  | ok b4 =>
    simp only [h4, andThen] at h; injection h with h; subst h
    obtain ⟨a1, a2⟩ := wsLoop_tink _ b3 b4 h4
    exact ⟨a1.trans e3.1, a2.trans e3.2⟩

theorem flushWord_tink (b b' : WB) (m : WS) (h : b.flushWord m = .ok b') : b'.tink = b.tink := by
  unfold WB.flushWord at h
  split at h
  · injection h with h; subst h; rfl
  · simp only at h
    split at h
    · simp at h
    · split at h
      · exact placeFits_tink ({ b with preWrapped := false } : WB) b' h
      · cases h1 : ({ b with preWrapped := false } : WB).disposeWs m with
        | error e => simp [h1, andThen] at h
        | ok b1 =>
          simp only [h1, andThen] at h
          obtain ⟨a1, a2⟩ := disposeWs_tink _ b1 m h1
          cases h2 : b1.startWordLine m with
          | error e => simp [h2] at h
          | ok b4 =>
            simp only [h2] at h
            obtain ⟨c1, c2⟩ := startWordLine_tink b1 b4 m h2
            cases h3 : ({ b4 with word := [], wordlen := 0 } : WB).hardWrap b.word with
            | error e => simp [h3] at h
            | ok b5 =>
              simp only [h3] at h; injection h with h; subst h
              obtain ⟨d1, d2⟩ := hardWrap_tink _ b5 b.word rfl h3
              show b5.tink = b.tink
              rw [d1]
              -- dropping the pending word from b4 and adding it back through the hard wrap
              have hb4 : b4.tink = b.tink := c1.trans a1
              have hw4 : b4.word = b.word := c2.trans a2
              simp only [WB.tink, tink_nil, List.append_nil] at hb4 ⊢
              rw [hw4] at hb4
              exact hb4

theorem tabLoop_tink (tag : Tag) : ∀ (fuel : Nat) (b b' : WB) (pos : Nat) (one : Bool), b.tabLoop tag pos one fuel = .ok b' →
    b'.tink = b.tink := by
  intro fuel
  induction fuel with
  | zero => intro b b' pos one h; simp [WB.tabLoop] at h
  | succ fuel ih =>
    intro b b' pos one h
    simp only [WB.tabLoop] at h
    split at h
    · split at h
      · exact (ih _ b' _ _ h).trans (tink_flushLine b)
      · have := ih _ b' _ _ h
        rw [this]
        simp [WB.tink, tink_append, spc, tink, spaceCh]
    · injection h with h; subst h; rfl

/-! ## characters and text -/

theorem addChar_tink (b b' : WB) (m : WS) (τ : Tag) (cur cur' : Bool) (c : Ch) (h : b.addChar m τ τ cur c = .ok (b', cur')) :
    b'.tink = b.tink ++ tkeep τ [c] := by
  unfold WB.addChar at h
  simp only at h
  generalize hr : (if (c.ws && !b.word.noContent) = true then b.flushWord m else Except.ok b) = r at h
  cases r with
  | error e => simp at h
  | ok b1 =>
    simp only at h
    have e1 : b1.tink = b.tink := by
      split at hr
      · exact flushWord_tink b b1 m hr
      · injection hr with hr; subst hr; rfl
    by_cases hws : c.ws = true
    · have hk : tkeep τ [c] = [] := by simp [tkeep, keep, hws]
      rw [hk, List.append_nil, ← e1]
      simp only [hws, if_true] at h
      split at h
      · split at h
        · injection h with h; simp only [Prod.mk.injEq] at h; obtain ⟨rfl, _⟩ := h
          show ({ b1.forceFlush with wslen := 0, spacetag := none, preWrapped := false } : WB).tink = b1.tink
          exact tink_forceFlush b1
        · split at h
          · simp only [ite_self] at h
            cases ht : b1.tabLoop τ (b1.linelen + b1.wslen) false (2 * b1.width + 20) with
            | error e => simp [ht] at h
            | ok bt =>
              simp only [ht] at h; injection h with h; simp only [Prod.mk.injEq] at h; obtain ⟨rfl, _⟩ := h
              exact tabLoop_tink _ _ b1 _ _ _ ht
          · split at h
            · injection h with h; simp only [Prod.mk.injEq] at h; obtain ⟨rfl, _⟩ := h; rfl
            · split at h
              · split at h
                · injection h with h; simp only [Prod.mk.injEq] at h; obtain ⟨rfl, _⟩ := h
                  exact tink_flushLine { b1 with wslen := 0 }
                · injection h with h; simp only [Prod.mk.injEq] at h; obtain ⟨rfl, _⟩ := h
                  exact tink_flushLine { b1 with wslen := 0 }
              · injection h with h; simp only [Prod.mk.injEq] at h; obtain ⟨rfl, _⟩ := h; rfl
      · split at h <;> (injection h with h; simp only [Prod.mk.injEq] at h; obtain ⟨rfl, _⟩ := h; rfl)
    · have hws' : c.ws = false := by simpa using hws
      simp only [hws', Bool.false_eq_true, if_false] at h
      split at h
      · rename_i hct
        injection h with h; simp only [Prod.mk.injEq] at h; obtain ⟨rfl, _⟩ := h
        simp [tkeep, keep, hws', hct, e1]
      · rename_i hct
        injection h with h; simp only [Prod.mk.injEq] at h; obtain ⟨rfl, _⟩ := h
        have hct' : c.ctrl = false := by simpa using hct
        rw [← e1]
        simp [WB.tink, tink, tkeep, keep, hws', hct', List.append_assoc]

theorem tkeep_cons (τ : Tag) (c : Ch) (cs : List Ch) : tkeep τ (c :: cs) = tkeep τ [c] ++ tkeep τ cs := by
  simp only [tkeep, keep_cons c cs, List.map_append]

theorem addTextGo_tink (m : WS) (τ : Tag) (cs : List Ch) : ∀ (b b' : WB) (cur : Bool), b.addTextGo m τ τ cur cs = .ok b' →
    b'.tink = b.tink ++ tkeep τ cs := by
  induction cs with
  | nil => intro b b' cur h; simp [WB.addTextGo] at h; subst h; simp [tkeep, keep]
  | cons c cs ih =>
    intro b b' cur h
    simp only [WB.addTextGo] at h
    cases hc : b.addChar m τ τ cur c with
    | error e => simp [hc] at h
    | ok r =>
      obtain ⟨b1, cur1⟩ := r
      simp only [hc] at h
      rw [ih b1 b' cur1 h, addChar_tink b b1 m τ cur cur1 c hc, List.append_assoc]
      congr 1
      exact (tkeep_cons τ c cs).symm

/-- **`add_text` conserves text**: in every mode the block afterwards holds what it held before plus exactly the
    non-whitespace, non-control characters of the text, in order -/
theorem addText_tink (b b' : WB) (m : WS) (τ : Tag) (cs : List Ch) (h : b.addText m τ τ cs = .ok b') :
    b'.tink = b.tink ++ tkeep τ cs := by
  unfold WB.addText WB.zeroGuard at h
  split at h
  · split at h
    · simp only [andThen] at h
      have := addTextGo_tink m τ cs _ b' _ h
      simpa [WB.tink] using this
    · split at h
      · simp [andThen] at h
      · simp only [andThen] at h
        exact addTextGo_tink m τ cs _ b' _ h
  · simp only [andThen] at h
    exact addTextGo_tink m τ cs _ b' _ h

theorem tink_noContent (l : TLine) (h : l.noContent = true) : tink l = [] := by
  induction l with
  | nil => rfl
  | cons e l ih =>
    cases e with
    | cell c => simp [TLine.noContent, Elt.isCell] at h
    | frag n =>
      have h' : TLine.noContent l = true := by simpa [TLine.noContent, Elt.isCell] using h
      have := ih h'
      simp only [tink, List.filterMap_cons] at this ⊢
      exact this

theorem flushWord_tword (b b' : WB) (m : WS) (h : b.flushWord m = .ok b') : tink b'.word = [] := by
  unfold WB.flushWord at h
  split at h
  · rename_i hn; injection h with h; subst h; exact tink_noContent _ hn
  · simp only at h
    split at h
    · simp at h
    · split at h
      · unfold WB.placeFits at h
        split at h
        · cases hs : b.spacetag with
          | none => simp [hs] at h
          | some t => simp only [hs] at h; injection h with h; subst h; rfl
        · injection h with h; subst h; rfl
      · cases h1 : ({ b with preWrapped := false } : WB).disposeWs m with
        | error e => simp [h1, andThen] at h
        | ok b1 =>
          simp only [h1, andThen] at h
          cases h2 : b1.startWordLine m with
          | error e => simp [h2] at h
          | ok b4 =>
            simp only [h2] at h
            cases h3 : ({ b4 with word := [], wordlen := 0 } : WB).hardWrap b.word with
            | error e => simp [h3] at h
            | ok b5 =>
              simp only [h3] at h; injection h with h; subst h
              obtain ⟨_, d2⟩ := hardWrap_tink _ b5 b.word rfl h3
              show tink b5.word = []
              rw [d2]; rfl

/-- **`into_lines` conserves text**: the non-whitespace characters of the emitted lines are exactly what the block held -/
theorem finish_tink (b : WB) (ls : List TLine) (h : b.finish = .ok ls) : ls.flatMap tink = b.tink := by
  unfold WB.finish at h
  cases hf : b.flushWord .normal with
  | error e => simp [hf, andThen] at h
  | ok b1 =>
    simp only [hf, andThen] at h; injection h with h; subst h
    have e1 := flushWord_tink b b1 .normal hf
    have e2 := tink_flushLine b1
    rw [← e1, ← e2]
    -- after the final flushes nothing is left on the line or in the word
    have hw : tink b1.flushLine.word = [] := by rw [flushLine_word]; exact flushWord_tword b b1 .normal hf
    have hl : tink b1.flushLine.line = [] := tink_noContent _ (flushLine_line_noContent b1)
    have hr : (rescueMarks b1.flushLine.text b1.flushLine.line).flatMap tink = b1.flushLine.text.flatMap tink := by
      unfold rescueMarks
      split
      · rename_i last hlast
        have ht : b1.flushLine.text = b1.flushLine.text.dropLast ++ [last] := (dropLast_append_of_getLast? _ last hlast).symm
        conv => rhs; rw [ht]
        simp [tink_append, hl]
      · rfl
    rw [hr]
    simp [WB.tink, hw, hl]

end H2T
