import H2T.Lemmas.Marks
import H2T.Lemmas.Links
import H2T.Lemmas.Balance

/-! C14, block layer: what a sub-renderer holds (finished lines, pending markers, wrapping block) contains, in order,
    exactly the markers recorded so far.  Flushing, blocks, blank lines, text in any mode and nested sub-renderers never
    lose, duplicate or reorder one; the only place a marker can disappear is `into_lines` of a sub-renderer whose last
    markers are still pending (no text line followed them) — exactly the pending list at that moment. -/

namespace H2T

def rmarks : RLine → List (List Ch)
  | .text tl => marks tl
  | .rule _ _ => []

def SubR.marks (s : SubR) : List (List Ch) :=
  s.lines.flatMap rmarks ++ H2T.marks s.pendingFrags ++ (match s.wrapping with | some w => w.marks | none => [])

/-- the wrapping block's current line is empty, has text, or follows a finished line -/
def SubR.MOk (s : SubR) : Prop := match s.wrapping with | some w => w.LineOk | none => True

theorem addLine_marks (s : SubR) (l : RLine) (hw : s.wrapping = none) :
    (s.addLine l).marks = s.marks ++ rmarks l ∧ (s.addLine l).wrapping = none := by
  cases l with
  | rule b t => simp [SubR.addLine, SubR.marks, hw, rmarks, marks]
  | text tl =>
    simp only [SubR.addLine]
    split
    · rename_i he
      have : s.pendingFrags = [] := by simpa using he
      simp [SubR.marks, hw, rmarks, this, marks]
    · simp [SubR.marks, hw, rmarks, marks_append, marks]

theorem addLines_marks (ls : List RLine) : ∀ (s : SubR), s.wrapping = none →
    (s.addLines ls).marks = s.marks ++ ls.flatMap rmarks ∧ (s.addLines ls).wrapping = none := by
  induction ls with
  | nil => intro s hw; simp [SubR.addLines, hw]
  | cons l ls ih =>
    intro s hw
    obtain ⟨a1, a2⟩ := addLine_marks s l hw
    obtain ⟨b1, b2⟩ := ih (s.addLine l) a2
    refine ⟨?_, b2⟩
    show ((s.addLine l).addLines ls).marks = _
    rw [b1, a1]; simp [List.append_assoc]

theorem marks_noContent_word (w : WB) : (if w.word.noContent = true then { w with word := [] } else w).marks ++
    marks (if w.word.noContent = true then w.word else []) = w.marks := by
  split
  · simp [WB.marks, marks]
  · simp [marks]

theorem flushWrapping_marks (s s' : SubR) (hm : s.MOk) (h : s.flushWrapping = .ok s') :
    s'.marks = s.marks ∧ s'.wrapping = none := by
  unfold SubR.flushWrapping at h
  cases hw : s.wrapping with
  | none => simp only [hw] at h; injection h with h; subst h; exact ⟨rfl, hw⟩
  | some w =>
    simp only [hw] at h
    have hmk := marks_noContent_word w
    generalize hw' : (if w.word.noContent = true then { w with word := [] } else w) = w' at h hmk
    have hl' : w'.LineOk ∧ (w'.word.noContent = true → w'.word = []) := by
      have hl : w.LineOk := by simpa [SubR.MOk, hw] using hm
      rw [← hw']; split
      · exact ⟨hl, fun _ => rfl⟩
      · rename_i hn; exact ⟨hl, fun hh => absurd hh hn⟩
    cases hfin : w'.finish with
    | error e => simp [hfin, andThen] at h
    | ok ls =>
      simp only [hfin, andThen] at h
      injection h with h; subst h
      obtain ⟨a1, a3⟩ := addLines_marks (ls.map RLine.text) ({ s with wrapping := none } : SubR) rfl
      have e := finish_marks w' ls hl'.1 hl'.2 hfin
      refine ⟨?_, a3⟩
      have hls : (ls.map RLine.text).flatMap rmarks = ls.flatMap marks := by rw [List.flatMap_map]; rfl
      rw [hls, e] at a1
      simp only [SubR.marks, a3, hw, List.append_nil, marks_append] at a1 ⊢
      rw [← hmk, ← List.append_assoc, a1]
      simp [List.append_assoc]

theorem mOk_of_none {s : SubR} (h : s.wrapping = none) : s.MOk := by simp [SubR.MOk, h]

theorem addEmptyLine_marks (s s' : SubR) (hm : s.MOk) (h : s.addEmptyLine = .ok s') : s'.marks = s.marks ∧ s'.wrapping = none := by
  unfold SubR.addEmptyLine at h
  cases h1 : s.flushWrapping with
  | error e => simp [h1, andThen] at h
  | ok s1 =>
    simp only [h1, andThen] at h; injection h with h; subst h
    obtain ⟨a1, a3⟩ := flushWrapping_marks s s1 hm h1
    obtain ⟨b1, b2⟩ := addLine_marks s1 (.text []) a3
    refine ⟨?_, b2⟩
    show (s1.addLine (.text [])).marks = s.marks
    rw [b1, a1]; simp [rmarks, marks]

theorem startBlock_marks (s s' : SubR) (hm : s.MOk) (h : s.startBlock = .ok s') : s'.marks = s.marks ∧ s'.wrapping = none := by
  unfold SubR.startBlock at h
  cases h1 : s.flushWrapping with
  | error e => simp [h1, andThen] at h
  | ok s1 =>
    simp only [h1, andThen] at h
    obtain ⟨a1, a3⟩ := flushWrapping_marks s s1 hm h1
    generalize hr : (if s1.lines.any RLine.hasContent = true then s1.addEmptyLine else Except.ok s1) = r at h
    cases r with
    | error e => simp at h
    | ok s2 =>
      simp only at h; injection h with h; subst h
      have e2 : s2.marks = s1.marks ∧ s2.wrapping = none := by
        split at hr
        · exact addEmptyLine_marks s1 s2 (mOk_of_none a3) hr
        · injection hr with hr; subst hr; exact ⟨rfl, a3⟩
      exact ⟨e2.1.trans a1, e2.2⟩

theorem newLineHard_marks (s s' : SubR) (hm : s.MOk) (h : s.newLineHard = .ok s') : s'.marks = s.marks ∧ s'.wrapping = none := by
  unfold SubR.newLineHard at h
  split at h
  · exact addEmptyLine_marks s s' hm h
  · split at h
    · exact addEmptyLine_marks s s' hm h
    · exact flushWrapping_marks s s' hm h

theorem getWrapping_marks (s : SubR) (cfg : Cfg) : (s.getWrapping cfg).marks = (match s.wrapping with | some w => w.marks | none => []) ∧
    (s.MOk → (s.getWrapping cfg).LineOk) := by
  unfold SubR.getWrapping
  cases hw : s.wrapping with
  | some w => exact ⟨rfl, fun hm => by simpa [SubR.MOk, hw] using hm⟩
  | none => exact ⟨rfl, fun _ _ => Or.inl rfl⟩

theorem addInlineText_marks (s s' : SubR) (cfg : Cfg) (x : List Ch) (f : Ann → Ann) (hm : s.MOk)
    (h : s.addInlineText cfg x f = .ok s') : s'.marks = s.marks ∧ s'.MOk := by
  unfold SubR.addInlineText at h
  split at h
  · injection h with h; subst h; exact ⟨rfl, hm⟩
  · generalize hs0 : (if s.atBlockEnd = true then s.startBlock else Except.ok s) = r0 at h
    cases r0 with
    | error e => simp [andThen] at h
    | ok s0 =>
      have e0 : s0.marks = s.marks ∧ s0.MOk := by
        split at hs0
        · obtain ⟨a, b⟩ := startBlock_marks s s0 hm hs0; exact ⟨a, mOk_of_none b⟩
        · injection hs0 with hs0; subst hs0; exact ⟨rfl, hm⟩
      simp only [andThen] at h
      cases hr : (s0.getWrapping cfg).addText s0.wsMode (if s0.preDepth > 0 then s0.annStack ++ [f (Ann.pre false)] else s0.annStack)
        (if s0.preDepth > 0 then s0.annStack ++ [f (Ann.pre true)] else s0.annStack) (iterN strikeFilter s0.filterDepth x) with
      | error e => simp [hr] at h
      | ok w' =>
        simp only [hr] at h; injection h with h; subst h
        obtain ⟨g1, g2⟩ := getWrapping_marks s0 cfg
        obtain ⟨a1, a2⟩ := addText_marks _ w' _ _ _ _ (g2 e0.2) hr
        refine ⟨?_, a2⟩
        show s0.lines.flatMap rmarks ++ marks s0.pendingFrags ++ w'.marks = _
        rw [a1, g1, ← e0.1]; rfl

theorem recordFrag_marks (s : SubR) (cfg : Cfg) (n : List Ch) (hm : s.MOk) :
    (s.recordFrag cfg n).marks = s.marks ++ [n] ∧ (s.recordFrag cfg n).MOk := by
  obtain ⟨g1, g2⟩ := getWrapping_marks s cfg
  obtain ⟨a1, a2⟩ := addElement_marks (s.getWrapping cfg) n
  refine ⟨?_, a2.2 (g2 hm)⟩
  show s.lines.flatMap rmarks ++ marks s.pendingFrags ++ ((s.getWrapping cfg).addElement (.frag n)).marks = _
  rw [a1, g1]; simp [SubR.marks, List.append_assoc]

theorem marks_cellsOf (tag : Tag) (p : List Ch) : marks (p.map fun c => Elt.cell ⟨c, tag⟩) = [] := by
  induction p with
  | nil => rfl
  | cons c cs ih => simp [marks] at ih ⊢

theorem prefixLine_marks (tag : Tag) (p : List Ch) (l : RLine) : rmarks (prefixLine tag p l) = rmarks l := by
  cases l with
  | text tl =>
    simp only [prefixLine]
    split
    · rfl
    · simp [rmarks, marks_append, marks_cellsOf]
  | rule b t => simp only [prefixLine, rmarks, marks_cellsOf]

theorem zipPrefix_marks (tag : Tag) (first rest : List Ch) (ls : List RLine) :
    (zipPrefix tag first rest ls).flatMap rmarks = ls.flatMap rmarks := by
  cases ls with
  | nil => rfl
  | cons l ls =>
    simp only [zipPrefix, List.flatMap_cons, prefixLine_marks]
    congr 1
    induction ls with
    | nil => rfl
    | cons x xs ih => simp [prefixLine_marks, ih]

/-- the markers a sub-renderer would drop if it were finished now: those still pending after its last flush (no text line
    followed them) -/
def SubR.lostMarks (s : SubR) : List (List Ch) :=
  match s.flushWrapping with
  | .ok s1 => H2T.marks s1.pendingFrags
  | .error _ => []

/-- **`into_lines`** returns every marker except the ones still pending -/
theorem intoLines_marks (s : SubR) (ls : List RLine) (hm : s.MOk) (h : s.intoLines = .ok ls) :
    ls.flatMap rmarks ++ s.lostMarks = s.marks := by
  unfold SubR.intoLines at h
  unfold SubR.lostMarks
  cases h1 : s.flushWrapping with
  | error e => simp [h1, andThen] at h
  | ok s1 =>
    simp only [h1, andThen] at h; injection h with h; subst h
    obtain ⟨a1, a3⟩ := flushWrapping_marks s s1 hm h1
    rw [← a1]; simp [SubR.marks, a3]

theorem appendSub_marks (s other s' : SubR) (first rest : List Ch) (hm : s.MOk) (ho : other.MOk)
    (h : s.appendSub other first rest = .ok s') :
    (∃ kept, other.marks = kept ++ other.lostMarks ∧ s'.marks = s.marks ++ kept) ∧ s'.wrapping = none := by
  unfold SubR.appendSub at h
  cases e1 : s.flushWrapping with
  | error e => simp [e1, andThen] at h
  | ok s1 =>
    simp only [e1, andThen] at h
    obtain ⟨a1, a3⟩ := flushWrapping_marks s s1 hm e1
    cases e2 : other.intoLines with
    | error e => simp [e2] at h
    | ok ls =>
      simp only [e2] at h; injection h with h; subst h
      obtain ⟨b1, b2⟩ := addLines_marks (zipPrefix s1.annStack first rest ls) s1 a3
      refine ⟨⟨ls.flatMap rmarks, (intoLines_marks other ls ho e2).symm, ?_⟩, b2⟩
      rw [b1, zipPrefix_marks, a1]

/-! ## programs -/

mutual
/-- the markers a program records, in program order -/
def opFrags : Op → List (List Ch)
  | .frag n => [n]
  | .sub _ _ _ _ _ body => opsFrags body
  | _ => []
def opsFrags : List Op → List (List Ch)
  | [] => []
  | op :: r => opFrags op ++ opsFrags r
end

mutual
/-- programs without sub-renderers (inline content and plain blocks) -/
def flatOp : Op → Bool
  | .sub .. => false
  | .table _ _ => false
  | .row _ _ _ => false
  | .cell _ _ _ => false
  | _ => true
def flatOps : List Op → Bool
  | [] => true
  | op :: r => flatOp op && flatOps r
end

/-- what a run does to the markers: it appends `kept`, a sublist of the program's markers that is all of them when no
    sub-renderer is involved -/
def MarkStep (s s' : SubR) (all : List (List Ch)) (flat : Bool) : Prop :=
  (∃ kept, s'.marks = s.marks ++ kept ∧ kept.Sublist all ∧ (flat = true → kept = all)) ∧ s'.MOk

theorem MarkStep.same {s s' : SubR} (flat : Bool) (h : s'.marks = s.marks) (hm : s'.MOk) : MarkStep s s' [] flat :=
  ⟨⟨[], by simp [h], List.Sublist.refl _, fun _ => rfl⟩, hm⟩

theorem onCur_marks (t : RS) (f : SubR → Except Err SubR) (t1 : RS) (all : List (List Ch)) (flat : Bool) (h0 : t.onCur f = .ok t1)
    (hf : ∀ s1, f t.cur = .ok s1 → MarkStep t.cur s1 all flat) : MarkStep t.cur t1.cur all flat := by
  unfold RS.onCur at h0
  cases hfc : f t.cur with
  | error e => simp [hfc, andThen] at h0
  | ok s1 => simp only [hfc, andThen] at h0; injection h0 with h0; subst h0; exact hf s1 hfc

theorem stepSimple_marks (cfg : Cfg) (d : Deco) (t t' : RS) (op : Op) (hm : t.cur.MOk)
    (hsub : ∀ p m f r a b, op ≠ .sub p m f r a b) (htf : tableFreeOp op = true)
    (h : stepSimple cfg d t op = .ok t') : MarkStep t.cur t'.cur (opFrags op) true := by
  have keep0 : ∀ (g : SubR → SubR), (g t.cur).lines = t.cur.lines → (g t.cur).wrapping = t.cur.wrapping →
      (g t.cur).pendingFrags = t.cur.pendingFrags → MarkStep t.cur (g t.cur) [] true := by
    intro g e1 e2 e3
    exact MarkStep.same true (by simp [SubR.marks, e1, e2, e3]) (by unfold SubR.MOk; rw [e2]; exact hm)
  have txt : ∀ (s0 s1 : SubR) (x : List Ch), s0.marks = t.cur.marks → s0.MOk → s0.addInlineText cfg x d.annOf = .ok s1 →
      s1.marks = t.cur.marks ∧ s1.MOk := by
    intro s0 s1 x e0 m0 e
    obtain ⟨a, b⟩ := addInlineText_marks s0 s1 cfg x _ m0 e
    exact ⟨a.trans e0, b⟩
  cases op <;> simp only [stepSimple] at h
  case pushWs ws => exact onCur_marks t _ t' _ _ h fun s1 e => by injection e with e; subst e; exact keep0 (fun s => { s with wsStack := s.wsStack ++ [ws] }) rfl rfl rfl
  case popWs => exact onCur_marks t _ t' _ _ h fun s1 e => by injection e with e; subst e; exact keep0 (fun s => { s with wsStack := s.wsStack.dropLast }) rfl rfl rfl
  case pushAnn a => exact onCur_marks t _ t' _ _ h fun s1 e => by injection e with e; subst e; exact keep0 (fun s => { s with annStack := s.annStack ++ [a] }) rfl rfl rfl
  case popAnn => exact onCur_marks t _ t' _ _ h fun s1 e => by injection e with e; subst e; exact keep0 (fun s => { s with annStack := s.annStack.dropLast }) rfl rfl rfl
  case pushPre => exact onCur_marks t _ t' _ _ h fun s1 e => by injection e with e; subst e; exact keep0 (fun s => { s with preDepth := s.preDepth + 1 }) rfl rfl rfl
  case popPre =>
    exact onCur_marks t _ t' _ _ h fun s1 e => by
      split at e
      · simp at e
      · injection e with e; subst e; exact keep0 (fun s => { s with preDepth := s.preDepth - 1 }) rfl rfl rfl
  case text x =>
    exact onCur_marks t _ t' _ _ h fun s1 e => by
      obtain ⟨a, b⟩ := txt _ s1 x rfl hm e
      exact MarkStep.same true a b
  case frag n =>
    exact onCur_marks t _ t' _ _ h fun s1 e => by
      injection e with e; subst e
      obtain ⟨a, b⟩ := recordFrag_marks t.cur cfg n hm
      exact ⟨⟨[n], a, List.Sublist.refl _, fun _ => rfl⟩, b⟩
  case startLink href =>
    exact onCur_marks { t with links := t.links ++ [href] } _ t' _ _ h fun s1 e => by
      obtain ⟨a, b⟩ := txt ({ t.cur with annStack := t.cur.annStack ++ [d.annOf (Ann.link href)] } : SubR) s1 _ rfl hm e
      exact MarkStep.same true a b
  case endLink =>
    generalize h1 : (t.onCur fun s => andThen (s.addInlineText cfg d.linkEnd d.annOf) fun s' => Except.ok { s' with annStack := s'.annStack.dropLast }) = r1 at h
    cases r1 with
    | error e => simp [andThen] at h
    | ok t1 =>
      simp only [andThen] at h
      have st1 : MarkStep t.cur t1.cur [] true := onCur_marks t _ t1 _ _ h1 fun s1 e => by
        cases h2 : t.cur.addInlineText cfg d.linkEnd d.annOf with
        | error e' => simp [h2, andThen] at e
        | ok s2 =>
          simp only [h2, andThen] at e; injection e with e; subst e
          obtain ⟨a, b⟩ := txt _ s2 _ rfl hm h2
          exact MarkStep.same true a b
      split at h
      · obtain ⟨⟨k, k1, k2, k3⟩, m1⟩ := st1
        have hk : k = [] := k3 rfl
        subst hk
        have := onCur_marks t1 _ t' [] true h fun s1 e => by
          obtain ⟨a, b⟩ := addInlineText_marks t1.cur s1 cfg _ _ m1 e
          exact MarkStep.same true a b
        obtain ⟨⟨k', k1', k2', k3'⟩, m2⟩ := this
        exact ⟨⟨k', by rw [k1', k1]; simp, k2', k3'⟩, m2⟩
      · injection h with h; subst h; exact st1
  case startAnn a x strike =>
    exact onCur_marks t _ t' _ _ h fun s1 e => by
      cases h2 : ({ t.cur with annStack := t.cur.annStack ++ [d.annOf a] } : SubR).addInlineText cfg x d.annOf with
      | error e' => simp [h2, andThen] at e
      | ok s2 =>
        simp only [h2, andThen] at e; injection e with e; subst e
        obtain ⟨a1, b1⟩ := txt ({ t.cur with annStack := t.cur.annStack ++ [d.annOf a] } : SubR) s2 _ rfl hm h2
        split
        · exact MarkStep.same true a1 b1
        · exact MarkStep.same true a1 b1
  case endAnn x strike =>
    exact onCur_marks t _ t' _ _ h fun s1 e => by
      generalize hs0 : (if (strike && cfg.unicodeStrike) = true then { t.cur with filterDepth := t.cur.filterDepth - 1 } else t.cur) = s0 at e
      have e0 : s0.marks = t.cur.marks ∧ s0.MOk := by
        rw [← hs0]; split
        · exact ⟨rfl, hm⟩
        · exact ⟨rfl, hm⟩
      cases h2 : s0.addInlineText cfg x d.annOf with
      | error e' => simp [h2, andThen] at e
      | ok s2 =>
        simp only [h2, andThen] at e; injection e with e; subst e
        obtain ⟨a1, b1⟩ := txt s0 s2 _ e0.1 e0.2 h2
        exact MarkStep.same true a1 b1
  case image src title =>
    exact onCur_marks t _ t' _ _ h fun s1 e => by
      cases h2 : ({ t.cur with annStack := t.cur.annStack ++ [d.annOf (Ann.image src)] } : SubR).addInlineText cfg (d.imgText title) d.annOf with
      | error e' => simp [h2, andThen] at e
      | ok s2 =>
        simp only [h2, andThen] at e; injection e with e; subst e
        obtain ⟨a1, b1⟩ := txt ({ t.cur with annStack := t.cur.annStack ++ [d.annOf (Ann.image src)] } : SubR) s2 _ rfl hm h2
        exact MarkStep.same true a1 b1
  case startBlock =>
    exact onCur_marks t _ t' _ _ h fun s1 e => by
      obtain ⟨a, b⟩ := startBlock_marks _ s1 hm e
      exact MarkStep.same true a (mOk_of_none b)
  case endBlock => exact onCur_marks t _ t' _ _ h fun s1 e => by injection e with e; subst e; exact keep0 (fun s => { s with atBlockEnd := true }) rfl rfl rfl
  case newLine =>
    exact onCur_marks t _ t' _ _ h fun s1 e => by
      obtain ⟨a, b⟩ := flushWrapping_marks _ s1 hm e
      exact MarkStep.same true a (mOk_of_none b)
  case newLineHard =>
    exact onCur_marks t _ t' _ _ h fun s1 e => by
      obtain ⟨a, b⟩ := newLineHard_marks _ s1 hm e
      exact MarkStep.same true a (mOk_of_none b)
  case sub p m f r a b => exact absurd rfl (hsub p m f r a b)
  case table _ _ => simp [tableFreeOp] at htf
  case row _ _ _ => simp [tableFreeOp] at htf
  case cell _ _ _ => simp [tableFreeOp] at htf

theorem fresh_marks (w : Nat) (ann : Tag) : ({ width := w, annStack := ann } : SubR).marks = [] ∧ ({ width := w, annStack := ann } : SubR).MOk :=
  ⟨rfl, trivial⟩

mutual
theorem runOp_marks (wm : SubR → Cfg → Nat → Nat → Except Err Nat) (cfg : Cfg) (d : Deco) :
    (op : Op) → (t t' : RS) → tableFreeOp op = true → t.cur.MOk → runOp wm cfg d t op = .ok t' →
    MarkStep t.cur t'.cur (opFrags op) (flatOp op)
  | .sub p m first rest asBlock body, t, t', hs, hm, he => by
    simp only [tableFreeOp] at hs
    simp only [runOp] at he
    cases e1 : wm t.cur cfg p m with
    | error e => simp [e1, andThen_error_eq] at he
    | ok w =>
      simp only [e1, andThen_ok_eq] at he
      cases e2 : runOps wm cfg d { links := t.links, cur := ({ width := w, annStack := t.cur.annStack } : SubR) } body with
      | error e => simp [e2, andThen_error_eq] at he
      | ok r =>
        simp only [e2, andThen_ok_eq] at he
        obtain ⟨f1, f2⟩ := fresh_marks w t.cur.annStack
        obtain ⟨⟨kb, kb1, kb2, _⟩, mb⟩ := runOps_marks wm cfg d body _ r hs f2 e2
        cases e3 : (if asBlock = true then t.cur.startBlock else Except.ok t.cur) with
        | error e => simp [e3, andThen_error_eq] at he
        | ok s1 =>
          simp only [e3, andThen_ok_eq] at he
          have st1 : s1.marks = t.cur.marks ∧ s1.MOk := by
            split at e3
            · obtain ⟨a, b⟩ := startBlock_marks _ s1 hm e3; exact ⟨a, mOk_of_none b⟩
            · injection e3 with e3; subst e3; exact ⟨rfl, hm⟩
          cases e4 : s1.appendSub r.cur first rest with
          | error e => simp [e4, andThen_error_eq] at he
          | ok s2 =>
            simp only [e4, andThen_ok_eq] at he; injection he with he; subst he
            obtain ⟨⟨kept, k1, k2⟩, hw2⟩ := appendSub_marks s1 r.cur s2 first rest st1.2 mb e4
            have hsub : kept.Sublist (opsFrags body) := by
              have : kept.Sublist kb := by
                have hk : kb = kept ++ r.cur.lostMarks := by rw [← k1, kb1, f1]; simp
                rw [hk]; exact List.sublist_append_left _ _
              exact this.trans kb2
            refine ⟨⟨kept, ?_, by simpa [opFrags] using hsub, fun hf => by simp [flatOp] at hf⟩, ?_⟩
            · split
              · show s2.marks = _; rw [k2, st1.1]
              · rw [k2, st1.1]
            · split
              · exact mOk_of_none hw2
              · exact mOk_of_none hw2
  | .table _ _, _, _, hs, _, _ => by simp [tableFreeOp] at hs
  | .row _ _ _, _, _, hs, _, _ => by simp [tableFreeOp] at hs
  | .cell _ _ _, _, _, hs, _, _ => by simp [tableFreeOp] at hs
  | .pushWs ws, t, t', hs, hm, he => stepSimple_marks cfg d t t' _ hm (by simp) hs (by simpa [runOp] using he)
  | .popWs, t, t', hs, hm, he => stepSimple_marks cfg d t t' _ hm (by simp) hs (by simpa [runOp] using he)
  | .pushPre, t, t', hs, hm, he => stepSimple_marks cfg d t t' _ hm (by simp) hs (by simpa [runOp] using he)
  | .popPre, t, t', hs, hm, he => stepSimple_marks cfg d t t' _ hm (by simp) hs (by simpa [runOp] using he)
  | .pushAnn a, t, t', hs, hm, he => stepSimple_marks cfg d t t' _ hm (by simp) hs (by simpa [runOp] using he)
  | .popAnn, t, t', hs, hm, he => stepSimple_marks cfg d t t' _ hm (by simp) hs (by simpa [runOp] using he)
  | .text x, t, t', hs, hm, he => stepSimple_marks cfg d t t' _ hm (by simp) hs (by simpa [runOp] using he)
  | .frag n, t, t', hs, hm, he => stepSimple_marks cfg d t t' _ hm (by simp) hs (by simpa [runOp] using he)
  | .startLink h, t, t', hs, hm, he => stepSimple_marks cfg d t t' _ hm (by simp) hs (by simpa [runOp] using he)
  | .endLink, t, t', hs, hm, he => stepSimple_marks cfg d t t' _ hm (by simp) hs (by simpa [runOp] using he)
  | .startAnn a x s, t, t', hs, hm, he => stepSimple_marks cfg d t t' _ hm (by simp) hs (by simpa [runOp] using he)
  | .endAnn x s, t, t', hs, hm, he => stepSimple_marks cfg d t t' _ hm (by simp) hs (by simpa [runOp] using he)
  | .image a b, t, t', hs, hm, he => stepSimple_marks cfg d t t' _ hm (by simp) hs (by simpa [runOp] using he)
  | .startBlock, t, t', hs, hm, he => stepSimple_marks cfg d t t' _ hm (by simp) hs (by simpa [runOp] using he)
  | .endBlock, t, t', hs, hm, he => stepSimple_marks cfg d t t' _ hm (by simp) hs (by simpa [runOp] using he)
  | .newLine, t, t', hs, hm, he => stepSimple_marks cfg d t t' _ hm (by simp) hs (by simpa [runOp] using he)
  | .newLineHard, t, t', hs, hm, he => stepSimple_marks cfg d t t' _ hm (by simp) hs (by simpa [runOp] using he)
theorem runOps_marks (wm : SubR → Cfg → Nat → Nat → Except Err Nat) (cfg : Cfg) (d : Deco) :
    (ops : List Op) → (t t' : RS) → tableFreeOps ops = true → t.cur.MOk → runOps wm cfg d t ops = .ok t' →
    MarkStep t.cur t'.cur (opsFrags ops) (flatOps ops)
  | [], t, t', _, hm, he => by simp [runOps] at he; subst he; exact MarkStep.same _ rfl hm
  | op :: ops, t, t', hs, hm, he => by
    simp only [tableFreeOps, Bool.and_eq_true] at hs
    simp only [runOps] at he
    cases h1 : runOp wm cfg d t op with
    | error e => simp [h1, andThen_error_eq] at he
    | ok t1 =>
      simp only [h1, andThen_ok_eq] at he
      obtain ⟨⟨k1, a1, a2, a3⟩, m1⟩ := runOp_marks wm cfg d op t t1 hs.1 hm h1
      obtain ⟨⟨k2, b1, b2, b3⟩, m2⟩ := runOps_marks wm cfg d ops t1 t' hs.2 m1 he
      refine ⟨⟨k1 ++ k2, by rw [b1, a1, List.append_assoc], Sublist.append_both a2 b2, ?_⟩, m2⟩
      intro hf
      simp only [flatOps, Bool.and_eq_true] at hf
      rw [a3 hf.1, b3 hf.2]; rfl
end

end H2T
