import H2T.Lemmas.TagTreeTable
import H2T.Lemmas.TagText

/-! C03 from C09, tables included: erasing every tag vector (`ν := fun _ => []`) turns "no tagged character is invented"
    into "no character is invented or duplicated" — under decorators with *visible* block prefixes, for every render
    tree. -/

namespace H2T

/-- the view that forgets the tags -/
def noTags : Tag → Tag := fun _ => []

theorem noTags_preView (d : Deco) : PreView noTags d := fun _ => rfl

theorem count_retag_noTags (c : Ch) (l : List Cell) : (l.map (retag noTags)).count ⟨c, []⟩ = (l.map (·.ch)).count c := by
  induction l with
  | nil => rfl
  | cons x l ih =>
    simp only [List.map_cons, List.count_cons, ih]
    congr 1
    by_cases h : x.ch = c
    · simp [retag, noTags, h]
    · have : ¬ ((⟨x.ch, []⟩ : Cell) = ⟨c, []⟩) := by intro e; injection e with e1 _; exact h e1
      simp [retag, noTags, h, this]

theorem count_cell_le_ch (c : Ch) (t : Tag) (l : List Cell) : l.count ⟨c, t⟩ ≤ (l.map (·.ch)).count c := by
  induction l with
  | nil => simp
  | cons x l ih =>
    simp only [List.map_cons, List.count_cons]
    by_cases h : x = ⟨c, t⟩
    · subst h; simp; omega
    · have h' : (x == (⟨c, t⟩ : Cell)) = false := by simpa using h
      simp only [h', Bool.false_eq_true, if_false, Nat.add_zero]
      split <;> omega

theorem rink_count (c : Ch) (hc : isBox c = false) (l : RLine) : (rink l).count c = ((trink l).map (·.ch)).count c := by
  cases l with
  | text tl => simp [rink, trink, ink_eq_tink]
  | rule b t => simp only [rink, trink, List.map_nil, List.count_nil]; exact cnt_border c hc b

theorem flatMap_rink_count (c : Ch) (hc : isBox c = false) (ls : List RLine) :
    (ls.flatMap rink).count c = ((ls.flatMap trink).map (·.ch)).count c := by
  induction ls with
  | nil => rfl
  | cons l ls ih => simp only [List.flatMap_cons, List.count_append, List.map_append, rink_count c hc l, ih]

/-- **no character is invented or duplicated — every render tree, visible prefixes allowed**: for every character `c` that
    is neither box-drawing nor one the block prefixes are made of, the rendered lines hold `c` at most as often as the
    specification's texts -/
theorem renderTree_chars_le (P : Ch → Bool) (c : Ch) (hcb : isBox c = false) (hcP : P c = true) (cfg : Cfg) (d : Deco) (w : Nat)
    (tree : RNode) (ls : List RLine) (hfn : cfg.footnotes = false) (hd : DecoAvoids P d) (h : renderTree cfg d w tree = .ok ls) :
    (ls.flatMap rink).count c ≤ ((nodeTT noTags cfg d [] 0 0 tree).map (·.ch)).count c := by
  have := renderTree_tagsT noTags P ⟨c, []⟩ hcb hcP cfg d (noTags_preView d) w tree ls hfn hd h
  rw [count_retag_noTags] at this
  rw [flatMap_rink_count c hcb]
  exact Nat.le_trans this (count_cell_le_ch c [] _)

theorem tcellsN_ch (ν : Tag → Tag) (d : Deco) (a : Tag) (pre : Nat) (x : List Ch) : (tcellsN ν d a 0 pre x).map (·.ch) = keep x := by
  simp [tcellsN, tkeep, iterN, Function.comp_def]

mutual
/-- without the Unicode strikeout filter the specification's characters are the tree's raw text (tables included) -/
theorem nodeTT_chars (ν : Tag → Tag) (cfg : Cfg) (d : Deco) (hu : cfg.unicodeStrike = false) : (n : RNode) → (st : Tag) → (pre : Nat) →
    (nodeTT ν cfg d st 0 pre n).map (·.ch) = nodeRaw d n
  | .text sty s, st, pre => by simp [nodeTT, nodeRaw, tcellsN_ch]
  | .img sty a b, st, pre => by simp [nodeTT, nodeRaw, tcellsN_ch]
  | .br _, _, _ => by simp [nodeTT, nodeRaw]
  | .frag _, _, _ => by simp [nodeTT, nodeRaw]
  | .row _ _, _, _ => by simp [nodeTT, nodeRaw]
  | .tbody _ _, _, _ => by simp [nodeTT, nodeRaw]
  | .table sty rows _, st, pre => by simp [nodeTT, nodeRaw, rowsTT_chars ν cfg d hu rows]
  | .cell sty _ kids, st, pre => by simp [nodeTT, nodeRaw, listTT_chars ν cfg d hu kids]
  | .box sty k kids, st, pre => by
    have hb := fun s p => listTT_chars ν cfg d hu kids s p
    cases k with
    | container => simp [nodeTT, nodeRaw, hb]
    | link href => simp [nodeTT, nodeRaw, hb, tcellsN_ch]
    | em => simp [nodeTT, nodeRaw, hb, tcellsN_ch]
    | strong => simp [nodeTT, nodeRaw, hb, tcellsN_ch]
    | strike => simp [nodeTT, nodeRaw, hb, tcellsN_ch, hu]
    | code => simp [nodeTT, nodeRaw, hb, tcellsN_ch]
    | block => simp [nodeTT, nodeRaw, hb]
    | li => simp [nodeTT, nodeRaw, hb]
    | header lvl => simp [nodeTT, nodeRaw, hb]
    | div => simp [nodeTT, nodeRaw, hb]
    | quote => simp [nodeTT, nodeRaw, hb]
    | ul => simp [nodeTT, nodeRaw, itemsTT_chars ν cfg d hu kids]
    | ol start => simp [nodeTT, nodeRaw, itemsTT_chars ν cfg d hu kids]
    | dl => simp [nodeTT, nodeRaw, hb]
    | dt => simp [nodeTT, nodeRaw, hb, tcellsN_ch]
    | dd => simp [nodeTT, nodeRaw, hb]
    | sup =>
      simp only [nodeTT, nodeRaw]
      cases hsd : supDigits kids with
      | some ds => simp [tcellsN_ch]
      | none => simp [hb, tcellsN_ch]
theorem listTT_chars (ν : Tag → Tag) (cfg : Cfg) (d : Deco) (hu : cfg.unicodeStrike = false) : (ns : List RNode) → (st : Tag) → (pre : Nat) →
    (listTT ν cfg d st 0 pre ns).map (·.ch) = listRaw d ns
  | [], _, _ => by simp [listTT, listRaw]
  | n :: ns, st, pre => by simp [listTT, listRaw, nodeTT_chars ν cfg d hu n, listTT_chars ν cfg d hu ns]
theorem itemsTT_chars (ν : Tag → Tag) (cfg : Cfg) (d : Deco) (hu : cfg.unicodeStrike = false) : (ns : List RNode) → (st : Tag) →
    (itemsTT ν cfg d st ns).map (·.ch) = listRaw d ns
  | [], _ => by simp [itemsTT, listRaw]
  | n :: ns, st => by simp [itemsTT, listRaw, nodeTT_chars ν cfg d hu n, itemsTT_chars ν cfg d hu ns]
theorem rowsTT_chars (ν : Tag → Tag) (cfg : Cfg) (d : Deco) (hu : cfg.unicodeStrike = false) : (rows : List RNode) → (st : Tag) →
    (rowsTT ν cfg d st rows).map (·.ch) = rowsRaw d rows
  | [], _ => by simp [rowsTT, rowsRaw]
  | .row sty cells :: rs, st => by simp [rowsTT, rowsRaw, cellsTT_chars ν cfg d hu cells, rowsTT_chars ν cfg d hu rs]
  | .text .. :: rs, st => by simp [rowsTT, rowsRaw, rowsTT_chars ν cfg d hu rs]
  | .img .. :: rs, st => by simp [rowsTT, rowsRaw, rowsTT_chars ν cfg d hu rs]
  | .br .. :: rs, st => by simp [rowsTT, rowsRaw, rowsTT_chars ν cfg d hu rs]
  | .frag .. :: rs, st => by simp [rowsTT, rowsRaw, rowsTT_chars ν cfg d hu rs]
  | .box .. :: rs, st => by simp [rowsTT, rowsRaw, rowsTT_chars ν cfg d hu rs]
  | .cell .. :: rs, st => by simp [rowsTT, rowsRaw, rowsTT_chars ν cfg d hu rs]
  | .tbody .. :: rs, st => by simp [rowsTT, rowsRaw, rowsTT_chars ν cfg d hu rs]
  | .table .. :: rs, st => by simp [rowsTT, rowsRaw, rowsTT_chars ν cfg d hu rs]
theorem cellsTT_chars (ν : Tag → Tag) (cfg : Cfg) (d : Deco) (hu : cfg.unicodeStrike = false) : (cells : List RNode) → (st : Tag) →
    (cellsTT ν cfg d st cells).map (·.ch) = cellsRaw d cells
  | [], _ => by simp [cellsTT, cellsRaw]
  | .cell sty _ kids :: cs, st => by simp [cellsTT, cellsRaw, listTT_chars ν cfg d hu kids, cellsTT_chars ν cfg d hu cs]
  | .text .. :: cs, st => by simp [cellsTT, cellsRaw, cellsTT_chars ν cfg d hu cs]
  | .img .. :: cs, st => by simp [cellsTT, cellsRaw, cellsTT_chars ν cfg d hu cs]
  | .br .. :: cs, st => by simp [cellsTT, cellsRaw, cellsTT_chars ν cfg d hu cs]
  | .frag .. :: cs, st => by simp [cellsTT, cellsRaw, cellsTT_chars ν cfg d hu cs]
  | .box .. :: cs, st => by simp [cellsTT, cellsRaw, cellsTT_chars ν cfg d hu cs]
  | .row .. :: cs, st => by simp [cellsTT, cellsRaw, cellsTT_chars ν cfg d hu cs]
  | .tbody .. :: cs, st => by simp [cellsTT, cellsRaw, cellsTT_chars ν cfg d hu cs]
  | .table .. :: cs, st => by simp [cellsTT, cellsRaw, cellsTT_chars ν cfg d hu cs]
end

/-- …against the tree's raw text, when the Unicode strikeout filter is off -/
theorem renderTree_chars_le_raw (P : Ch → Bool) (c : Ch) (hcb : isBox c = false) (hcP : P c = true) (cfg : Cfg) (d : Deco) (w : Nat)
    (tree : RNode) (ls : List RLine) (hfn : cfg.footnotes = false) (hu : cfg.unicodeStrike = false) (hd : DecoAvoids P d)
    (h : renderTree cfg d w tree = .ok ls) : (ls.flatMap rink).count c ≤ (nodeRaw d tree).count c := by
  have := renderTree_chars_le P c hcb hcP cfg d w tree ls hfn hd h
  rwa [nodeTT_chars noTags cfg d hu tree [] 0] at this

end H2T
