import H2T.Lemmas.OvBlock
import H2T.Lemmas.CfgTree

/-! C11, whole runs: a rendering that succeeds without `allow_width_overflow` is the same with it. -/

namespace H2T

theorem appendRow_rel (s s' s1 : SubR) (cfg : Cfg) (vert : Bool) (subs subs' : List SubR) (h : SR s s') (hc : SRL subs subs')
    (hf : s.appendRow cfg vert subs = .ok s1) : ∃ s1', s'.appendRow cfg.ovOn vert subs' = .ok s1' ∧ SR s1 s1' := by
  unfold SubR.appendRow at hf ⊢
  cases vert with
  | true =>
    simp only [if_true] at hf ⊢
    have hn : s1.wrapping = none := by
      unfold SubR.appendVertRow at hf
      cases h1 : s.flushWrapping with
      | error e => simp [h1, andThen_error_eq] at hf
      | ok s0 =>
        simp only [h1, andThen_ok_eq] at hf
        cases h2 : vertCells cfg true s0 subs with
        | error e => simp [h2, andThen_error_eq] at hf
        | ok s2 =>
          simp only [h2, andThen_ok_eq] at hf
          split at hf
          · cases h3 : s2.flushWrapping with
            | error e => simp [h3, andThen_error_eq] at hf
            | ok s3 =>
              simp only [h3, andThen_ok_eq] at hf; injection hf with hf; subst hf
              exact (ov_addLine_wrapping s3 _).trans (flushWrapping_none s2 s3 h3)
          · injection hf with hf; subst hf
            cases subs with
            | nil => simp only [vertCells] at h2; injection h2 with h2; subst h2; exact flushWrapping_none s s0 h1
            | cons c cs => exact ovVertCells_none cfg (c :: cs) (by simp) true s0 s2 h2
    exact ⟨s1, appendVertRow_rel s s' s1 cfg subs subs' h hc hf, SR.refl_none s1 hn⟩
  | false =>
    simp only [Bool.false_eq_true, if_false] at hf ⊢
    rw [any_nonempty_rel subs subs' hc]
    by_cases hb : (subs.any fun c => !c.empty) = true
    · rw [if_pos hb] at hf ⊢
      have hn : s1.wrapping = none := by
        unfold SubR.appendColumns at hf
        cases h1 : s.flushWrapping with
        | error e => simp [h1, andThen_error_eq] at hf
        | ok s0 =>
          simp only [h1, andThen_ok_eq] at hf
          cases h2 : colSets s0.annStack subs with
          | error e => simp [h2, andThen_error_eq] at hf
          | ok sets =>
            simp only [h2, andThen_ok_eq] at hf
            split at hf
            · simp at hf
            · cases h3 : collapseTop (s0.joinBars sets ((sets.map (·.1)).sum + (sets.length - 1))).1 0 sets with
              | error e => simp [h3, andThen_error_eq] at hf
              | ok v =>
                simp only [h3, andThen_ok_eq] at hf
                injection hf with hf; subst hf
                have hs0 := flushWrapping_none s s0 h1
                have h4 : (s0.setLastRule v.1).wrapping = none := by
                  unfold SubR.setLastRule; split
                  · split <;> exact hs0
                  · exact hs0
                unfold SubR.emitColumns
                simp only []
                split
                · exact (ov_addLine_wrapping _ _).trans (addLines_none _ _ h4)
                · exact addLines_none _ _ h4
      exact ⟨s1, appendColumns_rel s s' s1 cfg subs subs' h hc hf, SR.refl_none s1 hn⟩
    · rw [if_neg hb] at hf ⊢
      injection hf with hf; subst hf; exact ⟨s', rfl, h⟩

/-- the render state of the run with overflow allowed -/
def TR (t t' : RS) : Prop := t'.links = t.links ∧ SR t.cur t'.cur

theorem onCur_rel (t t' t1 : RS) (f f' : SubR → Except Err SubR) (h : TR t t')
    (hf : ∀ s1, f t.cur = .ok s1 → ∃ s1', f' t'.cur = .ok s1' ∧ SR s1 s1') (e : t.onCur f = .ok t1) :
    ∃ t1', t'.onCur f' = .ok t1' ∧ TR t1 t1' := by
  unfold RS.onCur at e ⊢
  cases hfc : f t.cur with
  | error x => simp [hfc, andThen] at e
  | ok s1 =>
    obtain ⟨s1', e1, r1⟩ := hf s1 hfc
    rw [e1]
    simp only [hfc, andThen] at e ⊢
    injection e with e; subst e
    exact ⟨_, rfl, h.1, r1⟩

theorem SR.upd {s s' : SubR} (h : SR s s') (g : SubR → SubR)
    (hg : ∀ (x : SubR) (wr : Option WB), g { x with wrapping := wr } = { g x with wrapping := wr }) (hw : ∀ x, (g x).wrapping = x.wrapping) :
    SR (g s) (g s') := by
  obtain ⟨wr', rfl, hr⟩ := h
  exact ⟨wr', hg s wr', by rw [hw]; exact hr⟩

theorem stepSimple_rel (cfg : Cfg) (d : Deco) (t t' t1 : RS) (op : Op) (hov : cfg.overflow = false) (h : TR t t')
    (e : stepSimple cfg d t op = .ok t1) : ∃ t1', stepSimple cfg.ovOn d t' op = .ok t1' ∧ TR t1 t1' := by
  have upd : ∀ (g : SubR → SubR), (∀ (x : SubR) (wr : Option WB), g { x with wrapping := wr } = { g x with wrapping := wr }) →
      (∀ x, (g x).wrapping = x.wrapping) → ∀ s1, (Except.ok (g t.cur) : Except Err SubR) = .ok s1 →
      ∃ s1', (Except.ok (g t'.cur) : Except Err SubR) = .ok s1' ∧ SR s1 s1' := by
    intro g hg hw s1 e1
    injection e1 with e1; subst e1
    exact ⟨_, rfl, h.2.upd g hg hw⟩
  have txt : ∀ (g : SubR → SubR), (∀ (x : SubR) (wr : Option WB), g { x with wrapping := wr } = { g x with wrapping := wr }) →
      (∀ x, (g x).wrapping = x.wrapping) → ∀ (x : List Ch) s1, (g t.cur).addInlineText cfg x d.annOf = .ok s1 →
      ∃ s1', (g t'.cur).addInlineText cfg.ovOn x d.annOf = .ok s1' ∧ SR s1 s1' := by
    intro g hg hw x s1 e1
    exact addInlineText_rel _ _ s1 cfg x _ (h.2.upd g hg hw) hov e1
  have dl : ∀ {s1 s1' : SubR}, SR s1 s1' → SR { s1 with annStack := s1.annStack.dropLast } { s1' with annStack := s1'.annStack.dropLast } :=
    fun r => r.upd (fun s => { s with annStack := s.annStack.dropLast }) (fun _ _ => rfl) (fun _ => rfl)
  cases op <;> simp only [stepSimple] at e ⊢
  case pushWs ws => exact onCur_rel t t' t1 _ _ h (upd (fun s => { s with wsStack := s.wsStack ++ [ws] }) (fun _ _ => rfl) (fun _ => rfl)) e
  case popWs => exact onCur_rel t t' t1 _ _ h (upd (fun s => { s with wsStack := s.wsStack.dropLast }) (fun _ _ => rfl) (fun _ => rfl)) e
  case pushAnn a => exact onCur_rel t t' t1 _ _ h (upd (fun s => { s with annStack := s.annStack ++ [a] }) (fun _ _ => rfl) (fun _ => rfl)) e
  case popAnn => exact onCur_rel t t' t1 _ _ h (upd (fun s => { s with annStack := s.annStack.dropLast }) (fun _ _ => rfl) (fun _ => rfl)) e
  case pushPre => exact onCur_rel t t' t1 _ _ h (upd (fun s => { s with preDepth := s.preDepth + 1 }) (fun _ _ => rfl) (fun _ => rfl)) e
  case popPre =>
    refine onCur_rel t t' t1 _ _ h ?_ e
    intro s1 e1
    have hp : t'.cur.preDepth = t.cur.preDepth := by obtain ⟨wr', hh, _⟩ := h.2; rw [hh]
    split at e1
    · simp at e1
    · rename_i hc
      have hc' : ¬ t'.cur.preDepth = 0 := by rw [hp]; exact hc
      rw [if_neg hc']
      exact upd (fun s => { s with preDepth := s.preDepth - 1 }) (fun _ _ => rfl) (fun _ => rfl) s1 e1
  case text x => exact onCur_rel t t' t1 _ _ h (txt id (fun _ _ => rfl) (fun _ => rfl) x) e
  case frag n =>
    refine onCur_rel t t' t1 _ _ h ?_ e
    intro s1 e1; injection e1 with e1; subst e1
    exact ⟨_, rfl, recordFrag_rel _ _ cfg n h.2 hov⟩
  case startLink href =>
    have h2 : TR { t with links := t.links ++ [href] } { t' with links := t'.links ++ [href] } := ⟨by show t'.links ++ [href] = t.links ++ [href]; rw [h.1], h.2⟩
    exact onCur_rel _ _ t1 _ _ h2 (txt (fun s => { s with annStack := s.annStack ++ [d.annOf (Ann.link href)] }) (fun _ _ => rfl) (fun _ => rfl) _) e
  case endLink =>
    cases e1 : (t.onCur fun s => andThen (s.addInlineText cfg d.linkEnd d.annOf) fun s' => Except.ok { s' with annStack := s'.annStack.dropLast }) with
    | error x => rw [e1] at e; simp [andThen] at e
    | ok t2 =>
      have := onCur_rel t t' t2 _ (fun s => andThen (s.addInlineText cfg.ovOn d.linkEnd d.annOf) fun s' => Except.ok { s' with annStack := s'.annStack.dropLast }) h (by
        intro s1 e2
        cases e3 : t.cur.addInlineText cfg d.linkEnd d.annOf with
        | error x => simp [e3, andThen] at e2
        | ok s2 =>
          obtain ⟨s2', e3', r2⟩ := addInlineText_rel _ _ s2 cfg _ _ h.2 hov e3
          simp only [e3, andThen] at e2; injection e2 with e2; subst e2
          exact ⟨_, by rw [e3']; rfl, dl r2⟩) e1
      obtain ⟨t2', e2', r2⟩ := this
      rw [e2']
      rw [e1] at e
      simp only [andThen] at e ⊢
      have hfn : cfg.ovOn.footnotes = cfg.footnotes := rfl
      rw [hfn]
      by_cases hf : cfg.footnotes = true
      · rw [if_pos hf] at e ⊢
        rw [r2.1]
        exact onCur_rel t2 t2' t1 _ (fun s => s.addInlineText cfg.ovOn (strCh "[" ++ natCh t2.links.length ++ strCh "]") d.annOf) r2
          (fun s1 e4 => addInlineText_rel _ _ s1 cfg _ _ r2.2 hov e4) e
      · rw [if_neg hf] at e ⊢
        injection e with e; subst e; exact ⟨t2', rfl, r2⟩
  case startAnn a x strike =>
    refine onCur_rel t t' t1 _ _ h ?_ e
    intro s1 e1
    cases e3 : ({ t.cur with annStack := t.cur.annStack ++ [d.annOf a] } : SubR).addInlineText cfg x d.annOf with
    | error y => rw [e3] at e1; simp [andThen] at e1
    | ok s2 =>
      obtain ⟨s2', e3', r2⟩ := txt (fun s => { s with annStack := s.annStack ++ [d.annOf a] }) (fun _ _ => rfl) (fun _ => rfl) x s2 e3
      rw [e3']
      rw [e3] at e1
      simp only [andThen] at e1 ⊢
      injection e1 with e1; subst e1
      have hus : cfg.ovOn.unicodeStrike = cfg.unicodeStrike := rfl
      rw [hus]
      refine ⟨_, rfl, ?_⟩
      split
      · exact r2.upd (fun s => { s with filterDepth := s.filterDepth + 1 }) (fun _ _ => rfl) (fun _ => rfl)
      · exact r2
  case endAnn x strike =>
    refine onCur_rel t t' t1 _ _ h ?_ e
    intro s1 e1
    have hus : cfg.ovOn.unicodeStrike = cfg.unicodeStrike := rfl
    rw [hus]
    have hr0 : SR (if (strike && cfg.unicodeStrike) = true then { t.cur with filterDepth := t.cur.filterDepth - 1 } else t.cur)
        (if (strike && cfg.unicodeStrike) = true then { t'.cur with filterDepth := t'.cur.filterDepth - 1 } else t'.cur) := by
      split
      · exact h.2.upd (fun s => { s with filterDepth := s.filterDepth - 1 }) (fun _ _ => rfl) (fun _ => rfl)
      · exact h.2
    cases e3 : (if (strike && cfg.unicodeStrike) = true then { t.cur with filterDepth := t.cur.filterDepth - 1 } else t.cur).addInlineText cfg x d.annOf with
    | error y => rw [e3] at e1; simp [andThen] at e1
    | ok s2 =>
      obtain ⟨s2', e3', r2⟩ := addInlineText_rel _ _ s2 cfg x _ hr0 hov e3
      rw [e3']
      rw [e3] at e1
      simp only [andThen] at e1 ⊢
      injection e1 with e1; subst e1
      exact ⟨_, rfl, dl r2⟩
  case image src title =>
    refine onCur_rel t t' t1 _ _ h ?_ e
    intro s1 e1
    cases e3 : ({ t.cur with annStack := t.cur.annStack ++ [d.annOf (Ann.image src)] } : SubR).addInlineText cfg (d.imgText title) d.annOf with
    | error y => rw [e3] at e1; simp [andThen] at e1
    | ok s2 =>
      obtain ⟨s2', e3', r2⟩ := txt (fun s => { s with annStack := s.annStack ++ [d.annOf (Ann.image src)] }) (fun _ _ => rfl) (fun _ => rfl) _ s2 e3
      rw [e3']
      rw [e3] at e1
      simp only [andThen] at e1 ⊢
      injection e1 with e1; subst e1
      exact ⟨_, rfl, dl r2⟩
  case startBlock =>
    exact onCur_rel t t' t1 _ _ h (fun s1 e1 => ⟨s1, startBlock_rel _ _ s1 h.2 e1, SR.refl_none s1 (ovStartBlock_none _ s1 e1)⟩) e
  case endBlock => exact onCur_rel t t' t1 _ _ h (upd (fun s => { s with atBlockEnd := true }) (fun _ _ => rfl) (fun _ => rfl)) e
  case newLine =>
    exact onCur_rel t t' t1 _ _ h (fun s1 e1 => ⟨s1, flushWrapping_rel _ _ s1 h.2 e1, SR.refl_none s1 (flushWrapping_none _ s1 e1)⟩) e
  case newLineHard =>
    refine onCur_rel t t' t1 _ _ h (fun s1 e1 => ⟨s1, newLineHard_rel _ _ s1 h.2 e1, SR.refl_none s1 ?_⟩) e
    unfold SubR.newLineHard at e1
    have hae : ∀ (s s2 : SubR), s.addEmptyLine = .ok s2 → s2.wrapping = none := by
      intro s s2 e2
      unfold SubR.addEmptyLine at e2
      cases h2 : s.flushWrapping with
      | error y => simp [h2, andThen] at e2
      | ok s3 =>
        simp only [h2, andThen] at e2; injection e2 with e2; subst e2
        exact (ov_addLine_wrapping s3 _).trans (flushWrapping_none s s3 h2)
    split at e1
    · exact hae _ _ e1
    · split at e1
      · exact hae _ _ e1
      · exact flushWrapping_none _ _ e1
  case sub => injection e with e; subst e; exact ⟨t', rfl, h⟩
  case table => injection e with e; subst e; exact ⟨t', rfl, h⟩
  case row => injection e with e; subst e; exact ⟨t', rfl, h⟩
  case cell => injection e with e; subst e; exact ⟨t', rfl, h⟩

theorem TR.refl_none (t : RS) (h : t.cur.wrapping = none) : TR t t := ⟨rfl, SR.refl_none _ h⟩

theorem widthMinus_rel (s s' : SubR) (cfg : Cfg) (p m w : Nat) (h : SR s s') (e : s.widthMinus cfg p m = .ok w) :
    s'.widthMinus cfg.ovOn p m = .ok w := by
  unfold SubR.widthMinus at e ⊢
  rw [h.width]
  simp only at e ⊢
  split at e
  · simp at e
  · injection e with e; subst e
    rw [if_neg (by simp [Cfg.ovOn])]

mutual
theorem runOp_rel (cfg : Cfg) (d : Deco) (hov : cfg.overflow = false) :
    (op : Op) → (t t' t1 : RS) → TR t t' → runOp SubR.widthMinus cfg d t op = .ok t1 →
    ∃ t1', runOp SubR.widthMinus cfg.ovOn d t' op = .ok t1' ∧ TR t1 t1'
  | .sub p m first rest asBlock body, t, t', t1, h, e => by
    simp only [runOp] at e ⊢
    cases e1 : t.cur.widthMinus cfg p m with
    | error x => rw [e1] at e; simp [andThen_error_eq] at e
    | ok w =>
      rw [widthMinus_rel _ _ cfg p m w h.2 e1]
      rw [e1] at e
      simp only [andThen_ok_eq] at e ⊢
      have hann : t'.cur.annStack = t.cur.annStack := by obtain ⟨wr', hh, _⟩ := h.2; rw [hh]
      rw [h.1, hann]
      cases e2 : runOps SubR.widthMinus cfg d { links := t.links, cur := ({ width := w, annStack := t.cur.annStack } : SubR) } body with
      | error x => rw [e2] at e; simp [andThen_error_eq] at e
      | ok r =>
        obtain ⟨r', e2', rr⟩ := runOps_rel cfg d hov body _ _ r (TR.refl_none { links := t.links, cur := ({ width := w, annStack := t.cur.annStack } : SubR) } rfl) e2
        rw [e2']
        rw [e2] at e
        simp only [andThen_ok_eq] at e ⊢
        have hsb : ∀ s1, (if asBlock = true then t.cur.startBlock else Except.ok t.cur) = .ok s1 →
            ∃ s1', (if asBlock = true then t'.cur.startBlock else Except.ok t'.cur) = .ok s1' ∧ SR s1 s1' := by
          intro s1 e3
          cases asBlock with
          | true => exact ⟨s1, startBlock_rel _ _ s1 h.2 e3, SR.refl_none s1 (ovStartBlock_none _ s1 e3)⟩
          | false => simp only [Bool.false_eq_true, if_false] at e3 ⊢; injection e3 with e3; subst e3; exact ⟨_, rfl, h.2⟩
        cases e3 : (if asBlock = true then t.cur.startBlock else Except.ok t.cur) with
        | error x => rw [e3] at e; simp [andThen_error_eq] at e
        | ok s1 =>
          obtain ⟨s1', e3', r1⟩ := hsb s1 e3
          rw [e3']
          rw [e3] at e
          simp only [andThen_ok_eq] at e ⊢
          cases e4 : s1.appendSub r.cur first rest with
          | error x => rw [e4] at e; simp [andThen_error_eq] at e
          | ok s2 =>
            rw [appendSub_rel s1 s1' r.cur r'.cur s2 first rest r1 rr.2 e4]
            rw [e4] at e
            simp only [andThen_ok_eq] at e ⊢
            injection e with e; subst e
            have hn := ovAppendSub_none s1 r.cur s2 first rest e4
            refine ⟨_, rfl, rr.1, ?_⟩
            cases asBlock with
            | true => exact SR.refl_none _ hn
            | false => exact SR.refl_none _ hn
  | .table cols rows, t, t', t1, h, e => by
    simp only [runOp] at e ⊢
    rw [allocCols_sim (c1 := cfg.ovOn) (c2 := cfg) rfl, h.2.width]
    cases e1 : allocCols cfg t.cur.width cols with
    | error x => rw [e1] at e; simp [andThen_error_eq] at e
    | ok v =>
      obtain ⟨ws, vert, tw⟩ := v
      rw [e1] at e
      simp only [andThen_ok_eq] at e ⊢
      cases e2 : t.cur.startBlock with
      | error x => rw [e2] at e; simp [andThen_error_eq] at e
      | ok s1 =>
        rw [startBlock_rel _ _ s1 h.2 e2]
        rw [e2] at e
        simp only [andThen_ok_eq] at e ⊢
        rw [tableTop_sim (c1 := cfg.ovOn) (c2 := cfg) rfl]
        cases e3 : s1.tableTop cfg tw with
        | error x => rw [e3] at e; simp [andThen_error_eq] at e
        | ok s3 =>
          rw [e3] at e
          simp only [andThen_ok_eq] at e ⊢
          have hn3 : s3.wrapping = none := by
            have hn1 := ovStartBlock_none _ s1 e2
            unfold SubR.tableTop at e3
            split at e3
            · cases e4 : s1.flushWrapping with
              | error x => simp [e4, andThen_error_eq] at e3
              | ok s2 =>
                simp only [e4, andThen_ok_eq] at e3; injection e3 with e3; subst e3
                exact (ov_addLine_wrapping s2 _).trans (flushWrapping_none s1 s2 e4)
            · injection e3 with e3; subst e3; exact hn1
          exact runRows_rel cfg d hov rows ws vert { t with cur := s3 } { t' with cur := s3 } t1 ⟨h.1, SR.refl_none s3 hn3⟩ e
  | .row _ _ _, t, t', t1, h, e => by simp only [runOp] at e ⊢; injection e with e; subst e; exact ⟨t', rfl, h⟩
  | .cell _ _ _, t, t', t1, h, e => by simp only [runOp] at e ⊢; injection e with e; subst e; exact ⟨t', rfl, h⟩
  | .pushWs ws, t, t', t1, h, e => by simp only [runOp] at e ⊢; exact stepSimple_rel cfg d t t' t1 _ hov h e
  | .popWs, t, t', t1, h, e => by simp only [runOp] at e ⊢; exact stepSimple_rel cfg d t t' t1 _ hov h e
  | .pushPre, t, t', t1, h, e => by simp only [runOp] at e ⊢; exact stepSimple_rel cfg d t t' t1 _ hov h e
  | .popPre, t, t', t1, h, e => by simp only [runOp] at e ⊢; exact stepSimple_rel cfg d t t' t1 _ hov h e
  | .pushAnn a, t, t', t1, h, e => by simp only [runOp] at e ⊢; exact stepSimple_rel cfg d t t' t1 _ hov h e
  | .popAnn, t, t', t1, h, e => by simp only [runOp] at e ⊢; exact stepSimple_rel cfg d t t' t1 _ hov h e
  | .text x, t, t', t1, h, e => by simp only [runOp] at e ⊢; exact stepSimple_rel cfg d t t' t1 _ hov h e
  | .frag n, t, t', t1, h, e => by simp only [runOp] at e ⊢; exact stepSimple_rel cfg d t t' t1 _ hov h e
  | .startLink hh, t, t', t1, h, e => by simp only [runOp] at e ⊢; exact stepSimple_rel cfg d t t' t1 _ hov h e
  | .endLink, t, t', t1, h, e => by simp only [runOp] at e ⊢; exact stepSimple_rel cfg d t t' t1 _ hov h e
  | .startAnn a x s, t, t', t1, h, e => by simp only [runOp] at e ⊢; exact stepSimple_rel cfg d t t' t1 _ hov h e
  | .endAnn x s, t, t', t1, h, e => by simp only [runOp] at e ⊢; exact stepSimple_rel cfg d t t' t1 _ hov h e
  | .image a b, t, t', t1, h, e => by simp only [runOp] at e ⊢; exact stepSimple_rel cfg d t t' t1 _ hov h e
  | .startBlock, t, t', t1, h, e => by simp only [runOp] at e ⊢; exact stepSimple_rel cfg d t t' t1 _ hov h e
  | .endBlock, t, t', t1, h, e => by simp only [runOp] at e ⊢; exact stepSimple_rel cfg d t t' t1 _ hov h e
  | .newLine, t, t', t1, h, e => by simp only [runOp] at e ⊢; exact stepSimple_rel cfg d t t' t1 _ hov h e
  | .newLineHard, t, t', t1, h, e => by simp only [runOp] at e ⊢; exact stepSimple_rel cfg d t t' t1 _ hov h e
theorem runOps_rel (cfg : Cfg) (d : Deco) (hov : cfg.overflow = false) :
    (ops : List Op) → (t t' t1 : RS) → TR t t' → runOps SubR.widthMinus cfg d t ops = .ok t1 →
    ∃ t1', runOps SubR.widthMinus cfg.ovOn d t' ops = .ok t1' ∧ TR t1 t1'
  | [], t, t', t1, h, e => by simp only [runOps] at e ⊢; injection e with e; subst e; exact ⟨t', rfl, h⟩
  | op :: ops, t, t', t1, h, e => by
    simp only [runOps] at e ⊢
    cases e1 : runOp SubR.widthMinus cfg d t op with
    | error x => rw [e1] at e; simp [andThen_error_eq] at e
    | ok t2 =>
      obtain ⟨t2', e1', r2⟩ := runOp_rel cfg d hov op t t' t2 h e1
      rw [e1']
      rw [e1] at e
      simp only [andThen_ok_eq] at e ⊢
      exact runOps_rel cfg d hov ops t2 t2' t1 r2 e
theorem runRows_rel (cfg : Cfg) (d : Deco) (hov : cfg.overflow = false) :
    (rows : List Op) → (ws : List Nat) → (vert : Bool) → (t t' t1 : RS) → TR t t' → runRows SubR.widthMinus cfg d ws vert t rows = .ok t1 →
    ∃ t1', runRows SubR.widthMinus cfg.ovOn d ws vert t' rows = .ok t1' ∧ TR t1 t1'
  | [], ws, vert, t, t', t1, h, e => by simp only [runRows] at e ⊢; injection e with e; subst e; exact ⟨t', rfl, h⟩
  | .row pre post cells :: rs, ws, vert, t, t', t1, h, e => by
    simp only [runRows] at e ⊢
    cases e1 : runOps SubR.widthMinus cfg d t pre with
    | error x => rw [e1] at e; simp [andThen_error_eq] at e
    | ok t2 =>
      obtain ⟨t2', e1', r2⟩ := runOps_rel cfg d hov pre t t' t2 h e1
      rw [e1']
      rw [e1] at e
      simp only [andThen_ok_eq] at e ⊢
      have hann : t2'.cur.annStack = t2.cur.annStack := by obtain ⟨wr', hh, _⟩ := r2.2; rw [hh]
      rw [r2.1, hann]
      cases e2 : runCells SubR.widthMinus cfg d ws vert t2.cur.annStack t2.links cells with
      | error x => rw [e2] at e; simp [andThen_error_eq] at e
      | ok v =>
        obtain ⟨l2, subs⟩ := v
        obtain ⟨subs', e2', rs2⟩ := runCells_rel cfg d hov cells ws vert t2.cur.annStack t2.links l2 subs e2
        rw [e2']
        rw [e2] at e
        simp only [andThen_ok_eq] at e ⊢
        cases e3 : t2.cur.appendRow cfg vert subs with
        | error x => rw [e3] at e; simp [andThen_error_eq] at e
        | ok s3 =>
          obtain ⟨s3', e3', r3⟩ := appendRow_rel _ _ s3 cfg vert subs subs' r2.2 rs2 e3
          rw [e3']
          rw [e3] at e
          simp only [andThen_ok_eq] at e ⊢
          cases e4 : runOps SubR.widthMinus cfg d { links := l2, cur := s3 } post with
          | error x => rw [e4] at e; simp [andThen_error_eq] at e
          | ok t4 =>
            obtain ⟨t4', e4', r4⟩ := runOps_rel cfg d hov post { links := l2, cur := s3 } { links := l2, cur := s3' } t4 ⟨rfl, r3⟩ e4
            rw [e4']
            rw [e4] at e
            simp only [andThen_ok_eq] at e ⊢
            exact runRows_rel cfg d hov rs ws vert t4 t4' t1 r4 e
  | .sub .. :: rs, ws, vert, t, t', t1, h, e => by simp only [runRows] at e ⊢; exact runRows_rel cfg d hov rs ws vert t t' t1 h e
  | .table .. :: rs, ws, vert, t, t', t1, h, e => by simp only [runRows] at e ⊢; exact runRows_rel cfg d hov rs ws vert t t' t1 h e
  | .cell .. :: rs, ws, vert, t, t', t1, h, e => by simp only [runRows] at e ⊢; exact runRows_rel cfg d hov rs ws vert t t' t1 h e
  | .pushWs _ :: rs, ws, vert, t, t', t1, h, e => by simp only [runRows] at e ⊢; exact runRows_rel cfg d hov rs ws vert t t' t1 h e
  | .popWs :: rs, ws, vert, t, t', t1, h, e => by simp only [runRows] at e ⊢; exact runRows_rel cfg d hov rs ws vert t t' t1 h e
  | .pushPre :: rs, ws, vert, t, t', t1, h, e => by simp only [runRows] at e ⊢; exact runRows_rel cfg d hov rs ws vert t t' t1 h e
  | .popPre :: rs, ws, vert, t, t', t1, h, e => by simp only [runRows] at e ⊢; exact runRows_rel cfg d hov rs ws vert t t' t1 h e
  | .pushAnn _ :: rs, ws, vert, t, t', t1, h, e => by simp only [runRows] at e ⊢; exact runRows_rel cfg d hov rs ws vert t t' t1 h e
  | .popAnn :: rs, ws, vert, t, t', t1, h, e => by simp only [runRows] at e ⊢; exact runRows_rel cfg d hov rs ws vert t t' t1 h e
  | .text _ :: rs, ws, vert, t, t', t1, h, e => by simp only [runRows] at e ⊢; exact runRows_rel cfg d hov rs ws vert t t' t1 h e
  | .frag _ :: rs, ws, vert, t, t', t1, h, e => by simp only [runRows] at e ⊢; exact runRows_rel cfg d hov rs ws vert t t' t1 h e
  | .startLink _ :: rs, ws, vert, t, t', t1, h, e => by simp only [runRows] at e ⊢; exact runRows_rel cfg d hov rs ws vert t t' t1 h e
  | .endLink :: rs, ws, vert, t, t', t1, h, e => by simp only [runRows] at e ⊢; exact runRows_rel cfg d hov rs ws vert t t' t1 h e
  | .startAnn .. :: rs, ws, vert, t, t', t1, h, e => by simp only [runRows] at e ⊢; exact runRows_rel cfg d hov rs ws vert t t' t1 h e
  | .endAnn .. :: rs, ws, vert, t, t', t1, h, e => by simp only [runRows] at e ⊢; exact runRows_rel cfg d hov rs ws vert t t' t1 h e
  | .image .. :: rs, ws, vert, t, t', t1, h, e => by simp only [runRows] at e ⊢; exact runRows_rel cfg d hov rs ws vert t t' t1 h e
  | .startBlock :: rs, ws, vert, t, t', t1, h, e => by simp only [runRows] at e ⊢; exact runRows_rel cfg d hov rs ws vert t t' t1 h e
  | .endBlock :: rs, ws, vert, t, t', t1, h, e => by simp only [runRows] at e ⊢; exact runRows_rel cfg d hov rs ws vert t t' t1 h e
  | .newLine :: rs, ws, vert, t, t', t1, h, e => by simp only [runRows] at e ⊢; exact runRows_rel cfg d hov rs ws vert t t' t1 h e
  | .newLineHard :: rs, ws, vert, t, t', t1, h, e => by simp only [runRows] at e ⊢; exact runRows_rel cfg d hov rs ws vert t t' t1 h e
theorem runCells_rel (cfg : Cfg) (d : Deco) (hov : cfg.overflow = false) :
    (cells : List Op) → (ws : List Nat) → (vert : Bool) → (ann : Tag) → (links l2 : List (List Ch)) → (subs : List SubR) →
    runCells SubR.widthMinus cfg d ws vert ann links cells = .ok (l2, subs) →
    ∃ subs', runCells SubR.widthMinus cfg.ovOn d ws vert ann links cells = .ok (l2, subs') ∧ SRL subs subs'
  | [], ws, vert, ann, links, l2, subs, e => by
    simp only [runCells] at e ⊢; injection e with e; simp only [Prod.mk.injEq] at e; obtain ⟨rfl, rfl⟩ := e; exact ⟨[], rfl, SRL.nil⟩
  | .cell colno span body :: cs, ws, vert, ann, links, l2, subs, e => by
    simp only [runCells] at e ⊢
    by_cases hoob : cellOob ws vert colno span = true
    · rw [if_pos hoob] at e; simp at e
    · rw [if_neg hoob] at e ⊢
      by_cases hz : cellInner ws vert colno span = 0
      · rw [if_pos hz] at e ⊢; exact runCells_rel cfg d hov cs ws vert ann links l2 subs e
      · rw [if_neg hz] at e ⊢
        cases e1 : runOps SubR.widthMinus cfg d { links := links, cur := ({ width := cellOuter vert (cellInner ws vert colno span) span, annStack := ann } : SubR) } body with
        | error x => rw [e1] at e; simp [andThen_error_eq] at e
        | ok r =>
          obtain ⟨r', e1', rr⟩ := runOps_rel cfg d hov body _ _ r
            (TR.refl_none { links := links, cur := ({ width := cellOuter vert (cellInner ws vert colno span) span, annStack := ann } : SubR) } rfl) e1
          rw [e1']
          rw [e1] at e
          simp only [andThen_ok_eq] at e ⊢
          rw [rr.1]
          cases e2 : runCells SubR.widthMinus cfg d ws vert ann r.links cs with
          | error x => rw [e2] at e; simp [andThen_error_eq] at e
          | ok v =>
            obtain ⟨l3, subs2⟩ := v
            obtain ⟨subs2', e2', rs2⟩ := runCells_rel cfg d hov cs ws vert ann r.links l3 subs2 e2
            rw [e2']
            rw [e2] at e
            simp only [andThen_ok_eq] at e ⊢
            injection e with e; simp only [Prod.mk.injEq] at e; obtain ⟨rfl, rfl⟩ := e
            exact ⟨r'.cur :: subs2', rfl, SRL.cons rr.2 rs2⟩
  | .sub .. :: cs, ws, vert, ann, links, l2, subs, e => by simp only [runCells] at e ⊢; exact runCells_rel cfg d hov cs ws vert ann links l2 subs e
  | .table .. :: cs, ws, vert, ann, links, l2, subs, e => by simp only [runCells] at e ⊢; exact runCells_rel cfg d hov cs ws vert ann links l2 subs e
  | .row .. :: cs, ws, vert, ann, links, l2, subs, e => by simp only [runCells] at e ⊢; exact runCells_rel cfg d hov cs ws vert ann links l2 subs e
  | .pushWs _ :: cs, ws, vert, ann, links, l2, subs, e => by simp only [runCells] at e ⊢; exact runCells_rel cfg d hov cs ws vert ann links l2 subs e
  | .popWs :: cs, ws, vert, ann, links, l2, subs, e => by simp only [runCells] at e ⊢; exact runCells_rel cfg d hov cs ws vert ann links l2 subs e
  | .pushPre :: cs, ws, vert, ann, links, l2, subs, e => by simp only [runCells] at e ⊢; exact runCells_rel cfg d hov cs ws vert ann links l2 subs e
  | .popPre :: cs, ws, vert, ann, links, l2, subs, e => by simp only [runCells] at e ⊢; exact runCells_rel cfg d hov cs ws vert ann links l2 subs e
  | .pushAnn _ :: cs, ws, vert, ann, links, l2, subs, e => by simp only [runCells] at e ⊢; exact runCells_rel cfg d hov cs ws vert ann links l2 subs e
  | .popAnn :: cs, ws, vert, ann, links, l2, subs, e => by simp only [runCells] at e ⊢; exact runCells_rel cfg d hov cs ws vert ann links l2 subs e
  | .text _ :: cs, ws, vert, ann, links, l2, subs, e => by simp only [runCells] at e ⊢; exact runCells_rel cfg d hov cs ws vert ann links l2 subs e
  | .frag _ :: cs, ws, vert, ann, links, l2, subs, e => by simp only [runCells] at e ⊢; exact runCells_rel cfg d hov cs ws vert ann links l2 subs e
  | .startLink _ :: cs, ws, vert, ann, links, l2, subs, e => by simp only [runCells] at e ⊢; exact runCells_rel cfg d hov cs ws vert ann links l2 subs e
  | .endLink :: cs, ws, vert, ann, links, l2, subs, e => by simp only [runCells] at e ⊢; exact runCells_rel cfg d hov cs ws vert ann links l2 subs e
  | .startAnn .. :: cs, ws, vert, ann, links, l2, subs, e => by simp only [runCells] at e ⊢; exact runCells_rel cfg d hov cs ws vert ann links l2 subs e
  | .endAnn .. :: cs, ws, vert, ann, links, l2, subs, e => by simp only [runCells] at e ⊢; exact runCells_rel cfg d hov cs ws vert ann links l2 subs e
  | .image .. :: cs, ws, vert, ann, links, l2, subs, e => by simp only [runCells] at e ⊢; exact runCells_rel cfg d hov cs ws vert ann links l2 subs e
  | .startBlock :: cs, ws, vert, ann, links, l2, subs, e => by simp only [runCells] at e ⊢; exact runCells_rel cfg d hov cs ws vert ann links l2 subs e
  | .endBlock :: cs, ws, vert, ann, links, l2, subs, e => by simp only [runCells] at e ⊢; exact runCells_rel cfg d hov cs ws vert ann links l2 subs e
  | .newLine :: cs, ws, vert, ann, links, l2, subs, e => by simp only [runCells] at e ⊢; exact runCells_rel cfg d hov cs ws vert ann links l2 subs e
  | .newLineHard :: cs, ws, vert, ann, links, l2, subs, e => by simp only [runCells] at e ⊢; exact runCells_rel cfg d hov cs ws vert ann links l2 subs e
end

/-- **allowing overflow never changes a rendering that succeeds without it** — for every tree (tables included), every
    decorator, width and other option -/
theorem renderTree_ov_noop (cfg : Cfg) (d : Deco) (w : Nat) (tree : RNode) (ls : List RLine) (hov : cfg.overflow = false)
    (h : renderTree cfg d w tree = .ok ls) : renderTree cfg.ovOn d w tree = .ok ls := by
  unfold renderTree at h ⊢
  by_cases hw0 : w = 0
  · rw [if_pos hw0] at h; simp at h
  · rw [if_neg hw0] at h ⊢
    rw [compile_congr (c1 := cfg.ovOn) (c2 := cfg) rfl d tree]
    cases e1 : runOps SubR.widthMinus cfg d { cur := { width := w } } (compile cfg d tree) with
    | error x => rw [e1] at h; simp [andThen_error_eq] at h
    | ok t =>
      obtain ⟨t', e1', rt⟩ := runOps_rel cfg d hov _ _ _ t (TR.refl_none { cur := { width := w } } rfl) e1
      rw [e1']
      rw [e1] at h
      simp only [andThen_ok_eq] at h ⊢
      have hft : footTexts cfg.ovOn t'.links = footTexts cfg t.links := by rw [rt.1]; rfl
      rw [hft]
      by_cases hfe : (footTexts cfg t.links).isEmpty = true
      · rw [if_pos hfe] at h ⊢
        exact intoLines_rel _ _ ls rt.2 h
      · rw [if_neg hfe] at h ⊢
        cases e2 : t.cur.startBlock with
        | error x => rw [e2] at h; simp [andThen_error_eq] at h
        | ok s1 =>
          rw [startBlock_rel _ _ s1 rt.2 e2]
          rw [e2] at h
          simp only [andThen_ok_eq] at h ⊢
          have : fmtLinkLine cfg.ovOn (d.annOf Ann.dflt) s1.width = fmtLinkLine cfg (d.annOf Ann.dflt) s1.width := by
            funext f; rfl
          rw [this]
          exact h

end H2T
