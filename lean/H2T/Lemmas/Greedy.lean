import H2T.Spec.Greedy
import H2T.Lemmas.WrapInv

/-! Refinement of the wrap machine (normal mode, overflow off) to the reference greedy wrapper `Spec.greedy`.
    Ported from the design-phase calibration proof to the piece-based hard wrap of the final model. -/

namespace H2T
open H2T.Spec

/-! ## erasure: the characters of a line (fragment markers and tags forgotten) -/

def er (l : TLine) : List Ch := l.filterMap fun e => match e with | .cell c => some c.ch | .frag _ => none
def erL (t : List TLine) : List (List Ch) := t.map er
def erC (l : List Cell) : List Ch := l.map (·.ch)

@[simp] theorem er_nil : er [] = [] := rfl
@[simp] theorem er_cell (c : Cell) (l : TLine) : er (.cell c :: l) = c.ch :: er l := rfl
@[simp] theorem er_frag (n : List Ch) (l : TLine) : er (.frag n :: l) = er l := rfl
@[simp] theorem er_append (a b : TLine) : er (a ++ b) = er a ++ er b := by simp [er, List.filterMap_append]
@[simp] theorem erL_append (a b : List TLine) : erL (a ++ b) = erL a ++ erL b := by simp [erL]
@[simp] theorem erL_single (a : TLine) : erL [a] = [er a] := rfl
@[simp] theorem erC_nil : erC [] = [] := rfl
@[simp] theorem erC_cons (c : Cell) (l : List Cell) : erC (c :: l) = c.ch :: erC l := rfl
@[simp] theorem erC_append (a b : List Cell) : erC (a ++ b) = erC a ++ erC b := by simp [erC]
theorem er_cells (cs : List Cell) : er (cs.map Elt.cell) = erC cs := by
  induction cs with
  | nil => rfl
  | cons c cs ih => simp [ih]

@[simp] theorem lwc_nil : lwc [] = 0 := rfl
@[simp] theorem lwc_cons (c : Ch) (l : List Ch) : lwc (c :: l) = c.w + lwc l := by simp [lwc]
@[simp] theorem lwc_append (a b : List Ch) : lwc (a ++ b) = lwc a + lwc b := by simp [lwc]

theorem lw_eq (l : TLine) : lw l = lwc (er l) := by
  induction l with
  | nil => rfl
  | cons e l ih => cases e <;> simp [Elt.w, ih]
theorem cellsW_eq (l : List Cell) : cellsW l = lwc (erC l) := by
  induction l with
  | nil => rfl
  | cons c l ih => simp [ih]

theorem er_eq_nil_iff (l : TLine) : er l = [] ↔ l.noContent = true := by
  induction l with
  | nil => simp [TLine.noContent]
  | cons e l ih =>
    cases e with
    | cell c => simp [TLine.noContent, Elt.isCell]
    | frag n => simpa [TLine.noContent, Elt.isCell] using ih

theorem er_replicate_spc (n : Nat) (t : Tag) : er (List.replicate n (spc t)) = List.replicate n spaceCh := by
  induction n with
  | zero => rfl
  | succ n ih => rw [List.replicate_succ, List.replicate_succ]; simp [spc, ih]

/-! ## a relation lifter for `Except` -/

def ExRel {α β : Type} (R : α → β → Prop) : Except Err α → Except Err β → Prop
  | .ok a, .ok b => R a b
  | .error e1, .error e2 => e1 = e2
  | _, _ => False

@[simp] theorem ExRel_ok_ok {α β : Type} (R : α → β → Prop) (a : α) (b : β) : ExRel R (.ok a) (.ok b) = R a b := rfl
@[simp] theorem ExRel_err_err {α β : Type} (R : α → β → Prop) (e1 e2 : Err) :
    ExRel R (.error e1 : Except Err α) (.error e2 : Except Err β) = (e1 = e2) := rfl
@[simp] theorem ExRel_ok_err {α β : Type} (R : α → β → Prop) (a : α) (e : Err) :
    ExRel R (.ok a) (.error e : Except Err β) = False := rfl
@[simp] theorem ExRel_err_ok {α β : Type} (R : α → β → Prop) (b : β) (e : Err) :
    ExRel R (.error e : Except Err α) (.ok b) = False := rfl
@[simp] theorem andThen_ok {α β : Type} (a : α) (f : α → Except Err β) : andThen (.ok a) f = f a := rfl
@[simp] theorem andThen_err {α β : Type} (e : Err) (f : α → Except Err β) : andThen (.error e) f = .error e := rfl
theorem andThen_assoc {α β γ : Type} (x : Except Err α) (f : α → Except Err β) (g : β → Except Err γ) :
    andThen x (fun a => andThen (f a) g) = andThen (andThen x f) g := by
  cases x <;> rfl

/-! ## the part of the relation that concerns finished lines and the current line -/

structure Core (b : WB) (g : G) : Prop where
  text : erL b.text = g.done
  line : er b.line = g.cur
  linelen : b.linelen = lwc g.cur
  noov : b.overflow = false
  nopad : b.padBlocks = false
  fit : lwc g.cur ≤ b.width

theorem Core.congr {b b' : WB} {g : G} (h : Core b g) (h1 : b'.text = b.text) (h2 : b'.line = b.line)
    (h3 : b'.linelen = b.linelen) (h4 : b'.overflow = b.overflow) (h5 : b'.width = b.width)
    (h6 : b'.padBlocks = b.padBlocks) : Core b' g :=
  ⟨by rw [h1]; exact h.text, by rw [h2]; exact h.line, by rw [h3]; exact h.linelen, by rw [h4]; exact h.noov,
   by rw [h6]; exact h.nopad, by rw [h5]; exact h.fit⟩

/-- b' differs from b only in text/line/linelen -/
def Frame (b b' : WB) : Prop := b' = { b with text := b'.text, line := b'.line, linelen := b'.linelen }
theorem Frame.refl (b : WB) : Frame b b := by simp [Frame]
theorem Frame.trans {a b c : WB} (h1 : Frame a b) (h2 : Frame b c) : Frame a c := by
  unfold Frame at *; rw [h2, h1]
theorem Frame.width {a b : WB} (h : Frame a b) : b.width = a.width := by rw [h]
theorem Frame.word {a b : WB} (h : Frame a b) : b.word = a.word := by rw [h]
theorem Frame.wordlen {a b : WB} (h : Frame a b) : b.wordlen = a.wordlen := by rw [h]
theorem Frame.wslen {a b : WB} (h : Frame a b) : b.wslen = a.wslen := by rw [h]
theorem Frame.spacetag {a b : WB} (h : Frame a b) : b.spacetag = a.spacetag := by rw [h]
theorem Frame.overflow {a b : WB} (h : Frame a b) : b.overflow = a.overflow := by rw [h]
theorem Frame.pad {a b : WB} (h : Frame a b) : b.padBlocks = a.padBlocks := by rw [h]

/-! ## facts about the reference -/

theorem fill_append (W : Nat) (a b : List Ch) : ∀ (g : G),
    g.fill W (a ++ b) = andThen (g.fill W a) (fun g' => g'.fill W b) := by
  induction a with
  | nil => intro g; simp [G.fill]
  | cons c cs ih =>
    intro g
    simp only [List.cons_append, G.fill]
    cases g.fillCh W c with
    | error e => rfl
    | ok g' => exact ih g'

theorem fill_fits (W : Nat) (word : List Ch) : ∀ (g : G), lwc g.cur + lwc word ≤ W →
    g.fill W word = .ok { g with cur := g.cur ++ word } := by
  induction word with
  | nil => intro g _; simp [G.fill]
  | cons c cs ih =>
    intro g h
    simp only [lwc_cons] at h
    have h1 : lwc g.cur + c.w ≤ W := by omega
    simp only [G.fill, G.fillCh, h1, if_true]
    rw [ih]
    · simp
    · simp; omega

/-- the first character of `cs` that does not fit, after a maximal fitting prefix: what `G.fill` does with it -/
theorem fill_prefix_then (W : Nat) (g : G) (taken : List Ch) (c : Ch) (more : List Ch)
    (hfit : lwc g.cur + lwc taken ≤ W) (hno : ¬ lwc g.cur + lwc taken + c.w ≤ W) :
    g.fill W (taken ++ c :: more) =
      (if lwc g.cur + lwc taken = 0 then .error .tooNarrow
       else if c.w ≤ W then ({ done := g.done ++ [g.cur ++ taken], cur := [c] } : G).fill W more
       else .error .tooNarrow) := by
  rw [fill_append, fill_fits W taken g hfit]
  simp only [andThen_ok, G.fill, G.fillCh, lwc_append]
  simp only [hno, if_false]
  by_cases h0 : lwc g.cur + lwc taken = 0
  · simp [h0]
  · simp only [h0, if_false]
    by_cases hc : c.w ≤ W
    · simp [hc]
    · simp [hc]

end H2T
