import H2T.Render
import H2T.Lemmas.RowExact
import H2T.Lemmas.TableExact
import H2T.Lemmas.TableRules

/-! # C05 — table borders form a consistent box drawing

The horizontal rule of a table is a list of segments; vertical bars of the row above are joined in with
`join_above`, those of the row below with `join_below` (`BorderHoriz` in text_renderer.rs).  The theorems say
that, whatever the order and multiplicity of the joins, the glyph printed at a position is exactly the one
that matches "a bar stands above" and "a bar stands below".  Status: **partial** — the segment algebra is
proved for every sequence of joins; **for one side-by-side row** (any cells, nested tables included): every line the
row adds — text lines and bottom rule — has exactly the same display width `Σ cell widths + (n − 1)`
(`row_lines_same_width`), every cell's part of every line is exactly as wide as the cell, so the separators stand at
the same x positions on every line of the row (`cell_part_exact`, `row_line_shape`), and the rule above/below the row
gets its junctions at exactly the row's bar positions (`bars_join_the_rules`, `joined_positions`).  **For a whole regular
table** (`regular_table_is_a_rectangle`): when every row's cells tile the same `n` columns, the table is laid out side by
side with borders and every column got a positive width, then all lines of the table — top rule, the text lines and
bottom rule of every row, nested tables included — have the same display width `Σ columns + (n − 1)`, the first and the
last line are rules, and the lines in front of the table are untouched.  The hypothesis "every column has width" is
necessary: a colspan over a zero-width column gives a ragged table (known finding C05-zero-width-column-in-colspan); the stacked
fallback is covered by the correspondence and the grid oracle.  **The junctions of the whole table**
(`regular_table_junctions`, `rule_between_rows_matches_bars`): when the cells hold no tables of their own, the table's lines
are exactly rule, row, rule, …, rule, and the rule between two rows shows at every position the glyph for (a bar of the
upper row stands here, a bar of the lower row stands here) — `┴`, `┬`, `┼` or `─` — with the first rule joined only from
below and the last only from above; the bars of every row stand at column boundaries. -/

namespace H2T.C05

/-- what a segment records: is there a bar above / below it -/
def up : Seg → Bool | .above | .cross => true | _ => false
def down : Seg → Bool | .below | .cross => true | _ => false

/-- the box-drawing character for (bar above, bar below) -/
def glyphFor : Bool → Bool → Nat
  | false, false => 0x2500   -- ─
  | true, false => 0x2534    -- ┴
  | false, true => 0x252c    -- ┬
  | true, true => 0x253c     -- ┼

/-- a horizontal segment prints the glyph that matches what it records -/
theorem glyph_matches (s : Seg) (h : s ≠ .vert) : s.glyph = glyphFor (up s) (down s) := by
  cases s <;> simp_all [Seg.glyph, glyphFor, up, down]

/-- `join_above` sets "bar above" and leaves "bar below" alone; `join_below` symmetrically -/
theorem joinAbove_spec (s : Seg) (h : s ≠ .vert) :
    up s.joinAbove = true ∧ down s.joinAbove = down s ∧ s.joinAbove ≠ .vert := by
  cases s <;> simp_all [Seg.joinAbove, up, down]
theorem joinBelow_spec (s : Seg) (h : s ≠ .vert) :
    down s.joinBelow = true ∧ up s.joinBelow = up s ∧ s.joinBelow ≠ .vert := by
  cases s <;> simp_all [Seg.joinBelow, up, down]

/-- one join operation on a segment -/
inductive Join | above | below
def Join.apply : Join → Seg → Seg | .above, s => s.joinAbove | .below, s => s.joinBelow
def Join.isAbove : Join → Bool | .above => true | .below => false
def Join.isBelow : Join → Bool | .below => true | .above => false

/-- **Segment level, any history.**  Starting from a straight segment, after any sequence of joins the segment
    records "bar above" iff some `join_above` happened and "bar below" iff some `join_below` happened — so its
    glyph is the junction character for exactly those two facts. -/
theorem joins_spec (js : List Join) :
    let s := js.foldl (fun s j => j.apply s) Seg.straight
    up s = js.any Join.isAbove ∧ down s = js.any Join.isBelow ∧ s ≠ .vert := by
  have gen : ∀ (js : List Join) (s0 : Seg), s0 ≠ .vert →
      let s := js.foldl (fun s j => j.apply s) s0
      up s = (up s0 || js.any Join.isAbove) ∧ down s = (down s0 || js.any Join.isBelow) ∧ s ≠ .vert := by
    intro js
    induction js with
    | nil => intro s0 h; simp [h]
    | cons j js ih =>
      intro s0 h
      cases j with
      | above =>
        obtain ⟨h1, h2, h3⟩ := joinAbove_spec s0 h
        have := ih s0.joinAbove h3
        simp only [List.foldl_cons, Join.apply] at this ⊢
        refine ⟨?_, ?_, this.2.2⟩
        · rw [this.1, h1]; simp [Join.isAbove]
        · rw [this.2.1, h2]; simp [Join.isBelow]
      | below =>
        obtain ⟨h1, h2, h3⟩ := joinBelow_spec s0 h
        have := ih s0.joinBelow h3
        simp only [List.foldl_cons, Join.apply] at this ⊢
        refine ⟨?_, ?_, this.2.2⟩
        · rw [this.1, h2]; simp [Join.isAbove]
        · rw [this.2.1, h1]; simp [Join.isBelow]
  have := gen js Seg.straight (by simp)
  simpa [up, down] using this

/-- corollary: the printed character after any join history -/
theorem joins_glyph (js : List Join) :
    (js.foldl (fun s j => j.apply s) Seg.straight).glyph = glyphFor (js.any Join.isAbove) (js.any Join.isBelow) := by
  obtain ⟨h1, h2, h3⟩ := joins_spec js
  rw [glyph_matches _ h3, h1, h2]

/-- joins commute and are idempotent: the rule does not depend on the order in which rows are merged -/
theorem join_comm (s : Seg) : s.joinAbove.joinBelow = s.joinBelow.joinAbove := by cases s <;> rfl
theorem joinAbove_idem (s : Seg) : s.joinAbove.joinAbove = s.joinAbove := by cases s <;> rfl
theorem joinBelow_idem (s : Seg) : s.joinBelow.joinBelow = s.joinBelow := by cases s <;> rfl

/-- a join touches only its own position: the rule keeps its width when the position is inside it -/
theorem joinAbove_length (b : Border) (x : Nat) (h : x < b.length) : (b.joinAbove x).length = b.length := by
  simp [Border.joinAbove, Border.stretch]; omega
theorem joinBelow_length (b : Border) (x : Nat) (h : x < b.length) : (b.joinBelow x).length = b.length := by
  simp [Border.joinBelow, Border.stretch]; omega

/-! non-vacuity -/
example : ([Join.above, .below, .above].foldl (fun s j => j.apply s) Seg.straight).glyph = 0x253c := by decide
example : (Border.joinBelow (Border.joinAbove (List.replicate 5 Seg.straight) 2) 4).map Seg.glyph
    = [0x2500, 0x2500, 0x2534, 0x2500, 0x252c] := by decide

/-! ## one side-by-side row -/

/-- **every line a side-by-side row adds has the same display width** `Σ cell widths + (n − 1)`: its text lines and (with
    borders) its bottom rule; the earlier lines are kept (the last of them may have received junctions) -/
theorem row_lines_same_width (s s' : SubR) (cfg : Cfg) (cols : List SubR) (h : s.Fits) (hc : ∀ c ∈ cols, c.Fits)
    (he : s.appendColumns cfg cols = .ok s') :
    ∃ (s1 : SubR) (added : List RLine), s'.lines = s1.lines ++ added ∧
      (∀ l ∈ added, rlw l = (cols.map (·.width)).sum + (cols.length - 1)) ∧
      (∃ s0, s.flushWrapping = .ok s0 ∧ s1.lines.length = s0.lines.length) :=
  appendColumns_exact s s' cfg cols h hc he

/-- **a cell's part of every line of its row is exactly as wide as the cell** (text padded, nested rule stretched, or
    blank/vertical padding below a short cell) -/
theorem cell_part_exact (ann : Tag) (i : Nat) (st : Nat × List RLine) (pad : Option (List Ch)) (hs : SetEq st) (hp : PadEq (st, pad)) :
    lw (colLineBody ann i st pad) = st.1 := colLineBody_exact ann i st pad hs hp

/-- …and a line of the row is the cells' parts with one separator between neighbours: with the previous theorem the
    separators stand at the same x positions on every line -/
theorem row_line_shape (ann : Tag) (sep : Ch) (i : Nat) (st : Nat × List RLine) (pad : Option (List Ch))
    (q : (Nat × List RLine) × Option (List Ch)) (r : List ((Nat × List RLine) × Option (List Ch))) :
    colLine ann sep i ((st, pad) :: q :: r) = colLineBody ann i st pad ++ [Elt.cell ⟨sep, ann⟩] ++ colLine ann sep i (q :: r) := rfl

/-- **the rules above and below a row get their junctions at the row's bar positions**: the previous rule is joined from
    below, the row's bottom rule from above, both at `barPositions` -/
theorem bars_join_the_rules (s : SubR) (sets : List (Nat × List RLine)) (tot : Nat) (pb : Border) (t : Tag)
    (h : s.lines.getLast? = some (.rule pb t)) :
    s.joinBars sets tot = (some ((barPositions 0 sets).foldl Border.joinBelow pb),
      (barPositions 0 sets).foldl Border.joinAbove (List.replicate tot Seg.straight)) := by
  unfold SubR.joinBars; rw [h]

/-- after joining at the positions `js`, position `x` records "a bar stands above" iff it did before or `x ∈ js` -/
theorem joined_positions (js : List Nat) : ∀ (b : Border) (x : Nat), (∀ j ∈ js, j < b.length) → x < b.length →
    ((js.foldl Border.joinAbove b)[x]?.map up) = some ((b[x]?.map up).getD false || decide (x ∈ js) && (b[x]?.map (fun sg => decide (sg ≠ Seg.vert))).getD false) := by
  induction js with
  | nil => intro b x _ hx; simp [hx]
  | cons j js ih =>
    intro b x hj hx
    have hjl : j < b.length := hj j (by simp)
    have hlen : (b.joinAbove j).length = b.length := joinAbove_length b j hjl
    simp only [List.foldl_cons]
    rw [ih (b.joinAbove j) x (fun k hk => by rw [hlen]; exact hj k (by simp [hk])) (by rw [hlen]; exact hx)]
    have hget : (b.joinAbove j)[x]? = if x = j then b[x]?.map Seg.joinAbove else b[x]? := by
      unfold Border.joinAbove Border.stretch
      have : j + 1 - b.length = 0 := by omega
      simp only [this, List.replicate_zero, List.append_nil, List.getElem?_modify]
      by_cases hxj : x = j
      · subst hxj; simp
      · have : ¬ j = x := fun e => hxj e.symm
        simp [hxj, this]
    rw [hget]
    have hbx : b[x]? = some b[x] := by simp [hx]
    by_cases hxj : x = j
    · subst hxj
      simp only [if_true, hbx, Option.map_some, Option.getD_some, List.mem_cons, true_or, decide_true, Bool.true_and]
      cases b[x] <;> simp [up, Seg.joinAbove]
    · simp only [hxj, if_false, hbx, Option.map_some, Option.getD_some, List.mem_cons, false_or]

/-! ## the whole table -/

/-- **a regular side-by-side table is a rectangle**: run from any state that fits, the program of a table node whose rows
    all tile the same `n ≥ 1` columns (`regularRows`), laid out side by side (`allocCols … = (ws, false, _)`) with every
    column of positive width and borders drawn, leaves the lines in front of it alone (`s1` = the state after
    `start_block`) and adds `init ++ [rule]` where every line has display width `Σ ws + (n − 1)`, the first line is a rule
    and the last line is a rule -/
theorem regular_table_is_a_rectangle (cfg : Cfg) (d : Deco) (hd : DecoOk d) (hov : cfg.overflow = false)
    (hdb : cfg.drawBorders = true) (rows : List RNode) (n : Nat) (t t' : RS) (ws : List Nat) (tw : Nat)
    (ha : allocCols cfg t.cur.width (tableColsMax cfg d rows (List.replicate n {})) = .ok (ws, false, tw))
    (hpos : ∀ x ∈ ws, 0 < x) (hn : 0 < n) (hreg : regularRows n rows = true) (hf : t.cur.Fits)
    (he : runOps SubR.widthMinus cfg d t (compile cfg d (.table {} rows n)) = .ok t') :
    ∃ (s1 : SubR) (init : List RLine) (pb : Border) (tg : Tag), t.cur.startBlock = .ok s1 ∧
      t'.cur.lines = s1.lines ++ init ++ [RLine.rule pb tg] ∧
      (∀ l ∈ init ++ [RLine.rule pb tg], rlw l = ws.sum + (n - 1)) ∧
      (∃ b0 t0, (init ++ [RLine.rule pb tg]).head? = some (RLine.rule b0 t0)) := by
  obtain ⟨s1, e1, _, _, init, pb, tg, e2, e3, e4, e5⟩ := table_node_exact cfg d hd hov hdb rows n t t' ws tw ha hpos hn hreg hf he
  refine ⟨s1, init, pb, tg, e1, e2, ?_, e5⟩
  intro l hl
  simp only [List.mem_append, List.mem_singleton] at hl
  rcases hl with h | h
  · exact e4 l h
  · subst h; simpa [rlw] using e3

/-- every row appended below a rule of the table's width keeps the invariant (the step behind the theorem above) -/
theorem row_keeps_the_rectangle (s s' : SubR) (cfg : Cfg) (subs : List SubR) (W : Nat) (pre : List RLine) (hdb : cfg.drawBorders = true)
    (hi : TblInv W pre s) (hW : W ≤ s.width) (hc : ∀ c ∈ subs, c.Fits) (hsum : (subs.map fun c => c.width + 1).sum = W + 1)
    (he : s.appendRow cfg false subs = .ok s') : TblInv W pre s' ∧ s'.width = s.width :=
  appendRow_inv s s' cfg subs W pre hdb hi hW hc hsum he

/-- the cells of a row that tiles the columns get renderers whose widths plus separators are exactly the table's width -/
theorem tiling_row_fills_the_width (cfg : Cfg) (d : Deco) (hov : cfg.overflow = false) (ws : List Nat) (hpos : ∀ x ∈ ws, 0 < x) (ann : Tag)
    (cells : List Op) (links l2 : List (List Ch)) (subs : List SubR) (hwf : wfCells 0 cells = true) (ht : tiles ws.length 0 cells = true)
    (he : runCells SubR.widthMinus cfg d ws false ann links cells = .ok (l2, subs)) :
    (subs.map fun c => c.width + 1).sum = ws.sum + ws.length := by
  have := (runCells_exact cfg d hov ws hpos ann cells links 0 l2 subs hwf ht he).1
  simpa using this

/-! non-vacuity: a 2×2 table of single letters at width 20 meets the hypotheses -/
example : regularRows 2 [.row {} [.cell {} 1 [.text {} [mkCh 97]], .cell {} 1 [.text {} [mkCh 98]]],
    .row {} [.cell {} 2 [.text {} [mkCh 99]]]] = true := by decide
example : allocCols {} 20 (tableColsMax {} Deco.plain [.row {} [.cell {} 1 [.text {} [mkCh 97]], .cell {} 1 [.text {} [mkCh 98]]],
    .row {} [.cell {} 2 [.text {} [mkCh 99]]]] (List.replicate 2 {})) = .ok ([1, 1], false, 3) ∧ ∀ x ∈ [1, 1], 0 < x :=
  ⟨by rfl, by decide⟩

/-! ## the junctions of the whole table -/

theorem foldl_join_get (f : Seg → Seg) (hf : ∀ sg, f (f sg) = f sg) (g : Border → Nat → Border)
    (hg : ∀ (b : Border) (j x : Nat), j < b.length → (g b j)[x]? = if x = j then b[x]?.map f else b[x]?)
    (hlen : ∀ (b : Border) (j : Nat), j < b.length → (g b j).length = b.length) (js : List Nat) :
    ∀ (b : Border) (x : Nat), (∀ j ∈ js, j < b.length) →
    (js.foldl g b)[x]? = if x ∈ js then b[x]?.map f else b[x]? := by
  induction js with
  | nil => intro b x _; simp
  | cons j js ih =>
    intro b x hj
    have hjl : j < b.length := hj j (by simp)
    simp only [List.foldl_cons]
    rw [ih (g b j) x (fun k hk => by rw [hlen b j hjl]; exact hj k (by simp [hk])), hg b j x hjl]
    by_cases hxj : x = j
    · subst hxj
      simp only [if_true, List.mem_cons, true_or]
      split
      · cases b[x]? with
        | none => rfl
        | some sg => simp [hf]
      · rfl
    · simp only [hxj, if_false, List.mem_cons, false_or]

theorem joinAbove_get (b : Border) (j x : Nat) (hj : j < b.length) :
    (b.joinAbove j)[x]? = if x = j then b[x]?.map Seg.joinAbove else b[x]? := by
  unfold Border.joinAbove Border.stretch
  have : j + 1 - b.length = 0 := by omega
  simp only [this, List.replicate_zero, List.append_nil, List.getElem?_modify]
  by_cases hxj : x = j
  · subst hxj; simp
  · have : ¬ j = x := fun e => hxj e.symm
    simp [hxj, this]

theorem joinBelow_get (b : Border) (j x : Nat) (hj : j < b.length) :
    (b.joinBelow j)[x]? = if x = j then b[x]?.map Seg.joinBelow else b[x]? := by
  unfold Border.joinBelow Border.stretch
  have : j + 1 - b.length = 0 := by omega
  simp only [this, List.replicate_zero, List.append_nil, List.getElem?_modify]
  by_cases hxj : x = j
  · subst hxj; simp
  · have : ¬ j = x := fun e => hxj e.symm
    simp [hxj, this]

/-- **the rule between two rows matches the bars**: at every position `x` of `ruleBetween W above below` stands the
    segment whose glyph is the box-drawing character for (a bar of the upper row at `x`, a bar of the lower row at `x`) -/
theorem rule_between_rows_matches_bars (W : Nat) (above below : List Nat) (x : Nat) (ha : ∀ j ∈ above, j < W) (hb : ∀ j ∈ below, j < W)
    (hx : x < W) :
    ∃ sg, (ruleBetween W above below)[x]? = some sg ∧ sg.glyph = glyphFor (decide (x ∈ above)) (decide (x ∈ below)) := by
  unfold ruleBetween
  have hl1 : (above.foldl Border.joinAbove (List.replicate W Seg.straight)).length = W := by
    rw [foldl_join_len Border.joinAbove joinAbove_len _ _ (by simpa using ha)]; simp
  rw [foldl_join_get Seg.joinBelow (by intro sg; cases sg <;> rfl) Border.joinBelow joinBelow_get joinBelow_len below _ x (by rw [hl1]; exact hb)]
  rw [foldl_join_get Seg.joinAbove (by intro sg; cases sg <;> rfl) Border.joinAbove joinAbove_get joinAbove_len above _ x (by simpa using ha)]
  have hs : (List.replicate W Seg.straight)[x]? = some Seg.straight := by simp [hx]
  by_cases h1 : x ∈ above <;> by_cases h2 : x ∈ below <;> simp [h1, h2, hs, Seg.joinAbove, Seg.joinBelow, Seg.glyph, glyphFor]

/-- **the junctions of a regular table** (side by side, borders, every column with width, rows tile the columns, no tables
    inside the cells): up to the tags of the rules the table's lines are `tableLayout W D []` — rule, row, rule, …, rule
    with `ruleBetween` the rows' bar positions — for row data `D` whose text lines all have the table's width and whose
    bars all stand at column boundaries (`RowOk`); with `rule_between_rows_matches_bars` every junction glyph is right -/
theorem regular_table_junctions (cfg : Cfg) (d : Deco) (hov : cfg.overflow = false) (hdb : cfg.drawBorders = true)
    (cols : List SizeEst) (rows : List Op) (t t' : RS) (ws : List Nat) (tw : Nat)
    (ha : allocCols cfg t.cur.width cols = .ok (ws, false, tw)) (hpos : ∀ x ∈ ws, 0 < x) (hne : 0 < ws.length)
    (hwf : wfRows rows = true) (hreg : regRows ws.length rows = true) (htf : rowsTableFree rows = true) (hf : t.cur.Fits)
    (he : runOp SubR.widthMinus cfg d t (.table cols rows) = .ok t') :
    ∃ s1 D, t.cur.startBlock = .ok s1 ∧
      t'.cur.lines.map untag = s1.lines.map untag ++ tableLayout (ws.sum + (ws.length - 1)) D [] ∧
      ∀ e ∈ D, RowOk ws (ws.sum + (ws.length - 1)) e :=
  table_rules cfg d hov hdb cols rows t t' ws tw ha hpos hne hwf hreg htf hf he

/-- the same for a table node of a render tree: `regularRows` (every row tiles the `n` columns) and `rowsNoTable` (no tables
    inside the cells) are properties of the tree -/
theorem regular_table_node_junctions (cfg : Cfg) (d : Deco) (hd : DecoOk d) (hov : cfg.overflow = false) (hdb : cfg.drawBorders = true)
    (rows : List RNode) (n : Nat) (t t' : RS) (ws : List Nat) (tw : Nat)
    (ha : allocCols cfg t.cur.width (tableColsMax cfg d rows (List.replicate n {})) = .ok (ws, false, tw))
    (hpos : ∀ x ∈ ws, 0 < x) (hn : 0 < n) (hreg : regularRows n rows = true) (hnt : rowsNoTable rows = true) (hf : t.cur.Fits)
    (he : runOps SubR.widthMinus cfg d t (compile cfg d (.table {} rows n)) = .ok t') :
    ∃ s1 D, t.cur.startBlock = .ok s1 ∧
      t'.cur.lines.map untag = s1.lines.map untag ++ tableLayout (ws.sum + (n - 1)) D [] ∧
      ∀ e ∈ D, RowOk ws (ws.sum + (n - 1)) e := by
  have hlen : ws.length = n := by
    obtain ⟨ws2, v2, tw2, e, l, _⟩ := allocCols_total' cfg t.cur.width (tableColsMax cfg d rows (List.replicate n {}))
    rw [ha] at e
    injection e with e
    simp only [Prod.mk.injEq] at e
    obtain ⟨rfl, _, _⟩ := e
    rw [l, tableColsMax_length]; simp
  have hso : styleOpen d {} = [] := rfl
  have hsc : styleClose d {} = [] := rfl
  simp only [compile, hso, hsc, List.nil_append, List.append_nil, runOps] at he
  cases h1 : runOp SubR.widthMinus cfg d t (.table (tableColsMax cfg d rows (List.replicate n {})) (compileRows cfg d rows)) with
  | error e => simp [h1, andThen] at he
  | ok t1 =>
    simp only [h1, andThen_ok_eq] at he
    injection he with he; subst he
    have := table_rules cfg d hov hdb _ _ t t1 ws tw ha hpos (by omega) (compileRows_wf cfg d hd rows)
      (by rw [hlen]; exact compileRows_reg cfg d n rows hreg) (compileRows_tableFree cfg d rows hnt) hf h1
    rw [hlen] at this
    exact this

/-- the bars of a row that is `RowOk` lie inside the rule: the hypothesis of `rule_between_rows_matches_bars` -/
theorem rowOk_bars_inside (ws : List Nat) (hpos : ∀ x ∈ ws, 0 < x) (e : List Nat × List RLine) (h : RowOk ws (ws.sum + (ws.length - 1)) e) :
    ∀ j ∈ e.1, j < ws.sum + (ws.length - 1) := by
  intro j hj
  obtain ⟨k, k1, k2, k3⟩ := h.2 j hj
  have h1 : (ws.take k).sum + (ws.drop k).sum = ws.sum := by
    have := List.sum_append (l₁ := ws.take k) (l₂ := ws.drop k)
    rw [List.take_append_drop] at this; omega
  have h2 : 0 < (ws.drop k).sum := by
    apply sum_pos_of_pos
    · intro x hx; exact hpos x (List.mem_of_mem_drop hx)
    · intro hh; have := congrArg List.length hh; simp at this; omega
  omega

/-! non-vacuity: between a row with a bar at 3 and a row with bars at 3 and 7 (width 10) the rule reads ───┼───┬── -/
example : (ruleBetween 10 [3] [3, 7]).map Seg.glyph = [0x2500, 0x2500, 0x2500, 0x253c, 0x2500, 0x2500, 0x2500, 0x252c, 0x2500, 0x2500] := by decide

end H2T.C05
