import H2T.Lemmas.WrapTotal
import H2T.Lemmas.Balance

/-! C01, block layer: the operations of a sub-renderer and the programs `compile` emits never end in one of the model's
    `panic`/`hang` outcomes.  Invariant: the pending `WrappedBlock`, if any, satisfies the wrap-layer invariant and is
    `Live` (positive width, or no text was ever accepted). -/

namespace H2T

/-- no rule lines -/
def SubR.NR (s : SubR) : Prop := ∀ l ∈ s.lines, ∀ b t, l ≠ .rule b t

/-- the invariant: the pending `WrappedBlock` is well formed, and when borders are not drawn the renderer holds no rule
    line (so border collapsing never meets a rule without a previous line to merge it into) -/
def SubR.Sane (cfg : Cfg) (s : SubR) : Prop :=
  (∀ w, s.wrapping = some w → w.Inv ∧ w.Live ∧ w.overflow = cfg.overflow) ∧ (cfg.drawBorders = false → s.NR)

/-- outcome of an operation on a sub-renderer: a value (again sane) or `TooNarrow` -/
def GoodS (cfg : Cfg) (r : Except Err SubR) : Prop := Safe cfg.overflow r ∧ ∀ s', r = .ok s' → s'.Sane cfg

variable {cfg : Cfg}

theorem GoodS.ok {s : SubR} (h : s.Sane cfg) : GoodS cfg (.ok s) := ⟨Safe.ok _, fun s' e => by injection e with e; subst e; exact h⟩

theorem GoodS.andThen {x : Except Err SubR} {f : SubR → Except Err SubR} (hx : GoodS cfg x) (hf : ∀ a, x = .ok a → a.Sane cfg → GoodS cfg (f a)) :
    GoodS cfg (andThen x f) := by
  cases x with
  | error e => exact ⟨by intro e' h; simp [H2T.andThen] at h; subst h; exact hx.1 e rfl, by intro s' h; simp [H2T.andThen] at h⟩
  | ok a => exact hf a rfl (hx.2 a rfl)

theorem sane_of_eq {s s' : SubR} (h : s.Sane cfg) (e : s'.wrapping = s.wrapping) (el : s'.lines = s.lines) : s'.Sane cfg :=
  ⟨by intro w hw; rw [e] at hw; exact h.1 w hw, by intro hb; unfold SubR.NR; rw [el]; exact h.2 hb⟩

theorem sane_fresh (w : Nat) (ann : Tag) : ({ width := w, annStack := ann } : SubR).Sane cfg :=
  ⟨by intro x hx; simp at hx, by intro _ l hl; simp at hl⟩

theorem addLine_wrapping (s : SubR) (l : RLine) : (s.addLine l).wrapping = s.wrapping := by
  cases l with
  | rule b t => rfl
  | text tl => simp only [SubR.addLine]; split <;> rfl

theorem addLines_wrapping (ls : List RLine) : ∀ s : SubR, (s.addLines ls).wrapping = s.wrapping := by
  induction ls with
  | nil => intro s; rfl
  | cons l ls ih => intro s; exact (ih (s.addLine l)).trans (addLine_wrapping s l)

def RLine.isText : RLine → Bool | .text _ => true | .rule .. => false

theorem addLine_nr (s : SubR) (l : RLine) (h : s.NR) (hl : l.isText = true) : (s.addLine l).NR := by
  cases l with
  | rule b t => simp [RLine.isText] at hl
  | text tl =>
    simp only [SubR.addLine]
    split <;> (intro x hx b t; simp at hx; rcases hx with hx | hx; exact h x hx b t; subst hx; simp)

theorem addLines_nr (ls : List RLine) : ∀ s : SubR, s.NR → (∀ l ∈ ls, l.isText = true) → (s.addLines ls).NR := by
  induction ls with
  | nil => intro s h _; exact h
  | cons l ls ih => intro s h hl; exact ih _ (addLine_nr s l h (hl l (by simp))) (fun x hx => hl x (by simp [hx]))

/-- adding lines to a sane renderer: text lines always, rule lines only when borders are drawn -/
theorem addLines_sane (s : SubR) (ls : List RLine) (h : s.Sane cfg) (hl : cfg.drawBorders = false → ∀ l ∈ ls, l.isText = true) :
    (s.addLines ls).Sane cfg :=
  ⟨by intro w hw; rw [addLines_wrapping] at hw; exact h.1 w hw, fun hb => addLines_nr ls s (h.2 hb) (hl hb)⟩

theorem addLine_sane (s : SubR) (l : RLine) (h : s.Sane cfg) (hl : cfg.drawBorders = false → l.isText = true) : (s.addLine l).Sane cfg :=
  addLines_sane s [l] h (fun hb x hx => by simp at hx; subst hx; exact hl hb)

theorem flushWrapping_good (s : SubR) (h : s.Sane cfg) : GoodS cfg s.flushWrapping ∧ ∀ s', s.flushWrapping = .ok s' → s'.wrapping = none := by
  unfold SubR.flushWrapping
  cases hw : s.wrapping with
  | none => exact ⟨GoodS.ok h, fun s' e => by injection e with e; subst e; exact hw⟩
  | some w =>
    simp only
    obtain ⟨wi, wl, wo⟩ := h.1 w hw
    generalize hw' : (if w.word.noContent = true then { w with word := [] } else w) = w'
    have hi' : w'.Inv ∧ w'.Live ∧ w'.overflow = cfg.overflow := by
      rw [← hw']; split
      · rename_i hn
        exact ⟨⟨wi.linelen_eq, by show w.wordlen = lw []; rw [wi.wordlen_eq, noContent_lw _ hn]; rfl, wi.line_fit, wi.text_fit, wi.tag_ok⟩,
          Or.inr (by simp [TLine.noContent]), wo⟩
      · exact ⟨wi, wl, wo⟩
    have hs := (finish_safe w' hi'.1 hi'.2.1).cast hi'.2.2
    cases hf : w'.finish with
    | error e =>
      refine ⟨⟨by intro e' he'; simp [andThen] at he'; subst he'; exact hs e hf, by intro s' he'; simp [andThen] at he'⟩, by intro s' he'; simp [andThen] at he'⟩
    | ok ls =>
      simp only [andThen]
      have h0 : ({ s with wrapping := none } : SubR).Sane cfg := ⟨by intro x hx; simp at hx, h.2⟩
      have h1 := addLines_sane (cfg := cfg) _ (ls.map RLine.text) h0 (fun _ l hl => by simp at hl; obtain ⟨a, _, rfl⟩ := hl; rfl)
      have hnone : (({ s with wrapping := none } : SubR).addLines (ls.map RLine.text)).wrapping = none := by rw [addLines_wrapping]
      exact ⟨GoodS.ok (sane_of_eq h1 rfl rfl), fun s' e => by injection e with e; subst e; exact hnone⟩

theorem addEmptyLine_good (s : SubR) (h : s.Sane cfg) : GoodS cfg s.addEmptyLine := by
  unfold SubR.addEmptyLine
  apply (flushWrapping_good s h).1.andThen
  intro s1 e1 h1
  exact GoodS.ok (sane_of_eq (addLine_sane s1 (.text []) h1 (fun _ => rfl)) rfl rfl)

theorem startBlock_good (s : SubR) (h : s.Sane cfg) : GoodS cfg s.startBlock := by
  unfold SubR.startBlock
  apply (flushWrapping_good s h).1.andThen
  intro s1 _ h1
  have g2 : GoodS cfg (if s1.lines.any RLine.hasContent = true then s1.addEmptyLine else Except.ok s1) := by
    split
    · exact addEmptyLine_good s1 h1
    · exact GoodS.ok h1
  apply g2.andThen
  intro s2 _ h2
  exact GoodS.ok (sane_of_eq h2 rfl rfl)

theorem newLineHard_good (s : SubR) (h : s.Sane cfg) : GoodS cfg s.newLineHard := by
  unfold SubR.newLineHard
  split
  · exact addEmptyLine_good s h
  · split
    · exact addEmptyLine_good s h
    · exact (flushWrapping_good s h).1

theorem getWrapping_sane (s : SubR) (h : s.Sane cfg) : (s.getWrapping cfg).Inv ∧ (s.getWrapping cfg).Live ∧ (s.getWrapping cfg).overflow = cfg.overflow := by
  unfold SubR.getWrapping
  cases hw : s.wrapping with
  | some w => exact h.1 w hw
  | none => exact ⟨new_inv _ _ _, Or.inr (by simp [TLine.noContent]), rfl⟩

theorem addInlineText_good (s : SubR) (x : List Ch) (f : Ann → Ann) (h : s.Sane cfg) : GoodS cfg (s.addInlineText cfg x f) := by
  unfold SubR.addInlineText
  split
  · exact GoodS.ok h
  · have g0 : GoodS cfg (if s.atBlockEnd = true then s.startBlock else Except.ok s) := by
      split
      · exact startBlock_good s h
      · exact GoodS.ok h
    apply g0.andThen
    intro s0 _ h0
    simp only
    obtain ⟨gi, gl, go⟩ := getWrapping_sane s0 h0
    generalize (s0.getWrapping cfg) = w at gi gl go
    have hs := (addText_safe w s0.wsMode (if s0.preDepth > 0 then s0.annStack ++ [f (Ann.pre false)] else s0.annStack)
      (if s0.preDepth > 0 then s0.annStack ++ [f (Ann.pre true)] else s0.annStack) (iterN strikeFilter s0.filterDepth x) gi).cast go
    cases hr : w.addText s0.wsMode (if s0.preDepth > 0 then s0.annStack ++ [f (Ann.pre false)] else s0.annStack)
      (if s0.preDepth > 0 then s0.annStack ++ [f (Ann.pre true)] else s0.annStack) (iterN strikeFilter s0.filterDepth x) with
    | error e => exact ⟨by intro e' he'; simp [andThen] at he'; subst he'; exact hs e hr, by intro s' he'; simp [andThen] at he'⟩
    | ok w' =>
      simp only [andThen]
      obtain ⟨i', l', o', _⟩ := addText_inv' _ _ _ _ w w' gi gl hr
      exact GoodS.ok ⟨by intro w2 hw2; simp at hw2; subst hw2; exact ⟨i', l', o'.trans go⟩, h0.2⟩

theorem recordFrag_sane (s : SubR) (n : List Ch) (h : s.Sane cfg) : (s.recordFrag cfg n).Sane cfg := by
  obtain ⟨gi, gl, go⟩ := getWrapping_sane s h
  refine ⟨?_, h.2⟩
  intro w hw
  simp [SubR.recordFrag] at hw; subst hw
  refine ⟨⟨gi.linelen_eq, by simp [WB.addElement, gi.wordlen_eq, Elt.w], gi.line_fit, gi.text_fit, gi.tag_ok⟩, ?_, go⟩
  rcases gl with gl | gl
  · exact Or.inl gl
  · right
    simp only [WB.addElement, TLine.noContent, List.any_append, List.any_cons, List.any_nil, Elt.isCell, Bool.or_false, Bool.not_eq_true'] at gl ⊢
    simpa using gl

theorem intoLines_safe (s : SubR) (h : s.Sane cfg) : Safe cfg.overflow s.intoLines := by
  unfold SubR.intoLines
  apply Safe.andThen (flushWrapping_good s h).1.1
  intro s1 _
  exact Safe.ok _

theorem prefixLine_isText (tag : Tag) (p : List Ch) (l : RLine) : (prefixLine tag p l).isText = true := by
  cases l with
  | text tl => simp only [prefixLine]; split <;> rfl
  | rule b t => rfl

theorem zipPrefix_isText (tag : Tag) (first rest : List Ch) (ls : List RLine) : ∀ l ∈ zipPrefix tag first rest ls, l.isText = true := by
  intro l hl
  cases ls with
  | nil => simp [zipPrefix] at hl
  | cons x xs =>
    simp only [zipPrefix, List.mem_cons, List.mem_map] at hl
    rcases hl with rfl | ⟨y, _, rfl⟩ <;> exact prefixLine_isText _ _ _

theorem appendSub_good (s other : SubR) (first rest : List Ch) (h : s.Sane cfg) (ho : other.Sane cfg) : GoodS cfg (s.appendSub other first rest) := by
  unfold SubR.appendSub
  apply (flushWrapping_good s h).1.andThen
  intro s1 e1 h1
  have hs := intoLines_safe other ho
  cases hl : other.intoLines with
  | error e => exact ⟨by intro e' he'; simp [andThen] at he'; subst he'; exact hs e hl, by intro s' he'; simp [andThen] at he'⟩
  | ok ls =>
    simp only [andThen]
    exact GoodS.ok (addLines_sane s1 _ h1 (fun _ => zipPrefix_isText _ _ _ _))

/-! ## programs -/

def GoodR (cfg : Cfg) (r : Except Err RS) : Prop := Safe cfg.overflow r ∧ ∀ t', r = .ok t' → t'.cur.Sane cfg

theorem GoodR.ok {t : RS} (h : t.cur.Sane cfg) : GoodR cfg (.ok t) := ⟨Safe.ok _, fun t' e => by injection e with e; subst e; exact h⟩

theorem GoodR.andThen {x : Except Err RS} {f : RS → Except Err RS} (hx : GoodR cfg x) (hf : ∀ a, x = .ok a → a.cur.Sane cfg → GoodR cfg (f a)) :
    GoodR cfg (andThen x f) := by
  cases x with
  | error e => exact ⟨by intro e' h; simp [H2T.andThen] at h; subst h; exact hx.1 e rfl, by intro s' h; simp [H2T.andThen] at h⟩
  | ok a => exact hf a rfl (hx.2 a rfl)

theorem onCur_good (t : RS) (f : SubR → Except Err SubR) (h : GoodS cfg (f t.cur)) : GoodR cfg (t.onCur f) := by
  unfold RS.onCur
  cases hf : f t.cur with
  | error e => exact ⟨by intro e' he'; simp [andThen] at he'; subst he'; exact h.1 e hf, by intro s' he'; simp [andThen] at he'⟩
  | ok s1 => simp only [andThen]; exact GoodR.ok (h.2 s1 hf)

theorem stepSimple_good (cfg : Cfg) (d : Deco) (t : RS) (op : Op) (h : t.cur.Sane cfg) (hp : op = .popPre → 0 < t.cur.preDepth) :
    GoodR cfg (stepSimple cfg d t op) := by
  have keep : ∀ (g : SubR → SubR), (g t.cur).wrapping = t.cur.wrapping → (g t.cur).lines = t.cur.lines → GoodS cfg (Except.ok (g t.cur)) :=
    fun g e el => GoodS.ok (sane_of_eq h e el)
  cases op <;> simp only [stepSimple]
  case pushWs ws => exact onCur_good t _ (keep (fun s => { s with wsStack := s.wsStack ++ [ws] }) rfl rfl)
  case popWs => exact onCur_good t _ (keep (fun s => { s with wsStack := s.wsStack.dropLast }) rfl rfl)
  case pushAnn a => exact onCur_good t _ (keep (fun s => { s with annStack := s.annStack ++ [a] }) rfl rfl)
  case popAnn => exact onCur_good t _ (keep (fun s => { s with annStack := s.annStack.dropLast }) rfl rfl)
  case pushPre => exact onCur_good t _ (keep (fun s => { s with preDepth := s.preDepth + 1 }) rfl rfl)
  case popPre =>
    apply onCur_good
    have := hp rfl
    have hne : ¬ t.cur.preDepth = 0 := by omega
    simp only [hne, if_false]
    exact keep (fun s => { s with preDepth := s.preDepth - 1 }) rfl rfl
  case text x => exact onCur_good t _ (addInlineText_good _ x _ h)
  case frag n => exact onCur_good t _ (GoodS.ok (recordFrag_sane _ n h))
  case startLink href =>
    apply onCur_good
    exact addInlineText_good _ _ _ (sane_of_eq h rfl rfl)
  case endLink =>
    have g1 : GoodR cfg (t.onCur fun s => andThen (s.addInlineText cfg d.linkEnd d.annOf) fun s' => Except.ok { s' with annStack := s'.annStack.dropLast }) := by
      apply onCur_good
      apply (addInlineText_good _ _ _ h).andThen
      intro a _ ha
      exact GoodS.ok (sane_of_eq ha rfl rfl)
    apply g1.andThen
    intro t1 _ h1
    split
    · exact onCur_good t1 _ (addInlineText_good _ _ _ h1)
    · exact GoodR.ok h1
  case startAnn a x strike =>
    apply onCur_good
    apply (addInlineText_good _ x _ (sane_of_eq h rfl rfl : ({ t.cur with annStack := t.cur.annStack ++ [d.annOf a] } : SubR).Sane cfg)).andThen
    intro s' _ hs'
    split
    · exact GoodS.ok (sane_of_eq hs' rfl rfl)
    · exact GoodS.ok hs'
  case endAnn x strike =>
    apply onCur_good
    have h0 : (if (strike && cfg.unicodeStrike) = true then { t.cur with filterDepth := t.cur.filterDepth - 1 } else t.cur).Sane cfg := by
      split
      · exact sane_of_eq h rfl rfl
      · exact h
    apply (addInlineText_good _ x _ h0).andThen
    intro s' _ hs'
    exact GoodS.ok (sane_of_eq hs' rfl rfl)
  case image src title =>
    apply onCur_good
    apply (addInlineText_good _ _ _ (sane_of_eq h rfl rfl : ({ t.cur with annStack := t.cur.annStack ++ [d.annOf (Ann.image src)] } : SubR).Sane cfg)).andThen
    intro s' _ hs'
    exact GoodS.ok (sane_of_eq hs' rfl rfl)
  case startBlock => exact onCur_good t _ (startBlock_good _ h)
  case endBlock => exact onCur_good t _ (keep (fun s => { s with atBlockEnd := true }) rfl rfl)
  case newLine => exact onCur_good t _ (flushWrapping_good _ h).1
  case newLineHard => exact onCur_good t _ (newLineHard_good _ h)
  case sub _ _ _ _ _ _ => exact GoodR.ok h
  case table _ _ => exact GoodR.ok h
  case row _ _ _ => exact GoodR.ok h
  case cell _ _ _ => exact GoodR.ok h

/-- a program is total from every sane state -/
def Tot (wm : SubR → Cfg → Nat → Nat → Except Err Nat) (cfg : Cfg) (d : Deco) (ops : List Op) : Prop :=
  ∀ t : RS, t.cur.Sane cfg → GoodR cfg (runOps wm cfg d t ops)

variable {wm : SubR → Cfg → Nat → Nat → Except Err Nat} {d : Deco}

theorem Tot.nil : Tot wm cfg d [] := fun t h => by simp only [runOps]; exact GoodR.ok h

theorem Tot.append {a b : List Op} (ha : Tot wm cfg d a) (hb : Tot wm cfg d b) : Tot wm cfg d (a ++ b) := by
  intro t h
  rw [runOps_append]
  exact (ha t h).andThen fun t1 _ h1 => hb t1 h1

def isSimple : Op → Bool
  | .sub .. => false | .table .. => false | .row .. => false | .cell .. => false | _ => true

theorem runOp_simple (op : Op) (hs : isSimple op = true) (t : RS) : runOp wm cfg d t op = stepSimple cfg d t op := by
  cases op <;> simp [isSimple] at hs <;> simp [runOp]

/-- a single simple operation other than `pop_preformat` is total -/
theorem Tot.simple (op : Op) (hs : isSimple op = true) (hp : op ≠ .popPre) : Tot wm cfg d [op] := by
  intro t h
  simp only [runOps]
  rw [runOp_simple op hs]
  exact (stepSimple_good cfg d t op h (fun e => absurd e hp)).andThen fun t1 _ h1 => GoodR.ok h1

theorem Tot.simples : ∀ (ops : List Op), (∀ op ∈ ops, isSimple op = true ∧ op ≠ .popPre) → Tot wm cfg d ops := by
  intro ops
  induction ops with
  | nil => intro _; exact Tot.nil
  | cons op ops ih =>
    intro h
    have := Tot.append (Tot.simple (wm := wm) (cfg := cfg) (d := d) op (h op (by simp)).1 (h op (by simp)).2)
      (ih fun x hx => h x (by simp [hx]))
    simpa using this

/-- simple operations other than push/pop of `pre` leave the `pre` depth alone -/
theorem preDepth_simples : ∀ (ops : List Op), (∀ op ∈ ops, isSimple op = true ∧ op ≠ .popPre ∧ op ≠ .pushPre) →
    ∀ t t', runOps wm cfg d t ops = .ok t' → t'.cur.preDepth = t.cur.preDepth := by
  intro ops
  induction ops with
  | nil => intro _ t t' h; simp [runOps] at h; subst h; rfl
  | cons op ops ih =>
    intro hall t t' h
    simp only [runOps] at h
    cases h1 : runOp wm cfg d t op with
    | error e => simp [h1, andThen_error_eq] at h
    | ok t1 =>
      simp only [h1, andThen_ok_eq] at h
      have hop := hall op (by simp)
      rw [runOp_simple op hop.1] at h1
      have e1 := stepSimple_effect cfg d t t1 op h1
      have e2 := ih (fun x hx => hall x (by simp [hx])) t1 t' h
      rw [e2]
      have : (opEffect cfg d op t.cur.ff).2.1 = t.cur.ff.2.1 := by
        have hs := hop.1
        have hp1 := hop.2.1
        have hp2 := hop.2.2
        cases op <;> simp [isSimple] at hs <;> first | rfl | (exact absurd rfl hp1) | (exact absurd rfl hp2)
      have e3 : t1.cur.ff.2.1 = t.cur.ff.2.1 := by rw [e1]; exact this
      exact e3

theorem styleOpen_tot (st : Style) : Tot wm cfg d (styleOpen d st) := by
  apply Tot.simples
  intro op hop
  unfold styleOpen at hop
  simp only [List.mem_append] at hop
  rcases hop with ((hop | hop) | hop) | hop
  · split at hop
    · split at hop <;> simp at hop; subst hop; simp [isSimple]
    · simp at hop
  · split at hop
    · split at hop <;> simp at hop; subst hop; simp [isSimple]
    · simp at hop
  · split at hop <;> simp at hop <;> subst hop <;> simp [isSimple]
  · split at hop <;> simp at hop; subst hop; simp [isSimple]

theorem styleClose_tot (st : Style) : ∀ t : RS, t.cur.Sane cfg → (st.pre = true → 0 < t.cur.preDepth) →
    GoodR cfg (runOps wm cfg d t (styleClose d st)) := by
  intro t h hp
  unfold styleClose
  rw [runOps_append]
  have hA : ∀ op ∈ (match st.bg with | some _ => if d.colours = true then [Op.popAnn] else [] | none => []) ++
      (match st.fg with | some _ => if d.colours = true then [Op.popAnn] else [] | none => []) ++
      (match st.ws with | some .pre => [Op.popWs] | some .preWrap => [Op.popWs] | _ => []),
      isSimple op = true ∧ op ≠ .popPre ∧ op ≠ .pushPre := by
    intro op hop
    simp only [List.mem_append] at hop
    rcases hop with (hop | hop) | hop
    · split at hop
      · split at hop <;> simp at hop; subst hop; simp [isSimple]
      · simp at hop
    · split at hop
      · split at hop <;> simp at hop; subst hop; simp [isSimple]
      · simp at hop
    · split at hop <;> simp at hop <;> subst hop <;> simp [isSimple]
  have tA := Tot.simples (wm := wm) (cfg := cfg) (d := d) _ (fun op hop => ⟨(hA op hop).1, (hA op hop).2.1⟩) t h
  apply tA.andThen
  intro t1 e1 h1
  have hpre := preDepth_simples (wm := wm) (cfg := cfg) (d := d) _ hA t t1 e1
  by_cases hpr : st.pre = true
  · simp only [hpr, if_true, runOps]
    rw [runOp_simple .popPre rfl]
    exact (stepSimple_good cfg d t1 .popPre h1 (fun _ => by rw [hpre]; exact hp hpr)).andThen fun t2 _ h2 => GoodR.ok h2
  · simp only [hpr, Bool.false_eq_true, if_false, runOps]; exact GoodR.ok h1

/-- a node's own style brackets around a total, balanced body are total -/
theorem Tot.styled (st : Style) {body : List Op} (hb : Tot wm cfg d body) (he : Eff wm cfg d body id) :
    Tot wm cfg d (styleOpen d st ++ body ++ styleClose d st) := by
  intro t h
  rw [runOps_append, runOps_append]
  have g1 := styleOpen_tot (wm := wm) (cfg := cfg) (d := d) st t h
  cases h1 : runOps wm cfg d t (styleOpen d st) with
  | error e => exact ⟨by intro e' he'; simp [andThen_error_eq] at he'; subst he'; exact g1.1 e h1, by intro s' he'; simp [andThen_error_eq] at he'⟩
  | ok t1 =>
    simp only [andThen_ok_eq]
    have s1 := g1.2 t1 h1
    have f1 := styleOpen_eff (wm := wm) (cfg := cfg) (d := d) st t t1 h1
    have g2 := hb t1 s1
    cases h2 : runOps wm cfg d t1 body with
    | error e => exact ⟨by intro e' he'; simp [andThen_error_eq] at he'; subst he'; exact g2.1 e h2, by intro s' he'; simp [andThen_error_eq] at he'⟩
    | ok t2 =>
      simp only [andThen_ok_eq]
      have s2 := g2.2 t2 h2
      have f2 := he t1 t2 h2
      apply styleClose_tot st t2 s2
      intro hpr
      have : t2.cur.ff.2.1 = (openFF d st t.cur.ff).2.1 := by rw [f2]; simp only [id]; rw [f1]
      have e : t2.cur.preDepth = (openFF d st t.cur.ff).2.1 := this
      rw [e]
      simp [openFF, hpr]

/-- a sub-renderer frame is total when its body is (with the real `width_minus`) -/
theorem Tot.sub (p m : Nat) (first rest : List Ch) (asBlock : Bool) {body : List Op} (hb : Tot SubR.widthMinus cfg d body) :
    Tot SubR.widthMinus cfg d [.sub p m first rest asBlock body] := by
  intro t h
  simp only [runOps, runOp]
  have hwm : Safe cfg.overflow (t.cur.widthMinus cfg p m) := by
    unfold SubR.widthMinus; simp only; split
    · rename_i hc
      exact Safe.narrow (by simp only [Bool.and_eq_true, Bool.not_eq_true'] at hc; exact hc.2)
    · exact Safe.ok _
  cases h1 : t.cur.widthMinus cfg p m with
  | error e => exact ⟨by intro e' he'; simp [andThen_error_eq] at he'; subst he'; exact hwm e h1, by intro s' he'; simp [andThen_error_eq] at he'⟩
  | ok w =>
    simp only [andThen_ok_eq]
    have gb := hb { links := t.links, cur := ({ width := w, annStack := t.cur.annStack } : SubR) } (sane_fresh _ _)
    cases h2 : runOps SubR.widthMinus cfg d { links := t.links, cur := ({ width := w, annStack := t.cur.annStack } : SubR) } body with
    | error e => exact ⟨by intro e' he'; simp [andThen_error_eq] at he'; subst he'; exact gb.1 e h2, by intro s' he'; simp [andThen_error_eq] at he'⟩
    | ok r =>
      simp only [andThen_ok_eq]
      have sr := gb.2 r h2
      have g3 : GoodS cfg (if asBlock = true then t.cur.startBlock else Except.ok t.cur) := by
        split
        · exact startBlock_good _ h
        · exact GoodS.ok h
      cases h3 : (if asBlock = true then t.cur.startBlock else Except.ok t.cur) with
      | error e => exact ⟨by intro e' he'; simp [andThen_error_eq] at he'; subst he'; exact g3.1 e h3, by intro s' he'; simp [andThen_error_eq] at he'⟩
      | ok s1 =>
        simp only [andThen_ok_eq]
        have g4 := appendSub_good s1 r.cur first rest (g3.2 s1 h3) sr
        cases h4 : s1.appendSub r.cur first rest with
        | error e => exact ⟨by intro e' he'; simp [andThen_error_eq] at he'; subst he'; exact g4.1 e h4, by intro s' he'; simp [andThen_error_eq] at he'⟩
        | ok s2 =>
          simp only [andThen_ok_eq]
          have s2s := g4.2 s2 h4
          refine GoodR.ok ?_
          show (if asBlock = true then { s2 with atBlockEnd := true } else s2).Sane cfg
          split
          · exact sane_of_eq s2s rfl rfl
          · exact s2s

/-! ## the programs of table-free trees are total -/

mutual
def noTable : RNode → Bool
  | .table .. => false
  | .box _ _ kids => noTableL kids
  | .cell _ _ kids => noTableL kids
  | _ => true
def noTableL : List RNode → Bool
  | [] => true
  | n :: ns => noTable n && noTableL ns
end

theorem Tot.bracket (o c : Op) {body : List Op} (ho : isSimple o = true) (ho' : o ≠ .popPre) (hc : isSimple c = true) (hc' : c ≠ .popPre)
    (hb : Tot wm cfg d body) : Tot wm cfg d ([o] ++ body ++ [c]) :=
  ((Tot.simple o ho ho').append hb).append (Tot.simple c hc hc')

mutual
theorem compile_tot (cfg : Cfg) (d : Deco) : (n : RNode) → noTable n = true → Tot SubR.widthMinus cfg d (compile cfg d n)
  | .text st s, _ => by
    simp only [compile]
    exact Tot.styled st (Tot.simple (.text s) rfl (by simp)) ((Eff.simple (.text s) (by simp) (by simp)).congr (by intro x; rfl))
  | .img st src title, _ => by
    simp only [compile]
    exact Tot.styled st (Tot.simple (.image src title) rfl (by simp)) ((Eff.simple (.image src title) (by simp) (by simp)).congr (by intro x; rfl))
  | .br st, _ => by
    simp only [compile]
    exact Tot.styled st (Tot.simple .newLineHard rfl (by simp)) ((Eff.simple .newLineHard (by simp) (by simp)).congr (by intro x; rfl))
  | .frag n, _ => by
    simp only [compile]
    exact Tot.simple (.frag n) rfl (by simp)
  | .box st k kids, h => by
    simp only [noTable] at h
    have hb := compileList_tot cfg d kids h
    have hf : Eff SubR.widthMinus cfg d (compile cfg d (.box st k kids)) id := compile_frame SubR.widthMinus cfg d (.box st k kids)
    have hfb := compileList_frame SubR.widthMinus cfg d kids
    cases k <;> simp only [compile] <;> apply Tot.styled st
    case container => exact hb
    case container => exact hfb
    case link href => exact Tot.bracket _ _ rfl (by simp) rfl (by simp) hb
    case link href => exact Eff.bracket _ _ (by simp) (by simp) (by simp) (by simp) (by intro f; simp [opEffect]) hfb
    case em => exact Tot.bracket _ _ rfl (by simp) rfl (by simp) hb
    case em => exact Eff.bracket _ _ (by simp) (by simp) (by simp) (by simp) (by intro f; simp [opEffect]) hfb
    case strong => exact Tot.bracket _ _ rfl (by simp) rfl (by simp) hb
    case strong => exact Eff.bracket _ _ (by simp) (by simp) (by simp) (by simp) (by intro f; simp [opEffect]) hfb
    case strike => exact Tot.bracket _ _ rfl (by simp) rfl (by simp) hb
    case strike =>
      exact Eff.bracket _ _ (by simp) (by simp) (by simp) (by simp) (by
        intro f; obtain ⟨a, p, w, fd, wd⟩ := f
        by_cases hu : cfg.unicodeStrike = true <;> simp [opEffect, hu]) hfb
    case code => exact Tot.bracket _ _ rfl (by simp) rfl (by simp) hb
    case code => exact Eff.bracket _ _ (by simp) (by simp) (by simp) (by simp) (by intro f; simp [opEffect]) hfb
    case block => exact Tot.bracket _ _ rfl (by simp) rfl (by simp) hb
    case block => exact Eff.bracket _ _ (by simp) (by simp) (by simp) (by simp) (by intro f; simp [opEffect]) hfb
    case li => exact Tot.bracket _ _ rfl (by simp) rfl (by simp) hb
    case li => exact Eff.bracket _ _ (by simp) (by simp) (by simp) (by simp) (by intro f; simp [opEffect]) hfb
    case header lvl => exact Tot.sub _ _ _ _ _ hb
    case header lvl => exact Eff.sub _ _ _ _ _ _
    case div => exact Tot.bracket _ _ rfl (by simp) rfl (by simp) hb
    case div => exact Eff.bracket _ _ (by simp) (by simp) (by simp) (by simp) (by intro f; simp [opEffect]) hfb
    case quote => exact Tot.sub _ _ _ _ _ hb
    case quote => exact Eff.sub _ _ _ _ _ _
    case ul => exact compileItems_tot cfg d _ _ _ _ 0 kids h
    case ul => exact compileItems_frame SubR.widthMinus cfg d _ _ _ _ 0 kids
    case ol start => exact compileItems_tot cfg d _ _ _ _ 0 kids h
    case ol start => exact compileItems_frame SubR.widthMinus cfg d _ _ _ _ 0 kids
    case dl => exact (Tot.simple .startBlock rfl (by simp)).append hb
    case dl => exact Eff.id_append ((Eff.simple .startBlock (by simp) (by simp)).congr (by intro x; rfl)) hfb
    case dt =>
      have := (Tot.simple (wm := SubR.widthMinus) (cfg := cfg) (d := d) .newLine rfl (by simp)).append
        (Tot.bracket (.startAnn .em d.emStart false) (.endAnn d.emEnd false) rfl (by simp) rfl (by simp) hb)
      simpa [List.append_assoc] using this
    case dt =>
      have h1 : Eff SubR.widthMinus cfg d [Op.newLine] id := (Eff.simple .newLine (by simp) (by simp)).congr (by intro x; rfl)
      have h2 := Eff.bracket (wm := SubR.widthMinus) (cfg := cfg) (d := d) (.startAnn .em d.emStart false) (.endAnn d.emEnd false)
        (by simp) (by simp) (by simp) (by simp) (by intro f; simp [opEffect]) hfb
      have := Eff.id_append h1 h2
      simpa [List.append_assoc] using this
    case dd => exact Tot.sub _ _ _ _ _ hb
    case dd => exact Eff.sub _ _ _ _ _ _
    case sup =>
      split
      · exact Tot.simple (.text _) rfl (by simp)
      · exact Tot.bracket _ _ rfl (by simp) rfl (by simp) hb
    case sup =>
      split
      · exact (Eff.simple (.text _) (by simp) (by simp)).congr (by intro x; rfl)
      · exact Eff.bracket _ _ (by simp) (by simp) (by simp) (by simp) (by intro f; simp [opEffect]) hfb
  | .cell st _ kids, h => by
    simp only [noTable] at h
    simp only [compile]
    exact Tot.styled st (compileList_tot cfg d kids h) (compileList_frame SubR.widthMinus cfg d kids)
  | .row _ _, _ => by simp only [compile]; exact Tot.nil
  | .tbody _ _, _ => by simp only [compile]; exact Tot.nil
  | .table _ _ _, h => by simp [noTable] at h
theorem compileList_tot (cfg : Cfg) (d : Deco) : (ns : List RNode) → noTableL ns = true → Tot SubR.widthMinus cfg d (compileList cfg d ns)
  | [], _ => by simp only [compileList]; exact Tot.nil
  | n :: ns, h => by
    simp only [noTableL, Bool.and_eq_true] at h
    simp only [compileList]
    exact (compile_tot cfg d n h.1).append (compileList_tot cfg d ns h.2)
theorem compileItems_tot (cfg : Cfg) (d : Deco) (pw minW : Nat) (first : Nat → List Ch) (rest : List Ch) :
    (i : Nat) → (ns : List RNode) → noTableL ns = true → Tot SubR.widthMinus cfg d (compileItems cfg d pw minW first rest i ns)
  | _, [], _ => by simp only [compileItems]; exact Tot.nil
  | i, n :: ns, h => by
    simp only [noTableL, Bool.and_eq_true] at h
    simp only [compileItems]
    have := (Tot.sub pw minW (first i) rest false (compile_tot cfg d n h.1)).append (compileItems_tot cfg d pw minW first rest (i + 1) ns h.2)
    simpa using this
end

/-- **C01 for table-free render trees**: rendering returns lines or `TooNarrow` — never a panic, never a hang — for every
    tree without tables, every configuration (overflow, padding, wrap limits, footnotes, raw, borders ...), every
    decorator and every width; and `TooNarrow` only at width 0 or when overflow is not allowed -/
theorem renderTree_total_noTable (cfg : Cfg) (d : Deco) (w : Nat) (tree : RNode) (h : noTable tree = true) :
    Safe (cfg.overflow && decide (w ≠ 0)) (renderTree cfg d w tree) := by
  unfold renderTree
  split
  · rename_i hw; exact Safe.narrow (by simp [hw])
  · rename_i hw
    have hc : (cfg.overflow && decide (w ≠ 0)) = cfg.overflow := by simp [hw]
    rw [hc]
    have g := compile_tot cfg d tree h { cur := { width := w } } (sane_fresh _ _)
    apply Safe.andThen g.1
    intro t ht
    have st := g.2 t ht
    simp only
    split
    · exact intoLines_safe _ st
    · apply Safe.andThen (startBlock_good _ st).1
      intro s1 hs1
      have s1s := (startBlock_good _ st).2 s1 hs1
      exact intoLines_safe _ (addLines_sane s1 _ s1s (fun _ l hl => by simp at hl; obtain ⟨a, _, rfl⟩ := hl; rfl))

end H2T
