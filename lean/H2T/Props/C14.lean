import H2T.Lemmas.FitsBlock
import H2T.Lemmas.MarksTree
import H2T.Lemmas.MarkSafe
import H2T.Lemmas.MarksTable

/-! # C14 — every id with visible content yields one fragment marker at its content

Status: **partial** — proved for every input of the model: the wrap layer conserves markers exactly
(`wrap_layer_keeps_markers`: `add_text` in every white-space mode and with or without overflow, then `into_lines`,
emits exactly the recorded markers, in order — this is what the two `fix:` commits repaired; before them the
theorem was false); every operation of a sub-renderer conserves them (`block_layer_keeps_markers`); a table-free
rendering returns a sub-sequence of the tree's fragment nodes in document order (`markers_in_document_order`: at
most once each, nothing invented or reordered), and all of them up to a trailing run with no text line after it
when no prefixed sub-renderer is involved (`markers_exactly_once_flat`); the only place a marker is dropped is
`into_lines` of a sub-renderer with markers still pending (`only_pending_markers_are_lost`).  Also: recording a
marker adds exactly one marker element to the pending word of the current block and nothing else; markers have no width (so they can never change wrapping or the text); the hard
wrap keeps the markers of the word it splits (this is what the `fix:` commit "keep fragment markers when a word
is hard-wrapped" repaired: before it the conservation lemma below was false); markers that reach the end of a
block are handed over to the next line.  **Visible text protects the markers before it** (`Lemmas/MarkSafe`): the number of
markers `into_lines` can drop is bounded by `ub` (markers in `pending_frags` unless the wrap buffer holds text, plus the
markers of a pending word without text); text with a visible character takes `ub` to 0 and afterwards it grows by at most
one per recorded marker — so in a table-free program `a ++ [text x] ++ b` every marker held after `a` is returned, at the
front of the output's markers (`marker_before_visible_text_is_kept`, `flat_markers_before_text_are_kept`), and likewise
inside a block quote, heading, list item or `dd` (`sub_markers_before_text_are_kept`).  **Tables included, no marker is invented or duplicated** (`no_marker_duplicated`, `Lemmas/MarksTable`): for every render tree —
tables, nested tables, stacked rows, border collapsing — every marker name occurs in the output at most as often as the tree
holds a fragment node of that name; with distinct ids, at most once.  Position relative to the first
character and presence of markers in tables over whole documents are decided by
correspondence and the search oracle; two situations in which a marker is lost or an id changes the layout are
known findings. -/

namespace H2T.C14

def isFrag : Elt → Bool | .frag _ => true | .cell _ => false
def frags (l : TLine) : List Elt := l.filter isFrag

/-- recording a fragment start appends exactly one marker to the pending word; line and finished text are untouched -/
theorem recordFrag_adds_one (s : SubR) (cfg : Cfg) (n : List Ch) :
    ∃ w, (s.recordFrag cfg n).wrapping = some w ∧ w.word = (s.getWrapping cfg).word ++ [Elt.frag n] ∧
      w.line = (s.getWrapping cfg).line ∧ w.text = (s.getWrapping cfg).text ∧ (s.recordFrag cfg n).lines = s.lines :=
  ⟨_, rfl, rfl, rfl, rfl, rfl⟩

/-- markers carry no width -/
theorem frag_zero_width (n : List Ch) : (Elt.frag n).w = 0 := rfl
theorem frags_zero_width (l : TLine) : lw (frags l) = 0 := by
  induction l with
  | nil => rfl
  | cons e l ih => cases e <;> simp [frags, isFrag, List.filter_cons, Elt.w] at ih ⊢ <;> exact ih

/-- the word is split into pieces and markers without losing a marker -/
theorem itemsOf_keeps_frags (l : TLine) :
    (itemsOf l).filterMap (fun i => match i with | .frag n => some (Elt.frag n) | .piece _ => none) = frags l := by
  induction l with
  | nil => rfl
  | cons e es ih =>
    cases e with
    | frag n => simp [itemsOf, frags, isFrag, List.filter_cons] at ih ⊢; exact ih
    | cell c =>
      simp only [itemsOf]
      split
      · rename_i p ps c' rest heq1 heq2
        split <;> simp_all [frags, isFrag, List.filter_cons]
      · simp_all [frags, isFrag, List.filter_cons]

/-- hard-wrapping a marker keeps it: it goes onto the current line (since fix 8ce5bbd) -/
theorem hardWrap_keeps_marker (b : WB) (ll : Nat) (n : List Ch) (rest : List WItem) :
    b.hardWrapGo ll (.frag n :: rest) = ({ b with line := b.line ++ [Elt.frag n] } : WB).hardWrapGo ll rest := rfl

/-- markers still pending when a block is flushed are kept for the next line, not dropped -/
theorem flush_keeps_trailing_markers (s s' : SubR) (w : WB) (hw : s.wrapping = some w) (hn : w.word.noContent = true)
    (h : s.flushWrapping = .ok s') : ∃ pre, s'.pendingFrags = pre ++ w.word := by
  unfold SubR.flushWrapping at h
  simp only [hw, hn, if_true] at h
  cases hf : ({ w with word := [] } : WB).finish with
  | error e => simp [hf, andThen] at h
  | ok ls =>
    simp only [hf, andThen] at h
    injection h with h
    exact ⟨_, by rw [← h]⟩

/-! non-vacuity: the witness of the repaired defect — `<p id=x>hhhhhhhh b</p>` at width 5 keeps its marker -/
example :
    let b0 : WB := ({ width := 5 } : WB).addElement (.frag (strCh "x"))
    ((b0.addText .normal [] [] (strCh "hhhhhhhh b")).toOption.bind fun b => b.finish.toOption.map fun ls => (ls.map frags).flatten.length)
      = some 1 := by decide +kernel

/-! ## exact conservation (all inputs of the model) -/

/-- **the wrap layer keeps every marker**: whatever text is added after recording markers — any white-space mode, any
    width, with or without `allow_width_overflow`, wrapped, hard-wrapped or overflowing — the block still holds exactly
    the recorded markers in order, and finishing it emits exactly those (the pending word being empty or holding text,
    as the sub-renderer guarantees before it calls `into_lines`) -/
theorem wrap_layer_keeps_markers (b b' : WB) (m : WS) (mt wt : Tag) (cs : List Ch) (ls : List TLine) (hl : b.LineOk)
    (h : b.addText m mt wt cs = .ok b') (hw : b'.word.noContent = true → b'.word = []) (hf : b'.finish = .ok ls) :
    ls.flatMap marks = b.marks :=
  (finish_marks b' ls (addText_marks b b' m mt wt cs hl h).2 hw hf).trans (addText_marks b b' m mt wt cs hl h).1

/-- a freshly created block satisfies the invariant the theorem asks for, and recording a marker keeps it -/
theorem fresh_block_ok (w : Nat) (pad ov : Bool) : ({ width := w, padBlocks := pad, overflow := ov } : WB).LineOk := fun _ => Or.inl rfl
theorem recording_keeps_invariant (b : WB) (n : List Ch) (h : b.LineOk) : (b.addElement (.frag n)).LineOk := h

/-- **every sub-renderer operation keeps every marker**: flushing, starting a block, a blank line, a forced line break and
    inline text leave the markers held (finished lines, pending list, wrapping block — in that order) unchanged;
    recording appends exactly the new marker -/
theorem block_layer_keeps_markers (s s' : SubR) (cfg : Cfg) (hm : s.MOk) :
    (s.flushWrapping = .ok s' → s'.marks = s.marks) ∧ (s.startBlock = .ok s' → s'.marks = s.marks) ∧
    (s.addEmptyLine = .ok s' → s'.marks = s.marks) ∧ (s.newLineHard = .ok s' → s'.marks = s.marks) ∧
    (∀ x f, s.addInlineText cfg x f = .ok s' → s'.marks = s.marks) ∧
    (∀ n, (s.recordFrag cfg n).marks = s.marks ++ [n]) :=
  ⟨fun h => (flushWrapping_marks s s' hm h).1, fun h => (startBlock_marks s s' hm h).1, fun h => (addEmptyLine_marks s s' hm h).1,
   fun h => (newLineHard_marks s s' hm h).1, fun x f h => (addInlineText_marks s s' cfg x f hm h).1, fun n => (recordFrag_marks s cfg n hm).1⟩

/-- **the only loss**: `into_lines` returns every marker the sub-renderer holds except those still pending after its last
    flush (no text line followed them) -/
theorem only_pending_markers_are_lost (s : SubR) (ls : List RLine) (hm : s.MOk) (h : s.intoLines = .ok ls) :
    ls.flatMap rmarks ++ s.lostMarks = s.marks := intoLines_marks s ls hm h

/-- **markers appear in document order, at most once** (table-free trees, every decorator, width and option): the markers
    of the returned lines, read line by line, are a sub-sequence of the tree's fragment nodes in document order -/
theorem markers_in_document_order (cfg : Cfg) (d : Deco) (w : Nat) (tree : RNode) (ls : List RLine) (hn : noTable tree = true)
    (h : renderTree cfg d w tree = .ok ls) : (ls.flatMap rmarks).Sublist (nodeFrags tree) := by
  obtain ⟨lost, h1, _⟩ := renderTree_marks cfg d w tree ls hn h
  exact (List.sublist_append_left _ _).trans h1

/-- **exactly once** when no prefixed sub-renderer is involved (inline content, paragraphs, divs, dl/dt, pre): the returned
    lines carry every fragment node of the tree exactly once, in document order, except a trailing run that no text line
    followed -/
theorem markers_exactly_once_flat (cfg : Cfg) (d : Deco) (w : Nat) (tree : RNode) (ls : List RLine) (hf : flatTree tree = true)
    (h : renderTree cfg d w tree = .ok ls) : ∃ lost, ls.flatMap rmarks ++ lost = nodeFrags tree := by
  obtain ⟨lost, _, h2⟩ := renderTree_marks cfg d w tree ls (flatTree_noTable tree hf) h
  exact ⟨lost, h2 hf⟩

/-! non-vacuity of the exact theorems: the two repaired witnesses satisfy the hypotheses and keep their marker -/
example :
    let b0 : WB := ({ width := 1, overflow := true } : WB)
    (b0.LineOk) ∧
    (((b0.addText .normal [] [] [⟨0x5b57, 2, false, false⟩]).toOption.bind fun b =>
        ((b.addElement (.frag (strCh "x"))).forceFlush.addText .normal [] [] (strCh "t")).toOption.bind fun b2 =>
        b2.finish.toOption.map fun ls => ls.flatMap marks) = some [strCh "x"]) :=
  ⟨fun _ => Or.inl rfl, by decide +kernel⟩

/-! ## visible text protects the markers before it -/

/-- **a marker recorded before visible text is kept** (table-free trees, every decorator, width and option mix): if the
    tree's program is `a ++ [text x] ++ b` and `x` holds a visible character, then everything the renderer holds after
    running `a` is returned, as the first markers of the output -/
theorem marker_before_visible_text_is_kept (cfg : Cfg) (d : Deco) (w : Nat) (tree : RNode) (ls : List RLine) (hn : noTable tree = true)
    (a b : List Op) (x : List Ch) (hc : compile cfg d tree = a ++ [Op.text x] ++ b) (hk : hasInk x = true)
    (h : renderTree cfg d w tree = .ok ls) :
    ∃ ta, runOps SubR.widthMinus cfg d { cur := { width := w } } a = .ok ta ∧ ta.cur.marks <+: ls.flatMap rmarks :=
  renderTree_ink_protects cfg d w tree ls hn a b x hc hk h

/-- when `a` involves no sub-renderer these are exactly the markers `a` records: the ids of the enclosing paragraphs,
    divs and inline elements up to the text -/
theorem flat_markers_before_text_are_kept (cfg : Cfg) (d : Deco) (w : Nat) (tree : RNode) (ls : List RLine) (hn : noTable tree = true)
    (a b : List Op) (x : List Ch) (hc : compile cfg d tree = a ++ [Op.text x] ++ b) (hk : hasInk x = true) (hfa : flatOps a = true)
    (h : renderTree cfg d w tree = .ok ls) : opsFrags a <+: ls.flatMap rmarks := by
  obtain ⟨ta, e1, e2⟩ := renderTree_ink_protects cfg d w tree ls hn a b x hc hk h
  have htf : tableFreeOps a = true := by
    have := (compile_frags cfg d tree hn).2
    rw [hc, List.append_assoc, tableFreeOps_append] at this
    simp only [Bool.and_eq_true] at this; exact this.1
  obtain ⟨⟨kept, k1, _, k3⟩, _⟩ := runOps_marks SubR.widthMinus cfg d a _ ta htf (fresh_marks w []).2 e1
  rw [k1, (fresh_marks w []).1, List.nil_append, k3 hfa] at e2
  exact e2

/-- the same inside a sub-renderer: what a block quote, heading, list item or `dd` hands to its parent starts with
    everything its body held before the visible text -/
theorem sub_markers_before_text_are_kept (cfg : Cfg) (d : Deco) (t t' : RS) (p m : Nat) (first rest : List Ch) (asBlock : Bool)
    (a b : List Op) (x : List Ch) (htf : tableFreeOps (a ++ [Op.text x] ++ b) = true) (hm : t.cur.MOk) (hk : hasInk x = true)
    (h : runOp SubR.widthMinus cfg d t (.sub p m first rest asBlock (a ++ [Op.text x] ++ b)) = .ok t') :
    ∃ w ta kept, t.cur.widthMinus cfg p m = .ok w ∧
      runOps SubR.widthMinus cfg d { links := t.links, cur := ({ width := w, annStack := t.cur.annStack } : SubR) } a = .ok ta ∧
      t'.cur.marks = t.cur.marks ++ kept ∧ ta.cur.marks <+: kept :=
  sub_ink_protects cfg d t t' p m first rest asBlock a b x htf hm hk h

/-- instance: `<p id=n>x</p>` — the marker `n` is the first marker of the output whenever `x` has a visible character -/
theorem paragraph_id_is_kept (cfg : Cfg) (d : Deco) (w : Nat) (n x : List Ch) (ls : List RLine) (hk : hasInk x = true)
    (h : renderTree cfg d w (.box {} .block [.frag n, .text {} x]) = .ok ls) : [n] <+: ls.flatMap rmarks := by
  have hc : compile cfg d (.box {} .block [.frag n, .text {} x]) = [Op.startBlock, Op.frag n] ++ [Op.text x] ++ [Op.endBlock] := by
    simp [compile, compileList, styleOpen, styleClose]
  exact flat_markers_before_text_are_kept cfg d w _ ls (by simp [noTable, noTableL]) _ _ x hc hk (by simp [flatOps, flatOp]) h

/-! ## tables -/

/-- **no marker is invented or duplicated — tables included**: for every render tree (tables, nested tables, stacked rows,
    border collapsing, footnote block), every configuration, decorator and width: a marker name occurs in the returned lines
    at most as often as the tree holds a fragment node of that name -/
theorem no_marker_duplicated (n : List Ch) (cfg : Cfg) (d : Deco) (w : Nat) (tree : RNode) (ls : List RLine)
    (h : renderTree cfg d w tree = .ok ls) : (ls.flatMap rmarks).count n ≤ (treeFrags tree).count n :=
  renderTree_fragcnt_tree n cfg d w tree ls h

/-- with distinct ids every marker appears at most once -/
theorem distinct_ids_at_most_once (n : List Ch) (cfg : Cfg) (d : Deco) (w : Nat) (tree : RNode) (ls : List RLine)
    (hd : (treeFrags tree).Nodup) (h : renderTree cfg d w tree = .ok ls) : (ls.flatMap rmarks).count n ≤ 1 :=
  Nat.le_trans (no_marker_duplicated n cfg d w tree ls h) (List.nodup_iff_count.mp hd n)

/-- a row — side by side or stacked — hands on at most the markers its cells hold -/
theorem row_adds_at_most_its_cells_markers (n : List Ch) (s s' : SubR) (cfg : Cfg) (vert : Bool) (subs : List SubR) (hm : s.MOk)
    (hcm : ∀ col ∈ subs, col.MOk) (h : s.appendRow cfg vert subs = .ok s') :
    s'.marks.count n ≤ s.marks.count n + (subs.map fun col => col.marks.count n).sum :=
  (appendRow_marks n s s' cfg vert subs hm hcm h).1

end H2T.C14
