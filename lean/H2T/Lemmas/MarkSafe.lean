import H2T.Lemmas.MarksTree
import H2T.Lemmas.ConserveBlock

/-! C14: a marker recorded before visible text of the same sub-renderer is never lost.

`into_lines` drops exactly the markers still pending (`intoLines_marks`).  Here: the number of pending markers is bounded
by `ub` — the markers in `pending_frags` unless the wrap buffer holds text, plus the markers of a pending word without
text —, `ub` is 0 after text with a visible character, and afterwards it grows by at most one per recorded marker. -/

namespace H2T

/-- markers of a pending word that has no text (they would be moved to `pending_frags` by a flush) -/
def WB.dangling (b : WB) : Nat := if b.word.noContent then (H2T.marks b.word).length else 0

theorem flushWord_content_word (b b' : WB) (m : WS) (hc : b.word.noContent = false) (h : b.flushWord m = .ok b') : b'.word = [] := by
  unfold WB.flushWord at h
  rw [if_neg (by simp [hc])] at h
  simp only at h
  split at h
  · simp at h
  · split at h
    · unfold WB.placeFits at h
      split at h
      · cases hs : b.spacetag with
        | none => simp [hs] at h
        | some t => simp only [hs] at h; injection h with h; subst h; rfl
      · injection h with h; subst h; rfl
    · cases h1 : ({ b with preWrapped := false } : WB).disposeWs m with
      | error e => simp [h1, andThen] at h
      | ok b1 =>
        simp only [h1, andThen] at h
        cases h2 : b1.startWordLine m with
        | error e => simp [h2] at h
        | ok b4 =>
          simp only [h2] at h
          cases h3 : ({ b4 with word := [], wordlen := 0 } : WB).hardWrap b.word with
          | error e => simp [h3] at h
          | ok b5 =>
            simp only [h3] at h; injection h with h; subst h
            exact (hardWrap_ink _ b5 b.word rfl h3).2

theorem tabLoop_word (tag : Tag) : ∀ (fuel : Nat) (b b' : WB) (pos : Nat) (one : Bool), b.tabLoop tag pos one fuel = .ok b' → b'.word = b.word := by
  intro fuel
  induction fuel with
  | zero => intro b b' pos one h; simp [WB.tabLoop] at h
  | succ n ih =>
    intro b b' pos one h
    simp only [WB.tabLoop] at h
    split at h
    · split at h
      · rw [ih _ _ _ _ h, flushLine_word]
      · rw [ih _ _ _ _ h]
    · injection h with h; subst h; rfl

theorem forceFlush_word (b : WB) : b.forceFlush.word = b.word := by
  unfold WB.forceFlush; split <;> rfl

/-- one character never adds dangling markers, and a visible character leaves none -/
theorem addChar_dangling (b b' : WB) (m : WS) (mt wt : Tag) (cur cur' : Bool) (c : Ch) (h : b.addChar m mt wt cur c = .ok (b', cur')) :
    b'.dangling ≤ b.dangling ∧ (c.ws = false → c.ctrl = false → b'.dangling = 0) := by
  unfold WB.addChar at h
  simp only at h
  generalize hr : (if (c.ws && !b.word.noContent) = true then b.flushWord m else Except.ok b) = r at h
  cases r with
  | error e => simp at h
  | ok b0 =>
    simp only at h
    -- the word after the optional flush: unchanged, or empty
    have hw0 : b0.word = b.word ∨ (b0.word = [] ∧ b.word.noContent = false) := by
      split at hr
      · rename_i hc
        simp only [Bool.and_eq_true, Bool.not_eq_true'] at hc
        exact Or.inr ⟨flushWord_content_word b b0 m hc.2 hr, hc.2⟩
      · injection hr with hr; subst hr; exact Or.inl rfl
    have hd0 : b0.dangling ≤ b.dangling := by
      rcases hw0 with e | ⟨e, _⟩
      · simp [WB.dangling, e]
      · simp [WB.dangling, e, marks]
    by_cases hws : c.ws = true
    · simp only [hws, if_true] at h
      refine ⟨?_, fun hh => by simp [hws] at hh⟩
      have same : ∀ x : WB, x.word = b0.word → x.dangling ≤ b.dangling := by
        intro x hx; simp only [WB.dangling, hx]; exact hd0
      split at h
      · split at h
        · injection h with h; simp only [Prod.mk.injEq] at h; obtain ⟨rfl, _⟩ := h
          exact same _ (forceFlush_word b0)
        · split at h
          · cases ht : b0.tabLoop (if cur = true then wt else mt) (b0.linelen + b0.wslen) false (2 * b0.width + 20) with
            | error e => simp [ht] at h
            | ok b1 =>
              simp only [ht] at h
              injection h with h; simp only [Prod.mk.injEq] at h; obtain ⟨rfl, _⟩ := h
              exact same _ (tabLoop_word _ _ _ _ _ _ ht)
          · split at h
            · injection h with h; simp only [Prod.mk.injEq] at h; obtain ⟨rfl, _⟩ := h; exact hd0
            · split at h
              · split at h <;>
                  (injection h with h; simp only [Prod.mk.injEq] at h; obtain ⟨rfl, _⟩ := h
                   exact same _ (flushLine_word _))
              · injection h with h; simp only [Prod.mk.injEq] at h; obtain ⟨rfl, _⟩ := h; exact same _ rfl
      · split at h <;> (injection h with h; simp only [Prod.mk.injEq] at h; obtain ⟨rfl, _⟩ := h; first | exact same _ rfl | exact hd0)
    · have hws' : c.ws = false := by simpa using hws
      simp only [hws', Bool.false_eq_true, if_false] at h
      split at h
      · rename_i hct
        injection h with h; simp only [Prod.mk.injEq] at h; obtain ⟨rfl, _⟩ := h
        exact ⟨hd0, fun _ hh => by simp [hct] at hh⟩
      · injection h with h; simp only [Prod.mk.injEq] at h; obtain ⟨rfl, _⟩ := h
        have hz : ∀ (x : WB) (cl : Cell), x.word = b0.word ++ [Elt.cell cl] → x.dangling = 0 := by
          intro x cl hx
          simp [WB.dangling, hx, TLine.noContent, Elt.isCell]
        refine ⟨?_, fun _ _ => ?_⟩
        · rw [hz _ _ rfl]; exact Nat.zero_le _
        · exact hz _ _ rfl


/-- the text holds a visible character -/
def hasInk (x : List Ch) : Bool := x.any fun c => !c.ws && !c.ctrl

theorem keep_ne_nil (x : List Ch) (h : hasInk x = true) : keep x ≠ [] := by
  simp only [hasInk, List.any_eq_true] at h
  obtain ⟨c, hc, hp⟩ := h
  intro hk
  have : c ∈ keep x := by simp [keep, hc, hp]
  rw [hk] at this; simp at this

theorem addTextGo_dangling (m : WS) (mt wt : Tag) (cs : List Ch) : ∀ (b b' : WB) (cur : Bool), b.addTextGo m mt wt cur cs = .ok b' →
    b'.dangling ≤ b.dangling ∧ (hasInk cs = true → b'.dangling = 0) := by
  induction cs with
  | nil => intro b b' cur h; simp [WB.addTextGo] at h; subst h; exact ⟨Nat.le_refl _, by simp [hasInk]⟩
  | cons c cs ih =>
    intro b b' cur h
    simp only [WB.addTextGo] at h
    cases hc : b.addChar m mt wt cur c with
    | error e => simp [hc] at h
    | ok r =>
      obtain ⟨b1, cur1⟩ := r
      simp only [hc] at h
      obtain ⟨a1, a2⟩ := addChar_dangling b b1 m mt wt cur cur1 c hc
      obtain ⟨i1, i2⟩ := ih b1 b' cur1 h
      refine ⟨Nat.le_trans i1 a1, ?_⟩
      intro hk
      simp only [hasInk, List.any_cons, Bool.or_eq_true, Bool.and_eq_true, Bool.not_eq_true'] at hk
      rcases hk with ⟨h1, h2⟩ | hk
      · have := a2 h1 h2; omega
      · exact i2 (by simpa [hasInk] using hk)

theorem addText_dangling (b b' : WB) (m : WS) (mt wt : Tag) (cs : List Ch) (h : b.addText m mt wt cs = .ok b') :
    b'.dangling ≤ b.dangling ∧ (hasInk cs = true → b'.dangling = 0) := by
  unfold WB.addText WB.zeroGuard at h
  split at h
  · split at h
    · simp only [andThen] at h
      have := addTextGo_dangling m mt wt cs _ b' _ h
      simpa [WB.dangling] using this
    · split at h
      · simp [andThen] at h
      · simp only [andThen] at h
        exact addTextGo_dangling m mt wt cs _ b' _ h
  · simp only [andThen] at h
    exact addTextGo_dangling m mt wt cs _ b' _ h

/-! ## the sub-renderer -/

/-- ink held by the wrap buffer -/
def SubR.wink (s : SubR) : List Ch := match s.wrapping with | some w => w.ink | none => []
def SubR.wdangling (s : SubR) : Nat := match s.wrapping with | some w => w.dangling | none => 0

/-- an upper bound on the markers `into_lines` would drop now -/
def SubR.ub (s : SubR) : Nat := (if s.wink = [] then (H2T.marks s.pendingFrags).length else 0) + s.wdangling

theorem ub_congr (s s' : SubR) (h1 : s'.pendingFrags = s.pendingFrags) (h2 : s'.wrapping = s.wrapping) : s'.ub = s.ub := by
  unfold SubR.ub SubR.wink SubR.wdangling; rw [h1, h2]

theorem ub_le_congr {s s' : SubR} {k : Nat} (h1 : s'.pendingFrags = s.pendingFrags) (h2 : s'.wrapping = s.wrapping) (h : s.ub ≤ k) :
    s'.ub ≤ k := by rw [ub_congr s s' h1 h2]; exact h

theorem ub_none (s : SubR) (h : s.wrapping = none) : s.ub = (marks s.pendingFrags).length := by
  simp [SubR.ub, SubR.wink, SubR.wdangling, h]

theorem addLine_pf (s : SubR) (l : RLine) :
    (marks (s.addLine l).pendingFrags).length ≤ (marks s.pendingFrags).length ∧
    (∀ tl, l = .text tl → (s.addLine l).pendingFrags = []) := by
  cases l with
  | rule b t => exact ⟨Nat.le_refl _, fun tl h => by cases h⟩
  | text tl =>
    simp only [SubR.addLine]
    split
    · rename_i he
      have : s.pendingFrags = [] := by simpa using he
      exact ⟨Nat.le_refl _, fun _ _ => this⟩
    · exact ⟨by simp [marks], fun _ _ => rfl⟩

theorem addLines_pf (ls : List RLine) : ∀ (s : SubR),
    (marks (s.addLines ls).pendingFrags).length ≤ (marks s.pendingFrags).length ∧
    (ls ≠ [] → (∀ l ∈ ls, ∃ tl, l = .text tl) → (s.addLines ls).pendingFrags = []) := by
  induction ls with
  | nil => intro s; exact ⟨Nat.le_refl _, fun h => absurd rfl h⟩
  | cons l ls ih =>
    intro s
    obtain ⟨a1, a2⟩ := addLine_pf s l
    obtain ⟨b1, b2⟩ := ih (s.addLine l)
    refine ⟨Nat.le_trans b1 a1, ?_⟩
    intro _ hall
    obtain ⟨tl, htl⟩ := hall l (by simp)
    have h0 := a2 tl htl
    cases ls with
    | nil => exact h0
    | cons l2 r => exact b2 (by simp) (fun x hx => hall x (by simp [hx]))

/-- flushing never raises the bound; afterwards the bound is exact: the markers in `pending_frags` -/
theorem flushWrapping_ub (s s' : SubR) (h : s.flushWrapping = .ok s') : s'.ub ≤ s.ub ∧ s'.wrapping = none := by
  unfold SubR.flushWrapping at h
  cases hw : s.wrapping with
  | none => simp only [hw] at h; injection h with h; subst h; exact ⟨Nat.le_refl _, hw⟩
  | some w =>
    simp only [hw] at h
    generalize hw' : (if w.word.noContent = true then { w with word := [] } else w) = w' at h
    cases hf : w'.finish with
    | error e => simp [hf, andThen] at h
    | ok ls =>
      simp only [hf, andThen] at h
      injection h with h; subst h
      have hwr : (({ s with wrapping := none } : SubR).addLines (ls.map RLine.text)).wrapping = none := addLines_wrapping _ _
      refine ⟨?_, hwr⟩
      rw [ub_none _ (by exact hwr)]
      show (marks ((({ s with wrapping := none } : SubR).addLines (ls.map RLine.text)).pendingFrags ++
        (if w.word.noContent = true then w.word else []))).length ≤ _
      have hink : w'.ink = w.ink := by
        rw [← hw']; split
        · rename_i hn; simp [WB.ink, ink_noContent _ hn, ink_nil]
        · rfl
      have hfi := finish_ink w' ls hf
      obtain ⟨p1, p2⟩ := addLines_pf (ls.map RLine.text) ({ s with wrapping := none } : SubR)
      simp only [marks_append, List.length_append]
      have hd : (marks (if w.word.noContent = true then w.word else [])).length = w.dangling := by
        unfold WB.dangling; split <;> simp [marks]
      rw [hd]
      simp only [SubR.ub, SubR.wink, SubR.wdangling, hw]
      by_cases hi : w.ink = []
      · simp only [hi, if_true]
        exact Nat.add_le_add_right p1 _
      · simp only [hi, if_false, Nat.zero_add]
        have hne : ls ≠ [] := by
          intro hh; subst hh; simp at hfi; rw [hink] at hfi; exact hi hfi
        rw [p2 (by simpa using hne) (by intro l hl; simp only [List.mem_map] at hl; obtain ⟨tl, _, rfl⟩ := hl; exact ⟨tl, rfl⟩)]
        simp [marks]

/-- **what `into_lines` drops is bounded by `ub`** -/
theorem lostMarks_le_ub (s : SubR) : s.lostMarks.length ≤ s.ub := by
  unfold SubR.lostMarks
  cases h : s.flushWrapping with
  | error e => simp
  | ok s1 =>
    obtain ⟨a, b⟩ := flushWrapping_ub s s1 h
    simp only
    rw [ub_none _ b] at a
    exact a


theorem addEmptyLine_ub (s s' : SubR) (h : s.addEmptyLine = .ok s') : s'.ub = 0 := by
  unfold SubR.addEmptyLine at h
  cases h1 : s.flushWrapping with
  | error e => simp [h1, andThen] at h
  | ok s1 =>
    simp only [h1, andThen] at h
    injection h with h; subst h
    obtain ⟨_, wn⟩ := flushWrapping_ub s s1 h1
    have hw : ({ (s1.addLine (.text [])) with atBlockEnd := false } : SubR).wrapping = none := by
      show (s1.addLine (.text [])).wrapping = none
      rw [addLine_wrapping]; exact wn
    rw [ub_none _ hw]
    show (marks (s1.addLine (.text [])).pendingFrags).length = 0
    rw [(addLine_pf s1 (.text [])).2 [] rfl]; rfl

theorem startBlock_ub (s s' : SubR) (h : s.startBlock = .ok s') : s'.ub ≤ s.ub := by
  unfold SubR.startBlock at h
  cases h1 : s.flushWrapping with
  | error e => simp [h1, andThen] at h
  | ok s1 =>
    simp only [h1, andThen] at h
    obtain ⟨a, _⟩ := flushWrapping_ub s s1 h1
    by_cases hc : s1.lines.any RLine.hasContent = true
    · simp only [hc, if_true] at h
      cases h2 : s1.addEmptyLine with
      | error e => simp [h2] at h
      | ok s2 =>
        simp only [h2] at h; injection h with h; subst h
        have := addEmptyLine_ub s1 s2 h2
        have e := ub_congr ({ s2 with atBlockEnd := false }) s2 rfl rfl
        rw [← e, this]; exact Nat.zero_le _
    · simp only [hc] at h
      injection h with h; subst h
      have e := ub_congr ({ s1 with atBlockEnd := false }) s1 rfl rfl
      rw [← e]; exact a

theorem newLineHard_ub (s s' : SubR) (h : s.newLineHard = .ok s') : s'.ub ≤ s.ub := by
  unfold SubR.newLineHard at h
  split at h
  · rw [addEmptyLine_ub s s' h]; exact Nat.zero_le _
  · split at h
    · rw [addEmptyLine_ub s s' h]; exact Nat.zero_le _
    · exact (flushWrapping_ub s s' h).1

theorem hasInk_strikeFilter (x : List Ch) (h : hasInk x = true) : hasInk (strikeFilter x) = true := by
  simp only [hasInk, List.any_eq_true] at h ⊢
  obtain ⟨c, hc, hp⟩ := h
  refine ⟨c, ?_, hp⟩
  simp only [strikeFilter, List.mem_flatMap]
  have hm : ∀ (p : Prop) [Decidable p] (z : Ch), c ∈ (if p then [c, z] else [c]) := by
    intro p _ z; split <;> simp
  exact ⟨c, hc, hm _ _⟩

theorem hasInk_iter (n : Nat) : ∀ (x : List Ch), hasInk x = true → hasInk (iterN strikeFilter n x) = true := by
  induction n with
  | zero => intro x h; exact h
  | succ n ih => intro x h; exact ih _ (hasInk_strikeFilter x h)

theorem hasInk_not_ws (x : List Ch) (h : hasInk x = true) : x.all chIsWs = false := by
  simp only [hasInk, List.any_eq_true, Bool.and_eq_true, Bool.not_eq_true'] at h
  obtain ⟨c, hc, hp, _⟩ := h
  cases hall : x.all chIsWs with
  | false => rfl
  | true =>
    rw [List.all_eq_true] at hall
    have := hall c hc
    simp [chIsWs, hp] at this

/-- adding text never raises the bound; visible text takes it to zero -/
theorem addInlineText_ub (s s' : SubR) (cfg : Cfg) (x : List Ch) (f : Ann → Ann) (h : s.addInlineText cfg x f = .ok s') :
    s'.ub ≤ s.ub ∧ (hasInk x = true → s'.ub = 0) := by
  unfold SubR.addInlineText at h
  split at h
  · rename_i hskip
    injection h with h; subst h
    refine ⟨Nat.le_refl _, fun hk => ?_⟩
    have := hasInk_not_ws x hk
    simp [this] at hskip
  · generalize h0 : (if s.atBlockEnd = true then s.startBlock else Except.ok s) = r0 at h
    cases r0 with
    | error e => simp [andThen] at h
    | ok s0 =>
      simp only [andThen] at h
      have hs0 : s0.ub ≤ s.ub := by
        split at h0
        · exact startBlock_ub s s0 h0
        · injection h0 with h0; subst h0; exact Nat.le_refl _
      generalize hmt : (if s0.preDepth > 0 then s0.annStack ++ [f (Ann.pre false)] else s0.annStack) = mt at h
      generalize hct : (if s0.preDepth > 0 then s0.annStack ++ [f (Ann.pre true)] else s0.annStack) = ct at h
      cases h1 : (s0.getWrapping cfg).addText s0.wsMode mt ct (iterN strikeFilter s0.filterDepth x) with
      | error e => simp [h1] at h
      | ok w1 =>
        simp only [h1] at h
        injection h with h; subst h
        have hink := addText_ink _ w1 _ _ _ _ h1
        obtain ⟨d1, d2⟩ := addText_dangling _ w1 _ _ _ _ h1
        rw [getWrapping_ink] at hink
        have hd0 : (s0.getWrapping cfg).dangling = s0.wdangling := by
          unfold SubR.getWrapping SubR.wdangling
          cases s0.wrapping with
          | some w => rfl
          | none => simp [WB.dangling, marks]
        have hub : ({ s0 with wrapping := some w1 } : SubR).ub =
            (if w1.ink = [] then (marks s0.pendingFrags).length else 0) + w1.dangling := rfl
        rw [hub]
        have hwi : s0.wink = (match s0.wrapping with | some w => w.ink | none => []) := rfl
        constructor
        · refine Nat.le_trans ?_ hs0
          unfold SubR.ub
          rw [← hd0, hwi]
          by_cases hi : w1.ink = []
          · have : (match s0.wrapping with | some w => w.ink | none => []) = [] := by
              rw [hink] at hi; exact (List.append_eq_nil_iff.mp hi).1
            simp only [hi, this, if_true]
            exact Nat.add_le_add_left d1 _
          · simp only [hi, if_false, Nat.zero_add]
            exact Nat.le_trans d1 (Nat.le_add_left _ _)
        · intro hk
          have hk' := hasInk_iter s0.filterDepth x hk
          have hne : w1.ink ≠ [] := by
            rw [hink]; intro hh
            exact keep_ne_nil _ hk' (List.append_eq_nil_iff.mp hh).2
          simp only [hne, if_false, Nat.zero_add]
          exact d2 hk'

theorem recordFrag_ub (s : SubR) (cfg : Cfg) (n : List Ch) : (s.recordFrag cfg n).ub ≤ s.ub + 1 := by
  unfold SubR.recordFrag
  have hub : ({ s with wrapping := some ((s.getWrapping cfg).addElement (.frag n)) } : SubR).ub =
      (if ((s.getWrapping cfg).addElement (.frag n)).ink = [] then (marks s.pendingFrags).length else 0) +
        ((s.getWrapping cfg).addElement (.frag n)).dangling := rfl
  rw [hub]
  have hi : ((s.getWrapping cfg).addElement (.frag n)).ink = s.wink := by
    have := getWrapping_ink s cfg
    simp only [WB.addElement, WB.ink, ink_append] at this ⊢
    rw [show ink [Elt.frag n] = [] from rfl, List.append_nil]
    exact this
  have hd : ((s.getWrapping cfg).addElement (.frag n)).dangling ≤ s.wdangling + 1 := by
    unfold SubR.getWrapping SubR.wdangling
    cases s.wrapping with
    | some w =>
      have hnc : (w.word ++ [Elt.frag n]).noContent = w.word.noContent := by
        simp [TLine.noContent, Elt.isCell]
      show (if (w.word ++ [Elt.frag n]).noContent = true then (marks (w.word ++ [Elt.frag n])).length else 0) ≤
        (if w.word.noContent = true then (marks w.word).length else 0) + 1
      by_cases hn : w.word.noContent = true
      · simp [hnc, hn, marks]
      · simp [hnc, hn]
    | none => simp [WB.addElement, WB.dangling, marks, TLine.noContent, Elt.isCell]
  rw [hi]
  unfold SubR.ub
  omega


/-! ## programs -/

/-- markers recorded at the top level of a program (not inside a sub-renderer's body) -/
def topFrags : List Op → Nat
  | [] => 0
  | .frag _ :: r => topFrags r + 1
  | _ :: r => topFrags r

def fragOne : Op → Nat | .frag _ => 1 | _ => 0

theorem topFrags_cons (op : Op) (r : List Op) : topFrags (op :: r) = fragOne op + topFrags r := by
  cases op <;> simp [topFrags, fragOne] <;> omega

theorem onCur_ub (t : RS) (f : SubR → Except Err SubR) (t1 : RS) (k : Nat) (h0 : t.onCur f = .ok t1)
    (hf : ∀ s1, f t.cur = .ok s1 → s1.ub ≤ t.cur.ub + k) : t1.cur.ub ≤ t.cur.ub + k := by
  unfold RS.onCur at h0
  cases hfc : f t.cur with
  | error e => simp [hfc, andThen] at h0
  | ok s1 => simp only [hfc, andThen] at h0; injection h0 with h0; subst h0; exact hf s1 hfc

theorem stepSimple_ub (cfg : Cfg) (d : Deco) (t t' : RS) (op : Op) (h : stepSimple cfg d t op = .ok t') :
    t'.cur.ub ≤ t.cur.ub + fragOne op := by
  have keep0 : ∀ (g : SubR → SubR), (g t.cur).wrapping = t.cur.wrapping → (g t.cur).pendingFrags = t.cur.pendingFrags →
      (g t.cur).ub ≤ t.cur.ub + 0 := by
    intro g e2 e3
    rw [ub_congr t.cur (g t.cur) e3 e2]; exact Nat.le_refl _
  have txt : ∀ (s0 s1 : SubR) (x : List Ch), s0.ub ≤ t.cur.ub → s0.addInlineText cfg x d.annOf = .ok s1 → s1.ub ≤ t.cur.ub + 0 := by
    intro s0 s1 x e0 e
    exact Nat.le_trans (addInlineText_ub s0 s1 cfg x _ e).1 e0
  have same : ∀ (s0 : SubR), s0.wrapping = t.cur.wrapping → s0.pendingFrags = t.cur.pendingFrags → s0.ub ≤ t.cur.ub := by
    intro s0 e2 e3; rw [ub_congr t.cur s0 e3 e2]; exact Nat.le_refl _
  cases op <;> simp only [stepSimple, fragOne] at h ⊢
  case pushWs ws => exact onCur_ub t _ t' _ h fun s1 e => by injection e with e; subst e; exact keep0 (fun s => { s with wsStack := s.wsStack ++ [ws] }) rfl rfl
  case popWs => exact onCur_ub t _ t' _ h fun s1 e => by injection e with e; subst e; exact keep0 (fun s => { s with wsStack := s.wsStack.dropLast }) rfl rfl
  case pushAnn a => exact onCur_ub t _ t' _ h fun s1 e => by injection e with e; subst e; exact keep0 (fun s => { s with annStack := s.annStack ++ [a] }) rfl rfl
  case popAnn => exact onCur_ub t _ t' _ h fun s1 e => by injection e with e; subst e; exact keep0 (fun s => { s with annStack := s.annStack.dropLast }) rfl rfl
  case pushPre => exact onCur_ub t _ t' _ h fun s1 e => by injection e with e; subst e; exact keep0 (fun s => { s with preDepth := s.preDepth + 1 }) rfl rfl
  case popPre =>
    exact onCur_ub t _ t' _ h fun s1 e => by
      split at e
      · simp at e
      · injection e with e; subst e; exact keep0 (fun s => { s with preDepth := s.preDepth - 1 }) rfl rfl
  case text x => exact onCur_ub t _ t' _ h fun s1 e => txt _ s1 x (Nat.le_refl _) e
  case frag n =>
    exact onCur_ub t _ t' _ h fun s1 e => by
      injection e with e; subst e
      exact recordFrag_ub t.cur cfg n
  case startLink href =>
    exact onCur_ub { t with links := t.links ++ [href] } _ t' _ h fun s1 e =>
      txt ({ t.cur with annStack := t.cur.annStack ++ [d.annOf (Ann.link href)] } : SubR) s1 _ (same _ rfl rfl) e
  case endLink =>
    generalize h1 : (t.onCur fun s => andThen (s.addInlineText cfg d.linkEnd d.annOf) fun s' => Except.ok { s' with annStack := s'.annStack.dropLast }) = r1 at h
    cases r1 with
    | error e => simp [andThen] at h
    | ok t1 =>
      simp only [andThen] at h
      have st1 : t1.cur.ub ≤ t.cur.ub + 0 := onCur_ub t _ t1 _ h1 fun s1 e => by
        cases h2 : t.cur.addInlineText cfg d.linkEnd d.annOf with
        | error e' => simp [h2, andThen] at e
        | ok s2 =>
          simp only [h2, andThen] at e; injection e with e; subst e
          exact ub_le_congr (s := s2) rfl rfl (txt _ s2 _ (Nat.le_refl _) h2)
      split at h
      · have := onCur_ub t1 _ t' 0 h fun s1 e => by
          have := (addInlineText_ub t1.cur s1 cfg _ _ e).1; omega
        omega
      · injection h with h; subst h; exact st1
  case startAnn a x strike =>
    exact onCur_ub t _ t' _ h fun s1 e => by
      cases h2 : ({ t.cur with annStack := t.cur.annStack ++ [d.annOf a] } : SubR).addInlineText cfg x d.annOf with
      | error e' => simp [h2, andThen] at e
      | ok s2 =>
        simp only [h2, andThen] at e; injection e with e; subst e
        have a1 := txt ({ t.cur with annStack := t.cur.annStack ++ [d.annOf a] } : SubR) s2 _ (same _ rfl rfl) h2
        split
        · exact ub_le_congr (s := s2) rfl rfl a1
        · exact a1
  case endAnn x strike =>
    exact onCur_ub t _ t' _ h fun s1 e => by
      generalize hs0 : (if (strike && cfg.unicodeStrike) = true then { t.cur with filterDepth := t.cur.filterDepth - 1 } else t.cur) = s0 at e
      have e0 : s0.ub ≤ t.cur.ub := by
        rw [← hs0]; split
        · exact same _ rfl rfl
        · exact Nat.le_refl _
      cases h2 : s0.addInlineText cfg x d.annOf with
      | error e' => simp [h2, andThen] at e
      | ok s2 =>
        simp only [h2, andThen] at e; injection e with e; subst e
        exact ub_le_congr (s := s2) rfl rfl (txt s0 s2 _ e0 h2)
  case image src title =>
    exact onCur_ub t _ t' _ h fun s1 e => by
      cases h2 : ({ t.cur with annStack := t.cur.annStack ++ [d.annOf (Ann.image src)] } : SubR).addInlineText cfg (d.imgText title) d.annOf with
      | error e' => simp [h2, andThen] at e
      | ok s2 =>
        simp only [h2, andThen] at e; injection e with e; subst e
        exact ub_le_congr (s := s2) rfl rfl (txt ({ t.cur with annStack := t.cur.annStack ++ [d.annOf (Ann.image src)] } : SubR) s2 _ (same _ rfl rfl) h2)
  case startBlock => exact onCur_ub t _ t' _ h fun s1 e => by have := startBlock_ub _ s1 e; omega
  case endBlock => exact onCur_ub t _ t' _ h fun s1 e => by injection e with e; subst e; exact keep0 (fun s => { s with atBlockEnd := true }) rfl rfl
  case newLine => exact onCur_ub t _ t' _ h fun s1 e => by have := (flushWrapping_ub _ s1 e).1; omega
  case newLineHard => exact onCur_ub t _ t' _ h fun s1 e => by have := newLineHard_ub _ s1 e; omega
  all_goals (injection h with h; subst h; exact Nat.le_refl _)


theorem text_ink_ub (cfg : Cfg) (d : Deco) (t t' : RS) (x : List Ch) (hk : hasInk x = true)
    (h : stepSimple cfg d t (.text x) = .ok t') : t'.cur.ub = 0 := by
  simp only [stepSimple] at h
  unfold RS.onCur at h
  cases hfc : t.cur.addInlineText cfg x d.annOf with
  | error e => simp [hfc, andThen] at h
  | ok s1 =>
    simp only [hfc, andThen] at h; injection h with h; subst h
    exact (addInlineText_ub t.cur s1 cfg x _ hfc).2 hk

theorem appendSub_ub (s other s' : SubR) (first rest : List Ch) (h : s.appendSub other first rest = .ok s') : s'.ub ≤ s.ub := by
  unfold SubR.appendSub at h
  cases h1 : s.flushWrapping with
  | error e => simp [h1, andThen] at h
  | ok s1 =>
    simp only [h1, andThen] at h
    obtain ⟨a, wn⟩ := flushWrapping_ub s s1 h1
    cases h2 : other.intoLines with
    | error e => simp [h2] at h
    | ok ls =>
      simp only [h2] at h; injection h with h; subst h
      have hw : (s1.addLines (zipPrefix s1.annStack first rest ls)).wrapping = none := by rw [addLines_wrapping]; exact wn
      rw [ub_none _ hw]
      rw [ub_none _ wn] at a
      exact Nat.le_trans (addLines_pf _ s1).1 a

theorem runOp_sub_ub (wm : SubR → Cfg → Nat → Nat → Except Err Nat) (cfg : Cfg) (d : Deco) (t t' : RS)
    (p m : Nat) (first rest : List Ch) (asBlock : Bool) (body : List Op)
    (h : runOp wm cfg d t (.sub p m first rest asBlock body) = .ok t') : t'.cur.ub ≤ t.cur.ub := by
  simp only [runOp] at h
  cases e1 : wm t.cur cfg p m with
  | error e => simp [e1, andThen_error_eq] at h
  | ok w =>
    simp only [e1, andThen_ok_eq] at h
    cases e2 : runOps wm cfg d { links := t.links, cur := ({ width := w, annStack := t.cur.annStack } : SubR) } body with
    | error e => simp [e2, andThen_error_eq] at h
    | ok r =>
      simp only [e2, andThen_ok_eq] at h
      generalize e3 : (if asBlock = true then t.cur.startBlock else Except.ok t.cur) = r3 at h
      cases r3 with
      | error e => simp [andThen_error_eq] at h
      | ok s1 =>
        simp only [andThen_ok_eq] at h
        have st1 : s1.ub ≤ t.cur.ub := by
          split at e3
          · exact startBlock_ub _ s1 e3
          · injection e3 with e3; subst e3; exact Nat.le_refl _
        cases e4 : s1.appendSub r.cur first rest with
        | error e => simp [e4, andThen_error_eq] at h
        | ok s2 =>
          simp only [e4, andThen_ok_eq] at h; injection h with h; subst h
          have st2 := Nat.le_trans (appendSub_ub s1 r.cur s2 first rest e4) st1
          show (if asBlock = true then ({ s2 with atBlockEnd := true } : SubR) else s2).ub ≤ _
          split
          · exact ub_le_congr (s := s2) rfl rfl st2
          · exact st2

/-- **a table-free program raises the bound by at most one per marker recorded at its top level** -/
theorem runOps_ub (cfg : Cfg) (d : Deco) : ∀ (ops : List Op) (t t' : RS), tableFreeOps ops = true →
    runOps SubR.widthMinus cfg d t ops = .ok t' → t'.cur.ub ≤ t.cur.ub + topFrags ops := by
  intro ops
  induction ops with
  | nil => intro t t' _ h; simp [runOps] at h; subst h; simp [topFrags]
  | cons op ops ih =>
    intro t t' hs h
    simp only [tableFreeOps, Bool.and_eq_true] at hs
    simp only [runOps] at h
    cases h1 : runOp SubR.widthMinus cfg d t op with
    | error e => simp [h1, andThen_error_eq] at h
    | ok t1 =>
      simp only [h1, andThen_ok_eq] at h
      have i := ih t1 t' hs.2 h
      rw [topFrags_cons]
      have s1 : t1.cur.ub ≤ t.cur.ub + fragOne op := by
        cases op with
        | sub p m f r a b => have := runOp_sub_ub _ cfg d t t1 p m f r a b h1; simp [fragOne]; exact this
        | table _ _ => simp [tableFreeOp] at hs
        | row _ _ _ => simp [tableFreeOp] at hs
        | cell _ _ _ => simp [tableFreeOp] at hs
        | _ => exact stepSimple_ub cfg d t t1 _ (by simpa [runOp] using h1)
      omega

/-- …and its marks grow by at least that many -/
theorem runOps_kept_len (cfg : Cfg) (d : Deco) : ∀ (ops : List Op) (t t' : RS), tableFreeOps ops = true → t.cur.MOk →
    runOps SubR.widthMinus cfg d t ops = .ok t' →
    ∃ kept, t'.cur.marks = t.cur.marks ++ kept ∧ topFrags ops ≤ kept.length ∧ t'.cur.MOk := by
  intro ops
  induction ops with
  | nil => intro t t' _ hm h; simp [runOps] at h; subst h; exact ⟨[], by simp, by simp [topFrags], hm⟩
  | cons op ops ih =>
    intro t t' hs hm h
    simp only [tableFreeOps, Bool.and_eq_true] at hs
    simp only [runOps] at h
    cases h1 : runOp SubR.widthMinus cfg d t op with
    | error e => simp [h1, andThen_error_eq] at h
    | ok t1 =>
      simp only [h1, andThen_ok_eq] at h
      obtain ⟨⟨k1, a1, a2, a3⟩, m1⟩ := runOp_marks SubR.widthMinus cfg d op t t1 hs.1 hm h1
      obtain ⟨k2, b1, b2, m2⟩ := ih t1 t' hs.2 m1 h
      refine ⟨k1 ++ k2, by rw [b1, a1, List.append_assoc], ?_, m2⟩
      rw [topFrags_cons, List.length_append]
      have : fragOne op ≤ k1.length := by
        cases op <;> simp only [fragOne] <;> try exact Nat.zero_le _
        rename_i n
        have := a3 (by simp [flatOp])
        simp [this, opFrags]
      omega

/-- **visible text protects every marker recorded before it**: in a table-free program `a ++ [text x] ++ b` with a
    visible character in `x`, everything the renderer holds after `a` survives `into_lines`: at most the markers that `b`
    adds afterwards can be pending at the end -/
theorem ink_protects (cfg : Cfg) (d : Deco) (a b : List Op) (x : List Ch) (t0 t' : RS)
    (htf : tableFreeOps (a ++ [Op.text x] ++ b) = true) (hm : t0.cur.MOk) (hk : hasInk x = true)
    (h : runOps SubR.widthMinus cfg d t0 (a ++ [Op.text x] ++ b) = .ok t') :
    ∃ ta rest, runOps SubR.widthMinus cfg d t0 a = .ok ta ∧ t'.cur.marks = ta.cur.marks ++ rest ∧
      t'.cur.ub ≤ rest.length ∧ t'.cur.MOk := by
  rw [List.append_assoc, runOps_append] at h
  rw [List.append_assoc, tableFreeOps_append] at htf
  simp only [Bool.and_eq_true] at htf
  obtain ⟨ha, hxb⟩ := htf
  cases h1 : runOps SubR.widthMinus cfg d t0 a with
  | error e => simp [h1, andThen_error_eq] at h
  | ok ta =>
    simp only [h1, andThen_ok_eq] at h
    obtain ⟨_, _, _, ma⟩ := runOps_kept_len cfg d a t0 ta ha hm h1
    simp only [List.singleton_append, runOps] at h
    cases h2 : runOp SubR.widthMinus cfg d ta (.text x) with
    | error e => simp [h2, andThen_error_eq] at h
    | ok tx =>
      simp only [h2, andThen_ok_eq] at h
      have hb : tableFreeOps b = true := by
        simp only [List.singleton_append, tableFreeOps, Bool.and_eq_true] at hxb; exact hxb.2
      have hz := text_ink_ub cfg d ta tx x hk (by simpa [runOp] using h2)
      obtain ⟨⟨kx, x1, x2, _⟩, mx⟩ := runOp_marks SubR.widthMinus cfg d (.text x) ta tx (by simp [tableFreeOp]) ma h2
      have hkx : kx = [] := by simpa [opFrags] using x2
      subst hkx
      obtain ⟨kb, b1, b2, mb⟩ := runOps_kept_len cfg d b tx t' hb mx h
      have ub := runOps_ub cfg d b tx t' hb h
      refine ⟨ta, kb, rfl, by rw [b1, x1]; simp, by omega, mb⟩


theorem prefix_of_append_eq {α : Type} (out lost ma rest : List α) (h : out ++ lost = ma ++ rest) (hl : lost.length ≤ rest.length) :
    ma <+: out := by
  have h1 : ma <+: out ++ lost := ⟨rest, h.symm⟩
  have h2 : out <+: out ++ lost := ⟨lost, rfl⟩
  have hlen := congrArg List.length h
  simp only [List.length_append] at hlen
  exact List.prefix_of_prefix_length_le h1 h2 (by omega)

/-- **whole renderings**: if the program of a table-free tree is `a ++ [text x] ++ b` with a visible character in `x`, then
    every marker the renderer holds after `a` — in particular every marker `a` records at its top level — is returned, and
    these markers are the first ones of the output -/
theorem renderTree_ink_protects (cfg : Cfg) (d : Deco) (w : Nat) (tree : RNode) (ls : List RLine) (hn : noTable tree = true)
    (a b : List Op) (x : List Ch) (hc : compile cfg d tree = a ++ [Op.text x] ++ b) (hk : hasInk x = true)
    (h : renderTree cfg d w tree = .ok ls) :
    ∃ ta, runOps SubR.widthMinus cfg d { cur := { width := w } } a = .ok ta ∧ ta.cur.marks <+: ls.flatMap rmarks := by
  unfold renderTree at h
  split at h
  · simp at h
  · cases h1 : runOps SubR.widthMinus cfg d { cur := { width := w } } (compile cfg d tree) with
    | error e => simp [h1, andThen_error_eq] at h
    | ok t =>
      simp only [h1, andThen_ok_eq] at h
      obtain ⟨_, f2⟩ := fresh_marks w []
      obtain ⟨_, hc2⟩ := compile_frags cfg d tree hn
      rw [hc] at h1 hc2
      obtain ⟨ta, rest, e1, e2, e3, mt⟩ := ink_protects cfg d a b x _ t hc2 f2 hk h1
      refine ⟨ta, e1, ?_⟩
      split at h
      · have := intoLines_marks t.cur ls mt h
        rw [e2] at this
        exact prefix_of_append_eq _ _ _ _ this (Nat.le_trans (lostMarks_le_ub _) e3)
      · cases h2 : t.cur.startBlock with
        | error e => simp [h2, andThen_error_eq] at h
        | ok s1 =>
          simp only [h2, andThen_ok_eq] at h
          obtain ⟨a1, a2⟩ := startBlock_marks _ s1 mt h2
          have u1 := startBlock_ub _ s1 h2
          obtain ⟨b1, b2⟩ := addLines_marks ((List.flatMap (fmtLinkLine cfg (d.annOf Ann.dflt) s1.width) (footTexts cfg t.links)).map RLine.text) s1 a2
          have u2 : (s1.addLines ((List.flatMap (fmtLinkLine cfg (d.annOf Ann.dflt) s1.width) (footTexts cfg t.links)).map RLine.text)).ub ≤ s1.ub := by
            rw [ub_none _ b2, ub_none _ a2]; exact (addLines_pf _ s1).1
          have := intoLines_marks _ ls (mOk_of_none b2) h
          rw [b1, a1, e2] at this
          have hfoot : ((List.flatMap (fmtLinkLine cfg (d.annOf Ann.dflt) s1.width) (footTexts cfg t.links)).map RLine.text).flatMap rmarks = [] := by
            rw [List.flatMap_map]
            apply List.flatMap_eq_nil_iff.mpr
            intro tl htl
            simp only [List.mem_flatMap] at htl
            obtain ⟨f, _, hf⟩ := htl
            exact fmtLinkLine_marks cfg _ _ f tl hf
          rw [hfoot, List.append_nil] at this
          exact prefix_of_append_eq _ _ _ _ this (Nat.le_trans (lostMarks_le_ub _) (by omega))


/-- the same inside a sub-renderer (block quote, heading, list item, `dd`): the markers a `sub` operation hands to its
    parent start with everything its body held before the visible text -/
theorem sub_ink_protects (cfg : Cfg) (d : Deco) (t t' : RS) (p m : Nat) (first rest : List Ch) (asBlock : Bool)
    (a b : List Op) (x : List Ch) (htf : tableFreeOps (a ++ [Op.text x] ++ b) = true) (hm : t.cur.MOk) (hk : hasInk x = true)
    (h : runOp SubR.widthMinus cfg d t (.sub p m first rest asBlock (a ++ [Op.text x] ++ b)) = .ok t') :
    ∃ w ta kept, t.cur.widthMinus cfg p m = .ok w ∧
      runOps SubR.widthMinus cfg d { links := t.links, cur := ({ width := w, annStack := t.cur.annStack } : SubR) } a = .ok ta ∧
      t'.cur.marks = t.cur.marks ++ kept ∧ ta.cur.marks <+: kept := by
  generalize hbd : a ++ [Op.text x] ++ b = body at h
  simp only [runOp] at h
  cases e1 : t.cur.widthMinus cfg p m with
  | error e => simp [e1, andThen_error_eq] at h
  | ok w =>
    simp only [e1, andThen_ok_eq] at h
    cases e2 : runOps SubR.widthMinus cfg d { links := t.links, cur := ({ width := w, annStack := t.cur.annStack } : SubR) } body with
    | error e => simp [e2, andThen_error_eq] at h
    | ok r =>
      simp only [e2, andThen_ok_eq] at h
      rw [← hbd] at e2
      obtain ⟨_, f2⟩ := fresh_marks w t.cur.annStack
      obtain ⟨ta, rst, i1, i2, i3, mr⟩ := ink_protects cfg d a b x _ r htf f2 hk e2
      generalize e3 : (if asBlock = true then t.cur.startBlock else Except.ok t.cur) = r3 at h
      cases r3 with
      | error e => simp [andThen_error_eq] at h
      | ok s1 =>
        simp only [andThen_ok_eq] at h
        have st1 : s1.marks = t.cur.marks ∧ s1.MOk := by
          split at e3
          · obtain ⟨q1, q2⟩ := startBlock_marks _ s1 hm e3; exact ⟨q1, mOk_of_none q2⟩
          · injection e3 with e3; subst e3; exact ⟨rfl, hm⟩
        cases e4 : s1.appendSub r.cur first rest with
        | error e => simp [e4, andThen_error_eq] at h
        | ok s2 =>
          simp only [e4, andThen_ok_eq] at h; injection h with h; subst h
          obtain ⟨⟨kept, k1, k2⟩, _⟩ := appendSub_marks s1 r.cur s2 first rest st1.2 mr e4
          refine ⟨w, ta, kept, rfl, i1, ?_, ?_⟩
          · show (if asBlock = true then ({ s2 with atBlockEnd := true } : SubR) else s2).marks = _
            have : (if asBlock = true then ({ s2 with atBlockEnd := true } : SubR) else s2).marks = s2.marks := by split <;> rfl
            rw [this, k2, st1.1]
          · rw [i2] at k1
            exact prefix_of_append_eq kept r.cur.lostMarks ta.cur.marks rst k1.symm (Nat.le_trans (lostMarks_le_ub _) i3)

end H2T
