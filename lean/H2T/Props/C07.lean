import H2T.Lemmas.FitsBlock
import H2T.Props.C04
import H2T.Lemmas.SubCompose
import H2T.Lemmas.ListCompose

/-! # C07 — lists, quotes, headings prefix every line; ordered items count from start

In the nested program a prefixed block is one `sub` operation: its body runs on a *fresh* renderer whose
width is the parent's minus the prefix, and the result is appended with `first` in front of the first line and
`rest` in front of every later line (`zipPrefix`).  Status: **partial** — proved: the shape of `zipPrefix`
(one output line per content line, first/rest prefixes, nothing else changed); ordered-list numbers are
`start, start+1, …` (saturating at the ends of `i64`); markers are padded to the list's common width;
continuation indentation has that same width; **a block quote, a heading and a `dd` are their content rendered at the
narrower width with the prefix in front of every line** (`quote_is_prefixed_content`, `heading_is_prefixed_content`,
`dd_is_indented_content`, footnotes off), nested quotes stack their prefixes (`nested_quotes_stack`), and **a list is its
items** (`ul_is_its_items`, `ol_is_its_items`): each item rendered on its own at the narrower width, the bullet or the padded
number `start + i` in front of its first line, blank indentation of the same width in front of its later lines, one item
after the other.  That the body's run equals the content's own rendering is
definitional in `runOp (.sub …)` (the body starts from an empty renderer that shares only the annotation
stack); the monotonicity of decimal marker widths between the first and the last item is checked by the
harness over all starts in −100..100 ∪ {989..999}. -/

namespace H2T.C07

/-- every line of the content gets a prefix: the first line `first`, all later lines `rest`; the number of
    lines is unchanged -/
theorem zipPrefix_length (tag : Tag) (first rest : List Ch) (ls : List RLine) :
    (zipPrefix tag first rest ls).length = ls.length := by
  cases ls <;> simp [zipPrefix]

theorem zipPrefix_first (tag : Tag) (first rest : List Ch) (l : RLine) (ls : List RLine) :
    (zipPrefix tag first rest (l :: ls)).head? = some (prefixLine tag first l) := rfl

theorem zipPrefix_later (tag : Tag) (first rest : List Ch) (l : RLine) (ls : List RLine) (i : Nat) (h : i < ls.length) :
    (zipPrefix tag first rest (l :: ls))[i + 1]? = some (prefixLine tag rest ls[i]) := by
  simp [zipPrefix, h]

/-- a prefixed text line is the prefix's characters, tagged with the block's annotations, followed by the line -/
theorem prefixLine_text (tag : Tag) (p : List Ch) (tl : TLine) (hp : p ≠ []) :
    prefixLine tag p (.text tl) = .text (p.map (fun c => Elt.cell ⟨c, tag⟩) ++ tl) := by
  simp [prefixLine, hp]

/-- a prefixed line is exactly the prefix wider -/
theorem prefixLine_text_width (tag : Tag) (p : List Ch) (tl : TLine) :
    rlw (prefixLine tag p (.text tl)) = dispW p + lw tl := by
  by_cases hp : p = []
  · subst hp; simp [prefixLine, rlw, dispW]
  · have : p.isEmpty = false := by cases p <;> simp_all
    simp [prefixLine, this, rlw, dispW_cells]

/-- ordered items are numbered consecutively from `start` (saturating at the ends of i64, where the code uses
    saturating arithmetic) -/
theorem ol_numbers_consecutive (start : Int) (k : Nat) (h1 : i64Min ≤ start) (h2 : start + k ≤ i64Max) :
    olItemNumber start k = start + k := by
  unfold olItemNumber satI64
  have : ¬ (start + (k : Int) > i64Max) := by omega
  have : ¬ (start + (k : Int) < i64Min) := by have : (0 : Int) ≤ k := Int.natCast_nonneg k; omega
  simp [*]

theorem ol_first_number (start : Int) (h1 : i64Min ≤ start) (h2 : start ≤ i64Max) : olItemNumber start 0 = start := by
  simpa using ol_numbers_consecutive start 0 h1 (by simpa using h2)

/-- the number of the last item, as used for the common marker width -/
theorem ol_last_number (start : Int) (n : Nat) (hn : 0 < n) (h1 : i64Min ≤ start) (h2 : start + n ≤ i64Max) :
    olMaxNumber start n = start + n - 1 := by
  unfold olMaxNumber satI64
  have hk : (0 : Int) < n := by exact_mod_cast hn
  have a1 : ¬ (start + (n : Int) > i64Max) := by omega
  have a2 : ¬ (start + (n : Int) < i64Min) := by omega
  simp only [a1, a2, if_false]
  have b1 : ¬ (start + (n : Int) - 1 > i64Max) := by omega
  have b2 : ¬ (start + (n : Int) - 1 < i64Min) := by omega
  simp [b1, b2]

/-- a marker no wider than the common width is padded to exactly that width; continuation lines are indented
    by the same amount -/
theorem marker_padded (s : List Ch) (pw : Nat) (h : dispW s ≤ pw) : dispW (padTo s pw) = pw := by
  have happ : ∀ a b : List Ch, dispW (a ++ b) = dispW a + dispW b := by intro a b; simp [dispW]
  have hrep : ∀ n, dispW (List.replicate n spaceCh) = n := by
    intro n; induction n with
    | zero => rfl
    | succ n ih => simp [List.replicate_succ, dispW, spaceCh] at ih ⊢; omega
  rw [padTo, happ, hrep]; omega

theorem indentation_width (pw : Nat) : dispW (List.replicate pw spaceCh) = pw := by
  induction pw with
  | zero => rfl
  | succ n ih => simp [List.replicate_succ, dispW, spaceCh] at ih ⊢; omega

/-- the first and the last marker fit the common width by construction -/
theorem end_markers_fit (d : Deco) (start : Int) (n : Nat) :
    dispW (d.olPrefix start) ≤ olPrefixSize d start n ∧ dispW (d.olPrefix (olMaxNumber start n)) ≤ olPrefixSize d start n := by
  unfold olPrefixSize; omega

/-! non-vacuity: `<ol start=9><li>a<li>b</ol>` at width 20 gives "9.  a" / "10. b" (markers padded to 4) -/
example :
    let tree : RNode := .box {} (.ol 9) [.box {} .li [.text {} (strCh "a")], .box {} .li [.text {} (strCh "b")]]
    ((renderTree {} Deco.plain 20 tree).toOption.map fun ls =>
        ls.map fun l => match l with | .text tl => tl.filterMap (fun e => match e with | .cell c => some c.ch.cp | _ => none) | _ => [])
      = some [[57, 46, 32, 32, 97], [49, 48, 46, 32, 98]] := by decide +kernel

/-! ## compositionality -/

/-- without overflow `width_minus` grants exactly the width minus the prefix -/
theorem widthMinus_value (s : SubR) (cfg : Cfg) (p m w' : Nat) (hov : cfg.overflow = false) (h : s.widthMinus cfg p m = .ok w') :
    w' = s.width - p ∧ p ≤ s.width ∧ m ≤ w' := by
  unfold SubR.widthMinus at h
  simp only [hov, Bool.not_false, Bool.and_true] at h
  split at h
  · simp at h
  · rename_i hc
    injection h with h
    simp only [Bool.or_eq_true, decide_eq_true_eq, not_or, Nat.not_lt] at hc
    omega

/-- **a block quote is its content, rendered at the narrower width, with the quote mark on every line** -/
theorem quote_is_prefixed_content (cfg : Cfg) (d : Deco) (w w' : Nat) (kids : List RNode) (hfn : cfg.footnotes = false) (hw : w ≠ 0)
    (hw' : SubR.widthMinus { width := w } cfg (dispW d.quotePrefix)
      ((sizeOf d cfg.minWrap (.box {} .quote kids)).minW - dispW d.quotePrefix) = .ok w') (hw'0 : w' ≠ 0) :
    renderTree cfg d w (.box {} .quote kids) =
      (renderTree cfg d w' (.box {} .container kids)).map (zipPrefix [] d.quotePrefix d.quotePrefix) :=
  renderTree_prefixed cfg d w _ kids _ _ _ _ true (by simp [compile, styleOpen_dflt, styleClose_dflt]) hfn hw w' hw' hw'0

/-- **a heading is its content with the heading marker on every line** -/
theorem heading_is_prefixed_content (cfg : Cfg) (d : Deco) (w w' lvl : Nat) (kids : List RNode) (hfn : cfg.footnotes = false) (hw : w ≠ 0)
    (hw' : SubR.widthMinus { width := w } cfg (sizeOf d cfg.minWrap (.box {} (.header lvl) kids)).prefixSize
      ((sizeOf d cfg.minWrap (.box {} (.header lvl) kids)).minW - (sizeOf d cfg.minWrap (.box {} (.header lvl) kids)).prefixSize) = .ok w')
    (hw'0 : w' ≠ 0) :
    renderTree cfg d w (.box {} (.header lvl) kids) =
      (renderTree cfg d w' (.box {} .container kids)).map (zipPrefix [] (d.headerPrefix lvl) (d.headerPrefix lvl)) :=
  renderTree_prefixed cfg d w _ kids _ _ _ _ true (by simp [compile, styleOpen_dflt, styleClose_dflt]) hfn hw w' hw' hw'0

/-- **a definition (`dd`) is its content indented by two columns** -/
theorem dd_is_indented_content (cfg : Cfg) (d : Deco) (w w' : Nat) (kids : List RNode) (hfn : cfg.footnotes = false) (hw : w ≠ 0)
    (hw' : SubR.widthMinus { width := w } cfg 2 ((sizeOf d cfg.minWrap (.box {} .dd kids)).minW - 2) = .ok w') (hw'0 : w' ≠ 0) :
    renderTree cfg d w (.box {} .dd kids) =
      (renderTree cfg d w' (.box {} .container kids)).map (zipPrefix [] (strCh "  ") (strCh "  ")) :=
  renderTree_prefixed cfg d w _ kids _ _ _ _ false (by simp [compile, styleOpen_dflt, styleClose_dflt]) hfn hw w' hw' hw'0

/-- **nested quotes stack their prefixes**: the inner quote's lines get the mark twice -/
theorem nested_quotes_stack (cfg : Cfg) (d : Deco) (w w1 w2 : Nat) (kids : List RNode) (hfn : cfg.footnotes = false) (hw : w ≠ 0)
    (h1 : SubR.widthMinus { width := w } cfg (dispW d.quotePrefix)
      ((sizeOf d cfg.minWrap (.box {} .quote [.box {} .quote kids])).minW - dispW d.quotePrefix) = .ok w1) (hw1 : w1 ≠ 0)
    (h2 : SubR.widthMinus { width := w1 } cfg (dispW d.quotePrefix)
      ((sizeOf d cfg.minWrap (.box {} .quote kids)).minW - dispW d.quotePrefix) = .ok w2) (hw2 : w2 ≠ 0) :
    renderTree cfg d w (.box {} .quote [.box {} .quote kids]) =
      ((renderTree cfg d w2 (.box {} .container kids)).map (zipPrefix [] d.quotePrefix d.quotePrefix)).map
        (zipPrefix [] d.quotePrefix d.quotePrefix) := by
  rw [quote_is_prefixed_content cfg d w w1 _ hfn hw h1 hw1]
  have : renderTree cfg d w1 (.box {} .container [.box {} .quote kids]) = renderTree cfg d w1 (.box {} .quote kids) := by
    unfold renderTree
    have : compile cfg d (.box {} .container [.box {} .quote kids]) = compile cfg d (.box {} .quote kids) := by
      rw [compile_container]; simp [compileList]
    rw [this]
  rw [this, quote_is_prefixed_content cfg d w1 w2 kids hfn hw1 h2 hw2]

/-- **an unordered list is its items**: item `i` rendered on its own at the width `width_minus` grants, the bullet in front
    of its first line and blank indentation of the bullet's display width in front of its later lines, items concatenated
    in order (`itemLines`) -/
theorem ul_is_its_items (cfg : Cfg) (d : Deco) (w w' : Nat) (kids : List RNode) (hfn : cfg.footnotes = false) (hw : w ≠ 0)
    (hw' : SubR.widthMinus { width := w } cfg (dispW d.ulPrefix)
      ((sizeOf d cfg.minWrap (.box {} .ul kids)).minW - dispW d.ulPrefix) = .ok w') (hw'0 : w' ≠ 0) :
    renderTree cfg d w (.box {} .ul kids) =
      itemLines cfg d w' (fun _ => d.ulPrefix) (List.replicate (dispW d.ulPrefix) spaceCh) 0 kids :=
  renderTree_items cfg d w w' _ _ _ _ _ kids (by simp [compile, styleOpen_dflt, styleClose_dflt]) hfn hw hw' hw'0

/-- **an ordered list is its items**: item `i` carries the number `start + i` (saturating), its marker padded to the
    common width of the list's first and last markers; later lines are indented by that width -/
theorem ol_is_its_items (cfg : Cfg) (d : Deco) (w w' : Nat) (start : Int) (kids : List RNode) (hfn : cfg.footnotes = false) (hw : w ≠ 0)
    (hw' : SubR.widthMinus { width := w } cfg (olPrefixSize d start kids.length)
      ((sizeOf d cfg.minWrap (.box {} (.ol start) kids)).minW - (sizeOf d cfg.minWrap (.box {} (.ol start) kids)).prefixSize) = .ok w')
    (hw'0 : w' ≠ 0) :
    renderTree cfg d w (.box {} (.ol start) kids) =
      itemLines cfg d w' (fun i => padTo (d.olPrefix (olItemNumber start i)) (olPrefixSize d start kids.length))
        (List.replicate (olPrefixSize d start kids.length) spaceCh) 0 kids :=
  renderTree_items cfg d w w' _ _ _ _ _ kids (by simp [compile, styleOpen_dflt, styleClose_dflt]) hfn hw hw' hw'0

/-- what `itemLines` says, unfolded once -/
theorem itemLines_cons (cfg : Cfg) (d : Deco) (w' : Nat) (first : Nat → List Ch) (rest : List Ch) (i : Nat) (k : RNode) (ks : List RNode) :
    itemLines cfg d w' first rest i (k :: ks) =
      andThen (renderTree cfg d w' k) fun ls =>
      andThen (itemLines cfg d w' first rest (i + 1) ks) fun more => .ok (zipPrefix [] (first i) rest ls ++ more) := rfl

/-! non-vacuity: a quote at width 10 with the plain decorator -/
example : (SubR.widthMinus { width := 10 } {} (dispW Deco.plain.quotePrefix)
    ((sizeOf Deco.plain 3 (.box {} .quote [.text {} (strCh "hello world")])).minW - dispW Deco.plain.quotePrefix)).toOption = some 8 := by decide +kernel

/-! ## composition with the wrapping theorem: a paragraph inside a prefixed block -/

open H2T.Spec H2T.C04 in
/-- the characters of a prefixed line are the prefix followed by the line's characters -/
theorem rlineChars_prefixLine (tag : Tag) (p : List Ch) (l : RLine) :
    rlineChars (prefixLine tag p l) = p ++ rlineChars l := by
  have happ : ∀ a b : TLine, rlineChars (.text (a ++ b)) = rlineChars (.text a) ++ rlineChars (.text b) := by
    intro a b; simp only [rlineChars, List.filterMap_append]
  have hmap : ∀ (q : List Ch), rlineChars (.text (q.map fun c => Elt.cell ⟨c, tag⟩)) = q := by
    intro q
    induction q with
    | nil => rfl
    | cons a r ih =>
      have : rlineChars (.text ((a :: r).map fun c => Elt.cell ⟨c, tag⟩)) = a :: rlineChars (.text (r.map fun c => Elt.cell ⟨c, tag⟩)) := by
        simp only [rlineChars, List.map_cons, List.filterMap_cons]
      rw [this, ih]
  cases l with
  | text tl =>
    simp only [prefixLine]
    by_cases h : p.isEmpty = true
    · simp only [h, if_true]
      simp only [List.isEmpty_iff] at h; subst h; rfl
    · have h' : p.isEmpty = false := by simpa using h
      simp only [h', Bool.false_eq_true, if_false]
      rw [happ, hmap]
  | rule b t =>
    simp only [prefixLine, List.map_append]
    rw [happ, hmap, hmap]; rfl

theorem zipPrefix_same (tag : Tag) (p : List Ch) (ls : List RLine) : zipPrefix tag p p ls = ls.map (prefixLine tag p) := by
  cases ls <;> rfl

open H2T.Spec H2T.C04 in
/-- **a quoted paragraph is the quote mark in front of the greedy lines at the narrower width**: C07's compositionality and
    C04's refinement together — for the tree `blockquote[p[text]]`, every decorator, default wrapping options: the lines
    are `quotePrefix ++ l` for the lines `l` the reference wrapper produces at the width `width_minus` grants, or the
    reference's error -/
theorem quoted_paragraph_is_prefixed_greedy (cfg : Cfg) (d : Deco) (w w' : Nat) (s : List Ch) (hfn : cfg.footnotes = false) (hw : w ≠ 0)
    (hww : cfg.wrapWidth = none) (hpad : cfg.padBlocks = false) (hov : cfg.overflow = false)
    (hw' : SubR.widthMinus { width := w } cfg (dispW d.quotePrefix)
      ((sizeOf d cfg.minWrap (.box {} .quote [.box {} .block [.text {} s]])).minW - dispW d.quotePrefix) = .ok w') (hw'0 : 1 ≤ w')
    (hpos : ∀ wd ∈ words s, 0 < lwc wd) :
    (renderTree cfg d w (.box {} .quote [.box {} .block [.text {} s]])).map (fun ls => ls.map rlineChars) =
      (greedy w' (words s)).map (fun ls => ls.map (d.quotePrefix ++ ·)) := by
  rw [quote_is_prefixed_content cfg d w w' _ hfn hw hw' (by omega)]
  have hcont : renderTree cfg d w' (.box {} .container [.box {} .block [.text {} s]]) = renderTree cfg d w' (.box {} .block [.text {} s]) := by
    unfold renderTree
    simp only [compile_container, compileList, List.append_nil]
  rw [hcont]
  have hg := paragraph_is_greedy cfg d w' hw'0 hww hpad hov s hpos
  rw [← hg]
  -- every line of a paragraph is a text line, so the prefix lands in front of its characters
  cases hr : renderTree cfg d w' (.box {} .block [.text {} s]) with
  | error e => rfl
  | ok ls =>
    simp only [Except.map, zipPrefix_same, List.map_map]
    congr 1
    apply List.map_congr_left
    intro l _
    exact rlineChars_prefixLine [] d.quotePrefix l

open H2T.Spec H2T.C04 in
/-- **…under `max_wrap_width(m)`: the effective width is `min m (w − prefix)`, not `min m w`** — the clamp is applied inside
    the sub-renderer, against the width `width_minus` granted -/
theorem quoted_paragraph_is_prefixed_greedy_maxwrap (cfg : Cfg) (d : Deco) (w w' m : Nat) (s : List Ch) (hfn : cfg.footnotes = false)
    (hw : w ≠ 0) (hm : 1 ≤ m) (hww : cfg.wrapWidth = some m) (hpad : cfg.padBlocks = false) (hov : cfg.overflow = false)
    (hw' : SubR.widthMinus { width := w } cfg (dispW d.quotePrefix)
      ((sizeOf d cfg.minWrap (.box {} .quote [.box {} .block [.text {} s]])).minW - dispW d.quotePrefix) = .ok w') (hw'0 : 1 ≤ w')
    (hpos : ∀ wd ∈ words s, 0 < lwc wd) :
    (renderTree cfg d w (.box {} .quote [.box {} .block [.text {} s]])).map (fun ls => ls.map rlineChars) =
      (greedy (min m w') (words s)).map (fun ls => ls.map (d.quotePrefix ++ ·)) := by
  rw [quote_is_prefixed_content cfg d w w' _ hfn hw hw' (by omega)]
  have hcont : renderTree cfg d w' (.box {} .container [.box {} .block [.text {} s]]) = renderTree cfg d w' (.box {} .block [.text {} s]) := by
    unfold renderTree
    simp only [compile_container, compileList, List.append_nil]
  rw [hcont]
  have hg := paragraph_is_greedy_maxwrap cfg d w' m hw'0 hm hww hpad hov s hpos
  rw [← hg]
  cases hr : renderTree cfg d w' (.box {} .block [.text {} s]) with
  | error e => rfl
  | ok ls =>
    simp only [Except.map, zipPrefix_same, List.map_map]
    congr 1
    apply List.map_congr_left
    intro l _
    exact rlineChars_prefixLine [] d.quotePrefix l

open H2T.Spec H2T.C04 in
/-- **a quoted paragraph with inline markup, under any `max_wrap_width`**: the quote mark in front of the greedy lines of the
    paragraph's flat text at the effective width `wrapEff cfg w'` = `min m (w − prefix)` -/
theorem quoted_inline_paragraph_is_prefixed_greedy (cfg : Cfg) (d : Deco) (w w' : Nat) (kids : List RNode) (hfn : cfg.footnotes = false)
    (hw : w ≠ 0) (hpad : cfg.padBlocks = false) (hov : cfg.overflow = false)
    (hw' : SubR.widthMinus { width := w } cfg (dispW d.quotePrefix)
      ((sizeOf d cfg.minWrap (.box {} .quote [.box {} .block kids])).minW - dispW d.quotePrefix) = .ok w') (hw'0 : 1 ≤ w')
    (hm : 1 ≤ wrapEff cfg w') (hin : inlineNodes kids = true) (hpos : ∀ wd ∈ words (inlFlats d kids), 0 < lwc wd) :
    (renderTree cfg d w (.box {} .quote [.box {} .block kids])).map (fun ls => ls.map rlineChars) =
      (greedy (wrapEff cfg w') (words (inlFlats d kids))).map (fun ls => ls.map (d.quotePrefix ++ ·)) := by
  rw [quote_is_prefixed_content cfg d w w' _ hfn hw hw' (by omega)]
  have hcont : renderTree cfg d w' (.box {} .container [.box {} .block kids]) = renderTree cfg d w' (.box {} .block kids) := by
    unfold renderTree
    simp only [compile_container, compileList, List.append_nil]
  rw [hcont]
  have hg := inline_markup_paragraph_is_greedy_eff cfg d w' hw'0 hfn hm hpad hov kids hin hpos
  rw [← hg]
  cases hr : renderTree cfg d w' (.box {} .block kids) with
  | error e => rfl
  | ok ls =>
    simp only [Except.map, zipPrefix_same, List.map_map]
    congr 1
    apply List.map_congr_left
    intro l _
    exact rlineChars_prefixLine [] d.quotePrefix l

end H2T.C07
