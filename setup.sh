#!/bin/bash
# Build the framework from files on disk only (offline): Lean model + proofs + driver, Rust harness against /repo.
set -e
cd "$(dirname "$0")"
export CARGO_NET_OFFLINE=true
(cd lean && lake build H2T h2t_model)
[ -f harness/Cargo.lock ] || cp /repo/Cargo.lock harness/Cargo.lock
(cd harness && cargo build --offline)
mkdir -p work replays evidence
echo "setup ok"
