import H2T.Lemmas.WrapInv

/-! C01, wrap layer: under the wrap-layer invariant every operation of a `WrappedBlock` returns a value or the
    too-narrow error — never one of the model's `panic`/`hang` outcomes (arithmetic underflow, `unwrap` of a missing
    space tag, a loop that makes no progress). -/

namespace H2T

/-- the outcome is a value or `TooNarrow` — and `TooNarrow` only when width overflow is not allowed (`ov` is the
    `allow_width_overflow` flag in force) -/
def Safe (ov : Bool) {α : Type} (r : Except Err α) : Prop := ∀ e, r = .error e → e = .tooNarrow ∧ ov = false

theorem Safe.ok {ov : Bool} {α : Type} (a : α) : Safe ov (Except.ok a : Except Err α) := by intro e h; simp at h
theorem Safe.narrow {ov : Bool} {α : Type} (h : ov = false) : Safe ov (Except.error .tooNarrow : Except Err α) := by
  intro e he; injection he with he; exact ⟨he.symm, h⟩

theorem Safe.andThen {ov : Bool} {α β : Type} {x : Except Err α} {f : α → Except Err β} (hx : Safe ov x) (hf : ∀ a, x = .ok a → Safe ov (f a)) :
    Safe ov (andThen x f) := by
  cases x with
  | error e => intro e' h; simp [H2T.andThen] at h; subst h; exact hx e rfl
  | ok a => exact hf a rfl

/-- whatever the flag, an error can only be `TooNarrow` -/
theorem Safe.only_narrow {ov : Bool} {α : Type} {r : Except Err α} (h : Safe ov r) : ∀ e, r = .error e → e = .tooNarrow :=
  fun e he => (h e he).1

/-- with overflow allowed there is no error at all -/
theorem Safe.is_ok {α : Type} {r : Except Err α} (h : Safe true r) : ∃ a, r = .ok a := by
  cases r with
  | ok a => exact ⟨a, rfl⟩
  | error e => have := (h e rfl).2; simp at this

theorem Safe.cast {ov ov' : Bool} {α : Type} {r : Except Err α} (h : Safe ov r) (e : ov = ov') : Safe ov' r := e ▸ h

/-! ## hard wrap -/

theorem pieceLoop_safe (w : Nat) : ∀ (fuel : Nat) (b : WB) (ll wpos : Nat) (rest : List Cell) (moved : Bool),
    b.Inv → ll ≤ b.width - b.linelen → wpos + cellsW rest = w →
    rest.length + (if lw b.line = 0 then 0 else 1) < fuel → Safe b.overflow (b.pieceLoop w fuel ll wpos rest moved) := by
  intro fuel
  induction fuel with
  | zero => intro b ll wpos rest moved _ _ _ hf; omega
  | succ fuel ih =>
    intro b ll wpos rest moved hinv hll hw hf
    simp only [WB.pieceLoop]
    by_cases hgt : w - wpos > ll
    · simp only [hgt, if_true]
      have hs := scanFit_spec rest ll wpos
      simp only at hs
      obtain ⟨hs1, hs2, hs3, hs4, hs5⟩ := hs
      generalize hr : scanFit ll wpos rest = r at hs1 hs2 hs3 hs4 hs5
      obtain ⟨taken, rest1, ll1, wpos1⟩ := r
      simp only at hs1 hs2 hs3 hs4 hs5 ⊢
      cases rest1 with
      | nil =>
        exfalso
        have : cellsW rest = cellsW taken := by rw [← hs1]; simp
        omega
      | cons c more =>
        simp only
        have hrest : cellsW rest = cellsW taken + c.ch.w + cellsW more := by rw [← hs1]; simp; omega
        have hlen : rest.length = taken.length + (more.length + 1) := by rw [← hs1]; simp
        by_cases hnp : (taken.isEmpty && lw b.line = 0) = true
        · simp only [hnp, if_true]
          by_cases ho : b.overflow = true
          · rw [if_pos ho]
            have hpush : (b.pushCells [c]).wordlen = lw (b.pushCells [c]).word := hinv.wordlen_eq
            obtain ⟨hi2, hsame2, hl2⟩ := forceFlush_inv_overflow (b.pushCells [c]) hpush ho hinv.tag_ok
            have htk : taken = [] := by
              simp only [Bool.and_eq_true, List.isEmpty_iff] at hnp; exact hnp.1
            apply ih _ _ _ _ _ hi2 (by rw [hl2]; simp [WB.forceFlush, WB.pushCells]) (by subst htk; simp at hs4 hrest; omega)
            have : lw (b.pushCells [c]).forceFlush.line = 0 := by simp [WB.forceFlush, lw]
            rw [this]; subst htk; simp at hlen; simp; omega
          · rw [if_neg ho]; exact Safe.narrow (by simpa using ho)
        · simp only [hnp, Bool.false_eq_true, if_false]
          have hfitT : b.linelen + cellsW taken ≤ b.width := by have := hinv.line_fit; omega
          have hi1 := pushCells_inv b taken hinv hfitT
          obtain ⟨hi2, hsame2, hl2, _⟩ := forceFlush_inv _ hi1
          apply ih _ _ _ _ _ hi2 (by rw [hl2]; simp [WB.forceFlush, WB.pushCells]) (by simp at hs4 hrest ⊢; omega)
          have h0 : lw (b.pushCells taken).forceFlush.line = 0 := by simp [WB.forceFlush, lw]
          rw [h0]
          simp only [if_true, Nat.add_zero, List.length_cons]
          -- either something was taken, or the line was not empty before
          by_cases htk : taken = []
          · subst htk
            have : ¬ lw b.line = 0 := by simpa using hnp
            simp only [this, if_false] at hf
            simp at hlen; omega
          · have : 0 < taken.length := List.length_pos_iff.mpr htk
            have : (if lw b.line = 0 then 0 else 1) ≤ 1 := by split <;> omega
            omega
    · simp only [hgt, if_false]; exact Safe.ok _

theorem hardWrapPiece_safe (b : WB) (ll : Nat) (piece : List Cell) (hinv : b.Inv) (hll : ll ≤ b.width - b.linelen) :
    Safe b.overflow (b.hardWrapPiece ll piece) := by
  unfold WB.hardWrapPiece
  simp only
  apply Safe.andThen
  · apply pieceLoop_safe _ _ _ _ _ _ _ hinv hll (by simp)
    have : (if lw b.line = 0 then 0 else 1) ≤ 1 := by split <;> omega
    omega
  · intro r _
    obtain ⟨b1, ll1, wpos1, rest1, moved1⟩ := r
    simp only
    split
    · exact Safe.ok _
    · split <;> exact Safe.ok _

theorem hardWrapGo_safe (ps : List WItem) : ∀ (b : WB) (ll : Nat), b.Inv → ll ≤ b.width - b.linelen → Safe b.overflow (b.hardWrapGo ll ps) := by
  induction ps with
  | nil => intro b ll _ _; simp only [WB.hardWrapGo]; exact Safe.ok _
  | cons p ps ih =>
    intro b ll hi hll
    cases p with
    | frag n =>
      simp only [WB.hardWrapGo]
      have i1 : ({ b with line := b.line ++ [Elt.frag n] } : WB).Inv :=
        ⟨by simp [hi.linelen_eq, Elt.w], hi.wordlen_eq, hi.line_fit, hi.text_fit, hi.tag_ok⟩
      exact ih _ ll i1 hll
    | piece p =>
      simp only [WB.hardWrapGo]
      have hs := hardWrapPiece_safe b ll p hi hll
      cases hq : b.hardWrapPiece ll p with
      | error e => simp only; intro e' he'; injection he' with he'; subst he'; exact hs e hq
      | ok r =>
        obtain ⟨b1, ll1⟩ := r
        simp only
        obtain ⟨i1, k1, l1⟩ := hardWrapPiece_inv b b1 ll ll1 p hi hll hq
        exact (ih b1 ll1 i1 l1).cast k1.same.overflow

theorem hardWrap_safe (b : WB) (word : TLine) (hi : b.Inv) : Safe b.overflow (b.hardWrap word) := by
  unfold WB.hardWrap
  have : ¬ (b.linelen > b.width) := by have := hi.line_fit; omega
  simp only [this, if_false]
  exact hardWrapGo_safe _ b _ hi (Nat.le_refl _)

/-! ## the pending-whitespace loop, placing a word -/

theorem wsLoop_ok : ∀ (fuel : Nat) (b : WB), 0 < b.width → (0 < b.wslen → b.spacetag.isSome) → b.wslen < fuel →
    ∃ b', b.wsLoop fuel = .ok b' := by
  intro fuel
  induction fuel with
  | zero => intro b _ _ h; omega
  | succ fuel ih =>
    intro b hw ht hf
    simp only [WB.wsLoop]
    by_cases hz : b.wslen = 0
    · simp [hz]
    · simp only [hz, if_false]
      have hpos : 0 < b.wslen := Nat.pos_of_ne_zero hz
      cases hs : b.spacetag with
      | none => have := ht hpos; simp [hs] at this
      | some t =>
        simp only
        have hcopy : 0 < min b.wslen b.width := by
          rcases Nat.le_total b.wslen b.width with h | h
          · rw [Nat.min_eq_left h]; exact hpos
          · rw [Nat.min_eq_right h]; exact hw
        apply ih
        · show 0 < (if min b.wslen b.width = b.width then (b.pushWs (min b.wslen b.width) t).flushLine else b.pushWs (min b.wslen b.width) t).width
          split
          · unfold WB.flushLine; split <;> simpa [WB.pushWs, WB.forceFlush] using hw
          · simpa [WB.pushWs] using hw
        · intro _
          show (if min b.wslen b.width = b.width then (b.pushWs (min b.wslen b.width) t).flushLine else b.pushWs (min b.wslen b.width) t).spacetag.isSome
          split
          · unfold WB.flushLine; split <;> simp [WB.pushWs, WB.forceFlush, hs]
          · simp [WB.pushWs, hs]
        · show (if min b.wslen b.width = b.width then (b.pushWs (min b.wslen b.width) t).flushLine else b.pushWs (min b.wslen b.width) t).wslen - min b.wslen b.width < fuel
          have hwl : (if min b.wslen b.width = b.width then (b.pushWs (min b.wslen b.width) t).flushLine else b.pushWs (min b.wslen b.width) t).wslen = b.wslen := by
            split
            · unfold WB.flushLine; split <;> simp [WB.pushWs, WB.forceFlush]
            · simp [WB.pushWs]
          rw [hwl]; omega

theorem placeFits_safe (b : WB) (hi : b.Inv) : Safe b.overflow b.placeFits := by
  unfold WB.placeFits
  split
  · rename_i hz
    cases hs : b.spacetag with
    | none => have := hi.tag_ok hz; simp [hs] at this
    | some t => exact Safe.ok _
  · exact Safe.ok _

theorem disposeWs_safe (b : WB) (m : WS) (hi : b.Inv) : Safe b.overflow (b.disposeWs m) := by
  unfold WB.disposeWs
  split
  · split
    · exact Safe.ok _
    · split
      · rename_i hz
        cases hs : b.spacetag with
        | none => have := hi.tag_ok hz; simp [hs] at this
        | some t => exact Safe.ok _
      · exact Safe.ok _
  · exact Safe.ok _

theorem startWordLine_safe (b : WB) (m : WS) (hi : b.Inv) (hw : 0 < b.width) : Safe b.overflow (b.startWordLine m) := by
  unfold WB.startWordLine
  simp only
  obtain ⟨i1, s1, l1, ws1, st1, _, _⟩ := flushLine_inv b hi
  generalize hb3 : (if m = .pre then { b.flushLine with preWrapped := true } else b.flushLine) = b3
  have hw3 : 0 < b3.width := by rw [← hb3]; split <;> (show 0 < b.flushLine.width; rw [s1.width]; exact hw)
  have ht3 : 0 < b3.wslen → b3.spacetag.isSome := by
    rw [← hb3]; split <;> exact i1.tag_ok
  obtain ⟨b4, h4⟩ := wsLoop_ok (b3.wslen + 1) b3 hw3 ht3 (Nat.lt_succ_self _)
  rw [h4]; exact Safe.ok _

theorem flushWord_safe (b : WB) (m : WS) (hi : b.Inv) (hw : 0 < b.width ∨ b.word.noContent = true) : Safe b.overflow (b.flushWord m) := by
  unfold WB.flushWord
  by_cases hn : b.word.noContent = true
  · simp only [hn, if_true]; exact Safe.ok _
  · simp only [hn]
    have hw : 0 < b.width := by rcases hw with h | h; exact h; exact absurd h hn
    have hl : ¬ (b.linelen > b.width) := by have := hi.line_fit; omega
    simp only [hl, if_false]
    have i0 : ({ b with preWrapped := false } : WB).Inv := ⟨hi.linelen_eq, hi.wordlen_eq, hi.line_fit, hi.text_fit, hi.tag_ok⟩
    by_cases hfit : b.wslen + b.wordlen ≤ b.width - b.linelen
    · simp only [hfit, if_true]; exact placeFits_safe _ i0
    · simp only [hfit, if_false]
      apply Safe.andThen (disposeWs_safe _ m i0)
      intro b1 h1
      obtain ⟨i1, s1, _, _⟩ := disposeWs_inv _ b1 m i0 h1
      have hw1 : 0 < b1.width := by rw [s1.width]; exact hw
      apply Safe.andThen ((startWordLine_safe b1 m i1 hw1).cast s1.overflow)
      intro b4 h4
      obtain ⟨i4, s4, _, _⟩ := startWordLine_inv b1 b4 m i1 h4
      have i5 : ({ b4 with word := [], wordlen := 0 } : WB).Inv := ⟨i4.linelen_eq, rfl, i4.line_fit, i4.text_fit, i4.tag_ok⟩
      apply Safe.andThen ((hardWrap_safe _ _ i5).cast (s4.overflow.trans s1.overflow))
      intro b5 _
      exact Safe.ok _

/-! ## tabs -/

/-- an upper bound on the iterations the tab loop still needs -/
def tabBound (width pos : Nat) (one : Bool) : Nat :=
  if pos % 8 = 0 ∧ one = true then 1
  else if pos ≥ width then (if one then 2 else width + 4)
  else (width - pos) + 3

theorem tabLoop_ok (tag : Tag) : ∀ (fuel : Nat) (b : WB) (pos : Nat) (one : Bool), 0 < b.width →
    tabBound b.width pos one ≤ fuel → ∃ b', b.tabLoop tag pos one fuel = .ok b' := by
  intro fuel
  induction fuel with
  | zero =>
    intro b pos one hw hf
    exfalso
    unfold tabBound at hf
    split at hf
    · omega
    · split at hf
      · split at hf <;> omega
      · omega
  | succ fuel ih =>
    intro b pos one hw hf
    simp only [WB.tabLoop]
    by_cases hex : (pos % 8 != 0 || !one) = true
    · simp only [hex, if_true]
      have hne : ¬ (pos % 8 = 0 ∧ one = true) := by
        intro ⟨h1, h2⟩; simp [h1, h2] at hex
      by_cases hge : pos ≥ b.width
      · simp only [hge, if_true]
        have hwf : b.flushLine.width = b.width := by unfold WB.flushLine; split <;> rfl
        apply ih _ _ _ (by rw [hwf]; exact hw)
        rw [hwf]
        unfold tabBound at hf ⊢
        simp only [hne, if_false, hge, if_true] at hf
        cases one with
        | true => simp at hf ⊢; omega
        | false =>
          simp at hf ⊢
          have : ¬ (0 ≥ b.width) := by omega
          simp only [ge_iff_le, Nat.le_zero_eq] at this
          simp [this]; omega
      · simp only [hge, if_false]
        apply ih _ _ _ (by simpa using hw)
        show tabBound b.width (pos + 1) true ≤ fuel
        unfold tabBound at hf ⊢
        simp only [hne, if_false, hge] at hf
        by_cases h8 : (pos + 1) % 8 = 0
        · simp [h8]; omega
        · simp only [h8, false_and, if_false]
          by_cases hg2 : pos + 1 ≥ b.width
          · simp [hg2]; omega
          · simp only [hg2, if_false]; omega
    · simp only [hex]; exact ⟨b, rfl⟩

/-! ## characters and text -/

theorem Same.width_pos {b b' : WB} (h : Same b b') (hw : 0 < b.width) : 0 < b'.width := by rw [h.width]; exact hw

theorem addChar_safe (b : WB) (m : WS) (mt wt : Tag) (cur : Bool) (c : Ch) (hi : b.Inv) (hw : 0 < b.width) :
    Safe b.overflow (b.addChar m mt wt cur c) := by
  unfold WB.addChar
  simp only
  generalize hr : (if (c.ws && !b.word.noContent) = true then b.flushWord m else Except.ok b) = r
  have hsafe : Safe b.overflow r := by
    rw [← hr]; split
    · exact flushWord_safe b m hi (Or.inl hw)
    · exact Safe.ok _
  cases r with
  | error e => simp only; intro e' he'; injection he' with he'; subst he'; exact hsafe e rfl
  | ok b1 =>
    simp only
    have hb1 : b1.Inv ∧ Same b b1 := by
      split at hr
      · exact flushWord_inv b b1 m hi hr
      · injection hr with hr; subst hr; exact ⟨hi, Same.refl b⟩
    have hw1 : 0 < b1.width := hb1.2.width_pos hw
    split
    · split
      · split
        · exact Safe.ok _
        · split
          · obtain ⟨b', hb'⟩ := tabLoop_ok (if cur = true then wt else mt) (2 * b1.width + 20) b1 (b1.linelen + b1.wslen) false hw1 (by
              unfold tabBound
              split
              · omega
              · split
                · simp; omega
                · omega)
            rw [hb']; exact Safe.ok _
          · split
            · exact Safe.ok _
            · split
              · split <;> exact Safe.ok _
              · exact Safe.ok _
      · split <;> exact Safe.ok _
    · split
      · exact Safe.ok _
      · exact Safe.ok _

theorem addTextGo_safe (m : WS) (mt wt : Tag) (cs : List Ch) : ∀ (b : WB) (cur : Bool), b.Inv → 0 < b.width →
    Safe b.overflow (b.addTextGo m mt wt cur cs) := by
  induction cs with
  | nil => intro b cur _ _; simp only [WB.addTextGo]; exact Safe.ok _
  | cons c cs ih =>
    intro b cur hi hw
    simp only [WB.addTextGo]
    have hs := addChar_safe b m mt wt cur c hi hw
    cases hc : b.addChar m mt wt cur c with
    | error e => simp only; intro e' he'; injection he' with he'; subst he'; exact hs e hc
    | ok r =>
      obtain ⟨b', cur'⟩ := r
      simp only
      obtain ⟨i1, s1⟩ := addChar_inv b b' m mt wt cur cur' c hi hc
      exact (ih b' cur' i1 (s1.width_pos hw)).cast s1.overflow

/-- a block that can be finished: it has a positive width, or it never accepted any text -/
def WB.Live (b : WB) : Prop := 0 < b.width ∨ b.word.noContent = true

theorem addText_safe (b : WB) (m : WS) (mt wt : Tag) (cs : List Ch) (hi : b.Inv) : Safe b.overflow (b.addText m mt wt cs) := by
  unfold WB.addText
  unfold WB.zeroGuard
  by_cases hw : b.width = 0
  · simp only [hw, if_true]
    by_cases ho : b.overflow = true
    · rw [if_pos ho]
      simp only [andThen]
      have i1 : ({ b with width := 1 } : WB).Inv :=
        ⟨hi.linelen_eq, hi.wordlen_eq, by have := hi.line_fit; show b.linelen ≤ 1; omega, fun hf => by simp [ho] at hf, hi.tag_ok⟩
      exact addTextGo_safe m mt wt cs _ _ i1 (by simp)
    · simp only [ho]
      cases cs with
      | nil => simp [andThen, WB.addTextGo]; exact Safe.ok _
      | cons c cs => simp [andThen]; exact Safe.narrow (by simpa using ho)
  · simp only [hw, if_false, andThen]
    exact addTextGo_safe m mt wt cs _ _ hi (Nat.pos_of_ne_zero hw)

/-- `add_text` keeps the invariant and liveness in every mode (with overflow the zero-width guard widens the block to 1) -/
theorem addText_inv' (m : WS) (mt wt : Tag) (cs : List Ch) (b b' : WB) (hi : b.Inv) (hl : b.Live)
    (h : b.addText m mt wt cs = .ok b') : b'.Inv ∧ b'.Live ∧ b'.overflow = b.overflow ∧ b'.padBlocks = b.padBlocks := by
  unfold WB.addText WB.zeroGuard at h
  by_cases hw : b.width = 0
  · simp only [hw, if_true] at h
    by_cases ho : b.overflow = true
    · rw [if_pos ho] at h
      simp only [andThen] at h
      have i1 : ({ b with width := 1 } : WB).Inv :=
        ⟨hi.linelen_eq, hi.wordlen_eq, by have := hi.line_fit; show b.linelen ≤ 1; omega, fun hf => by simp [ho] at hf, hi.tag_ok⟩
      obtain ⟨i2, s2⟩ := addTextGo_inv m mt wt cs _ b' _ i1 h
      exact ⟨i2, Or.inl (by rw [s2.width]; simp), s2.overflow, s2.pad⟩
    · simp only [ho] at h
      cases cs with
      | nil => simp [andThen, WB.addTextGo] at h; subst h; exact ⟨hi, hl, rfl, rfl⟩
      | cons c cs => simp [andThen] at h
  · simp only [hw, if_false, andThen] at h
    obtain ⟨i2, s2⟩ := addTextGo_inv m mt wt cs _ b' _ hi h
    exact ⟨i2, Or.inl (by rw [s2.width]; exact Nat.pos_of_ne_zero hw), s2.overflow, s2.pad⟩

theorem finish_safe (b : WB) (hi : b.Inv) (hl : b.Live) : Safe b.overflow b.finish := by
  unfold WB.finish
  apply Safe.andThen (flushWord_safe b .normal hi hl)
  intro b' _
  exact Safe.ok _

end H2T
